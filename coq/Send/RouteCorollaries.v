(* User-facing corollaries of  rewrite_eq_spec_l : rewrite c recip = route_spec c recip
   (qmail-send.c rewrite(), stripvdomprepend()).  Statements follow addresses(5) / qmail-send(8):
   default host, locals before virtualdomains, the virtualdomains key order, case-insensitive
   matching, the bounce round trip (C10 <-> C14) and one step of the percent hack.
   New theorems only; the models in Send/Route.v are untouched. *)
From NQ Require Import Send.Route Send.RouteProofs.
From Coq Require String Ascii.
Local Open Scope N_scope.

(* ---------------------------------------------------------------- vocabulary *)
Definition no_at (s : bytes) : Prop := ~ In AT s.
Definition no_pct (s : bytes) : Prop := ~ In PCT s.

(* the percent hack does not fire on box@dom: dom is not listed, or box has no '%' *)
Definition pct_idle (c : ctl) (box dom : bytes) : Prop :=
  cm_has (percenthack c) dom = false \/ no_pct box.

(* the virtualdomains keys tried for box@dom, in order *)
Definition dom_keys (dom : bytes) : list bytes := [dom] ++ dot_suffixes dom ++ [[]].
Definition vd_keys (box dom : bytes) : list bytes := (box ++ AT :: dom) :: dom_keys dom.

(* the verdict read off the first key that has an entry *)
Definition vd_verdict (o : option bytes) (addr : bytes) : route :=
  match o with
  | Some [] => Remote addr
  | Some x => Local (x ++ [DASH] ++ addr)
  | None => Remote addr
  end.

Lemma pct_idle_nil c box dom : percenthack c = [] -> pct_idle c box dom.
Proof. intros H. left. rewrite H. reflexivity. Qed.

(* ---------------------------------------------------------------- splitting *)
Lemma rsplit_app_free b d ch : ~ In ch d -> rsplit (b ++ ch :: d) ch = Some (b, d).
Proof.
  intros H. unfold rsplit. rewrite (rchr_app_free b d ch H).
  destruct (Nat.eqb_spec (length b) (length (b ++ ch :: d))) as [E|_].
  - rewrite app_length in E. cbn [length] in E. lia.
  - rewrite firstn_app_len, skipn_app_len. reflexivity.
Qed.

Lemma rsplit_none_free s ch : ~ In ch s -> rsplit s ch = None.
Proof.
  intros H. unfold rsplit, rchr. rewrite (rchr_opt_atfree_none s ch H), Nat.eqb_refl. reflexivity.
Qed.

Lemma pct_spec_idle f c box dom : pct_idle c box dom -> pct_spec f c box dom = (box, dom).
Proof.
  intros [H|H]; destruct f as [|f]; cbn [pct_spec]; try reflexivity.
  - rewrite H. reflexivity.
  - destruct (cm_has (percenthack c) dom); [|reflexivity].
    rewrite (rsplit_none_free box PCT H). reflexivity.
Qed.

(* the routing rules once the percent hack is out of the way *)
Lemma route_plain c box dom :
  no_at dom -> pct_idle c box dom ->
  rewrite c (box ++ AT :: dom) =
  if cm_has (locals c) dom then Local (box ++ AT :: dom)
  else vd_verdict (first_key c (vd_keys box dom)) (box ++ AT :: dom).
Proof.
  intros Hd Hp. rewrite rewrite_eq_spec_l. unfold route_spec.
  rewrite (rsplit_app_free box dom AT Hd).
  rewrite (pct_spec_idle _ c box dom Hp).
  change (box ++ [AT] ++ dom) with (box ++ AT :: dom).
  rewrite (rsplit_app_free box dom AT Hd).
  reflexivity.
Qed.

(* ================================================================ 2. locals before virtualdomains *)
Theorem local_domain_wins_l c box dom :
  no_at dom -> pct_idle c box dom -> cm_has (locals c) dom = true ->
  rewrite c (box ++ AT :: dom) = Local (box ++ AT :: dom).
Proof.
  intros Hd Hp Hl. rewrite (route_plain c box dom Hd Hp), Hl. reflexivity.
Qed.
Print Assumptions local_domain_wins_l.

Corollary local_domain_wins_nopct_l c box dom :
  percenthack c = [] -> no_at dom -> cm_has (locals c) dom = true ->
  rewrite c (box ++ AT :: dom) = Local (box ++ AT :: dom).
Proof. intros Hp Hd Hl. apply local_domain_wins_l; [exact Hd | apply pct_idle_nil; exact Hp | exact Hl]. Qed.

(* ================================================================ 3. the virtualdomains key order *)
Theorem vdom_priority_l c box dom :
  no_at dom -> pct_idle c box dom -> cm_has (locals c) dom = false ->
  let addr := box ++ AT :: dom in
  rewrite c addr =
  match first_key c ([addr; dom] ++ dot_suffixes dom ++ [[]]) with
  | Some [] => Remote addr
  | Some x => Local (x ++ [DASH] ++ addr)
  | None => Remote addr
  end.
Proof.
  intros Hd Hp Hl addr. unfold addr. rewrite (route_plain c box dom Hd Hp), Hl. reflexivity.
Qed.
Print Assumptions vdom_priority_l.

(* (a) an entry for the whole address decides, whatever the domain, wildcard and catch-all entries say *)
Theorem vdom_full_address_first_l c box dom x :
  no_at dom -> pct_idle c box dom -> cm_has (locals c) dom = false ->
  cm_lookup (vdoms c) (box ++ AT :: dom) = Some x ->
  rewrite c (box ++ AT :: dom) =
  match x with [] => Remote (box ++ AT :: dom) | _ => Local (x ++ [DASH] ++ box ++ AT :: dom) end.
Proof.
  intros Hd Hp Hl Hx. rewrite (route_plain c box dom Hd Hp), Hl.
  unfold vd_keys. cbn [first_key]. rewrite Hx. destruct x; reflexivity.
Qed.
Print Assumptions vdom_full_address_first_l.

(* a key without entry is skipped *)
Lemma first_key_skip c k ks : cm_lookup (vdoms c) k = None -> first_key c (k :: ks) = first_key c ks.
Proof. intros H. cbn [first_key]. rewrite H. reflexivity. Qed.

Lemma first_key_none c ks : Forall (fun k => cm_lookup (vdoms c) k = None) ks -> first_key c ks = None.
Proof.
  induction ks as [|k ks IH]; intros H; [reflexivity|].
  inversion H as [|? ? Hk Hks]; subst. rewrite (first_key_skip c k ks Hk). apply IH. exact Hks.
Qed.

(* (b) no entry under any of the keys: remote, unchanged *)
Theorem vdom_no_entry_remote_l c box dom :
  no_at dom -> pct_idle c box dom -> cm_has (locals c) dom = false ->
  Forall (fun k => cm_lookup (vdoms c) k = None) (vd_keys box dom) ->
  rewrite c (box ++ AT :: dom) = Remote (box ++ AT :: dom).
Proof.
  intros Hd Hp Hl Hn. rewrite (route_plain c box dom Hd Hp), Hl.
  rewrite (first_key_none c _ Hn). reflexivity.
Qed.
Print Assumptions vdom_no_entry_remote_l.

Corollary vdom_empty_remote_l c box dom :
  no_at dom -> pct_idle c box dom -> cm_has (locals c) dom = false -> vdoms c = [] ->
  rewrite c (box ++ AT :: dom) = Remote (box ++ AT :: dom).
Proof.
  intros Hd Hp Hl Hv. apply vdom_no_entry_remote_l; try assumption.
  apply Forall_forall. intros k _. rewrite Hv. reflexivity.
Qed.

(* the domain entry decides when the whole address has none (used for the round trip below) *)
Lemma vdom_domain_keys_l c box dom :
  no_at dom -> pct_idle c box dom -> cm_has (locals c) dom = false ->
  cm_lookup (vdoms c) (box ++ AT :: dom) = None ->
  rewrite c (box ++ AT :: dom) = vd_verdict (first_key c (dom_keys dom)) (box ++ AT :: dom).
Proof.
  intros Hd Hp Hl Hx. rewrite (route_plain c box dom Hd Hp), Hl.
  unfold vd_keys. rewrite (first_key_skip c _ _ Hx). reflexivity.
Qed.

(* ================================================================ 1. the default host *)
(* Needs a side condition: rewrite() runs the percent-hack loop with i = the position of the '@' it
   has just appended, whereas for the spelled-out address i is the LAST '@'.  The two differ when
   envnoathost itself contains '@' (see default_host_counterexample below). *)
Theorem default_host_l c recip :
  no_at recip -> no_at (envnoathost c) ->
  rewrite c recip = rewrite c (recip ++ AT :: envnoathost c).
Proof.
  intros Hr He. rewrite !rewrite_eq_spec_l. unfold route_spec.
  rewrite (rsplit_none_free recip AT Hr), (rsplit_app_free recip (envnoathost c) AT He).
  reflexivity.
Qed.
Print Assumptions default_host_l.

(* the other sufficient condition: no percent hack at all *)
Theorem default_host_nopct_l c recip :
  no_at recip -> percenthack c = [] ->
  rewrite c recip = rewrite c (recip ++ AT :: envnoathost c).
Proof.
  intros Hr Hp. rewrite !rewrite_eq_spec_l. unfold route_spec.
  rewrite (rsplit_none_free recip AT Hr).
  pose proof (rchr_app_at recip (envnoathost c)) as Hat.
  destruct (rsplit_of_rchr _ AT Hat) as [R1 R2]. rewrite R1.
  set (b0 := firstn _ _) in *. set (d0 := skipn _ _) in *.
  rewrite (pct_spec_idle _ c recip (envnoathost c) (pct_idle_nil c _ _ Hp)).
  rewrite (pct_spec_idle _ c b0 d0 (pct_idle_nil c _ _ Hp)).
  change (b0 ++ [AT] ++ d0) with (b0 ++ AT :: d0). rewrite <- R2.
  reflexivity.
Qed.
Print Assumptions default_host_nopct_l.

(* ================================================================ 5. the bounce round trip (C10 <-> C14) *)
(* stripvdomprepend as a statement over the same key vocabulary: the keys are those of the DOMAIN
   only (the domain, its dot-suffixes, the catch-all) -- the whole-address key is never tried *)
Definition strip_verdict (o : option bytes) (recip : bytes) : bytes :=
  match o with
  | Some [] => recip
  | Some p => if is_prefix (p ++ [DASH]) recip then skipn (S (length p)) recip else recip
  | None => recip
  end.

Lemma svp_loop_keys c recip d is :
  svp_loop c recip d is =
  strip_verdict (first_key c (map (fun i => skipn i d) (filter (dpos d) is))) recip.
Proof.
  induction is as [|i is IH]; cbn [svp_loop filter]; [reflexivity|].
  destruct (dpos d i); [|exact IH].
  cbn [map first_key].
  destruct (cm_lookup (vdoms c) (skipn i d)) as [[|p0 p]|]; try reflexivity. exact IH.
Qed.

Theorem strip_spec_l c pre dom :
  no_at dom ->
  stripvdomprepend c (pre ++ AT :: dom) = strip_verdict (first_key c (dom_keys dom)) (pre ++ AT :: dom).
Proof.
  intros Hd. unfold stripvdomprepend. rewrite (rchr_app_free pre dom AT Hd).
  destruct (Nat.eqb_spec (length pre) (length (pre ++ AT :: dom))) as [E|_].
  - rewrite app_length in E. cbn [length] in E. lia.
  - rewrite skipn_app_len. rewrite svp_loop_keys.
    rewrite (filter_ext (dpos dom) (fpos dom)).
    + rewrite fkeys. reflexivity.
    + intros k. unfold dpos, fpos, gpos. rewrite orb_assoc. reflexivity.
Qed.
Print Assumptions strip_spec_l.

Lemma strip_verdict_hit x addr : x <> [] -> strip_verdict (Some x) (x ++ [DASH] ++ addr) = addr.
Proof.
  intros Hx. destruct x as [|x0 xs] eqn:Ex; [contradiction|]. rewrite <- Ex.
  unfold strip_verdict. rewrite Ex at 1.
  assert (P : is_prefix (x ++ [DASH]) (x ++ [DASH] ++ addr) = true).
  { apply is_prefix_spec. exists addr. rewrite <- app_assoc. reflexivity. }
  rewrite P. change (x ++ [DASH] ++ addr) with (x ++ DASH :: addr). apply skipn_app_len.
Qed.

(* the core: whenever the domain keys give the tag x, stripping x- from box@dom restores box@dom.
   x may contain '@' (the last '@' of the prefixed address is still the one of box@dom). *)
Lemma strip_after_tag_l c box dom x :
  no_at dom -> x <> [] -> first_key c (dom_keys dom) = Some x ->
  stripvdomprepend c (x ++ [DASH] ++ box ++ AT :: dom) = box ++ AT :: dom.
Proof.
  intros Hd Hx Hk.
  replace (x ++ [DASH] ++ box ++ AT :: dom) with ((x ++ [DASH] ++ box) ++ AT :: dom)
    by (rewrite <- !app_assoc; reflexivity).
  rewrite (strip_spec_l c _ dom Hd), Hk.
  replace ((x ++ [DASH] ++ box) ++ AT :: dom) with (x ++ [DASH] ++ box ++ AT :: dom)
    by (rewrite <- !app_assoc; reflexivity).
  apply strip_verdict_hit. exact Hx.
Qed.

Lemma app_len_neq (p a : bytes) : p <> [] -> p ++ a <> a.
Proof.
  intros Hp E. apply (f_equal (@length N)) in E. rewrite app_length in E.
  destruct p; [contradiction|]. cbn [length] in E. lia.
Qed.

Lemma tag_neq (x addr : bytes) : x ++ [DASH] ++ addr <> addr.
Proof. rewrite app_assoc. apply app_len_neq. destruct x; discriminate. Qed.
Lemma tag_inj (x y addr : bytes) : x ++ [DASH] ++ addr = y ++ [DASH] ++ addr -> x = y.
Proof. intros E. rewrite !app_assoc in E. apply app_inv_tail in E. apply app_inv_tail in E. exact E. Qed.

(* The round trip.  Side condition found: the deciding key must not be the whole address
   (cm_lookup ... = None); "domain not in locals" and "x non-empty" need not be assumed, they follow
   from the shape of the result. *)
Theorem strip_roundtrip_l c box dom x :
  no_at dom -> pct_idle c box dom ->
  cm_lookup (vdoms c) (box ++ AT :: dom) = None ->
  let addr := box ++ AT :: dom in
  rewrite c addr = Local (x ++ [DASH] ++ addr) ->
  stripvdomprepend c (x ++ [DASH] ++ addr) = addr.
Proof.
  intros Hd Hp Hfull addr Hr. unfold addr in *.
  rewrite (route_plain c box dom Hd Hp) in Hr.
  destruct (cm_has (locals c) dom).
  - injection Hr as Hr. exfalso. exact (tag_neq x _ (eq_sym Hr)).
  - unfold vd_keys in Hr. rewrite (first_key_skip c _ _ Hfull) in Hr.
    destruct (first_key c (dom_keys dom)) as [y|] eqn:Hk; cbn [vd_verdict] in Hr; [|discriminate].
    destruct y as [|y0 ys] eqn:Ey; [discriminate|]. rewrite <- Ey in *.
    injection Hr as Hr. pose proof (tag_inj y x _ Hr) as Hyx.
    subst x. apply (strip_after_tag_l c box dom y Hd); [rewrite Ey; discriminate | exact Hk].
Qed.
Print Assumptions strip_roundtrip_l.

(* exactly when does stripping a non-empty tag x restore box@dom?  iff the DOMAIN keys give x *)
Lemma app_eq_len (a b a' b' : bytes) : a ++ b = a' ++ b' -> length a = length a' -> a = a'.
Proof.
  revert a'. induction a as [|h a IH]; intros [|h' a'] E L; cbn in *; try lia; [reflexivity|].
  injection E as -> E. f_equal. apply IH; [exact E | lia].
Qed.

Theorem strip_roundtrip_iff_l c box dom x :
  no_at dom -> x <> [] ->
  (stripvdomprepend c (x ++ [DASH] ++ box ++ AT :: dom) = box ++ AT :: dom
   <-> first_key c (dom_keys dom) = Some x).
Proof.
  intros Hd Hx. split; [|apply strip_after_tag_l; assumption].
  replace (x ++ [DASH] ++ box ++ AT :: dom) with ((x ++ [DASH] ++ box) ++ AT :: dom)
    by (rewrite <- !app_assoc; reflexivity).
  rewrite (strip_spec_l c _ dom Hd).
  replace ((x ++ [DASH] ++ box) ++ AT :: dom) with ((x ++ [DASH]) ++ box ++ AT :: dom)
    by (rewrite <- !app_assoc; reflexivity).
  set (addr := box ++ AT :: dom).
  assert (Hne : (x ++ [DASH]) ++ addr <> addr) by (apply app_len_neq; destruct x; discriminate).
  destruct (first_key c (dom_keys dom)) as [p|]; cbn [strip_verdict]; [|intros E; contradiction].
  destruct p as [|p0 ps] eqn:Ep; [intros E; contradiction|]. rewrite <- Ep.
  destruct (is_prefix (p ++ [DASH]) ((x ++ [DASH]) ++ addr)) eqn:P; [|intros E; contradiction].
  intros E. apply is_prefix_spec in P as [t Ht].
  assert (L : length p = length x).
  { apply (f_equal (@length N)) in E. rewrite skipn_length, !app_length in E.
    assert (1 <= length addr)%nat by (unfold addr; rewrite app_length; cbn [length]; lia).
    cbn [length] in E. lia. }
  rewrite <- !app_assoc in Ht. symmetry in Ht. apply app_eq_len in Ht; [|exact L]. rewrite Ht. reflexivity.
Qed.
Print Assumptions strip_roundtrip_iff_l.

(* ================================================================ 4. the domain is matched case-insensitively *)
Lemma lower_eq_small ch k : k < 65 -> (lower ch =? k) = (ch =? k).
Proof.
  intros Hk. unfold lower.
  destruct (N.leb_spec 65 ch) as [H1|H1], (N.leb_spec ch 90) as [H2|H2]; cbn [andb]; try reflexivity.
  destruct (N.eqb_spec (ch + 32) k), (N.eqb_spec ch k); try reflexivity; lia.
Qed.
Lemma lower_same_small a b k : k < 65 -> lower a = lower b -> (a =? k) = (b =? k).
Proof. intros Hk E. rewrite <- (lower_eq_small a k Hk), <- (lower_eq_small b k Hk), E. reflexivity. Qed.

Lemma ci_eq_lowers k a a' : lowers a = lowers a' -> ci_eq k a = ci_eq k a'.
Proof. intros E. unfold ci_eq. rewrite E. reflexivity. Qed.

Lemma cm_lookup_lowers es a a' : lowers a = lowers a' -> cm_lookup es a = cm_lookup es a'.
Proof.
  intros E. unfold cm_lookup. generalize (@None bytes) as acc.
  induction es as [|e es IH]; intros acc; cbn [fold_left]; [reflexivity|].
  rewrite (ci_eq_lowers (fst e) a a' E). apply IH.
Qed.

Lemma cm_has_lowers ks a a' : lowers a = lowers a' -> cm_has ks a = cm_has ks a'.
Proof.
  intros E. unfold cm_has. induction ks as [|k ks IH]; cbn [existsb]; [reflexivity|].
  rewrite (ci_eq_lowers k a a' E), IH. reflexivity.
Qed.

Definition same_ci (a a' : bytes) : Prop := lowers a = lowers a'.

Lemma first_key_lowers c ks ks' : Forall2 same_ci ks ks' -> first_key c ks = first_key c ks'.
Proof.
  induction 1 as [|k k' ks ks' Hk _ IH]; [reflexivity|].
  cbn [first_key]. rewrite (cm_lookup_lowers (vdoms c) k k' Hk), IH. reflexivity.
Qed.

Lemma dot_suffixes_lowers d : forall d', same_ci d d' -> Forall2 same_ci (dot_suffixes d) (dot_suffixes d').
Proof.
  induction d as [|ch d IH]; intros [|ch' d'] E; unfold same_ci in E; cbn [lowers map] in E; try discriminate.
  - constructor.
  - injection E as E1 E2. cbn [dot_suffixes].
    assert (Hdot : (ch =? DOT) = (ch' =? DOT)) by (apply lower_same_small; [reflexivity | exact E1]).
    rewrite Hdot. apply Forall2_app; [|apply IH; exact E2].
    destruct (ch' =? DOT); constructor; [|constructor].
    unfold same_ci. cbn [lowers map]. unfold lowers in E2. rewrite E1, E2. reflexivity.
Qed.

Lemma no_at_lowers d : forall d', same_ci d d' -> no_at d -> no_at d'.
Proof.
  induction d as [|ch d IH]; intros [|ch' d'] E Hd; unfold same_ci in E; cbn [lowers map] in E; try discriminate.
  - exact Hd.
  - injection E as E1 E2. intros [H|H].
    + apply Hd. left. subst ch'.
      assert (X : (ch =? AT) = (AT =? AT)) by (apply lower_same_small; [reflexivity | exact E1]).
      rewrite N.eqb_refl in X. apply N.eqb_eq in X. exact X.
    + apply (IH d' E2); [|exact H]. intros Hin. apply Hd. right. exact Hin.
Qed.

Lemma lowers_app a b : lowers (a ++ b) = lowers a ++ lowers b.
Proof. unfold lowers. apply map_app. Qed.

Lemma same_ci_addr box dom dom' : same_ci dom dom' -> same_ci (box ++ AT :: dom) (box ++ AT :: dom').
Proof.
  intros E. unfold same_ci in *. rewrite !lowers_app. f_equal.
  change (lowers (AT :: dom)) with (lower AT :: lowers dom).
  change (lowers (AT :: dom')) with (lower AT :: lowers dom'). rewrite E. reflexivity.
Qed.

Definition mk_route (loc : bool) (a : bytes) : route := if loc then Local a else Remote a.

(* Same verdict (local / remote) and same prepended text; each address keeps its own spelling.
   ~ In AT dom' is not needed: it follows from lowers dom = lowers dom'. *)
Theorem case_insensitive_l c box dom dom' :
  no_at dom -> pct_idle c box dom -> lowers dom = lowers dom' ->
  exists (loc : bool) (pre : bytes),
    rewrite c (box ++ AT :: dom) = mk_route loc (pre ++ box ++ AT :: dom) /\
    rewrite c (box ++ AT :: dom') = mk_route loc (pre ++ box ++ AT :: dom') /\
    (pre = [] \/ exists x, x <> [] /\ pre = x ++ [DASH] /\ loc = true).
Proof.
  intros Hd Hp E.
  assert (Hd' : no_at dom') by (apply (no_at_lowers dom dom' E Hd)).
  assert (Hp' : pct_idle c box dom').
  { destruct Hp as [Hp|Hp]; [left|right; exact Hp].
    rewrite <- (cm_has_lowers (percenthack c) dom dom' E). exact Hp. }
  rewrite (route_plain c box dom Hd Hp), (route_plain c box dom' Hd' Hp').
  rewrite <- (cm_has_lowers (locals c) dom dom' E).
  destruct (cm_has (locals c) dom).
  - exists true, []. cbn [mk_route app]. auto.
  - assert (K : first_key c (vd_keys box dom) = first_key c (vd_keys box dom')).
    { apply first_key_lowers. unfold vd_keys, dom_keys.
      constructor; [apply same_ci_addr; exact E|].
      apply Forall2_app; [constructor; [exact E|constructor]|].
      apply Forall2_app; [apply dot_suffixes_lowers; exact E|].
      constructor; [reflexivity|constructor]. }
    rewrite <- K.
    destruct (first_key c (vd_keys box dom)) as [[|x0 xs]|]; cbn [vd_verdict].
    + exists false, []. cbn [mk_route app]. auto.
    + exists true, ((x0 :: xs) ++ [DASH]). cbn [mk_route]. rewrite <- !app_assoc.
      repeat split. right. exists (x0 :: xs). repeat split. discriminate.
    + exists false, []. cbn [mk_route app]. auto.
Qed.
Print Assumptions case_insensitive_l.

(* the same, read as three transfer rules *)
Corollary case_insensitive_cases_l c box dom dom' :
  no_at dom -> pct_idle c box dom -> lowers dom = lowers dom' ->
  let a := box ++ AT :: dom in let a' := box ++ AT :: dom' in
  (rewrite c a = Local a -> rewrite c a' = Local a') /\
  (forall x, rewrite c a = Local (x ++ [DASH] ++ a) -> rewrite c a' = Local (x ++ [DASH] ++ a')) /\
  (rewrite c a = Remote a -> rewrite c a' = Remote a').
Proof.
  intros Hd Hp E a a'. unfold a, a'.
  destruct (case_insensitive_l c box dom dom' Hd Hp E) as (loc & pre & R & R' & Hpre).
  rewrite R, R'. clear R R'.
  assert (T : forall (p q : bytes) (w : bytes), p ++ w = q ++ w -> p = q) by (intros p q w; apply app_inv_tail).
  repeat split.
  - destruct loc; cbn [mk_route]; [|discriminate]. intros H. injection H as H.
    apply (T pre [] _) in H. subst pre. reflexivity.
  - intros x. destruct loc; cbn [mk_route]; [|discriminate]. intros H. injection H as H.
    assert (H2 : pre ++ box ++ AT :: dom = (x ++ [DASH]) ++ box ++ AT :: dom) by (rewrite <- app_assoc; exact H).
    apply T in H2. subst pre. rewrite <- app_assoc. reflexivity.
  - destruct loc; cbn [mk_route]; [discriminate|]. intros H. injection H as H.
    apply (T pre [] _) in H. subst pre. reflexivity.
Qed.
Print Assumptions case_insensitive_cases_l.

(* ================================================================ 6. one step of the percent hack *)
Lemma pct_spec_fuel c : forall f f' box dom,
  (length box < f)%nat -> (length box < f')%nat -> pct_spec f c box dom = pct_spec f' c box dom.
Proof.
  induction f as [|f IH]; intros f' box dom H H'; [lia|]. destruct f' as [|f']; [lia|].
  cbn [pct_spec]. destruct (cm_has (percenthack c) dom); [|reflexivity].
  destruct (rsplit box PCT) as [[b d]|] eqn:E; [|reflexivity].
  destruct (rsplit_some _ _ _ _ E) as (_ & _ & _ & L). apply IH; lia.
Qed.

(* b%d2@dom with dom listed in percenthack is routed like b@d2.  The '%' used is the LAST one of the
   local part (d2 has no '%'), and d2 must not contain '@' (else b@d2 splits elsewhere); b is
   arbitrary (it may contain '%' -- the hack then goes on -- and '@'). *)
Theorem percent_hack_l c b d2 dom :
  no_at dom -> cm_has (percenthack c) dom = true -> no_pct d2 -> no_at d2 ->
  rewrite c (b ++ PCT :: d2 ++ AT :: dom) = rewrite c (b ++ AT :: d2).
Proof.
  intros Hd Hph Hp2 Ha2. rewrite !rewrite_eq_spec_l. unfold route_spec.
  replace (b ++ PCT :: d2 ++ AT :: dom) with ((b ++ PCT :: d2) ++ AT :: dom)
    by (rewrite <- app_assoc; reflexivity).
  rewrite (rsplit_app_free (b ++ PCT :: d2) dom AT Hd), (rsplit_app_free b d2 AT Ha2).
  cbn [pct_spec]. rewrite Hph. rewrite (rsplit_app_free b d2 PCT Hp2).
  rewrite (pct_spec_fuel c (length (b ++ PCT :: d2)) (S (length b)) b d2);
    [reflexivity | rewrite app_length; cbn [length]; lia | lia].
Qed.
Print Assumptions percent_hack_l.

(* and when the local part has no '%', or the domain is not listed, nothing happens: route_plain *)

(* ================================================================ concrete instances *)
(* Every theorem above is applied to a concrete configuration (its hypotheses are discharged by
   computation), and every side condition is witnessed by a computed counterexample. *)
Module Examples.
Import String.StringSyntax.
Local Open Scope string_scope.
Definition B (s : String.string) : bytes := map Ascii.N_of_ascii (String.list_ascii_of_string s).
Definition mk (e : String.string) (l p : list String.string) (v : list (String.string * String.string)) : ctl :=
  {| envnoathost := B e; locals := map B l; percenthack := map B p;
     vdoms := map (fun kv => (B (fst kv), B (snd kv))) v |}.

Lemma no_at_dec s : has AT s = false -> no_at s.
Proof. intros H Hin. apply has_In in Hin. rewrite H in Hin. discriminate. Qed.
Lemma no_pct_dec s : has PCT s = false -> no_pct s.
Proof. intros H Hin. apply has_In in Hin. rewrite H in Hin. discriminate. Qed.
Ltac dec := first [ apply no_at_dec; vm_compute; reflexivity
                  | apply no_pct_dec; vm_compute; reflexivity
                  | left; vm_compute; reflexivity
                  | vm_compute; reflexivity ].

(* a site: example.org is local although virtualdomains also names it; relay.example.org does the
   percent hack; no catch-all *)
Definition site : ctl :=
  mk "mail.example.org" ["localhost"; "example.org"] ["relay.example.org"]
     [ ("example.org", "shadow"); ("virt.example.net", "alice"); (".example.net", "wild");
       ("bob@virt.example.net", "bobbox"); ("blackhole.example", "") ].

(* 2 *)
Example local_domain_wins_ex :
  rewrite site (B "Joe@EXAMPLE.org") = Local (B "Joe@EXAMPLE.org").
Proof. apply (local_domain_wins_l site (B "Joe") (B "EXAMPLE.org")); dec. Qed.

(* 3: keys tried for bob@mx.virt.example.net: the address, mx.virt.example.net, .virt.example.net,
   .example.net (hit), .net, "" *)
Example vdom_priority_ex :
  rewrite site (B "bob@mx.virt.example.net") = Local (B "wild-bob@mx.virt.example.net").
Proof.
  pose proof (vdom_priority_l site (B "bob") (B "mx.virt.example.net")) as H.
  cbv zeta in H. change (B "bob@mx.virt.example.net") with (B "bob" ++ AT :: B "mx.virt.example.net").
  rewrite H; dec.
Qed.
Example vdom_full_address_first_ex :
  rewrite site (B "bob@virt.example.net") = Local (B "bobbox-bob@virt.example.net").
Proof.
  change (B "bob@virt.example.net") with (B "bob" ++ AT :: B "virt.example.net").
  rewrite (vdom_full_address_first_l site (B "bob") (B "virt.example.net") (B "bobbox")); dec.
Qed.
Example vdom_no_entry_remote_ex :
  rewrite site (B "ann@elsewhere.example.com") = Remote (B "ann@elsewhere.example.com").
Proof.
  apply (vdom_no_entry_remote_l site (B "ann") (B "elsewhere.example.com")); try dec.
  vm_compute. repeat constructor.
Qed.
Example vdom_empty_value_remote_ex :
  rewrite site (B "ann@blackhole.example") = Remote (B "ann@blackhole.example").
Proof. vm_compute. reflexivity. Qed.

(* 1 *)
Example default_host_ex :
  rewrite site (B "joe") = rewrite site (B "joe@mail.example.org").
Proof. apply (default_host_l site (B "joe")); dec. Qed.
(* envnoathost with '@' and its last part in percenthack: the two sides differ *)
Example default_host_counterexample :
  let c := mk "x@y" [] ["y"] [] in
  rewrite c (B "a%b") = Remote (B "a%b@x@y") /\
  rewrite c (B "a%b" ++ AT :: envnoathost c) = Remote (B "a@b@x").
Proof. vm_compute. split; reflexivity. Qed.

(* 5 *)
Example strip_roundtrip_ex :
  rewrite site (B "carol@virt.example.net") = Local (B "alice-carol@virt.example.net") /\
  stripvdomprepend site (B "alice-carol@virt.example.net") = B "carol@virt.example.net".
Proof.
  split; [vm_compute; reflexivity|].
  apply (strip_roundtrip_l site (B "carol") (B "virt.example.net") (B "alice")); dec.
Qed.
(* a tag containing '@' is harmless *)
Example strip_roundtrip_at_tag_ex :
  let c := mk "h" [] [] [("b", "x@y")] in
  rewrite c (B "a@b") = Local (B "x@y-a@b") /\ stripvdomprepend c (B "x@y-a@b") = B "a@b".
Proof. vm_compute. split; reflexivity. Qed.
(* the whole-address key decided: nothing is stripped ... *)
Example strip_full_key_counterexample_1 :
  let c := mk "h" [] [] [("a@b", "u")] in
  rewrite c (B "a@b") = Local (B "u-a@b") /\ stripvdomprepend c (B "u-a@b") = B "u-a@b".
Proof. vm_compute. split; reflexivity. Qed.
(* ... also when the domain has a different entry, or is marked remote ... *)
Example strip_full_key_counterexample_2 :
  let c := mk "h" [] [] [("a@b", "u"); ("b", "v")] in
  rewrite c (B "a@b") = Local (B "u-a@b") /\ stripvdomprepend c (B "u-a@b") = B "u-a@b".
Proof. vm_compute. split; reflexivity. Qed.
Example strip_full_key_counterexample_3 :
  let c := mk "h" [] [] [("a@b", "u"); ("b", "")] in
  rewrite c (B "a@b") = Local (B "u-a@b") /\ stripvdomprepend c (B "u-a@b") = B "u-a@b".
Proof. vm_compute. split; reflexivity. Qed.
(* ... or the wrong amount is stripped when the domain's tag is a prefix of the address's tag *)
Example strip_full_key_counterexample_4 :
  let c := mk "h" [] [] [("a@b", "v-u"); ("b", "v")] in
  rewrite c (B "a@b") = Local (B "v-u-a@b") /\ stripvdomprepend c (B "v-u-a@b") = B "u-a@b".
Proof. vm_compute. split; reflexivity. Qed.
(* on the site above: bob@virt.example.net is tagged bobbox by its own entry, the domain says alice *)
Example strip_full_key_counterexample_site :
  stripvdomprepend site (B "bobbox-bob@virt.example.net") = B "bobbox-bob@virt.example.net".
Proof. vm_compute. reflexivity. Qed.

(* 4 *)
Example case_insensitive_ex :
  rewrite site (B "bob@MX.Virt.Example.NET") = Local (B "wild-bob@MX.Virt.Example.NET") /\
  rewrite site (B "bob@mx.virt.example.net") = Local (B "wild-bob@mx.virt.example.net").
Proof.
  destruct (case_insensitive_cases_l site (B "bob") (B "mx.virt.example.net") (B "MX.Virt.Example.NET"))
    as (_ & H & _); try dec.
  split; [|vm_compute; reflexivity].
  apply (H (B "wild")). vm_compute. reflexivity.
Qed.

(* 6 *)
Example percent_hack_ex :
  rewrite site (B "joe%virt.example.net@relay.example.org") = rewrite site (B "joe@virt.example.net").
Proof. apply (percent_hack_l site (B "joe") (B "virt.example.net") (B "relay.example.org")); dec. Qed.
Example percent_hack_value_ex :
  rewrite site (B "joe%virt.example.net@relay.example.org") = Local (B "alice-joe@virt.example.net").
Proof. vm_compute. reflexivity. Qed.
(* d2 with '%': the last '%' is the one that is used *)
Example percent_hack_last_pct_counterexample :
  let c := mk "h" [] ["dom"] [] in
  rewrite c (B "a%x%y@dom") = Remote (B "a%x@y") /\ rewrite c (B "a@x%y") = Remote (B "a@x%y").
Proof. vm_compute. split; reflexivity. Qed.
(* d2 with '@' *)
Example percent_hack_at_counterexample :
  let c := mk "h" [] ["dom"; "e2"] [] in
  rewrite c (B "u%v%e1@e2@dom") = Remote (B "u%v@e1@e2") /\ rewrite c (B "u%v@e1@e2") = Remote (B "u@v@e1").
Proof. vm_compute. split; reflexivity. Qed.
End Examples.
