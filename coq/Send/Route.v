(* qmail-send.c: control-file parsing (control.c, constmap.c), rewrite(), senderadd(),
   stripvdomprepend(), addbounce() text, the bounce/double-bounce decision of injectbounce().
   Model only.  Serves C10 and C14. *)
From NQ Require Export Base.Bytes.
From Coq Require Export Arith.
Local Open Scope N_scope.

Definition AT : N := 64.
Definition PCT : N := 37.
Definition COLON : N := 58.
Definition HASH : N := 35.
Definition DASH : N := 45.
Definition EQS : N := 61.
Definition SP : N := 32.
Definition TAB : N := 9.

Definition ci_eq (a b : bytes) : bool := beq (lowers a) (lowers b).

(* byte_rchr: index of the last occurrence, or the length *)
Fixpoint rchr_opt (s : bytes) (c : N) : option nat :=
  match s with
  | [] => None
  | x :: s' => match rchr_opt s' c with
               | Some i => Some (S i)
               | None => if x =? c then Some 0%nat else None
               end
  end.
Definition rchr (s : bytes) (c : N) : nat :=
  match rchr_opt s c with Some i => i | None => length s end.

Fixpoint upd_b (l : bytes) (i : nat) (v : N) : bytes :=
  match l, i with
  | [], _ => []
  | _ :: t, O => v :: t
  | h :: t, S k => h :: upd_b t k v
  end.

(* ---- control.c / constmap.c ---- *)
Fixpoint strip_trailing_ws_rev (r : bytes) : bytes :=
  match r with
  | c :: r' => if (c =? LF) || (c =? SP) || (c =? TAB) then strip_trailing_ws_rev r' else r
  | [] => []
  end.
Definition strip_trailing_ws (l : bytes) : bytes := rev (strip_trailing_ws_rev (rev l)).

(* control_readfile: lines of a control file, trailing blanks removed, empty and # lines dropped
   (files without NUL bytes) *)
Definition control_lines (content : bytes) : list bytes :=
  filter (fun l => match l with [] => false | c :: _ => negb (c =? HASH) end)
         (map (fun lt => strip_trailing_ws (fst lt)) (lines_lf content)).

(* constmap_init with flagcolon: "key:value" split at the first colon; lines without one are skipped *)
Fixpoint split_colon (cur : bytes) (l : bytes) : option (bytes * bytes) :=
  match l with
  | [] => None
  | c :: l' => if c =? COLON then Some (rev cur, l') else split_colon (c :: cur) l'
  end.
Definition colon_entries (lines : list bytes) : list (bytes * bytes) :=
  flat_map (fun l => match split_colon [] l with Some kv => [kv] | None => [] end) lines.

(* constmap(): case-insensitive; entries are chained most-recent-first, so the LAST duplicate wins *)
Definition cm_lookup (entries : list (bytes * bytes)) (key : bytes) : option bytes :=
  fold_left (fun acc e => if ci_eq (fst e) key then Some (snd e) else acc) entries None.
Definition cm_has (keys : list bytes) (key : bytes) : bool := existsb (fun k => ci_eq k key) keys.

Record ctl := { envnoathost : bytes; locals : list bytes; percenthack : list bytes;
                vdoms : list (bytes * bytes) }.

(* ---- rewrite() ---- *)
Inductive route := Local (a : bytes) | Remote (a : bytes).

(* the while loop: addr (already truncated to its current length) and i = index of its '@' *)
Fixpoint phack (fuel : nat) (c : ctl) (addr : bytes) (i : nat) : bytes * nat :=
  match fuel with
  | O => (addr, i)
  | S f =>
    if cm_has (percenthack c) (skipn (S i) addr) then
      let j := rchr (firstn i addr) PCT in
      if Nat.eqb j i then (addr, i) else phack f c (upd_b (firstn i addr) j AT) j
    else (addr, i)
  end.

(* positions at which the virtualdomains loop looks up addr[i..] *)
Definition vpos (addr : bytes) (at_ : nat) (i : nat) : bool :=
  Nat.eqb i 0 || Nat.eqb i (S at_) || Nat.eqb i (length addr)
  || (Nat.ltb at_ i && (nth i addr 0 =? DOT)).

Fixpoint vloop (c : ctl) (addr : bytes) (at_ : nat) (is : list nat) : route :=
  match is with
  | [] => Remote addr
  | i :: is' =>
    if vpos addr at_ i then
      match cm_lookup (vdoms c) (skipn i addr) with
      | Some x => match x with [] => Remote addr | _ => Local (x ++ [DASH] ++ addr) end
      | None => vloop c addr at_ is'
      end
    else vloop c addr at_ is'
  end.

Definition rewrite (c : ctl) (recip : bytes) : route :=
  let i0 := rchr recip AT in
  let addr0 := if Nat.eqb i0 (length recip) then recip ++ [AT] ++ envnoathost c else recip in
  let (addr, _) := phack (length addr0) c addr0 i0 in
  let at_ := rchr addr AT in
  if cm_has (locals c) (skipn (S at_) addr) then Local addr
  else vloop c addr at_ (seq 0 (S (length addr))).

(* ---- senderadd(): VERP ---- *)
Definition s_verp : bytes := [45; 64; 91; 93].        (* "-@[]" *)
Definition ends_with (s suf : bytes) : bool := is_prefix (rev suf) (rev s).

Definition senderadd (sender recip : bytes) : bytes :=
  let i := length sender in
  if Nat.leb 4 i && ends_with sender s_verp then
    let j := rchr (firstn (i - 4) sender) AT in
    let k := rchr recip AT in
    if Nat.ltb k (length recip) && Nat.leb (j + 5) i then
      firstn j sender ++ firstn k recip ++ [EQS] ++ skipn (S k) recip ++ [AT]
      ++ firstn (i - 5 - j) (skipn (S j) sender)
    else sender
  else sender.

(* ---- bounces ---- *)
(* stripvdomprepend(): positions 0, domainlen and every dot of the domain *)
Definition dpos (domain : bytes) (i : nat) : bool :=
  Nat.eqb i 0 || Nat.eqb i (length domain) || (nth i domain 0 =? DOT).
Fixpoint svp_loop (c : ctl) (recip domain : bytes) (is : list nat) : bytes :=
  match is with
  | [] => recip
  | i :: is' =>
    if dpos domain i then
      match cm_lookup (vdoms c) (skipn i domain) with
      | Some p =>
        match p with
        | [] => recip
        | _ => if is_prefix (p ++ [DASH]) recip then skipn (S (length p)) recip else recip
        end
      | None => svp_loop c recip domain is'
      end
    else svp_loop c recip domain is'
  end.
Definition stripvdomprepend (c : ctl) (recip : bytes) : bytes :=
  let i := rchr recip AT in
  if Nat.eqb i (length recip) then recip
  else let domain := skipn (S i) recip in svp_loop c recip domain (seq 0 (S (length domain))).

(* the in-place right-to-left loop  for (pos = len-2; pos > 0; --pos)  as a left-to-right map:
   position pos is compared with the ORIGINAL byte before it; the last byte is never touched *)
Definition SLASHB : N := 47.
Definition USCORE : N := 95.
Fixpoint san (prev : N) (s : bytes) : bytes :=
  match s with
  | [] => []
  | [c] => [c]
  | c :: s' => (if (c =? LF) && (prev =? LF) then SLASHB else c) :: san c s'
  end.

Definition LT_ : N := 60.
Definition GT_ : N := 62.
Definition last_is_lf (s : bytes) : bool := ends_lf false s.

Definition addbounce_text (recip report : bytes) : bytes :=
  let r' := map (fun c => if c =? LF then USCORE else c) recip in
  let body := r' ++ [GT_; COLON; LF] ++ report ++ (match report with [] => [] | _ => if last_is_lf report then [] else [LF] end) in
  LT_ :: san LT_ body ++ [LF].

(* paragraph starts: a non-LF byte directly after a blank line (two LFs); p2 p1 = the two bytes before *)
Fixpoint pstarts (p2 p1 : N) (t : bytes) : nat :=
  match t with
  | [] => 0%nat
  | c :: t' => Nat.add (if negb (c =? LF) && (p1 =? LF) && (p2 =? LF) then 1%nat else 0%nat) (pstarts p1 c t')
  end.

(* injectbounce(): whom the notice goes to *)
Inductive bplan :=
  | BSingle (env_sender env_rcpt : bytes)
  | BDouble (env_sender env_rcpt : bytes)
  | BDiscard.
Definition s_dbl : bytes := [35; 64; 91; 93].         (* "#@[]" *)
Definition verp_base (sender : bytes) : bytes :=
  if Nat.leb 4 (length sender) && ends_with sender s_verp
  then firstn (length sender - 4) sender else sender.
Definition bounce_plan (doublebounceto : bytes) (sender : bytes) : bplan :=
  let s := verp_base sender in
  if beq s s_dbl then BDiscard
  else match s with
       | [] => BDouble s_dbl doublebounceto
       | _ => BSingle [] s
       end.
(* bounce generations: ordinary mail 2, bounce (empty sender) 1, double bounce 0 *)
Definition rank (sender : bytes) : nat :=
  let s := verp_base sender in
  if beq s s_dbl then 0%nat else match s with [] => 1%nat | _ => 2%nat end.
Definition plan_sender (p : bplan) : option bytes :=
  match p with BSingle s _ => Some s | BDouble s _ => Some s | BDiscard => None end.

(* ---- independent statement of the routing rules (qmail-send.9, addresses.5) ---- *)
(* split at the last occurrence of c: (before, after); None if absent *)
Definition rsplit (s : bytes) (c : N) : option (bytes * bytes) :=
  let i := rchr s c in
  if Nat.eqb i (length s) then None else Some (firstn i s, skipn (S i) s).

Fixpoint pct_spec (fuel : nat) (c : ctl) (box dom : bytes) : bytes * bytes :=
  match fuel with
  | O => (box, dom)
  | S f => if cm_has (percenthack c) dom then
             match rsplit box PCT with
             | Some (b, d) => pct_spec f c b d
             | None => (box, dom)
             end
           else (box, dom)
  end.
(* all suffixes of dom that start at a dot, longest first *)
Fixpoint dot_suffixes (dom : bytes) : list bytes :=
  match dom with
  | [] => []
  | ch :: d' => (if ch =? DOT then [dom] else []) ++ dot_suffixes d'
  end.
Fixpoint first_key (c : ctl) (keys : list bytes) : option bytes :=
  match keys with
  | [] => None
  | k :: ks => match cm_lookup (vdoms c) k with Some x => Some x | None => first_key c ks end
  end.
Definition route_spec (c : ctl) (recip : bytes) : route :=
  let (box0, dom0) := match rsplit recip AT with Some bd => bd | None => (recip, envnoathost c) end in
  let (box, dom) := pct_spec (S (length box0)) c box0 dom0 in
  let addr := box ++ [AT] ++ dom in
  let d := match rsplit addr AT with Some (_, d) => d | None => [] end in
  if cm_has (locals c) d then Local addr
  else match first_key c ([addr; d] ++ dot_suffixes d ++ [[]]) with
       | Some [] => Remote addr
       | Some x => Local (x ++ [DASH] ++ addr)
       | None => Remote addr
       end.

Definition route_eqb (a b : route) : bool :=
  match a, b with
  | Local x, Local y => beq x y
  | Remote x, Remote y => beq x y
  | _, _ => false
  end.
