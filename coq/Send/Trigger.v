(* The wake-up protocol between qmail-queue (link todo, then triggerpull) and qmail-send (todo_do:
   trigger_set = close + reopen the FIFO, then opendir/readdir), and the select timeout of main().
   Model only (C16).  The two programs are DATA (lists of operations in program order) so that the check
   can run the same interpreter on the order of calls it observes in the real binaries; the theorems are
   about [real_dprog] / [real_iprog], which the check compares with the observed order on every run.

   FIFO semantics (measured on this kernel, DESIGN section 3): open for writing without a reader fails
   (ENXIO) and the injector then skips write and close; a write without a reader fails (EPIPE, ignored);
   buffered data survive the reader's close while a writer holds the FIFO and are discarded when the last
   descriptor closes; select reports the reader readable iff data are buffered or (no writer is left and
   some writer opened since the reader's open). *)
From Coq Require Export List Arith ZArith Bool Lia.
Export ListNotations.

Inductive dop := DSelect | DCloseT | DOpenT | DOpendir | DScan.
Inductive iop := ILink | IOpenW | IWrite | ICloseW.
Definition real_dprog : list dop := [DSelect; DCloseT; DOpenT; DOpendir; DScan].
Definition real_iprog : list iop := [ILink; IOpenW; IWrite; ICloseW].

Record inj := { i_id : nat; i_pc : nat; i_wopen : bool }.       (* pc = index into the injector program *)
Record tst := {
  t_todo : list nat;            (* entries linked into todo/ and not yet taken by the daemon *)
  t_done : list nat;            (* entries the daemon has processed *)
  t_reader : bool;              (* the daemon holds the FIFO open for reading *)
  t_writers : nat;              (* injectors holding it open for writing *)
  t_data : bool;                (* a trigger byte is buffered *)
  t_wsince : bool;              (* a writer opened since the reader's open *)
  t_dpc : nat;                  (* index into the daemon program *)
  t_snap : list nat;            (* what readdir will still return in the scan in progress *)
  t_injs : list inj
}.

Definition readable (s : tst) : bool := t_data s || (Nat.eqb (t_writers s) 0 && t_wsince s).

Definition upd_inj (l : list inj) (k : nat) (j : inj) : list inj :=
  firstn k l ++ j :: skipn (S k) l.
Definition remove_id (n : nat) (l : list nat) : list nat := filter (fun m => negb (Nat.eqb m n)) l.
Definition mem (n : nat) (l : list nat) : bool := existsb (Nat.eqb n) l.

Definition set_injs (s : tst) (l : list inj) : tst :=
  {| t_todo := t_todo s; t_done := t_done s; t_reader := t_reader s; t_writers := t_writers s; t_data := t_data s;
     t_wsince := t_wsince s; t_dpc := t_dpc s; t_snap := t_snap s; t_injs := l |}.

(* one step of injector k; None = it has finished *)
Definition inj_step (ip : list iop) (s : tst) (k : nat) : option tst :=
  match nth_error (t_injs s) k with
  | None => None
  | Some j =>
    match nth_error ip (i_pc j) with
    | None => None
    | Some op =>
      let adv (w : bool) := upd_inj (t_injs s) k {| i_id := i_id j; i_pc := S (i_pc j); i_wopen := w |} in
      match op with
      | ILink =>
        Some {| t_todo := t_todo s ++ [i_id j]; t_done := t_done s; t_reader := t_reader s; t_writers := t_writers s;
                t_data := t_data s; t_wsince := t_wsince s; t_dpc := t_dpc s; t_snap := t_snap s; t_injs := adv (i_wopen j) |}
      | IOpenW =>
        if t_reader s
        then Some {| t_todo := t_todo s; t_done := t_done s; t_reader := true; t_writers := S (t_writers s);
                     t_data := t_data s; t_wsince := true; t_dpc := t_dpc s; t_snap := t_snap s; t_injs := adv true |}
        else Some (set_injs s (adv false))
      | IWrite =>
        if i_wopen j && t_reader s
        then Some {| t_todo := t_todo s; t_done := t_done s; t_reader := true; t_writers := t_writers s;
                     t_data := true; t_wsince := t_wsince s; t_dpc := t_dpc s; t_snap := t_snap s; t_injs := adv (i_wopen j) |}
        else Some (set_injs s (adv (i_wopen j)))
      | ICloseW =>
        if i_wopen j
        then let w := Nat.pred (t_writers s) in
             Some {| t_todo := t_todo s; t_done := t_done s; t_reader := t_reader s; t_writers := w;
                     t_data := if Nat.eqb w 0 && negb (t_reader s) then false else t_data s;
                     t_wsince := t_wsince s; t_dpc := t_dpc s; t_snap := t_snap s; t_injs := adv false |}
        else Some (set_injs s (adv false))
      end
    end
  end.

Definition next_dpc (dp : list dop) (pc : nat) : nat := if Nat.ltb (S pc) (length dp) then S pc else 0.

(* one step of the daemon; None = blocked in select (nothing readable; the clock is frozen so the periodic
   rescan never fires) *)
Definition d_step (dp : list dop) (s : tst) : option tst :=
  match nth_error dp (t_dpc s) with
  | None => None
  | Some op =>
    let nx := next_dpc dp (t_dpc s) in
    match op with
    | DSelect =>
      if readable s
      then Some {| t_todo := t_todo s; t_done := t_done s; t_reader := t_reader s; t_writers := t_writers s; t_data := t_data s;
                   t_wsince := t_wsince s; t_dpc := nx; t_snap := t_snap s; t_injs := t_injs s |}
      else None
    | DCloseT =>
      Some {| t_todo := t_todo s; t_done := t_done s; t_reader := false; t_writers := t_writers s;
              t_data := if Nat.eqb (t_writers s) 0 then false else t_data s;
              t_wsince := t_wsince s; t_dpc := nx; t_snap := t_snap s; t_injs := t_injs s |}
    | DOpenT =>
      Some {| t_todo := t_todo s; t_done := t_done s; t_reader := true; t_writers := t_writers s; t_data := t_data s;
              t_wsince := false; t_dpc := nx; t_snap := t_snap s; t_injs := t_injs s |}
    | DOpendir =>
      Some {| t_todo := t_todo s; t_done := t_done s; t_reader := t_reader s; t_writers := t_writers s; t_data := t_data s;
              t_wsince := t_wsince s; t_dpc := nx; t_snap := t_todo s; t_injs := t_injs s |}
    | DScan =>
      match t_snap s with
      | [] => Some {| t_todo := t_todo s; t_done := t_done s; t_reader := t_reader s; t_writers := t_writers s; t_data := t_data s;
                      t_wsince := t_wsince s; t_dpc := nx; t_snap := []; t_injs := t_injs s |}
      | n :: r =>
        if mem n (t_todo s)
        then Some {| t_todo := remove_id n (t_todo s); t_done := n :: t_done s; t_reader := t_reader s; t_writers := t_writers s;
                     t_data := t_data s; t_wsince := t_wsince s; t_dpc := t_dpc s; t_snap := r; t_injs := t_injs s |}
        else Some {| t_todo := t_todo s; t_done := t_done s; t_reader := t_reader s; t_writers := t_writers s;
                     t_data := t_data s; t_wsince := t_wsince s; t_dpc := t_dpc s; t_snap := r; t_injs := t_injs s |}
      end
    end
  end.
(* readdir may also return an entry linked after opendir (the directory is read live): only during a scan *)
Definition d_late (dp : list dop) (s : tst) (n : nat) : option tst :=
  match nth_error dp (t_dpc s) with
  | Some DScan =>
    if mem n (t_todo s)
    then Some {| t_todo := remove_id n (t_todo s); t_done := n :: t_done s; t_reader := t_reader s; t_writers := t_writers s;
                 t_data := t_data s; t_wsince := t_wsince s; t_dpc := t_dpc s; t_snap := t_snap s; t_injs := t_injs s |}
    else None
  | _ => None
  end.

(* a schedule: who moves next.  A move that is not enabled leaves the state alone. *)
Inductive move := MInj (k : nat) | MDaemon | MLate (n : nat).
Definition step (dp : list dop) (ip : list iop) (s : tst) (m : move) : tst :=
  match (match m with MInj k => inj_step ip s k | MDaemon => d_step dp s | MLate n => d_late dp s n end) with
  | Some s' => s'
  | None => s
  end.
Definition run (dp : list dop) (ip : list iop) (s : tst) (ms : list move) : tst := fold_left (step dp ip) ms s.

(* qmail-send after start-up: todo_init() has opened the FIFO and the first pass scans unconditionally, which
   is the state "select has just returned with the trigger pulled" *)
Definition init (dp : list dop) (ids : list nat) : tst :=
  {| t_todo := []; t_done := []; t_reader := true; t_writers := 0; t_data := false; t_wsince := false;
     t_dpc := (if Nat.ltb 1 (length dp) then 1 else 0); t_snap := [];
     t_injs := map (fun n => {| i_id := n; i_pc := 0; i_wopen := false |}) ids |}.

Definition inj_finished (ip : list iop) (j : inj) : bool := Nat.leb (length ip) (i_pc j).
(* the daemon alone, deterministically (no late entries), for at most [fuel] steps or until it blocks *)
Fixpoint d_alone (dp : list dop) (fuel : nat) (s : tst) : tst :=
  match fuel with
  | O => s
  | S f => match d_step dp s with Some s' => d_alone dp f s' | None => s end
  end.
(* a lost wake-up: an injection has completed, its entry is still in todo/, and the daemon left alone
   blocks in select without ever taking it *)
Definition lost (dp : list dop) (ip : list iop) (s : tst) : bool :=
  let s' := d_alone dp (4 * (length (t_todo s) + length (t_snap s)) + 4 * length dp + 8) s in
  existsb (fun j => inj_finished ip j && mem (i_id j) (t_todo s')) (t_injs s).

(* ------------------------------------------------------------------ exhaustive search (for the check) *)
(* all interleavings of the injectors' remaining steps with at most [dfuel] daemon moves, depth-first;
   returns the first schedule after which [lost] holds *)
Fixpoint search (dp : list dop) (ip : list iop) (fuel : nat) (s : tst) (sched : list move) : option (list move) :=
  if lost dp ip s then Some (rev sched) else
  match fuel with
  | O => None
  | S f =>
    let try_inj :=
      fold_left (fun acc k => match acc with
                              | Some r => Some r
                              | None => match inj_step ip s k with
                                        | Some s' => search dp ip f s' (MInj k :: sched)
                                        | None => None
                                        end
                              end) (seq 0 (length (t_injs s))) None in
    match try_inj with
    | Some r => Some r
    | None => match d_step dp s with
              | Some s' => search dp ip f s' (MDaemon :: sched)
              | None => None
              end
    end
  end.

(* ------------------------------------------------------------------ the select timeout of main() *)
Local Open Scope Z_scope.
Record sel := {
  recent : Z; exitasap : bool;
  pass_ready : bool;            (* some channel has a pass in progress with a free delivery slot *)
  job_free : bool;              (* job_avail() *)
  chan_due : list Z;            (* heads of pqchan[c] for the channels with no pass in progress *)
  fail_due : option Z; done_due : option Z;         (* heads of pqfail, pqdone *)
  scanning : bool;              (* tododir != 0 *)
  nexttodorun : Z; flagcleanup : bool; cleanuptime : Z }.
Definition SLEEP_FOREVER : Z := 86400.
Definition SLEEP_FUZZ : Z := 1.
Definition zmin_opt (w : Z) (o : option Z) : Z := match o with Some d => Z.min w d | None => w end.
Definition pass_selprep (x : sel) (w : Z) : Z :=
  if exitasap x then w else
  if pass_ready x then 0 else
  let w1 := if job_free x then fold_left Z.min (chan_due x) w else w in
  zmin_opt (zmin_opt w1 (fail_due x)) (done_due x).
Definition todo_selprep (x : sel) (w : Z) : Z :=
  if exitasap x then w else
  let w1 := if scanning x then 0 else w in Z.min w1 (nexttodorun x).
Definition cleanup_selprep (x : sel) (w : Z) : Z :=
  let w1 := if flagcleanup x then 0 else w in Z.min w1 (cleanuptime x).
Definition wakeup (x : sel) : Z := cleanup_selprep x (todo_selprep x (pass_selprep x (recent x + SLEEP_FOREVER))).
Definition timeout (x : sel) : Z := if wakeup x <=? recent x then 0 else wakeup x - recent x + SLEEP_FUZZ.
(* every time at which something could be started *)
Definition due_times (x : sel) : list Z :=
  (if exitasap x then [] else
     (if job_free x then chan_due x else []) ++ (match fail_due x with Some d => [d] | None => [] end)
     ++ (match done_due x with Some d => [d] | None => [] end) ++ [nexttodorun x])
  ++ [cleanuptime x].
Definition work_now (x : sel) : bool :=
  (negb (exitasap x) && (pass_ready x || scanning x)) || flagcleanup x
  || existsb (fun d => d <=? recent x) (due_times x).
