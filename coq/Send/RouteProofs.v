From NQ Require Import Send.Route.
Local Open Scope N_scope.

(* ---------------------------------------------------------------- rchr *)
Lemma rchr_opt_some s c : forall i, rchr_opt s c = Some i ->
  (i < length s)%nat /\ s = firstn i s ++ c :: skipn (S i) s /\ rchr_opt (skipn (S i) s) c = None.
Proof.
  induction s as [|x s IH]; intros i H; [discriminate|].
  cbn in H. destruct (rchr_opt s c) as [j|] eqn:E.
  - injection H as <-. destruct (IH j eq_refl) as (A & B & C).
    cbn. repeat split; [lia| f_equal; exact B | exact C].
  - destruct (N.eqb_spec x c); [|discriminate]. injection H as <-. subst x.
    cbn. repeat split; [lia| exact E].
Qed.

Lemma rchr_opt_none_app a b c : rchr_opt (a ++ b) c = None -> rchr_opt a c = None /\ rchr_opt b c = None.
Proof.
  induction a as [|x a IH]; cbn; intros H; [auto|].
  destruct (rchr_opt (a ++ b) c) eqn:E; [discriminate|].
  destruct (IH eq_refl) as [A B]. rewrite A. destruct (x =? c); [discriminate|auto].
Qed.

Lemma rchr_opt_app_found a b c : rchr_opt b c = None ->
  rchr_opt (a ++ c :: b) c = Some (length a).
Proof.
  intros H. induction a as [|x a IH]; cbn.
  - rewrite H, N.eqb_refl. reflexivity.
  - rewrite IH. reflexivity.
Qed.

Lemma skipn_app_len (a b : bytes) x : skipn (S (length a)) (a ++ x :: b) = b.
Proof. induction a; cbn; auto. Qed.
Lemma firstn_app_len (a b : bytes) : firstn (length a) (a ++ b) = a.
Proof. induction a; cbn; [destruct b; reflexivity | f_equal; assumption]. Qed.

Lemma upd_b_split l : forall j v, (j < length l)%nat -> upd_b l j v = firstn j l ++ v :: skipn (S j) l.
Proof. induction l as [|h t IH]; intros [|j] v H; cbn in *; try lia; [reflexivity|]. rewrite IH by lia. reflexivity. Qed.

(* ---------------------------------------------------------------- percent hack *)
Lemma rsplit_some s c b d : rsplit s c = Some (b, d) ->
  s = b ++ c :: d /\ rchr_opt d c = None /\ rchr s c = length b /\ (length b < length s)%nat.
Proof.
  unfold rsplit, rchr. destruct (rchr_opt s c) as [i|] eqn:E.
  - destruct (rchr_opt_some s c i E) as (A & B & C).
    destruct (Nat.eqb_spec i (length s)); [lia|]. intros H. injection H as <- <-.
    rewrite firstn_length, Nat.min_l by lia. auto.
  - rewrite Nat.eqb_refl. discriminate.
Qed.
Lemma rsplit_none s c : rsplit s c = None -> rchr s c = length s.
Proof.
  unfold rsplit, rchr. destruct (rchr_opt s c) as [i|] eqn:E; [|reflexivity].
  destruct (rchr_opt_some s c i E) as (A & _). destruct (Nat.eqb_spec i (length s)); [lia|discriminate].
Qed.

Lemma phack_spec f1 c : forall f2 box dom,
  (length box < f1)%nat -> (length box < f2)%nat ->
  phack f1 c (box ++ AT :: dom) (length box) =
  (let (b, d) := pct_spec f2 c box dom in (b ++ AT :: d, length b)).
Proof.
  induction f1 as [|f1 IH]; intros f2 box dom H1 H2; [lia|].
  destruct f2 as [|f2]; [lia|].
  cbn [phack pct_spec]. rewrite skipn_app_len, firstn_app_len.
  destruct (cm_has (percenthack c) dom); [|reflexivity].
  destruct (rsplit box PCT) as [[b d]|] eqn:E.
  - destruct (rsplit_some _ _ _ _ E) as (A & B & C & D). rewrite C.
    destruct (Nat.eqb_spec (length b) (length box)); [lia|].
    rewrite upd_b_split by lia.
    assert (F1 : firstn (length b) box = b) by (rewrite A; apply firstn_app_len).
    assert (F2 : skipn (S (length b)) box = d) by (rewrite A; apply skipn_app_len).
    rewrite F1, F2. apply IH; lia.
  - rewrite (rsplit_none _ _ E), Nat.eqb_refl. reflexivity.
Qed.

(* ---------------------------------------------------------------- virtualdomains keys *)
Fixpoint first_match (c : ctl) (keys : list bytes) (addr : bytes) : route :=
  match keys with
  | [] => Remote addr
  | k :: ks => match cm_lookup (vdoms c) k with
               | Some [] => Remote addr
               | Some x => Local (x ++ [DASH] ++ addr)
               | None => first_match c ks addr
               end
  end.

Lemma vloop_first_match c addr at_ is :
  vloop c addr at_ is = first_match c (map (fun i => skipn i addr) (filter (vpos addr at_) is)) addr.
Proof.
  induction is as [|i is IH]; cbn; [reflexivity|].
  destruct (vpos addr at_ i); cbn; [|exact IH].
  destruct (cm_lookup (vdoms c) (skipn i addr)) as [[|x0 x]|]; try reflexivity. exact IH.
Qed.

Lemma first_match_first_key c keys addr :
  first_match c keys addr = match first_key c keys with
                            | Some [] => Remote addr
                            | Some x => Local (x ++ [DASH] ++ addr)
                            | None => Remote addr
                            end.
Proof.
  induction keys as [|k ks IH]; cbn; [reflexivity|].
  destruct (cm_lookup (vdoms c) k) as [[|x0 x]|]; try reflexivity. exact IH.
Qed.

Lemma first_key_dup c k l : first_key c (k :: k :: l) = first_key c (k :: l).
Proof. cbn. destruct (cm_lookup (vdoms c) k); reflexivity. Qed.

(* positions k of the domain d at which a lookup happens, apart from k = 0 *)
Definition gpos (d : bytes) (k : nat) : bool := Nat.eqb k (length d) || (nth k d 0 =? DOT).
Lemma filter_map_comm {A B} (f : B -> bool) (g : A -> B) l :
  filter f (map g l) = map g (filter (fun x => f (g x)) l).
Proof. induction l as [|x l IH]; cbn; [reflexivity|]. destruct (f (g x)); cbn; rewrite IH; reflexivity. Qed.

Lemma gkeys d : map (fun k => skipn k d) (filter (gpos d) (seq 0 (S (length d)))) = dot_suffixes d ++ [[]].
Proof.
  induction d as [|ch d IH]; [reflexivity|].
  cbn [length].
  change (seq 0 (S (S (length d)))) with (0%nat :: seq 1 (S (length d))).
  rewrite <- seq_shift. cbn [filter].
  rewrite filter_map_comm.
  rewrite (filter_ext (fun x => gpos (ch :: d) (S x)) (gpos d)) by (intros k; reflexivity).
  assert (E0 : gpos (ch :: d) 0 = (ch =? DOT)) by reflexivity. rewrite E0.
  cbn [dot_suffixes].
  destruct (ch =? DOT); cbn [map app]; rewrite map_map; cbn [skipn]; rewrite IH; reflexivity.
Qed.

(* with the k = 0 clause the list only gains a (possibly duplicate) leading d *)
Definition fpos (d : bytes) (k : nat) : bool := Nat.eqb k 0 || gpos d k.
Lemma fkeys c d :
  first_key c (map (fun k => skipn k d) (filter (fpos d) (seq 0 (S (length d))))) =
  first_key c ([d] ++ dot_suffixes d ++ [[]]).
Proof.
  rewrite <- gkeys.
  change (seq 0 (S (length d))) with (0%nat :: seq 1 (length d)).
  cbn [filter]. unfold fpos at 1. cbn [Nat.eqb orb map skipn app].
  assert (E : filter (fpos d) (seq 1 (length d)) = filter (gpos d) (seq 1 (length d))).
  { apply filter_ext_in. intros k Hk. apply in_seq in Hk. unfold fpos.
    destruct (Nat.eqb_spec k 0); [lia|reflexivity]. }
  rewrite E.
  destruct (gpos d 0) eqn:G; cbn [map skipn].
  - rewrite first_key_dup. reflexivity.
  - reflexivity.
Qed.

Lemma nth_app_cons (p : bytes) x dd k : nth (S (length p) + k) (p ++ x :: dd) 0 = nth k dd 0.
Proof. induction p; cbn; auto. Qed.
Lemma skipn_app_cons (p : bytes) x dd k : skipn (S (length p) + k) (p ++ x :: dd) = skipn k dd.
Proof. induction p; cbn; auto. Qed.

Lemma filter_nil_in {A} (f : A -> bool) l : (forall x, In x l -> f x = false) -> filter f l = [].
Proof. induction l as [|x l IH]; intros H; cbn; [reflexivity|]. rewrite (H x (or_introl eq_refl)). apply IH. intros y Hy. apply H. right. exact Hy. Qed.

Lemma vkeys_split p dd :
  let addr := p ++ AT :: dd in
  map (fun i => skipn i addr) (filter (vpos addr (length p)) (seq 0 (S (length addr)))) =
  addr :: map (fun k => skipn k dd) (filter (fpos dd) (seq 0 (S (length dd)))).
Proof.
  intros addr.
  assert (Hlen : length addr = (length p + S (length dd))%nat) by (unfold addr; rewrite app_length; reflexivity).
  change (seq 0 (S (length addr))) with (0%nat :: seq 1 (length addr)).
  cbn [filter]. unfold vpos at 1. cbn [Nat.eqb orb map skipn]. f_equal.
  rewrite Hlen.
  replace (length p + S (length dd))%nat with (length p + S (length dd))%nat by reflexivity.
  rewrite seq_app. rewrite filter_app.
  assert (E1 : filter (vpos addr (length p)) (seq 1 (length p)) = []).
  { apply filter_nil_in. intros i Hi. apply in_seq in Hi.
    unfold vpos. rewrite Hlen.
    destruct (Nat.eqb_spec i 0); [lia|]. destruct (Nat.eqb_spec i (S (length p))); [lia|].
    destruct (Nat.eqb_spec i (length p + S (length dd))); [lia|].
    destruct (Nat.ltb_spec (length p) i); [lia|]. reflexivity. }
  rewrite E1. cbn [app].
  replace (1 + length p)%nat with (S (length p) + 0)%nat by lia.
  assert (E2 : seq (S (length p) + 0) (S (length dd)) = map (fun k => (S (length p) + k)%nat) (seq 0 (S (length dd)))).
  { generalize (S (length dd)) as n. generalize 0%nat as s. intros s n. revert s.
    induction n as [|n IH]; intros s; cbn [seq map]; [reflexivity|]. f_equal.
    rewrite <- IH. f_equal. lia. }
  rewrite E2. rewrite filter_map_comm, map_map.
  rewrite (filter_ext_in (fun x => vpos addr (length p) (S (length p) + x)) (fpos dd)).
  - apply map_ext. intros k. unfold addr. apply skipn_app_cons.
  - intros k Hk. apply in_seq in Hk. unfold vpos, fpos, gpos. rewrite Hlen.
    unfold addr. rewrite nth_app_cons.
    destruct (Nat.eqb_spec (S (length p) + k) 0); [lia|].
    destruct (Nat.eqb_spec (S (length p) + k) (S (length p))), (Nat.eqb_spec k 0); try lia; cbn [orb]; try reflexivity.
    destruct (Nat.eqb_spec (S (length p) + k) (length p + S (length dd))), (Nat.eqb_spec k (length dd)); try lia; cbn [orb]; try reflexivity.
    destruct (Nat.ltb_spec (length p) (S (length p) + k)); [reflexivity|lia].
Qed.

(* ---------------------------------------------------------------- the C loop = the documented rules *)
Lemma rsplit_of_rchr s c :
  (rchr s c < length s)%nat ->
  rsplit s c = Some (firstn (rchr s c) s, skipn (S (rchr s c)) s) /\
  s = firstn (rchr s c) s ++ c :: skipn (S (rchr s c)) s.
Proof.
  intros H. unfold rsplit. destruct (Nat.eqb_spec (rchr s c) (length s)); [lia|].
  split; [reflexivity|]. unfold rchr in *. destruct (rchr_opt s c) as [i|] eqn:E; [|lia].
  apply (rchr_opt_some s c i E).
Qed.

Lemma rchr_app_at b d : (rchr (b ++ AT :: d) AT < length (b ++ AT :: d))%nat.
Proof.
  unfold rchr. destruct (rchr_opt (b ++ AT :: d) AT) as [i|] eqn:E.
  - apply (rchr_opt_some _ _ _ E).
  - apply rchr_opt_none_app in E as [_ E]. cbn [rchr_opt] in E. destruct (rchr_opt d AT); [discriminate|].
    rewrite N.eqb_refl in E. discriminate.
Qed.

Lemma rewrite_eq_spec_l c recip : rewrite c recip = route_spec c recip.
Proof.
  unfold rewrite, route_spec.
  (* the address with its default host, as box0 @ dom0 *)
  set (i0 := rchr recip AT).
  assert (H0 : exists box0 dom0,
             (match rsplit recip AT with Some bd => bd | None => (recip, envnoathost c) end) = (box0, dom0) /\
             (if Nat.eqb i0 (length recip) then recip ++ [AT] ++ envnoathost c else recip) = box0 ++ AT :: dom0 /\
             i0 = length box0).
  { destruct (rsplit recip AT) as [[b d]|] eqn:E.
    - destruct (rsplit_some _ _ _ _ E) as (A & B & C & D). exists b, d.
      unfold i0. rewrite C. destruct (Nat.eqb_spec (length b) (length recip)); [lia|]. auto.
    - exists recip, (envnoathost c). unfold i0. rewrite (rsplit_none _ _ E), Nat.eqb_refl. auto. }
  destruct H0 as (box0 & dom0 & E1 & E2 & E3). rewrite E1, E2, E3.
  rewrite (phack_spec _ c (S (length box0)) box0 dom0); [| rewrite app_length; cbn; lia | lia].
  destruct (pct_spec (S (length box0)) c box0 dom0) as [b d].
  set (addr := b ++ AT :: d).
  change (b ++ [AT] ++ d) with addr.
  pose proof (rchr_app_at b d) as Hat. fold addr in Hat.
  destruct (rsplit_of_rchr addr AT Hat) as [R1 R2]. rewrite R1.
  set (at_ := rchr addr AT) in *. set (dd := skipn (S at_) addr) in *.
  destruct (cm_has (locals c) dd); [reflexivity|].
  rewrite vloop_first_match, first_match_first_key.
  assert (K : first_key c (map (fun i => skipn i addr) (filter (vpos addr at_) (seq 0 (S (length addr))))) =
              first_key c ([addr; dd] ++ dot_suffixes dd ++ [[]])).
  { set (p := firstn at_ addr) in *.
    assert (Hp : length p = at_) by (unfold p; rewrite firstn_length; lia).
    pose proof (vkeys_split p dd) as V. cbv zeta in V. rewrite <- R2, Hp in V. rewrite V.
    cbn [first_key app]. destruct (cm_lookup (vdoms c) addr); [reflexivity|].
    apply fkeys. }
  rewrite K. reflexivity.
Qed.

(* ================================================================ bounces (C14) *)
Definition nolf (s : bytes) : Prop := Forall (fun c => (c =? LF) = false) s.

Lemma san_pstarts s : forall p o2 o1,
  ~ (o1 = LF /\ o2 = LF) -> (o1 = LF -> p = LF) ->
  pstarts o2 o1 (san p s ++ [LF]) = 0%nat.
Proof.
  induction s as [|c s IH]; intros p o2 o1 Hinv Hp.
  - reflexivity.
  - assert (C0 : forall x, negb (x =? LF) && (o1 =? LF) && (o2 =? LF) = false).
    { intros x. destruct (N.eqb_spec o1 LF), (N.eqb_spec o2 LF); try (rewrite ?andb_false_r; reflexivity).
      exfalso. apply Hinv. auto. }
    destruct s as [|c' s'].
    + cbn [san app pstarts]. rewrite C0. reflexivity.
    + change (san p (c :: c' :: s')) with ((if (c =? LF) && (p =? LF) then SLASHB else c) :: san c (c' :: s')).
      cbn [app pstarts]. rewrite C0. cbn [Nat.add].
      apply IH.
      * intros [E1 E2]. destruct (N.eqb_spec c LF) as [Ec|Ec], (N.eqb_spec p LF) as [Epp|Epp]; cbn in E1; try discriminate.
        -- apply Epp, Hp, E2.
        -- contradiction.
        -- contradiction.
      * intros E. destruct (N.eqb_spec c LF) as [Ec|Ec]; [exact Ec|].
        destruct (p =? LF); cbn in E; contradiction.
Qed.

Lemma bounce_para_one_l r rep : pstarts LF LF (addbounce_text r rep) = 1%nat.
Proof.
  unfold addbounce_text. cbn [pstarts app]. 
  change (negb (LT_ =? LF) && (LF =? LF) && (LF =? LF)) with true. cbn [Nat.add]. f_equal.
  apply san_pstarts; [intros [E _]; discriminate | intros E; discriminate].
Qed.

Lemma san_last s : forall p x, exists u, san p (s ++ [x]) = u ++ [x].
Proof.
  induction s as [|c s IH]; intros p x; [exists []; reflexivity|].
  destruct s as [|c' s'].
  - exists [if (c =? LF) && (p =? LF) then SLASHB else c]. reflexivity.
  - destruct (IH c x) as [u Hu].
    exists ((if (c =? LF) && (p =? LF) then SLASHB else c) :: u).
    change (san p ((c :: c' :: s') ++ [x])) with ((if (c =? LF) && (p =? LF) then SLASHB else c) :: san c ((c' :: s') ++ [x])).
    rewrite Hu. reflexivity.
Qed.

Lemma ends_lf_true s : forall d, ends_lf d s = true -> (s = [] /\ d = true) \/ exists u, s = u ++ [LF].
Proof.
  induction s as [|c s IH]; intros d H; cbn in H; [left; auto|right].
  destruct (IH _ H) as [[-> E]|[u ->]].
  - apply N.eqb_eq in E. subst c. exists []. reflexivity.
  - exists (c :: u). reflexivity.
Qed.

Lemma bounce_body_ends_lf r rep : exists w,
  map (fun c => if c =? LF then USCORE else c) r ++ [GT_; COLON; LF] ++ rep ++
    (match rep with [] => [] | _ => if last_is_lf rep then [] else [LF] end) = w ++ [LF].
Proof.
  set (r' := map _ r).
  destruct rep as [|c rep'].
  - exists (r' ++ [GT_; COLON]). rewrite <- app_assoc. reflexivity.
  - destruct (last_is_lf (c :: rep')) eqn:E.
    + unfold last_is_lf in E. destruct (ends_lf_true _ _ E) as [[E1 _]|[u Hu]]; [discriminate|].
      rewrite Hu. exists (r' ++ [GT_; COLON; LF] ++ u). rewrite app_nil_r, <- !app_assoc. reflexivity.
    + exists (r' ++ [GT_; COLON; LF] ++ c :: rep'). rewrite <- !app_assoc. reflexivity.
Qed.

Lemma bounce_para_ends_l r rep : exists u, addbounce_text r rep = u ++ [LF; LF].
Proof.
  unfold addbounce_text. destruct (bounce_body_ends_lf r rep) as [w Hw]. rewrite Hw.
  destruct (san_last w LT_ LF) as [u Hu]. rewrite Hu.
  exists (LT_ :: u). cbn. rewrite <- app_assoc. reflexivity.
Qed.

Lemma last_cons_default (a : bytes) : forall c p, last (c :: a) p = last a c.
Proof. induction a as [|x a IH]; intros c p; [reflexivity|]. change (last (c :: x :: a) p) with (last (x :: a) p). rewrite !IH. reflexivity. Qed.

(* san leaves LF-free text alone *)
Lemma san_nolf_prefix a : forall p b, nolf a -> b <> [] ->
  san p (a ++ b) = a ++ san (last a p) b.
Proof.
  induction a as [|c a IH]; intros p b Ha Hb; [reflexivity|].
  inversion Ha as [|? ? Hc Ha']; subst.
  assert (E : san p ((c :: a) ++ b) = c :: san c (a ++ b)).
  { cbn [app]. destruct (a ++ b) eqn:Eab.
    - destruct a; [cbn in Eab; contradiction|discriminate].
    - change (san p (c :: n :: l)) with ((if (c =? LF) && (p =? LF) then SLASHB else c) :: san c (n :: l)).
      rewrite Hc. reflexivity. }
  rewrite E, IH by assumption. rewrite last_cons_default. reflexivity.
Qed.

Lemma bounce_para_head_l r rep : exists rest,
  addbounce_text r rep = [LT_] ++ map (fun c => if c =? LF then USCORE else c) r ++ [GT_; COLON; LF] ++ rest.
Proof.
  unfold addbounce_text. set (r' := map _ r).
  assert (Hn : nolf (r' ++ [GT_; COLON])).
  { apply Forall_app. split.
    - unfold r'. apply Forall_forall. intros x Hx. apply in_map_iff in Hx as (y & <- & _).
      destruct (N.eqb_spec y LF) as [|Hy]; [reflexivity|]. apply N.eqb_neq. exact Hy.
    - repeat constructor. }
  set (tail := rep ++ match rep with [] => [] | _ => if last_is_lf rep then [] else [LF] end).
  replace (r' ++ [GT_; COLON; LF] ++ tail) with ((r' ++ [GT_; COLON]) ++ (LF :: tail)) by (rewrite <- app_assoc; reflexivity).
  rewrite san_nolf_prefix by (try assumption; discriminate).
  assert (El : last (r' ++ [GT_; COLON]) LT_ = COLON).
  { change (r' ++ [GT_; COLON]) with (r' ++ [GT_] ++ [COLON]). rewrite app_assoc. apply last_last. }
  rewrite El.
  destruct tail as [|t0 tl].
  - exists [LF]. cbn. rewrite <- !app_assoc. reflexivity.
  - exists (san LF (t0 :: tl) ++ [LF]).
    change (san COLON (LF :: t0 :: tl)) with (LF :: san LF (t0 :: tl)).
    cbn. rewrite <- !app_assoc. reflexivity.
Qed.

Lemma pstarts_app_lflf u : forall p2 p1 b,
  pstarts p2 p1 ((u ++ [LF; LF]) ++ b) = (pstarts p2 p1 (u ++ [LF; LF]) + pstarts LF LF b)%nat.
Proof.
  induction u as [|c u IH]; intros p2 p1 b.
  - cbn. reflexivity.
  - cbn [app pstarts]. rewrite IH. lia.
Qed.

Lemma bounce_paragraphs_l (items : list (bytes * bytes)) :
  pstarts LF LF (concat (map (fun it => addbounce_text (fst it) (snd it)) items)) = length items.
Proof.
  induction items as [|[r rep] items IH]; [reflexivity|].
  cbn [map concat length fst snd].
  destruct (bounce_para_ends_l r rep) as [u Hu].
  pose proof (bounce_para_one_l r rep) as H1. rewrite Hu in *.
  rewrite pstarts_app_lflf, H1, IH. reflexivity.
Qed.

(* ---- who gets the notice ---- *)
Lemma bounce_rank_decreases_l dbt sender s' :
  plan_sender (bounce_plan dbt sender) = Some s' -> (rank s' < rank sender)%nat.
Proof.
  unfold bounce_plan, rank.
  destruct (beq (verp_base sender) s_dbl) eqn:E; [discriminate|].
  destruct (verp_base sender) as [|x xs] eqn:Ev; cbn [plan_sender]; intros H; injection H as <-.
  - vm_compute. lia.
  - vm_compute. lia.
Qed.

Lemma bounce_envelope_l dbt sender :
  let s := verp_base sender in
  (s = s_dbl -> bounce_plan dbt sender = BDiscard) /\
  (s = [] -> bounce_plan dbt sender = BDouble s_dbl dbt) /\
  (s <> s_dbl -> s <> [] -> bounce_plan dbt sender = BSingle [] s).
Proof.
  cbv zeta. unfold bounce_plan. repeat split.
  - intros ->. reflexivity.
  - intros ->. reflexivity.
  - intros H1 H2. destruct (beq (verp_base sender) s_dbl) eqn:E; [apply beq_eq in E; contradiction|].
    destruct (verp_base sender); [contradiction|reflexivity].
Qed.

Lemma verp_base_strips base : verp_base (base ++ s_verp) = base.
Proof.
  unfold verp_base. rewrite app_length. cbn [length s_verp].
  replace (Nat.leb 4 (length base + 4)) with true by (symmetry; apply Nat.leb_le; lia).
  unfold ends_with. rewrite rev_app_distr.
  assert (is_prefix (rev s_verp) (rev s_verp ++ rev base) = true) by (apply is_prefix_spec; eexists; reflexivity).
  rewrite H. cbn [andb].
  replace (length base + 4 - 4)%nat with (length base) by lia. apply firstn_app_len.
Qed.

(* ---- VERP ---- *)
Lemma rchr_opt_atfree_none s c : ~ In c s -> rchr_opt s c = None.
Proof.
  induction s as [|x s IH]; intros H; [reflexivity|]. cbn.
  rewrite IH by (intro; apply H; right; assumption).
  destruct (N.eqb_spec x c); [exfalso; apply H; left; assumption|reflexivity].
Qed.
Lemma rchr_app_free a b c : ~ In c b -> rchr (a ++ c :: b) c = length a.
Proof. intros H. unfold rchr. rewrite rchr_opt_app_found by (apply rchr_opt_atfree_none; exact H). reflexivity. Qed.

Lemma senderadd_verp_l owner host box rhost :
  ~ In AT host -> ~ In AT rhost ->
  senderadd (owner ++ AT :: host ++ s_verp) (box ++ AT :: rhost) =
  owner ++ box ++ [EQS] ++ rhost ++ [AT] ++ host.
Proof.
  intros Hh Hr. unfold senderadd.
  set (sender := owner ++ AT :: host ++ s_verp).
  assert (Hlen : length sender = (length owner + 1 + length host + 4)%nat).
  { unfold sender. rewrite app_length. cbn [length]. rewrite app_length. cbn. lia. }
  rewrite Hlen.
  replace (Nat.leb 4 (length owner + 1 + length host + 4)) with true by (symmetry; apply Nat.leb_le; lia).
  assert (He : ends_with sender s_verp = true).
  { unfold ends_with, sender. change (owner ++ AT :: host ++ s_verp) with (owner ++ (AT :: host) ++ s_verp).
    rewrite app_assoc, rev_app_distr. apply is_prefix_spec. eexists. reflexivity. }
  rewrite He. cbn [andb].
  assert (F : firstn (length owner + 1 + length host + 4 - 4) sender = owner ++ AT :: host).
  { unfold sender. change (owner ++ AT :: host ++ s_verp) with (owner ++ (AT :: host) ++ s_verp). rewrite app_assoc.
    replace (length owner + 1 + length host + 4 - 4)%nat with (length (owner ++ AT :: host)) by (rewrite app_length; cbn; lia).
    apply firstn_app_len. }
  rewrite F, (rchr_app_free owner host AT Hh), (rchr_app_free box rhost AT Hr).
  rewrite app_length. cbn [length].
  replace (Nat.ltb (length box) (length box + S (length rhost))) with true by (symmetry; apply Nat.ltb_lt; lia).
  replace (Nat.leb (length owner + 5) (length owner + 1 + length host + 4)) with true by (symmetry; apply Nat.leb_le; lia).
  cbn [andb].
  unfold sender. rewrite firstn_app_len, firstn_app_len, !skipn_app_len.
  replace (length owner + 1 + length host + 4 - 5 - length owner)%nat with (length host) by lia.
  rewrite firstn_app_len. reflexivity.
Qed.
