(* Retry schedule of qmail-send.c (squareroot, nextretry, flagdying, pqfinish/pqstart) and
   the priority queue of prioq.c.  Model only. *)
From Coq Require Export List ZArith NArith Bool Lia.
Export ListNotations.
Local Open Scope Z_scope.

(* ---- squareroot(): for (j = 15; j >= 0; --j) { y21 = (y << (j+1)) + (1 << (j+j)); ... } *)
(* j1 = j + 1 *)
Fixpoint sq_loop (j1 : nat) (x y yy : Z) : Z :=
  match j1 with
  | O => y
  | S j =>
    let y21 := y * 2 ^ (Z.of_nat j + 1) + 2 ^ (Z.of_nat j + Z.of_nat j) in
    if y21 <=? x - yy then sq_loop j x (y + 2 ^ Z.of_nat j) (yy + y21)
    else sq_loop j x y yy
  end.
Definition squareroot (x : Z) : Z := sq_loop 16 x 0 0.

(* chanskip[] = { 10, 20 } : channel 0 = local, 1 = remote (tied by gen/Params_gen.v) *)
Definition chanskip (c : nat) : Z := match c with O => 10 | _ => 20 end.

Definition nextretry (birth recent : Z) (c : nat) : Z :=
  let n := if recent <? birth then 0 else squareroot (recent - birth) in
  let n := n + chanskip c in
  birth + n * n.

Definition flagdying (birth recent lifetime : Z) : bool := birth + lifetime <? recent.

(* ---- prioq.c : binary heap in an array, sift loops with a hole *)
Definition elt := (Z * N)%type.
Definition dflt : elt := (0, 0%N).
Definition get (l : list elt) (i : nat) : elt := nth i l dflt.
Fixpoint upd (l : list elt) (i : nat) (v : elt) : list elt :=
  match l, i with
  | [], _ => []
  | _ :: t, O => v :: t
  | h :: t, S k => h :: upd t k v
  end.

Fixpoint sift_up (fuel : nat) (l : list elt) (j : nat) (pe : elt) : list elt :=
  match fuel with
  | O => upd l j pe
  | S f =>
    match j with
    | O => upd l j pe
    | S _ =>
      let i := Nat.div (j - 1) 2 in
      if fst (get l i) <=? fst pe then upd l j pe
      else sift_up f (upd l j (get l i)) i pe
    end
  end.
Definition pq_insert (l : list elt) (pe : elt) : list elt :=
  sift_up (S (length l)) (l ++ [pe]) (length l) pe.

Definition pq_min (l : list elt) : option elt :=
  match l with [] => None | h :: _ => Some h end.

(* n = index of the last element, which is being re-inserted from the root *)
Fixpoint sift_down (fuel : nat) (l : list elt) (i n : nat) : list elt :=
  match fuel with
  | O => upd l i (get l n)
  | S f =>
    let j := (i + i + 2)%nat in
    if Nat.ltb n j then upd l i (get l n) else
    let j' := if fst (get l (j - 1)) <=? fst (get l j) then (j - 1)%nat else j in
    if fst (get l n) <=? fst (get l j') then upd l i (get l n)
    else sift_down f (upd l i (get l j')) j' n
  end.
Definition pq_delmin (l : list elt) : list elt :=
  match length l with
  | O => l
  | S n => firstn n (sift_down (S n) l 0 n)
  end.

Inductive pqop := PIns (e : elt) | PDel.
Definition pq_step (l : list elt) (o : pqop) : list elt :=
  match o with PIns e => pq_insert l e | PDel => pq_delmin l end.
(* run a sequence, reporting the minimum after every operation *)
Fixpoint pq_run (l : list elt) (ops : list pqop) : list (option elt) * list elt :=
  match ops with
  | [] => ([], l)
  | o :: ops' => let l' := pq_step l o in
                 let (ms, lf) := pq_run l' ops' in (pq_min l' :: ms, lf)
  end.

(* heap property and oracles (executable) *)
Definition heap_okb (l : list elt) : bool :=
  forallb (fun j => match j with O => true
                    | S _ => fst (get l (Nat.div (j - 1) 2)) <=? fst (get l j) end)
          (seq 0 (length l)).
Definition is_min_of (m : option elt) (l : list elt) : bool :=
  match m with
  | None => match l with [] => true | _ => false end
  | Some e => existsb (fun x => (fst x =? fst e) && N.eqb (snd x) (snd e)) l
              && forallb (fun x => fst e <=? fst x) l
  end.

(* ---- pqfinish / pqstart: the schedule is persisted in the mtime of local/ID and remote/ID *)
Definition sched := list (nat * N * Z).               (* (channel, id, due) *)
Definition mtimes := list (nat * N * Z).              (* (channel, id) -> mtime; first match *)
Fixpoint lookup (fs : mtimes) (c : nat) (id : N) : option Z :=
  match fs with
  | [] => None
  | (c', id', t) :: fs' => if Nat.eqb c c' && N.eqb id id' then Some t else lookup fs' c id
  end.
Fixpoint set_mtime (fs : mtimes) (c : nat) (id : N) (t : Z) : mtimes :=
  match fs with
  | [] => []                                          (* utimes on a missing file fails *)
  | (c', id', t') :: fs' =>
    if Nat.eqb c c' && N.eqb id id' then (c', id', t) :: fs' else (c', id', t') :: set_mtime fs' c id t
  end.
Definition pqfinish (s : sched) (fs : mtimes) : mtimes :=
  fold_left (fun f e => match e with (c, id, t) => set_mtime f c id t end) s fs.
(* pqstart: every channel file of every message with an info file is scheduled at its mtime *)
Definition pqstart (fs : mtimes) : sched := fs.
