From NQ Require Import Send.Sched.
Local Open Scope Z_scope.

(* loop invariant of squareroot *)
Lemma sq_loop_inv j1 : forall x y yy,
  yy = y * y -> 0 <= y -> y * y <= x -> x < (y + 2 ^ Z.of_nat j1) * (y + 2 ^ Z.of_nat j1) ->
  let r := sq_loop j1 x y yy in r * r <= x /\ x < (r + 1) * (r + 1) /\ y <= r < y + 2 ^ Z.of_nat j1.
Proof.
  induction j1 as [|j IH]; intros x y yy Hyy Hy Hlo Hhi.
  - cbn in *. lia.
  - cbn [sq_loop].
    assert (Hp : 2 ^ Z.of_nat (S j) = 2 * 2 ^ Z.of_nat j).
    { rewrite Nat2Z.inj_succ, Z.pow_succ_r by lia. reflexivity. }
    assert (Hp1 : 2 ^ (Z.of_nat j + 1) = 2 * 2 ^ Z.of_nat j).
    { rewrite Z.pow_add_r by lia. lia. }
    assert (Hp2 : 2 ^ (Z.of_nat j + Z.of_nat j) = 2 ^ Z.of_nat j * 2 ^ Z.of_nat j).
    { rewrite Z.pow_add_r by lia. reflexivity. }
    assert (Hpos : 0 < 2 ^ Z.of_nat j) by (apply Z.pow_pos_nonneg; lia).
    rewrite Hp1, Hp2. set (p := 2 ^ Z.of_nat j) in *. clearbody p.
    rewrite Hp in Hhi |- *.
    destruct (Z.leb_spec (y * (2 * p) + p * p) (x - yy)) as [Hle|Hgt].
    + specialize (IH x (y + p) (yy + (y * (2 * p) + p * p))).
      cbv zeta in IH. destruct IH as (A & B & C); [nia | nia | nia | nia | repeat split; lia].
    + specialize (IH x y yy). cbv zeta in IH. destruct IH as (A & B & C); [nia | nia | nia | nia | repeat split; lia].
Qed.

Lemma squareroot_exact_l x :
  0 <= x < 2 ^ 32 ->
  squareroot x * squareroot x <= x /\ x < (squareroot x + 1) * (squareroot x + 1) /\
  0 <= squareroot x < 2 ^ 16.
Proof.
  intros Hx. unfold squareroot.
  pose proof (sq_loop_inv 16 x 0 0 eq_refl ltac:(lia) ltac:(lia)) as H.
  cbv zeta in H. change (2 ^ Z.of_nat 16) with 65536 in H. change (2 ^ 32) with 4294967296 in Hx.
  change (2 ^ 16) with 65536.
  destruct H as (A & B & C); lia.
Qed.

Lemma nextretry_future_l birth recent c :
  birth <= recent -> recent - birth < 2 ^ 32 ->
  recent < nextretry birth recent c /\
  nextretry birth recent c = birth + (squareroot (recent - birth) + chanskip c) * (squareroot (recent - birth) + chanskip c).
Proof.
  intros Hb Ha. unfold nextretry.
  destruct (Z.ltb_spec recent birth); [lia|].
  destruct (squareroot_exact_l (recent - birth)) as (A & B & C); [lia|].
  split; [|reflexivity].
  assert (1 <= chanskip c) by (destruct c; cbn; lia).
  set (r := squareroot (recent - birth)) in *. clearbody r. nia.
Qed.

(* a message born in the future (clock stepped back) is retried after chanskip^2 seconds *)
Lemma nextretry_clock_back birth recent c :
  recent < birth -> nextretry birth recent c = birth + chanskip c * chanskip c.
Proof. intros H. unfold nextretry. destruct (Z.ltb_spec recent birth); lia. Qed.

(* intermediate values of squareroot stay far below 2^63 (datetime_sec is a 64-bit long) and
   the int shifts 1 << (j+j) stay below 2^31 *)
Lemma sq_shift_bounds j : (j <= 15)%nat -> 2 ^ (Z.of_nat j + Z.of_nat j) < 2 ^ 31.
Proof. intros H. apply Z.pow_lt_mono_r; lia. Qed.

Lemma flagdying_spec birth recent lifetime :
  flagdying birth recent lifetime = true <-> recent - birth > lifetime.
Proof. unfold flagdying. rewrite Z.ltb_lt. lia. Qed.

(* ---- schedule persistence across pqfinish (clean stop) and pqstart (next start) ---- *)
Definition keyeq (c : nat) (id : N) (c' : nat) (id' : N) : bool := Nat.eqb c c' && N.eqb id id'.

Lemma lookup_set_mtime fs : forall c id t c' id',
  lookup (set_mtime fs c id t) c' id' =
  if keyeq c' id' c id then (match lookup fs c id with Some _ => Some t | None => None end)
  else lookup fs c' id'.
Proof.
  unfold keyeq.
  induction fs as [|[[c0 id0] t0] fs IH]; intros c id t c' id'.
  - cbn. destruct (Nat.eqb c' c && N.eqb id' id); reflexivity.
  - cbn [set_mtime lookup].
    destruct (Nat.eqb c c0 && N.eqb id id0) eqn:E.
    + cbn [lookup]. apply andb_true_iff in E as [E1 E2]. apply Nat.eqb_eq in E1. apply N.eqb_eq in E2. subst c0 id0.
      destruct (Nat.eqb c' c && N.eqb id' id); reflexivity.
    + cbn [lookup]. rewrite IH.
      destruct (Nat.eqb c' c0 && N.eqb id' id0) eqn:E'.
      * apply andb_true_iff in E' as [E1 E2]. apply Nat.eqb_eq in E1. apply N.eqb_eq in E2. subst c0 id0.
        destruct (Nat.eqb c' c && N.eqb id' id) eqn:E''; [|reflexivity].
        apply andb_true_iff in E'' as [E1 E2]. apply Nat.eqb_eq in E1. apply N.eqb_eq in E2. subst c' id'.
        rewrite Nat.eqb_refl, N.eqb_refl in E. discriminate.
      * reflexivity.
Qed.

Definition skey (e : nat * N * Z) : nat * N := fst e.

Lemma pqfinish_other s : forall fs c id,
  ~ In (c, id) (map skey s) -> lookup (pqfinish s fs) c id = lookup fs c id.
Proof.
  unfold pqfinish.
  induction s as [|[[c0 id0] t0] s IH]; intros fs c id Hn; cbn; [reflexivity|].
  rewrite IH by (intro H; apply Hn; right; exact H).
  rewrite lookup_set_mtime. unfold keyeq.
  destruct (Nat.eqb c c0 && N.eqb id id0) eqn:E; [|reflexivity].
  apply andb_true_iff in E as [E1 E2]. apply Nat.eqb_eq in E1. apply N.eqb_eq in E2. subst.
  exfalso. apply Hn. left. reflexivity.
Qed.

(* the due time of every scheduled (channel, message) whose file exists is what pqstart reads
   back; files not in the schedule keep their time *)
Lemma restart_preserves_due_l s : forall fs c id t,
  NoDup (map skey s) -> In (c, id, t) s -> lookup fs c id <> None ->
  lookup (pqstart (pqfinish s fs)) c id = Some t.
Proof.
  unfold pqstart, pqfinish.
  induction s as [|[[c0 id0] t0] s IH]; intros fs c id t Hnd Hin Hex; [contradiction|].
  cbn in Hnd. inversion Hnd as [|? ? Hnotin Hnd']; subst.
  cbn [fold_left].
  destruct Hin as [E|Hin].
  - injection E as -> -> ->.
    fold (pqfinish s (set_mtime fs c id t)).
    rewrite pqfinish_other by exact Hnotin.
    rewrite lookup_set_mtime. unfold keyeq. rewrite Nat.eqb_refl, N.eqb_refl. cbn.
    destruct (lookup fs c id); [reflexivity|contradiction].
  - apply IH; [exact Hnd'|exact Hin|].
    rewrite lookup_set_mtime. unfold keyeq.
    destruct (Nat.eqb c c0 && N.eqb id id0) eqn:E; [|exact Hex].
    apply andb_true_iff in E as [E1 E2]. apply Nat.eqb_eq in E1. apply N.eqb_eq in E2. subst.
    destruct (lookup fs c0 id0); [discriminate|contradiction].
Qed.
