(* prioq.c: heap invariant, minimum and multiset preservation of the array sift loops *)
From Coq Require Import Permutation ZifyBool ZifyNat.
From NQ Require Import Send.Sched.
Local Open Scope nat_scope.
Ltac Zify.zify_post_hook ::= Z.div_mod_to_equations.

Definition key (e : elt) : Z := fst e.
Definition par (j : nat) : nat := (j - 1) / 2.
Definition heap_ok (l : list elt) : Prop :=
  forall j, 0 < j < length l -> (key (get l (par j)) <= key (get l j))%Z.

Lemma par_lt j : 0 < j -> par j < j.
Proof. unfold par. intros. lia. Qed.

(* ---- get / upd ---- *)
Lemma length_upd l : forall i v, length (upd l i v) = length l.
Proof. induction l as [|h t IH]; intros [|i] v; cbn; auto. Qed.

Lemma get_upd l : forall i v k,
  get (upd l i v) k = if (k =? i) && (i <? length l) then v else get l k.
Proof.
  unfold get. induction l as [|h t IH]; intros i v k.
  - cbn. rewrite andb_false_r. destruct i; reflexivity.
  - destruct i as [|i], k as [|k]; cbn; try reflexivity.
    rewrite IH. replace (S i <? S (length t)) with (i <? length t); [reflexivity|].
    destruct (Nat.ltb_spec i (length t)), (Nat.ltb_spec (S i) (S (length t))); try reflexivity; lia.
Qed.

Lemma get_upd_same l i v : i < length l -> get (upd l i v) i = v.
Proof. intros H. rewrite get_upd, Nat.eqb_refl. destruct (Nat.ltb_spec i (length l)); [reflexivity|lia]. Qed.
Lemma get_upd_other l i v k : k <> i -> get (upd l i v) k = get l k.
Proof. intros H. rewrite get_upd. destruct (Nat.eqb_spec k i); [contradiction|reflexivity]. Qed.

Lemma get_app_l (l r : list elt) k : k < length l -> get (l ++ r) k = get l k.
Proof. intros. unfold get. apply app_nth1. assumption. Qed.
Lemma get_firstn n (l : list elt) k : k < n -> get (firstn n l) k = get l k.
Proof.
  unfold get. revert l k. induction n as [|n IH]; intros l k H; [lia|].
  destruct l as [|h t]; cbn; [destruct k; reflexivity|].
  destruct k; [reflexivity|]. apply IH. lia.
Qed.
Lemma firstn_upd n : forall (l : list elt) k v, k < n -> firstn n (upd l k v) = upd (firstn n l) k v.
Proof.
  induction n as [|n IH]; intros l k v H; [lia|].
  destruct l as [|h t]; cbn; [destruct k; reflexivity|].
  destruct k; cbn; [reflexivity|]. rewrite IH by lia. reflexivity.
Qed.
Lemma upd_app_last (l : list elt) x v : upd (l ++ [x]) (length l) v = l ++ [v].
Proof. induction l as [|h t IH]; cbn; [reflexivity|]. rewrite IH. reflexivity. Qed.

(* ---- multisets: delete an index ---- *)
Fixpoint del (l : list elt) (i : nat) : list elt :=
  match l, i with
  | [], _ => []
  | _ :: t, O => t
  | h :: t, S k => h :: del t k
  end.
Lemma perm_upd l : forall i v, i < length l -> Permutation (upd l i v) (v :: del l i).
Proof.
  induction l as [|h t IH]; intros [|i] v H; cbn in *; try lia; [reflexivity|].
  rewrite (IH i v) by lia. apply perm_swap.
Qed.
Lemma perm_get l : forall i, i < length l -> Permutation l (get l i :: del l i).
Proof.
  unfold get. induction l as [|h t IH]; intros [|i] H; cbn in *; try lia; [reflexivity|].
  rewrite (IH i) at 1 by lia. apply perm_swap.
Qed.
(* swapping the hole: moving l[i] into position j and the new element into position i *)
Lemma perm_swap_hole l i j x :
  i < length l -> j < length l -> i <> j ->
  Permutation (upd (upd l j (get l i)) i x) (upd l j x).
Proof.
  intros Hi Hj Hij.
  set (l2 := upd l j (get l i)).
  assert (Hl2 : length l2 = length l) by apply length_upd.
  rewrite (perm_upd l2 i x) by lia. rewrite (perm_upd l j x) by lia.
  apply perm_skip.
  apply (Permutation_cons_inv (a := get l i)).
  assert (E : get l2 i = get l i) by (unfold l2; apply get_upd_other; assumption).
  rewrite <- E at 1. rewrite <- (perm_get l2 i) by lia.
  unfold l2. apply perm_upd. assumption.
Qed.

(* ---- insert ---- *)
(* l' = upd l j pe is the array with the new element in the hole *)
Definition SU_A (l' : list elt) (j : nat) : Prop :=
  forall k, 0 < k < length l' -> k <> j -> (key (get l' (par k)) <= key (get l' k))%Z.
Definition SU_B (l' : list elt) (j : nat) : Prop :=
  forall k, 0 < k < length l' -> par k = j -> 0 < j -> (key (get l' (par j)) <= key (get l' k))%Z.

Lemma sift_up_ok f : forall l j pe,
  j < f -> j < length l ->
  SU_A (upd l j pe) j -> SU_B (upd l j pe) j ->
  heap_ok (sift_up f l j pe) /\ Permutation (sift_up f l j pe) (upd l j pe).
Proof.
  induction f as [|f IH]; intros l j pe Hf Hj HA HB; [lia|].
  cbn [sift_up].
  assert (Hlen : length (upd l j pe) = length l) by apply length_upd.
  assert (Fin : forall k, 0 < k < length l -> k = j ->
                (key (get l (par j)) <= key pe)%Z -> (key (get (upd l j pe) (par k)) <= key (get (upd l j pe) k))%Z).
  { intros k Hk -> Hle. rewrite get_upd_same by lia. rewrite get_upd_other; [exact Hle|].
    pose proof (par_lt j). lia. }
  destruct j as [|j'].
  - (* j = 0 *) split; [|reflexivity].
    intros k Hk. rewrite Hlen in Hk. apply HA; [rewrite Hlen; exact Hk | lia].
  - set (j := S j') in *. set (i := (j - 1) / 2).
    assert (Hi : i < j) by (apply (par_lt j); lia).
    fold (key (get l i)) (key pe).
    destruct (Z.leb_spec (key (get l i)) (key pe)) as [Hle|Hgt].
    + split; [|reflexivity].
      intros k Hk. rewrite Hlen in Hk. destruct (Nat.eq_dec k j) as [E|E].
      * apply Fin; auto.
      * apply HA; [rewrite Hlen; exact Hk | exact E].
    + (* move the parent down *)
      set (l2 := upd l j (get l i)).
      assert (Hl2 : length l2 = length l) by apply length_upd.
      assert (G : forall k, get (upd l2 i pe) k =
                            if k =? i then pe else if k =? j then get l i else get l k).
      { intros k. unfold l2. rewrite !get_upd, !length_upd.
        destruct (Nat.eqb_spec k i), (Nat.eqb_spec k j), (Nat.ltb_spec i (length l)), (Nat.ltb_spec j (length l));
          cbn; try reflexivity; lia. }
      assert (G' : forall k, get (upd l j pe) k = if k =? j then pe else get l k).
      { intros k. rewrite get_upd. destruct (Nat.eqb_spec k j), (Nat.ltb_spec j (length l)); cbn; try reflexivity; lia. }
      destruct (IH l2 i pe) as [H1 H2]; try lia.
      * (* A' *)
        intros k Hk Hki. rewrite length_upd, Hl2 in Hk. rewrite !G.
        destruct (Nat.eqb_spec k i) as [|_]; [contradiction|].
        assert (Hpk : par k < k) by (apply par_lt; lia).
        destruct (Nat.eqb_spec k j) as [->|Hkj].
        -- (* k = j : parent is i, holds pe *)
           fold i. unfold par. fold i. rewrite Nat.eqb_refl. lia.
        -- destruct (Nat.eqb_spec (par k) i) as [Ei|Ei].
           ++ (* sibling of j *)
              assert (Hs := HA k ltac:(rewrite Hlen; lia) Hkj). rewrite !G' in Hs.
              destruct (Nat.eqb_spec k j); [contradiction|].
              destruct (Nat.eqb_spec (par k) j); [lia|]. rewrite Ei in Hs. lia.
           ++ destruct (Nat.eqb_spec (par k) j) as [Ej|Ej].
              ** (* child of j *)
                 assert (Hs := HB k ltac:(rewrite Hlen; lia) Ej ltac:(lia)). rewrite !G' in Hs.
                 destruct (Nat.eqb_spec k j); [contradiction|].
                 destruct (Nat.eqb_spec (par j) j) as [E|_]; [pose proof (par_lt j); lia|].
                 exact Hs.
              ** assert (Hs := HA k ltac:(rewrite Hlen; lia) Hkj). rewrite !G' in Hs.
                 destruct (Nat.eqb_spec k j); [contradiction|].
                 destruct (Nat.eqb_spec (par k) j); [contradiction|]. exact Hs.
      * (* B' *)
        intros k Hk Hpk Hi0. rewrite length_upd, Hl2 in Hk. rewrite !G.
        assert (Hpi : par i < i) by (apply par_lt; lia).
        destruct (Nat.eqb_spec (par i) i); [lia|]. destruct (Nat.eqb_spec (par i) j); [lia|].
        assert (Hk_i : k <> i) by (pose proof (par_lt k); lia).
        destruct (Nat.eqb_spec k i); [contradiction|].
        assert (Hii := HA i ltac:(rewrite Hlen; lia) ltac:(lia)). rewrite !G' in Hii.
        destruct (Nat.eqb_spec i j); [lia|]. destruct (Nat.eqb_spec (par i) j); [lia|].
        destruct (Nat.eqb_spec k j) as [->|Hkj]; [exact Hii|].
        assert (Hs := HA k ltac:(rewrite Hlen; lia) Hkj). rewrite !G' in Hs.
        destruct (Nat.eqb_spec k j); [contradiction|]. rewrite Hpk in Hs.
        destruct (Nat.eqb_spec i j); [lia|]. lia.
      * split; [exact H1|]. rewrite H2. unfold l2. apply perm_swap_hole; lia.
Qed.

Lemma pq_insert_ok l pe :
  heap_ok l -> heap_ok (pq_insert l pe) /\ Permutation (pq_insert l pe) (pe :: l).
Proof.
  intros H. unfold pq_insert.
  assert (E : upd (l ++ [pe]) (length l) pe = l ++ [pe]) by apply upd_app_last.
  destruct (sift_up_ok (S (length l)) (l ++ [pe]) (length l) pe) as [H1 H2].
  - lia.
  - rewrite app_length. cbn. lia.
  - rewrite E. intros k Hk Hkj. rewrite app_length in Hk. cbn in Hk.
    assert (Hp : par k < k) by (apply par_lt; lia).
    rewrite !get_app_l by lia. apply H. lia.
  - rewrite E. intros k Hk Hpk Hj. rewrite app_length in Hk. cbn in Hk.
    pose proof (par_lt k). lia.
  - split; [exact H1|]. rewrite H2, E. rewrite Permutation_app_comm. reflexivity.
Qed.

(* ---- delmin ---- *)
Definition SD_A (v : list elt) (i n : nat) : Prop :=
  forall k, 0 < k < n -> par k <> i -> (key (get v (par k)) <= key (get v k))%Z.
Definition SD_C (v : list elt) (i n : nat) : Prop :=
  forall k, 0 < k < n -> par k = i -> 0 < i -> (key (get v (par i)) <= key (get v k))%Z.

Lemma par_child k i : 0 < k -> par k = i -> k = i + i + 1 \/ k = i + i + 2.
Proof. unfold par. intros. lia. Qed.
Lemma par_left i : par (i + i + 1) = i.  Proof. unfold par. lia. Qed.
Lemma par_right i : par (i + i + 2) = i. Proof. unfold par. lia. Qed.

Lemma length_firstn_exact n (l : list elt) : length l = S n -> length (firstn n l) = n.
Proof. intros H. rewrite firstn_length. lia. Qed.

Lemma sift_down_ok f : forall l i n,
  n - i < f -> i < n -> length l = S n ->
  SD_A (upd l i (get l n)) i n -> SD_C (upd l i (get l n)) i n ->
  heap_ok (firstn n (sift_down f l i n)) /\
  Permutation (firstn n (sift_down f l i n)) (firstn n (upd l i (get l n))).
Proof.
  induction f as [|f IH]; intros l i n Hf Hi Hlen HA HC; [lia|].
  cbn [sift_down]. set (x := get l n) in *. set (j := i + i + 2).
  assert (V : forall k, get (upd l i x) k = if k =? i then x else get l k).
  { intros k. rewrite get_upd. destruct (Nat.eqb_spec k i), (Nat.ltb_spec i (length l)); cbn; try reflexivity; lia. }
  assert (Brk : (n < j \/ (forall k, 0 < k < n -> par k = i -> (key x <= key (get l k))%Z)) ->
                heap_ok (firstn n (upd l i x))).
  { intros Hb k Hk. rewrite firstn_length, length_upd in Hk.
    assert (Hpk : par k < k) by (apply par_lt; lia).
    rewrite !get_firstn by lia.
    destruct (Nat.eq_dec (par k) i) as [E|E].
    - destruct Hb as [Hb|Hb].
      + destruct (par_child k i ltac:(lia) E); unfold j in Hb; lia.
      + rewrite !V. rewrite E, Nat.eqb_refl.
        destruct (Nat.eqb_spec k i); [lia|]. apply Hb; [lia|exact E].
    - apply HA; [lia|exact E]. }
  destruct (Nat.ltb_spec n j) as [Hnj|Hnj].
  - split; [apply Brk; left; exact Hnj | reflexivity].
  - set (j' := if (fst (get l (j - 1)) <=? fst (get l j))%Z then j - 1 else j).
    assert (Hj' : (j' = j - 1 /\ (key (get l (j - 1)) <= key (get l j))%Z) \/
                  (j' = j /\ (key (get l j) < key (get l (j - 1)))%Z)).
    { unfold j', key. destruct (Z.leb_spec (fst (get l (j - 1))) (fst (get l j))); [left|right]; split; auto. }
    change (fst x) with (key x). change (fst (get l j')) with (key (get l j')).
    destruct (Z.leb_spec (key x) (key (get l j'))) as [Hle|Hgt].
    + split; [|reflexivity]. apply Brk. right. intros k Hk Hpk.
      assert (Ej : j - 1 = i + i + 1) by (unfold j; lia).
      destruct (par_child k i ltac:(lia) Hpk) as [->| ->].
      * rewrite <- Ej.
        destruct Hj' as [[E1 E2]|[E1 E2]]; rewrite E1 in Hle; lia.
      * change (i + i + 2) with j.
        destruct Hj' as [[E1 E2]|[E1 E2]]; rewrite E1 in Hle; lia.
    + (* move the smaller child up *)
      assert (Hj'n : j' < n).
      { destruct Hj' as [[E _]|[E _]]; [unfold j in *; lia|].
        destruct (Nat.eq_dec j n) as [En|En]; [|lia]. rewrite E, En in Hgt. unfold x in Hgt. lia. }
      assert (Hpj' : par j' = i).
      { destruct Hj' as [[E _]|[E _]]; rewrite E; unfold j; [replace (i + i + 2 - 1) with (i + i + 1) by lia; apply par_left | apply par_right]. }
      assert (Hij' : i < j') by (destruct Hj' as [[E _]|[E _]]; unfold j in *; lia).
      set (l2 := upd l i (get l j')).
      assert (Hl2 : length l2 = S n) by (unfold l2; rewrite length_upd; exact Hlen).
      assert (Hx2 : get l2 n = x) by (unfold l2; rewrite get_upd_other by lia; reflexivity).
      assert (G : forall k, get (upd l2 j' x) k =
                            if k =? j' then x else if k =? i then get l j' else get l k).
      { intros k. unfold l2. rewrite !get_upd, !length_upd.
        destruct (Nat.eqb_spec k j'), (Nat.eqb_spec k i), (Nat.ltb_spec j' (length l)), (Nat.ltb_spec i (length l));
          cbn; try reflexivity; lia. }
      destruct (IH l2 j' n) as [H1 H2]; try lia.
      * (* A2 *)
        rewrite Hx2. intros k Hk Hpk. rewrite !G.
        assert (Hpk' : par k < k) by (apply par_lt; lia).
        destruct (Nat.eqb_spec (par k) j'); [contradiction|].
        destruct (Nat.eqb_spec k j') as [->|Hkj'].
        -- rewrite Hpj', Nat.eqb_refl. lia.
        -- destruct (Nat.eqb_spec k i) as [->|Hki].
           ++ (* k = i: grandparent <= moved child *)
              destruct (Nat.eqb_spec (par i) i); [lia|].
              assert (Hs := HC j' ltac:(lia) Hpj' ltac:(lia)). rewrite !V in Hs.
              destruct (Nat.eqb_spec (par i) i); [lia|]. destruct (Nat.eqb_spec j' i); [lia|]. exact Hs.
           ++ destruct (Nat.eqb_spec (par k) i) as [Ei|Ei].
              ** (* sibling of j' *)
                 destruct (par_child k i ltac:(lia) Ei) as [Ek|Ek];
                   destruct Hj' as [[E1 E2]|[E1 E2]]; unfold j in *; subst k;
                   try (replace (i + i + 2 - 1) with (i + i + 1) in * by lia); try lia; rewrite E1; lia.
              ** assert (Hs := HA k Hk Ei). rewrite !V in Hs.
                 destruct (Nat.eqb_spec (par k) i); [contradiction|].
                 destruct (Nat.eqb_spec k i); [contradiction|]. exact Hs.
      * (* C2 *)
        rewrite Hx2. intros k Hk Hpk Hj0. rewrite !G. rewrite Hpj'.
        assert (Hkj' : j' < k) by (pose proof (par_lt k); lia).
        destruct (Nat.eqb_spec i j'); [lia|]. rewrite Nat.eqb_refl.
        destruct (Nat.eqb_spec k j'); [lia|]. destruct (Nat.eqb_spec k i); [lia|].
        assert (Hs := HA k Hk ltac:(lia)). rewrite !V in Hs. rewrite Hpk in Hs.
        destruct (Nat.eqb_spec j' i); [lia|]. destruct (Nat.eqb_spec k i); [lia|]. exact Hs.
      * split; [exact H1|]. rewrite H2, Hx2. unfold l2.
        rewrite !firstn_upd by lia.
        rewrite <- (get_firstn n l j') by lia.
        apply perm_swap_hole; rewrite ?length_firstn_exact by assumption; lia.
Qed.

Lemma heap_root_min l : heap_ok l -> forall k, k < length l -> (key (get l 0) <= key (get l k))%Z.
Proof.
  intros H k. induction k as [k IH] using lt_wf_ind. intros Hk.
  destruct k as [|k']; [lia|].
  assert (Hp : par (S k') < S k') by (apply par_lt; lia).
  specialize (IH (par (S k')) Hp ltac:(lia)).
  specialize (H (S k') ltac:(lia)). lia.
Qed.

Lemma pq_delmin_ok l :
  heap_ok l -> l <> [] ->
  heap_ok (pq_delmin l) /\ Permutation (get l 0 :: pq_delmin l) l.
Proof.
  intros H Hne. unfold pq_delmin.
  destruct l as [|r t]; [contradiction|]. cbn [length].
  set (n := length t). set (l := r :: t) in *.
  assert (Hlen : length l = S n) by reflexivity.
  destruct n as [|n'] eqn:En.
  - cbn. destruct t; [|discriminate]. split; [intros k Hk; cbn in Hk; lia | reflexivity].
  - rewrite <- En in *.
    destruct (sift_down_ok (S n) l 0 n) as [H1 H2]; try lia.
    + intros k Hk Hpk.
      assert (Hp : par k < k) by (apply par_lt; lia).
      rewrite !get_upd_other by lia. apply H. lia.
    + intros k Hk Hpk H0. lia.
    + split; [exact H1|]. rewrite H2.
      change (get l 0) with r. unfold l. cbn [upd].
      rewrite En. cbn [firstn]. rewrite <- En.
      (* t = firstn n' t ++ [last] *)
      assert (Ht : t = firstn n' t ++ [get (r :: t) n]).
      { rewrite En. unfold get. cbn [nth].
        assert (Hl : length t = S n') by (unfold n in En; exact En).
        clear -Hl. revert t Hl. induction n' as [|m IHm]; intros t Hl.
        - destruct t as [|a [|b t]]; try discriminate. reflexivity.
        - destruct t as [|a t]; [discriminate|]. cbn [firstn nth app]. f_equal. apply IHm. cbn in Hl. lia. }
      rewrite Ht at 3. apply perm_skip. apply Permutation_cons_append.
Qed.

Lemma heap_nil : heap_ok []. Proof. intros k Hk. cbn in Hk. lia. Qed.

(* every reachable queue is a heap holding exactly inserted-minus-deleted, and its head is a minimum *)
Lemma pq_step_ok l o : heap_ok l -> heap_ok (pq_step l o).
Proof.
  intros H. destruct o; cbn.
  - apply pq_insert_ok. exact H.
  - destruct l as [|r t]; [exact H|]. apply pq_delmin_ok; [exact H|discriminate].
Qed.
Lemma pq_reachable_heap ops : forall l, heap_ok l -> heap_ok (fold_left pq_step ops l).
Proof. induction ops as [|o ops IH]; intros l H; cbn; [exact H|]. apply IH, pq_step_ok, H. Qed.

Lemma pq_min_is_min l e :
  heap_ok l -> pq_min l = Some e -> In e l /\ forall x, In x l -> (key e <= key x)%Z.
Proof.
  intros H Hm. destruct l as [|r t]; [discriminate|]. injection Hm as <-.
  split; [left; reflexivity|]. intros x Hx.
  destruct (In_nth _ _ dflt Hx) as (k & Hk & <-).
  exact (heap_root_min _ H k Hk).
Qed.
