(* Proofs tying the concrete hash table of Base/Constmap.v (constmap.c) to the abstract case-insensitive maps
   the routing and SMTP models use (Send/Route.v cm_lookup / cm_has).  REQUIRED statements must be proved
   exactly as stated. *)
From NQ Require Import Base.Bytes Base.Constmap Send.Route.
Local Open Scope N_scope.

Definition bytes_ok (s : bytes) : Prop := Forall (fun c => c < 256) s.

(* ------------------------------------------------------------------------------------------------ *)
(* the hash                                                                                         *)

Lemma cm_ch_lower c : c < 256 -> cm_ch (lower c) = cm_ch c.
Proof.
  intros Hc.
  assert (H : forallb (fun n => cm_ch (lower (N.of_nat n)) =? cm_ch (N.of_nat n)) (seq 0 256) = true)
    by (vm_compute; reflexivity).
  rewrite forallb_forall in H. specialize (H (N.to_nat c)).
  rewrite N2Nat.id in H. apply N.eqb_eq, H, in_seq. lia.
Qed.

Lemma hash_fold a : forall b h, bytes_ok a -> bytes_ok b -> lowers a = lowers b ->
  fold_left cm_hashadd a h = fold_left cm_hashadd b h.
Proof.
  induction a as [|x a IH]; intros [|y b] h Ha Hb HL; unfold lowers in HL; cbn [map] in HL;
    try discriminate HL.
  - reflexivity.
  - inversion Ha as [|? ? Hx Ha']; subst. inversion Hb as [|? ? Hy Hb']; subst.
    injection HL as Hxy HL.
    cbn [fold_left].
    assert (E : cm_hashadd h x = cm_hashadd h y).
    { unfold cm_hashadd. f_equal. rewrite <- (cm_ch_lower x Hx), <- (cm_ch_lower y Hy).
      rewrite Hxy. reflexivity. }
    rewrite E. apply IH; assumption.
Qed.

(* REQUIRED 1: the hash respects exactly the folding the comparison uses *)
Theorem hash_respects_case : forall a b, bytes_ok a -> bytes_ok b ->
  case_eqb a b = true -> cm_hash a = cm_hash b.
Proof.
  intros a b Ha Hb H. unfold case_eqb in H. apply beq_eq in H.
  unfold cm_hash. apply hash_fold; assumption.
Qed.

Lemma case_eqb_length a b : case_eqb a b = true -> length a = length b.
Proof.
  unfold case_eqb. intros H. apply beq_eq in H.
  apply (f_equal (@length N)) in H. unfold lowers in H. rewrite !map_length in H. exact H.
Qed.

(* ------------------------------------------------------------------------------------------------ *)
(* the table size                                                                                   *)

Lemma grow_spec fuel : forall k num, exists j,
  k <= j /\ grow fuel (2 ^ k) num = 2 ^ j /\ (num < 2 ^ (k + N.of_nat fuel) -> num <= 2 ^ j).
Proof.
  induction fuel as [|f IH]; intros k num.
  - exists k. cbn [grow]. split; [lia|]. split; [reflexivity|].
    rewrite N.add_0_r. lia.
  - cbn [grow]. destruct (2 ^ k <? num) eqn:E.
    + destruct (IH (k + 1) num) as [j [Hkj [Hg Hb]]].
      exists j. split; [lia|]. split.
      * rewrite <- Hg. f_equal. rewrite N.add_1_r, N.pow_succ_r'. lia.
      * intros Hn. apply Hb. replace (k + 1 + N.of_nat f) with (k + N.of_nat (S f)) by lia. exact Hn.
    + apply N.ltb_ge in E. exists k. split; [lia|]. split; [reflexivity|]. intros _. exact E.
Qed.

Lemma table_size_is_pow2 num : exists k, table_size num = 2 ^ k.
Proof.
  destruct (grow_spec 64 6 num) as [j [_ [Hg _]]]. exists j. exact Hg.
Qed.

(* ------------------------------------------------------------------------------------------------ *)
(* generic list facts                                                                               *)

Lemma set_first_length l : forall i v, length (set_first l i v) = length l.
Proof.
  induction l as [|x l IH]; intros [|i] v; cbn [set_first length]; try reflexivity.
  rewrite IH. reflexivity.
Qed.

Lemma nth_set_first_eq l : forall i v, (i < length l)%nat -> nth i (set_first l i v) None = v.
Proof.
  induction l as [|x l IH]; intros [|i] v H; cbn [length] in H; cbn [set_first nth]; try lia.
  - reflexivity.
  - apply IH. lia.
Qed.

Lemma nth_set_first_neq l : forall i j v, i <> j -> nth i (set_first l j v) None = nth i l None.
Proof.
  induction l as [|x l IH]; intros [|i] [|j] v H; cbn [set_first nth]; try reflexivity.
  - congruence.
  - apply IH. congruence.
Qed.

Lemma nth_set_first_ge l : forall j v, (length l <= j)%nat -> set_first l j v = l.
Proof.
  induction l as [|x l IH]; intros [|j] v H; cbn [length] in H; cbn [set_first]; try reflexivity; try lia.
  rewrite IH by lia. reflexivity.
Qed.

(* ------------------------------------------------------------------------------------------------ *)
(* chains                                                                                           *)

Definition wf_next (ents : list cent) : Prop :=
  forall p q, ce_next (nth p ents dummy_ent) = Some q -> (q < p)%nat.

Lemma chain_none fuel m h s : chain fuel m h s None = None.
Proof. destruct fuel; reflexivity. Qed.

Lemma chain_step f m h s p :
  chain (S f) m h s (Some p) =
    if (h =? ce_hash (nth p (cm_ents m) dummy_ent))
       && Nat.eqb (length s) (length (ce_key (nth p (cm_ents m) dummy_ent)))
       && case_eqb (ce_key (nth p (cm_ents m) dummy_ent)) s
    then Some (ce_val (nth p (cm_ents m) dummy_ent))
    else chain f m h s (ce_next (nth p (cm_ents m) dummy_ent)).
Proof. reflexivity. Qed.

(* enough fuel: the result does not depend on it *)
Lemma chain_fuel m h s : wf_next (cm_ents m) ->
  forall n f1 f2 pos, (forall p, pos = Some p -> (p < n)%nat) -> (n <= f1)%nat -> (n <= f2)%nat ->
  chain f1 m h s pos = chain f2 m h s pos.
Proof.
  intros Hwf. induction n as [|n IH]; intros f1 f2 pos Hpos H1 H2.
  - destruct pos as [p|]; [specialize (Hpos p eq_refl); lia|]. rewrite !chain_none. reflexivity.
  - destruct pos as [p|]; [|rewrite !chain_none; reflexivity].
    destruct f1 as [|f1]; [lia|]. destruct f2 as [|f2]; [lia|].
    rewrite !chain_step.
    destruct (_ && _ && _); [reflexivity|].
    apply IH; try lia.
    intros q Hq. apply Hwf in Hq. specialize (Hpos p eq_refl). lia.
Qed.

(* appending entries does not disturb walks through the old ones *)
Lemma chain_app m m' extra h s : wf_next (cm_ents m) -> cm_ents m' = cm_ents m ++ extra ->
  forall fuel pos, (forall p, pos = Some p -> (p < length (cm_ents m))%nat) ->
  chain fuel m' h s pos = chain fuel m h s pos.
Proof.
  intros Hwf He. induction fuel as [|f IH]; intros pos Hpos.
  - destruct pos; reflexivity.
  - destruct pos as [p|]; [|reflexivity].
    rewrite !chain_step. rewrite He.
    specialize (Hpos p eq_refl).
    rewrite (app_nth1 _ _ _ Hpos).
    destruct (_ && _ && _); [reflexivity|].
    apply IH. intros q Hq. apply Hwf in Hq. lia.
Qed.

(* ------------------------------------------------------------------------------------------------ *)
(* the invariant                                                                                    *)

Record Inv (m : cmap) (es : list (bytes * bytes)) : Prop := {
  inv_wf : wf_next (cm_ents m);
  inv_bound : forall i p, nth i (cm_first m) None = Some p -> (p < length (cm_ents m))%nat;
  inv_size : exists k, cm_mask m = 2 ^ k - 1 /\ length (cm_first m) = N.to_nat (2 ^ k);
  inv_corr : forall s, bytes_ok s -> constmap m s = cm_lookup es s
}.

Lemma slot_bound h k : (N.to_nat (N.land h (2 ^ k - 1)) < N.to_nat (2 ^ k))%nat.
Proof.
  rewrite <- N.pred_sub, <- N.ones_equiv, N.land_ones.
  assert (H : h mod 2 ^ k < 2 ^ k) by (apply N.mod_lt, N.pow_nonzero; lia).
  lia.
Qed.

Lemma cm_lookup_snoc es kv s :
  cm_lookup (es ++ [kv]) s = if ci_eq (fst kv) s then Some (snd kv) else cm_lookup es s.
Proof. unfold cm_lookup. rewrite fold_left_app. reflexivity. Qed.

Lemma Inv_add m es kv : Inv m es -> bytes_ok (fst kv) -> Inv (cm_add m kv) (es ++ [kv]).
Proof.
  intros [Hwf Hbound [k [Hmask Hlen]] Hcorr] Hk.
  set (new := {| ce_key := fst kv; ce_val := snd kv; ce_hash := cm_hash (fst kv);
                 ce_next := nth (N.to_nat (N.land (cm_hash (fst kv)) (cm_mask m))) (cm_first m) None |}).
  assert (Hents : cm_ents (cm_add m kv) = cm_ents m ++ [new]) by reflexivity.
  assert (Hfirst : cm_first (cm_add m kv) =
                   set_first (cm_first m) (N.to_nat (N.land (cm_hash (fst kv)) (cm_mask m)))
                             (Some (length (cm_ents m)))) by reflexivity.
  assert (Hmask' : cm_mask (cm_add m kv) = cm_mask m) by reflexivity.
  assert (Hslot : (N.to_nat (N.land (cm_hash (fst kv)) (cm_mask m)) < length (cm_first m))%nat).
  { rewrite Hmask, Hlen. apply slot_bound. }
  assert (Hwf' : wf_next (cm_ents (cm_add m kv))).
  { rewrite Hents. intros p q Hq.
    destruct (Nat.lt_trichotomy p (length (cm_ents m))) as [Hp|[Hp|Hp]].
    - rewrite (app_nth1 _ _ _ Hp) in Hq. apply Hwf in Hq. exact Hq.
    - subst p. rewrite nth_middle in Hq. cbn [ce_next new] in Hq. apply Hbound in Hq. exact Hq.
    - rewrite nth_overflow in Hq by (rewrite app_length; cbn [length]; lia). discriminate Hq. }
  constructor.
  - exact Hwf'.
  - rewrite Hents, Hfirst, app_length. cbn [length]. intros i p Hp.
    destruct (Nat.eq_dec i (N.to_nat (N.land (cm_hash (fst kv)) (cm_mask m)))) as [->|Hne].
    + rewrite nth_set_first_eq in Hp by exact Hslot. injection Hp as <-. lia.
    + rewrite nth_set_first_neq in Hp by exact Hne. apply Hbound in Hp. lia.
  - exists k. rewrite Hmask', Hfirst, set_first_length. split; assumption.
  - intros s Hs. rewrite cm_lookup_snoc. rewrite <- (Hcorr s Hs).
    unfold constmap at 1. rewrite Hmask', Hfirst, Hents, app_length. cbn [length].
    change (ci_eq (fst kv) s) with (case_eqb (fst kv) s).
    (* every walk that starts at the old head of the slot of s gives the old answer *)
    assert (Hold : forall f, (length (cm_ents m) <= f)%nat ->
              chain f (cm_add m kv) (cm_hash s) s
                    (nth (N.to_nat (N.land (cm_hash s) (cm_mask m))) (cm_first m) None)
              = constmap m s).
    { intros f Hf. rewrite (chain_app m (cm_add m kv) [new] _ _ Hwf Hents).
      - unfold constmap. apply (chain_fuel m _ _ Hwf (length (cm_ents m))); try lia.
        intros p Hp. apply Hbound in Hp. exact Hp.
      - intros p Hp. apply Hbound in Hp. exact Hp. }
    destruct (case_eqb (fst kv) s) eqn:Hc.
    + rewrite <- (hash_respects_case _ _ Hk Hs Hc).
      rewrite nth_set_first_eq by exact Hslot.
      rewrite chain_step, Hents, nth_middle. cbn [ce_hash ce_key ce_val new].
      rewrite N.eqb_refl, Hc, <- (case_eqb_length _ _ Hc), Nat.eqb_refl. reflexivity.
    + destruct (Nat.eq_dec (N.to_nat (N.land (cm_hash s) (cm_mask m)))
                           (N.to_nat (N.land (cm_hash (fst kv)) (cm_mask m)))) as [He|Hne].
      * rewrite He. rewrite nth_set_first_eq by exact Hslot.
        rewrite chain_step, Hents, nth_middle. cbn [ce_hash ce_key ce_val ce_next new].
        rewrite Hc, andb_false_r. rewrite <- He. apply Hold. lia.
      * rewrite nth_set_first_neq by exact Hne. apply Hold. lia.
Qed.

Lemma Inv_empty k :
  Inv {| cm_mask := 2 ^ k - 1; cm_first := repeat None (N.to_nat (2 ^ k)); cm_ents := [] |} [].
Proof.
  constructor; cbn [cm_mask cm_first cm_ents].
  - intros p q Hq. destruct p; discriminate Hq.
  - intros i p Hp. rewrite nth_repeat in Hp. discriminate Hp.
  - exists k. rewrite repeat_length. split; reflexivity.
  - intros s _. unfold constmap. cbn [cm_mask cm_first cm_ents]. rewrite nth_repeat.
    rewrite chain_none. reflexivity.
Qed.

(* ------------------------------------------------------------------------------------------------ *)
(* the lines of the file                                                                            *)

Definition entries (flagcolon : bool) (lines : list bytes) : list (bytes * bytes) :=
  flat_map (fun l => match entry_of flagcolon l with Some kv => [kv] | None => [] end) lines.

Lemma split_at_colon_ok l : forall cur kv, bytes_ok cur -> bytes_ok l ->
  split_at_colon cur l = Some kv -> bytes_ok (fst kv).
Proof.
  induction l as [|c l IH]; intros cur kv Hcur Hl H; cbn [split_at_colon] in H; [discriminate H|].
  inversion Hl as [|? ? Hc Hl']; subst.
  destruct (c =? 58) eqn:E.
  - injection H as <-. cbn [fst]. unfold bytes_ok in *. apply Forall_rev. exact Hcur.
  - apply (IH (c :: cur) kv); try assumption. constructor; assumption.
Qed.

Lemma entry_of_ok flag l kv : bytes_ok l -> entry_of flag l = Some kv -> bytes_ok (fst kv).
Proof.
  intros Hl H. unfold entry_of in H. destruct flag.
  - apply (split_at_colon_ok l [] kv); [constructor | exact Hl | exact H].
  - injection H as <-. exact Hl.
Qed.

Lemma Inv_fold flag lines : forall m es, Inv m es -> Forall bytes_ok lines ->
  Inv (fold_left (fun m l => match entry_of flag l with Some kv => cm_add m kv | None => m end) lines m)
      (es ++ entries flag lines).
Proof.
  induction lines as [|l lines IH]; intros m es HI HL.
  - cbn [fold_left entries flat_map]. rewrite app_nil_r. exact HI.
  - inversion HL as [|? ? Hl HL']; subst. cbn [fold_left].
    unfold entries. cbn [flat_map]. fold (entries flag lines).
    destruct (entry_of flag l) as [kv|] eqn:E.
    + rewrite app_assoc. apply IH; [|exact HL'].
      apply Inv_add; [exact HI|]. apply (entry_of_ok flag l kv Hl E).
    + cbn [app]. apply IH; assumption.
Qed.

Lemma constmap_init_spec lines flag s : Forall bytes_ok lines -> bytes_ok s ->
  constmap (constmap_init lines flag) s = cm_lookup (entries flag lines) s.
Proof.
  intros HL Hs. unfold constmap_init.
  destruct (table_size_is_pow2 (N.of_nat (length lines))) as [k Hk]. rewrite Hk.
  apply (inv_corr _ _ (Inv_fold flag lines _ [] (Inv_empty k) HL) s Hs).
Qed.

Lemma split_colon_same l : forall cur, split_at_colon cur l = split_colon cur l.
Proof.
  induction l as [|c l IH]; intros cur; cbn [split_at_colon split_colon]; [reflexivity|].
  rewrite IH. reflexivity.
Qed.

Lemma entries_colon lines : entries true lines = colon_entries lines.
Proof.
  unfold entries, colon_entries. apply flat_map_ext. intros l.
  unfold entry_of. rewrite split_colon_same. reflexivity.
Qed.

Lemma entries_plain lines : entries false lines = map (fun l => (l, [])) lines.
Proof.
  unfold entries. induction lines as [|l lines IH]; cbn [flat_map map]; [reflexivity|].
  rewrite IH. reflexivity.
Qed.

Lemma lookup_has lines s : forall acc,
  (match fold_left (fun acc (e : bytes * bytes) => if ci_eq (fst e) s then Some (snd e) else acc)
                   (map (fun l => (l, [])) lines) acc
   with Some _ => true | None => false end)
  = existsb (fun k => ci_eq k s) lines || (match acc with Some _ => true | None => false end).
Proof.
  induction lines as [|l lines IH]; intros acc; cbn [map fold_left existsb].
  - reflexivity.
  - rewrite IH. cbn [fst snd]. destruct (ci_eq l s), (existsb _ lines), acc; reflexivity.
Qed.

(* REQUIRED 2: a map with colons (virtualdomains): the value of the LAST line whose key matches *)
Theorem constmap_colon : forall lines s, Forall bytes_ok lines -> bytes_ok s ->
  constmap (constmap_init lines true) s = cm_lookup (colon_entries lines) s.
Proof.
  intros lines s HL Hs. rewrite <- entries_colon. apply constmap_init_spec; assumption.
Qed.

(* REQUIRED 3: a map without colons (locals, percenthack, rcpthosts, badmailfrom): membership *)
Theorem constmap_plain : forall lines s, Forall bytes_ok lines -> bytes_ok s ->
  (match constmap (constmap_init lines false) s with Some _ => true | None => false end) = cm_has lines s.
Proof.
  intros lines s HL Hs. rewrite (constmap_init_spec lines false s HL Hs), entries_plain.
  unfold cm_lookup, cm_has. rewrite lookup_has. apply orb_false_r.
Qed.

(* REQUIRED 4: the table never has fewer slots than entries' worth of mask and is a power of two >= 64 *)
Theorem table_size_pow2 : forall num, num < 9223372036854775808 ->
  exists k, table_size num = 2 ^ k /\ 64 <= table_size num /\ num <= table_size num.
Proof.
  intros num Hn. destruct (grow_spec 64 6 num) as [j [Hj [Hg Hb]]].
  assert (Hg' : table_size num = 2 ^ j) by exact Hg.
  exists j. rewrite Hg'. split; [reflexivity|]. split.
  - change 64 with (2 ^ 6). apply N.pow_le_mono_r; [lia | exact Hj].
  - apply Hb. eapply N.lt_trans; [exact Hn|]. vm_compute. reflexivity.
Qed.

