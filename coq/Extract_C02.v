From Coq Require Extraction ExtrOcamlBasic.
From Coq Require Import NArith.
From NQ Require Import Queue.QueueSpec.
Extraction Language OCaml.
Definition keep_n : N := 0%N.     (* the shared driver glue (extract/conv.ml) refers to the type n *)
Extraction "extracted_C02.ml" keep_n q0 step all_documented no_drop conc_ok getm documented msg_no_drop.
