From Coq Require Extraction ExtrOcamlBasic.
From NQ Require Import Base.Cdb Base.CdbFast Base.Constmap Local.NewU Local.Assign Local.AssignImg Smtp.Smtpd Smtp.RcptHosts.
Extraction Language OCaml.
Extraction "extracted_TBL.ml" cdb_make cdb_get_fast cdb_hash get_spec constmap_init constmap cm_hash
  newu_image newmrh_image newmrh_keys nughde_get_img rcpthosts_c bmfcheck_c.
