From Coq Require Extraction ExtrOcamlBasic.
From NQ Require Import Addr.Tok Mem.TokCount Mem.Stralloc Mem.Netstr Mem.DnsParse Mem.Substdio.
Extraction Language OCaml.
Extraction "extracted_C20.ml" count_pass readyplus ready append catb copyb quote_size getlen rcpt_decide resolve_walk walk dn_simple o_run o_init getlns_all i_init i_get.
