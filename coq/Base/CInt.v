(* C integer helpers where a property depends on their exact behaviour:
   scan_ulong (wraps modulo 2^64), fmt_ulong. *)
From NQ Require Export Base.Bytes.
Local Open Scope N_scope.

Definition U64 : N := 18446744073709551616.
Definition is_digit (c : N) : bool := (48 <=? c) && (c <=? 57).

(* scan_ulong on a C string: (value mod 2^64, number of digits consumed) *)
Fixpoint scan_from (s : bytes) (acc : N) (pos : nat) : N * nat :=
  match s with
  | c :: s' => if is_digit c then scan_from s' ((acc * 10 + (c - 48)) mod U64) (S pos) else (acc, pos)
  | [] => (acc, pos)
  end.
Definition scan_ulong (s : bytes) : N * nat := scan_from s 0 0.

(* the mathematical value of a string of digits *)
Fixpoint dec_value_from (s : bytes) (acc : N) : N :=
  match s with
  | c :: s' => if is_digit c then dec_value_from s' (acc * 10 + (c - 48)) else acc
  | [] => acc
  end.
Definition dec_value (s : bytes) : N := dec_value_from s 0.

(* fmt_ulong: decimal digits, no leading zeros, "0" for zero *)
Fixpoint fmt_aux (fuel : nat) (u : N) (acc : bytes) : bytes :=
  match fuel with
  | O => acc
  | S f => let acc' := (48 + u mod 10) :: acc in
           if u / 10 =? 0 then acc' else fmt_aux f (u / 10) acc'
  end.
Definition fmt_ulong (u : N) : bytes := fmt_aux 20 u [].
