(* cdb_seek_fast = cdb_seek *)
From Coq Require Import PArith Pnat Arith Lia.
From NQ Require Import Base.Bytes Base.Cdb Base.CdbFast.
Local Open Scope N_scope.

Section Loop.
  Variables (St Res : Type) (body : St -> St + Res).
  Notation ln := (loop_nat St Res body).
  Notation lp := (loop_pos St Res body).
  Lemma loop_nat_add a b s : ln (a + b) s = match ln a s with inl s' => ln b s' | inr r => inr r end.
  Proof. revert s; induction a as [|a IH]; intro s; cbn [loop_nat Nat.add]; [reflexivity|]. destruct (body s); [apply IH | reflexivity]. Qed.
  Lemma loop_pos_nat p s : lp p s = ln (Pos.to_nat p) s.
  Proof.
    revert s; induction p as [p IH|p IH|]; intro s; cbn [loop_pos].
    - rewrite Pos2Nat.inj_xI. cbn [loop_nat]. destruct (body s) as [s1|r]; [|reflexivity].
      replace (2 * Pos.to_nat p)%nat with (Pos.to_nat p + Pos.to_nat p)%nat by lia.
      rewrite loop_nat_add, <- IH. destruct (lp p s1); [apply IH | reflexivity].
    - rewrite Pos2Nat.inj_xO. replace (2 * Pos.to_nat p)%nat with (Pos.to_nat p + Pos.to_nat p)%nat by lia.
      rewrite loop_nat_add, <- IH. destruct (lp p s); [apply IH | reflexivity].
    - change (Pos.to_nat 1) with 1%nat. cbn [loop_nat]. destruct (body s); reflexivity.
  Qed.
End Loop.

Lemma read_at_N_eq f pos len : read_at_N f pos len = read_at f pos (N.to_nat len).
Proof.
  unfold read_at_N, read_at, blen.
  destruct (pos + len <=? N.of_nat (length f)) eqn:E.
  - apply N.leb_le in E. replace (Nat.leb (N.to_nat pos + N.to_nat len) (length f)) with true; [reflexivity|].
    symmetry. apply Nat.leb_le. lia.
  - apply N.leb_gt in E. replace (Nat.leb (N.to_nat pos + N.to_nat len) (length f)) with false; [reflexivity|].
    symmetry. apply Nat.leb_gt. lia.
Qed.
Lemma read_at_N_nat f pos n : read_at_N f pos (N.of_nat n) = read_at f pos n.
Proof. rewrite read_at_N_eq, Nat2N.id. reflexivity. Qed.
Lemma read_at_N_8 f pos : read_at_N f pos 8 = read_at f pos 8.
Proof. exact (read_at_N_eq f pos 8). Qed.
Lemma match_key_fast_eq f : forall fuel pos key, match_key_fast fuel f pos key = match_key fuel f pos key.
Proof.
  induction fuel as [|fu IH]; intros pos key; destruct key as [|c key]; try reflexivity.
  cbn [match_key_fast match_key]. rewrite read_at_N_nat.
  destruct (read_at f pos (Nat.min 32 (length (c :: key)))) as [b|]; [|reflexivity].
  destruct (beq b (firstn (Nat.min 32 (length (c :: key))) (c :: key))); [apply IH | reflexivity].
Qed.

Definition seek_body_ref (f key : bytes) (h pos lenhash : N) (h2 : N) : N + sres :=
  match read_at f ((pos + 8 * h2) mod M32) 8 with
  | None => inr SErr
  | Some pb =>
      let poskd := unpack32 (skipn 4 pb) in
      if poskd =? 0 then inr SNone else
      let nxt := (if h2 + 1 =? lenhash then 0 else h2 + 1) in
      if unpack32 (firstn 4 pb) =? h then
        match read_at f poskd 8 with
        | None => inr SErr
        | Some rb =>
            if unpack32 (firstn 4 rb) =? blen key then
              match match_key (S (length key)) f (poskd + 8) key with
              | MErr => inr SErr
              | MYes => inr (SFound (poskd + 8 + blen key) (unpack32 (skipn 4 rb)))
              | MNo => inl nxt
              end
            else inl nxt
        end
      else inl nxt
  end.
Lemma seek_body_eq f key h pos lenhash h2 : seek_body f key h pos lenhash h2 = seek_body_ref f key h pos lenhash h2.
Proof.
  unfold seek_body, seek_body_ref. rewrite read_at_N_8.
  destruct (read_at f ((pos + 8 * h2) mod M32) 8) as [pb|]; [|reflexivity]. cbv zeta.
  rewrite read_at_N_8, match_key_fast_eq. reflexivity.
Qed.
Lemma loop_nat_ext (St Res : Type) (b1 b2 : St -> St + Res) : (forall s, b1 s = b2 s) ->
  forall n s, loop_nat St Res b1 n s = loop_nat St Res b2 n s.
Proof. intros H n. induction n as [|n IH]; intro s; cbn [loop_nat]; [reflexivity|]. rewrite H. destruct (b2 s); [apply IH | reflexivity]. Qed.

Lemma seek_loop_is_loop_nat f key h pos lenhash : forall n h2,
  seek_loop n f key h pos lenhash h2 =
  match loop_nat N sres (seek_body f key h pos lenhash) n h2 with inl _ => SNone | inr r => r end.
Proof.
  intros n h2. rewrite (loop_nat_ext _ _ _ (seek_body_ref f key h pos lenhash) (seek_body_eq f key h pos lenhash)).
  revert h2. induction n as [|n IH]; intro h2; cbn [seek_loop loop_nat]; [reflexivity|].
  unfold seek_body_ref at 1.
  destruct (read_at f ((pos + 8 * h2) mod M32) 8) as [pb|]; [|reflexivity].
  cbv zeta.
  destruct (unpack32 (skipn 4 pb) =? 0); [reflexivity|].
  destruct (unpack32 (firstn 4 pb) =? h); [|apply IH].
  destruct (read_at f (unpack32 (skipn 4 pb)) 8) as [rb|]; [|reflexivity].
  destruct (unpack32 (firstn 4 rb) =? blen key); [|apply IH].
  destruct (match_key (S (length key)) f (unpack32 (skipn 4 pb) + 8) key); [reflexivity | apply IH | reflexivity].
Qed.

Theorem cdb_seek_fast_eq : forall f key, cdb_seek_fast f key = cdb_seek f key.
Proof.
  intros f key. unfold cdb_seek_fast, cdb_seek. rewrite read_at_N_8.
  destruct (read_at f (8 * (cdb_hash key mod 256)) 8) as [pb|]; [|reflexivity].
  cbv zeta. destruct (unpack32 (skipn 4 pb)) as [|p] eqn:E; [reflexivity|].
  change (N.pos p =? 0) with false. cbv iota.
  rewrite seek_loop_is_loop_nat, loop_pos_nat. change (N.to_nat (N.pos p)) with (Pos.to_nat p). reflexivity.
Qed.

Theorem cdb_get_fast_eq : forall f key, cdb_get_fast f key = cdb_get f key.
Proof. intros f key. unfold cdb_get_fast, cdb_get. rewrite cdb_seek_fast_eq. destruct (cdb_seek f key); try reflexivity. rewrite read_at_N_eq. reflexivity. Qed.
