(* An evaluation-friendly form of the reader's probe loop: the loop counter stays binary, so a damaged header that
   announces 2^32 slots costs nothing until the slots are actually read (the unary fuel of Base/Cdb.v seek_loop would be
   built first).  Proved equal to Base/Cdb.v cdb_seek in Base/CdbFastProofs.v; the drivers run this one.  No proofs here. *)
From NQ Require Import Base.Bytes Base.Cdb.
Local Open Scope N_scope.

Section Loop.
  Variables (St Res : Type) (body : St -> St + Res).
  Fixpoint loop_nat (n : nat) (s : St) : St + Res :=
    match n with O => inl s | S n' => match body s with inl s' => loop_nat n' s' | inr r => inr r end end.
  Fixpoint loop_pos (p : positive) (s : St) : St + Res :=
    match p with
    | xH => body s
    | xO p' => match loop_pos p' s with inl s' => loop_pos p' s' | inr r => inr r end
    | xI p' => match body s with
               | inl s1 => match loop_pos p' s1 with inl s2 => loop_pos p' s2 | inr r => inr r end
               | inr r => inr r
               end
    end.
End Loop.

(* lseek + read with the bounds test done on binary numbers before anything unary is built *)
Definition read_at_N (f : bytes) (pos len : N) : option bytes :=
  if pos + len <=? blen f then Some (firstn (N.to_nat len) (skipn (N.to_nat pos) f)) else None.

Fixpoint match_key_fast (fuel : nat) (f : bytes) (pos : N) (key : bytes) : mres :=
  match key with
  | [] => MYes
  | _ =>
    match fuel with
    | O => MErr
    | S fu =>
        let n := Nat.min 32 (length key) in
        match read_at_N f pos (N.of_nat n) with
        | None => MErr
        | Some b => if beq b (firstn n key) then match_key_fast fu f (pos + N.of_nat n) (skipn n key) else MNo
        end
    end
  end.

(* one iteration of the probe loop of cdb_seek.c; the state is h2 *)
Definition seek_body (f key : bytes) (h pos lenhash : N) (h2 : N) : N + sres :=
  match read_at_N f ((pos + 8 * h2) mod M32) 8 with
  | None => inr SErr
  | Some pb =>
      let poskd := unpack32 (skipn 4 pb) in
      if poskd =? 0 then inr SNone else
      let nxt := (if h2 + 1 =? lenhash then 0 else h2 + 1) in
      if unpack32 (firstn 4 pb) =? h then
        match read_at_N f poskd 8 with
        | None => inr SErr
        | Some rb =>
            if unpack32 (firstn 4 rb) =? blen key then
              match match_key_fast (S (length key)) f (poskd + 8) key with
              | MErr => inr SErr
              | MYes => inr (SFound (poskd + 8 + blen key) (unpack32 (skipn 4 rb)))
              | MNo => inl nxt
              end
            else inl nxt
        end
      else inl nxt
  end.

Definition cdb_seek_fast (f : bytes) (key : bytes) : sres :=
  let h := cdb_hash key in
  match read_at_N f (8 * (h mod 256)) 8 with
  | None => SErr
  | Some pb =>
      let pos := unpack32 (firstn 4 pb) in
      let lenhash := unpack32 (skipn 4 pb) in
      match lenhash with
      | N0 => SNone
      | Npos p => match loop_pos N sres (seek_body f key h pos lenhash) p ((h / 256) mod lenhash) with
                  | inl _ => SNone
                  | inr r => r
                  end
      end
  end.

Definition cdb_get_fast (f : bytes) (key : bytes) : gres :=
  match cdb_seek_fast f key with
  | SErr => GErr
  | SNone => GNone
  | SFound dpos dlen =>
      if dlen =? 0 then GFound [] else
      match read_at_N f dpos dlen with Some d => GFound d | None => GErr end
  end.

