(* commands.c: one command line -> (verb lower-cased, argument) *)
From NQ Require Export Base.Bytes.
Local Open Scope N_scope.

Fixpoint cstr (s : bytes) : bytes :=
  match s with [] => [] | c :: s' => if c =? 0 then [] else c :: cstr s' end.
Fixpoint drop_spaces (s : bytes) : bytes :=
  match s with c :: s' => if c =? 32 then drop_spaces s' else s | [] => [] end.
Fixpoint split_space (cur : bytes) (s : bytes) : bytes * bytes :=
  match s with
  | [] => (rev cur, [])
  | c :: s' => if c =? 32 then (rev cur, s) else split_space (c :: cur) s'
  end.
Definition strip_cr (l : bytes) : bytes :=
  match rev l with c :: r => if c =? CR then rev r else l | [] => [] end.
(* line = the bytes before the LF *)
Definition split_command (line : bytes) : bytes * bytes :=
  let l := cstr (strip_cr line) in
  let (v, rest) := split_space [] l in
  (lowers v, drop_spaces rest).

(* the bytes up to the next LF, and what follows it; None at end of input *)
Fixpoint take_line_aux (cur : bytes) (s : bytes) : option (bytes * bytes) :=
  match s with
  | [] => None
  | c :: s' => if c =? LF then Some (rev cur, s') else take_line_aux (c :: cur) s'
  end.
Definition take_line (s : bytes) := take_line_aux [] s.
