(* cdb: the constant database written by cdbmss.c / cdbmake_*.c (qmail-newmrh, qmail-newu) and read by
   cdb_seek.c (rcpthosts.c, qmail-lspawn.c).  The model works on the byte image of the file.
   No proofs here (Base/CdbProofs.v). *)
From NQ Require Import Base.Bytes.
Local Open Scope N_scope.

Definition M32 : N := 4294967296.

(* cdb_hash.c / cdbmake_hash.c: h += h << 5 (32 bits); h ^= c *)
Definition hashadd (h c : N) : N := N.lxor ((h + N.shiftl h 5) mod M32) c.
Definition cdb_hash (k : bytes) : N := fold_left hashadd k 5381.

(* cdbmake_pack.c / cdb_unpack.c: 32 bits, little endian *)
Definition pack32 (n : N) : bytes :=
  [n mod 256; (n / 256) mod 256; (n / 65536) mod 256; (n / 16777216) mod 256].
Definition unpack32 (b : bytes) : N :=
  match b with
  | [b0; b1; b2; b3] => b0 + 256 * b1 + 65536 * b2 + 16777216 * b3
  | _ => 0
  end.

Definition blen (s : bytes) : N := N.of_nat (length s).

(* ------------------------------------------------------------------ writer *)
Definition rec := (bytes * bytes)%type.
Definition hp := (N * N)%type.                      (* hash, position; position 0 = empty slot *)

(* cdbmss_add: 8-byte record header, key, data *)
Definition rec_bytes (r : rec) : bytes :=
  pack32 (blen (fst r)) ++ pack32 (blen (snd r)) ++ fst r ++ snd r.
Definition HEADER : N := 2048.

(* the (hash, position) pairs in insertion order; positions start after the 2048-byte header *)
Fixpoint hps_from (pos : N) (rs : list rec) : list hp :=
  match rs with
  | [] => []
  | r :: rs' => (cdb_hash (fst r), pos) :: hps_from (pos + 8 + blen (fst r) + blen (snd r)) rs'
  end.
Definition records_bytes (rs : list rec) : bytes := flat_map rec_bytes rs.

(* cdbmake_split: the entries of bucket b (h & 255), in insertion order *)
Definition bucket (b : N) (l : list hp) : list hp := filter (fun e => fst e mod 256 =? b) l.

(* cdbmake_throw: a table of 2*count slots filled by linear probing from (h >> 8) % len *)
Definition slot_at (t : list hp) (w : nat) : hp := nth w t (0, 0).
Definition next_slot (len w : nat) : nat := if Nat.eqb (S w) len then 0%nat else S w.
Fixpoint find_free (t : list hp) (w fuel : nat) : nat :=
  match fuel with
  | O => w
  | S f => if snd (slot_at t w) =? 0 then w else find_free t (next_slot (length t) w) f
  end.
Fixpoint set_nth (t : list hp) (w : nat) (e : hp) : list hp :=
  match t, w with
  | [], _ => []
  | _ :: t', O => e :: t'
  | x :: t', S w' => x :: set_nth t' w' e
  end.
Definition start_slot (h : N) (len : nat) : nat := N.to_nat ((h / 256) mod N.of_nat len).
Definition insert_hp (t : list hp) (e : hp) : list hp :=
  set_nth t (find_free t (start_slot (fst e) (length t)) (length t)) e.
Definition throw (bk : list hp) : list hp :=
  fold_left insert_hp bk (repeat (0, 0) (2 * length bk)).

Definition table_bytes (t : list hp) : bytes := flat_map (fun e => pack32 (fst e) ++ pack32 (snd e)) t.

(* cdbmss_finish: the 256 tables follow the records; header slot b = (position of table b, its length) *)
Fixpoint tables (n : nat) (b : N) (pos : N) (l : list hp) : bytes * bytes :=
  match n with
  | O => ([], [])
  | S n' =>
      let t := throw (bucket b l) in
      let (hd, tb) := tables n' (b + 1) (pos + 8 * N.of_nat (length t)) l in
      (pack32 pos ++ pack32 (N.of_nat (length t)) ++ hd, table_bytes t ++ tb)
  end.

Definition cdb_make (rs : list rec) : bytes :=
  let body := records_bytes rs in
  let (hd, tb) := tables 256 0 (HEADER + blen body) (hps_from HEADER rs) in
  hd ++ body ++ tb.

(* ------------------------------------------------------------------ reader *)
(* lseek + cdb_bread: n bytes at pos; short or empty read = error (EIO).  A read of 0 bytes is not issued. *)
Definition read_at (f : bytes) (pos : N) (n : nat) : option bytes :=
  let p := N.to_nat pos in
  if Nat.leb (p + n) (length f) then Some (firstn n (skipn p f)) else None.

Inductive mres := MErr | MNo | MYes.
(* match(): compares in pieces of 32 bytes, stops at the first piece that differs *)
Fixpoint match_key (fuel : nat) (f : bytes) (pos : N) (key : bytes) : mres :=
  match key with
  | [] => MYes
  | _ =>
    match fuel with
    | O => MErr
    | S fu =>
        let n := Nat.min 32 (length key) in
        match read_at f pos n with
        | None => MErr
        | Some b => if beq b (firstn n key) then match_key fu f (pos + N.of_nat n) (skipn n key) else MNo
        end
    end
  end.

Inductive sres := SErr | SNone | SFound (dpos dlen : N).     (* data position and length *)

Fixpoint seek_loop (loops : nat) (f : bytes) (key : bytes) (h pos lenhash h2 : N) : sres :=
  match loops with
  | O => SNone
  | S l =>
      match read_at f ((pos + 8 * h2) mod M32) 8 with
      | None => SErr
      | Some pb =>
          let poskd := unpack32 (skipn 4 pb) in
          if poskd =? 0 then SNone else
          let nxt := (if h2 + 1 =? lenhash then 0 else h2 + 1) in
          if unpack32 (firstn 4 pb) =? h then
            match read_at f poskd 8 with
            | None => SErr
            | Some rb =>
                if unpack32 (firstn 4 rb) =? blen key then
                  match match_key (S (length key)) f (poskd + 8) key with
                  | MErr => SErr
                  | MYes => SFound (poskd + 8 + blen key) (unpack32 (skipn 4 rb))
                  | MNo => seek_loop l f key h pos lenhash nxt
                  end
                else seek_loop l f key h pos lenhash nxt
            end
          else seek_loop l f key h pos lenhash nxt
      end
  end.

Definition cdb_seek (f : bytes) (key : bytes) : sres :=
  let h := cdb_hash key in
  match read_at f (8 * (h mod 256)) 8 with
  | None => SErr
  | Some pb =>
      let pos := unpack32 (firstn 4 pb) in
      let lenhash := unpack32 (skipn 4 pb) in
      if lenhash =? 0 then SNone
      else seek_loop (N.to_nat lenhash) f key h pos lenhash ((h / 256) mod lenhash)
  end.

(* cdb_seek followed by cdb_bread of the data (qmail-lspawn.c nughde_get) *)
Inductive gres := GErr | GNone | GFound (d : bytes).
Definition cdb_get (f : bytes) (key : bytes) : gres :=
  match cdb_seek f key with
  | SErr => GErr
  | SNone => GNone
  | SFound dpos dlen =>
      if dlen =? 0 then GFound [] else
      match read_at f dpos (N.to_nat dlen) with Some d => GFound d | None => GErr end
  end.

(* what the reader is specified to return for a file made from [rs]: the FIRST record with the key *)
Fixpoint find_first (rs : list rec) (key : bytes) : option bytes :=
  match rs with
  | [] => None
  | r :: rs' => if beq (fst r) key then Some (snd r) else find_first rs' key
  end.
Definition get_spec (rs : list rec) (key : bytes) : gres :=
  match find_first rs key with Some d => GFound d | None => GNone end.

(* well-formed input to the writer: bytes are bytes, and the file stays below 2^32 (the "XXX: overflow?" of cdbmss.c) *)
Definition bytes_ok (s : bytes) : Prop := Forall (fun c => c < 256) s.
Definition recs_ok (rs : list rec) : Prop :=
  Forall (fun r => bytes_ok (fst r) /\ bytes_ok (snd r)) rs /\
  HEADER + blen (records_bytes rs) + 16 * N.of_nat (length rs) < M32.
