(* Shared byte-string vocabulary.  Bytes are N (values < 256 wherever it matters);
   byte strings are list N.  No proofs about models live here, only generic list lemmas. *)
From Coq Require Export List NArith Bool Lia.
Export ListNotations.
Local Open Scope N_scope.

Notation byte := N (only parsing).
Notation bytes := (list N) (only parsing).

Definition CR : N := 13.
Definition LF : N := 10.
Definition DOT : N := 46.
Definition NUL : N := 0.

Fixpoint beq (a b : bytes) : bool :=
  match a, b with
  | [], [] => true
  | x :: a', y :: b' => N.eqb x y && beq a' b'
  | _, _ => false
  end.

Lemma beq_eq a b : beq a b = true <-> a = b.
Proof.
  revert b; induction a as [|x a IH]; destruct b as [|y b]; simpl; split; intro H;
    try discriminate; try reflexivity.
  - apply andb_true_iff in H as [H1 H2]. apply N.eqb_eq in H1. apply IH in H2. congruence.
  - injection H as -> ->. rewrite N.eqb_refl. simpl. apply IH. reflexivity.
Qed.

(* is [p] a prefix of [s] *)
Fixpoint is_prefix (p s : bytes) : bool :=
  match p, s with
  | [], _ => true
  | x :: p', y :: s' => N.eqb y x && is_prefix p' s'
  | _ :: _, [] => false
  end.

Lemma is_prefix_spec p s : is_prefix p s = true <-> exists t, s = p ++ t.
Proof.
  revert s; induction p as [|x p IH]; intros s; simpl.
  - split; [intros _; exists s; reflexivity | reflexivity].
  - destruct s as [|y s]; [split; [discriminate | intros [t Ht]; discriminate]|].
    rewrite andb_true_iff, N.eqb_eq, IH. split.
    + intros [-> [t ->]]. exists t. reflexivity.
    + intros [t Ht]. injection Ht as -> ->. split; [reflexivity | exists t; reflexivity].
Qed.

(* number of (possibly overlapping) occurrences of [pat] in [s] *)
Fixpoint occ (pat s : bytes) : nat :=
  match s with
  | [] => if is_prefix pat [] then 1 else 0
  | _ :: s' => (if is_prefix pat s then 1 else 0) + occ pat s'
  end.

Definition is_suffix (p s : bytes) : bool := is_prefix (rev p) (rev s).

Fixpoint has (x : N) (s : bytes) : bool :=
  match s with [] => false | y :: s' => N.eqb x y || has x s' end.

Lemma has_In x s : has x s = true <-> In x s.
Proof.
  induction s as [|y s IH]; simpl; [split; [discriminate | tauto]|].
  rewrite orb_true_iff, N.eqb_eq, IH. split; intros [H|H]; auto.
Qed.

(* split at LF: list of (line, terminated?) ; the last item may be unterminated; none for [] *)
Fixpoint lines_lf_aux (cur : bytes) (s : bytes) : list (bytes * bool) :=
  match s with
  | [] => match cur with [] => [] | _ => [(rev cur, false)] end
  | c :: s' => if N.eqb c LF then (rev cur, true) :: lines_lf_aux [] s'
               else lines_lf_aux (c :: cur) s'
  end.
Definition lines_lf (s : bytes) := lines_lf_aux [] s.

(* last byte is LF; [d] is the answer for the empty string *)
Fixpoint ends_lf (d : bool) (m : bytes) : bool :=
  match m with [] => d | c :: m' => ends_lf (c =? LF) m' end.

Definition lower (c : N) : N := if (65 <=? c) && (c <=? 90) then c + 32 else c.
Definition lowers (s : bytes) : bytes := map lower s.

(* lines of a byte string: each LF-terminated piece without its LF; a non-empty unterminated tail
   is a line too *)
Fixpoint split_lines_aux (cur : bytes) (s : bytes) : list bytes :=
  match s with
  | [] => match cur with [] => [] | _ => [rev cur] end
  | c :: s' => if c =? LF then rev cur :: split_lines_aux [] s' else split_lines_aux (c :: cur) s'
  end.
Definition split_lines (s : bytes) : list bytes := split_lines_aux [] s.
Definition join_lines (ls : list bytes) : bytes := concat (map (fun l => l ++ [LF]) ls).


(* the message as delivered: a final newline is added if missing *)
Definition msg_plus (msg : bytes) : bytes := join_lines (split_lines msg).

