(* Linear probing: what cdbmake_throw (throw) builds, seen along the probe path the reader walks. *)
From Coq Require Import List NArith Bool Lia ZArith ZifyBool ZifyN ZifyNat Permutation.
From NQ Require Import Base.Bytes Base.Cdb Base.CdbLemmasA.
Local Open Scope nat_scope.

Definition empty (t : list hp) (i : nat) : bool := (snd (slot_at t i) =? 0)%N.

Fixpoint path (L w n : nat) : list nat :=
  match n with O => [] | S n' => w :: path L (next_slot L w) n' end.

Fixpoint upto_empty (t : list hp) (P : list nat) : list nat :=
  match P with
  | [] => []
  | i :: P' => if empty t i then [] else i :: upto_empty t P'
  end.

Definition walk (t : list hp) (w n : nat) : list hp :=
  map (slot_at t) (upto_empty t (path (length t) w n)).

Definition hfilter (h : N) (l : list hp) : list hp := filter (fun e => (fst e =? h)%N) l.

Definition ppath (t : list hp) (h : N) : list nat :=
  path (length t) (start_slot h (length t)) (length t).

Definition free (t : list hp) : nat := length (filter (fun e => (snd e =? 0)%N) t).

(* ------------------------------------------------------------------ set_nth *)
Lemma length_set_nth t : forall w e, length (set_nth t w e) = length t.
Proof.
  induction t as [|x t IH]; intros w e; [reflexivity|].
  destruct w; cbn [set_nth length]; [reflexivity | rewrite IH; reflexivity].
Qed.

Lemma slot_set_nth_eq t : forall w e, w < length t -> slot_at (set_nth t w e) w = e.
Proof.
  unfold slot_at. induction t as [|x t IH]; intros w e H; [cbn in H; lia|].
  destruct w; cbn [set_nth nth]; [reflexivity|]. apply IH. cbn [length] in H. lia.
Qed.

Lemma slot_set_nth_ne t : forall w i e, i <> w -> slot_at (set_nth t w e) i = slot_at t i.
Proof.
  unfold slot_at. induction t as [|x t IH]; intros w i e H; [reflexivity|].
  destruct w, i; cbn [set_nth nth]; try reflexivity; [congruence|].
  apply IH. congruence.
Qed.

Lemma Forall_set_nth (P : hp -> Prop) t : forall w e, Forall P t -> P e -> Forall P (set_nth t w e).
Proof.
  induction t as [|x t IH]; intros w e Ht He; [constructor|].
  inversion Ht as [|? ? Hx Ht']; subst.
  destruct w; cbn [set_nth]; constructor; auto.
Qed.

(* ------------------------------------------------------------------ free slots *)
Lemma free_set_nth t : forall w e, w < length t -> snd (slot_at t w) = 0%N -> snd e <> 0%N ->
  S (free (set_nth t w e)) = free t.
Proof.
  unfold free, slot_at. induction t as [|x t IH]; intros w e Hw Hs He; [cbn in Hw; lia|].
  destruct w; cbn [set_nth nth filter] in *.
  - rewrite Hs. apply N.eqb_neq in He. rewrite He. reflexivity.
  - cbn [length] in Hw. assert (Hw' : w < length t) by lia.
    specialize (IH w e Hw' Hs He).
    destruct (snd x =? 0)%N; cbn [length]; lia.
Qed.

Lemma free_exists t : 0 < free t -> exists i, i < length t /\ empty t i = true.
Proof.
  unfold free, empty, slot_at. induction t as [|x t IH]; intros H; [cbn in H; lia|].
  cbn [filter] in H. destruct (snd x =? 0)%N eqn:E.
  - exists 0. split; [cbn; lia | exact E].
  - destruct (IH H) as [i [Hi Ei]]. exists (S i). split; [cbn [length]; lia | exact Ei].
Qed.

Lemma free_repeat n : free (repeat (0%N, 0%N) n) = n.
Proof.
  unfold free. induction n as [|n IH]; [reflexivity|].
  cbn [repeat filter snd N.eqb length]. rewrite IH. reflexivity.
Qed.

Lemma empty_repeat n i : empty (repeat (0%N, 0%N) n) i = true.
Proof.
  unfold empty, slot_at. revert i; induction n as [|n IH]; intros i.
  - destruct i; reflexivity.
  - destruct i; [reflexivity | apply IH].
Qed.

(* ------------------------------------------------------------------ the probe path is a rotation of 0..L-1 *)
Lemma path_seq L : forall n w, w + n <= L -> path L w n = seq w n.
Proof.
  induction n as [|n IH]; intros w H; [reflexivity|].
  cbn [path seq]. f_equal.
  destruct n as [|n]; [reflexivity|].
  unfold next_slot. destruct (Nat.eqb (S w) L) eqn:E.
  - apply Nat.eqb_eq in E. lia.
  - apply IH. lia.
Qed.

Lemma path_wrap L k : forall n w, 1 <= n -> w + n = L -> path L w (n + k) = seq w n ++ path L 0 k.
Proof.
  induction n as [|n IH]; intros w H1 H; [lia|].
  cbn [Nat.add path seq app]. f_equal.
  destruct n as [|n].
  - unfold next_slot. replace (Nat.eqb (S w) L) with true by (symmetry; apply Nat.eqb_eq; lia).
    reflexivity.
  - unfold next_slot. replace (Nat.eqb (S w) L) with false by (symmetry; apply Nat.eqb_neq; lia).
    apply IH; lia.
Qed.

Lemma path_rot L w : w < L -> path L w L = seq w (L - w) ++ seq 0 w.
Proof.
  intros H. replace L with ((L - w) + w) at 2 by lia.
  rewrite (path_wrap L w (L - w) w); [|lia|lia].
  rewrite (path_seq L w 0); [reflexivity | lia].
Qed.

Lemma path_perm L w : w < L -> Permutation (path L w L) (seq 0 L).
Proof.
  intros H. rewrite (path_rot L w H).
  assert (E : seq 0 L = seq 0 w ++ seq w (L - w)).
  { pose proof (seq_app w (L - w) 0) as SA. cbn [Nat.add] in SA. rewrite <- SA. f_equal. lia. }
  rewrite E. apply Permutation_app_comm.
Qed.

Lemma path_NoDup L w : w < L -> NoDup (path L w L).
Proof.
  intros H. eapply Permutation_NoDup; [apply Permutation_sym, path_perm; exact H | apply seq_NoDup].
Qed.

Lemma path_In L w i : w < L -> (In i (path L w L) <-> i < L).
Proof.
  intros H. split; intros Hi.
  - eapply Permutation_in in Hi; [|apply path_perm; exact H]. apply in_seq in Hi. lia.
  - eapply Permutation_in; [apply Permutation_sym, path_perm; exact H|]. apply in_seq. lia.
Qed.

Lemma start_slot_lt h L : 0 < L -> start_slot h L < L.
Proof.
  intros H. unfold start_slot.
  assert ((h / 256) mod N.of_nat L < N.of_nat L)%N by (apply N.mod_lt; lia).
  lia.
Qed.

(* ------------------------------------------------------------------ first empty slot on a path *)
Definition nonempty_all (t : list hp) (P : list nat) : Prop := Forall (fun j => empty t j = false) P.

Lemma split_first_empty t P : forall i, In i P -> empty t i = true ->
  exists P1 z P2, P = P1 ++ z :: P2 /\ nonempty_all t P1 /\ empty t z = true.
Proof.
  induction P as [|p P IH]; intros i Hi Ei; [destruct Hi|].
  destruct (empty t p) eqn:Ep.
  - exists [], p, P. split; [reflexivity|]. split; [constructor | exact Ep].
  - destruct Hi as [->|Hi]; [congruence|].
    destruct (IH i Hi Ei) as [P1 [z [P2 [-> [H1 Hz]]]]].
    exists (p :: P1), z, P2. split; [reflexivity|]. split; [constructor; assumption | exact Hz].
Qed.

Lemma upto_empty_app t P1 P2 : nonempty_all t P1 -> upto_empty t (P1 ++ P2) = P1 ++ upto_empty t P2.
Proof.
  induction P1 as [|p P1 IH]; intros H; [reflexivity|].
  inversion H as [|? ? Hp H']; subst. cbn [app upto_empty]. rewrite Hp, (IH H'). reflexivity.
Qed.

Lemma upto_empty_split t P1 z P2 : nonempty_all t P1 -> empty t z = true ->
  upto_empty t (P1 ++ z :: P2) = P1.
Proof.
  intros H Hz. rewrite (upto_empty_app t P1 _ H). cbn [upto_empty]. rewrite Hz. apply app_nil_r.
Qed.

Lemma upto_empty_in t P : forall x, In x (upto_empty t P) -> In x P /\ empty t x = false.
Proof.
  induction P as [|p P IH]; intros x H; [destruct H|].
  cbn [upto_empty] in H. destruct (empty t p) eqn:Ep; [destruct H|].
  destruct H as [<-|H]; [split; [left; reflexivity | exact Ep]|].
  destruct (IH x H) as [H1 H2]. split; [right; exact H1 | exact H2].
Qed.

Lemma find_free_path t : forall n w P1 z P2,
  path (length t) w n = P1 ++ z :: P2 -> nonempty_all t P1 -> empty t z = true ->
  find_free t w n = z.
Proof.
  induction n as [|n IH]; intros w P1 z P2 HP H1 Hz.
  - destruct P1; discriminate.
  - cbn [path] in HP. cbn [find_free].
    destruct P1 as [|p P1]; cbn [app] in HP; injection HP as Hw HP.
    + subst w. unfold empty in Hz. rewrite Hz. reflexivity.
    + subst w. inversion H1 as [|? ? Hp H1']; subst. unfold empty in Hp. rewrite Hp.
      eapply IH; eassumption.
Qed.

Lemma split_unique {A} (x : A) : forall A1 A2 B1 B2,
  NoDup (A1 ++ x :: A2) -> A1 ++ x :: A2 = B1 ++ x :: B2 -> A1 = B1 /\ A2 = B2.
Proof.
  induction A1 as [|a A1 IH]; intros A2 B1 B2 ND E.
  - destruct B1 as [|b B1]; cbn [app] in *.
    + injection E as E. split; [reflexivity | exact E].
    + injection E as Eb E. subst b. apply NoDup_cons_iff in ND as [Hn _].
      exfalso. apply Hn. rewrite E. apply in_or_app. right. left. reflexivity.
  - destruct B1 as [|b B1]; cbn [app] in *.
    + injection E as Ea E. subst a. apply NoDup_cons_iff in ND as [Hn _].
      exfalso. apply Hn. apply in_or_app. right. left. reflexivity.
    + injection E as Ea E. subst b. apply NoDup_cons_iff in ND as [_ ND'].
      destruct (IH A2 B1 B2 ND' E) as [-> ->]. split; reflexivity.
Qed.

(* ------------------------------------------------------------------ the invariant of the insertion loop *)
Record Inv (t ins : list hp) : Prop := {
  inv_free : free t + length ins = length t;
  inv_A : forall h, hfilter h (map (slot_at t) (upto_empty t (ppath t h))) = hfilter h ins;
  inv_B : forall x Q1 Q2, x < length t -> empty t x = false ->
          ppath t (fst (slot_at t x)) = Q1 ++ x :: Q2 -> nonempty_all t Q1
}.

Lemma hfilter_app h a b : hfilter h (a ++ b) = hfilter h a ++ hfilter h b.
Proof. apply filter_app. Qed.

Lemma hfilter_nil h l : (forall x, In x l -> fst x <> h) -> hfilter h l = [].
Proof.
  induction l as [|x l IH]; intros H; [reflexivity|].
  unfold hfilter in *. cbn [filter].
  replace (fst x =? h)%N with false.
  - apply IH. intros y Hy. apply H. right. exact Hy.
  - symmetry. apply N.eqb_neq. apply H. left. reflexivity.
Qed.

Lemma Inv_init L : Inv (repeat (0%N, 0%N) L) [].
Proof.
  split.
  - rewrite free_repeat, repeat_length. cbn [length]. lia.
  - intros h. replace (upto_empty _ _) with (@nil nat); [reflexivity|].
    destruct (ppath (repeat (0%N, 0%N) L) h) as [|p P]; [reflexivity|].
    cbn [upto_empty]. rewrite empty_repeat. reflexivity.
  - intros x Q1 Q2 _ Hx. rewrite empty_repeat in Hx. discriminate.
Qed.

Lemma Inv_step t ins e : Inv t ins -> length ins < length t -> snd e <> 0%N ->
  Inv (insert_hp t e) (ins ++ [e]) /\ length (insert_hp t e) = length t.
Proof.
  intros [Hfree HA HB] Hlen He.
  set (L := length t) in *.
  assert (HL : 0 < L) by lia.
  (* where e goes *)
  destruct (free_exists t ltac:(lia)) as [i0 [Hi0 Ei0]].
  assert (Hse : start_slot (fst e) L < L) by (apply start_slot_lt; exact HL).
  assert (Hin0 : In i0 (ppath t (fst e))) by (apply path_In; assumption).
  destruct (split_first_empty t _ i0 Hin0 Ei0) as [P1 [z [P2 [HP [HP1 Hz]]]]].
  assert (Hff : find_free t (start_slot (fst e) L) L = z)
    by (eapply find_free_path; eassumption).
  assert (HzL : z < L).
  { apply (path_In L (start_slot (fst e) L) z Hse). unfold ppath in HP. fold L in HP.
    rewrite HP. apply in_or_app. right. left. reflexivity. }
  unfold insert_hp. fold L. rewrite Hff.
  set (t' := set_nth t z e).
  assert (Lt' : length t' = L) by apply length_set_nth.
  assert (Sz : slot_at t' z = e) by (apply slot_set_nth_eq; exact HzL).
  assert (Sne : forall j, j <> z -> slot_at t' j = slot_at t j)
    by (intros j Hj; apply slot_set_nth_ne; exact Hj).
  assert (Ez' : empty t' z = false).
  { unfold empty. rewrite Sz. apply N.eqb_neq. exact He. }
  assert (Mono : forall j, empty t j = false -> empty t' j = false).
  { intros j Hj. destruct (Nat.eq_dec j z) as [->|Hne]; [exact Ez'|].
    unfold empty. rewrite (Sne j Hne). exact Hj. }
  assert (MonoA : forall P, nonempty_all t P -> nonempty_all t' P).
  { intros P HPn. eapply Forall_impl; [|exact HPn]. exact Mono. }
  assert (PP : forall h, ppath t' h = ppath t h).
  { intros h. unfold ppath. rewrite Lt'. reflexivity. }
  assert (NoZ : forall P, nonempty_all t P -> ~ In z P).
  { intros P HPn Hin. unfold nonempty_all in HPn. rewrite Forall_forall in HPn.
    specialize (HPn z Hin). congruence. }
  assert (MapSame : forall P, ~ In z P -> map (slot_at t') P = map (slot_at t) P).
  { intros P Hn. apply map_ext_in. intros j Hj. apply Sne. intros ->. exact (Hn Hj). }
  split; [|exact Lt'].
  split.
  - (* free *)
    rewrite Lt'. rewrite app_length. cbn [length].
    assert (S (free t') = free t).
    { apply free_set_nth; [exact HzL | | exact He].
      unfold empty in Hz. apply N.eqb_eq in Hz. exact Hz. }
    lia.
  - (* A *)
    intros h. rewrite PP. rewrite hfilter_app.
    assert (Hsh : start_slot h L < L) by (apply start_slot_lt; exact HL).
    assert (Hinh : In i0 (ppath t h)) by (apply path_In; assumption).
    destruct (split_first_empty t _ i0 Hinh Ei0) as [R1 [y [R2 [HR [HR1 Hy]]]]].
    specialize (HA h). rewrite HR in HA. rewrite (upto_empty_split t R1 y R2 HR1 Hy) in HA.
    assert (NDh : NoDup (ppath t h)) by (apply path_NoDup; exact Hsh).
    rewrite HR.
    destruct (Nat.eq_dec y z) as [Eyz|Nyz].
    + subst y.
      rewrite (upto_empty_app t' R1 _ (MonoA R1 HR1)).
      cbn [upto_empty]. rewrite Ez'.
      rewrite map_app. cbn [map]. rewrite Sz.
      rewrite (MapSame R1 (NoZ R1 HR1)).
      change (map (slot_at t) R1 ++ e :: map (slot_at t') (upto_empty t' R2))
        with (map (slot_at t) R1 ++ [e] ++ map (slot_at t') (upto_empty t' R2)).
      rewrite !hfilter_app. rewrite HA.
      rewrite (hfilter_nil h (map (slot_at t') (upto_empty t' R2))).
      * rewrite app_nil_r. reflexivity.
      * intros en Hen. apply in_map_iff in Hen. destruct Hen as [x [<- Hx]].
        apply upto_empty_in in Hx. destruct Hx as [HxR2 Ex'].
        assert (Hxz : x <> z).
        { intros ->. rewrite HR in NDh. apply NoDup_remove_2 in NDh. apply NDh.
          apply in_or_app. right. exact HxR2. }
        rewrite (Sne x Hxz). intros Hfst.
        assert (Ex : empty t x = false).
        { unfold empty in *. rewrite (Sne x Hxz) in Ex'. exact Ex'. }
        destruct (in_split x R2 HxR2) as [S1 [S2 ->]].
        assert (HxL : x < L).
        { apply (path_In L (start_slot h L) x Hsh). unfold ppath in HR. fold L in HR.
          rewrite HR. apply in_or_app. right. right. apply in_or_app. right. left. reflexivity. }
        specialize (HB x (R1 ++ z :: S1) S2 HxL Ex).
        rewrite Hfst in HB. rewrite HR in HB.
        assert (HBn : nonempty_all t (R1 ++ z :: S1)).
        { apply HB. rewrite <- app_assoc. reflexivity. }
        apply (NoZ _ HBn). apply in_or_app. right. left. reflexivity.
    + (* the new entry is not at the end of this walk, hence has another hash *)
      assert (Hne : fst e <> h).
      { intros Heq. subst h.
        assert (find_free t (start_slot (fst e) L) L = y)
          by (eapply find_free_path; [exact HR|exact HR1|exact Hy]).
        congruence. }
      assert (Ey' : empty t' y = true).
      { unfold empty. rewrite (Sne y Nyz). exact Hy. }
      rewrite (upto_empty_split t' R1 y R2 (MonoA R1 HR1) Ey').
      rewrite (MapSame R1 (NoZ R1 HR1)). rewrite HA.
      rewrite (hfilter_nil h [e]); [rewrite app_nil_r; reflexivity|].
      intros x [<-|[]]. exact Hne.
  - (* B *)
    intros x Q1 Q2 Hx Ex' HQ. rewrite Lt' in Hx. rewrite PP in HQ.
    destruct (Nat.eq_dec x z) as [->|Hxz].
    + rewrite Sz in HQ. rewrite HP in HQ.
      assert (NDe : NoDup (P1 ++ z :: P2)).
      { rewrite <- HP. apply path_NoDup. exact Hse. }
      destruct (split_unique z P1 P2 Q1 Q2 NDe HQ) as [<- _].
      apply MonoA. exact HP1.
    + rewrite (Sne x Hxz) in HQ.
      apply MonoA. apply (HB x Q1 Q2 Hx); [|exact HQ].
      unfold empty in *. rewrite (Sne x Hxz) in Ex'. exact Ex'.
Qed.

Lemma Inv_fold : forall rest t ins, Inv t ins -> length ins + length rest <= length t ->
  Forall (fun e => snd e <> 0%N) rest ->
  Inv (fold_left insert_hp rest t) (ins ++ rest) /\ length (fold_left insert_hp rest t) = length t.
Proof.
  induction rest as [|e rest IH]; intros t ins HI Hl Hr.
  - cbn [fold_left]. rewrite app_nil_r. split; [exact HI | reflexivity].
  - cbn [fold_left]. inversion Hr as [|? ? He Hr']; subst. cbn [length] in Hl.
    destruct (Inv_step t ins e HI ltac:(lia) He) as [HI' Hl'].
    destruct (IH (insert_hp t e) (ins ++ [e]) HI') as [HI'' Hl''].
    + rewrite app_length, Hl'. cbn [length]. lia.
    + exact Hr'.
    + rewrite <- app_assoc in HI''. split; [exact HI'' | rewrite Hl''; exact Hl'].
Qed.

(* ------------------------------------------------------------------ what the reader sees of a table *)
Theorem throw_walk bk : Forall (fun e => snd e <> 0%N) bk ->
  length (throw bk) = 2 * length bk /\
  forall h, hfilter h (walk (throw bk) (start_slot h (length (throw bk))) (length (throw bk)))
            = hfilter h bk.
Proof.
  intros Hbk. unfold throw.
  destruct (Inv_fold bk (repeat (0%N, 0%N) (2 * length bk)) [] (Inv_init _)) as [HI Hl].
  - rewrite repeat_length. cbn [length]. lia.
  - exact Hbk.
  - rewrite repeat_length in Hl. split; [exact Hl|].
    intros h. cbn [app] in HI. apply (inv_A _ _ HI).
Qed.

Lemma throw_Forall (P : hp -> Prop) bk : P (0%N, 0%N) -> Forall P bk -> Forall P (throw bk).
Proof.
  intros H0 Hbk. unfold throw.
  assert (G : forall rest t, Forall P rest -> Forall P t -> Forall P (fold_left insert_hp rest t)).
  { induction rest as [|e rest IH]; intros t Hr Ht; [exact Ht|].
    inversion Hr as [|? ? He Hr']; subst. cbn [fold_left]. apply IH; [exact Hr'|].
    unfold insert_hp. apply Forall_set_nth; assumption. }
  apply G; [exact Hbk|]. apply Forall_forall. intros x Hx. apply repeat_spec in Hx. subst x. exact H0.
Qed.

Lemma walk_S t w n :
  walk t w (S n) = if empty t w then [] else slot_at t w :: walk t (next_slot (length t) w) n.
Proof.
  unfold walk. cbn [path upto_empty]. destruct (empty t w); reflexivity.
Qed.

Lemma walk_0 t w : walk t w 0 = [].
Proof. reflexivity. Qed.
