(* File layout of cdb_make, and the reader's loop seen as a walk over table entries. *)
From Coq Require Import List NArith Bool Lia ZArith ZifyBool ZifyN ZifyNat.
From NQ Require Import Base.Bytes Base.Cdb Base.CdbLemmasA Base.CdbLemmasB.
Local Open Scope N_scope.

(* ------------------------------------------------------------------ the reader, one candidate entry at a time *)
Definition try_rec (f key : bytes) (h : N) (e : hp) (k : sres) : sres :=
  if fst e =? h then
    match read_at f (snd e) 8 with
    | None => SErr
    | Some rb =>
        if unpack32 (firstn 4 rb) =? blen key then
          match match_key (S (length key)) f (snd e + 8) key with
          | MErr => SErr
          | MYes => SFound (snd e + 8 + blen key) (unpack32 (skipn 4 rb))
          | MNo => k
          end
        else k
    end
  else k.

Fixpoint seek_entries (f key : bytes) (h : N) (es : list hp) : sres :=
  match es with
  | [] => SNone
  | e :: es' => try_rec f key h e (seek_entries f key h es')
  end.

Lemma seek_loop_S l f key h pos lenhash h2 :
  seek_loop (S l) f key h pos lenhash h2 =
  match read_at f ((pos + 8 * h2) mod M32) 8 with
  | None => SErr
  | Some pb =>
      if unpack32 (skipn 4 pb) =? 0 then SNone
      else try_rec f key h (unpack32 (firstn 4 pb), unpack32 (skipn 4 pb))
             (seek_loop l f key h pos lenhash (if h2 + 1 =? lenhash then 0 else h2 + 1))
  end.
Proof. reflexivity. Qed.

Lemma try_rec_found f key h e k dpos dlen : try_rec f key h e k = SFound dpos dlen ->
  k = SFound dpos dlen \/
  exists hdr, read_at f (snd e) 8 = Some hdr /\
    unpack32 (firstn 4 hdr) = blen key /\ unpack32 (skipn 4 hdr) = dlen /\
    dpos = snd e + 8 + blen key /\
    (key = [] \/ read_at f (snd e + 8) (length key) = Some key).
Proof.
  unfold try_rec. intros H.
  destruct (fst e =? h); [|left; exact H].
  destruct (read_at f (snd e) 8) as [rb|] eqn:R; [|discriminate].
  destruct (unpack32 (firstn 4 rb) =? blen key) eqn:E; [|left; exact H].
  destruct (match_key (S (length key)) f (snd e + 8) key) eqn:M; [discriminate | left; exact H |].
  injection H as <- <-. right. exists rb.
  apply N.eqb_eq in E. apply match_key_yes in M.
  repeat split; auto.
Qed.

Lemma seek_loop_sound loops : forall f key h pos lenhash h2 dpos dlen,
  seek_loop loops f key h pos lenhash h2 = SFound dpos dlen ->
  exists poskd hdr,
    read_at f poskd 8 = Some hdr /\
    unpack32 (firstn 4 hdr) = blen key /\ unpack32 (skipn 4 hdr) = dlen /\
    dpos = poskd + 8 + blen key /\
    (key = [] \/ read_at f (poskd + 8) (length key) = Some key).
Proof.
  induction loops as [|l IH]; intros f key h pos lenhash h2 dpos dlen H.
  - discriminate.
  - rewrite seek_loop_S in H.
    destruct (read_at f ((pos + 8 * h2) mod M32) 8) as [pb|]; [|discriminate].
    destruct (unpack32 (skipn 4 pb) =? 0); [discriminate|].
    apply try_rec_found in H. destruct H as [H|[hdr H]].
    + eapply IH. exact H.
    + eexists. exists hdr. exact H.
Qed.

Lemma seek_entries_filter f key h es :
  seek_entries f key h es = seek_entries f key h (hfilter h es).
Proof.
  induction es as [|e es IH]; [reflexivity|].
  unfold hfilter in *. cbn [filter seek_entries].
  destruct (fst e =? h) eqn:E.
  - cbn [seek_entries]. rewrite IH. reflexivity.
  - rewrite <- IH. unfold try_rec. rewrite E. reflexivity.
Qed.

(* ------------------------------------------------------------------ table bytes *)
Lemma table_bytes_app a b : table_bytes (a ++ b) = table_bytes a ++ table_bytes b.
Proof. apply flat_map_app. Qed.

Lemma length_table_bytes t : length (table_bytes t) = (8 * length t)%nat.
Proof.
  induction t as [|e t IH]; [reflexivity|].
  change (table_bytes (e :: t)) with ((pack32 (fst e) ++ pack32 (snd e)) ++ table_bytes t).
  rewrite app_length, length_pack_pair, IH. cbn [length]. lia.
Qed.

Lemma table_read pre t post w pos : (w < length t)%nat ->
  N.to_nat pos = (length pre + 8 * w)%nat ->
  read_at (pre ++ table_bytes t ++ post) pos 8 =
  Some (pack32 (fst (slot_at t w)) ++ pack32 (snd (slot_at t w))).
Proof.
  intros Hw Hp.
  destruct (nth_split t (0, 0) Hw) as [l1 [l2 [Ht Hl1]]].
  fold (slot_at t w) in Ht. set (e := slot_at t w) in *.
  rewrite Ht. change (l1 ++ e :: l2) with (l1 ++ [e] ++ l2).
  rewrite !table_bytes_app.
  change (table_bytes [e]) with ((pack32 (fst e) ++ pack32 (snd e)) ++ []).
  rewrite app_nil_r.
  rewrite <- !app_assoc.
  rewrite (app_assoc pre (table_bytes l1)).
  rewrite (app_assoc (pack32 (fst e)) (pack32 (snd e))).
  apply read_at_mid.
  - rewrite app_length, length_table_bytes. lia.
  - reflexivity.
Qed.

Lemma next_slot_N L w : (w < L)%nat ->
  (if N.of_nat w + 1 =? N.of_nat L then 0 else N.of_nat w + 1) = N.of_nat (next_slot L w).
Proof.
  intros H. unfold next_slot.
  destruct (N.of_nat w + 1 =? N.of_nat L) eqn:E1; destruct (Nat.eqb (S w) L) eqn:E2.
  - reflexivity.
  - apply N.eqb_eq in E1. apply Nat.eqb_neq in E2. lia.
  - apply N.eqb_neq in E1. apply Nat.eqb_eq in E2. lia.
  - lia.
Qed.

Lemma next_slot_lt L w : (w < L)%nat -> (next_slot L w < L)%nat.
Proof.
  intros H. unfold next_slot. destruct (Nat.eqb (S w) L) eqn:E2; [lia|].
  apply Nat.eqb_neq in E2. lia.
Qed.

Lemma seek_loop_walk f key h pre T post :
  f = pre ++ table_bytes T ++ post -> blen f < M32 ->
  Forall (fun e => fst e < M32 /\ snd e < M32) T ->
  forall n w, (w < length T)%nat ->
  seek_loop n f key h (blen pre) (N.of_nat (length T)) (N.of_nat w) =
  seek_entries f key h (walk T w n).
Proof.
  intros Hf Hlen HT. induction n as [|n IH]; intros w Hw; [reflexivity|].
  rewrite seek_loop_S, walk_S.
  assert (Lf : length f = (length pre + 8 * length T + length post)%nat).
  { rewrite Hf, !app_length, length_table_bytes. lia. }
  unfold blen in *.
  rewrite N.mod_small by lia.
  rewrite Hf at 1. rewrite (table_read pre T post w) by (assumption || lia).
  rewrite firstn4_pack, skipn4_pack.
  pose proof (proj1 (Forall_forall _ T) HT (slot_at T w)) as Hb.
  assert (Hin : In (slot_at T w) T) by (apply nth_In; exact Hw).
  destruct (Hb Hin) as [Hb1 Hb2].
  rewrite (unpack_pack _ Hb1), (unpack_pack _ Hb2).
  unfold empty. destruct (snd (slot_at T w) =? 0); [reflexivity|].
  cbn [seek_entries].
  rewrite (next_slot_N _ _ Hw).
  rewrite IH by (apply next_slot_lt; exact Hw).
  destruct (slot_at T w); reflexivity.
Qed.

(* ------------------------------------------------------------------ the 256 tables and the header *)
Lemma tables_S n b pos l :
  tables (S n) b pos l =
  let t := throw (bucket b l) in
  let (hd, tb) := tables n (b + 1) (pos + 8 * N.of_nat (length t)) l in
  (pack32 pos ++ pack32 (N.of_nat (length t)) ++ hd, table_bytes t ++ tb).
Proof. reflexivity. Qed.

Fixpoint tabs_len (n : nat) (b : N) (l : list hp) : nat :=
  match n with
  | O => 0%nat
  | S n' => (length (throw (bucket b l)) + tabs_len n' (b + 1) l)%nat
  end.

Lemma tables_len n : forall b pos l hd tb, tables n b pos l = (hd, tb) ->
  length hd = (8 * n)%nat /\ length tb = (8 * tabs_len n b l)%nat.
Proof.
  induction n as [|n IH]; intros b pos l hd tb H.
  - injection H as <- <-. split; reflexivity.
  - rewrite tables_S in H. cbv zeta in H.
    destruct (tables n (b + 1) (pos + 8 * N.of_nat (length (throw (bucket b l)))) l)
      as [hd' tb'] eqn:E.
    apply pair_equal_spec in H as [<- <-]. destruct (IH _ _ _ _ _ E) as [H1 H2].
    cbn [tabs_len]. rewrite !app_length, !length_pack32, length_table_bytes, H1, H2. lia.
Qed.

Lemma tables_slot n : forall b pos l hd tb k, tables n b pos l = (hd, tb) -> (k < n)%nat ->
  exists hpre hpost pre post,
    hd = hpre ++ (pack32 (pos + blen pre) ++
                  pack32 (N.of_nat (length (throw (bucket (b + N.of_nat k) l))))) ++ hpost /\
    length hpre = (8 * k)%nat /\
    tb = pre ++ table_bytes (throw (bucket (b + N.of_nat k) l)) ++ post.
Proof.
  induction n as [|n IH]; intros b pos l hd tb k H Hk; [lia|].
  rewrite tables_S in H. cbv zeta in H.
  destruct (tables n (b + 1) (pos + 8 * N.of_nat (length (throw (bucket b l)))) l)
    as [hd' tb'] eqn:E.
  apply pair_equal_spec in H as [<- <-].
  destruct k as [|k].
  - exists [], hd', [], tb'.
    replace (b + N.of_nat 0) with b by lia.
    replace (pos + blen []) with pos by (unfold blen; cbn [length]; lia).
    split; [|split; reflexivity].
    cbn [app]. rewrite <- app_assoc. reflexivity.
  - destruct (IH _ _ _ _ _ k E ltac:(lia)) as [hpre [hpost [pre [post [H1 [H2 H3]]]]]].
    replace (b + 1 + N.of_nat k) with (b + N.of_nat (S k)) in * by lia.
    exists (pack32 pos ++ pack32 (N.of_nat (length (throw (bucket b l)))) ++ hpre), hpost,
           (table_bytes (throw (bucket b l)) ++ pre), post.
    split; [|split].
    + rewrite H1. rewrite <- !app_assoc.
      replace (pos + blen (table_bytes (throw (bucket b l)) ++ pre))
        with (pos + 8 * N.of_nat (length (throw (bucket b l))) + blen pre).
      * reflexivity.
      * unfold blen. rewrite app_length, length_table_bytes. lia.
    + rewrite !app_length, !length_pack32, H2. lia.
    + rewrite H3. rewrite <- app_assoc. reflexivity.
Qed.

(* the buckets are disjoint, so the tables together have at most 2 |l| slots *)
Definition from_b (b : N) (l : list hp) : list hp := filter (fun e => b <=? fst e mod 256) l.

Lemma bucket_from_b b l :
  (length (bucket b l) + length (from_b (b + 1) l) = length (from_b b l))%nat.
Proof.
  unfold bucket, from_b. induction l as [|e l IH]; [reflexivity|].
  cbn [filter].
  destruct (fst e mod 256 =? b) eqn:E1; destruct (b + 1 <=? fst e mod 256) eqn:E2;
    destruct (b <=? fst e mod 256) eqn:E3; cbn [length]; try lia;
    try apply N.eqb_eq in E1; try apply N.eqb_neq in E1;
    try apply N.leb_le in E2; try apply N.leb_gt in E2;
    try apply N.leb_le in E3; try apply N.leb_gt in E3; lia.
Qed.

Lemma length_throw bk : Forall (fun e => snd e <> 0) bk -> length (throw bk) = (2 * length bk)%nat.
Proof. intros H. apply (proj1 (throw_walk bk H)). Qed.

Lemma Forall_bucket (P : hp -> Prop) b l : Forall P l -> Forall P (bucket b l).
Proof.
  intros H. apply Forall_forall. intros x Hx. apply filter_In in Hx.
  rewrite Forall_forall in H. apply H. apply Hx.
Qed.

Lemma tabs_len_bound l : Forall (fun e => snd e <> 0) l -> forall n b,
  (tabs_len n b l + 2 * length (from_b (b + N.of_nat n) l) <= 2 * length (from_b b l))%nat.
Proof.
  intros Hl. induction n as [|n IH]; intros b.
  - replace (b + N.of_nat 0) with b by lia. cbn [tabs_len]. lia.
  - cbn [tabs_len]. specialize (IH (b + 1)).
    replace (b + 1 + N.of_nat n) with (b + N.of_nat (S n)) in IH by lia.
    rewrite (length_throw _ (Forall_bucket _ b l Hl)).
    pose proof (bucket_from_b b l) as H.
    unfold hp in *.
    set (x1 := length (from_b (b + N.of_nat (S n)) l)) in *. clearbody x1.
    set (x2 := length (from_b (b + 1) l)) in *. clearbody x2.
    set (x3 := length (bucket b l)) in *. clearbody x3.
    set (x4 := length (from_b b l)) in *. clearbody x4.
    set (x5 := tabs_len n (b + 1) l) in *. clearbody x5.
    lia.
Qed.

Lemma tabs_len_le l n b : Forall (fun e => snd e <> 0) l -> (tabs_len n b l <= 2 * length l)%nat.
Proof.
  intros Hl. pose proof (tabs_len_bound l Hl n b).
  pose proof (filter_length_le' (fun e : N * N => b <=? fst e mod 256) l) as H2.
  unfold from_b, hp in *.
  set (x1 := length (filter (fun e : N * N => b <=? fst e mod 256) l)) in *. clearbody x1.
  set (x2 := length (filter (fun e : N * N => b + N.of_nat n <=? fst e mod 256) l)) in *.
  clearbody x2. lia.
Qed.

(* ------------------------------------------------------------------ the (hash, position) list *)
Lemma length_hps_from rs : forall pos, length (hps_from pos rs) = length rs.
Proof.
  induction rs as [|r rs IH]; intros pos; [reflexivity|].
  cbn [hps_from length]. rewrite IH. reflexivity.
Qed.

Lemma length_rec_bytes r :
  length (rec_bytes r) = (8 + length (fst r) + length (snd r))%nat.
Proof. unfold rec_bytes. rewrite !app_length, !length_pack32. lia. Qed.

Lemma records_bytes_cons r rs : records_bytes (r :: rs) = rec_bytes r ++ records_bytes rs.
Proof. reflexivity. Qed.

Lemma hps_from_bounds rs : forall pos,
  Forall (fun e => pos <= snd e /\ snd e <= pos + blen (records_bytes rs)) (hps_from pos rs).
Proof.
  induction rs as [|r rs IH]; intros pos; [constructor|].
  cbn [hps_from]. constructor.
  - cbn [snd]. lia.
  - eapply Forall_impl; [|apply IH]. intros e [H1 H2].
    rewrite records_bytes_cons. unfold blen in *. rewrite app_length, length_rec_bytes. lia.
Qed.

Lemma hps_from_hash rs : forall pos,
  Forall (fun r => bytes_ok (fst r) /\ bytes_ok (snd r)) rs ->
  Forall (fun e => fst e < M32) (hps_from pos rs).
Proof.
  induction rs as [|r rs IH]; intros pos H; [constructor|].
  inversion H as [|? ? [Hk _] H']; subst.
  cbn [hps_from]. constructor; [|apply IH; exact H'].
  cbn [fst]. unfold cdb_hash. apply fold_hash_lt; [reflexivity | exact Hk].
Qed.

Lemma hfilter_bucket h l : hfilter h (bucket (h mod 256) l) = hfilter h l.
Proof.
  unfold hfilter, bucket. induction l as [|e l IH]; [reflexivity|].
  cbn [filter]. destruct (fst e =? h) eqn:E.
  - apply N.eqb_eq in E. rewrite E, N.eqb_refl. cbn [filter]. rewrite <- E at 1.
    rewrite N.eqb_refl. rewrite IH. reflexivity.
  - destruct (fst e mod 256 =? h mod 256); [cbn [filter]; rewrite E|]; exact IH.
Qed.

(* ------------------------------------------------------------------ the records, visited in order *)
Definition finish (f : bytes) (s : sres) : gres :=
  match s with
  | SErr => GErr
  | SNone => GNone
  | SFound dpos dlen =>
      if dlen =? 0 then GFound [] else
      match read_at f dpos (N.to_nat dlen) with Some d => GFound d | None => GErr end
  end.

Lemma cdb_get_finish f key : cdb_get f key = finish f (cdb_seek f key).
Proof. reflexivity. Qed.

Lemma get_spec_cons r rs key :
  get_spec (r :: rs) key = if beq (fst r) key then GFound (snd r) else get_spec rs key.
Proof. unfold get_spec. cbn [find_first]. destruct (beq (fst r) key); reflexivity. Qed.

Lemma seek_records key f : blen f < M32 -> forall rs pre post pos,
  f = pre ++ records_bytes rs ++ post -> pos = blen pre ->
  finish f (seek_entries f key (cdb_hash key) (hfilter (cdb_hash key) (hps_from pos rs))) =
  get_spec rs key.
Proof.
  intros Hlen. induction rs as [|r rs IH]; intros pre post pos Hf Hpos; [reflexivity|].
  rewrite get_spec_cons. cbn [hps_from].
  rewrite records_bytes_cons in Hf.
  assert (Lf : length f = (length pre + (8 + length (fst r) + length (snd r))
                           + length (records_bytes rs) + length post)%nat).
  { rewrite Hf, !app_length, length_rec_bytes. lia. }
  assert (IH' : finish f (seek_entries f key (cdb_hash key)
            (hfilter (cdb_hash key) (hps_from (pos + 8 + blen (fst r) + blen (snd r)) rs))) =
          get_spec rs key).
  { apply (IH (pre ++ rec_bytes r) post).
    - rewrite Hf, <- !app_assoc. reflexivity.
    - subst pos. unfold blen. rewrite app_length, length_rec_bytes. lia. }
  unfold hfilter at 1. cbn [filter fst]. fold (hfilter (cdb_hash key)).
  destruct (cdb_hash (fst r) =? cdb_hash key) eqn:Eh.
  - cbn [seek_entries]. unfold try_rec at 1. cbn [fst snd]. rewrite Eh.
    (* the record header *)
    assert (Hf2 : f = pre ++ (pack32 (blen (fst r)) ++ pack32 (blen (snd r))) ++
                      (fst r ++ snd r ++ records_bytes rs ++ post)).
    { rewrite Hf. unfold rec_bytes. rewrite <- !app_assoc. reflexivity. }
    assert (R1 : read_at f pos 8 = Some (pack32 (blen (fst r)) ++ pack32 (blen (snd r)))).
    { rewrite Hf2. apply read_at_mid; [subst pos; unfold blen; lia | reflexivity]. }
    rewrite R1.
    rewrite firstn4_pack, skipn4_pack.
    unfold blen in *.
    rewrite !unpack_pack by lia.
    destruct (N.of_nat (length (fst r)) =? N.of_nat (length key)) eqn:El.
    + apply N.eqb_eq in El. assert (El' : length (fst r) = length key) by lia.
      assert (Hf3 : f = (pre ++ pack32 (N.of_nat (length (fst r))) ++ pack32 (N.of_nat (length (snd r))))
                        ++ fst r ++ (snd r ++ records_bytes rs ++ post)).
      { rewrite Hf2. rewrite <- !app_assoc. reflexivity. }
      assert (R2 : match_key (S (length key)) f (pos + 8) key =
                   if beq (fst r) key then MYes else MNo).
      { rewrite Hf3. apply match_key_intact; [exact El' | lia |].
        rewrite !app_length, !length_pack32. lia. }
      rewrite R2.
      destruct (beq (fst r) key) eqn:B; [|exact IH'].
      unfold finish.
      destruct (N.of_nat (length (snd r)) =? 0) eqn:Ed.
      * apply N.eqb_eq in Ed. destruct (snd r); [reflexivity | cbn [length] in Ed; lia].
      * assert (Hf4 : f = (pre ++ pack32 (N.of_nat (length (fst r))) ++
                           pack32 (N.of_nat (length (snd r))) ++ fst r)
                          ++ snd r ++ (records_bytes rs ++ post)).
        { rewrite Hf2. rewrite <- !app_assoc. reflexivity. }
        assert (R3 : read_at f (pos + 8 + N.of_nat (length key))
                       (N.to_nat (N.of_nat (length (snd r)))) = Some (snd r)).
        { rewrite Hf4. apply read_at_mid; [|lia].
          rewrite !app_length, !length_pack32. lia. }
        rewrite R3. reflexivity.
    + replace (beq (fst r) key) with false; [exact IH'|].
      symmetry. destruct (beq (fst r) key) eqn:B; [|reflexivity].
      apply beq_eq in B. rewrite B in El. rewrite N.eqb_refl in El. discriminate.
  - replace (beq (fst r) key) with false; [exact IH'|].
    symmetry. destruct (beq (fst r) key) eqn:B; [|reflexivity].
    apply beq_eq in B. rewrite B in Eh. rewrite N.eqb_refl in Eh. discriminate.
Qed.
