(* Generic lemmas for Base/CdbProofs.v: arithmetic, pack/unpack, read_at, match_key, hash. *)
From Coq Require Import List NArith Bool Lia ZArith ZifyBool ZifyN ZifyNat.
From NQ Require Import Base.Bytes Base.Cdb.
Local Open Scope N_scope.

Ltac dm_lia := (Z.div_mod_to_equations; lia).

(* ------------------------------------------------------------------ hash *)
Lemma M32_pow : M32 = 2 ^ 32.
Proof. reflexivity. Qed.

Lemma lxor_lt32 a b : a < 2 ^ 32 -> b < 2 ^ 32 -> N.lxor a b < 2 ^ 32.
Proof.
  intros Ha Hb.
  destruct (N.eq_dec (N.lxor a b) 0) as [E|E].
  - rewrite E. reflexivity.
  - apply N.log2_lt_pow2; [lia|].
    eapply N.le_lt_trans; [apply N.log2_lxor|].
    apply N.max_lub_lt.
    + destruct (N.eq_dec a 0) as [->|Ea]; [reflexivity | apply N.log2_lt_pow2; [lia|exact Ha]].
    + destruct (N.eq_dec b 0) as [->|Eb]; [reflexivity | apply N.log2_lt_pow2; [lia|exact Hb]].
Qed.

Lemma hashadd_lt h c : c < 256 -> hashadd h c < M32.
Proof.
  intros Hc. unfold hashadd. rewrite M32_pow. apply lxor_lt32.
  - apply N.mod_lt. discriminate.
  - eapply N.lt_trans; [exact Hc | reflexivity].
Qed.

Lemma fold_hash_lt k : forall h, h < M32 -> bytes_ok k -> fold_left hashadd k h < M32.
Proof.
  induction k as [|c k IH]; intros h Hh Hk.
  - exact Hh.
  - cbn [fold_left]. inversion Hk as [|? ? Hc Hk']; subst.
    apply IH; [apply hashadd_lt; exact Hc | exact Hk'].
Qed.

(* ------------------------------------------------------------------ pack / unpack *)
Lemma unpack_pack n : n < M32 -> unpack32 (pack32 n) = n.
Proof.
  unfold M32, pack32, unpack32. intros Hn.
  zify. Z.div_mod_to_equations. lia.
Qed.

Lemma length_pack32 n : length (pack32 n) = 4%nat.
Proof. reflexivity. Qed.

Lemma firstn4_pack a b : firstn 4 (pack32 a ++ pack32 b) = pack32 a.
Proof. reflexivity. Qed.

Lemma skipn4_pack a b : skipn 4 (pack32 a ++ pack32 b) = pack32 b.
Proof. reflexivity. Qed.

Lemma length_pack_pair a b : length (pack32 a ++ pack32 b) = 8%nat.
Proof. reflexivity. Qed.

(* ------------------------------------------------------------------ lists *)
Lemma skipn_length_app {A} (a b : list A) : skipn (length a) (a ++ b) = b.
Proof. induction a as [|x a IH]; [reflexivity | exact IH]. Qed.

Lemma firstn_length_app {A} (a b : list A) : firstn (length a) (a ++ b) = a.
Proof. induction a as [|x a IH]; [reflexivity | cbn [length app firstn]; rewrite IH; reflexivity]. Qed.

Lemma firstn_add {A} n m (g : list A) : firstn (n + m) g = firstn n g ++ firstn m (skipn n g).
Proof.
  revert g; induction n as [|n IH]; intros g; [reflexivity|].
  destruct g as [|x g]; cbn [Nat.add firstn skipn app].
  - destruct m; reflexivity.
  - rewrite IH. reflexivity.
Qed.

Lemma skipn_add {A} n m (g : list A) : skipn (n + m) g = skipn m (skipn n g).
Proof.
  revert g; induction n as [|n IH]; intros g; [reflexivity|].
  destruct g as [|x g]; cbn [Nat.add skipn].
  - destruct m; reflexivity.
  - apply IH.
Qed.

Lemma filter_length_le' {A} (p : A -> bool) l : (length (filter p l) <= length l)%nat.
Proof.
  induction l as [|x l IH]; [apply le_n|].
  cbn [filter]. destruct (p x); cbn [length]; lia.
Qed.

(* ------------------------------------------------------------------ read_at *)
Lemma read_at_mid a m c pos n :
  N.to_nat pos = length a -> n = length m -> read_at (a ++ m ++ c) pos n = Some m.
Proof.
  intros Hp ->. unfold read_at. rewrite Hp.
  replace (Nat.leb (length a + length m) (length (a ++ m ++ c))) with true.
  - rewrite skipn_length_app, firstn_length_app. reflexivity.
  - symmetry. apply Nat.leb_le. rewrite !app_length. lia.
Qed.

Lemma read_at_some f pos n b : read_at f pos n = Some b ->
  (N.to_nat pos + n <= length f)%nat /\ b = firstn n (skipn (N.to_nat pos) f).
Proof.
  unfold read_at. destruct (Nat.leb (N.to_nat pos + n) (length f)) eqn:E; [|discriminate].
  intros H; injection H as <-. apply Nat.leb_le in E. split; [exact E | reflexivity].
Qed.

Lemma read_at_app f pos n m a b :
  read_at f pos n = Some a -> read_at f (pos + N.of_nat n) m = Some b ->
  read_at f pos (n + m) = Some (a ++ b).
Proof.
  intros Ha Hb. apply read_at_some in Ha as [La ->]. apply read_at_some in Hb as [Lb ->].
  replace (N.to_nat (pos + N.of_nat n)) with (N.to_nat pos + n)%nat in * by lia.
  unfold read_at.
  replace (Nat.leb (N.to_nat pos + (n + m)) (length f)) with true
    by (symmetry; apply Nat.leb_le; lia).
  rewrite firstn_add, skipn_add. reflexivity.
Qed.

(* ------------------------------------------------------------------ match_key *)
Lemma match_key_nil fuel f pos : match_key fuel f pos [] = MYes.
Proof. destruct fuel; reflexivity. Qed.

Lemma match_key_cons fuel f pos c key :
  match_key (S fuel) f pos (c :: key) =
  let n := Nat.min 32 (length (c :: key)) in
  match read_at f pos n with
  | None => MErr
  | Some b => if beq b (firstn n (c :: key)) then match_key fuel f (pos + N.of_nat n) (skipn n (c :: key)) else MNo
  end.
Proof. reflexivity. Qed.

Lemma match_key_yes fuel : forall f pos key, match_key fuel f pos key = MYes ->
  key = [] \/ read_at f pos (length key) = Some key.
Proof.
  induction fuel as [|fuel IH]; intros f pos key H.
  - destruct key; [left; reflexivity | discriminate].
  - destruct key as [|c key]; [left; reflexivity|]. right.
    rewrite match_key_cons in H. cbv zeta in H.
    set (k := c :: key) in *. set (n := Nat.min 32 (length k)) in *.
    destruct (read_at f pos n) as [b|] eqn:R; [|discriminate].
    destruct (beq b (firstn n k)) eqn:B; [|discriminate].
    apply beq_eq in B. subst b.
    assert (Hn : (n <= length k)%nat) by (subst n; lia).
    pose proof (firstn_skipn n k) as FS.
    apply IH in H. destruct H as [H|H].
    + assert (E : n = length k).
      { pose proof (skipn_length n k) as SL. rewrite H in SL. cbn [length] in SL. lia. }
      rewrite E in R. rewrite firstn_all in R. exact R.
    + replace (Some k) with (Some (firstn n k ++ skipn n k)) by (rewrite FS; reflexivity).
      replace (length k) with (n + length (skipn n k))%nat by (rewrite skipn_length; lia).
      apply read_at_app; assumption.
Qed.

Lemma beq_refl a : beq a a = true.
Proof. apply beq_eq. reflexivity. Qed.

Lemma beq_split n : forall a b, length a = length b ->
  beq a b = beq (firstn n a) (firstn n b) && beq (skipn n a) (skipn n b).
Proof.
  induction n as [|n IH]; intros a b H.
  - reflexivity.
  - destruct a as [|x a], b as [|y b]; try discriminate; [reflexivity|].
    cbn [firstn skipn beq]. injection H as H. rewrite (IH a b H).
    rewrite andb_assoc. reflexivity.
Qed.

(* on an intact stored key of the same length, match_key decides equality *)
Lemma match_key_intact fuel : forall pre k post key pos,
  length k = length key -> (length key <= fuel)%nat -> N.to_nat pos = length pre ->
  match_key fuel (pre ++ k ++ post) pos key = if beq k key then MYes else MNo.
Proof.
  induction fuel as [|fuel IH]; intros pre k post key pos Hl Hf Hp.
  - destruct key; [|cbn in Hf; lia]. destruct k; [reflexivity | discriminate].
  - destruct key as [|c key].
    + destruct k; [reflexivity | discriminate].
    + rewrite match_key_cons. cbv zeta.
      set (ky := c :: key) in *. set (n := Nat.min 32 (length ky)) in *.
      assert (Hn : (n <= length ky)%nat) by (subst n; lia).
      assert (Hn1 : (1 <= n)%nat) by (subst n ky; cbn [length]; lia).
      assert (Ek : pre ++ k ++ post = pre ++ firstn n k ++ (skipn n k ++ post)).
      { rewrite (app_assoc (firstn n k)), firstn_skipn. reflexivity. }
      rewrite Ek.
      assert (Lf : length (firstn n k) = n) by (rewrite firstn_length; lia).
      rewrite (read_at_mid pre (firstn n k) _ pos n Hp (eq_sym Lf)).
      rewrite (beq_split n k ky Hl).
      destruct (beq (firstn n k) (firstn n ky)) eqn:B; [|reflexivity].
      rewrite andb_true_l.
      rewrite (app_assoc pre (firstn n k)).
      apply IH.
      * rewrite !skipn_length. lia.
      * rewrite skipn_length. lia.
      * rewrite app_length, Lf. lia.
Qed.
