(* constmap.c: the in-memory hash table built from a control file (locals, percenthack, virtualdomains,
   rcpthosts, badmailfrom, ...).  Lines come from control_readfile (NUL-free).  No proofs here. *)
From NQ Require Import Base.Bytes.
Local Open Scope N_scope.

Definition M64 : N := 18446744073709551616.

(* hash(): ch = c - 'A' as unsigned char; folded to lower case when <= 'Z' - 'A'; h = ((h << 5) + h) ^ ch *)
Definition FOLD_MAX : N := 25.                     (* 'Z' - 'A' *)
Definition cm_ch (c : N) : N :=
  let ch := (c + 256 - 65) mod 256 in if ch <=? FOLD_MAX then ch + 32 else ch.
Definition cm_hashadd (h c : N) : N := N.lxor ((N.shiftl h 5 + h) mod M64) (cm_ch c).
Definition cm_hash (s : bytes) : N := fold_left cm_hashadd s 5381.

(* case_diffb() = 0 *)
Definition case_eqb (a b : bytes) : bool := beq (lowers a) (lowers b).

Record cent := { ce_key : bytes; ce_val : bytes; ce_hash : N; ce_next : option nat }.
Record cmap := { cm_mask : N; cm_first : list (option nat); cm_ents : list cent }.

(* mask: h = 64; while (h < num) h += h *)
Fixpoint grow (fuel : nat) (h num : N) : N :=
  match fuel with O => h | S f => if h <? num then grow f (h + h) num else h end.
Definition table_size (num : N) : N := grow 64 64 num.

Fixpoint set_first (l : list (option nat)) (i : nat) (v : option nat) : list (option nat) :=
  match l, i with
  | [], _ => []
  | _ :: l', O => v :: l'
  | x :: l', S i' => x :: set_first l' i' v
  end.

Fixpoint split_at_colon (cur : bytes) (l : bytes) : option (bytes * bytes) :=
  match l with
  | [] => None
  | c :: l' => if c =? 58 then Some (rev cur, l') else split_at_colon (c :: cur) l'
  end.

(* one line of the file: with flagcolon the key ends at the first ':' and a line without one is skipped *)
Definition entry_of (flagcolon : bool) (line : bytes) : option (bytes * bytes) :=
  if flagcolon then split_at_colon [] line else Some (line, []).

Definition cm_add (m : cmap) (kv : bytes * bytes) : cmap :=
  let h := cm_hash (fst kv) in
  let slot := N.to_nat (N.land h (cm_mask m)) in
  let pos := length (cm_ents m) in
  {| cm_mask := cm_mask m;
     cm_first := set_first (cm_first m) slot (Some pos);
     cm_ents := cm_ents m ++ [{| ce_key := fst kv; ce_val := snd kv; ce_hash := h;
                                 ce_next := nth slot (cm_first m) None |}] |}.

Definition constmap_init (lines : list bytes) (flagcolon : bool) : cmap :=
  let size := table_size (N.of_nat (length lines)) in
  fold_left (fun m l => match entry_of flagcolon l with Some kv => cm_add m kv | None => m end) lines
            {| cm_mask := size - 1; cm_first := repeat None (N.to_nat size); cm_ents := [] |}.

Definition dummy_ent : cent := {| ce_key := []; ce_val := []; ce_hash := 0; ce_next := None |}.

Fixpoint chain (fuel : nat) (m : cmap) (h : N) (s : bytes) (pos : option nat) : option bytes :=
  match fuel, pos with
  | _, None => None
  | O, _ => None
  | S f, Some p =>
      let e := nth p (cm_ents m) dummy_ent in
      if (h =? ce_hash e) && Nat.eqb (length s) (length (ce_key e)) && case_eqb (ce_key e) s
      then Some (ce_val e)
      else chain f m h s (ce_next e)
  end.

(* constmap(): Some value (the text after the colon; [] for a map without colons) or None *)
Definition constmap (m : cmap) (s : bytes) : option bytes :=
  let h := cm_hash s in
  chain (S (length (cm_ents m))) m h s (nth (N.to_nat (N.land h (cm_mask m))) (cm_first m) None).
