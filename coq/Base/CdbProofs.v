(* Proofs about Base/Cdb.v.  The statements marked REQUIRED must be proved exactly as stated. *)
From NQ Require Import Base.Bytes Base.Cdb.
From Coq Require Import ZArith ZifyBool ZifyN ZifyNat.
From NQ Require Import Base.CdbLemmasA Base.CdbLemmasB Base.CdbLemmasC.
Local Open Scope N_scope.

(* the hash stays below 2^32 (restated at the end of the file; needed early by cdb_get_make) *)
Lemma cdb_hash_lt' : forall k, bytes_ok k -> cdb_hash k < M32.
Proof.
  intros k Hk. unfold cdb_hash. apply fold_hash_lt; [reflexivity | exact Hk].
Qed.

(* REQUIRED 1: the reader finds, in the file the writer produces, exactly the first record with the key *)
Theorem cdb_get_make : forall rs key, recs_ok rs -> bytes_ok key ->
  cdb_get (cdb_make rs) key = get_spec rs key.
Proof.
  intros rs key [Hrs Hsz] Hkey.
  rewrite cdb_get_finish.
  pose proof (cdb_hash_lt' key Hkey) as Hh.
  unfold cdb_make.
  set (body := records_bytes rs) in *.
  set (hps := hps_from HEADER rs).
  destruct (tables 256 0 (HEADER + blen body) hps) as [hd tb] eqn:ET.
  set (f := hd ++ body ++ tb).
  destruct (tables_len _ _ _ _ _ _ ET) as [Lhd Ltb].
  (* bounds on the (hash, position) pairs *)
  assert (Hpos : Forall (fun e => HEADER <= snd e /\ snd e <= HEADER + blen body) hps)
    by apply hps_from_bounds.
  assert (Hnz : Forall (fun e => snd e <> 0) hps).
  { eapply Forall_impl; [|exact Hpos]. intros e [H1 _]. unfold HEADER in H1. lia. }
  assert (Hhash : Forall (fun e => fst e < M32) hps) by (apply hps_from_hash; exact Hrs).
  assert (Lhps : length hps = length rs) by apply length_hps_from.
  assert (Ltabs : (tabs_len 256 0 hps <= 2 * length rs)%nat)
    by (rewrite <- Lhps; apply tabs_len_le; exact Hnz).
  assert (Lf : length f = (2048 + length body + 8 * tabs_len 256 0 hps)%nat).
  { unfold f. rewrite !app_length, Lhd, Ltb. lia. }
  assert (Hflen : blen f < M32).
  { unfold blen, HEADER in *. lia. }
  (* the bucket of the key *)
  set (h := cdb_hash key) in *.
  set (b := h mod 256).
  assert (Hb : b < 256) by (apply N.mod_lt; discriminate).
  set (k := N.to_nat b).
  assert (Hk : (k < 256)%nat) by lia.
  destruct (tables_slot _ _ _ _ _ _ k ET Hk) as [hpre [hpost [pre [post [Hhd [Lhpre Htb]]]]]].
  replace (0 + N.of_nat k) with b in * by lia.
  set (bk := bucket b hps) in *. set (T := throw bk) in *.
  assert (Hbknz : Forall (fun e => snd e <> 0) bk) by (apply Forall_bucket; exact Hnz).
  destruct (throw_walk bk Hbknz) as [LT HW]. fold T in LT, HW.
  assert (Ltb2 : length tb = (length pre + 8 * length T + length post)%nat).
  { rewrite Htb, !app_length, length_table_bytes. lia. }
  (* the header slot *)
  assert (R0 : read_at f (8 * b) 8 =
               Some (pack32 (HEADER + blen body + blen pre) ++ pack32 (N.of_nat (length T)))).
  { unfold f. rewrite Hhd. rewrite <- !app_assoc.
    rewrite (app_assoc (pack32 (HEADER + blen body + blen pre))).
    apply read_at_mid; [lia | reflexivity]. }
  unfold cdb_seek. change (cdb_hash key) with h. fold b. rewrite R0.
  rewrite firstn4_pack, skipn4_pack.
  rewrite !unpack_pack by (unfold blen, HEADER in *; lia).
  (* the loop is a walk over the table *)
  assert (Hseek : (if N.of_nat (length T) =? 0 then SNone
                   else seek_loop (N.to_nat (N.of_nat (length T))) f key h
                          (HEADER + blen body + blen pre) (N.of_nat (length T))
                          ((h / 256) mod N.of_nat (length T)))
                  = seek_entries f key h (walk T (start_slot h (length T)) (length T))).
  { destruct (N.of_nat (length T) =? 0) eqn:E0.
    - apply N.eqb_eq in E0. replace (length T) with 0%nat by lia. reflexivity.
    - apply N.eqb_neq in E0. rewrite Nat2N.id.
      replace ((h / 256) mod N.of_nat (length T)) with (N.of_nat (start_slot h (length T)))
        by (unfold start_slot; apply N2Nat.id).
      replace (HEADER + blen body + blen pre) with (blen (hd ++ body ++ pre))
        by (unfold blen, HEADER; rewrite !app_length, Lhd; lia).
      apply (seek_loop_walk f key h (hd ++ body ++ pre) T post).
      + unfold f. rewrite Htb, <- !app_assoc. reflexivity.
      + exact Hflen.
      + apply throw_Forall; [split; reflexivity|].
        apply Forall_bucket. apply Forall_forall. intros e He.
        rewrite Forall_forall in Hhash, Hpos. specialize (Hhash e He). specialize (Hpos e He).
        split; [exact Hhash|]. unfold blen, HEADER in *. lia.
      + apply start_slot_lt. lia. }
  rewrite Hseek.
  rewrite seek_entries_filter, HW.
  unfold bk, b. rewrite hfilter_bucket.
  apply (seek_records key f Hflen rs hd tb HEADER).
  - reflexivity.
  - unfold blen, HEADER. rewrite Lhd. reflexivity.
Qed.

(* REQUIRED 2: whatever the file contains (truncated, damaged, hostile), a positive answer points at
   a record header inside the file whose key length is the searched key's and whose key bytes are the key *)
Theorem seek_found_sound : forall f key dpos dlen,
  cdb_seek f key = SFound dpos dlen ->
  exists poskd hdr,
    read_at f poskd 8 = Some hdr /\
    unpack32 (firstn 4 hdr) = blen key /\ unpack32 (skipn 4 hdr) = dlen /\
    dpos = poskd + 8 + blen key /\
    (key = [] \/ read_at f (poskd + 8) (length key) = Some key).
Proof.
  intros f key dpos dlen H. unfold cdb_seek in H.
  destruct (read_at f (8 * (cdb_hash key mod 256)) 8) as [pb|]; [|discriminate].
  destruct (unpack32 (skipn 4 pb) =? 0); [discriminate|].
  eapply seek_loop_sound. exact H.
Qed.

(* REQUIRED 3 *)
Theorem cdb_hash_lt : forall k, bytes_ok k -> cdb_hash k < M32.
Proof.
  exact cdb_hash_lt'.
Qed.

