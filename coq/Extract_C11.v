From Coq Require Extraction ExtrOcamlBasic.
From NQ Require Import Local.Assign.
Extraction Language OCaml.
Extraction "extracted_C11.ml" compile nughde_get assign_spec getpw spawn_child lspawn_verdict wildchars_of.
