(* extraction for the codec models (serves C05 and C06) *)
From Coq Require Extraction ExtrOcamlBasic.
From NQ Require Import Smtp.Codec.
Extraction Language OCaml.
Extraction "extracted_C06.ml" rblast renc_prefix sblast sdec_prefix rfc_decode rfc_encode canon hops
  ok_C06 ok_C05 lf_terminated sres_eqb.
