From Coq Require Extraction ExtrOcamlBasic.
From NQ Require Import Pop.Pop3 Pop.Popup.
Extraction Language OCaml.
Extraction "extracted_C19.ml" session init_state pop3_blast msgno split_command popup_session ust0 after_auth.
