From Coq Require Extraction ExtrOcamlBasic.
From NQ Require Import Send.Sched.
Extraction Language OCaml.
Extraction "extracted_C15.ml" squareroot nextretry flagdying pq_run heap_okb is_min_of pqfinish pqstart lookup.
