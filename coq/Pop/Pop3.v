(* qmail-pop3d.c: the POP3 session after authentication (C19).  Model only. *)
From NQ Require Export Base.Commands Base.CInt.
Local Open Scope N_scope.

(* a message as found at start-up: file name ("new/..." or "cur/..."), size, content when it is
   opened later (None = the file has vanished) *)
Record pmsg := { p_fn : bytes; p_size : N; p_content : option bytes }.
Record pst := { s_msgs : list pmsg; s_deleted : list bool; s_last : N }.

Definition INT_MAX : N := 2147483647.
Inductive mres := MOk (i : nat) | MErr (text : bytes).
Definition e_syntax : bytes := [115;121;110;116;97;120;32;101;114;114;111;114].
Definition e_nozero : bytes := [109;101;115;115;97;103;101;115;32;97;114;101;32;99;111;117;110;116;101;100;32;102;114;111;109;32;49].
Definition e_toobig : bytes := [110;111;116;32;116;104;97;116;32;109;97;110;121;32;109;101;115;115;97;103;101;115].
Definition e_deleted : bytes := [97;108;114;101;97;100;121;32;100;101;108;101;116;101;100].
Definition e_nosuch : bytes := [117;110;97;98;108;101;32;116;111;32;111;112;101;110;32;116;104;97;116;32;109;101;115;115;97;103;101].
Definition e_unimpl : bytes := [117;110;105;109;112;108;101;109;101;110;116;101;100].

(* msgno(): scan_ulong wraps modulo 2^64 *)
Definition msgno (st : pst) (arg : bytes) : mres :=
  let (u, n) := scan_ulong arg in
  if Nat.eqb n 0 then MErr e_syntax else
  if u =? 0 then MErr e_nozero else
  let u1 := u - 1 in
  if (N.of_nat (length (s_msgs st)) <=? u1) || (INT_MAX <=? u1) then MErr e_toobig else
  if nth (N.to_nat u1) (s_deleted st) false then MErr e_deleted else MOk (N.to_nat u1).

Definition CRLF2 : bytes := [13; 10].
Definition ok_line : bytes := [43;79;75;32;13;10].                  (* "+OK \r\n" *)
Definition err_line (t : bytes) : bytes := [45;69;82;82;32] ++ t ++ CRLF2.

(* blast(): lines with LF -> CRLF, leading dots stuffed; limit 0 = everything, otherwise the
   headers, the blank line and limit-1 body lines; then the extra blank line and the dot *)
Definition pline (l : bytes) : bytes :=
  (match l with c :: _ => if c =? DOT then [DOT] else [] | [] => [] end) ++ l ++ CRLF2.
(* (an unterminated last line is sent like any other: it is the last one anyway) *)
Fixpoint pblast (ls : list bytes) (limit : N) (inh : bool) : bytes :=
  match ls with
  | [] => []
  | l :: ls' =>
    if negb (limit =? 0) && negb inh && (limit =? 1) then [] else
    let limit' := if negb (limit =? 0) && negb inh then limit - 1 else limit in
    let inh' := match l with [] => false | _ => inh end in
    pline l ++ pblast ls' limit' inh'
  end.
Definition pop3_blast (content : bytes) (limit : N) : bytes :=
  pblast (split_lines content) limit true ++ [13; 10; 46; 13; 10].

(* what QUIT does to the maildir *)
Inductive qop := QUnlink (fn : bytes) | QRename (src dst : bytes).
Definition s_new : bytes := [110;101;119;47].
Definition s_cur : bytes := [99;117;114;47].
Definition quit_ops (st : pst) : list qop :=
  flat_map (fun md : pmsg * bool =>
              if snd md then [QUnlink (p_fn (fst md))]
              else if is_prefix s_new (p_fn (fst md))
                   then [QRename (p_fn (fst md)) (s_cur ++ skipn 4 (p_fn (fst md)) ++ [58; 50; 44])] else [])
           (combine (s_msgs st) (s_deleted st)).

Definition fmt_n (n : N) : bytes := fmt_ulong n.
Fixpoint upd_bool (l : list bool) (i : nat) (v : bool) : list bool :=
  match l, i with [], _ => [] | _ :: t, O => v :: t | h :: t, S k => h :: upd_bool t k v end.
Fixpoint take_until (c : N) (s : bytes) : bytes :=
  match s with [] => [] | x :: s' => if x =? c then [] else x :: take_until c s' end.

Definition listing_line (i : nat) (m : pmsg) (uidl : bool) : bytes :=
  fmt_n (N.of_nat (S i)) ++ [32] ++
  (if uidl then take_until 58 (skipn 4 (p_fn m)) else fmt_n (p_size m)) ++ CRLF2.
Fixpoint listing_all (i : nat) (ms : list pmsg) (ds : list bool) (uidl : bool) : bytes :=
  match ms, ds with
  | m :: ms', d :: ds' => (if d then [] else listing_line i m uidl) ++ listing_all (S i) ms' ds' uidl
  | _, _ => []
  end.

Inductive pout := Reply (b : bytes) | Quit (b : bytes) (ops : list qop).

Definition v_is (v : bytes) (s : list N) : bool := beq v s.
Definition pop3_step (st : pst) (line : bytes) : pst * pout :=
  let (v, arg) := split_command line in
  if v_is v [113;117;105;116] then (st, Quit ok_line (quit_ops st))                        (* quit *)
  else if v_is v [115;116;97;116] then                                                    (* stat *)
    let total := fold_left (fun (a : N) (md : pmsg * bool) => if snd md then a else a + p_size (fst md)) (combine (s_msgs st) (s_deleted st)) 0 in
    (st, Reply ([43;79;75;32] ++ fmt_n (N.of_nat (length (s_msgs st))) ++ [32] ++ fmt_n total ++ CRLF2))
  else if v_is v [108;105;115;116] || v_is v [117;105;100;108] then                        (* list / uidl *)
    let uidl := v_is v [117;105;100;108] in
    match arg with
    | [] => (st, Reply (ok_line ++ listing_all 0 (s_msgs st) (s_deleted st) uidl ++ [46;13;10]))
    | _ => match msgno st arg with
           | MErr t => (st, Reply (err_line t))
           | MOk i => (st, Reply ([43;79;75;32] ++ listing_line i (nth i (s_msgs st) {| p_fn := []; p_size := 0; p_content := None |}) uidl))
           end
    end
  else if v_is v [100;101;108;101] then                                                   (* dele *)
    match msgno st arg with
    | MErr t => (st, Reply (err_line t))
    | MOk i => ({| s_msgs := s_msgs st; s_deleted := upd_bool (s_deleted st) i true;
                   s_last := N.max (s_last st) (N.of_nat (S i)) |}, Reply ok_line)
    end
  else if v_is v [114;101;116;114] || v_is v [116;111;112] then                            (* retr / top *)
    match msgno st arg with
    | MErr t => (st, Reply (err_line t))
    | MOk i =>
      let (_, n1) := scan_ulong arg in
      let rest := drop_spaces (skipn n1 arg) in
      let (k, n2) := scan_ulong rest in
      let limit := if Nat.eqb n2 0 then 0 else (k + 1) mod U64 in
      match p_content (nth i (s_msgs st) {| p_fn := []; p_size := 0; p_content := None |}) with
      | None => (st, Reply (err_line e_nosuch))
      | Some c => (st, Reply (ok_line ++ pop3_blast c limit))
      end
    end
  else if v_is v [114;115;101;116] then                                                   (* rset *)
    ({| s_msgs := s_msgs st; s_deleted := map (fun _ => false) (s_deleted st); s_last := 0 |}, Reply ok_line)
  else if v_is v [108;97;115;116] then (st, Reply ([43;79;75;32] ++ fmt_n (s_last st) ++ CRLF2))    (* last *)
  else if v_is v [110;111;111;112] then (st, Reply ok_line)                                 (* noop *)
  else (st, Reply (err_line e_unimpl)).

(* a whole session: command lines in order; output; the maildir operations (none without QUIT) *)
Fixpoint session (st : pst) (lines : list bytes) : bytes * list qop :=
  match lines with
  | [] => ([], [])
  | l :: ls => match pop3_step st l with
               | (st', Reply b) => let (o, ops) := session st' ls in (b ++ o, ops)
               | (_, Quit b ops) => (b, ops)
               end
  end.
Definition init_state (ms : list pmsg) : pst :=
  {| s_msgs := ms; s_deleted := map (fun _ => false) ms; s_last := 0 |}.

(* which message numbers (0-based) are marked after a prefix of the session, per RFC 1939:
   DELE of a valid undeleted number marks it, RSET clears all *)
Fixpoint final_state (st : pst) (lines : list bytes) : pst :=
  match lines with
  | [] => st
  | l :: ls => match pop3_step st l with
               | (st', Reply _) => final_state st' ls
               | (st', Quit _ _) => st'
               end
  end.
