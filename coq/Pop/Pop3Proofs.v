From NQ Require Import Pop.Pop3 Smtp.Codec Smtp.CodecProofs Local.Mailbox Local.MailboxProofs.
Local Open Scope N_scope.

(* ---------------------------------------------------------------- RETR is the SMTP-style encoding *)
Lemma rfc_enc_false_line l : nolf l -> forall rest,
  rfc_enc false (l ++ LF :: rest) = l ++ CR :: LF :: rfc_enc true rest.
Proof.
  induction l as [|c l IH]; intros Hl rest.
  - cbn. reflexivity.
  - unfold nolf in Hl. cbn in Hl. apply orb_false_iff in Hl as [Hc Hl'].
    assert (Hc' : (c =? LF) = false) by (rewrite N.eqb_sym; exact Hc).
    cbn [app rfc_enc]. rewrite Hc'. cbn [andb app]. rewrite (IH Hl'). reflexivity.
Qed.

Lemma rfc_enc_true_line l : nolf l -> forall rest,
  rfc_enc true (l ++ LF :: rest) =
  (match l with c :: _ => if c =? DOT then [DOT] else [] | [] => [] end) ++ l ++ CR :: LF :: rfc_enc true rest.
Proof.
  intros Hl rest. destruct l as [|c l].
  - cbn. reflexivity.
  - unfold nolf in Hl. cbn in Hl. apply orb_false_iff in Hl as [Hc Hl'].
    assert (Hc' : (c =? LF) = false) by (rewrite N.eqb_sym; exact Hc).
    cbn [app rfc_enc]. rewrite Hc'. cbn [andb]. rewrite (rfc_enc_false_line l Hl').
    destruct (c =? DOT); reflexivity.
Qed.

Lemma pblast_all ls : forall inh, pblast ls 0 inh = concat (map pline ls).
Proof. induction ls as [|l ls IH]; intros inh; [reflexivity|]. cbn. rewrite IH. reflexivity. Qed.

Lemma rfc_enc_lines ls : Forall nolf ls ->
  rfc_enc true (join_lines ls ++ [LF]) = concat (map pline ls) ++ [13; 10; 46; 13; 10].
Proof.
  induction ls as [|l ls IH]; intros H; [reflexivity|].
  inversion H as [|? ? Hl Hls]; subst.
  rewrite join_cons, <- !app_assoc. cbn [app].
  rewrite (rfc_enc_true_line l Hl), (IH Hls). cbn [map concat]. unfold pline, CRLF2.
  rewrite <- !app_assoc. reflexivity.
Qed.

Lemma retr_is_rfc_encoding_l content :
  pop3_blast content 0 = rfc_encode (msg_plus content ++ [LF]).
Proof.
  unfold pop3_blast, rfc_encode, msg_plus. rewrite pblast_all.
  symmetry. apply rfc_enc_lines. apply split_lines_nolf. reflexivity.
Qed.

(* decoding what RETR sends (with the SMTP/POP3 dot-unstuffing of C05's decoder) gives back the stored
   file, with a final newline if it had none, followed by the documented extra blank line *)
Lemma ends_lf_app_lf d m : ends_lf d (m ++ [LF]) = true.
Proof. revert d. induction m as [|c m IH]; intros d; cbn; [reflexivity|apply IH]. Qed.

Lemma retr_decodes_l content : sblast (pop3_blast content 0) = Done (msg_plus content ++ [LF]) [].
Proof. rewrite retr_is_rfc_encoding_l. apply sblast_rfc_encode. unfold lf_terminated. apply ends_lf_app_lf. Qed.

(* ---------------------------------------------------------------- TOP n k *)
Lemma pblast_body ls : forall n, pblast ls (N.of_nat (S n)) false = concat (map pline (firstn n ls)).
Proof.
  induction ls as [|l ls IH]; intros n; [destruct n; reflexivity|].
  cbn [pblast]. destruct n as [|n].
  - cbn. reflexivity.
  - assert (E0 : (N.of_nat (S (S n)) =? 0) = false) by (apply N.eqb_neq; lia).
    assert (E1 : (N.of_nat (S (S n)) =? 1) = false) by (apply N.eqb_neq; lia).
    rewrite E0, E1. cbn [negb andb].
    replace (N.of_nat (S (S n)) - 1) with (N.of_nat (S n)) by lia.
    assert (Ei : match l with [] => false | _ :: _ => false end = false) by (destruct l; reflexivity).
    rewrite Ei, IH. reflexivity.
Qed.

(* header lines up to and including the first empty line, then k body lines *)
Fixpoint top_lines (ls : list bytes) (k : nat) : list bytes :=
  match ls with
  | [] => []
  | l :: ls' => match l with [] => [] :: firstn k ls' | _ => l :: top_lines ls' k end
  end.
Lemma pblast_top ls : forall k, pblast ls (N.of_nat (S k)) true = concat (map pline (top_lines ls k)).
Proof.
  induction ls as [|l ls IH]; intros k; [reflexivity|].
  cbn [pblast top_lines]. cbn [negb andb]. rewrite andb_false_r. cbn [andb].
  destruct l as [|c l].
  - rewrite pblast_body. reflexivity.
  - rewrite IH. reflexivity.
Qed.

Lemma top_limit_l content k :
  pop3_blast content (N.of_nat (S k)) = concat (map pline (top_lines (split_lines content) k)) ++ [13; 10; 46; 13; 10].
Proof. unfold pop3_blast. rewrite pblast_top. reflexivity. Qed.

(* ---------------------------------------------------------------- numbering, deletion *)
Lemma msgno_ok_l st arg i :
  msgno st arg = MOk i ->
  (i < length (s_msgs st))%nat /\ nth i (s_deleted st) false = false /\
  N.of_nat (S i) = fst (scan_ulong arg) /\ snd (scan_ulong arg) <> 0%nat.
Proof.
  unfold msgno. destruct (scan_ulong arg) as [u n]. cbn [fst snd].
  destruct (Nat.eqb_spec n 0); [discriminate|].
  destruct (N.eqb_spec u 0); [discriminate|].
  destruct (N.leb_spec (N.of_nat (length (s_msgs st))) (u - 1)) as [|Hlt]; [discriminate|].
  destruct (N.leb_spec INT_MAX (u - 1)) as [|Hmax]; cbn [orb]; [discriminate|].
  destruct (nth (N.to_nat (u - 1)) (s_deleted st) false) eqn:E; [discriminate|].
  intros HH. injection HH as <-. repeat split; try lia; try assumption.
Qed.

(* the message list never changes during a session: numbering is stable *)
Lemma step_msgs_stable st l : s_msgs (fst (pop3_step st l)) = s_msgs st.
Proof.
  unfold pop3_step. destruct (split_command l) as [v arg].
  repeat match goal with
         | |- context [if ?b then _ else _] => destruct b
         | |- context [match ?x with _ => _ end] => destruct x
         end; reflexivity.
Qed.

Definition verb_of (l : bytes) : bytes := fst (split_command l).
Definition s_dele : bytes := [100;101;108;101].
Definition s_rset : bytes := [114;115;101;116].
Definition s_quit : bytes := [113;117;105;116].

(* marks change only by a successful DELE (one message) or RSET (all cleared) *)
Lemma step_marks st l :
  s_deleted (fst (pop3_step st l)) = s_deleted st \/
  (verb_of l = s_dele /\ exists i, msgno st (snd (split_command l)) = MOk i /\
                               s_deleted (fst (pop3_step st l)) = upd_bool (s_deleted st) i true) \/
  (verb_of l = s_rset /\ s_deleted (fst (pop3_step st l)) = map (fun _ => false) (s_deleted st)).
Proof.
  unfold pop3_step, verb_of. destruct (split_command l) as [v arg]. cbn [fst snd].
  unfold v_is.
  destruct (beq v [113;117;105;116]); [left; reflexivity|].
  destruct (beq v [115;116;97;116]); [left; reflexivity|].
  destruct (beq v [108;105;115;116] || beq v [117;105;100;108]).
  { left. destruct arg; [reflexivity|]. destruct (msgno st (n :: arg)); reflexivity. }
  destruct (beq v [100;101;108;101]) eqn:Ed.
  { apply beq_eq in Ed. destruct (msgno st arg) as [i|t] eqn:Em; [|left; reflexivity].
    right. left. split; [exact Ed|]. exists i. auto. }
  destruct (beq v [114;101;116;114] || beq v [116;111;112]).
  { left. destruct (msgno st arg); [|reflexivity]. destruct (scan_ulong arg). destruct (scan_ulong _).
    destruct (p_content _); reflexivity. }
  destruct (beq v [114;115;101;116]) eqn:Er.
  { apply beq_eq in Er. right. right. auto. }
  destruct (beq v [108;97;115;116]); [left; reflexivity|].
  destruct (beq v [110;111;111;112]); left; reflexivity.
Qed.

(* a refused number changes nothing *)
Lemma dele_refused_l st l arg t :
  split_command l = (s_dele, arg) -> msgno st arg = MErr t ->
  pop3_step st l = (st, Reply (err_line t)).
Proof. intros E Em. unfold pop3_step. rewrite E. cbn. rewrite Em. reflexivity. Qed.

(* no QUIT, no change *)
Lemma session_no_quit st lines :
  Forall (fun l => verb_of l <> s_quit) lines -> snd (session st lines) = [].
Proof.
  revert st. induction lines as [|l ls IH]; intros st H; [reflexivity|].
  inversion H as [|? ? Hl Hls]; subst. cbn [session].
  destruct (pop3_step st l) as [st' [b|b ops]] eqn:E.
  - specialize (IH st' Hls). destruct (session st' ls). exact IH.
  - exfalso. unfold pop3_step, verb_of in *. destruct (split_command l) as [v arg]. cbn [fst] in Hl.
    unfold v_is in E. destruct (beq v [113;117;105;116]) eqn:Eq; [apply beq_eq in Eq; contradiction|].
    repeat match type of E with
           | context [if ?b then _ else _] => destruct b
           | context [match ?x with _ => _ end] => destruct x
           end; discriminate.
Qed.

(* QUIT unlinks exactly the marked messages and renames unmarked new/ files to cur/...:2, *)
Lemma quit_ops_spec ms : forall ds f, length ds = length ms ->
  (In (QUnlink f) (flat_map (fun md : pmsg * bool =>
              if snd md then [QUnlink (p_fn (fst md))]
              else if is_prefix s_new (p_fn (fst md))
                   then [QRename (p_fn (fst md)) (s_cur ++ skipn 4 (p_fn (fst md)) ++ [58; 50; 44])] else [])
           (combine ms ds)) <->
   exists i, (i < length ms)%nat /\ nth i ds false = true /\ p_fn (nth i ms {| p_fn := []; p_size := 0; p_content := None |}) = f).
Proof.
  induction ms as [|m ms IH]; intros ds f Hl.
  - cbn. split; [contradiction|]. intros (i & Hi & _). cbn in Hi. lia.
  - destruct ds as [|d ds]; [discriminate|]. cbn [combine flat_map]. rewrite in_app_iff.
    cbn in Hl. injection Hl as Hl. rewrite (IH ds f Hl). cbn [fst snd]. split.
    + intros [H|(i & Hi & Hd & Hf)].
      * destruct d.
        -- destruct H as [H|[]]. injection H as <-. exists 0%nat. cbn. repeat split; auto. lia.
        -- destruct (is_prefix s_new (p_fn m)); cbn in H; [destruct H as [H|[]]; discriminate|contradiction].
      * exists (S i). cbn. repeat split; auto. lia.
    + intros (i & Hi & Hd & Hf). destruct i as [|i].
      * cbn in Hd, Hf. subst d f. left. left. reflexivity.
      * right. exists i. cbn in Hi, Hd, Hf. repeat split; auto. lia.
Qed.
