(* qmail-popup.c: the POP3 session before authentication (C19).  Model only.
   The greeting's "<pid.time@host>" banner is a parameter (unique ++ hostname). *)
From NQ Require Export Base.Commands.
Local Open Scope N_scope.

Record ust := { u_seenuser : bool; u_username : bytes }.
Definition ust0 : ust := {| u_seenuser := false; u_username := [] |}.

Inductive uout :=
  | UReply (b : bytes)                              (* a reply line, the session goes on *)
  | UQuit (b : bytes)                               (* +OK and exit *)
  | UAuth (fd3 : bytes).                            (* the subprogram is run with this on descriptor 3; the session ends *)

Definition u_ok : bytes := [43;79;75;32;13;10].                          (* "+OK \r\n" *)
Definition u_err (t : bytes) : bytes := [45;69;82;82;32] ++ t ++ [13;10].
Definition t_syntax : bytes := [115;121;110;116;97;120;32;101;114;114;111;114].
Definition t_wantuser : bytes := [85;83;69;82;32;102;105;114;115;116].
Definition t_authfirst : bytes := [97;117;116;104;111;114;105;122;97;116;105;111;110;32;102;105;114;115;116].
Definition t_badauth : bytes := [97;117;116;104;111;114;105;122;97;116;105;111;110;32;102;97;105;108;101;100].
Definition t_crashed : bytes := [97;97;99;107;44;32;99;104;105;108;100;32;99;114;97;115;104;101;100].

(* what doanddie() writes for the subprogram: user NUL pass NUL "<" banner ">" NUL *)
Definition fd3_of (user pass banner : bytes) : bytes := user ++ [0] ++ pass ++ [0] ++ [60] ++ banner ++ [62; 0].

Fixpoint split_first_space (cur : bytes) (s : bytes) : option (bytes * bytes) :=
  match s with
  | [] => None
  | c :: s' => if c =? 32 then Some (rev cur, s') else split_first_space (c :: cur) s'
  end.

Definition popup_step (banner : bytes) (st : ust) (line : bytes) : ust * uout :=
  let (v, arg) := split_command line in
  if beq v [117;115;101;114] then                                       (* user *)
    match arg with
    | [] => (st, UReply (u_err t_syntax))
    | _ => ({| u_seenuser := true; u_username := arg |}, UReply u_ok)
    end
  else if beq v [112;97;115;115] then                                   (* pass *)
    if negb (u_seenuser st) then (st, UReply (u_err t_wantuser))
    else match arg with
         | [] => (st, UReply (u_err t_syntax))
         | _ => (st, UAuth (fd3_of (u_username st) arg banner))
         end
  else if beq v [97;112;111;112] then                                   (* apop name digest *)
    match split_first_space [] arg with
    | None => (st, UReply (u_err t_syntax))
    | Some (name, digest) => (st, UAuth (fd3_of name digest banner))
    end
  else if beq v [113;117;105;116] then (st, UQuit u_ok)                 (* quit *)
  else if beq v [110;111;111;112] then (st, UReply u_ok)                (* noop *)
  else (st, UReply (u_err t_authfirst)).

(* the whole pre-authentication session: replies sent, and what the subprogram got (at most once, at the end) *)
Fixpoint popup_session (banner : bytes) (st : ust) (lines : list bytes) : bytes * option bytes :=
  match lines with
  | [] => ([], None)
  | l :: ls => match popup_step banner st l with
               | (st', UReply b) => let (o, a) := popup_session banner st' ls in (b ++ o, a)
               | (_, UQuit b) => (b, None)
               | (_, UAuth f) => ([], Some f)
               end
  end.
(* after the subprogram: nothing if it exits 0 (it has taken over the connection), else one error line *)
Definition after_auth (crashed : bool) (exitcode : N) : bytes :=
  if crashed then u_err t_crashed else if exitcode =? 0 then [] else u_err t_badauth.
