(* qmail-popup.c (C19): theorems about the pre-authentication POP3 session model Pop/Popup.v. *)
From NQ Require Import Pop.Popup.
From Coq Require String Ascii.
Local Open Scope N_scope.

Local Notation vUSER := [117;115;101;114] (only parsing).
Local Notation vPASS := [112;97;115;115] (only parsing).
Local Notation vAPOP := [97;112;111;112] (only parsing).
Local Notation vQUIT := [113;117;105;116] (only parsing).
Local Notation vNOOP := [110;111;111;112] (only parsing).

(* ---------------------------------------------------------------- generic byte-string lemmas *)
Lemma beq_neq a b : beq a b = false -> a <> b.
Proof.
  intros Hf He. apply (proj2 (beq_eq a b)) in He. rewrite He in Hf. discriminate Hf.
Qed.

Lemma beq_refl a : beq a a = true.
Proof. apply beq_eq. reflexivity. Qed.

Lemma has_app x a b : has x (a ++ b) = has x a || has x b.
Proof.
  induction a as [|y a IH]; cbn [app has orb]; [reflexivity|].
  rewrite IH. apply orb_assoc.
Qed.

Lemma has_rev x a : has x (rev a) = has x a.
Proof.
  induction a as [|y a IH]; cbn [rev has]; [reflexivity|].
  rewrite has_app, IH. cbn [has]. rewrite orb_false_r. apply orb_comm.
Qed.

(* ---------------------------------------------------------------- commands.c: what the argument can contain *)
Lemma cstr_nonul s : has 0 (cstr s) = false.
Proof.
  induction s as [|c s IH]; cbn [cstr]; [reflexivity|].
  destruct (c =? 0) eqn:Ec; [reflexivity|].
  cbn [has]. rewrite N.eqb_sym, Ec, IH. reflexivity.
Qed.

Lemma split_space_app s : forall cur a b, split_space cur s = (a, b) -> rev cur ++ s = a ++ b.
Proof.
  induction s as [|c s IH]; intros cur a b H; cbn [split_space] in H.
  - injection H as <- <-. reflexivity.
  - destruct (c =? 32) eqn:Ec.
    + injection H as <- <-. reflexivity.
    + apply IH in H. cbn [rev] in H. rewrite <- app_assoc in H. exact H.
Qed.

Lemma drop_spaces_has x s : has x s = false -> has x (drop_spaces s) = false.
Proof.
  induction s as [|c s IH]; intros H; cbn [drop_spaces]; [reflexivity|].
  destruct (c =? 32) eqn:Ec; [|exact H].
  cbn [has] in H. apply orb_false_iff in H as [_ H]. apply IH. exact H.
Qed.

Lemma drop_spaces_head s c t : drop_spaces s = c :: t -> (c =? 32) = false.
Proof.
  induction s as [|d s IH]; intros H; cbn [drop_spaces] in H; [discriminate H|].
  destruct (d =? 32) eqn:Ed.
  - apply IH. exact H.
  - injection H as <- _. exact Ed.
Qed.

(* the argument handed to a command function never contains a NUL: the line is a C string *)
Lemma split_command_arg_nonul l : has 0 (snd (split_command l)) = false.
Proof.
  unfold split_command.
  destruct (split_space [] (cstr (strip_cr l))) as [v rest] eqn:E. cbn [snd].
  apply drop_spaces_has. apply split_space_app in E. cbn [rev app] in E.
  pose proof (cstr_nonul (strip_cr l)) as Hn. rewrite E, has_app in Hn.
  apply orb_false_iff in Hn as [_ Hn]. exact Hn.
Qed.

(* ... and never starts with a space *)
Lemma split_command_arg_head l c t : snd (split_command l) = c :: t -> (c =? 32) = false.
Proof.
  unfold split_command.
  destruct (split_space [] (cstr (strip_cr l))) as [v rest] eqn:E. cbn [snd].
  apply drop_spaces_head.
Qed.

(* pop3_apop: the split at the first space *)
Lemma split_first_space_spec s : forall cur a b, split_first_space cur s = Some (a, b) ->
  exists k, a = rev cur ++ k /\ s = k ++ 32 :: b /\ has 32 k = false.
Proof.
  induction s as [|c s IH]; intros cur a b H; cbn [split_first_space] in H; [discriminate H|].
  destruct (c =? 32) eqn:Ec.
  - injection H as <- <-. apply N.eqb_eq in Ec. subst c. exists []. rewrite app_nil_r. repeat split.
  - apply IH in H as (k & Ha & Hs & Hk). exists (c :: k). cbn [rev] in Ha. rewrite <- app_assoc in Ha.
    split; [exact Ha|]. split; [rewrite Hs; reflexivity|].
    cbn [has]. rewrite N.eqb_sym, Ec, Hk. reflexivity.
Qed.

Lemma split_first_space_complete k b : has 32 k = false -> forall cur,
  split_first_space cur (k ++ 32 :: b) = Some (rev cur ++ k, b).
Proof.
  induction k as [|c k IH]; intros Hk cur.
  - cbn. rewrite app_nil_r. reflexivity.
  - cbn [has] in Hk. apply orb_false_iff in Hk as [Hc Hk].
    cbn [app split_first_space]. rewrite N.eqb_sym, Hc. rewrite (IH Hk). cbn [rev].
    rewrite <- app_assoc. reflexivity.
Qed.

(* "apop name digest": the two words are exactly the argument cut at its first space *)
Lemma apop_words_l arg name digest :
  split_first_space [] arg = Some (name, digest) <-> arg = name ++ 32 :: digest /\ has 32 name = false.
Proof.
  split.
  - intros H. apply split_first_space_spec in H as (k & Ha & Hs & Hk). cbn [rev app] in Ha. subst k.
    split; assumption.
  - intros [-> Hk]. apply (split_first_space_complete name digest Hk []).
Qed.

(* ---------------------------------------------------------------- one command *)
(* the steps that go on *)
Lemma step_reply banner st l st' b : popup_step banner st l = (st', UReply b) ->
  (st' = st /\ (fst (split_command l) <> vUSER \/ snd (split_command l) = [])) \/
  (fst (split_command l) = vUSER /\ snd (split_command l) <> [] /\
   st' = {| u_seenuser := true; u_username := snd (split_command l) |}).
Proof.
  unfold popup_step. destruct (split_command l) as [v arg]. cbn [fst snd].
  destruct (beq v vUSER) eqn:E1.
  - apply beq_eq in E1. destruct arg as [|c arg]; intros H; injection H as <- _.
    + left. split; [reflexivity|right; reflexivity].
    + right. split; [exact E1|]. split; [discriminate|reflexivity].
  - apply beq_neq in E1. intros H. left. split; [|left; exact E1].
    destruct (beq v vPASS).
    { destruct (negb (u_seenuser st)); [injection H as <- _; reflexivity|].
      destruct arg; [injection H as <- _; reflexivity|discriminate H]. }
    destruct (beq v vAPOP).
    { destruct (split_first_space [] arg) as [[n d]|]; [discriminate H|injection H as <- _; reflexivity]. }
    destruct (beq v vQUIT); [discriminate H|].
    destruct (beq v vNOOP); injection H as <- _; reflexivity.
Qed.

(* the steps that run the subprogram *)
Lemma step_auth banner st l st' f : popup_step banner st l = (st', UAuth f) ->
  (fst (split_command l) = vPASS /\ u_seenuser st = true /\ snd (split_command l) <> [] /\
   f = fd3_of (u_username st) (snd (split_command l)) banner) \/
  (fst (split_command l) = vAPOP /\ exists name digest,
   split_first_space [] (snd (split_command l)) = Some (name, digest) /\ f = fd3_of name digest banner).
Proof.
  unfold popup_step. destruct (split_command l) as [v arg]. cbn [fst snd].
  destruct (beq v vUSER) eqn:E1.
  { destruct arg; intros H; discriminate H. }
  destruct (beq v vPASS) eqn:E2.
  { apply beq_eq in E2. destruct (u_seenuser st) eqn:Es; cbn [negb]; [|intros H; discriminate H].
    destruct arg as [|c arg]; intros H; [discriminate H|]. injection H as _ <-.
    left. split; [exact E2|]. split; [reflexivity|]. split; [discriminate|reflexivity]. }
  destruct (beq v vAPOP) eqn:E3.
  { apply beq_eq in E3. destruct (split_first_space [] arg) as [[n d]|] eqn:Ef; intros H; [|discriminate H].
    injection H as _ <-. right. split; [exact E3|]. exists n, d. split; reflexivity. }
  destruct (beq v vQUIT); [intros H; discriminate H|].
  destruct (beq v vNOOP); intros H; discriminate H.
Qed.

(* ---------------------------------------------------------------- 4. the replies before authentication *)
Theorem replies_before_auth_l banner st l st' o : popup_step banner st l = (st', o) ->
  match o with
  | UReply b => b = u_ok \/ b = u_err t_syntax \/ b = u_err t_wantuser \/ b = u_err t_authfirst
  | UQuit b => b = u_ok
  | UAuth _ => True
  end.
Proof.
  unfold popup_step. destruct (split_command l) as [v arg].
  destruct (beq v vUSER).
  { destruct arg; intros H; injection H as _ <-; tauto. }
  destruct (beq v vPASS).
  { destruct (negb (u_seenuser st)); [intros H; injection H as _ <-; tauto|].
    destruct arg; intros H; injection H as _ <-; tauto. }
  destruct (beq v vAPOP).
  { destruct (split_first_space [] arg) as [[n d]|]; intros H; injection H as _ <-; tauto. }
  destruct (beq v vQUIT); [intros H; injection H as _ <-; reflexivity|].
  destruct (beq v vNOOP); intros H; injection H as _ <-; tauto.
Qed.

(* anything that is not one of the five verbs: "-ERR authorization first", nothing changes *)
Theorem unknown_verb_l banner st l :
  fst (split_command l) <> vUSER -> fst (split_command l) <> vPASS -> fst (split_command l) <> vAPOP ->
  fst (split_command l) <> vQUIT -> fst (split_command l) <> vNOOP ->
  popup_step banner st l = (st, UReply (u_err t_authfirst)).
Proof.
  unfold popup_step. destruct (split_command l) as [v arg]. cbn [fst].
  intros H1 H2 H3 H4 H5.
  destruct (beq v vUSER) eqn:E1; [apply beq_eq in E1; contradiction|].
  destruct (beq v vPASS) eqn:E2; [apply beq_eq in E2; contradiction|].
  destruct (beq v vAPOP) eqn:E3; [apply beq_eq in E3; contradiction|].
  destruct (beq v vQUIT) eqn:E4; [apply beq_eq in E4; contradiction|].
  destruct (beq v vNOOP) eqn:E5; [apply beq_eq in E5; contradiction|].
  reflexivity.
Qed.

(* conversely "-ERR authorization first" is only ever the answer to an unknown verb *)
Lemma authfirst_only_unknown_l banner st l st' :
  popup_step banner st l = (st', UReply (u_err t_authfirst)) ->
  fst (split_command l) <> vUSER /\ fst (split_command l) <> vPASS /\ fst (split_command l) <> vAPOP /\
  fst (split_command l) <> vQUIT /\ fst (split_command l) <> vNOOP /\ st' = st.
Proof.
  unfold popup_step. destruct (split_command l) as [v arg]. cbn [fst].
  destruct (beq v vUSER) eqn:E1.
  { destruct arg; intros H; discriminate H. }
  destruct (beq v vPASS) eqn:E2.
  { destruct (negb (u_seenuser st)); [intros H; discriminate H|]. destruct arg; intros H; discriminate H. }
  destruct (beq v vAPOP) eqn:E3.
  { destruct (split_first_space [] arg) as [[n d]|]; intros H; discriminate H. }
  destruct (beq v vQUIT) eqn:E4; [intros H; discriminate H|].
  destruct (beq v vNOOP) eqn:E5; [intros H; discriminate H|].
  intros H. injection H as <-.
  repeat split; apply beq_neq; assumption.
Qed.

Print Assumptions replies_before_auth_l.
Print Assumptions unknown_verb_l.

(* ---------------------------------------------------------------- 1. the credentials are handed over verbatim *)
(* what the state remembers about the lines read so far *)
Definition hist (st : ust) (pre : list bytes) : Prop :=
  u_seenuser st = true ->
  u_username st <> [] /\
  exists pre1 lu mid, pre = pre1 ++ lu :: mid /\
    fst (split_command lu) = vUSER /\ snd (split_command lu) = u_username st /\
    (forall x, In x mid -> fst (split_command x) <> vUSER \/ snd (split_command x) = []).

Lemma hist0 : hist ust0 [].
Proof. intros H. cbn in H. discriminate H. Qed.

Lemma hist_keep st pre l : hist st pre ->
  fst (split_command l) <> vUSER \/ snd (split_command l) = [] -> hist st (pre ++ [l]).
Proof.
  intros H Hl Hs. destruct (H Hs) as [Hne (pre1 & lu & mid & Hp & Hv & Ha & Hm)].
  split; [exact Hne|]. exists pre1, lu, (mid ++ [l]).
  split; [rewrite Hp, <- app_assoc; reflexivity|]. split; [exact Hv|]. split; [exact Ha|].
  intros x Hx. apply in_app_or in Hx as [Hx|Hx]; [apply Hm; exact Hx|].
  cbn [In] in Hx. destruct Hx as [<-|[]]. exact Hl.
Qed.

Lemma hist_set pre l : fst (split_command l) = vUSER -> snd (split_command l) <> [] ->
  hist {| u_seenuser := true; u_username := snd (split_command l) |} (pre ++ [l]).
Proof.
  intros Hv Ha _. cbn [u_username]. split; [exact Ha|].
  exists pre, l, []. split; [reflexivity|]. split; [exact Hv|]. split; [reflexivity|].
  intros x [].
Qed.

(* the shape of the conclusion, for the lines [pre] read before the session fragment and [pre'] within it *)
Definition handed_over (banner : bytes) (before : list bytes) (l : bytes) (f : bytes) : Prop :=
  exists user pass, f = fd3_of user pass banner /\ user <> [] /\
  ( (fst (split_command l) = vPASS /\ snd (split_command l) = pass /\ pass <> [] /\
     exists pre1 lu mid, before = pre1 ++ lu :: mid /\
       fst (split_command lu) = vUSER /\ snd (split_command lu) = user /\
       (forall x, In x mid -> fst (split_command x) <> vUSER \/ snd (split_command x) = []))
    \/
    (fst (split_command l) = vAPOP /\ split_first_space [] (snd (split_command l)) = Some (user, pass)) ).

Lemma credentials_gen banner : forall lines pre st out f, hist st pre ->
  popup_session banner st lines = (out, Some f) ->
  exists pre' l post, lines = pre' ++ l :: post /\ handed_over banner (pre ++ pre') l f.
Proof.
  induction lines as [|l ls IH]; intros pre st out f Hh H; cbn [popup_session] in H; [discriminate H|].
  destruct (popup_step banner st l) as [st' o] eqn:E. destruct o as [b|b|g].
  - destruct (popup_session banner st' ls) as [o a] eqn:Es. injection H as _ ->.
    assert (Hh' : hist st' (pre ++ [l])).
    { apply step_reply in E as [[-> Hl]|(Hv & Ha & ->)]; [apply hist_keep; assumption|apply hist_set; assumption]. }
    destruct (IH (pre ++ [l]) st' o f Hh' Es) as (pre' & l0 & post & Hl & Ho).
    exists (l :: pre'), l0, post. split; [rewrite Hl; reflexivity|].
    rewrite <- app_assoc in Ho. exact Ho.
  - discriminate H.
  - injection H as _ ->. exists [], l, ls. split; [reflexivity|]. rewrite app_nil_r.
    apply step_auth in E as [(Hv & Hs & Ha & ->)|(Hv & name & digest & Hf & ->)].
    + destruct (Hh Hs) as [Hne (pre1 & lu & mid & Hp & Hvu & Hau & Hm)].
      exists (u_username st), (snd (split_command l)). split; [reflexivity|]. split; [exact Hne|].
      left. split; [exact Hv|]. split; [reflexivity|]. split; [exact Ha|].
      exists pre1, lu, mid. repeat split; assumption.
    + exists name, digest. split; [reflexivity|]. split.
      * pose proof Hf as Hf'. apply split_first_space_spec in Hf' as (k & Hn & Harg & Hk).
        cbn [rev app] in Hn. subst k. intros ->. cbn [app] in Harg.
        apply split_command_arg_head in Harg. cbn in Harg. discriminate Harg.
      * right. split; assumption.
Qed.

(* The subprogram gets exactly: the argument of the most recent USER line with a non-empty argument and the
   (non-empty) argument of the PASS line; or the two words of the APOP line (the name is non-empty, the digest
   may be empty: "apop x " is accepted, as in pop3_apop() which only rejects a missing space); followed by the
   banner in angle brackets.  Byte for byte. *)
Theorem credentials_verbatim_l banner lines out f :
  popup_session banner ust0 lines = (out, Some f) ->
  exists pre l post user pass,
    lines = pre ++ l :: post /\ f = fd3_of user pass banner /\ user <> [] /\
    ( (fst (split_command l) = vPASS /\ snd (split_command l) = pass /\ pass <> [] /\
       exists pre1 lu mid, pre = pre1 ++ lu :: mid /\
         fst (split_command lu) = vUSER /\ snd (split_command lu) = user /\
         (forall x, In x mid -> fst (split_command x) <> vUSER \/ snd (split_command x) = []))
      \/
      (fst (split_command l) = vAPOP /\ split_first_space [] (snd (split_command l)) = Some (user, pass)) ).
Proof.
  intros H. destruct (credentials_gen banner lines [] ust0 out f hist0 H) as (pre & l & post & Hl & Ho).
  cbn [app] in Ho. destruct Ho as (user & pass & Hf & Hu & Hc).
  exists pre, l, post, user, pass. repeat split; assumption.
Qed.

(* the empty digest really is possible (so [pass <> []] cannot be claimed for APOP) *)
Example apop_empty_digest :
  popup_session [49] ust0 [[65;80;79;80;32;120;32]] = ([], Some (fd3_of [120] [] [49])).
Proof. vm_compute. reflexivity. Qed.

Print Assumptions credentials_verbatim_l.

(* ---------------------------------------------------------------- 2. no subprogram without credentials *)
Theorem no_subprogram_without_credentials_l banner : forall lines st,
  (forall l, In l lines -> fst (split_command l) <> vPASS /\ fst (split_command l) <> vAPOP) ->
  snd (popup_session banner st lines) = None.
Proof.
  induction lines as [|l ls IH]; intros st Hall; cbn [popup_session]; [reflexivity|].
  destruct (popup_step banner st l) as [st' o] eqn:E. destruct o as [b|b|g].
  - specialize (IH st' (fun x Hx => Hall x (or_intror Hx))).
    destruct (popup_session banner st' ls) as [o a]. exact IH.
  - reflexivity.
  - exfalso. destruct (Hall l (or_introl eq_refl)) as [H1 H2].
    apply step_auth in E as [(Hv & _)|(Hv & _)]; contradiction.
Qed.

Lemma pass_needs_user_gen banner : forall lines st, u_seenuser st = false ->
  (forall l, In l lines -> fst (split_command l) <> vUSER /\ fst (split_command l) <> vAPOP) ->
  snd (popup_session banner st lines) = None.
Proof.
  induction lines as [|l ls IH]; intros st Hs Hall; cbn [popup_session]; [reflexivity|].
  destruct (Hall l (or_introl eq_refl)) as [H1 H2].
  destruct (popup_step banner st l) as [st' o] eqn:E. destruct o as [b|b|g].
  - assert (Hst : st' = st).
    { apply step_reply in E as [[-> _]|(Hv & _)]; [reflexivity|contradiction]. }
    subst st'. specialize (IH st Hs (fun x Hx => Hall x (or_intror Hx))).
    destruct (popup_session banner st ls) as [o a]. exact IH.
  - reflexivity.
  - exfalso. apply step_auth in E as [(_ & Hs' & _)|(Hv & _)]; [congruence|contradiction].
Qed.

(* PASS before any USER never runs the subprogram *)
Theorem pass_needs_user_l banner lines :
  (forall l, In l lines -> fst (split_command l) <> vUSER /\ fst (split_command l) <> vAPOP) ->
  snd (popup_session banner ust0 lines) = None.
Proof. apply pass_needs_user_gen. reflexivity. Qed.

Print Assumptions no_subprogram_without_credentials_l.
Print Assumptions pass_needs_user_l.

(* ---------------------------------------------------------------- 3. the fields cannot be forged *)
Lemma fields_gen banner : forall lines st out f, has 0 (u_username st) = false ->
  popup_session banner st lines = (out, Some f) ->
  exists user pass, f = fd3_of user pass banner /\ has 0 user = false /\ has 0 pass = false.
Proof.
  induction lines as [|l ls IH]; intros st out f Hu H; cbn [popup_session] in H; [discriminate H|].
  destruct (popup_step banner st l) as [st' o] eqn:E. destruct o as [b|b|g].
  - destruct (popup_session banner st' ls) as [o a] eqn:Es. injection H as _ ->.
    apply (IH st' o f); [|exact Es].
    apply step_reply in E as [[-> _]|(_ & _ & ->)]; [exact Hu|].
    cbn [u_username]. apply split_command_arg_nonul.
  - discriminate H.
  - injection H as _ ->.
    apply step_auth in E as [(_ & _ & _ & ->)|(_ & name & digest & Hf & ->)].
    + exists (u_username st), (snd (split_command l)). split; [reflexivity|].
      split; [exact Hu|apply split_command_arg_nonul].
    + exists name, digest. split; [reflexivity|].
      apply split_first_space_spec in Hf as (k & Hn & Harg & _). cbn [rev app] in Hn. subst k.
      pose proof (split_command_arg_nonul l) as Hz. rewrite Harg, has_app in Hz.
      apply orb_false_iff in Hz as [Hz1 Hz2]. cbn [has] in Hz2. apply orb_false_iff in Hz2 as [_ Hz2].
      split; assumption.
Qed.

(* three NUL-free fields, each followed by a NUL, can be read back in one way only *)
Lemma nul_split_unique a : forall a' r r', has 0 a = false -> has 0 a' = false ->
  a ++ 0 :: r = a' ++ 0 :: r' -> a = a' /\ r = r'.
Proof.
  induction a as [|c a IH]; intros a' r r' Ha Ha' H.
  - destruct a' as [|c' a'].
    + cbn [app] in H. injection H as ->. split; reflexivity.
    + cbn [app] in H. injection H as <- _. cbn in Ha'. discriminate Ha'.
  - destruct a' as [|c' a'].
    + cbn [app] in H. injection H as -> _. cbn in Ha. discriminate Ha.
    + cbn [app] in H. injection H as <- H.
      cbn [has] in Ha, Ha'. apply orb_false_iff in Ha as [_ Ha]. apply orb_false_iff in Ha' as [_ Ha'].
      destruct (IH a' r r' Ha Ha' H) as [-> ->]. split; reflexivity.
Qed.

Lemma fd3_unambiguous_l u p b u' p' b' :
  has 0 u = false -> has 0 p = false -> has 0 b = false ->
  has 0 u' = false -> has 0 p' = false -> has 0 b' = false ->
  fd3_of u p b = fd3_of u' p' b' -> u = u' /\ p = p' /\ b = b'.
Proof.
  intros Hu Hp Hb Hu' Hp' Hb' H. unfold fd3_of in H. cbn [app] in H.
  apply nul_split_unique in H as [-> H]; [|assumption|assumption].
  apply nul_split_unique in H as [-> H]; [|assumption|assumption].
  injection H as H.
  assert (Hx : forall x, has 0 x = false -> has 0 (x ++ [62]) = false).
  { intros x Hx. rewrite has_app, Hx. reflexivity. }
  replace (b ++ [62; 0]) with ((b ++ [62]) ++ 0 :: []) in H by (rewrite <- app_assoc; reflexivity).
  replace (b' ++ [62; 0]) with ((b' ++ [62]) ++ 0 :: []) in H by (rewrite <- app_assoc; reflexivity).
  apply nul_split_unique in H as [H _]; [|apply Hx; assumption|apply Hx; assumption].
  apply app_inj_tail in H as [-> _]. repeat split.
Qed.

(* What is written to descriptor 3 is user NUL pass NUL <banner> NUL with NUL-free user and pass (they come from
   a C string); with a NUL-free banner the stream can be cut into its three fields in one way only.
   (The assumption on the banner is only needed for the last conjunct.) *)
Theorem fields_cannot_be_forged_l banner lines out f :
  has 0 banner = false ->
  popup_session banner ust0 lines = (out, Some f) ->
  exists user pass,
    f = user ++ [0] ++ pass ++ [0] ++ [60] ++ banner ++ [62; 0] /\
    has 0 user = false /\ has 0 pass = false /\
    (forall u' p' b', has 0 u' = false -> has 0 p' = false -> has 0 b' = false ->
       f = fd3_of u' p' b' -> u' = user /\ p' = pass /\ b' = banner).
Proof.
  intros Hb H. destruct (fields_gen banner lines ust0 out f eq_refl H) as (user & pass & Hf & Hu & Hp).
  exists user, pass. split; [exact Hf|]. split; [exact Hu|]. split; [exact Hp|].
  intros u' p' b' Hu' Hp' Hb' Hf'. rewrite Hf in Hf'.
  destruct (fd3_unambiguous_l user pass banner u' p' b' Hu Hp Hb Hu' Hp' Hb' Hf') as (-> & -> & ->).
  repeat split.
Qed.

Print Assumptions fields_cannot_be_forged_l.

(* ---------------------------------------------------------------- 5. a concrete session *)
Import String.StringSyntax.
Local Delimit Scope string_scope with string.
Definition B (s : String.string) : bytes := map Ascii.N_of_ascii (String.list_ascii_of_string s).
Arguments B s%string.
Example B_is_ascii : B "Ann<@>" = [65;110;110;60;64;62].
Proof. vm_compute. reflexivity. Qed.

Example session_example :
  popup_session (B "1.2@h") ust0
    (split_lines (B "USER joe" ++ [13;10] ++ B "NOOP" ++ [13;10] ++ B "USER Ann" ++ [13;10] ++
                  B "RETR 1" ++ [13;10] ++ B "PASS s3 cr3t" ++ [13;10] ++ B "QUIT" ++ [13;10]))
  = (B "+OK " ++ [13;10] ++ B "+OK " ++ [13;10] ++ B "+OK " ++ [13;10] ++
     B "-ERR authorization first" ++ [13;10],
     Some (B "Ann" ++ [0] ++ B "s3 cr3t" ++ [0] ++ B "<1.2@h>" ++ [0])).
Proof. vm_compute. reflexivity. Qed.

(* the same lines, written out *)
Example session_example_lines :
  split_lines (B "USER joe" ++ [13;10] ++ B "NOOP" ++ [13;10] ++ B "USER Ann" ++ [13;10] ++
               B "RETR 1" ++ [13;10] ++ B "PASS s3 cr3t" ++ [13;10] ++ B "QUIT" ++ [13;10])
  = [B "USER joe" ++ [13]; B "NOOP" ++ [13]; B "USER Ann" ++ [13]; B "RETR 1" ++ [13];
     B "PASS s3 cr3t" ++ [13]; B "QUIT" ++ [13]].
Proof. vm_compute. reflexivity. Qed.
