(* main() of qmail-clean.c (C18) as generated from today's source by tools/c2gallina.py (gen/CGen.v: C_clean_main, with
   C_clean_respond) = the model Queue.Clean.clean_handle, request by request.
   File-scope state of the program appears as parameters of run: the input descriptor (g_subfdinsmall__in_: the bytes it will
   deliver, g_subfdinsmall__pos_: how many were consumed), the stralloc line, the output descriptor (g_subfdoutsmall__out_: what
   was written), fnbuf, auto_split, and the unlink oracle: the k-th call of unlink() logs its path (a C string, followed by 0) in
   a_unlink__log and answers from the k-th element of g_unlink__res_ (0: removed; e > 0: -1 with errno = e; list exhausted:
   removed).  ENOENT is 2.  getln() is the stub MiniC.getln_line; chdir, sig_pipeignore and cleanuppid are outside the translation.
   REQUIRED statements must be proved exactly as stated. *)
From Coq Require Import ZArith NArith List Lia Bool.
From NQ Require Import Base.MiniC Base.Bytes Base.CInt Queue.Clean gen.CGen Tie.GenCommon Tie.GenAux Tie.Gen_numbers Tie.Gen_strings Tie.Gen_names.
Import ListNotations.
Local Open Scope Z_scope.

Definition ures_of (r : Z) : ures := if r =? 0 then UOk else if r =? 2 then UNoent else UFail.
Definition log_of (ps : list bytes) : list Z := concat (map (fun p => zs p ++ [0]) ps).


(* Proof conventions (as in Tie/Gen_names.v): nothing below mentions a name invented by the translator.  The body of one
   iteration of the main loop is taken out of the generated loop1 by Ltac (iter, loop1_S), and run one statement at a time on a
   state written as a record literal: the continuations of obind are kept as local definitions (hide_all'), only the bound value of
   the let at the head is reduced (cm_let), a callee is rewritten to its result by its lemma (respond_run, su_run_at, fq_run_40),
   a condition is first rewritten to true/false and only then is the branch taken (st_if_eval, br_eval: with a condition that
   still needs delta, the conversion behind change can wander into the two big branches).  The goal is a postcondition on the
   outcome (step_post Q, break_post).  iter_ok: one request, from any state; iter_end: the iteration at the end of the input;
   loop_all: induction over the requests, with any fuel0 >= 30 + the longest request and any fuel > the number of requests. *)

(* ---------- small facts ---------- *)
Lemma getln_req (req : bytes) (post : list Z) : ~ In 0%N req -> getln_line (zs req ++ 0 :: post) 0 = (zs req ++ [0], true).
Proof.
  induction req as [|x req IH]; intros Hnz; cbn [zs map app getln_line].
  - reflexivity.
  - destruct (Z.eqb_spec (Z.of_N x) 0) as [E|_].
    + exfalso. apply Hnz. left. lia.
    + fold (zs req). rewrite IH by (intros Hin; apply Hnz; now right). reflexivity.
Qed.

Lemma notdig_spec (x : N) : (x < 256)%N ->
  (wraps 32 (wrapu 8 (wraps 32 (wraps 32 (wraps 8 (Z.of_N x)) - 48))) >? 9) = negb (is_digit x).
Proof.
  intros Hx.
  apply (byte_sweep (fun x => Bool.eqb (wraps 32 (wrapu 8 (wraps 32 (wraps 32 (wraps 8 (Z.of_N x)) - 48))) >? 9) (negb (is_digit x)))) in Hx.
  - apply Bool.eqb_prop in Hx. exact Hx.
  - vm_compute. reflexivity.
Qed.

Fixpoint digs (l : bytes) : nat := match l with c :: l' => if is_digit c then S (digs l') else O | [] => O end.
Lemma digs_le l : (digs l <= length l)%nat.
Proof. induction l as [|c l IH]; cbn [digs length]; [lia|destruct (is_digit c); lia]. Qed.
Lemma digs_all l : (digs l <? length l)%nat = negb (forallb is_digit l).
Proof.
  induction l as [|c l IH]; cbn [digs length forallb]; [reflexivity|].
  destruct (is_digit c); cbn [andb negb]; [|reflexivity].
  rewrite <- IH. pose proof (digs_le l).
  destruct (Nat.ltb_spec (digs l) (length l)), (Nat.ltb_spec (S (digs l)) (S (length l))); try reflexivity; lia.
Qed.

Lemma memcmpz_beq : forall a b : bytes, length a = length b -> (memcmpz (zs a) (zs b) =? 0) = beq a b.
Proof.
  induction a as [|x a IH]; destruct b as [|y b]; cbn [length]; intros Hl; try discriminate; [reflexivity|].
  cbn [zs map memcmpz beq]. fold (zs a). fold (zs b).
  destruct (N.eqb_spec x y) as [->|Hne].
  - rewrite Z.eqb_refl. cbn [andb]. apply IH. lia.
  - destruct (Z.eqb_spec (Z.of_N x) (Z.of_N y)) as [E|_]; [apply N2Z.inj in E; contradiction|].
    cbn [andb]. destruct (Z.of_N x <? Z.of_N y); reflexivity.
Qed.

Lemma cstrz_zs (p : bytes) (r : list Z) : ~ In 0%N p -> cstrz (zs p ++ 0 :: r) = zs p.
Proof.
  induction p as [|x p IH]; intros Hnz; cbn [zs map app cstrz]; [reflexivity|].
  destruct (Z.eqb_spec (Z.of_N x) 0) as [E|_]; [exfalso; apply Hnz; left; lia|].
  fold (zs p). rewrite IH by (intros Hin; apply Hnz; now right). reflexivity.
Qed.

(* digits of fmt_ulong *)
Lemma fmt_aux_nz : forall fm u, ~ In 0%N (fmt_aux fm u []).
Proof.
  induction fm as [|f IH]; intros u; [cbn; tauto|]. rewrite Gen_strings.fmt_S.
  remember (u mod 10)%N as m.
  destruct (u / 10 =? 0)%N.
  - cbn [In]. intros [H|[]]. lia.
  - intros Hin. apply in_app_or in Hin. destruct Hin as [H|[H|[]]]; [exact (IH _ H)|lia].
Qed.
Lemma fmt_ulong_nz u : ~ In 0%N (fmt_ulong u).
Proof. apply fmt_aux_nz. Qed.
Lemma fmt_len_p10 : forall k fm u, (u < Gen_strings.p10 k)%N -> (1 <= k)%nat -> (length (fmt_aux fm u []) <= k)%nat.
Proof.
  induction k as [|k IH]; intros fm u Hu Hk; [lia|].
  destruct fm as [|f]; [cbn; lia|]. rewrite Gen_strings.fmt_S.
  destruct (N.eqb_spec (u / 10) 0) as [E|E]; [cbn [length]; lia|].
  rewrite app_length. cbn [length]. rewrite Gen_strings.p10_S in Hu.
  destruct k as [|k'].
  - change (Gen_strings.p10 0) with 1%N in Hu. exfalso. apply E. apply N.div_small. lia.
  - specialize (IH f (u / 10)%N). 
    assert (u / 10 < Gen_strings.p10 (S k'))%N by (apply N.div_lt_upper_bound; lia). lia.
Qed.
Lemma fmt_ulong_len31 u : (u < 2147483648)%N -> (length (fmt_ulong u) <= 10)%nat.
Proof. intros H. apply fmt_len_p10; [|lia]. change (Gen_strings.p10 10) with 10000000000%N. lia. Qed.

Lemma scan_from_bound : forall (s : bytes) (acc : N) (p : nat), (acc < 18446744073709551616)%N -> (fst (scan_from s acc p) < 18446744073709551616)%N.
Proof.
  induction s as [|x s IH]; intros acc p Hacc; cbn [scan_from]; [exact Hacc|].
  destruct (is_digit x); [|exact Hacc]. apply IH. apply (N.mod_upper_bound _ U64). discriminate.
Qed.
Lemma scan_ulong_bound s : (fst (scan_ulong s) < 18446744073709551616)%N.
Proof. apply scan_from_bound. lia. Qed.

(* ---------- respond() ---------- *)
Lemma respond_run (F : nat) (c : Z) (out : list Z) :
  C_clean_respond.run F [c; 0] 0 out = Some (0, {| C_clean_respond.v_s := 0; C_clean_respond.a_s := [c; 0]; C_clean_respond.a_subfdoutsmall__out := out ++ [c] |}).
Proof. reflexivity. Qed.
Ltac cm_simpl := cbv [C_clean_main.set_v_i C_clean_main.set_v_match C_clean_main.set_v_cleanuploop C_clean_main.set_v_id C_clean_main.set_v_subfdinsmall__pos
  C_clean_main.set_v_line__len C_clean_main.set_v_auto_split C_clean_main.set_v_unlink__n C_clean_main.set_v_errno C_clean_main.set_a_subfdinsmall__in
  C_clean_main.set_a_line__s C_clean_main.set_a_subfdoutsmall__out C_clean_main.set_a_fnbuf C_clean_main.set_a_unlink__res C_clean_main.set_a_unlink__log
  C_clean_main.v_i C_clean_main.v_match C_clean_main.v_cleanuploop C_clean_main.v_id C_clean_main.v_subfdinsmall__pos C_clean_main.v_line__len
  C_clean_main.v_auto_split C_clean_main.v_unlink__n C_clean_main.v_errno C_clean_main.a_subfdinsmall__in C_clean_main.a_line__s
  C_clean_main.a_subfdoutsmall__out C_clean_main.a_fnbuf C_clean_main.a_unlink__res C_clean_main.a_unlink__log].

Local Notation ST := C_clean_main.Build_st.

(* the digit test over line.s[i..len-2] *)
Lemma cm_loop2 (F : nat) (m cl id pos sp n e : Z) (inp out fn res log : list Z) :
  forall (rest pre : bytes) (fuel : nat), (length rest < fuel)%nat -> bytes_ok (pre ++ rest) -> Z.of_nat (length (pre ++ rest)) < 2147483648 ->
  C_clean_main.loop2 F fuel (ST (Z.of_nat (length pre)) m cl id pos (Z.of_nat (S (length (pre ++ rest)))) sp n e inp (zs (pre ++ rest) ++ [0]) out fn res log)
  = ONormal (ST (Z.of_nat (length pre + digs rest)) m cl id pos (Z.of_nat (S (length (pre ++ rest)))) sp n e inp (zs (pre ++ rest) ++ [0]) out fn res log).
Proof.
  induction rest as [|x rest IH]; intros pre fuel Hfuel Hok Hlen;
    (destruct fuel as [|f]; [cbn [length] in Hfuel; lia|]);
    cbn [C_clean_main.loop2]; cm_simpl; change (wrapu 32 1) with 1; rewrite Z.add_0_l;
    rewrite (wrapu32_small (Z.of_nat (length pre))) by (rewrite app_length in Hlen; lia);
    rewrite (wrapu32_small (Z.of_nat (S _) - 1)) by lia.
  - rewrite app_nil_r. destruct (Z.ltb_spec (Z.of_nat (length pre)) (Z.of_nat (S (length pre)) - 1)) as [H|_]; [lia|].
    cbn [b2z digs]. change (0 =? 0) with true. cbv iota. rewrite Nat.add_0_r. reflexivity.
  - destruct (Z.ltb_spec (Z.of_nat (length pre)) (Z.of_nat (S (length (pre ++ x :: rest))) - 1)) as [_|H];
      [|rewrite app_length in H; cbn [length] in H; lia].
    cbn [b2z]. change (1 =? 0) with false. cbv iota.
    rewrite rd_zs_mid.
    assert (Hx : (x < 256)%N) by (apply (bytes_ok_mid _ _ _ Hok)).
    rewrite (notdig_spec x Hx). cbn [digs].
    destruct (is_digit x); cbn [negb b2z]; [change (0 =? 0) with true|change (1 =? 0) with false]; cbv iota.
    + rewrite (snoc_assoc pre x rest) in *.
      replace (wraps 32 (Z.of_nat (length pre) + 1)) with (Z.of_nat (length (pre ++ [x]))).
      2:{ rewrite !app_length in *. cbn [length] in *. rewrite wraps32_small; lia. }
      rewrite IH; [|cbn [length] in Hfuel; lia|exact Hok|exact Hlen].
      rewrite app_length. cbn [length]. replace (length pre + 1 + digs rest)%nat with (length pre + S (digs rest))%nat by lia. reflexivity.
    + rewrite Nat.add_0_r. reflexivity.
Qed.

(* scan_ulong(line.s + |h|, &id) *)
Lemma su_loop_at (f0 : nat) (u0 : Z) (au : list Z) (h : bytes) :
  forall (rest pre : bytes) (acc : N) (cv : Z) (fuel : nat),
  (length rest < fuel)%nat -> bytes_ok (h ++ pre ++ rest) -> (acc < 18446744073709551616)%N ->
  Z.of_nat (length (pre ++ rest)) < 4294967296 ->
  exists cv', C_scan_ulong.loop1 f0 fuel
     {| C_scan_ulong.v_s := Z.of_nat (length h); C_scan_ulong.v_u := u0; C_scan_ulong.v_pos := Z.of_nat (length pre);
        C_scan_ulong.v_result := Z.of_N acc; C_scan_ulong.v_c := cv;
        C_scan_ulong.a_s := zs (h ++ pre ++ rest) ++ [0]; C_scan_ulong.a_u := au |}
   = ONormal
     {| C_scan_ulong.v_s := Z.of_nat (length h); C_scan_ulong.v_u := u0;
        C_scan_ulong.v_pos := Z.of_nat (snd (scan_from rest acc (length pre)));
        C_scan_ulong.v_result := Z.of_N (fst (scan_from rest acc (length pre))); C_scan_ulong.v_c := cv';
        C_scan_ulong.a_s := zs (h ++ pre ++ rest) ++ [0]; C_scan_ulong.a_u := au |}.
Proof.
  induction rest as [|x rest IH]; intros pre acc cv fuel Hfuel Hok Hacc Hlen;
    (destruct fuel as [|f]; [cbn [length] in Hfuel; lia|]);
    cbn [C_scan_ulong.loop1]; su_simpl; change (wrapu 64 10) with 10;
    replace (Z.of_nat (length h) + Z.of_nat (length pre)) with (Z.of_nat (length (h ++ pre))) by (rewrite app_length; lia).
  - assert (Hrd : rd (zs (h ++ pre ++ []) ++ [0]) (Z.of_nat (length (h ++ pre))) = Z.of_N 0).
    { rewrite app_nil_r. apply rd_zs_end. }
    rewrite Hrd.
    destruct (digit_of_spec 0%N ltac:(lia)) as [Hd _]. rewrite Hd.
    change (is_digit 0) with false. cbn [b2z scan_from fst snd]. change (0 =? 0) with true. cbv iota.
    eexists; reflexivity.
  - assert (Hrd : rd (zs (h ++ pre ++ x :: rest) ++ [0]) (Z.of_nat (length (h ++ pre))) = Z.of_N x).
    { rewrite (app_assoc h pre). apply rd_zs_mid. }
    rewrite Hrd.
    assert (Hx : (x < 256)%N).
    { rewrite (app_assoc h pre) in Hok. apply (bytes_ok_mid _ _ _ Hok). }
    destruct (digit_of_spec x Hx) as [Hd Hv]. rewrite Hd. cbn [scan_from].
    destruct (is_digit x) eqn:Ed.
    + cbn [b2z]. change (1 =? 0) with false. cbv iota. rewrite (Hv eq_refl).
      rewrite su_result by exact Hacc.
      assert (Hpre : pre ++ x :: rest = (pre ++ [x]) ++ rest) by (rewrite <- app_assoc; reflexivity).
      replace (wrapu 32 (Z.of_nat (length pre) + 1)) with (Z.of_nat (length (pre ++ [x]))).
      2:{ rewrite app_length in *. cbn [length] in *. rewrite wrapu32_small; lia. }
      replace (S (length pre)) with (length (pre ++ [x])) by (rewrite app_length; cbn [length]; lia).
      rewrite Hpre. apply IH.
      * cbn [length] in Hfuel. lia.
      * rewrite <- Hpre. exact Hok.
      * apply (N.mod_upper_bound _ U64). discriminate.
      * rewrite <- Hpre. exact Hlen.
    + cbn [b2z fst snd]. change (0 =? 0) with true. cbv iota. eexists; reflexivity.
Qed.

Lemma su_run_at (F : nat) (h s : bytes) (old : Z) : (length s < F)%nat -> bytes_ok (h ++ s) -> Z.of_nat (length s) < 4294967296 ->
  exists t, C_scan_ulong.run F (zs (h ++ s) ++ [0]) (Z.of_nat (length h)) [old] 0 = Some (Z.of_nat (snd (scan_ulong s)), t)
    /\ C_scan_ulong.a_s t = zs (h ++ s) ++ [0] /\ C_scan_ulong.a_u t = [Z.of_N (fst (scan_ulong s))].
Proof.
  intros Hfuel Hok Hlen.
  unfold C_scan_ulong.run, C_scan_ulong.body. su_simpl.
  change (wrapu 32 0) with (Z.of_nat (@length N [])). change (wrapu 64 0) with (Z.of_N 0).
  destruct (su_loop_at F 0 [old] h s [] 0%N 0 F Hfuel Hok ltac:(lia) Hlen) as [cv' Hl].
  cbn [app] in Hl. rewrite Hl. cbn [obind]. su_simpl.
  eexists. split; [reflexivity|]. su_simpl. split; [reflexivity|].
  unfold scan_ulong. cbn [length]. pose proof (scan_from_bound s 0%N 0%nat ltac:(lia)) as Hr.
  rewrite wrapu64_small by lia. reflexivity.
Qed.
(* ---------- fmtqfn() with any sufficient fuel; auto_split is handed back unchanged ---------- *)
Definition fq_post3 (V : Z) (RES : list Z) (SP : Z) (o : outcome C_fmtqfn.st) : Prop :=
  match o with OReturn v st => v = V /\ C_fmtqfn.a_s st = RES /\ C_fmtqfn.v_auto_split st = SP | _ => False end.

Lemma fq_true_g (fuel : nat) (dir : bytes) (id split : N) (buf : list Z) : (22 + length dir <= fuel)%nat ->
  bytes_ok dir -> ~ In 0%N dir -> Z.of_nat (length dir) < 2 ^ 31 -> (id < 18446744073709551616)%N -> (0 < split < 2147483648)%N ->
  (length (dir ++ (fmt_ulong (id mod split) ++ [SLASH]) ++ fmt_ulong id) < length buf)%nat ->
  fq_post3 (Z.of_nat (S (length (dir ++ (fmt_ulong (id mod split) ++ [SLASH]) ++ fmt_ulong id))))
          (zs (dir ++ (fmt_ulong (id mod split) ++ [SLASH]) ++ fmt_ulong id) ++ [0]
             ++ skipn (S (length (dir ++ (fmt_ulong (id mod split) ++ [SLASH]) ++ fmt_ulong id))) buf) (Z.of_N split)
    (C_fmtqfn.body fuel {| C_fmtqfn.v_s := 0; C_fmtqfn.v_dirslash := 0; C_fmtqfn.v_id := Z.of_N id; C_fmtqfn.v_flagsplit := 1; C_fmtqfn.v_len := 0;
     C_fmtqfn.v_i := 0; C_fmtqfn.v_auto_split := Z.of_N split; C_fmtqfn.a_s := buf; C_fmtqfn.a_dirslash := zs dir ++ [0] |}).
Proof.
  intros Efuel Hok Hnz Hlen Hid Hsp Hbuf. rewrite p31 in Hlen.
  assert (Hm : (id mod split < 18446744073709551616)%N) by (pose proof (mod_bound id split Hsp) as H; remember (id mod split)%N as m; lia).
  pose proof (fmt_ulong_len (id mod split)) as Hl2. pose proof (fmt_ulong_len id) as Hl4.
  rewrite !app_length in Hbuf. cbn [length] in Hbuf.
  destruct (split_len buf (length dir) ltac:(lia)) as (L1 & B1 & -> & HL1). rewrite app_length in Hbuf.
  destruct (split_len B1 (length (fmt_ulong (id mod split))) ltac:(lia)) as (L2 & B2 & -> & HL2). rewrite app_length in Hbuf.
  destruct (split_len B2 1%nat ltac:(lia)) as (L3 & B3 & -> & HL3). rewrite app_length in Hbuf.
  destruct (split_len B3 (length (fmt_ulong id)) ltac:(lia)) as (L4 & B4 & -> & HL4). rewrite app_length in Hbuf.
  destruct B4 as [|y R]; [cbn [length] in Hbuf; lia|].
  match goal with |- fq_post3 ?V ?RES _ _ => set (V0 := V); set (RES0 := RES) end.
  cbv beta delta [C_fmtqfn.body].
  fq_let. fq_let. fq_let_red.
  lazymatch goal with |- context [C_fmt_str.run ?f ?a ?p ?t ?o] =>
    destruct (fs_at' f dir a p [] L1 (L2 ++ L3 ++ L4 ++ y :: R) eq_refl eq_refl ltac:(lia) Hok Hnz HL1 ltac:(lia)) as (st1 & H1 & Ha1 & Ht1) end.
  fq_call H1.
  hide_all. fq_simplz. ptr_ok. unwrap32. show_next.
  fq_simpl. st_else. fq_let_red. rewrite (rem_arg id split Hid Hsp).
  lazymatch goal with |- context [C_fmt_ulong.run ?f ?a ?p ?z] =>
    destruct (fu_at' f (id mod split) a p (zs dir) L2 (L3 ++ L4 ++ y :: R) ltac:(rewrite Ha1; reflexivity) ltac:(rewrite zs_length; lia) ltac:(lia) Hm HL2)
      as (st2 & H2 & Ha2) end.
  fq_call H2.
  hide_all. fq_simplz. ptr_ok. unwrap32. show_next.
  change [47; 0] with (zs [SLASH] ++ [0]). fq_let_red.
  lazymatch goal with |- context [C_fmt_str.run ?f ?a ?p ?t ?o] =>
    destruct (fs_at' f [SLASH] a p (zs dir ++ zs (fmt_ulong (id mod split))) L3 (L4 ++ y :: R)
                ltac:(rewrite Ha2, <- ?app_assoc; reflexivity) ltac:(rewrite app_length, !zs_length; lia) ltac:(cbn [length]; lia) slash_ok slash_nz HL3 ltac:(cbn [length]; lia))
      as (st3 & H3 & Ha3 & _) end.
  fq_call H3.
  fq_simplz. cbn [length]. ptr_ok. unwrap32. show_next.
  fq_let_red.
  lazymatch goal with |- context [C_fmt_ulong.run ?f ?a ?p ?z] =>
    destruct (fu_at' f id a p ((zs dir ++ zs (fmt_ulong (id mod split))) ++ zs [SLASH]) L4 (y :: R)
                ltac:(rewrite Ha3, <- ?app_assoc; reflexivity) ltac:(rewrite !app_length, !zs_length; cbn [length]; lia) ltac:(lia) Hid HL4)
      as (st4 & H4 & Ha4) end.
  fq_call H4.
  hide_all. fq_simplz. ptr_ok. unwrap32. show_next.
  hide_all. fq_simplz. ptr_ok. show_next. fq_simplz.
  unfold fq_post3. fq_simplz. subst V0 RES0. split; [|split; [|reflexivity]].
  - rewrite !app_length. cbn [length]. unwrap32. lia.
  - rewrite Ha4. change (wrapu 8 (wraps 8 0)) with 0.
    rewrite (app_assoc _ (zs (fmt_ulong id))).
    match goal with |- wr (?P ++ _ :: _) ?p _ = _ => replace p with (Z.of_nat (length P)) by (rewrite !app_length, !zs_length; cbn [length]; lia) end.
    rewrite wr_app_mid.
    replace (L1 ++ L2 ++ L3 ++ L4 ++ y :: R) with ((L1 ++ L2 ++ L3 ++ L4 ++ [y]) ++ R) by (rewrite <- ?app_assoc; reflexivity).
    rewrite skipn_app_exact by (rewrite !app_length; cbn [length]; lia).
    rewrite !zs_app, <- ?app_assoc. reflexivity.
Qed.

Lemma fq_false_g (fuel : nat) (dir : bytes) (id split : N) (buf : list Z) : (22 + length dir <= fuel)%nat ->
  bytes_ok dir -> ~ In 0%N dir -> Z.of_nat (length dir) < 2 ^ 31 -> (id < 18446744073709551616)%N ->
  (length (dir ++ [] ++ fmt_ulong id) < length buf)%nat ->
  fq_post3 (Z.of_nat (S (length (dir ++ [] ++ fmt_ulong id))))
          (zs (dir ++ [] ++ fmt_ulong id) ++ [0] ++ skipn (S (length (dir ++ [] ++ fmt_ulong id))) buf) (Z.of_N split)
    (C_fmtqfn.body fuel {| C_fmtqfn.v_s := 0; C_fmtqfn.v_dirslash := 0; C_fmtqfn.v_id := Z.of_N id; C_fmtqfn.v_flagsplit := 0; C_fmtqfn.v_len := 0;
     C_fmtqfn.v_i := 0; C_fmtqfn.v_auto_split := Z.of_N split; C_fmtqfn.a_s := buf; C_fmtqfn.a_dirslash := zs dir ++ [0] |}).
Proof.
  intros Efuel Hok Hnz Hlen Hid Hbuf. rewrite p31 in Hlen.
  pose proof (fmt_ulong_len id) as Hl4.
  cbn [app] in *. rewrite !app_length in Hbuf.
  destruct (split_len buf (length dir) ltac:(lia)) as (L1 & B1 & -> & HL1). rewrite app_length in Hbuf.
  destruct (split_len B1 (length (fmt_ulong id)) ltac:(lia)) as (L4 & B4 & -> & HL4). rewrite app_length in Hbuf.
  destruct B4 as [|y R]; [cbn [length] in Hbuf; lia|].
  match goal with |- fq_post3 ?V ?RES _ _ => set (V0 := V); set (RES0 := RES) end.
  cbv beta delta [C_fmtqfn.body].
  fq_let. fq_let. fq_let_red.
  lazymatch goal with |- context [C_fmt_str.run ?f ?a ?p ?t ?o] =>
    destruct (fs_at' f dir a p [] L1 (L4 ++ y :: R) eq_refl eq_refl ltac:(lia) Hok Hnz HL1 ltac:(lia)) as (st1 & H1 & Ha1 & Ht1) end.
  fq_call H1.
  hide_all. fq_simplz. ptr_ok. unwrap32. show_next.
  fq_simpl. st_then. hide_all. show_next.
  fq_let_red.
  lazymatch goal with |- context [C_fmt_ulong.run ?f ?a ?p ?z] =>
    destruct (fu_at' f id a p (zs dir) L4 (y :: R) ltac:(rewrite Ha1; reflexivity) ltac:(rewrite zs_length; lia) ltac:(lia) Hid HL4)
      as (st4 & H4 & Ha4) end.
  fq_call H4.
  hide_all. fq_simplz. ptr_ok. unwrap32. show_next.
  hide_all. fq_simplz. ptr_ok. show_next. fq_simplz.
  unfold fq_post3. fq_simplz. subst V0 RES0. split; [|split; [|reflexivity]].
  - rewrite !app_length. unwrap32. lia.
  - rewrite Ha4. change (wrapu 8 (wraps 8 0)) with 0.
    rewrite (app_assoc _ (zs (fmt_ulong id))).
    match goal with |- wr (?P ++ _ :: _) ?p _ = _ => replace p with (Z.of_nat (length P)) by (rewrite !app_length, !zs_length; cbn [length]; lia) end.
    rewrite wr_app_mid.
    replace (L1 ++ L4 ++ y :: R) with ((L1 ++ L4 ++ [y]) ++ R) by (rewrite <- ?app_assoc; reflexivity).
    rewrite skipn_app_exact by (rewrite !app_length; cbn [length]; lia).
    rewrite !zs_app, <- ?app_assoc. reflexivity.
Qed.

(* the names qmail-clean asks for fit in fnbuf[40], and contain no NUL *)
Lemma qfn_len (dir : bytes) (id split : N) (flag : bool) : length dir = 5%nat -> (0 < split < 2147483648)%N ->
  (length (qfn dir id split flag) < 40)%nat.
Proof.
  intros Hd Hsp. unfold qfn, Clean.fmtqfn. pose proof (fmt_ulong_len id) as H1.
  pose proof (fmt_ulong_len31 (id mod split) (mod_bound id split Hsp)) as H2.
  remember (id mod split)%N as m.
  destruct flag; rewrite !app_length; cbn [length]; rewrite <- ?Heqm; clear Heqm; lia.
Qed.
Lemma qfn_nz (dir : bytes) (id split : N) (flag : bool) : ~ In 0%N dir -> ~ In 0%N (qfn dir id split flag).
Proof.
  intros Hd Hin. unfold qfn, Clean.fmtqfn in Hin.
  apply in_app_or in Hin. destruct Hin as [H|Hin]; [exact (Hd H)|].
  apply in_app_or in Hin. destruct Hin as [Hin|H]; [|exact (fmt_ulong_nz _ H)].
  destruct flag; [|exact Hin].
  apply in_app_or in Hin. destruct Hin as [H|[H|[]]]; [exact (fmt_ulong_nz _ H)|discriminate].
Qed.

Lemma fq_run_g (fuel : nat) (dir : bytes) (id split : N) (flag : bool) (buf : list Z) : (22 + length dir <= fuel)%nat ->
  bytes_ok dir -> ~ In 0%N dir -> Z.of_nat (length dir) < 2 ^ 31 -> (id < 18446744073709551616)%N -> (0 < split < 2147483648)%N ->
  (length (qfn dir id split flag) < length buf)%nat ->
  exists v t, C_fmtqfn.run fuel buf 0 (zs dir ++ [0]) 0 (Z.of_N id) (b2z flag) (Z.of_N split) = Some (v, t)
    /\ C_fmtqfn.a_s t = zs (qfn dir id split flag) ++ [0] ++ skipn (S (length (qfn dir id split flag))) buf
    /\ C_fmtqfn.v_auto_split t = Z.of_N split.
Proof.
  intros Hfuel Hok Hnz Hlen Hid Hsp Hbuf. rewrite fq_run_unfold.
  destruct flag; unfold qfn, Clean.fmtqfn in *; cbv beta iota delta [b2z].
  - pose proof (fq_true_g fuel dir id split buf Hfuel Hok Hnz Hlen Hid Hsp Hbuf) as H.
    destruct (C_fmtqfn.body _ _) as [st|v st|st|st|]; try contradiction.
    destruct H as (Hv & Ha & Hs). exists v, st. split; [reflexivity|]. split; assumption.
  - pose proof (fq_false_g fuel dir id split buf Hfuel Hok Hnz Hlen Hid Hbuf) as H.
    destruct (C_fmtqfn.body _ _) as [st|v st|st|st|]; try contradiction.
    destruct H as (Hv & Ha & Hs). exists v, st. split; [reflexivity|]. split; assumption.
Qed.

(* what qmail-clean's calls fmtqfn(fnbuf, "dddd/", id, flag) leave in fnbuf[40] *)
Lemma fq_run_40 (F : nat) (dir : bytes) (id split : N) (flag : bool) (buf : list Z) :
  length dir = 5%nat -> bytes_ok dir -> ~ In 0%N dir -> (27 <= F)%nat -> (id < 18446744073709551616)%N -> (0 < split < 2147483648)%N ->
  length buf = 40%nat ->
  exists v t, C_fmtqfn.run F buf 0 (zs dir ++ [0]) 0 (Z.of_N id) (b2z flag) (Z.of_N split) = Some (v, t)
    /\ C_fmtqfn.v_auto_split t = Z.of_N split /\ length (C_fmtqfn.a_s t) = 40%nat /\ cstrz (C_fmtqfn.a_s t) = zs (qfn dir id split flag).
Proof.
  intros Hd Hok Hnz HF Hid Hsp Hbuf.
  pose proof (qfn_len dir id split flag Hd Hsp) as Hql.
  destruct (fq_run_g F dir id split flag buf ltac:(lia) Hok Hnz ltac:(rewrite Hd; reflexivity) Hid Hsp ltac:(lia)) as (v & t & Hrun & Ha & Hs).
  exists v, t. split; [exact Hrun|]. split; [exact Hs|]. rewrite Ha. split.
  - rewrite !app_length, zs_length, skipn_length. cbn [length]. lia.
  - cbn [app]. apply cstrz_zs. apply qfn_nz. exact Hnz.
Qed.
Lemma dir_intd : length s_intd = 5%nat /\ bytes_ok s_intd /\ ~ In 0%N s_intd.
Proof. split; [reflexivity|]. split; [repeat constructor|cbn; intuition discriminate]. Qed.
Lemma dir_mess : length s_mess = 5%nat /\ bytes_ok s_mess /\ ~ In 0%N s_mess.
Proof. split; [reflexivity|]. split; [repeat constructor|cbn; intuition discriminate]. Qed.
Lemma dir_todo : length s_todo = 5%nat /\ bytes_ok s_todo /\ ~ In 0%N s_todo.
Proof. split; [reflexivity|]. split; [repeat constructor|cbn; intuition discriminate]. Qed.


(* ---------- the model, case by case ---------- *)
Definition go_model (u1 u2 : ures) (p1 p2 : bytes) : list bytes * bytes :=
  match u1 with
  | UFail => ([p1], [33%N])
  | _ => match u2 with UFail => ([p1; p2], [33%N]) | _ => ([p1; p2], [43%N]) end
  end.
Lemma clean_short split req u1 u2 : (S (length req) < 7)%nat -> clean_handle split req u1 u2 = ([], [120%N]).
Proof. intros H. unfold clean_handle. destruct (Nat.ltb_spec (S (length req)) 7); [reflexivity|lia]. Qed.
Lemma clean_long split req u1 u2 : (100 < S (length req))%nat -> clean_handle split req u1 u2 = ([], [120%N]).
Proof. intros H. unfold clean_handle. destruct (Nat.ltb_spec 100 (S (length req))); [rewrite orb_true_r; reflexivity|lia]. Qed.
Lemma clean_mid split req u1 u2 : (7 <= S (length req) <= 100)%nat ->
  clean_handle split req u1 u2 =
  if negb (forallb is_digit (skipn 5 req)) then ([], [120%N]) else
  if Nat.eqb (snd (scan_ulong (skipn 5 req))) 0 then ([], [120%N]) else
  if beq (firstn 5 req) s_foop then go_model u1 u2 (qfn s_intd (fst (scan_ulong (skipn 5 req))) split false) (qfn s_mess (fst (scan_ulong (skipn 5 req))) split true)
  else if beq (firstn 5 req) s_todo then go_model u1 u2 (qfn s_intd (fst (scan_ulong (skipn 5 req))) split false) (qfn s_todo (fst (scan_ulong (skipn 5 req))) split false)
  else ([], [120%N]).
Proof.
  intros H. unfold clean_handle.
  destruct (Nat.ltb_spec (S (length req)) 7); [lia|]. destruct (Nat.ltb_spec 100 (S (length req))); [lia|]. cbn [orb].
  destruct (negb (forallb is_digit (skipn 5 req))); [reflexivity|].
  destruct (scan_ulong (skipn 5 req)) as [id nd]. cbn [fst snd]. reflexivity.
Qed.

Lemma go_fail1 u2 p1 p2 : go_model UFail u2 p1 p2 = ([p1], [33%N]).
Proof. reflexivity. Qed.
Lemma go_fail2 u1 p1 p2 : u1 <> UFail -> go_model u1 UFail p1 p2 = ([p1; p2], [33%N]).
Proof. destruct u1; [reflexivity|reflexivity|congruence]. Qed.
Lemma go_ok u1 u2 p1 p2 : u1 <> UFail -> u2 <> UFail -> go_model u1 u2 p1 p2 = ([p1; p2], [43%N]).
Proof. destruct u1, u2; try reflexivity; congruence. Qed.
Lemma ures_ok r : r = 0 \/ r = 2 -> ures_of r <> UFail.
Proof. intros [->| ->]; discriminate. Qed.
Lemma ures_fail r : r <> 0 -> r <> 2 -> ures_of r = UFail.
Proof. intros H0 H2. unfold ures_of. destruct (Z.eqb_spec r 0); [contradiction|]. destruct (Z.eqb_spec r 2); [contradiction|reflexivity]. Qed.
Lemma log1 (log : list Z) p1 : log ++ zs p1 ++ [0] = log ++ log_of [p1].
Proof. unfold log_of. cbn [map concat]. rewrite app_nil_r. reflexivity. Qed.
Lemma log2 (log : list Z) p1 p2 : (log ++ zs p1 ++ [0]) ++ zs p2 ++ [0] = log ++ log_of [p1; p2].
Proof. unfold log_of. cbn [map concat]. rewrite app_nil_r, <- !app_assoc. reflexivity. Qed.

(* ---------- one iteration of the main loop ---------- *)
Definition iter (F : nat) (s : C_clean_main.st) : outcome C_clean_main.st.
Proof.
  let t := eval cbv beta iota delta [C_clean_main.loop1] in (C_clean_main.loop1 F 1 s) in
  lazymatch t with
  | (if _ then _ else match ?X with ONormal _ => _ | OReturn _ _ => _ | OBreak _ => _ | OContinue _ => _ | OStuck => _ end) => exact X
  end.
Defined.
Lemma loop1_S F f s : C_clean_main.loop1 F (S f) s =
  match iter F s with ONormal s' | OContinue s' => C_clean_main.loop1 F f s' | OBreak t => ONormal t | o => o end.
Proof. reflexivity. Qed.

Definition step_post (Q : C_clean_main.st -> Prop) (o : outcome C_clean_main.st) : Prop :=
  match o with ONormal s | OContinue s => Q s | _ => False end.

Definition Qstep (split : N) (req : bytes) (pos n : Z) (inp out res log : list Z) (s : C_clean_main.st) : Prop :=
  C_clean_main.a_subfdinsmall__in s = inp /\ C_clean_main.v_subfdinsmall__pos s = pos + Z.of_nat (S (length req)) /\
  C_clean_main.v_auto_split s = Z.of_N split /\ C_clean_main.a_unlink__res s = res /\ length (C_clean_main.a_fnbuf s) = 40%nat /\
  C_clean_main.v_unlink__n s = n + Z.of_nat (length (fst (clean_handle split req (ures_of (rd res n)) (ures_of (rd res (n + 1)))))) /\
  C_clean_main.a_subfdoutsmall__out s = out ++ zs (snd (clean_handle split req (ures_of (rd res n)) (ures_of (rd res (n + 1))))) /\
  C_clean_main.a_unlink__log s = log ++ log_of (fst (clean_handle split req (ures_of (rd res n)) (ures_of (rd res (n + 1))))).

Ltac cm_red v := eval cbv beta iota delta [C_clean_main.set_v_i C_clean_main.set_v_match C_clean_main.set_v_cleanuploop C_clean_main.set_v_id C_clean_main.set_v_subfdinsmall__pos
  C_clean_main.set_v_line__len C_clean_main.set_v_auto_split C_clean_main.set_v_unlink__n C_clean_main.set_v_errno C_clean_main.set_a_subfdinsmall__in
  C_clean_main.set_a_line__s C_clean_main.set_a_subfdoutsmall__out C_clean_main.set_a_fnbuf C_clean_main.set_a_unlink__res C_clean_main.set_a_unlink__log
  C_clean_main.v_i C_clean_main.v_match C_clean_main.v_cleanuploop C_clean_main.v_id C_clean_main.v_subfdinsmall__pos C_clean_main.v_line__len
  C_clean_main.v_auto_split C_clean_main.v_unlink__n C_clean_main.v_errno C_clean_main.a_subfdinsmall__in C_clean_main.a_line__s
  C_clean_main.a_subfdoutsmall__out C_clean_main.a_fnbuf C_clean_main.a_unlink__res C_clean_main.a_unlink__log
  C_clean_respond.a_subfdoutsmall__out fst snd] in v.
(* no zeta: the lets of the rest of the body stay *)
Ltac cm_simpl0 := cbv beta iota delta [C_clean_main.set_v_i C_clean_main.set_v_match C_clean_main.set_v_cleanuploop C_clean_main.set_v_id C_clean_main.set_v_subfdinsmall__pos
  C_clean_main.set_v_line__len C_clean_main.set_v_auto_split C_clean_main.set_v_unlink__n C_clean_main.set_v_errno C_clean_main.set_a_subfdinsmall__in
  C_clean_main.set_a_line__s C_clean_main.set_a_subfdoutsmall__out C_clean_main.set_a_fnbuf C_clean_main.set_a_unlink__res C_clean_main.set_a_unlink__log
  C_clean_main.v_i C_clean_main.v_match C_clean_main.v_cleanuploop C_clean_main.v_id C_clean_main.v_subfdinsmall__pos C_clean_main.v_line__len
  C_clean_main.v_auto_split C_clean_main.v_unlink__n C_clean_main.v_errno C_clean_main.a_subfdinsmall__in C_clean_main.a_line__s
  C_clean_main.a_subfdoutsmall__out C_clean_main.a_fnbuf C_clean_main.a_unlink__res C_clean_main.a_unlink__log
  C_clean_respond.a_subfdoutsmall__out fst snd].
Ltac cm_let_red := lazymatch goal with
  | |- ?P (let x := ?v in @?b x) => let v' := cm_red v in change (P (let x := v' in b x)); cbv beta
  | |- ?P (obind (let x := ?v in @?b x) ?k) => let v' := cm_red v in change (P (obind (let x := v' in b x) k)); cbv beta
  end.
Ltac cm_let := cm_let_red; st_let_zeta.
(* a closed condition at the head *)
Ltac st_if_eval := lazymatch goal with
  | |- ?P (obind (if ?c then ?a else ?b) ?k) =>
      let c' := eval lazy in c in replace c with c' by reflexivity; lazymatch c' with true => change (P (obind a k)) | false => change (P (obind b k)) end
  | |- ?P (if ?c then ?a else ?b) =>
      let c' := eval lazy in c in replace c with c' by reflexivity; lazymatch c' with true => change (P a) | false => change (P b) end
  end.
(* as Gen_names.hide_all, also for an obind whose first argument mentions let-bound variables *)
Ltac hide_all' := repeat match goal with |- context [@obind _ _ ?k] => lazymatch k with (fun _ => _) => let K := fresh "K" in set (K := k) end end.
Ltac reveal x := match goal with H := _ |- _ => constr_eq H x; subst H end.
Ltac forget x := match goal with H := _ |- _ => constr_eq H x; clear H end.
(* if c then a else b at the head, not under obind: the branches are kept as local definitions while c is decided *)
Ltac hide_branches := lazymatch goal with |- ?P (if ?c then ?a else ?b) =>
  let BA := fresh "BA" in let BB := fresh "BB" in set (BA := a); set (BB := b) end.
Ltac br_eval := lazymatch goal with |- ?P (if ?c then ?a else ?b) =>
  let c' := eval lazy in c in replace c with c' by reflexivity;
  lazymatch c' with true => change (P a); reveal a; forget b | false => change (P b); reveal b; forget a end end.
Ltac st_true := lazymatch goal with
  | |- ?P (obind (if ?c then ?a else ?b) ?k) => change (P (obind a k))
  | |- ?P (if ?c then ?a else ?b) => change (P a) end.
Ltac st_false := lazymatch goal with
  | |- ?P (obind (if ?c then ?a else ?b) ?k) => change (P (obind b k))
  | |- ?P (if ?c then ?a else ?b) => change (P b) end.

Lemma sp_continue (Q : C_clean_main.st -> Prop) s K : Q s -> step_post Q (obind (OContinue s) K).
Proof. intros H; exact H. Qed.
Lemma sp_normal (Q : C_clean_main.st -> Prop) s : Q s -> step_post Q (ONormal s).
Proof. intros H; exact H. Qed.
(* respond(c); continue;  at the head *)
Ltac respond_continue := cm_let_red; rewrite respond_run; st_let_zeta; cm_let; st_if_eval; apply sp_continue.
Ltac leaf Hm := let HM := fresh "HM" in pose proof Hm as HM; lazymatch goal with Q := _ |- ?Q0 _ => subst Q0 end;
  unfold Qstep; cm_simpl0;
  repeat match goal with E : ?u = ures_of _ |- _ => rewrite <- E; clear E end; rewrite HM; cbv beta iota delta [fst snd];
  repeat split; try reflexivity; try assumption; try (cbn [length]; lia); try (symmetry; apply app_nil_r); try apply log1; try apply log2.
Ltac respond_normal := cm_let_red; rewrite respond_run; st_let_zeta; cm_let; st_if_eval; apply sp_normal.
(* fmtqfn(fnbuf,dir,id,flag) at the head, the buffer of 40 bytes *)
Ltac fq_step dir flag Hdir Hlen HF Hid Hsp t Hl Hc :=
  cm_let_red;
  lazymatch goal with |- context [C_fmtqfn.run ?f ?buf 0 ?d 0 (Z.of_N ?id) ?fl (Z.of_N ?sp)] =>
    change (C_fmtqfn.run f buf 0 d 0 (Z.of_N id) fl (Z.of_N sp)) with (C_fmtqfn.run f buf 0 (zs dir ++ [0]) 0 (Z.of_N id) (b2z flag) (Z.of_N sp));
    let v := fresh "v" in let Hrun := fresh "Hrun" in let Hs := fresh "Hs" in
    destruct (fq_run_40 f dir id sp flag buf (proj1 Hdir) (proj1 (proj2 Hdir)) (proj2 (proj2 Hdir)) HF Hid Hsp Hlen) as (v & t & Hrun & Hs & Hl & Hc);
    rewrite Hrun; st_let_zeta; cm_let; cm_let; rewrite Hs; clear Hrun Hs
  end.

Lemma rd_single x : rd [x] 0 = x. Proof. reflexivity. Qed.
(* unlink(fnbuf) and the test of errno at the head; leaves the continuation (for any errno, the call having succeeded or
   answered ENOENT) and the state after respond("!") *)
Ltac unlink_step u Eu Hc :=
  cm_let; cm_let; change (Z.to_nat 0) with 0%nat; rewrite skipn_O, Hc;
  lazymatch goal with |- step_post ?Q0 (obind (if b2z ((if ?R =? 0 then 0 else -1) =? _) =? 0 then ONormal (ST ?i ?m ?c ?d ?p ?l ?sp ?n' _ ?inp ?line ?o ?f ?r ?lg) else _) ?K) =>
    let HK := fresh "HK" in let E0 := fresh "E0" in let E2 := fresh "E2" in let Efail := fresh "Efail" in
    assert (HK : u <> UFail -> forall e', step_post Q0 (K (ST i m c d p l sp n' e' inp line o f r lg)));
    [ | destruct (Z.eqb_spec R 0) as [E0|E0];
        [ st_if_eval; rewrite obind_normal; apply HK; rewrite Eu; apply ures_ok; left; exact E0
        | st_if_eval; cm_simpl0; destruct (Z.eqb_spec R 2) as [E2|E2]; st_if_eval;
          [ rewrite obind_normal; apply HK; rewrite Eu; apply ures_ok; right; exact E2
          | assert (Efail : u = UFail) by (rewrite Eu; apply ures_fail; assumption); clear HK; respond_continue ] ] ]
  end.
Ltac enter_k := let Hu := fresh "Hu" in let e' := fresh "e'" in intros Hu e'; lazymatch goal with |- step_post _ (?K0 _) => subst K0 end; cbv beta.

Lemma alen_zs0 (req : bytes) : alen (zs req ++ [0]) = Z.of_nat (S (length req)).
Proof. unfold alen. rewrite app_length, zs_length. cbn [length]. f_equal. lia. Qed.

Lemma iter_ok (F : nat) (split : N) (req : bytes) (pre post : list Z) (i m cl id len n e : Z) (line out fn res log : list Z) :
  bytes_ok req -> ~ In 0%N req -> (30 + length req <= F)%nat -> (0 < split < 2147483648)%N -> length fn = 40%nat ->
  step_post (Qstep split req (Z.of_nat (length pre)) n (pre ++ zs req ++ 0 :: post) out res log)
    (iter F (ST i m cl id (Z.of_nat (length pre)) len (Z.of_N split) n e (pre ++ zs req ++ 0 :: post) line out fn res log)).
Proof.
  intros Hok Hnz HF Hsp Hfn.
  remember (ures_of (rd res n)) as u1 eqn:Eu1. remember (ures_of (rd res (n + 1))) as u2 eqn:Eu2.
  set (Q := Qstep split req (Z.of_nat (length pre)) n (pre ++ zs req ++ 0 :: post) out res log).
  cbv beta delta [iter].
  (* cleanuploop *)
  hide_all'. cm_simpl0.
  match goal with |- step_post Q (obind _ ?K) => 
    assert (HK : forall cl', step_post Q (K (ST i m cl' id (Z.of_nat (length pre)) len (Z.of_N split) n e (pre ++ zs req ++ 0 :: post) line out fn res log))) end.
  2:{ destruct (cl =? 0); apply HK. }
  intros cl'. clear cl. match goal with K := _ |- step_post Q (?K0 _) => subst K0 end. cbv beta.
  (* getln *)
  cm_let_red. rewrite Nat2Z.id, skipn_app_exact by reflexivity. change (wrapu 8 0) with 0. rewrite (getln_req req post Hnz).
  st_let_zeta. cm_let. rewrite alen_zs0. st_if_eval. hide_all'. show_next.
  (* if (!match) break *)
  hide_all'. cm_simpl0. st_if_eval. show_next.
  (* if (line.len < 7) *)
  hide_all'. cm_simpl0. change (wrapu 32 7) with 7.
  destruct (Z.ltb_spec (Z.of_nat (S (length req))) 7) as [Hlt7|Hge7]; st_if_eval.
  { respond_continue. leaf (clean_short split req u1 u2 ltac:(lia)). }
  show_next.
  (* if (line.len > 100) *)
  hide_all'. cm_simpl0. change (wrapu 32 100) with 100. rewrite Z.gtb_ltb.
  destruct (Z.ltb_spec 100 (Z.of_nat (S (length req)))) as [Hgt|Hle]; st_if_eval.
  { respond_continue. leaf (clean_long split req u1 u2 ltac:(lia)). }
  show_next.
  (* if (line.s[line.len - 1]) *)
  hide_all'. cm_simpl0. change (wrapu 32 1) with 1. rewrite Z.add_0_l.
  rewrite (wrapu32_small (Z.of_nat (S (length req)) - 1)) by lia.
  replace (Z.of_nat (S (length req)) - 1) with (Z.of_nat (length req)) by lia.
  rewrite rd_zs_end. st_if_eval. show_next.
  (* for (i = 5;i < line.len - 1;++i) *)
  hide_all'. cm_simpl. show_next.
  remember (firstn 5 req) as h5 eqn:Eh5. remember (skipn 5 req) as tl eqn:Etl.
  assert (Hreq : req = h5 ++ tl) by (subst h5 tl; symmetry; apply firstn_skipn).
  assert (Hh5 : length h5 = 5%nat) by (subst h5; apply firstn_length_le; lia).
  assert (Htl : length req = (5 + length tl)%nat) by (rewrite Hreq at 1; rewrite app_length; lia).
  pose proof (digs_le tl) as Hdle.
  assert (Hok' : bytes_ok (h5 ++ tl)) by (rewrite <- Hreq; exact Hok).
  lazymatch goal with |- context [C_clean_main.loop2 F F (ST _ ?m ?c ?d ?p _ ?sp ?n' ?e' ?inp _ ?o ?f ?r ?l)] =>
    pose proof (cm_loop2 F m c d p sp n' e' inp o f r l tl h5 F ltac:(lia) Hok' ltac:(rewrite <- Hreq; lia)) as HL2 end.
  rewrite <- Hreq, Hh5 in HL2. change (Z.of_nat 5) with 5 in HL2. rewrite HL2. clear HL2. show_next.
  (* if (i < line.len - 1) *)
  hide_all'. cm_simpl0. change (wrapu 32 1) with 1.
  rewrite (wrapu32_small (Z.of_nat (S (length req)) - 1)) by lia. rewrite (wrapu32_small (Z.of_nat (5 + digs tl))) by lia.
  pose proof (digs_all tl) as Hda.
  destruct (forallb is_digit tl) eqn:Edig; cbn [negb] in Hda; [apply Nat.ltb_ge in Hda|apply Nat.ltb_lt in Hda];
    (destruct (Z.ltb_spec (Z.of_nat (5 + digs tl)) (Z.of_nat (S (length req)) - 1)) as [Hc|Hc]; [try lia|try lia]); st_if_eval.
  2:{ respond_continue.
      assert (Hm : clean_handle split req u1 u2 = ([], [120%N])) by (rewrite clean_mid by lia; rewrite <- Etl, Edig; reflexivity).
      leaf Hm. }
  show_next.
  (* if (!scan_ulong(line.s + 5,&id)) *)
  hide_all'. cm_let_red. rewrite Z.add_0_l.
  lazymatch goal with |- context [C_scan_ulong.run F _ _ [?old] 0] =>
    destruct (su_run_at F h5 tl old ltac:(lia) Hok' ltac:(lia)) as (t & Hrun & Has & Hau) end.
  rewrite <- Hreq in Hrun, Has. rewrite Hh5 in Hrun. change (Z.of_nat 5) with 5 in Hrun.
  rewrite Hrun. st_let_zeta. cm_let. cm_let. rewrite Has, Hau, rd_single.
  remember (fst (scan_ulong tl)) as idv eqn:Eid.
  assert (Hid : (idv < 18446744073709551616)%N) by (subst idv; apply scan_ulong_bound).
  destruct (snd (scan_ulong tl) =? 0)%nat eqn:End;
    [pose proof (proj1 (Nat.eqb_eq _ _) End) as End'|pose proof (proj1 (Nat.eqb_neq _ _) End) as End'];
    (destruct (Z.eqb_spec (Z.of_nat (snd (scan_ulong tl))) 0) as [Hc2|Hc2]; [try lia|try lia]); st_if_eval.
  { respond_continue.
    assert (Hm : clean_handle split req u1 u2 = ([], [120%N])) by (rewrite clean_mid by lia; rewrite <- Etl, Edig, End; reflexivity).
    leaf Hm. }
  show_next.
  (* byte_equal(line.s,5,"foop/"), byte_equal(line.s,5,"todo/") *)
  assert (Hf5 : firstn 5 (zs req ++ [0]) = zs h5).
  { rewrite Hreq, zs_app, <- app_assoc. rewrite firstn_app_le by (rewrite zs_length; lia). apply firstn_all2. rewrite zs_length; lia. }
  assert (HF27 : (27 <= F)%nat) by lia.
  hide_all'. hide_branches. cm_simpl0.
  change (Z.to_nat (wrapu 64 5)) with 5%nat. change (Z.to_nat 0) with 0%nat. rewrite skipn_O.
  rewrite Hf5. change (firstn 5 [102; 111; 111; 112; 47; 0]) with (zs s_foop).
  rewrite memcmpz_beq by (rewrite Hh5; reflexivity).
  destruct (beq h5 s_foop) eqn:Efoop; br_eval.
  - assert (Hm : clean_handle split req u1 u2 = go_model u1 u2 (qfn s_intd idv split false) (qfn s_mess idv split true))
      by (rewrite clean_mid by lia; rewrite <- Etl, <- Eh5, Edig, End, <- Eid, Efoop; reflexivity).
    fq_step s_intd false dir_intd Hfn HF27 Hid Hsp tA HlA HcA.
    unlink_step u1 Eu1 HcA.
    2:{ assert (Hm' : clean_handle split req u1 u2 = ([qfn s_intd idv split false], [33%N])) by (rewrite Hm, Efail; apply go_fail1).
        leaf Hm'. }
    enter_k. hide_all'.
    fq_step s_mess true dir_mess HlA HF27 Hid Hsp tB HlB HcB.
    unlink_step u2 Eu2 HcB.
    2:{ assert (Hm' : clean_handle split req u1 u2 = ([qfn s_intd idv split false; qfn s_mess idv split true], [33%N]))
          by (rewrite Hm, Efail; apply go_fail2; assumption).
        leaf Hm'. }
    enter_k. respond_normal.
    assert (Hm' : clean_handle split req u1 u2 = ([qfn s_intd idv split false; qfn s_mess idv split true], [43%N]))
      by (rewrite Hm; apply go_ok; assumption).
    leaf Hm'.
  - hide_branches. cm_simpl0.
    change (Z.to_nat (wrapu 64 5)) with 5%nat. change (Z.to_nat 0) with 0%nat. rewrite skipn_O.
    rewrite Hf5. change (firstn 5 [116; 111; 100; 111; 47; 0]) with (zs s_todo).
    rewrite memcmpz_beq by (rewrite Hh5; reflexivity).
    destruct (beq h5 s_todo) eqn:Etodo; br_eval.
    + assert (Hm : clean_handle split req u1 u2 = go_model u1 u2 (qfn s_intd idv split false) (qfn s_todo idv split false))
        by (rewrite clean_mid by lia; rewrite <- Etl, <- Eh5, Edig, End, <- Eid, Efoop, Etodo; reflexivity).
      fq_step s_intd false dir_intd Hfn HF27 Hid Hsp tA HlA HcA.
      unlink_step u1 Eu1 HcA.
      2:{ assert (Hm' : clean_handle split req u1 u2 = ([qfn s_intd idv split false], [33%N])) by (rewrite Hm, Efail; apply go_fail1).
          leaf Hm'. }
      enter_k. hide_all'.
      fq_step s_todo false dir_todo HlA HF27 Hid Hsp tB HlB HcB.
      unlink_step u2 Eu2 HcB.
      2:{ assert (Hm' : clean_handle split req u1 u2 = ([qfn s_intd idv split false; qfn s_todo idv split false], [33%N]))
            by (rewrite Hm, Efail; apply go_fail2; assumption).
          leaf Hm'. }
      enter_k. respond_normal.
      assert (Hm' : clean_handle split req u1 u2 = ([qfn s_intd idv split false; qfn s_todo idv split false], [43%N]))
        by (rewrite Hm; apply go_ok; assumption).
      leaf Hm'.
    + respond_normal.
      assert (Hm : clean_handle split req u1 u2 = ([], [120%N]))
        by (rewrite clean_mid by lia; rewrite <- Etl, <- Eh5, Edig, End, Efoop, Etodo; reflexivity).
      leaf Hm.
Qed.

(* the iteration at the end of the input: getln() reports no match, the loop is left *)
Definition break_post (out log : list Z) (o : outcome C_clean_main.st) : Prop :=
  match o with OBreak s => C_clean_main.a_subfdoutsmall__out s = out /\ C_clean_main.a_unlink__log s = log | _ => False end.
Lemma bp_break out log s K : C_clean_main.a_subfdoutsmall__out s = out /\ C_clean_main.a_unlink__log s = log -> break_post out log (obind (OBreak s) K).
Proof. intros H; exact H. Qed.

Lemma iter_end (F : nat) (i m cl id len sp n e : Z) (inp line out fn res log : list Z) :
  break_post out log (iter F (ST i m cl id (Z.of_nat (length inp)) len sp n e inp line out fn res log)).
Proof.
  cbv beta delta [iter].
  hide_all'. cm_simpl0.
  match goal with |- break_post _ _ (obind _ ?K) =>
    assert (HK : forall cl', break_post out log (K (ST i m cl' id (Z.of_nat (length inp)) len sp n e inp line out fn res log))) end.
  2:{ destruct (cl =? 0); apply HK. }
  intros cl'. clear cl. match goal with K := _ |- break_post _ _ (?K0 _) => subst K0 end. cbv beta.
  cm_let_red. rewrite Nat2Z.id, skipn_all. change (getln_line [] (wrapu 8 0)) with (@nil Z, false).
  st_let_zeta. cm_let. st_if_eval. hide_all'. show_next.
  hide_all'. cm_simpl0. st_if_eval. apply bp_break. cm_simpl0. split; reflexivity.
Qed.

Fixpoint cl_all (split : N) (reqs : list bytes) (res : list Z) : list bytes * bytes :=
  match reqs with
  | [] => ([], [])
  | r :: rs =>
      let h := clean_handle split r (ures_of (nth 0 res 0)) (ures_of (nth 1 res 0)) in
      let t := cl_all split rs (skipn (length (fst h)) res) in
      (fst h ++ fst t, snd h ++ snd t)
  end.
Definition strm (reqs : list bytes) : list Z := concat (map (fun r => zs r ++ [0]) reqs).

(* ---------- the whole loop; cl_all and strm are clean_all and stream_of, which the file defines after REQUIRED 1 ---------- *)
Ltac cm_proj_in H := cbv beta iota delta [C_clean_main.v_i C_clean_main.v_match C_clean_main.v_cleanuploop C_clean_main.v_id C_clean_main.v_subfdinsmall__pos C_clean_main.v_line__len
  C_clean_main.v_auto_split C_clean_main.v_unlink__n C_clean_main.v_errno C_clean_main.a_subfdinsmall__in C_clean_main.a_line__s
  C_clean_main.a_subfdoutsmall__out C_clean_main.a_fnbuf C_clean_main.a_unlink__res C_clean_main.a_unlink__log] in H.
Lemma nth_skipn_rd (res : list Z) (k j : nat) : nth j (skipn k res) 0 = rd res (Z.of_nat k + Z.of_nat j).
Proof.
  replace (Z.of_nat k + Z.of_nat j) with (Z.of_nat (k + j)) by lia. rewrite rd_nat.
  revert res. induction k as [|k IH]; intros res; [reflexivity|].
  destruct res as [|x res]; [destruct j; reflexivity|]. cbn [skipn Nat.add nth]. apply IH.
Qed.
Lemma skipn_add {A} (l : list A) (a k : nat) : skipn a (skipn k l) = skipn (k + a) l.
Proof.
  revert l. induction k as [|k IH]; intros l; [reflexivity|].
  destruct l as [|x l]; [destruct a; reflexivity|]. cbn [skipn Nat.add]. apply IH.
Qed.
Lemma log_of_app a b : log_of (a ++ b) = log_of a ++ log_of b.
Proof. unfold log_of. rewrite map_app, concat_app. reflexivity. Qed.
Lemma strm_cons r rs : strm (r :: rs) = zs r ++ 0 :: strm rs.
Proof. unfold strm. cbn [map concat]. rewrite <- app_assoc. reflexivity. Qed.

Lemma loop_all (F : nat) (split : N) : (0 < split < 2147483648)%N ->
  forall (reqs : list bytes) (fuel : nat) (pre : list Z) (i m cl id len e : Z) (k : nat) (line out fn res log : list Z),
  Forall (fun r => bytes_ok r /\ ~ In 0%N r /\ (30 + length r <= F)%nat) reqs -> (length reqs < fuel)%nat -> length fn = 40%nat ->
  exists s', C_clean_main.loop1 F fuel (ST i m cl id (Z.of_nat (length pre)) len (Z.of_N split) (Z.of_nat k) e (pre ++ strm reqs) line out fn res log) = ONormal s'
    /\ C_clean_main.a_subfdoutsmall__out s' = out ++ zs (snd (cl_all split reqs (skipn k res)))
    /\ C_clean_main.a_unlink__log s' = log ++ log_of (fst (cl_all split reqs (skipn k res))).
Proof.
  intros Hsp. induction reqs as [|r rs IH]; intros fuel pre i m cl id len e k line out fn res log Hall Hfuel Hfn;
    (destruct fuel as [|f]; [cbn [length] in Hfuel; lia|]); rewrite loop1_S.
  - change (strm []) with (@nil Z). rewrite app_nil_r.
    pose proof (iter_end F i m cl id len (Z.of_N split) (Z.of_nat k) e pre line out fn res log) as H.
    destruct (iter F _) as [s'|v s'|s'|s'|]; cbn [break_post] in H; try contradiction.
    exists s'. cbn [cl_all fst snd]. change (zs []) with (@nil Z). change (log_of []) with (@nil Z). rewrite !app_nil_r.
    split; [reflexivity|exact H].
  - inversion Hall as [|r' rs' (Hok & Hnz & HF) Hall']; subst r' rs'.
    rewrite strm_cons.
    pose proof (iter_ok F split r pre (strm rs) i m cl id len (Z.of_nat k) e line out fn res log Hok Hnz HF Hsp Hfn) as H.
    cbn [cl_all].
    rewrite (nth_skipn_rd res k 0), (nth_skipn_rd res k 1), Z.add_0_r. change (Z.of_nat 1) with 1.
    remember (clean_handle split r (ures_of (rd res (Z.of_nat k))) (ures_of (rd res (Z.of_nat k + 1)))) as h eqn:Eh.
    rewrite skipn_add. cbn [fst snd].
    assert (HIH : forall s', Qstep split r (Z.of_nat (length pre)) (Z.of_nat k) (pre ++ zs r ++ 0 :: strm rs) out res log s' ->
      exists s'', C_clean_main.loop1 F f s' = ONormal s''
        /\ C_clean_main.a_subfdoutsmall__out s'' = out ++ zs (snd h ++ snd (cl_all split rs (skipn (k + length (fst h)) res)))
        /\ C_clean_main.a_unlink__log s'' = log ++ log_of (fst h ++ fst (cl_all split rs (skipn (k + length (fst h)) res)))).
    { intros s' HQ. destruct s' as [xi xm xcl xid xpos xlen xsp xn xe xinp xline xout xfn xres xlog].
      unfold Qstep in HQ. cm_proj_in HQ. rewrite <- Eh in HQ. destruct HQ as (-> & -> & -> & -> & Hfn' & -> & -> & ->).
      replace (pre ++ zs r ++ 0 :: strm rs) with ((pre ++ zs r ++ [0]) ++ strm rs) by (rewrite <- !app_assoc; reflexivity).
      replace (Z.of_nat (length pre) + Z.of_nat (S (length r))) with (Z.of_nat (length (pre ++ zs r ++ [0])))
        by (rewrite !app_length, zs_length; cbn [length]; lia).
      replace (Z.of_nat k + Z.of_nat (length (fst h))) with (Z.of_nat (k + length (fst h))) by lia.
      destruct (IH f (pre ++ zs r ++ [0]) xi xm xcl xid xlen xe (k + length (fst h))%nat xline (out ++ zs (snd h)) xfn res (log ++ log_of (fst h))
                  Hall' ltac:(cbn [length] in Hfuel; lia) Hfn') as (s'' & Hl & Ho & Hg).
      exists s''. split; [exact Hl|]. rewrite Ho, Hg, zs_app, log_of_app, <- !app_assoc. split; reflexivity. }
    destruct (iter F _) as [s'|v s'|s'|s'|]; cbn [step_post] in H; try contradiction; exact (HIH s' H).
Qed.

Lemma run_unfold F inp pos line len out fn sp res log n :
  C_clean_main.run F inp pos line len out fn sp res log n =
  match obind (C_clean_main.loop1 F F (ST 0 0 0 0 pos len sp n 0 inp line out fn res log)) (fun s => OReturn 0 s) with
  | OReturn v s => Some (v, s) | ONormal s => Some (0, s) | _ => None end.
Proof. reflexivity. Qed.


(* REQUIRED 1: one request (NUL-free bytes, then its NUL), then end of input *)
Theorem gen_clean_main_one : forall (split : N) (req : bytes) (r1 r2 : Z) (line0 out0 fnbuf0 log0 : list Z) (len0 : Z),
  bytes_ok req -> ~ In 0%N req -> Z.of_nat (length req) < 2 ^ 31 -> (0 < split < 2147483648)%N -> length fnbuf0 = 40%nat ->
  0 <= r1 < 2 ^ 31 -> 0 <= r2 < 2 ^ 31 ->
  exists st, C_clean_main.run (30 + length req) (zs req ++ [0]) 0 line0 len0 out0 fnbuf0 (Z.of_N split) [r1; r2] log0 0 = Some (0, st) /\
    C_clean_main.a_subfdoutsmall__out st = out0 ++ zs (snd (clean_handle split req (ures_of r1) (ures_of r2))) /\
    C_clean_main.a_unlink__log st = log0 ++ log_of (fst (clean_handle split req (ures_of r1) (ures_of r2))).
Proof.
  intros split req r1 r2 line0 out0 fnbuf0 log0 len0 Hok Hnz _ Hsp Hfn _ _.
  rewrite run_unfold.
  destruct (loop_all (30 + length req) split Hsp [req] (30 + length req) [] 0 0 0 0 len0 0 0%nat line0 out0 fnbuf0 [r1; r2] log0
              ltac:(constructor; [repeat split; [exact Hok|exact Hnz|lia]|constructor]) ltac:(cbn [length]; lia) Hfn) as (s' & Hl & Ho & Hg).
  rewrite strm_cons in Hl. change (strm []) with (@nil Z) in Hl. cbn [app length Z.of_nat] in Hl.
  rewrite Hl. cbn [obind]. exists s'. split; [reflexivity|].
  cbn [cl_all skipn nth fst snd] in Ho, Hg. rewrite !app_nil_r in Ho, Hg. split; assumption.
Qed.


(* REQUIRED 2 (stretch): any number of requests on one connection; the unlink answers are consumed in order, one per call made *)
Fixpoint clean_all (split : N) (reqs : list bytes) (res : list Z) : list bytes * bytes :=
  match reqs with
  | [] => ([], [])
  | r :: rs =>
      let h := clean_handle split r (ures_of (nth 0 res 0)) (ures_of (nth 1 res 0)) in
      let t := clean_all split rs (skipn (length (fst h)) res) in
      (fst h ++ fst t, snd h ++ snd t)
  end.
Definition stream_of (reqs : list bytes) : list Z := concat (map (fun r => zs r ++ [0]) reqs).
Lemma clean_all_eq : clean_all = cl_all. Proof. reflexivity. Qed.
Lemma stream_of_eq : stream_of = strm. Proof. reflexivity. Qed.
Lemma strm_len_ge (reqs : list bytes) : (length reqs <= length (strm reqs))%nat.
Proof. induction reqs as [|r rs IH]; [cbn; lia|]. rewrite strm_cons, app_length. cbn [length]. lia. Qed.
Lemma strm_len_in (reqs : list bytes) r : In r reqs -> (length r <= length (strm reqs))%nat.
Proof.
  induction reqs as [|x rs IH]; [intros []|]. rewrite strm_cons, app_length, zs_length. cbn [length].
  intros [->|Hin]; [lia|]. specialize (IH Hin). lia.
Qed.
Theorem gen_clean_main_all : forall (split : N) (reqs : list bytes) (res : list Z) (line0 out0 fnbuf0 log0 : list Z) (len0 : Z),
  Forall (fun r => bytes_ok r /\ ~ In 0%N r) reqs -> Z.of_nat (length (stream_of reqs)) < 2 ^ 31 -> (0 < split < 2147483648)%N -> length fnbuf0 = 40%nat ->
  Forall (fun r => 0 <= r < 2 ^ 31) res ->
  exists st, C_clean_main.run (30 + length (stream_of reqs)) (stream_of reqs) 0 line0 len0 out0 fnbuf0 (Z.of_N split) res log0 0 = Some (0, st) /\
    C_clean_main.a_subfdoutsmall__out st = out0 ++ zs (snd (clean_all split reqs res)) /\
    C_clean_main.a_unlink__log st = log0 ++ log_of (fst (clean_all split reqs res)).
Proof.
  intros split reqs res line0 out0 fnbuf0 log0 len0 Hall _ Hsp Hfn _.
  rewrite clean_all_eq, stream_of_eq.
  rewrite run_unfold.
  assert (Hall' : Forall (fun r => bytes_ok r /\ ~ In 0%N r /\ (30 + length r <= 30 + length (strm reqs))%nat) reqs).
  { rewrite Forall_forall in *. intros r Hin. destruct (Hall r Hin) as [H1 H2]. pose proof (strm_len_in reqs r Hin). repeat split; [exact H1|exact H2|lia]. }
  pose proof (strm_len_ge reqs) as Hge.
  destruct (loop_all (30 + length (strm reqs)) split Hsp reqs (30 + length (strm reqs)) [] 0 0 0 0 len0 0 0%nat line0 out0 fnbuf0 res log0
              Hall' ltac:(lia) Hfn) as (s' & Hl & Ho & Hg).
  cbn [app length Z.of_nat skipn] in Hl, Ho, Hg.
  rewrite Hl. cbn [obind]. exists s'. split; [reflexivity|]. split; assumption.
Qed.
