(* tables tie for C17: the ok[] table of today's quote.c and the hname[] table of today's hfield.c equal the model's *)
From Coq Require Import ZArith NArith List String Ascii.
From NQ Require Import gen.Params_gen Addr.Quote Addr.Inject822.
Import ListNotations.
Lemma tie_quote_ok :
  Params_gen.quote_ok = map (fun i => if okch (N.of_nat i) then 7%Z else 0%Z) (seq 0 128).
Proof. vm_compute. reflexivity. Qed.
Fixpoint bytes_of_string (s : string) : list N :=
  match s with EmptyString => [] | String a s' => N_of_ascii a :: bytes_of_string s' end.
Lemma tie_hnames : map bytes_of_string Params_gen.hfield_names = hnames.
Proof. vm_compute. reflexivity. Qed.
(* needspace() and atomok() of token822.c as generated from today's source = the model's (Addr/Tok.v), on their whole domains *)
From NQ Require Base.MiniC gen.CGen Tie.GenCommon Tie.Gen_small.
Lemma tie_generated_needspace : forall a b : nat, (a < 12)%nat -> (b < 12)%nat ->
  GenCommon.retval (CGen.C_needspace.run 1 (Z.of_nat a) (Z.of_nat b)) = Some (MiniC.b2z (Tok.needspace (Gen_small.class_of_type a) (Gen_small.class_of_type b))).
Proof. exact Gen_small.gen_needspace_eq. Qed.
Lemma tie_generated_atomok : forall c : N, (c < 256)%N ->
  GenCommon.retval (CGen.C_atomok.run 1 (MiniC.wraps 8 (Z.of_N c))) = Some (MiniC.b2z (Tok.atomok c)).
Proof. exact Gen_small.gen_atomok_eq. Qed.
(* hmatch() (which header field a line is) and atomcheck() (which atoms become quoted strings) as generated from today's
   hfield.c / token822.c = the models *)
From NQ Require Tie.Gen_header Base.Bytes.
Lemma tie_generated_hmatch : forall s t : Bytes.bytes, GenCommon.bytes_ok s -> Forall (fun c => (32 <= c < 128)%N) t -> (Z.of_nat (List.length s) < 2 ^ 31)%Z ->
  (Z.of_nat (List.length t) < 2 ^ 31)%Z ->
  GenCommon.retval (CGen.C_hmatch.run (S (List.length s + List.length t)) (GenCommon.zs s) 0%Z (Z.of_nat (List.length s)) (GenCommon.zs t ++ [0%Z]) 0%Z) = Some (MiniC.b2z (Inject822.hmatch s t)).
Proof. exact Gen_header.gen_hmatch_eq. Qed.
Lemma tie_generated_atomcheck : forall s : Bytes.bytes, GenCommon.bytes_ok s -> (Z.of_nat (List.length s) < 2 ^ 31)%Z ->
  option_map (fun r => CGen.C_atomcheck.v_t__type (snd r)) (CGen.C_atomcheck.run (S (List.length s)) (GenCommon.zs s) (Z.of_nat (List.length s)) 1%Z)
  = Some (if existsb Tok.atom_bad s then 2%Z else 1%Z).
Proof. exact Gen_header.gen_atomcheck_eq. Qed.
(* doit() of quote.c (the quoting itself) as generated from today's source = the model's doit, for every local part *)
From NQ Require Tie.Gen_addr Addr.Quote.
Lemma tie_generated_quote_doit : forall (src : Bytes.bytes) (out : list Z) (outlen : Z), GenCommon.bytes_ok src -> (Z.of_nat (List.length src) < 2 ^ 30)%Z ->
  (Z.of_nat (List.length out) < 2 ^ 32)%Z -> (0 <= outlen)%Z ->
  option_map (fun r => (fst r, CGen.C_quote_doit.v_saout__len (snd r),
                        firstn (List.length (Quote.doit src)) (CGen.C_quote_doit.a_saout__s (snd r))))
    (CGen.C_quote_doit.run (S (List.length src)) out outlen (Z.of_nat (List.length out)) (GenCommon.zs src) (Z.of_nat (List.length src)) 1%Z)
  = Some (1%Z, Z.of_nat (List.length (Quote.doit src)), GenCommon.zs (Quote.doit src)).
Proof. exact Gen_addr.gen_quote_doit_eq. Qed.
(* quote_need() (when a local part needs quoting) as generated from today's quote.c = the model's quote_need, with the ok[] table
   of tie_quote_ok; and it never indexes ok[] outside its 128 cells, whatever bytes the address has *)
From NQ Require Tie.Gen_quote.
Lemma tie_generated_quote_need : forall s : Bytes.bytes, GenCommon.bytes_ok s -> (Z.of_nat (List.length s) < 2 ^ 31)%Z ->
  GenCommon.retval (CGen.C_quote_need.run (S (S (List.length s))) (GenCommon.zs s) 0%Z (Z.of_nat (List.length s)) Gen_quote.ok_table) = Some (MiniC.b2z (Quote.quote_need s)).
Proof. exact Gen_quote.gen_quote_need_eq. Qed.
Lemma tie_ok_table_is_todays_table : Gen_quote.ok_table = Params_gen.quote_ok.
Proof. vm_compute. reflexivity. Qed.
