(* tables tie for C17: the ok[] table of today's quote.c and the hname[] table of today's hfield.c equal the model's *)
From Coq Require Import ZArith NArith List String Ascii.
From NQ Require Import gen.Params_gen Addr.Quote Addr.Inject822.
Import ListNotations.
Lemma tie_quote_ok :
  Params_gen.quote_ok = map (fun i => if okch (N.of_nat i) then 7%Z else 0%Z) (seq 0 128).
Proof. vm_compute. reflexivity. Qed.
Fixpoint bytes_of_string (s : string) : list N :=
  match s with EmptyString => [] | String a s' => N_of_ascii a :: bytes_of_string s' end.
Lemma tie_hnames : map bytes_of_string Params_gen.hfield_names = hnames.
Proof. vm_compute. reflexivity. Qed.
