(* tie for C09: the slot handling of spawn.c that Remote/SpawnSlot.v models with keep = true - docmd() keeps its copy of
   the pipe's write end and does not touch wstat, the handler closes the copy and stores the status, report() is given
   d[i].wstat at end of file - parsed from today's source *)
From Coq Require Import ZArith List String.
From NQ Require Import gen.Params_gen.
Local Open Scope Z_scope.
Lemma tie_spawn_slot :
  Params_gen.spawn_keeps_write_end = 1 /\ Params_gen.spawn_report_on_eof_uses_slot_wstat = 1 /\
  Params_gen.spawn_docmd_does_not_reset_wstat = 1.
Proof. repeat split; reflexivity. Qed.
Lemma tie_spawn_sigchld_text :
  Params_gen.spawn_sigchld_src = "{intwstat;intpid;inti;while((pid=wait_nohang(&wstat))>0)for(i=0;i<auto_spawn;++i)if(d[i].used)if(d[i].pid==pid){close(d[i].fdout);d[i].fdout=-1;d[i].wstat=wstat;d[i].pid=0;}}"%string.
Proof. reflexivity. Qed.
(* report() of today's qmail-rspawn.c, translated to Gallina by tools/c2gallina.py (gen/CGen.v, module C_rreport), writes for
   every wait status and every child output exactly the model's rspawn_report - the function the verdict theorems of C09 are
   about (crashed = status & 127, exit code = status >> 8) *)
From Coq Require NArith.
From NQ Require Base.MiniC Base.Bytes Remote.RemoteSmtp gen.CGen Tie.GenCommon Tie.Gen_report.
Lemma tie_generated_rspawn_report : forall (pre : list Z) (wstat : Z) (out : Bytes.bytes), GenCommon.bytes_ok out -> (0 <= wstat < 2 ^ 31)%Z ->
  (Z.of_nat (List.length out) < 2 ^ 31)%Z ->
  option_map (fun r => CGen.C_rreport.a_ss__out (snd r)) (CGen.C_rreport.run (S (List.length out)) pre wstat (GenCommon.zs out) 0%Z (Z.of_nat (List.length out)))
  = Some (pre ++ GenCommon.zs (RemoteSmtp.rspawn_report (negb (Z.land wstat 127 =? 0)%Z) (Z.to_N (Z.shiftr wstat 8)) out))%list.
Proof. exact Gen_report.gen_rreport_eq. Qed.
(* smtpcode() with get() of today's qmail-remote.c (the SMTP reply parser), translated to Gallina by tools/c2gallina.py
   (gen/CGen.v, modules C_smtpcode, C_rget): for every byte stream the server may send, the same reply code and the same number of
   bytes consumed as the model's smtpcode, end of input (the connection died) exactly when the model says so; and the reply text
   kept never exceeds 5000 bytes and holds no CR *)
From NQ Require Tie.Gen_proto.
Lemma tie_generated_smtpcode : forall (s : Bytes.bytes) (t0 : list Z) (l0 : Z), GenCommon.bytes_ok s -> (Z.of_nat (List.length s) < 2 ^ 31)%Z ->
  match RemoteSmtp.smtpcode s with
  | Some (code, rest) =>
      exists st, CGen.C_smtpcode.run (S (S (List.length s))) t0 l0 (GenCommon.zs s) 0%Z = Some (Z.of_N code, st) /\
                 CGen.C_smtpcode.v_smtpfrom__pos st = Z.of_nat (List.length s - List.length rest)
  | None => GenCommon.retval (CGen.C_smtpcode.run (S (S (List.length s))) t0 l0 (GenCommon.zs s) 0%Z) = Some (-9)%Z
  end.
Proof. exact Gen_proto.gen_smtpcode_eq. Qed.
Lemma tie_generated_smtpcode_text : forall (s : Bytes.bytes) (t0 : list Z) (l0 : Z) v st, GenCommon.bytes_ok s -> (Z.of_nat (List.length s) < 2 ^ 31)%Z ->
  CGen.C_smtpcode.run (S (S (List.length s))) t0 l0 (GenCommon.zs s) 0%Z = Some (v, st) ->
  (CGen.C_smtpcode.v_smtptext__len st <= 5000)%Z /\ CGen.C_smtpcode.v_smtptext__len st = Z.of_nat (List.length (CGen.C_smtpcode.a_smtptext__s st)) /\
  ~ In 13%Z (CGen.C_smtpcode.a_smtptext__s st).
Proof. exact Gen_proto.gen_smtpcode_text. Qed.
