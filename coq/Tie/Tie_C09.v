(* tie for C09: the slot handling of spawn.c that Remote/SpawnSlot.v models with keep = true - docmd() keeps its copy of
   the pipe's write end and does not touch wstat, the handler closes the copy and stores the status, report() is given
   d[i].wstat at end of file - parsed from today's source *)
From Coq Require Import ZArith List String.
From NQ Require Import gen.Params_gen.
Local Open Scope Z_scope.
Lemma tie_spawn_slot :
  Params_gen.spawn_keeps_write_end = 1 /\ Params_gen.spawn_report_on_eof_uses_slot_wstat = 1 /\
  Params_gen.spawn_docmd_does_not_reset_wstat = 1.
Proof. repeat split; reflexivity. Qed.
Lemma tie_spawn_sigchld_text :
  Params_gen.spawn_sigchld_src = "{intwstat;intpid;inti;while((pid=wait_nohang(&wstat))>0)for(i=0;i<auto_spawn;++i)if(d[i].used)if(d[i].pid==pid){close(d[i].fdout);d[i].fdout=-1;d[i].wstat=wstat;d[i].pid=0;}}"%string.
Proof. reflexivity. Qed.
