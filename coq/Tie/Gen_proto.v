(* qmail-remote.c smtpcode() with get() (the SMTP reply parser, C09) and qmail-qmtpd.c getlen() (the netstring length parser,
   C07/C20) as generated from today's sources  =  the models Remote/RemoteSmtp.v smtpcode and Mem/Netstr.v getlen.
   The peer's bytes are the file-scope input list (g_smtpfrom__in_ / g_ssin__in_) read from position g_..__pos_; where the program's
   read function exits at end of input the run ends with code -9; resources() is -6, badproto() -7, temp_nomem() -5.
   REQUIRED statements must be proved exactly as stated. *)
From Coq Require Import ZArith NArith List Lia.
From NQ Require Import Base.MiniC Base.Bytes Remote.RemoteSmtp Mem.Netstr gen.CGen Tie.GenCommon Tie.GenAux.
Import ListNotations.
Local Open Scope Z_scope.

From Coq Require Import Bool ZifyBool.
Ltac Zify.zify_post_hook ::= Z.div_mod_to_equations.

(* Proof conventions.  Nothing below mentions a name invented by the translator.  The calls of get() inside smtpcode() are
   never reduced inside the generated let-chains: getk below is the calling sequence of the translator for one call of
   C_rget.run with the rest of the function as a continuation, the generated loops and body are shown once (by
   conversion, with C_rget.run kept folded by a Strategy hint) to be compositions of getk, and every later step is a
   rewrite with getk_ok or getk_eof on terms that contain no let.  The conversion of a chain of three calls is the
   expensive step of this file (about one minute for loop1, several minutes for body). *)

(* ---------- generic facts ---------- *)
Lemma pobind_normal {S} (s : S) f : obind (ONormal s) f = f s. Proof. reflexivity. Qed.
Lemma pobind_return {S} v (s : S) f : obind (OReturn v s) f = OReturn v s. Proof. reflexivity. Qed.
Lemma pobind_break {S} (s : S) f : obind (OBreak s) f = OBreak s. Proof. reflexivity. Qed.
Lemma pb2z_if {A} (b : bool) (x y : A) : (if b2z b =? 0 then x else y) = if b then y else x.
Proof. destruct b; reflexivity. Qed.

Lemma prd_zs_mid (pre : bytes) x (rest : bytes) : rd (zs (pre ++ x :: rest)) (Z.of_nat (length pre)) = Z.of_N x.
Proof. rewrite zs_app, <- (zs_length pre). cbn [zs map]. apply rd_app_mid. Qed.

Lemma pc_or (a b : bool) : (if b2z a =? 0 then b2z (negb (b2z b =? 0)) else 1) = b2z (a || b).
Proof. destruct a, b; reflexivity. Qed.


(* ---------- qmail-remote.c get() ---------- *)
Definition tlen (c len : Z) : Z :=
  if negb (wraps 32 (wraps 8 c) =? 13) then (if len <? 5000 then wrapu 32 (len + 1) else len) else len.
Definition ttxt (c len : Z) (t : list Z) : list Z :=
  if negb (wraps 32 (wraps 8 c) =? 13) then (if len <? 5000 then firstn (Z.to_nat len) t ++ [c] else t) else t.

Ltac rg_simpl := cbv beta iota zeta delta [C_rget.set_v_uc C_rget.set_v_ch C_rget.set_v_smtpfrom__pos C_rget.set_v_smtptext__len
  C_rget.set_a_uc C_rget.set_a_smtpfrom__in C_rget.set_a_smtptext__s
  C_rget.v_uc C_rget.v_ch C_rget.v_smtpfrom__pos C_rget.v_smtptext__len C_rget.a_uc C_rget.a_smtpfrom__in C_rget.a_smtptext__s].

Lemma pbytes_ok_mid pre x rest : bytes_ok (pre ++ x :: rest) -> (x < 256)%N.
Proof. unfold bytes_ok. rewrite Forall_forall. intros H. apply H. apply in_or_app. right. now left. Qed.

Lemma rget_some (f : nat) (x : Z) (l : bytes) (p : Z) (pre : bytes) (c : N) (rest : bytes) (len : Z) (t : list Z) :
  bytes_ok l -> l = pre ++ c :: rest -> p = Z.of_nat (length pre) ->
  C_rget.run f [x] 0 (zs l) p len t =
  Some (0, {| C_rget.v_uc := 0; C_rget.v_ch := 0; C_rget.v_smtpfrom__pos := p + 1;
              C_rget.v_smtptext__len := tlen (Z.of_N c) len; C_rget.a_uc := [Z.of_N c];
              C_rget.a_smtpfrom__in := zs l; C_rget.a_smtptext__s := ttxt (Z.of_N c) len t |}).
Proof.
  intros Hok -> ->. pose proof (pbytes_ok_mid _ _ _ Hok) as Hc.
  unfold C_rget.run, C_rget.body. rg_simpl.
  assert (Hlt : (Z.of_nat (length pre) <? alen (zs (pre ++ c :: rest))) = true).
  { apply Z.ltb_lt. unfold alen. rewrite zs_length, app_length. cbn [length]. lia. }
  rewrite Hlt. cbv iota. change (b2z true =? 0) with false. cbv iota.
  rewrite prd_zs_mid. rewrite (wrapu8_small (Z.of_N c)) by lia.
  change (wr [x] 0 (Z.of_N c)) with [Z.of_N c]. change (rd [Z.of_N c] 0) with (Z.of_N c).
  rewrite (wrapu8_small (Z.of_N c)) by lia.
  unfold tlen, ttxt. rewrite !pb2z_if. change (wrapu 32 5000) with 5000.
  destruct (negb (wraps 32 (wraps 8 (Z.of_N c)) =? 13)); [|reflexivity].
  destruct (len <? 5000); reflexivity.
Qed.

Lemma rget_eof (f : nat) (x : Z) (l : bytes) (p : Z) (len : Z) (t : list Z) :
  p = Z.of_nat (length l) ->
  C_rget.run f [x] 0 (zs l) p len t =
  Some (-9, {| C_rget.v_uc := 0; C_rget.v_ch := 0; C_rget.v_smtpfrom__pos := p;
              C_rget.v_smtptext__len := len; C_rget.a_uc := [x];
              C_rget.a_smtpfrom__in := zs l; C_rget.a_smtptext__s := t |}).
Proof.
  intros ->.
  unfold C_rget.run, C_rget.body. rg_simpl.
  assert (Hlt : (Z.of_nat (length l) <? alen (zs l)) = false).
  { apply Z.ltb_ge. unfold alen. rewrite zs_length. lia. }
  rewrite Hlt. reflexivity.
Qed.

(* ---------- the reply text: what REQUIRED 2 needs ---------- *)
Definition tinv (len : Z) (t : list Z) : Prop := 0 <= len <= 5000 /\ len = Z.of_nat (length t) /\ ~ In 13 t.
Lemma tinv_step c len t : tinv len t -> tinv (tlen c len) (ttxt c len t).
Proof.
  intros (H1 & H2 & H3). unfold tlen, ttxt.
  destruct (wraps 32 (wraps 8 c) =? 13) eqn:E; cbn [negb]; [exact (conj H1 (conj H2 H3))|].
  destruct (Z.ltb_spec len 5000) as [Hlt|Hge]; [|exact (conj H1 (conj H2 H3))].
  assert (Hf : firstn (Z.to_nat len) t = t) by (apply firstn_all2; lia).
  rewrite Hf. rewrite wrapu32_small by lia.
  unfold tinv. split; [lia|]. split; [rewrite app_length; cbn [length]; lia|].
  intros Hin. apply in_app_or in Hin. destruct Hin as [Hin|[Hin|[]]]; [exact (H3 Hin)|].
  subst c. discriminate E.
Qed.
Lemma tinv_nil : tinv 0 []. Proof. unfold tinv. split; [lia|]. split; [reflexivity|]. intros []. Qed.


(* ---------- one call of get() from smtpcode(), with the rest of the function as a continuation ---------- *)
Notation SC ch code len p t l :=
  {| C_smtpcode.v_ch := ch; C_smtpcode.v_code := code; C_smtpcode.v_smtptext__len := len; C_smtpcode.v_smtpfrom__pos := p;
     C_smtpcode.a_smtptext__s := t; C_smtpcode.a_smtpfrom__in := zs l |} (only parsing).

Definition getk (f0 : nat) (s : C_smtpcode.st) (K : C_smtpcode.st -> outcome C_smtpcode.st) : outcome C_smtpcode.st :=
  let r := C_rget.run f0 [C_smtpcode.v_ch s] 0 (C_smtpcode.a_smtpfrom__in s) (C_smtpcode.v_smtpfrom__pos s)
             (C_smtpcode.v_smtptext__len s) (C_smtpcode.a_smtptext__s s) in
  let sa := match r with Some (_, t) => C_smtpcode.set_v_ch s (rd (C_rget.a_uc t) 0) | None => s end in
  let sb := match r with Some (_, t) => C_smtpcode.set_a_smtpfrom__in sa (C_rget.a_smtpfrom__in t) | None => sa end in
  let sc := match r with Some (_, t) => C_smtpcode.set_v_smtpfrom__pos sb (C_rget.v_smtpfrom__pos t) | None => sb end in
  let sd := match r with Some (_, t) => C_smtpcode.set_v_smtptext__len sc (C_rget.v_smtptext__len t) | None => sc end in
  let se := match r with Some (_, t) => C_smtpcode.set_a_smtptext__s sd (C_rget.a_smtptext__s t) | None => sd end in
  if (match r with Some (v, _) => v | None => 0 end) <? 0
  then OReturn (match r with Some (v, _) => v | None => 0 end) se else K se.

Definition l1_iter (f0 : nat) (s : C_smtpcode.st) : outcome C_smtpcode.st :=
  getk f0 s (fun s =>
    obind (if b2z (negb (wraps 32 (C_smtpcode.v_ch s) =? 45)) =? 0 then ONormal s else OBreak s) (fun s =>
    obind (C_smtpcode.loop2 f0 f0 s) (fun s =>
    getk f0 s (fun s => getk f0 s (fun s => getk f0 s (fun s => ONormal s)))))).

Definition code1 (s : C_smtpcode.st) : C_smtpcode.st :=
  C_smtpcode.set_v_code s (wrapu 64 (wraps 32 (wraps 32 (C_smtpcode.v_ch s) - 48))).
Definition code2 (s : C_smtpcode.st) : C_smtpcode.st :=
  C_smtpcode.set_v_code s (wrapu 64 (wrapu 64 (C_smtpcode.v_code s * wrapu 64 10) + wrapu 64 (wraps 32 (wraps 32 (C_smtpcode.v_ch s) - 48)))).
Definition body_model (f0 : nat) (s0 : C_smtpcode.st) : outcome C_smtpcode.st :=
  getk f0 (C_smtpcode.set_v_smtptext__len (C_smtpcode.set_a_smtptext__s s0 []) 0) (fun s =>
  getk f0 (code1 s) (fun s => getk f0 (code2 s) (fun s =>
    obind (C_smtpcode.loop1 f0 f0 (code2 s)) (fun s => obind (C_smtpcode.loop3 f0 f0 s) (fun s => OReturn (C_smtpcode.v_code s) s))))).
Definition gupd (s : C_smtpcode.st) (t : C_rget.st) : C_smtpcode.st :=
  {| C_smtpcode.v_ch := rd (C_rget.a_uc t) 0; C_smtpcode.v_code := C_smtpcode.v_code s;
     C_smtpcode.v_smtptext__len := C_rget.v_smtptext__len t; C_smtpcode.v_smtpfrom__pos := C_rget.v_smtpfrom__pos t;
     C_smtpcode.a_smtptext__s := C_rget.a_smtptext__s t; C_smtpcode.a_smtpfrom__in := C_rget.a_smtpfrom__in t |}.

Lemma getk_spec f0 s K : getk f0 s K =
  match C_rget.run f0 [C_smtpcode.v_ch s] 0 (C_smtpcode.a_smtpfrom__in s) (C_smtpcode.v_smtpfrom__pos s)
             (C_smtpcode.v_smtptext__len s) (C_smtpcode.a_smtptext__s s) with
  | Some (v, t) => if v <? 0 then OReturn v (gupd s t) else K (gupd s t)
  | None => K s
  end.
Proof.
  unfold getk.
  destruct (C_rget.run f0 [C_smtpcode.v_ch s] 0 (C_smtpcode.a_smtpfrom__in s) (C_smtpcode.v_smtpfrom__pos s)
             (C_smtpcode.v_smtptext__len s) (C_smtpcode.a_smtptext__s s)) as [[v t]|]; reflexivity.
Qed.

Lemma getk_ok f0 (l pre : bytes) c (rest : bytes) x code len p t K :
  bytes_ok l -> l = pre ++ c :: rest -> p = Z.of_nat (length pre) ->
  getk f0 (SC x code len p t l) K = K (SC (Z.of_N c) code (tlen (Z.of_N c) len) (p + 1) (ttxt (Z.of_N c) len t) l).
Proof.
  intros Hok Hl Hp. rewrite getk_spec.
  cbn [C_smtpcode.v_ch C_smtpcode.a_smtpfrom__in C_smtpcode.v_smtpfrom__pos C_smtpcode.v_smtptext__len C_smtpcode.a_smtptext__s].
  rewrite (rget_some f0 x l p pre c rest len t Hok Hl Hp). reflexivity.
Qed.

Lemma getk_eof f0 (l : bytes) x code len p t K : p = Z.of_nat (length l) ->
  getk f0 (SC x code len p t l) K = OReturn (-9) (SC x code len p t l).
Proof.
  intros Hp. rewrite getk_spec.
  cbn [C_smtpcode.v_ch C_smtpcode.a_smtpfrom__in C_smtpcode.v_smtpfrom__pos C_smtpcode.v_smtptext__len C_smtpcode.a_smtptext__s].
  rewrite (rget_eof f0 x l p len t Hp). reflexivity.
Qed.


(* the generated functions as compositions of getk: plain conversions, checked by the kernel at Qed with C_rget.run folded *)
Strategy opaque [C_rget.run].
Lemma l2_unfold f0 f s : C_smtpcode.loop2 f0 (S f) s =
  if b2z (negb (wraps 32 (C_smtpcode.v_ch s) =? 10)) =? 0 then ONormal s else
  match getk f0 s (fun s => ONormal s) with
  | ONormal s' | OContinue s' => C_smtpcode.loop2 f0 f s'
  | OBreak t => ONormal t
  | o => o
  end.
Proof. exact_no_check (@eq_refl _ (C_smtpcode.loop2 f0 (S f) s)). Qed.
Lemma l3_unfold f0 f s : C_smtpcode.loop3 f0 (S f) s =
  if b2z (negb (wraps 32 (C_smtpcode.v_ch s) =? 10)) =? 0 then ONormal s else
  match getk f0 s (fun s => ONormal s) with
  | ONormal s' | OContinue s' => C_smtpcode.loop3 f0 f s'
  | OBreak t => ONormal t
  | o => o
  end.
Proof. exact_no_check (@eq_refl _ (C_smtpcode.loop3 f0 (S f) s)). Qed.
Lemma l1_unfold f0 f s : C_smtpcode.loop1 f0 (S f) s =
  match l1_iter f0 s with
  | ONormal s' | OContinue s' => C_smtpcode.loop1 f0 f s'
  | OBreak t => ONormal t
  | o => o
  end.
Proof. exact_no_check (@eq_refl _ (C_smtpcode.loop1 f0 (S f) s)). Qed.
Lemma body_unfold f0 s0 : C_smtpcode.body f0 s0 = body_model f0 s0.
Proof. exact_no_check (@eq_refl _ (C_smtpcode.body f0 s0)). Qed.
Strategy transparent [C_rget.run].

Lemma sc_ch10 c : (c < 256)%N -> (wraps 32 (Z.of_N c) =? 10) = (c =? LF)%N.
Proof.
  intros H. rewrite wraps32_small by lia. unfold LF.
  destruct (N.eqb_spec c 10) as [->|Hne]; [reflexivity|]. apply Z.eqb_neq. lia.
Qed.

Lemma skip_cons c s : RemoteSmtp.skip_line (c :: s) = if (c =? LF)%N then Some s else RemoteSmtp.skip_line s.
Proof. reflexivity. Qed.


Ltac sc_side := first [ assumption | reflexivity | (rewrite <- ?app_assoc; assumption)
                      | (rewrite ?app_length; cbn [length]; lia)
                      | match goal with H : ?l = _ |- _ = Z.of_nat (length ?l) =>
                          rewrite H, ?app_nil_r, ?app_length; cbn [length]; lia end ].
Ltac sc_ok f0 l pre c rest := rewrite (getk_ok f0 l pre c rest) by sc_side; cbv beta.
Ltac sc_eof f0 l := rewrite (getk_eof f0 l) by sc_side.

Ltac sk_tac unf f0 l Hok :=
  let IH := fresh "IH" in
  intros rest; induction rest as [|c' rest IH]; intros pre p c len t fuel Hl Hp Hc Hinv Hfuel;
    (destruct fuel as [|f]; [cbn [length] in Hfuel; lia|]);
    rewrite skip_cons, unf; cbn [C_smtpcode.v_ch]; rewrite (sc_ch10 c Hc), pb2z_if;
    (destruct (N.eqb_spec c LF) as [Ec|Ec]); cbv beta iota delta [negb];
    [ exists pre, len, t; subst c; split; [subst p; reflexivity|]; split; [exact Hl|]; split; [exact Hinv|lia]
    | sc_eof f0 l; exists (Z.of_N c), len, p, t; split; [reflexivity|exact Hinv]
    | exists pre, len, t; subst c; split; [subst p; reflexivity|]; split; [exact Hl|]; split; [exact Hinv|lia]
    | ];
    (pose proof Hok as Hc'; rewrite Hl in Hc'; apply pbytes_ok_mid in Hc';
     sc_ok f0 l pre c' rest; cbv iota;
     assert (Hl2 : l = (pre ++ [c']) ++ rest) by (rewrite <- app_assoc; exact Hl);
     assert (Hp2 : p + 1 = Z.of_nat (length (pre ++ [c']))) by (rewrite app_length; cbn [length]; lia);
     pose proof (IH (pre ++ [c']) (p + 1) c' (tlen (Z.of_N c') len) (ttxt (Z.of_N c') len t) f Hl2 Hp2 Hc'
                  (tinv_step _ _ _ Hinv) ltac:(cbn [length] in Hfuel; lia)) as H;
     destruct (RemoteSmtp.skip_line (c' :: rest)) as [rest'|];
     [ destruct H as (pre' & len' & t' & E & H1 & H2 & H3); exists pre', len', t';
       split; [exact E|]; split; [exact H1|]; split; [exact H2|]; cbn [length]; lia
     | exact H ]).

Lemma sk2 (f0 : nat) (l : bytes) (code : Z) (Hok : bytes_ok l) :
  forall (rest pre : bytes) (p : Z) (c : N) (len : Z) (t : list Z) (fuel : nat),
  l = pre ++ rest -> p = Z.of_nat (length pre) -> (c < 256)%N -> tinv len t -> (length rest < fuel)%nat ->
  match RemoteSmtp.skip_line (c :: rest) with
  | Some rest' => exists pre' len' t',
      C_smtpcode.loop2 f0 fuel (SC (Z.of_N c) code len p t l) = ONormal (SC 10 code len' (Z.of_nat (length pre')) t' l)
      /\ l = pre' ++ rest' /\ tinv len' t' /\ (length rest' <= length rest)%nat
  | None => exists ch' len' p' t', C_smtpcode.loop2 f0 fuel (SC (Z.of_N c) code len p t l) = OReturn (-9) (SC ch' code len' p' t' l)
      /\ tinv len' t'
  end.
Proof. sk_tac l2_unfold f0 l Hok. Qed.

Lemma sk3 (f0 : nat) (l : bytes) (code : Z) (Hok : bytes_ok l) :
  forall (rest pre : bytes) (p : Z) (c : N) (len : Z) (t : list Z) (fuel : nat),
  l = pre ++ rest -> p = Z.of_nat (length pre) -> (c < 256)%N -> tinv len t -> (length rest < fuel)%nat ->
  match RemoteSmtp.skip_line (c :: rest) with
  | Some rest' => exists pre' len' t',
      C_smtpcode.loop3 f0 fuel (SC (Z.of_N c) code len p t l) = ONormal (SC 10 code len' (Z.of_nat (length pre')) t' l)
      /\ l = pre' ++ rest' /\ tinv len' t' /\ (length rest' <= length rest)%nat
  | None => exists ch' len' p' t', C_smtpcode.loop3 f0 fuel (SC (Z.of_N c) code len p t l) = OReturn (-9) (SC ch' code len' p' t' l)
      /\ tinv len' t'
  end.
Proof. sk_tac l3_unfold f0 l Hok. Qed.
(* ---------- the for (;;) loop: the byte that ends it and what follows that byte ---------- *)
Fixpoint ac1 (n : nat) (s : bytes) : option (N * bytes) :=
  match n with
  | O => None
  | S f =>
    match s with
    | [] => None
    | ch :: s1 =>
      if (ch =? MINUS)%N then
        match RemoteSmtp.skip_line s1 with
        | None => None
        | Some s2 => match s2 with
                     | _ :: _ :: _ :: s3 => ac1 f s3
                     | _ => None
                     end
        end
      else Some (ch, s1)
    end
  end.
Lemma ac1_cons n ch s1 : ac1 (S n) (ch :: s1) =
  if (ch =? MINUS)%N then
    match RemoteSmtp.skip_line s1 with
    | None => None
    | Some s2 => match s2 with _ :: _ :: _ :: s3 => ac1 n s3 | _ => None end
    end
  else Some (ch, s1).
Proof. reflexivity. Qed.
Lemma after_code_ac1 : forall n s, RemoteSmtp.after_code n s =
  match ac1 n s with Some (ch, s1) => RemoteSmtp.skip_line (ch :: s1) | None => None end.
Proof.
  induction n as [|n IH]; intros s; [reflexivity|].
  destruct s as [|ch s1]; [reflexivity|].
  rewrite ac1_cons. cbn [RemoteSmtp.after_code].
  destruct (ch =? MINUS)%N; [|rewrite skip_cons; reflexivity].
  destruct (RemoteSmtp.skip_line s1) as [s2|]; [|reflexivity].
  destruct s2 as [|x [|y [|z s3]]]; try reflexivity. apply IH.
Qed.

Lemma sc_ch45 c : (c < 256)%N -> (wraps 32 (Z.of_N c) =? 45) = (c =? MINUS)%N.
Proof.
  intros H. rewrite wraps32_small by lia. unfold MINUS.
  destruct (N.eqb_spec c 45) as [->|Hne]; [reflexivity|]. apply Z.eqb_neq. lia.
Qed.

Lemma lp1 (f0 : nat) (l : bytes) (code : Z) (Hok : bytes_ok l) :
  forall (n : nat) (rest pre : bytes) (p c0 len : Z) (t : list Z) (fuel : nat),
  l = pre ++ rest -> p = Z.of_nat (length pre) -> tinv len t ->
  (length rest < fuel)%nat -> (length rest < n)%nat -> (length rest < f0)%nat ->
  match ac1 n rest with
  | Some (ch, s1) => exists pre' len' t',
      C_smtpcode.loop1 f0 fuel (SC c0 code len p t l) = ONormal (SC (Z.of_N ch) code len' (Z.of_nat (length pre')) t' l)
      /\ l = pre' ++ s1 /\ (ch < 256)%N /\ tinv len' t' /\ (length s1 < length rest)%nat
  | None => exists ch' len' p' t', C_smtpcode.loop1 f0 fuel (SC c0 code len p t l) = OReturn (-9) (SC ch' code len' p' t' l)
      /\ tinv len' t'
  end.
Proof.
  induction n as [|n IH]; intros rest pre p c0 len t fuel Hl Hp Hinv Hfuel Hn Hf0; [lia|].
  destruct fuel as [|f]; [lia|].
  rewrite l1_unfold. unfold l1_iter.
  destruct rest as [|ch s1].
  - cbn [ac1]. sc_eof f0 l. exists c0, len, p, t. split; [reflexivity|exact Hinv].
  - rewrite ac1_cons.
    pose proof Hok as Hch. rewrite Hl in Hch. apply pbytes_ok_mid in Hch.
    sc_ok f0 l pre ch s1. cbn [C_smtpcode.v_ch].
    rewrite (sc_ch45 ch Hch), pb2z_if.
    destruct (N.eqb_spec ch MINUS) as [Em|Em]; cbv beta iota delta [negb].
    + rewrite pobind_normal. cbv beta.
      assert (Hl2 : l = (pre ++ [ch]) ++ s1) by (rewrite <- app_assoc; exact Hl).
      assert (Hp2 : p + 1 = Z.of_nat (length (pre ++ [ch]))) by (rewrite app_length; cbn [length]; lia).
      pose proof (sk2 f0 l code Hok s1 (pre ++ [ch]) (p + 1) ch (tlen (Z.of_N ch) len) (ttxt (Z.of_N ch) len t) f0
                    Hl2 Hp2 Hch (tinv_step _ _ _ Hinv) ltac:(cbn [length] in Hf0; lia)) as H.
      rewrite skip_cons in H.
      assert (Enl : (ch =? LF)%N = false) by (subst ch; reflexivity).
      rewrite Enl in H.
      destruct (RemoteSmtp.skip_line s1) as [s2|].
      * destruct H as (pre2 & len2 & t2 & E & H1 & H2 & H3).
        rewrite E, pobind_normal. cbv beta.
        destruct s2 as [|x [|y [|z s3]]].
        -- sc_eof f0 l. cbv iota. eexists _, _, _, _. split; [reflexivity|exact H2].
        -- sc_ok f0 l pre2 x (@nil N). sc_eof f0 l. cbv iota.
           eexists _, _, _, _. split; [reflexivity|]. apply tinv_step, H2.
        -- sc_ok f0 l pre2 x [y]. sc_ok f0 l (pre2 ++ [x]) y (@nil N). sc_eof f0 l. cbv iota.
           eexists _, _, _, _. split; [reflexivity|]. apply tinv_step, tinv_step, H2.
        -- sc_ok f0 l pre2 x (y :: z :: s3). sc_ok f0 l (pre2 ++ [x]) y (z :: s3).
           sc_ok f0 l (pre2 ++ [x; y]) z s3. cbv iota.
           assert (Hl3 : l = (pre2 ++ [x; y; z]) ++ s3) by (rewrite <- app_assoc; exact H1).
           cbn [length] in H3, Hfuel, Hn, Hf0.
           match goal with |- context [C_smtpcode.loop1 f0 f (SC ?cc ?cd ?ln ?pp ?tt l)] =>
             assert (Hp3 : pp = Z.of_nat (length (pre2 ++ [x; y; z]))) by (rewrite app_length; cbn [length]; lia);
             assert (Hi3 : tinv ln tt) by (apply tinv_step, tinv_step, tinv_step, H2);
             pose proof (IH s3 (pre2 ++ [x; y; z]) pp cc ln tt f Hl3 Hp3 Hi3 ltac:(lia) ltac:(lia) ltac:(lia)) as H
           end.
           destruct (ac1 n s3) as [[ch' s1']|].
           ++ destruct H as (pre' & len' & t' & E' & G1 & G2 & G3 & G4). exists pre', len', t'.
              split; [exact E'|]. split; [exact G1|]. split; [exact G2|]. split; [exact G3|]. cbn [length]. lia.
           ++ exact H.
      * destruct H as (ch' & len' & p' & t' & E & H2).
        rewrite E, pobind_return. cbv iota. exists ch', len', p', t'. split; [reflexivity|exact H2].
    + rewrite pobind_break. cbv iota.
      exists (pre ++ [ch]), (tlen (Z.of_N ch) len), (ttxt (Z.of_N ch) len t).
      split; [rewrite app_length; cbn [length]; rewrite Hp; do 2 f_equal; lia|].
      split; [rewrite <- app_assoc; exact Hl|]. split; [exact Hch|]. split; [apply tinv_step, Hinv|].
      cbn [length]. lia.
Qed.

(* ---------- the body ---------- *)
Definition codeof (a b c : N) : N :=
  (((digit_val a * 10 + digit_val b) mod U64) * 10 + digit_val c) mod U64.
Lemma smtpcode3 a b c s1 : RemoteSmtp.smtpcode (a :: b :: c :: s1) =
  match RemoteSmtp.after_code (S (length s1)) s1 with Some rest => Some (codeof a b c, rest) | None => None end.
Proof. reflexivity. Qed.

Lemma dvz c : (c < 256)%N -> wrapu 64 (wraps 32 (wraps 32 (Z.of_N c) - 48)) = Z.of_N (digit_val c).
Proof.
  intros H. rewrite (wraps32_small (Z.of_N c)) by lia. rewrite wraps32_small by lia.
  unfold digit_val. rewrite N2Z.inj_mod, N2Z.inj_sub by (unfold U64; lia). rewrite N2Z.inj_add.
  rewrite wrapu64. change (Z.of_N U64) with 18446744073709551616. change (Z.of_N 48) with 48.
  lia.
Qed.
Lemma cstep x c : wrapu 64 (wrapu 64 (Z.of_N x * wrapu 64 10) + Z.of_N (digit_val c)) = Z.of_N ((x * 10 + digit_val c) mod U64).
Proof.
  rewrite N2Z.inj_mod, N2Z.inj_add, N2Z.inj_mul. rewrite !wrapu64.
  change (Z.of_N U64) with 18446744073709551616. change (10 mod 18446744073709551616) with 10. change (Z.of_N 10) with 10.
  rewrite Zplus_mod_idemp_l. reflexivity.
Qed.

Ltac sc_cbn := cbv beta iota delta [code1 code2 C_smtpcode.set_v_ch C_smtpcode.set_v_code C_smtpcode.set_v_smtptext__len C_smtpcode.set_v_smtpfrom__pos
  C_smtpcode.set_a_smtptext__s C_smtpcode.set_a_smtpfrom__in
  C_smtpcode.v_ch C_smtpcode.v_code C_smtpcode.v_smtptext__len C_smtpcode.v_smtpfrom__pos C_smtpcode.a_smtptext__s C_smtpcode.a_smtpfrom__in].

Lemma sc_master (s : bytes) (t0 : list Z) (l0 : Z) : bytes_ok s ->
  match RemoteSmtp.smtpcode s with
  | Some (code, rest) => exists ch len p t,
      C_smtpcode.run (S (S (length s))) t0 l0 (zs s) 0 = Some (Z.of_N code, SC ch (Z.of_N code) len p t s)
      /\ p = Z.of_nat (length s - length rest) /\ tinv len t
  | None => exists ch code len p t,
      C_smtpcode.run (S (S (length s))) t0 l0 (zs s) 0 = Some (-9, SC ch code len p t s) /\ tinv len t
  end.
Proof.
  intros Hok. unfold C_smtpcode.run. rewrite body_unfold. unfold body_model. sc_cbn.
  assert (Hf0 : (length s < S (S (length s)))%nat) by lia.
  remember (S (S (length s))) as f0 eqn:Ef0. clear Ef0.
  destruct s as [|a [|b [|c s1]]].
  - cbn [RemoteSmtp.smtpcode]. sc_eof f0 (@nil N). eexists _, _, _, _, _. split; [reflexivity|apply tinv_nil].
  - cbn [RemoteSmtp.smtpcode]. sc_ok f0 [a] (@nil N) a (@nil N). sc_cbn. sc_eof f0 [a].
    eexists _, _, _, _, _. split; [reflexivity|apply tinv_step, tinv_nil].
  - cbn [RemoteSmtp.smtpcode]. sc_ok f0 [a; b] (@nil N) a [b]. sc_cbn. sc_ok f0 [a; b] [a] b (@nil N). sc_cbn. sc_eof f0 [a; b].
    eexists _, _, _, _, _. split; [reflexivity|apply tinv_step, tinv_step, tinv_nil].
  - rewrite smtpcode3, after_code_ac1.
    sc_ok f0 (a :: b :: c :: s1) (@nil N) a (b :: c :: s1). sc_cbn.
    sc_ok f0 (a :: b :: c :: s1) [a] b (c :: s1). sc_cbn.
    sc_ok f0 (a :: b :: c :: s1) [a; b] c s1. sc_cbn.
    pose proof (bytes_ok_cons _ _ Hok) as [Ha Hok1]. pose proof (bytes_ok_cons _ _ Hok1) as [Hb Hok2].
    pose proof (bytes_ok_cons _ _ Hok2) as [Hc _].
    rewrite (dvz a Ha), (dvz b Hb), (dvz c Hc), !cstep. fold (codeof a b c).
    cbn [length] in Hf0.
    match goal with |- context [C_smtpcode.loop1 f0 f0 (SC ?cc ?cd ?ln ?pp ?tt ?ll)] =>
      assert (Hi3 : tinv ln tt) by (apply tinv_step, tinv_step, tinv_step, tinv_nil);
      pose proof (lp1 f0 ll cd Hok (S (length s1)) s1 [a; b; c] pp cc ln tt f0 eq_refl eq_refl Hi3
                    ltac:(lia) ltac:(lia) ltac:(lia)) as H
    end.
    destruct (ac1 (S (length s1)) s1) as [[ch s1']|].
    + destruct H as (pre' & len' & t' & E & H1 & H2 & H3 & H4).
      rewrite E, pobind_normal. cbv beta.
      pose proof (sk3 f0 (a :: b :: c :: s1) (Z.of_N (codeof a b c)) Hok s1' pre' (Z.of_nat (length pre')) ch len' t' f0
                    H1 eq_refl H2 H3 ltac:(lia)) as G.
      destruct (RemoteSmtp.skip_line (ch :: s1')) as [rest'|].
      * destruct G as (pre2 & len2 & t2 & E2 & G1 & G2 & G3).
        rewrite E2, pobind_normal. cbv beta iota.
        eexists _, _, _, _. split; [reflexivity|]. split; [|exact G2].
        rewrite G1, app_length. f_equal. lia.
      * destruct G as (ch' & len2 & p2 & t2 & E2 & G2).
        rewrite E2, pobind_return. cbv iota.
        eexists _, _, _, _, _. split; [reflexivity|exact G2].
    + destruct H as (ch' & len' & p' & t' & E & H2).
      rewrite E, pobind_return. cbv iota.
      eexists _, _, _, _, _. split; [reflexivity|exact H2].
Qed.

(* REQUIRED 1: one reply read from the stream s: the model's code and rest, or (stream exhausted) the exit *)
Theorem gen_smtpcode_eq : forall (s : bytes) (t0 : list Z) (l0 : Z), bytes_ok s -> Z.of_nat (length s) < 2 ^ 31 ->
  match RemoteSmtp.smtpcode s with
  | Some (code, rest) =>
      exists st, C_smtpcode.run (S (S (length s))) t0 l0 (zs s) 0 = Some (Z.of_N code, st) /\
                 C_smtpcode.v_smtpfrom__pos st = Z.of_nat (length s - length rest)
  | None => retval (C_smtpcode.run (S (S (length s))) t0 l0 (zs s) 0) = Some (-9)
  end.
Proof.
  intros s t0 l0 Hs _. pose proof (sc_master s t0 l0 Hs) as H.
  destruct (RemoteSmtp.smtpcode s) as [[code rest]|].
  - destruct H as (ch & len & p & t & E & Hp & _). eexists. split; [exact E|]. exact Hp.
  - destruct H as (ch & code & len & p & t & E & _). rewrite E. reflexivity.
Qed.

(* REQUIRED 2: the reply text kept for the report never exceeds HUGESMTPTEXT = 5000 bytes and contains no CR *)
Theorem gen_smtpcode_text : forall (s : bytes) (t0 : list Z) (l0 : Z) v st, bytes_ok s -> Z.of_nat (length s) < 2 ^ 31 ->
  C_smtpcode.run (S (S (length s))) t0 l0 (zs s) 0 = Some (v, st) ->
  C_smtpcode.v_smtptext__len st <= 5000 /\ C_smtpcode.v_smtptext__len st = Z.of_nat (length (C_smtpcode.a_smtptext__s st)) /\
  ~ In 13 (C_smtpcode.a_smtptext__s st).
Proof.
  intros s t0 l0 v st Hs _ E. pose proof (sc_master s t0 l0 Hs) as H.
  destruct (RemoteSmtp.smtpcode s) as [[code rest]|].
  - destruct H as (ch & len & p & t & E2 & _ & Hi). rewrite E in E2. injection E2 as _ ->.
    destruct Hi as (H1 & H2 & H3). cbn [C_smtpcode.v_smtptext__len C_smtpcode.a_smtptext__s].
    split; [lia|]. split; [exact H2|exact H3].
  - destruct H as (ch & code & len & p & t & E2 & Hi). rewrite E in E2. injection E2 as _ ->.
    destruct Hi as (H1 & H2 & H3). cbn [C_smtpcode.v_smtptext__len C_smtpcode.a_smtptext__s].
    split; [lia|]. split; [exact H2|exact H3].
Qed.

(* the C variable ch of getlen() is a plain (signed) char: the model takes the stream as those values *)
