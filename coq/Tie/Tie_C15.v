(* constants tie for C15: the values parsed from today's qmail-send.c equal the model's *)
From Coq Require Import ZArith List String.
From NQ Require Import gen.Params_gen Send.Sched.
Import ListNotations.
Local Open Scope Z_scope.
Lemma tie_chanskip : Params_gen.chanskip = [Sched.chanskip 0; Sched.chanskip 1].
Proof. reflexivity. Qed.
Lemma tie_flagdying_expr : Params_gen.flagdying_expr = "(recent>birth+lifetime)"%string.
Proof. reflexivity. Qed.
(* a pass starts only when the head of the queue is due: if (pe.dt > recent) return; *)
Lemma tie_pass_due_test : Params_gen.pass_due_test = "pe.dt>recent"%string.
Proof. reflexivity. Qed.
(* squareroot() as generated from today's qmail-send.c by tools/c2gallina.py is the model's squareroot, for every age
   below 2^32: the theorem squareroot_exact is therefore about what the code says now *)
From NQ Require Base.MiniC gen.CGen Tie.GenCommon Tie.Gen_numbers.
Lemma tie_generated_squareroot : forall x : Z, 0 <= x < 2 ^ 32 ->
  GenCommon.retval (CGen.C_squareroot.run 17 x) = Some (Sched.squareroot x).
Proof. exact Gen_numbers.gen_squareroot_eq. Qed.
(* nextretry() as generated from today's qmail-send.c (with its file-scope recent and chanskip[]) is the model's nextretry *)
From NQ Require Tie.Gen_sched.
Lemma tie_generated_nextretry : forall birth recent c : Z, 0 <= birth < 2 ^ 40 -> 0 <= recent < 2 ^ 40 -> recent - birth < 2 ^ 32 ->
  c = 0 \/ c = 1 ->
  GenCommon.retval (CGen.C_nextretry.run 17 birth c recent [10; 20]) = Some (Sched.nextretry birth recent (Z.to_nat c)).
Proof. exact Gen_sched.gen_nextretry_eq. Qed.
