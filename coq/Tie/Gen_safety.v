(* Memory safety of the code as generated from today's sources with every array access checked: the K_ modules of
   gen/CGen.v are the same translations as the C_ modules plus a field v__oob that becomes 1 as soon as an index falls
   outside its array.  REQUIRED statements must be proved exactly as stated.  (C20) *)
From Coq Require Import ZArith NArith List Lia.
From Coq Require Import ZifyBool.
From NQ Require Import Base.MiniC Base.Bytes Base.CInt gen.CGen Tie.GenCommon Tie.GenAux.
Import ListNotations.
Local Open Scope Z_scope.
From NQ Require Tie.Gen_numbers.
Ltac Zify.zify_post_hook ::= Z.div_mod_to_equations.

(* Proof conventions.  Nothing below mentions a name invented by the translator (s1, x5, o7, ...).  A generated function is
   always taken from its folded constant (run, body, loopK) to the form with all setters and projections reduced in ONE
   reduction step: a goal that still holds the chain of let-bound states is never left behind, because the kernel
   compares two such unreduced chains in exponential time.  Only the facts that bound the indices are carried through
   the loops; the values computed are left alone.  Every array access leaves Z.lor 0 (b2z (negb (inb a i))) in the
   v__oob field, rewritten to 0 by oob_keep once the index is shown to be inside the array. *)

(* ---------------------------------------------------------------- auxiliary lemmas ---------------------------------------------------------------- *)
Lemma inb_true (a : list Z) (i : Z) : 0 <= i < Z.of_nat (length a) -> inb a i = true.
Proof. intros H. unfold inb. apply andb_true_iff. split; [apply Z.leb_le|apply Z.ltb_lt]; lia. Qed.
Lemma oob_keep (a : list Z) (i : Z) : inb a i = true -> Z.lor 0 (b2z (negb (inb a i))) = 0.
Proof. intros ->. reflexivity. Qed.
Lemma wr_nat_length (a : list Z) : forall i v, length (wr_nat a i v) = length a.
Proof. induction a as [|x a IH]; intros i v; [reflexivity|]. destruct i; cbn [wr_nat length]; [reflexivity|]. now rewrite IH. Qed.
Lemma wr_length (a : list Z) i v : length (wr a i v) = length a.
Proof. unfold wr. destruct (i <? 0); [reflexivity|apply wr_nat_length]. Qed.
Lemma obind_normal {S} (s : S) f : obind (ONormal s) f = f s. Proof. reflexivity. Qed.
Lemma obind_return {S} v (s : S) f : obind (OReturn v s) f = OReturn v s. Proof. reflexivity. Qed.
Lemma obind_break {S} (s : S) f : obind (OBreak s) f = OBreak s. Proof. reflexivity. Qed.
Lemma of_nat_S_eqb0 k : (Z.of_nat (S k) =? 0) = false.
Proof. apply Z.eqb_neq; lia. Qed.
Lemma b2z_if {A} (b : bool) (x y : A) : (if b2z b =? 0 then x else y) = if b then y else x.
Proof. destruct b; reflexivity. Qed.

Lemma sub1_nat k : Z.of_nat k < 4294967296 -> wrapu 32 (Z.of_nat (S k) - 1) = Z.of_nat k.
Proof. intros H. rewrite wrapu32_small; lia. Qed.
Lemma of_nat_S_gtb0 k : (Z.of_nat (S k) >? 0) = true.
Proof. apply Z.gtb_lt; lia. Qed.
Lemma sub1s_nat k : Z.of_nat k < 2147483648 -> wraps 32 (Z.of_nat (S k) - 1) = Z.of_nat k.
Proof. intros H. rewrite wraps32_small; lia. Qed.
Definition ok_out {St : Type} (oob : St -> Z) (o : outcome St) : Prop :=
  match o with ONormal s | OReturn _ s => oob s = 0 | _ => False end.
Lemma rd_zs0_end (s : bytes) : rd (zs s ++ [0]) (Z.of_nat (length s)) = 0.
Proof. rewrite <- (zs_length s). apply (rd_app_mid (zs s) 0 []). Qed.
Lemma zs0_length (s : bytes) : Z.of_nat (length (zs s ++ [0])) = Z.of_nat (length s) + 1.
Proof. rewrite app_length, zs_length. cbn [length]. lia. Qed.


(* scan_ulong *)
Ltac sul_simpl := cbv beta iota zeta delta [K_scan_ulong.set_v_s K_scan_ulong.set_v_u K_scan_ulong.set_v_pos K_scan_ulong.set_v_result K_scan_ulong.set_v_c
  K_scan_ulong.set_v__oob K_scan_ulong.set_a_s K_scan_ulong.set_a_u
  K_scan_ulong.v_s K_scan_ulong.v_u K_scan_ulong.v_pos K_scan_ulong.v_result K_scan_ulong.v_c K_scan_ulong.v__oob K_scan_ulong.a_s K_scan_ulong.a_u].
Ltac sul_unroll := cbn [K_scan_ulong.loop1 K_scan_ulong.set_v_s K_scan_ulong.set_v_u K_scan_ulong.set_v_pos K_scan_ulong.set_v_result K_scan_ulong.set_v_c
  K_scan_ulong.set_v__oob K_scan_ulong.set_a_s K_scan_ulong.set_a_u
  K_scan_ulong.v_s K_scan_ulong.v_u K_scan_ulong.v_pos K_scan_ulong.v_result K_scan_ulong.v_c K_scan_ulong.v__oob K_scan_ulong.a_s K_scan_ulong.a_u]; sul_simpl.

Lemma sul_loop f0 (a : list Z) (e : Z) : rd a e = 0 -> e < Z.of_nat (length a) ->
  forall fuel k p u pos r c au, (k < fuel)%nat -> 0 <= p -> 0 <= pos -> p + pos + Z.of_nat k = e -> pos + Z.of_nat k < 4294967296 ->
  exists pos' r' c',
    K_scan_ulong.loop1 f0 fuel {| K_scan_ulong.v_s := p; K_scan_ulong.v_u := u; K_scan_ulong.v_pos := pos; K_scan_ulong.v_result := r;
       K_scan_ulong.v_c := c; K_scan_ulong.v__oob := 0; K_scan_ulong.a_s := a; K_scan_ulong.a_u := au |}
    = ONormal {| K_scan_ulong.v_s := p; K_scan_ulong.v_u := u; K_scan_ulong.v_pos := pos'; K_scan_ulong.v_result := r';
       K_scan_ulong.v_c := c'; K_scan_ulong.v__oob := 0; K_scan_ulong.a_s := a; K_scan_ulong.a_u := au |}
    /\ pos <= pos' /\ p + pos' <= e.
Proof.
  intros He Hlen. induction fuel as [|f IH]; intros k p u pos r c au Hk Hp Hpos Hpe H32; [lia|].
  sul_unroll. rewrite oob_keep by (apply inb_true; lia).
  destruct k as [|k].
  - match goal with |- context [rd a ?t] => replace (rd a t) with 0 by (rewrite <- He; f_equal; lia) end.
    match goal with |- context [if b2z (?x <? ?y) =? 0 then _ else _] =>
      let v := eval vm_compute in (x <? y) in change (x <? y) with v end.
    cbn [b2z]. change (0 =? 0) with true. cbv iota.
    eexists; eexists; eexists; split; [reflexivity|lia].
  - match goal with |- context [if ?c then _ else _] => destruct c end.
    + eexists; eexists; eexists; split; [reflexivity|lia].
    + rewrite (wrapu32_small (pos + 1)) by lia.
      edestruct (IH k p u (pos + 1)) as (pos' & r' & c' & E & H1 & H2); [lia|lia|lia|lia|lia|].
      exists pos', r', c'. split; [exact E|lia].
Qed.

Lemma sul_run (a : list Z) (e : Z) : rd a e = 0 -> e < Z.of_nat (length a) -> e < 4294967296 ->
  forall fuel p u, 0 <= p <= e -> e - p < Z.of_nat fuel ->
  exists v st, K_scan_ulong.run fuel a p [u] 0 = Some (v, st) /\ K_scan_ulong.v__oob st = 0 /\ K_scan_ulong.a_s st = a /\ 0 <= v /\ p + v <= e.
Proof.
  intros He Hlen He32 fuel p u Hp Hfuel.
  cbv beta iota zeta delta [K_scan_ulong.run K_scan_ulong.body K_scan_ulong.set_v_s K_scan_ulong.set_v_u K_scan_ulong.set_v_pos K_scan_ulong.set_v_result K_scan_ulong.set_v_c
  K_scan_ulong.set_v__oob K_scan_ulong.set_a_s K_scan_ulong.set_a_u
  K_scan_ulong.v_s K_scan_ulong.v_u K_scan_ulong.v_pos K_scan_ulong.v_result K_scan_ulong.v_c K_scan_ulong.v__oob K_scan_ulong.a_s K_scan_ulong.a_u].
  change (wrapu 32 0) with 0.
  edestruct (sul_loop fuel a e He Hlen fuel (Z.to_nat (e - p)) p 0 0) as (pos' & r' & c' & E & H1 & H2); [lia|lia|lia|lia|lia|].
  rewrite E, obind_normal. sul_simpl.
  eexists; eexists; split; [reflexivity|]. sul_simpl. split; [reflexivity|]. split; [reflexivity|lia].
Qed.

(* REQUIRED: scan_ulong never reads past the terminating NUL of its string, and stores through u only at index 0 *)
Theorem safe_scan_ulong : forall (s : bytes) (old : Z), bytes_ok s -> ~ In 0%N s -> Z.of_nat (length s) < 2 ^ 32 ->
  exists v st, K_scan_ulong.run (S (length s)) (zs s ++ [0]) 0 [old] 0 = Some (v, st) /\ K_scan_ulong.v__oob st = 0.
Proof.
  intros s old _ _ Hlen. rewrite p32 in Hlen.
  destruct (sul_run (zs s ++ [0]) (Z.of_nat (length s)) (rd_zs0_end s) ltac:(rewrite zs0_length; lia) Hlen (S (length s)) 0 old)
    as (v & st & E & Ho & _); [lia|lia|].
  exists v, st. split; assumption.
Qed.

(* ip_scan, ip_scanbracket *)
Ltac kis_simpl := cbv beta iota zeta delta [K_ip_scan.set_v_s K_ip_scan.set_v_i K_ip_scan.set_v_len K_ip_scan.set_v_u K_ip_scan.set_v__oob K_ip_scan.set_a_s K_ip_scan.set_a_ip__d
  K_ip_scan.v_s K_ip_scan.v_i K_ip_scan.v_len K_ip_scan.v_u K_ip_scan.v__oob K_ip_scan.a_s K_ip_scan.a_ip__d].

(* the rest of the function is kept folded while the current statement is examined *)
Ltac k_hide := match goal with |- context [obind _ ?k] => let K := fresh "K" in set (K := k) end.
(* arithmetic side conditions do not need the hidden continuation: lia is much faster without it in the context *)
Ltac klia := repeat match goal with K := _ |- _ => clear K end; lia.
Ltac k_show := match goal with K := _ |- _ => rewrite obind_normal; unfold K; clear K; cbv beta end.
Ltac unwrap32 := repeat match goal with |- context [wrapu 32 ?x] => rewrite (wrapu32_small x) by klia end.
Ltac kis_done := rewrite ?obind_return; cbv beta iota; eexists; eexists; split; [reflexivity|]; kis_simpl;
  split; [reflexivity|split; [reflexivity|klia]].
Ltac if_compute := match goal with |- context [if ?c then _ else _] => let v := eval vm_compute in c in change c with v end; cbv iota.

(* i = scan_ulong(s, &u); if (!i) return 0; *)
Ltac kis_scan a e He Hlen He32 fuel :=
  match goal with |- context [K_scan_ulong.run fuel a ?q [?u] 0] =>
    let v := fresh "v" in let t := fresh "t" in let E := fresh "E" in let Ho := fresh "Ho" in let Ha := fresh "Ha" in
    let Hv := fresh "Hv" in let Hqv := fresh "Hqv" in
    let HH := fresh "HH" in let XX := fresh "XX" in
    pose proof (sul_run a e He Hlen He32 fuel q u ltac:(klia) ltac:(klia)) as HH;
    match goal with |- context [obind ?x _] => set (XX := x) end;
    destruct HH as (v & t & E & Ho & Ha & Hv & Hqv); unfold XX; clear XX;
    rewrite E; cbv beta iota; rewrite ?Ha, ?Ho; change (Z.lor 0 0) with 0; clear E Ho Ha;
    destruct (v =? 0); cbn [b2z]; [change (1 =? 0) with false | change (0 =? 0) with true]; cbv iota; [kis_done | ]
  end.
(* ip->d[k] = u; s += i; len += i; return 0 unless s points to a dot *)
Ltac kis_dot a e He Hip :=
  rewrite !oob_keep by (apply inb_true; rewrite ?wr_length, ?Hip; klia);
  unwrap32;
  match goal with |- context [rd a ?i] =>
    let Hie := fresh "Hie" in
    destruct (Z.eq_dec i e) as [Hie|Hie];
    [ replace (rd a i) with 0 by (rewrite <- He; f_equal; klia); if_compute; kis_done
    | assert (i < e) by klia; clear Hie;
      match goal with |- context [obind (if ?c then _ else _) _] => destruct c end; [ | kis_done ] ]
  end.

Lemma kis_run (a : list Z) (e : Z) : rd a e = 0 -> e < Z.of_nat (length a) -> e < 2147483648 ->
  forall fuel p ip, 0 <= p <= e -> e - p < Z.of_nat fuel -> length ip = 4%nat ->
  exists v st, K_ip_scan.run fuel a p ip = Some (v, st) /\ K_ip_scan.v__oob st = 0 /\ K_ip_scan.a_s st = a /\ 0 <= v /\ p + v <= e.
Proof.
  intros He Hlen He31 fuel p ip Hp Hfuel Hip.
  assert (He32 : e < 4294967296) by lia.
  cbv beta iota zeta delta [K_ip_scan.run K_ip_scan.body K_ip_scan.set_v_s K_ip_scan.set_v_i K_ip_scan.set_v_len K_ip_scan.set_v_u K_ip_scan.set_v__oob K_ip_scan.set_a_s K_ip_scan.set_a_ip__d
  K_ip_scan.v_s K_ip_scan.v_i K_ip_scan.v_len K_ip_scan.v_u K_ip_scan.v__oob K_ip_scan.a_s K_ip_scan.a_ip__d].
  change (wrapu 32 0) with 0.
  k_hide. kis_scan a e He Hlen He32 fuel. k_show; k_hide; kis_simpl. kis_dot a e He Hip. k_show; k_hide; kis_simpl; unwrap32.
  kis_scan a e He Hlen He32 fuel. k_show; k_hide; kis_simpl. kis_dot a e He Hip. k_show; k_hide; kis_simpl; unwrap32.
  kis_scan a e He Hlen He32 fuel. k_show; k_hide; kis_simpl. kis_dot a e He Hip. k_show; k_hide; kis_simpl; unwrap32.
  kis_scan a e He Hlen He32 fuel. k_show; kis_simpl.
  rewrite !oob_keep by (apply inb_true; rewrite ?wr_length, ?Hip; klia).
  unwrap32. kis_done.
Qed.

Ltac kib_simpl := cbv beta iota zeta delta [K_ip_scanbracket.set_v_s K_ip_scanbracket.set_v_len K_ip_scanbracket.set_v__oob K_ip_scanbracket.set_a_s K_ip_scanbracket.set_a_ip__d
  K_ip_scanbracket.v_s K_ip_scanbracket.v_len K_ip_scanbracket.v__oob K_ip_scanbracket.a_s K_ip_scanbracket.a_ip__d].
Ltac kib_done := rewrite ?obind_return; cbv beta iota; eexists; eexists; split; [reflexivity|]; kib_simpl; reflexivity.

(* REQUIRED: ip_scanbracket on any NUL-terminated string and a 4-byte address: no access outside either *)
Theorem safe_ip_scanbracket : forall (s : bytes) (ip : list Z), bytes_ok s -> ~ In 0%N s -> length ip = 4%nat -> Z.of_nat (length s) < 2 ^ 31 ->
  exists v st, K_ip_scanbracket.run (S (S (length s))) (zs s ++ [0]) 0 ip = Some (v, st) /\ K_ip_scanbracket.v__oob st = 0.
Proof.
  intros s ip _ _ Hip He31. rewrite p31 in He31.
  pose proof (rd_zs0_end s) as He. pose proof (zs0_length s) as Hlen.
  remember (zs s ++ [0]) as a eqn:Ea. clear Ea. remember (Z.of_nat (length s)) as e eqn:Ee.
  cbv beta iota zeta delta [K_ip_scanbracket.run K_ip_scanbracket.body K_ip_scanbracket.set_v_s K_ip_scanbracket.set_v_len K_ip_scanbracket.set_v__oob K_ip_scanbracket.set_a_s K_ip_scanbracket.set_a_ip__d
  K_ip_scanbracket.v_s K_ip_scanbracket.v_len K_ip_scanbracket.v__oob K_ip_scanbracket.a_s K_ip_scanbracket.a_ip__d].
  change (wrapu 32 0) with 0. change (wrapu 32 1) with 1. change (wrapu 32 2) with 2.
  k_hide. rewrite oob_keep by (apply inb_true; lia).
  destruct (Z.eq_dec 0 e) as [H0e|H0e].
  { replace (rd a 0) with 0 by (rewrite <- He; f_equal; lia). if_compute. kib_done. }
  match goal with |- context [obind (if ?c then _ else _) _] => destruct c end; [ | kib_done ].
  k_show; kib_simpl.
  match goal with |- context [K_ip_scan.run ?f a ?q ip] =>
    destruct (kis_run a e He ltac:(lia) He31 f q ip) as (v & t & E & Ho & Ha & Hv & Hqv); [lia | lia | exact Hip | ] end.
  rewrite E; cbv beta iota; rewrite ?Ha, ?Ho; change (Z.lor 0 0) with 0.
  k_hide.
  destruct (v =? 0) eqn:Ev; cbn [b2z]; [change (1 =? 0) with false | change (0 =? 0) with true]; cbv iota; [kib_done | ].
  k_show; kib_simpl. unwrap32.
  rewrite oob_keep by (apply inb_true; lia).
  match goal with |- context [obind (if ?c then _ else _) _] => destruct c end; [ | kib_done ].
  rewrite obind_normal. kib_done.
Qed.

(* quote.c doit() *)
Ltac kq_simpl := cbv beta iota zeta delta [K_quote_doit.set_v_ch K_quote_doit.set_v_i K_quote_doit.set_v_j K_quote_doit.set_v_nlen K_quote_doit.set_v__oob
  K_quote_doit.set_v_sain__len K_quote_doit.set_v_errno K_quote_doit.set_v_saout__len K_quote_doit.set_v_saout__a K_quote_doit.set_v_alloc_ok
  K_quote_doit.set_a_saout__s K_quote_doit.set_a_sain__s
  K_quote_doit.v_ch K_quote_doit.v_i K_quote_doit.v_j K_quote_doit.v_nlen K_quote_doit.v__oob K_quote_doit.v_sain__len K_quote_doit.v_errno
  K_quote_doit.v_saout__len K_quote_doit.v_saout__a K_quote_doit.v_alloc_ok K_quote_doit.a_saout__s K_quote_doit.a_sain__s].
Ltac kq_unroll := cbn [K_quote_doit.loop1 K_quote_doit.set_v_ch K_quote_doit.set_v_i K_quote_doit.set_v_j K_quote_doit.set_v_nlen K_quote_doit.set_v__oob
  K_quote_doit.set_v_sain__len K_quote_doit.set_v_errno K_quote_doit.set_v_saout__len K_quote_doit.set_v_saout__a K_quote_doit.set_v_alloc_ok
  K_quote_doit.set_a_saout__s K_quote_doit.set_a_sain__s
  K_quote_doit.v_ch K_quote_doit.v_i K_quote_doit.v_j K_quote_doit.v_nlen K_quote_doit.v__oob K_quote_doit.v_sain__len K_quote_doit.v_errno
  K_quote_doit.v_saout__len K_quote_doit.v_saout__a K_quote_doit.v_alloc_ok K_quote_doit.a_saout__s K_quote_doit.a_sain__s]; kq_simpl.
Ltac unwraps32 := repeat match goal with |- context [wraps 32 ?x] => rewrite (wraps32_small x) by klia end.

Lemma pad_length_ge (a : list Z) (m : Z) : m <= Z.of_nat (length (pad a m)).
Proof. unfold pad. rewrite app_length, repeat_length. lia. Qed.

(* the loop: i <= len, j <= 2 i + 1, the output array has at least 2 len + 2 cells *)
Lemma kq_loop f0 (src : list Z) : Z.of_nat (length src) < 1073741824 ->
  forall fuel k i j ch nlen errno olen oa ok O, (k < fuel)%nat -> 0 <= i -> i + Z.of_nat k = Z.of_nat (length src) ->
  0 <= j <= 2 * i + 1 -> 2 * Z.of_nat (length src) + 2 <= Z.of_nat (length O) ->
  exists st, K_quote_doit.loop1 f0 fuel {| K_quote_doit.v_ch := ch; K_quote_doit.v_i := i; K_quote_doit.v_j := j; K_quote_doit.v_nlen := nlen;
      K_quote_doit.v__oob := 0; K_quote_doit.v_sain__len := Z.of_nat (length src); K_quote_doit.v_errno := errno;
      K_quote_doit.v_saout__len := olen; K_quote_doit.v_saout__a := oa; K_quote_doit.v_alloc_ok := ok;
      K_quote_doit.a_saout__s := O; K_quote_doit.a_sain__s := src |} = ONormal st /\
    K_quote_doit.v__oob st = 0 /\ 0 <= K_quote_doit.v_j st <= 2 * Z.of_nat (length src) + 1 /\
    2 * Z.of_nat (length src) + 2 <= Z.of_nat (length (K_quote_doit.a_saout__s st)).
Proof.
  intros HL. induction fuel as [|f IH]; intros k i j ch nlen errno olen oa ok O Hk Hi Hik Hj HO; [lia|].
  kq_unroll. rewrite (wrapu32_small i) by lia.
  destruct (Z.ltb_spec i (Z.of_nat (length src))) as [Hlt|Hge]; cbn [b2z];
    [change (1 =? 0) with false | change (0 =? 0) with true]; cbv iota.
  2:{ eexists; split; [reflexivity|]. kq_simpl. lia. }
  rewrite oob_keep by (apply inb_true; lia).
  match goal with |- context [obind (if ?c then _ else _) _] => destruct c end;
    rewrite ?oob_keep by (apply inb_true; lia);
    rewrite obind_normal; kq_simpl; unwraps32;
    rewrite ?oob_keep by (apply inb_true; rewrite ?wr_length; lia);
    apply (IH (k - 1)%nat); rewrite ?wr_length; lia.
Qed.

Ltac kq_done := rewrite ?obind_return; cbv beta iota; eexists; eexists; split; [reflexivity|]; kq_simpl; reflexivity.

(* after the allocation: the opening quote, the loop, the closing quote *)
Ltac kq_rest a HL :=
  k_show; k_hide; kq_simpl; unwraps32;
  rewrite oob_keep by (apply inb_true; lia);
  rewrite obind_normal; cbv beta;
  match goal with |- context [K_quote_doit.loop1 ?f0 ?fuel {| K_quote_doit.v_ch := ?ch; K_quote_doit.v_i := ?i; K_quote_doit.v_j := ?j;
      K_quote_doit.v_nlen := ?nlen; K_quote_doit.v__oob := _; K_quote_doit.v_sain__len := _; K_quote_doit.v_errno := ?errno;
      K_quote_doit.v_saout__len := ?olen; K_quote_doit.v_saout__a := ?oa; K_quote_doit.v_alloc_ok := ?ok;
      K_quote_doit.a_saout__s := ?O; K_quote_doit.a_sain__s := _ |}] =>
    let st := fresh "st" in let E := fresh "E" in let Hoob := fresh "Hoob" in let Hj := fresh "Hj" in let HlenO := fresh "HlenO" in
    destruct (kq_loop f0 a HL fuel (length a) i j ch nlen errno olen oa ok O) as (st & E & Hoob & Hj & HlenO);
    [lia|lia|lia|lia|rewrite ?wr_length; lia|];
    destruct st; cbn [K_quote_doit.v__oob K_quote_doit.v_j K_quote_doit.a_saout__s] in Hoob, Hj, HlenO; subst;
    rewrite E
  end;
  k_show; kq_simpl;
  rewrite oob_keep by (apply inb_true; lia);
  kq_done.

(* REQUIRED: quote.c doit(): whatever the input and whatever the output stralloc held before (its array has exactly
   saout->a cells), with the allocator succeeding or failing, no byte is written or read outside an array *)
Theorem safe_quote_doit : forall (src : bytes) (out : list Z) (outlen alloc_ok : Z), bytes_ok src -> Z.of_nat (length src) < 2 ^ 30 ->
  Z.of_nat (length out) < 2 ^ 32 -> 0 <= outlen ->
  exists v st, K_quote_doit.run (S (length src)) out outlen (Z.of_nat (length out)) (zs src) (Z.of_nat (length src)) alloc_ok = Some (v, st) /\
               K_quote_doit.v__oob st = 0.
Proof.
  intros src out outlen ok _ HL Hout _.
  change (2 ^ 30) with 1073741824 in HL. rewrite p32 in Hout.
  rewrite <- (zs_length src) in *. remember (zs src) as a eqn:Ea. clear Ea src.
  cbv beta iota zeta delta [K_quote_doit.run K_quote_doit.body K_quote_doit.set_v_ch K_quote_doit.set_v_i K_quote_doit.set_v_j K_quote_doit.set_v_nlen K_quote_doit.set_v__oob
  K_quote_doit.set_v_sain__len K_quote_doit.set_v_errno K_quote_doit.set_v_saout__len K_quote_doit.set_v_saout__a K_quote_doit.set_v_alloc_ok
  K_quote_doit.set_a_saout__s K_quote_doit.set_a_sain__s
  K_quote_doit.v_ch K_quote_doit.v_i K_quote_doit.v_j K_quote_doit.v_nlen K_quote_doit.v__oob K_quote_doit.v_sain__len K_quote_doit.v_errno
  K_quote_doit.v_saout__len K_quote_doit.v_saout__a K_quote_doit.v_alloc_ok K_quote_doit.a_saout__s K_quote_doit.a_sain__s].
  k_hide.
  (* nlen = len * 2 + 2 without overflow *)
  unwrap32. rewrite !Z.eqb_refl. cbn [negb b2z]. change (wraps 32 0) with 0. change (0 =? 0) with true. cbv iota. cbn [fst snd].
  change (0 =? 0) with true. cbv iota.
  k_show; k_hide; kq_simpl.
  (* stralloc_ready(saout, nlen) *)
  assert (Hm : forall n, 0 <= n -> n <= n + Z.shiftr n 3 + 30).
  { intros n Hn. rewrite Z.shiftr_div_pow2 by lia. change (2 ^ 3) with 8. lia. }
  destruct (Z.leb_spec (Z.of_nat (length a) * 2 + 2) (Z.of_nat (length out))) as [Hfit|Hbig];
    destruct (ok =? 0) eqn:Eok; cbn [orb negb b2z]; if_compute.
  - kq_rest a HL.
  - kq_rest a HL.
  - kq_done.
  - match goal with |- context [pad out ?m] =>
      pose proof (pad_length_ge out m) as HO; pose proof (Hm (Z.of_nat (length a) * 2 + 2) ltac:(lia)) as Hm';
      set (O := pad out m) in *; clearbody O end.
    kq_rest a HL.
Qed.

(* byte_chr *)
Ltac bch_simpl := cbv beta iota zeta delta [K_byte_chr.set_v_s K_byte_chr.set_v_n K_byte_chr.set_v_c K_byte_chr.set_v_ch K_byte_chr.set_v_t K_byte_chr.set_v__oob K_byte_chr.set_a_s
  K_byte_chr.v_s K_byte_chr.v_n K_byte_chr.v_c K_byte_chr.v_ch K_byte_chr.v_t K_byte_chr.v__oob K_byte_chr.a_s].
Ltac bch_unroll := cbn [K_byte_chr.loop1 K_byte_chr.set_v_s K_byte_chr.set_v_n K_byte_chr.set_v_c K_byte_chr.set_v_ch K_byte_chr.set_v_t K_byte_chr.set_v__oob K_byte_chr.set_a_s
  K_byte_chr.v_s K_byte_chr.v_n K_byte_chr.v_c K_byte_chr.v_ch K_byte_chr.v_t K_byte_chr.v__oob K_byte_chr.a_s]; bch_simpl.

Ltac bch_step k :=
  destruct k as [|k];
  [ cbn [Z.of_nat]; change (0 =? 0) with true; cbn [b2z]; change (1 =? 0) with false; cbv iota; rewrite ?obind_break; reflexivity | ];
  rewrite of_nat_S_eqb0; cbn [b2z]; change (0 =? 0) with true; cbv iota; rewrite obind_normal; bch_simpl;
  rewrite oob_keep by (apply inb_true; lia);
  match goal with |- context [obind (if ?c then _ else _) _] => destruct c end;
  [ | rewrite ?obind_break; reflexivity ];
  rewrite obind_normal; bch_simpl; rewrite (sub1_nat k) by lia.

Lemma bch_loop f0 (a : list Z) : forall fuel k s0 c ch t, (k < fuel)%nat -> Z.of_nat k < 4294967296 ->
  0 <= t -> t + Z.of_nat k <= Z.of_nat (length a) ->
  ok_out K_byte_chr.v__oob (K_byte_chr.loop1 f0 fuel {| K_byte_chr.v_s := s0; K_byte_chr.v_n := Z.of_nat k; K_byte_chr.v_c := c;
     K_byte_chr.v_ch := ch; K_byte_chr.v_t := t; K_byte_chr.v__oob := 0; K_byte_chr.a_s := a |}).
Proof.
  induction fuel as [|f IH]; intros k s0 c ch t Hk Hk32 Ht Ha; [lia|].
  bch_unroll. change (1 =? 0) with false. cbv iota.
  bch_step k. bch_step k. bch_step k. bch_step k.
  apply IH; lia.
Qed.

(* REQUIRED: the search and compare loops stay inside [0, n) / inside the string *)
Theorem safe_byte_chr : forall (s : bytes) (c : N), bytes_ok s -> (c < 256)%N -> Z.of_nat (length s) < 2 ^ 32 ->
  exists v st, K_byte_chr.run (S (length s)) (zs s) 0 (Z.of_nat (length s)) (Z.of_N c) = Some (v, st) /\ K_byte_chr.v__oob st = 0.
Proof.
  intros s c _ _ Hlen. rewrite p32 in Hlen.
  cbv beta iota zeta delta [K_byte_chr.run K_byte_chr.body K_byte_chr.set_v_s K_byte_chr.set_v_n K_byte_chr.set_v_c K_byte_chr.set_v_ch K_byte_chr.set_v_t K_byte_chr.set_v__oob K_byte_chr.set_a_s
  K_byte_chr.v_s K_byte_chr.v_n K_byte_chr.v_c K_byte_chr.v_ch K_byte_chr.v_t K_byte_chr.v__oob K_byte_chr.a_s].
  pose proof (bch_loop (S (length s)) (zs s) (S (length s)) (length s) 0 (Z.of_N c) (wraps 8 (Z.of_N c)) 0) as H.
  rewrite !zs_length in H. specialize (H ltac:(lia) ltac:(lia) ltac:(lia) ltac:(lia)).
  destruct (K_byte_chr.loop1 _ _ _) as [st|v st|st|st|]; cbn [ok_out] in H; try contradiction; cbn [obind];
    eexists; eexists; split; [reflexivity|exact H|reflexivity|exact H].
Qed.

(* str_chr *)
Ltac sch_simpl := cbv beta iota zeta delta [K_str_chr.set_v_s K_str_chr.set_v_c K_str_chr.set_v_ch K_str_chr.set_v_t K_str_chr.set_v__oob K_str_chr.set_a_s
  K_str_chr.v_s K_str_chr.v_c K_str_chr.v_ch K_str_chr.v_t K_str_chr.v__oob K_str_chr.a_s].
Ltac sch_unroll := cbn [K_str_chr.loop1 K_str_chr.set_v_s K_str_chr.set_v_c K_str_chr.set_v_ch K_str_chr.set_v_t K_str_chr.set_v__oob K_str_chr.set_a_s
  K_str_chr.v_s K_str_chr.v_c K_str_chr.v_ch K_str_chr.v_t K_str_chr.v__oob K_str_chr.a_s]; sch_simpl.

(* one copy of the four-times unrolled body: at the NUL the loop breaks; elsewhere either test may break *)
Ltac sch_step k a e He :=
  rewrite oob_keep by (apply inb_true; lia);
  destruct k as [|k];
  [ match goal with |- context [rd a ?t] => replace (rd a t) with 0 by (rewrite <- He; f_equal; lia) end;
    change (wraps 8 0 =? 0) with true; cbn [b2z]; change (1 =? 0) with false; cbv iota; rewrite ?obind_break; reflexivity | ];
  match goal with |- context [obind (if ?c then _ else _) _] => destruct c end;
  [ | rewrite ?obind_break; reflexivity ];
  rewrite obind_normal; sch_simpl; rewrite oob_keep by (apply inb_true; lia);
  match goal with |- context [obind (if ?c then _ else _) _] => destruct c end;
  [ | rewrite ?obind_break; reflexivity ];
  rewrite obind_normal; sch_simpl.

Lemma sch_loop f0 (a : list Z) (e : Z) : rd a e = 0 -> e < Z.of_nat (length a) ->
  forall fuel k s0 c ch t, (k < fuel)%nat -> 0 <= t -> t + Z.of_nat k = e ->
  ok_out K_str_chr.v__oob (K_str_chr.loop1 f0 fuel {| K_str_chr.v_s := s0; K_str_chr.v_c := c; K_str_chr.v_ch := ch; K_str_chr.v_t := t;
     K_str_chr.v__oob := 0; K_str_chr.a_s := a |}).
Proof.
  intros He Hlen. induction fuel as [|f IH]; intros k s0 c ch t Hk Ht Hte; [lia|].
  sch_unroll. change (1 =? 0) with false. cbv iota.
  sch_step k a e He. sch_step k a e He. sch_step k a e He. sch_step k a e He.
  apply (IH k); lia.
Qed.

Theorem safe_str_chr : forall (s : bytes) (c : N), bytes_ok s -> ~ In 0%N s -> (c < 256)%N -> Z.of_nat (length s) < 2 ^ 31 ->
  exists v st, K_str_chr.run (S (length s)) (zs s ++ [0]) 0 (Z.of_N c) = Some (v, st) /\ K_str_chr.v__oob st = 0.
Proof.
  intros s c _ _ _ Hlen.
  cbv beta iota zeta delta [K_str_chr.run K_str_chr.body K_str_chr.set_v_s K_str_chr.set_v_c K_str_chr.set_v_ch K_str_chr.set_v_t K_str_chr.set_v__oob K_str_chr.set_a_s
  K_str_chr.v_s K_str_chr.v_c K_str_chr.v_ch K_str_chr.v_t K_str_chr.v__oob K_str_chr.a_s].
  pose proof (sch_loop (S (length s)) (zs s ++ [0]) (Z.of_nat (length s)) (rd_zs0_end s) ltac:(rewrite zs0_length; lia)
     (S (length s)) (length s) 0 (Z.of_N c) (wraps 8 (Z.of_N c)) 0 ltac:(lia) ltac:(lia) ltac:(lia)) as H.
  destruct (K_str_chr.loop1 _ _ _) as [st|v st|st|st|]; cbn [ok_out] in H; try contradiction; cbn [obind];
    eexists; eexists; split; [reflexivity|exact H|reflexivity|exact H].
Qed.

(* case_diffb *)
Ltac cdb_simpl := cbv beta iota zeta delta [K_case_diffb.set_v_s K_case_diffb.set_v_len K_case_diffb.set_v_t K_case_diffb.set_v_x K_case_diffb.set_v_y
  K_case_diffb.set_v__oob K_case_diffb.set_a_s K_case_diffb.set_a_t
  K_case_diffb.v_s K_case_diffb.v_len K_case_diffb.v_t K_case_diffb.v_x K_case_diffb.v_y K_case_diffb.v__oob K_case_diffb.a_s K_case_diffb.a_t].
Ltac cdb_unroll := cbn [K_case_diffb.loop1 K_case_diffb.set_v_s K_case_diffb.set_v_len K_case_diffb.set_v_t K_case_diffb.set_v_x K_case_diffb.set_v_y
  K_case_diffb.set_v__oob K_case_diffb.set_a_s K_case_diffb.set_a_t
  K_case_diffb.v_s K_case_diffb.v_len K_case_diffb.v_t K_case_diffb.v_x K_case_diffb.v_y K_case_diffb.v__oob K_case_diffb.a_s K_case_diffb.a_t]; cdb_simpl.

Lemma cdb_loop f0 (a b : list Z) : forall fuel k p q x y, (k < fuel)%nat -> Z.of_nat k < 4294967296 ->
  0 <= p -> p + Z.of_nat k <= Z.of_nat (length a) -> 0 <= q -> q + Z.of_nat k <= Z.of_nat (length b) ->
  ok_out K_case_diffb.v__oob (K_case_diffb.loop1 f0 fuel {| K_case_diffb.v_s := p; K_case_diffb.v_len := Z.of_nat k; K_case_diffb.v_t := q;
     K_case_diffb.v_x := x; K_case_diffb.v_y := y; K_case_diffb.v__oob := 0; K_case_diffb.a_s := a; K_case_diffb.a_t := b |}).
Proof.
  induction fuel as [|f IH]; intros k p q x y Hk Hk32 Hp Ha Hq Hb; [lia|].
  cdb_unroll. change (wrapu 32 0) with 0. destruct k as [|k].
  - cbn [Z.of_nat]. change (0 >? 0) with false. cbn [b2z]. change (0 =? 0) with true. cbv iota. reflexivity.
  - rewrite of_nat_S_gtb0. cbn [b2z]. change (1 =? 0) with false. cbv iota.
    rewrite oob_keep by (apply inb_true; lia). rewrite (sub1_nat k) by lia.
    match goal with |- context [obind (if ?c then _ else _) _] => destruct c end;
      rewrite obind_normal; cdb_simpl; rewrite oob_keep by (apply inb_true; lia);
      (match goal with |- context [obind (if ?c then _ else _) _] => destruct c end;
       rewrite obind_normal; cdb_simpl;
       (match goal with |- context [if ?c then _ else _] => destruct c end;
        [apply IH; lia | reflexivity])).
Qed.

Theorem safe_case_diffb : forall a b : bytes, bytes_ok a -> bytes_ok b -> length a = length b -> Z.of_nat (length a) < 2 ^ 32 ->
  exists v st, K_case_diffb.run (S (length a)) (zs a) 0 (Z.of_nat (length a)) (zs b) 0 = Some (v, st) /\ K_case_diffb.v__oob st = 0.
Proof.
  intros a b _ _ Hl Hlen. rewrite p32 in Hlen.
  cbv beta iota zeta delta [K_case_diffb.run K_case_diffb.body].
  pose proof (cdb_loop (S (length a)) (zs a) (zs b) (S (length a)) (length a) 0 0 0 0) as H.
  rewrite !zs_length in H. specialize (H ltac:(lia) ltac:(lia) ltac:(lia) ltac:(lia) ltac:(lia) ltac:(lia)).
  destruct (K_case_diffb.loop1 _ _ _) as [s|v s|s|s|]; cbn [ok_out] in H; try contradiction; cbn [obind];
    eexists; eexists; split; [reflexivity|exact H|reflexivity|exact H].
Qed.

(* cm_hash *)
Ltac cmh_simpl := cbv beta iota zeta delta [K_cm_hash.set_v_s K_cm_hash.set_v_len K_cm_hash.set_v_ch K_cm_hash.set_v_h K_cm_hash.set_v__oob K_cm_hash.set_a_s
  K_cm_hash.v_s K_cm_hash.v_len K_cm_hash.v_ch K_cm_hash.v_h K_cm_hash.v__oob K_cm_hash.a_s].
Ltac cmh_unroll := cbn [K_cm_hash.loop1 K_cm_hash.set_v_s K_cm_hash.set_v_len K_cm_hash.set_v_ch K_cm_hash.set_v_h K_cm_hash.set_v__oob K_cm_hash.set_a_s
  K_cm_hash.v_s K_cm_hash.v_len K_cm_hash.v_ch K_cm_hash.v_h K_cm_hash.v__oob K_cm_hash.a_s]; cmh_simpl.

Lemma cmh_loop f0 (a : list Z) : forall fuel k p ch h, (k < fuel)%nat -> Z.of_nat k < 2147483648 ->
  0 <= p -> p + Z.of_nat k <= Z.of_nat (length a) ->
  exists st, K_cm_hash.loop1 f0 fuel {| K_cm_hash.v_s := p; K_cm_hash.v_len := Z.of_nat k; K_cm_hash.v_ch := ch; K_cm_hash.v_h := h;
      K_cm_hash.v__oob := 0; K_cm_hash.a_s := a |} = ONormal st /\ K_cm_hash.v__oob st = 0.
Proof.
  induction fuel as [|f IH]; intros k p ch h Hk Hk31 Hp Ha; [lia|].
  cmh_unroll. destruct k as [|k].
  - cbn [Z.of_nat]. change (0 >? 0) with false. cbn [b2z]. change (0 =? 0) with true. cbv iota.
    eexists; split; reflexivity.
  - rewrite of_nat_S_gtb0. cbn [b2z]. change (1 =? 0) with false. cbv iota.
    rewrite oob_keep by (apply inb_true; lia).
    match goal with |- context [obind (if ?c then _ else _) _] => destruct c end;
      rewrite obind_normal; cmh_simpl; rewrite (sub1s_nat k) by lia; apply IH; lia.
Qed.

Theorem safe_cm_hash : forall s : bytes, bytes_ok s -> Z.of_nat (length s) < 2 ^ 31 ->
  exists v st, K_cm_hash.run (S (length s)) (zs s) 0 (Z.of_nat (length s)) = Some (v, st) /\ K_cm_hash.v__oob st = 0.
Proof.
  intros s _ Hlen. rewrite p31 in Hlen.
  cbv beta iota zeta delta [K_cm_hash.run K_cm_hash.body K_cm_hash.set_v_s K_cm_hash.set_v_len K_cm_hash.set_v_ch K_cm_hash.set_v_h K_cm_hash.set_v__oob K_cm_hash.set_a_s
  K_cm_hash.v_s K_cm_hash.v_len K_cm_hash.v_ch K_cm_hash.v_h K_cm_hash.v__oob K_cm_hash.a_s].
  destruct (cmh_loop (S (length s)) (zs s) (S (length s)) (length s) 0 0 (wrapu 64 5381)) as (st & E & Ho); try lia.
  { rewrite zs_length. lia. }
  rewrite E, obind_normal. eexists; eexists; split; [reflexivity|exact Ho].
Qed.

(* cdb_unpack: straight-line code on a four-cell array *)
Theorem safe_cdb_unpack : forall b0 b1 b2 b3 : Z,
  exists v st, K_cdb_unpack.run 1 [b0; b1; b2; b3] 0 = Some (v, st) /\ K_cdb_unpack.v__oob st = 0.
Proof.
  intros.
  cbv beta iota zeta delta [K_cdb_unpack.run K_cdb_unpack.body K_cdb_unpack.set_v_buf K_cdb_unpack.set_v_num K_cdb_unpack.set_v__oob K_cdb_unpack.set_a_buf
     K_cdb_unpack.v_buf K_cdb_unpack.v_num K_cdb_unpack.v__oob K_cdb_unpack.a_buf].
  eexists; eexists; split; [reflexivity|]. reflexivity.
Qed.

(* fmt_ulong *)
Ltac kfu_simpl := cbv beta iota zeta delta [K_fmt_ulong.set_v_s K_fmt_ulong.set_v_u K_fmt_ulong.set_v_len K_fmt_ulong.set_v_q K_fmt_ulong.set_v__oob K_fmt_ulong.set_a_s
  K_fmt_ulong.v_s K_fmt_ulong.v_u K_fmt_ulong.v_len K_fmt_ulong.v_q K_fmt_ulong.v__oob K_fmt_ulong.a_s].
Ltac kfu_unroll1 := cbn [K_fmt_ulong.loop1 K_fmt_ulong.set_v_s K_fmt_ulong.set_v_u K_fmt_ulong.set_v_len K_fmt_ulong.set_v_q K_fmt_ulong.set_v__oob K_fmt_ulong.set_a_s
  K_fmt_ulong.v_s K_fmt_ulong.v_u K_fmt_ulong.v_len K_fmt_ulong.v_q K_fmt_ulong.v__oob K_fmt_ulong.a_s]; kfu_simpl.
Ltac kfu_unroll2 := cbn [K_fmt_ulong.loop2 K_fmt_ulong.set_v_s K_fmt_ulong.set_v_u K_fmt_ulong.set_v_len K_fmt_ulong.set_v_q K_fmt_ulong.set_v__oob K_fmt_ulong.set_a_s
  K_fmt_ulong.v_s K_fmt_ulong.v_u K_fmt_ulong.v_len K_fmt_ulong.v_q K_fmt_ulong.v__oob K_fmt_ulong.a_s]; kfu_simpl.

(* first loop: the length, as in Gen_numbers.fu_loop1 *)
Lemma kfu_loop1 (f0 : nat) (s0 u0 : Z) (a : list Z) :
  forall (fm : nat) (u : N) (l : Z) (fuel : nat), (S fm <= fuel)%nat -> (u < Gen_numbers.p10 (S fm))%N ->
  (u < 18446744073709551616)%N -> 0 <= l -> l + Z.of_nat (S fm) < 4294967296 ->
  exists q' l',
    K_fmt_ulong.loop1 f0 fuel {| K_fmt_ulong.v_s := s0; K_fmt_ulong.v_u := u0; K_fmt_ulong.v_len := l;
                                 K_fmt_ulong.v_q := Z.of_N u; K_fmt_ulong.v__oob := 0; K_fmt_ulong.a_s := a |}
    = ONormal {| K_fmt_ulong.v_s := s0; K_fmt_ulong.v_u := u0; K_fmt_ulong.v_len := l';
                 K_fmt_ulong.v_q := q'; K_fmt_ulong.v__oob := 0; K_fmt_ulong.a_s := a |}
    /\ l' = l + Z.of_nat (length (fmt_aux (S fm) u [])) - 1.
Proof.
  induction fm as [|fm IH]; intros u l fuel Hfuel Hu Hu64 Hl Hl32;
    (destruct fuel as [|f]; [lia|]); kfu_unroll1;
    change (wrapu 64 9) with 9; change (wrapu 64 10) with 10; rewrite b2z_if, Z.gtb_ltb, Gen_numbers.fmt_S;
    (destruct (N.eqb_spec (u / 10) 0) as [E|E];
     [ destruct (Z.ltb_spec 9 (Z.of_N u)) as [H9|H9]; [lia|];
       eexists; eexists; split; [reflexivity|cbn [length]; lia] | ]).
  - rewrite Gen_numbers.p10_1 in Hu. lia.
  - destruct (Z.ltb_spec 9 (Z.of_N u)) as [H9|H9]; [|lia].
    rewrite Gen_numbers.fu_quot by exact Hu64. rewrite (wrapu32_small (l + 1)) by lia.
    rewrite Gen_numbers.p10_S in Hu.
    destruct (IH (u / 10)%N (l + 1) f ltac:(lia) ltac:(lia) ltac:(lia) ltac:(lia) ltac:(lia)) as (q' & l' & Hl1 & Hl').
    exists q', l'. split; [exact Hl1|]. rewrite app_length. cbn [length]. lia.
Qed.

(* second loop: one digit per round, written at s - 1, s - 2, ...; it makes as many rounds as the first loop counted *)
Lemma kfu_loop2 (f0 : nat) (l q : Z) :
  forall (fm : nat) (u : N) (sp : Z) (A : list Z) (fuel : nat), (S fm <= fuel)%nat -> (u < Gen_numbers.p10 (S fm))%N ->
  (u < 18446744073709551616)%N -> Z.of_nat (length (fmt_aux (S fm) u [])) <= sp <= Z.of_nat (length A) ->
  exists st, K_fmt_ulong.loop2 f0 fuel {| K_fmt_ulong.v_s := sp; K_fmt_ulong.v_u := Z.of_N u; K_fmt_ulong.v_len := l;
                               K_fmt_ulong.v_q := q; K_fmt_ulong.v__oob := 0; K_fmt_ulong.a_s := A |}
  = ONormal st /\ K_fmt_ulong.v__oob st = 0.
Proof.
  induction fm as [|fm IH]; intros u sp A fuel Hfuel Hu Hu64 Hsp;
    (destruct fuel as [|f]; [lia|]);
    match type of Hsp with (Z.of_nat (length (fmt_aux (S ?m) _ _)) <= _ <= _) => pose proof (Gen_numbers.fmt_len_pos m u) as Hpos end;
    kfu_unroll2; rewrite oob_keep by (apply inb_true; lia);
    change (wrapu 64 10) with 10; rewrite Gen_numbers.fu_quot by exact Hu64;
    rewrite Gen_numbers.fmt_S in Hsp;
    (destruct (N.eqb_spec (u / 10) 0) as [E|E];
     [ rewrite E; change (Z.of_N 0 =? 0) with true; cbv iota; eexists; split; reflexivity | ]).
  - rewrite Gen_numbers.p10_1 in Hu. lia.
  - destruct (Z.eqb_spec (Z.of_N (u / 10)) 0) as [E0|_]; [lia|].
    rewrite Gen_numbers.p10_S in Hu. rewrite app_length in Hsp. cbn [length] in Hsp.
    apply IH; rewrite ?wr_length; lia.
Qed.

(* REQUIRED: the writers: a buffer of FMT_ULONG = 40 bytes is enough for fmt_ulong of any unsigned long (20 digits);
   fmt_str needs exactly the length of the string; byte_copy touches exactly n cells of each array *)
Theorem safe_fmt_ulong : forall (u : N) (buf : list Z), (u < 18446744073709551616)%N -> (20 <= length buf)%nat ->
  exists v st, K_fmt_ulong.run 21 buf 0 (Z.of_N u) = Some (v, st) /\ K_fmt_ulong.v__oob st = 0.
Proof.
  intros u buf Hu Hbuf.
  cbv beta iota zeta delta [K_fmt_ulong.run K_fmt_ulong.body K_fmt_ulong.set_v_s K_fmt_ulong.set_v_u K_fmt_ulong.set_v_len K_fmt_ulong.set_v_q K_fmt_ulong.set_v__oob K_fmt_ulong.set_a_s
  K_fmt_ulong.v_s K_fmt_ulong.v_u K_fmt_ulong.v_len K_fmt_ulong.v_q K_fmt_ulong.v__oob K_fmt_ulong.a_s].
  change (wrapu 32 1) with 1.
  destruct (kfu_loop1 21 0 (Z.of_N u) buf 19 u 1 21 ltac:(lia) (Gen_numbers.u64_p10 u Hu) Hu ltac:(lia) ltac:(lia))
    as (q' & l' & Hl1 & Hl').
  rewrite Hl1, obind_normal. kfu_simpl. change (0 =? -1) with false. cbn [negb b2z]. change (1 =? 0) with false. cbv iota.
  pose proof (Gen_numbers.fmt_len_le 20 u) as Hle.
  destruct (kfu_loop2 21 l' q' 19 u (0 + l') buf 21 ltac:(lia) (Gen_numbers.u64_p10 u Hu) Hu ltac:(lia)) as (st & E & Ho).
  rewrite E, obind_normal. eexists; eexists; split; [reflexivity|exact Ho].
Qed.

(* fmt_str *)
Ltac fst_simpl := cbv beta iota zeta delta [K_fmt_str.set_v_s K_fmt_str.set_v_t K_fmt_str.set_v_len K_fmt_str.set_v_ch K_fmt_str.set_v__oob K_fmt_str.set_a_s K_fmt_str.set_a_t
  K_fmt_str.v_s K_fmt_str.v_t K_fmt_str.v_len K_fmt_str.v_ch K_fmt_str.v__oob K_fmt_str.a_s K_fmt_str.a_t].
Ltac fst_unroll2 := cbn [K_fmt_str.loop2 K_fmt_str.set_v_s K_fmt_str.set_v_t K_fmt_str.set_v_len K_fmt_str.set_v_ch K_fmt_str.set_v__oob K_fmt_str.set_a_s K_fmt_str.set_a_t
  K_fmt_str.v_s K_fmt_str.v_t K_fmt_str.v_len K_fmt_str.v_ch K_fmt_str.v__oob K_fmt_str.a_s K_fmt_str.a_t]; fst_simpl.

Lemma fst_loop2 f0 (at_ : list Z) (e : Z) : rd at_ e = 0 -> e < Z.of_nat (length at_) -> e < 4294967296 ->
  forall fuel k l ch as_, (k < fuel)%nat -> 0 <= l -> l + Z.of_nat k = e -> e <= Z.of_nat (length as_) ->
  ok_out K_fmt_str.v__oob (K_fmt_str.loop2 f0 fuel {| K_fmt_str.v_s := 0; K_fmt_str.v_t := 0; K_fmt_str.v_len := l; K_fmt_str.v_ch := ch;
     K_fmt_str.v__oob := 0; K_fmt_str.a_s := as_; K_fmt_str.a_t := at_ |}).
Proof.
  intros He Hlen He32. induction fuel as [|f IH]; intros k l ch as_ Hk Hl Hle Has; [lia|].
  fst_unroll2. rewrite oob_keep by (apply inb_true; lia).
  destruct k as [|k].
  - match goal with |- context [rd at_ ?t] => replace (rd at_ t) with 0 by (rewrite <- He; f_equal; lia) end.
    change (wraps 8 0 =? 0) with true. cbv iota. reflexivity.
  - match goal with |- context [if ?c then _ else _] => destruct c end; [reflexivity|].
    rewrite oob_keep by (apply inb_true; lia).
    rewrite (wrapu32_small (l + 1)) by lia.
    apply (IH k); rewrite ?wr_length; lia.
Qed.

Theorem safe_fmt_str : forall (t : bytes) (buf : list Z), bytes_ok t -> ~ In 0%N t -> (length t <= length buf)%nat -> Z.of_nat (length t) < 2 ^ 32 ->
  exists v st, K_fmt_str.run (S (length t)) buf 0 (zs t ++ [0]) 0 = Some (v, st) /\ K_fmt_str.v__oob st = 0.
Proof.
  intros t buf _ _ Hbuf Hlen. rewrite p32 in Hlen.
  cbv beta iota zeta delta [K_fmt_str.run K_fmt_str.body K_fmt_str.set_v_s K_fmt_str.set_v_t K_fmt_str.set_v_len K_fmt_str.set_v_ch K_fmt_str.set_v__oob K_fmt_str.set_a_s K_fmt_str.set_a_t
  K_fmt_str.v_s K_fmt_str.v_t K_fmt_str.v_len K_fmt_str.v_ch K_fmt_str.v__oob K_fmt_str.a_s K_fmt_str.a_t].
  change (0 =? -1) with false. cbn [negb b2z]. change (1 =? 0) with false. cbv iota. change (wrapu 32 0) with 0.
  pose proof (fst_loop2 (S (length t)) (zs t ++ [0]) (Z.of_nat (length t)) (rd_zs0_end t) ltac:(rewrite zs0_length; lia) Hlen
     (S (length t)) (length t) 0 0 buf ltac:(lia) ltac:(lia) ltac:(lia) ltac:(lia)) as H.
  destruct (K_fmt_str.loop2 _ _ _) as [st|v st|st|st|]; cbn [ok_out] in H; try contradiction; cbn [obind];
    eexists; eexists; split; [reflexivity|exact H|reflexivity|exact H].
Qed.

(* byte_copy *)
Ltac bcp_simpl := cbv beta iota zeta delta [K_byte_copy.set_v_to K_byte_copy.set_v_n K_byte_copy.set_v_from K_byte_copy.set_v__oob K_byte_copy.set_a_to K_byte_copy.set_a_from
   K_byte_copy.v_to K_byte_copy.v_n K_byte_copy.v_from K_byte_copy.v__oob K_byte_copy.a_to K_byte_copy.a_from].
Ltac bcp_unroll := cbn [K_byte_copy.loop1 K_byte_copy.set_v_to K_byte_copy.set_v_n K_byte_copy.set_v_from K_byte_copy.set_v__oob K_byte_copy.set_a_to K_byte_copy.set_a_from
   K_byte_copy.v_to K_byte_copy.v_n K_byte_copy.v_from K_byte_copy.v__oob K_byte_copy.a_to K_byte_copy.a_from]; bcp_simpl.

Ltac bcp_step k :=
  destruct k as [|k];
  [ cbn [Z.of_nat]; change (0 =? 0) with true; cbn [b2z]; change (1 =? 0) with false; cbv iota; rewrite ?obind_return;
    eexists; eexists; split; [reflexivity|reflexivity] | ];
  rewrite of_nat_S_eqb0; cbn [b2z]; change (0 =? 0) with true; cbv iota; rewrite obind_normal; bcp_simpl;
  rewrite !oob_keep by (apply inb_true; rewrite ?wr_length; lia);
  rewrite (sub1_nat k) by lia.

Lemma bcp_loop f0 : forall fuel k p q A B, (k < fuel)%nat -> Z.of_nat k < 4294967296 ->
  0 <= p -> p + Z.of_nat k <= Z.of_nat (length A) -> 0 <= q -> q + Z.of_nat k <= Z.of_nat (length B) ->
  exists v st, K_byte_copy.loop1 f0 fuel {| K_byte_copy.v_to := p; K_byte_copy.v_n := Z.of_nat k; K_byte_copy.v_from := q;
       K_byte_copy.v__oob := 0; K_byte_copy.a_to := A; K_byte_copy.a_from := B |} = OReturn v st /\ K_byte_copy.v__oob st = 0.
Proof.
  induction fuel as [|f IH]; intros k p q A B Hk Hk32 Hp HA Hq HB; [lia|].
  bcp_unroll. change (1 =? 0) with false. cbv iota.
  bcp_step k. bcp_step k. bcp_step k. bcp_step k.
  apply IH; rewrite ?wr_length; lia.
Qed.

Theorem safe_byte_copy : forall (dst src : list Z) (n : nat), (n <= length dst)%nat -> (n <= length src)%nat -> Z.of_nat n < 2 ^ 32 ->
  exists v st, K_byte_copy.run (S n) dst 0 (Z.of_nat n) src 0 = Some (v, st) /\ K_byte_copy.v__oob st = 0.
Proof.
  intros dst src n Hd Hs Hn. rewrite p32 in Hn.
  cbv beta iota zeta delta [K_byte_copy.run K_byte_copy.body].
  destruct (bcp_loop (S n) (S n) n 0 0 dst src) as (v & st & E & Ho); try lia.
  rewrite E. exists v, st. split; [reflexivity|exact Ho].
Qed.

