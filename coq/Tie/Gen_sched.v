(* qmail-send.c nextretry() as generated from today's source = the model's nextretry (Send/Sched.v), through the
   generated squareroot() it calls; recent and chanskip[] are the file-scope variables of qmail-send.c *)
From Coq Require Import ZArith NArith List Lia.
From NQ Require Import Base.MiniC Send.Sched gen.CGen Tie.GenCommon Tie.GenAux Tie.Gen_numbers.
Import ListNotations.
Local Open Scope Z_scope.

Lemma p63 : 2 ^ (64 - 1) = 9223372036854775808. Proof. reflexivity. Qed.
Lemma p64 : 2 ^ 64 = 18446744073709551616. Proof. reflexivity. Qed.
Lemma p31 : 2 ^ (32 - 1) = 2147483648. Proof. reflexivity. Qed.
Lemma p32 : 2 ^ 32 = 4294967296. Proof. reflexivity. Qed.
Lemma p40 : 2 ^ 40 = 1099511627776. Proof. reflexivity. Qed.
Lemma wraps64_small v : - 9223372036854775808 <= v < 9223372036854775808 -> wraps 64 v = v.
Proof. intro H. unfold wraps. rewrite p63, p64. rewrite Z.mod_small by lia. lia. Qed.
Lemma wraps32_small v : - 2147483648 <= v < 2147483648 -> wraps 32 v = v.
Proof. intro H. unfold wraps. rewrite p31, p32. rewrite Z.mod_small by lia. lia. Qed.

(* the model's squareroot is below 2^16 on 32-bit arguments (from the exactness theorem's shape: result^2 <= x) *)
Lemma sq_loop_bound : forall j x y yy, 0 <= y -> y + 2 ^ Z.of_nat j <= 65536 -> 0 <= sq_loop j x y yy <= 65536.
Proof.
  induction j as [|j IH]; intros x y yy Hy Hb; cbn [sq_loop].
  - change (2 ^ Z.of_nat 0) with 1 in Hb. lia.
  - rewrite Nat2Z.inj_succ, Z.pow_succ_r in Hb by lia.
    destruct (y * 2 ^ (Z.of_nat j + 1) + 2 ^ (Z.of_nat j + Z.of_nat j) <=? x - yy).
    + apply IH; [pose proof (Z.pow_pos_nonneg 2 (Z.of_nat j)); lia | lia].
    + apply IH; [lia | pose proof (Z.pow_pos_nonneg 2 (Z.of_nat j)); lia].
Qed.
Lemma squareroot_bound x : 0 <= squareroot x <= 65536.
Proof. unfold squareroot. apply sq_loop_bound; [lia | reflexivity]. Qed.

Theorem gen_nextretry_eq : forall birth recent c : Z, 0 <= birth < 2 ^ 40 -> 0 <= recent < 2 ^ 40 -> recent - birth < 2 ^ 32 ->
  c = 0 \/ c = 1 ->
  retval (C_nextretry.run 17 birth c recent [10; 20]) = Some (Sched.nextretry birth recent (Z.to_nat c)).
Proof.
  intros birth recent c Hb Hr Hd Hc. rewrite p40 in Hb, Hr. rewrite p32 in Hd.
  unfold retval, C_nextretry.run, C_nextretry.body, Sched.nextretry.
  cbv [C_nextretry.set_v_n C_nextretry.v_birth C_nextretry.v_c C_nextretry.v_n C_nextretry.v_recent C_nextretry.a_chanskip].
  assert (Hcs : wraps 64 (wraps 32 (rd [10; 20] (0 + c))) = Sched.chanskip (Z.to_nat c)).
  { destruct Hc as [-> | ->]; reflexivity. }
  assert (Hcb : 10 <= Sched.chanskip (Z.to_nat c) <= 20) by (destruct Hc as [-> | ->]; vm_compute; split; discriminate).
  destruct (birth >? recent) eqn:E.
  - (* birth > recent: n = 0 *)
    assert (E' : (recent <? birth) = true) by (apply Z.ltb_lt; apply Z.gtb_lt in E; lia). rewrite E'.
    cbn [b2z Z.eqb obind]. cbv [C_nextretry.set_v_n C_nextretry.v_birth C_nextretry.v_c C_nextretry.v_n C_nextretry.v_recent C_nextretry.a_chanskip].
    rewrite Hcs. change (wraps 64 0) with 0. rewrite (wraps64_small (0 + _)) by lia. rewrite (wraps64_small (0 + _)) by lia.
    cbn [option_map fst]. rewrite (wraps64_small (_ * _)) by nia. rewrite wraps64_small by nia. reflexivity.
  - assert (Hle : birth <= recent) by (destruct (Z.gtb_spec birth recent); [discriminate | lia]).
    assert (E' : (recent <? birth) = false) by (apply Z.ltb_ge; lia). rewrite E'.
    cbn [b2z Z.eqb obind].
    rewrite (wraps64_small (recent - birth)) by lia.
    assert (Hx : 0 <= recent - birth < 2 ^ 32) by (rewrite p32; lia).
    pose proof (gen_squareroot_eq (recent - birth) Hx) as Hs. unfold retval in Hs.
    destruct (C_squareroot.run 17 (recent - birth)) as [[v st]|]; [|discriminate]. cbn [option_map fst] in Hs. injection Hs as ->.
    cbv [C_nextretry.set_v_n C_nextretry.v_birth C_nextretry.v_c C_nextretry.v_n C_nextretry.v_recent C_nextretry.a_chanskip obind].
    rewrite Hcs. pose proof (squareroot_bound (recent - birth)) as Hq.
    set (q := squareroot (recent - birth)) in *. set (k := chanskip (Z.to_nat c)) in *.
    rewrite (wraps64_small q) by lia. rewrite !(wraps64_small (q + k)) by lia.
    cbn [option_map fst]. rewrite (wraps64_small ((q + k) * (q + k))) by nia. rewrite wraps64_small by nia. reflexivity.
Qed.
