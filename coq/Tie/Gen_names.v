(* safeput() of received.c (C07: what a peer-controlled string contributes to the Received field) and fmtqfn() of fmtqfn.c
   (C18/C02: the queue file names), as generated from today's sources by tools/c2gallina.py (gen/CGen.v: C_safeput, C_fmtqfn and
   the variants K_safeput, K_fmtqfn in which every array access records in v__oob whether it was inside its array)
   = the models Smtp.Smtpd.safe and Queue.Clean.fmtqfn.
   The stream parameter qqt is the list a_qqt__out (what was written so far).  auto_split is the file-scope int g_auto_split_.
   REQUIRED statements must be proved exactly as stated. *)
From Coq Require Import ZArith NArith List Lia Bool.
From NQ Require Import Base.MiniC Base.Bytes Base.CInt Smtp.Smtpd Queue.Clean gen.CGen Tie.GenCommon Tie.GenAux Tie.Gen_small Tie.Gen_numbers Tie.Gen_strings.
Import ListNotations.
Local Open Scope Z_scope.

From NQ Require Import Tie.Gen_safety.

(* Proof conventions (as in Tie/Gen_codec.v): nothing below mentions a name invented by the translator; only the field names
   of the generated records and the generated constants run/body/loop1 are used.
   safeput: one loop lemma by induction on the rest of the string, the call of issafe is replaced through gen_issafe_eq.
   fmtqfn: the body is a chain of let-bound calls (fmt_str, fmt_ulong) whose results are copied back by matches on the
   result; reducing the chain before the results are known multiplies the term at every copy-back.  So the chain is run
   one let at a time (st_let_zeta / fq_let_red: the goal is kept in the form  post (let x := v in rest)  or
   post (obind (let x := v in rest) k), only the bound value is reduced, the call is rewritten to its result by the lemma of the
   callee (fs_at', fu_at', fs_null, fu_null; kfs_at, kfu_at for the checked variants), then the let is substituted);
   the continuations of obind are kept as local definitions meanwhile (hide_all / show_next). *)

(* ================================================================ safeput ================================================================ *)
Ltac sp_simpl := cbv [C_safeput.set_v_s C_safeput.set_v_ch C_safeput.set_a_s C_safeput.set_a_qqt__out
                      C_safeput.v_s C_safeput.v_ch C_safeput.a_s C_safeput.a_qqt__out].

Lemma wraps8_range v : -128 <= wraps 8 v < 128.
Proof. rewrite wraps8. pose proof (Z.mod_pos_bound (v + 128) 256). lia. Qed.
Lemma wraps32_8 v : wraps 32 (wraps 8 v) = wraps 8 v.
Proof. pose proof (wraps8_range v). apply GenAux.wraps32_small. lia. Qed.

(* the value of the call issafe(ch), ch the signed char read from the string; the generated issafe does not use its fuel *)
Lemma issafe_val (f0 : nat) (x : N) : (x < 256)%N ->
  match C_issafe.run f0 (wraps 32 (wraps 8 (Z.of_N x))) with Some (v, _) => v | None => 0 end = b2z (Smtpd.issafe x).
Proof.
  intros Hx. rewrite wraps32_8. pose proof (gen_issafe_eq x Hx) as H.
  change (C_issafe.run f0 (wraps 8 (Z.of_N x))) with (C_issafe.run 1 (wraps 8 (Z.of_N x))).
  destruct (C_issafe.run 1 (wraps 8 (Z.of_N x))) as [[v t]|]; cbn [retval option_map fst] in H; [|discriminate].
  injection H as ->. reflexivity.
Qed.

Lemma sp_loop (f0 : nat) :
  forall (rest pre : bytes) (out : list Z) (ch : Z) (fuel : nat), (length rest < fuel)%nat -> bytes_ok (pre ++ rest) -> ~ In 0%N rest ->
  C_safeput.loop1 f0 fuel {| C_safeput.v_s := Z.of_nat (length pre); C_safeput.v_ch := ch;
                             C_safeput.a_s := zs (pre ++ rest) ++ [0]; C_safeput.a_qqt__out := out |}
  = ONormal {| C_safeput.v_s := Z.of_nat (length (pre ++ rest)) + 1; C_safeput.v_ch := 0;
               C_safeput.a_s := zs (pre ++ rest) ++ [0]; C_safeput.a_qqt__out := out ++ zs (Smtpd.safe rest) |}.
Proof.
  induction rest as [|x rest IH]; intros pre out ch fuel Hfuel Hok Hnz;
    (destruct fuel as [|f]; [cbn [length] in Hfuel; lia|]);
    cbn [C_safeput.loop1]; sp_simpl.
  - rewrite app_nil_r, rd_zs_end. cbn [hd]. change (wraps 8 0 =? 0) with true. cbv iota.
    cbn [Smtpd.safe map zs]. rewrite app_nil_r. reflexivity.
  - rewrite rd_zs_mid.
    assert (Hx : (x < 256)%N) by (apply (bytes_ok_mid _ _ _ Hok)).
    assert (Hx0 : x <> 0%N) by (intros ->; apply Hnz; now left).
    rewrite wraps8_nz by lia. cbv iota.
    rewrite (issafe_val f0 x Hx).
    change (Z.to_nat 1) with 1%nat.
    unfold Smtpd.safe. cbn [map]. fold (Smtpd.safe rest).
    destruct (Smtpd.issafe x); cbn [b2z]; [change (1 =? 0) with false|change (0 =? 0) with true]; cbn [b2z];
      [change (0 =? 0) with true|change (1 =? 0) with false]; cbv iota; cbn [obind]; sp_simpl; cbn [firstn].
    + rewrite char_id by lia.
      rewrite (snoc_assoc pre x rest) in *.
      rewrite <- len_snoc with (x := x).
      rewrite IH; [|cbn [length] in Hfuel; lia|exact Hok|intros Hin; apply Hnz; now right].
      cbn [zs map]. rewrite <- (app_assoc out). reflexivity.
    + change (wrapu 8 (wraps 8 63)) with 63.
      rewrite (snoc_assoc pre x rest) in *.
      rewrite <- len_snoc with (x := x).
      rewrite IH; [|cbn [length] in Hfuel; lia|exact Hok|intros Hin; apply Hnz; now right].
      cbn [zs map]. rewrite <- (app_assoc out). reflexivity.
Qed.

(* REQUIRED 1 *)
Theorem gen_safeput_eq : forall (pre : list Z) (t : bytes), bytes_ok t -> ~ In 0%N t -> Z.of_nat (length t) < 2 ^ 31 ->
  option_map (fun r => C_safeput.a_qqt__out (snd r)) (C_safeput.run (S (length t)) pre (zs t ++ [0]) 0) = Some (pre ++ zs (Smtpd.safe t)).
Proof.
  intros pre t Hok Hnz _. unfold C_safeput.run, C_safeput.body.
  pose proof (sp_loop (S (length t)) t [] pre 0 (S (length t)) ltac:(lia) Hok Hnz) as H.
  cbn [app length Z.of_nat] in H. rewrite H. reflexivity.
Qed.

(* the checked issafe never touches an array: it returns its state *)
Lemma kissafe_run (f0 : nat) (x : Z) : exists v, K_issafe.run f0 x = Some (v, {| K_issafe.v_ch := x; K_issafe.v__oob := 0 |}).
Proof.
  unfold K_issafe.run, K_issafe.body. cbv [K_issafe.v_ch K_issafe.v__oob].
  repeat match goal with |- context [if ?c =? 0 then ONormal ?s else OReturn ?v ?s] => destruct (c =? 0); cbn [obind]; [|eexists; reflexivity] end.
  eexists; reflexivity.
Qed.

Ltac ksp_simpl := cbv [K_safeput.set_v_s K_safeput.set_v_ch K_safeput.set_v__oob K_safeput.set_a_s K_safeput.set_a_qqt__out
                      K_safeput.v_s K_safeput.v_ch K_safeput.v__oob K_safeput.a_s K_safeput.a_qqt__out].

Lemma ksp_loop (f0 : nat) :
  forall (rest pre : bytes) (out : list Z) (ch : Z) (fuel : nat), (length rest < fuel)%nat -> bytes_ok (pre ++ rest) -> ~ In 0%N rest ->
  exists st,
  K_safeput.loop1 f0 fuel {| K_safeput.v_s := Z.of_nat (length pre); K_safeput.v_ch := ch; K_safeput.v__oob := 0;
                             K_safeput.a_s := zs (pre ++ rest) ++ [0]; K_safeput.a_qqt__out := out |}
  = ONormal st /\ K_safeput.v__oob st = 0.
Proof.
  induction rest as [|x rest IH]; intros pre out ch fuel Hfuel Hok Hnz;
    (destruct fuel as [|f]; [cbn [length] in Hfuel; lia|]);
    cbn [K_safeput.loop1]; ksp_simpl;
    (rewrite oob_keep by (apply inb_true; rewrite app_length, zs_length, app_length; cbn [length]; lia)).
  - rewrite app_nil_r, rd_zs_end. cbn [hd]. change (wraps 8 0 =? 0) with true. cbv iota.
    eexists; split; reflexivity.
  - rewrite rd_zs_mid.
    assert (Hx : (x < 256)%N) by (apply (bytes_ok_mid _ _ _ Hok)).
    assert (Hx0 : x <> 0%N) by (intros ->; apply Hnz; now left).
    rewrite wraps8_nz by lia. cbv iota.
    destruct (kissafe_run f0 (wraps 32 (wraps 8 (Z.of_N x)))) as [v Hv]. rewrite Hv.
    cbv [K_issafe.v__oob]. change (Z.lor 0 0) with 0.
    rewrite (snoc_assoc pre x rest) in *.
    destruct (b2z (v =? 0) =? 0); cbn [obind]; ksp_simpl; rewrite <- len_snoc with (x := x);
      (apply IH; [cbn [length] in Hfuel; lia|exact Hok|intros Hin; apply Hnz; now right]).
Qed.

(* REQUIRED 2 *)
Theorem safe_safeput : forall (pre : list Z) (t : bytes), bytes_ok t -> ~ In 0%N t -> Z.of_nat (length t) < 2 ^ 31 ->
  option_map (fun r => K_safeput.v__oob (snd r)) (K_safeput.run (S (length t)) pre (zs t ++ [0]) 0) = Some 0.
Proof.
  intros pre t Hok Hnz _. unfold K_safeput.run, K_safeput.body.
  destruct (ksp_loop (S (length t)) t [] pre 0 (S (length t)) ltac:(lia) Hok Hnz) as (st & H & Ho).
  cbn [app length Z.of_nat] in H. rewrite H. cbn [option_map snd]. rewrite Ho. reflexivity.
Qed.

(* ================================================================ fmtqfn: the callees at an offset, with any sufficient fuel ================================================================ *)
(* fmt_str at an offset *)
Lemma fs_loop2g (f0 : nat) (P : list Z) :
  forall (rest pre : bytes) (brest : list Z) (ch : Z) (fuel : nat), (length rest < fuel)%nat -> bytes_ok (pre ++ rest) -> ~ In 0%N rest ->
  (length rest <= length brest)%nat -> Z.of_nat (length (pre ++ rest)) < 4294967296 ->
  exists ch',
  C_fmt_str.loop2 f0 fuel {| C_fmt_str.v_s := Z.of_nat (length P); C_fmt_str.v_t := 0; C_fmt_str.v_len := Z.of_nat (length pre); C_fmt_str.v_ch := ch;
                             C_fmt_str.a_s := P ++ zs pre ++ brest; C_fmt_str.a_t := zs (pre ++ rest) ++ [0] |}
  = ONormal {| C_fmt_str.v_s := Z.of_nat (length P); C_fmt_str.v_t := 0; C_fmt_str.v_len := Z.of_nat (length (pre ++ rest)); C_fmt_str.v_ch := ch';
               C_fmt_str.a_s := P ++ zs (pre ++ rest) ++ skipn (length rest) brest; C_fmt_str.a_t := zs (pre ++ rest) ++ [0] |}.
Proof.
  induction rest as [|x rest IH]; intros pre brest ch fuel Hfuel Hok Hnz Hb Hlen;
    (destruct fuel as [|f]; [cbn [length] in Hfuel; lia|]);
    cbn [C_fmt_str.loop2]; fs_simpl; rewrite !Z.add_0_l.
  - rewrite app_nil_r, rd_zs_end. cbn [hd]. change (wraps 8 0 =? 0) with true. cbv iota.
    cbn [length skipn]. eexists; reflexivity.
  - rewrite rd_zs_mid.
    assert (Hx : (x < 256)%N) by (apply (bytes_ok_mid _ _ _ Hok)).
    assert (Hx0 : x <> 0%N) by (intros ->; apply Hnz; now left).
    rewrite wraps8_nz by lia. cbv iota.
    destruct brest as [|b brest]; [cbn [length] in Hb; lia|].
    rewrite char_id by lia.
    replace (Z.of_nat (length P) + Z.of_nat (length pre)) with (Z.of_nat (length (P ++ zs pre))) by (rewrite app_length, zs_length; lia).
    rewrite (app_assoc P (zs pre)), wr_app_mid, <- app_assoc.
    rewrite (snoc_assoc pre x rest) in *.
    replace (wrapu 32 (Z.of_nat (length pre) + 1)) with (Z.of_nat (length (pre ++ [x]))).
    2:{ rewrite !app_length in *. cbn [length] in *. rewrite wrapu32_small; lia. }
    replace (zs pre ++ Z.of_N x :: brest) with (zs (pre ++ [x]) ++ brest) by (rewrite zs_app, <- app_assoc; reflexivity).
    cbn [length skipn] in *.
    apply IH; [lia|exact Hok| |lia|exact Hlen].
    intros Hin. apply Hnz. now right.
Qed.

Lemma skipn_app_exact {A} (L R : list A) n : length L = n -> skipn n (L ++ R) = R.
Proof. intros <-. rewrite skipn_app, skipn_all, Nat.sub_diag. reflexivity. Qed.

Lemma fs_at (fuel : nat) (t : bytes) (P L R : list Z) : (length t < fuel)%nat -> bytes_ok t -> ~ In 0%N t ->
  length L = length t -> Z.of_nat (length t) < 4294967296 ->
  exists st, C_fmt_str.run fuel (P ++ L ++ R) (Z.of_nat (length P)) (zs t ++ [0]) 0 = Some (Z.of_nat (length t), st)
    /\ C_fmt_str.a_s st = P ++ zs t ++ R /\ C_fmt_str.a_t st = zs t ++ [0].
Proof.
  intros Hfuel Hok Hnz HL Hlen.
  unfold C_fmt_str.run, C_fmt_str.body. fs_simpl.
  rewrite of_nat_m1. cbn [negb b2z]. change (1 =? 0) with false. cbv iota.
  change (wrapu 32 0) with (Z.of_nat (@length N [])).
  destruct (fs_loop2g fuel P t [] (L ++ R) 0 fuel Hfuel Hok Hnz ltac:(rewrite app_length; lia) Hlen) as [ch' Hl].
  change (zs []) with (@nil Z) in Hl. cbn [app] in Hl. rewrite Hl. cbn [obind]. fs_simpl.
  eexists. split; [reflexivity|]. fs_simpl. rewrite skipn_app_exact by exact HL. split; reflexivity.
Qed.

Lemma fs_null (fuel : nat) (t : bytes) (a : list Z) : (length t < fuel)%nat -> bytes_ok t -> ~ In 0%N t ->
  Z.of_nat (length t) < 4294967296 ->
  exists st, C_fmt_str.run fuel a (-1) (zs t ++ [0]) 0 = Some (Z.of_nat (length t), st)
    /\ C_fmt_str.a_s st = a /\ C_fmt_str.a_t st = zs t ++ [0].
Proof.
  intros Hfuel Hok Hnz Hlen.
  unfold C_fmt_str.run, C_fmt_str.body. fs_simpl.
  change (-1 =? -1) with true. cbn [negb b2z]. change (0 =? 0) with true. cbv iota.
  change (wrapu 32 0) with (Z.of_nat (@length N [])).
  pose proof (fs_loop1 fuel (-1) 0 a t [] fuel Hfuel Hok Hnz Hlen) as Hl.
  cbn [app] in Hl. rewrite Hl. cbn [obind]. fs_simpl.
  eexists. split; [reflexivity|]. fs_simpl. split; reflexivity.
Qed.

Lemma fs_at' (fuel : nat) (t : bytes) (A : list Z) (p : Z) (P L R : list Z) : A = P ++ L ++ R -> p = Z.of_nat (length P) ->
  (length t < fuel)%nat -> bytes_ok t -> ~ In 0%N t -> length L = length t -> Z.of_nat (length t) < 4294967296 ->
  exists st, C_fmt_str.run fuel A p (zs t ++ [0]) 0 = Some (Z.of_nat (length t), st)
    /\ C_fmt_str.a_s st = P ++ zs t ++ R /\ C_fmt_str.a_t st = zs t ++ [0].
Proof. intros -> ->. apply fs_at. Qed.
Lemma fu_at' (fuel : nat) (u : N) (A : list Z) (p : Z) (P L R : list Z) : A = P ++ L ++ R -> p = Z.of_nat (length P) ->
  (21 <= fuel)%nat -> (u < 18446744073709551616)%N -> length L = length (fmt_ulong u) ->
  exists st, C_fmt_ulong.run fuel A p (Z.of_N u) = Some (Z.of_nat (length (fmt_ulong u)), st)
    /\ C_fmt_ulong.a_s st = P ++ zs (fmt_ulong u) ++ R.
Proof. intros -> ->. apply fu_run. Qed.

(* ---- the checked variants: value returned, no access outside, size of the array kept ---- *)
Lemma kfs_loop2 (f0 : nat) (p : Z) :
  forall (rest pre : bytes) (A : list Z) (ch : Z) (fuel : nat), (length rest < fuel)%nat -> bytes_ok (pre ++ rest) -> ~ In 0%N rest ->
  0 <= p -> p + Z.of_nat (length (pre ++ rest)) <= Z.of_nat (length A) -> Z.of_nat (length (pre ++ rest)) < 4294967296 ->
  exists st,
  K_fmt_str.loop2 f0 fuel {| K_fmt_str.v_s := p; K_fmt_str.v_t := 0; K_fmt_str.v_len := Z.of_nat (length pre); K_fmt_str.v_ch := ch;
                             K_fmt_str.v__oob := 0; K_fmt_str.a_s := A; K_fmt_str.a_t := zs (pre ++ rest) ++ [0] |}
  = ONormal st /\ K_fmt_str.v_len st = Z.of_nat (length (pre ++ rest)) /\ K_fmt_str.v__oob st = 0
    /\ length (K_fmt_str.a_s st) = length A /\ K_fmt_str.a_t st = zs (pre ++ rest) ++ [0].
Proof.
  induction rest as [|x rest IH]; intros pre A ch fuel Hfuel Hok Hnz Hp HA Hlen;
    (destruct fuel as [|f]; [cbn [length] in Hfuel; lia|]);
    fst_unroll2; rewrite !Z.add_0_l;
    (rewrite oob_keep by (apply inb_true; rewrite zs0_length, app_length; cbn [length]; lia)).
  - rewrite app_nil_r, rd_zs_end. cbn [hd]. change (wraps 8 0 =? 0) with true. cbv iota.
    eexists. split; [reflexivity|]. fst_simpl. repeat split; reflexivity.
  - rewrite rd_zs_mid.
    assert (Hx : (x < 256)%N) by (apply (bytes_ok_mid _ _ _ Hok)).
    assert (Hx0 : x <> 0%N) by (intros ->; apply Hnz; now left).
    rewrite wraps8_nz by lia. cbv iota.
    rewrite oob_keep by (apply inb_true; rewrite app_length in HA; cbn [length] in HA; lia).
    rewrite (snoc_assoc pre x rest) in *.
    replace (wrapu 32 (Z.of_nat (length pre) + 1)) with (Z.of_nat (length (pre ++ [x]))).
    2:{ rewrite !app_length in *. cbn [length] in *. rewrite wrapu32_small; lia. }
    match goal with |- context [wr A ?i ?v] =>
      destruct (IH (pre ++ [x]) (wr A i v) (wraps 8 (Z.of_N x)) f) as (st & E & H1 & H2 & H3 & H4);
        [cbn [length] in Hfuel; lia|exact Hok|intros Hin; apply Hnz; now right|exact Hp|rewrite wr_length; exact HA|exact Hlen|] end.
    exists st. rewrite wr_length in H3. repeat split; assumption.
Qed.

Lemma kfs_at (fuel : nat) (t : bytes) (A : list Z) (p : Z) : (length t < fuel)%nat -> bytes_ok t -> ~ In 0%N t ->
  0 <= p -> p + Z.of_nat (length t) <= Z.of_nat (length A) -> Z.of_nat (length t) < 4294967296 ->
  exists st, K_fmt_str.run fuel A p (zs t ++ [0]) 0 = Some (Z.of_nat (length t), st)
    /\ K_fmt_str.v__oob st = 0 /\ length (K_fmt_str.a_s st) = length A.
Proof.
  intros Hfuel Hok Hnz Hp HA Hlen.
  cbv beta iota zeta delta [K_fmt_str.run K_fmt_str.body K_fmt_str.set_v_s K_fmt_str.set_v_t K_fmt_str.set_v_len K_fmt_str.set_v_ch K_fmt_str.set_v__oob K_fmt_str.set_a_s K_fmt_str.set_a_t
  K_fmt_str.v_s K_fmt_str.v_t K_fmt_str.v_len K_fmt_str.v_ch K_fmt_str.v__oob K_fmt_str.a_s K_fmt_str.a_t].
  replace (p =? -1) with false by (symmetry; apply Z.eqb_neq; lia).
  cbn [negb b2z]. change (1 =? 0) with false. cbv iota. change (wrapu 32 0) with (Z.of_nat (@length N [])).
  destruct (kfs_loop2 fuel p t [] A 0 fuel Hfuel Hok Hnz Hp HA Hlen) as (st & E & H1 & H2 & H3 & H4).
  cbn [app] in E, H1. rewrite E. cbn [obind]. cbv beta iota.
  destruct st as [xs xt xlen xch xoob xas xat]. cbn [K_fmt_str.v_len K_fmt_str.v__oob K_fmt_str.a_s] in *. subst xlen.
  eexists. split; [reflexivity|]. split; assumption.
Qed.

(* second loop of fmt_ulong: as Gen_safety.kfu_loop2, keeping the length count and the size of the array *)
Lemma kfu_loop2' (f0 : nat) (l q : Z) :
  forall (fm : nat) (u : N) (sp : Z) (A : list Z) (fuel : nat), (S fm <= fuel)%nat -> (u < Gen_numbers.p10 (S fm))%N ->
  (u < 18446744073709551616)%N -> Z.of_nat (length (fmt_aux (S fm) u [])) <= sp <= Z.of_nat (length A) ->
  exists st, K_fmt_ulong.loop2 f0 fuel {| K_fmt_ulong.v_s := sp; K_fmt_ulong.v_u := Z.of_N u; K_fmt_ulong.v_len := l;
                               K_fmt_ulong.v_q := q; K_fmt_ulong.v__oob := 0; K_fmt_ulong.a_s := A |}
  = ONormal st /\ K_fmt_ulong.v__oob st = 0 /\ K_fmt_ulong.v_len st = l /\ length (K_fmt_ulong.a_s st) = length A.
Proof.
  induction fm as [|fm IH]; intros u sp A fuel Hfuel Hu Hu64 Hsp;
    (destruct fuel as [|f]; [lia|]);
    match type of Hsp with (Z.of_nat (length (fmt_aux (S ?m) _ _)) <= _ <= _) => pose proof (Gen_numbers.fmt_len_pos m u) as Hpos end;
    kfu_unroll2; rewrite oob_keep by (apply inb_true; lia);
    change (wrapu 64 10) with 10; rewrite Gen_numbers.fu_quot by exact Hu64;
    rewrite Gen_numbers.fmt_S in Hsp;
    (destruct (N.eqb_spec (u / 10) 0) as [E|E];
     [ rewrite E; change (Z.of_N 0 =? 0) with true; cbv iota; eexists; split; [reflexivity|]; kfu_simpl; rewrite wr_length; repeat split; reflexivity | ]).
  - rewrite Gen_numbers.p10_1 in Hu. lia.
  - destruct (Z.eqb_spec (Z.of_N (u / 10)) 0) as [E0|_]; [lia|].
    rewrite Gen_numbers.p10_S in Hu. rewrite app_length in Hsp. cbn [length] in Hsp.
    match goal with |- context [wr A ?i ?v] =>
      destruct (IH (u / 10)%N (sp - 1) (wr A i v) f) as (st & E1 & H1 & H2 & H3); [lia|lia|lia|rewrite wr_length; lia|] end.
    exists st. rewrite wr_length in H3. repeat split; assumption.
Qed.

Lemma kfu_at (fuel : nat) (u : N) (A : list Z) (p : Z) : (21 <= fuel)%nat -> (u < 18446744073709551616)%N ->
  0 <= p -> p + Z.of_nat (length (fmt_ulong u)) <= Z.of_nat (length A) ->
  exists st, K_fmt_ulong.run fuel A p (Z.of_N u) = Some (Z.of_nat (length (fmt_ulong u)), st)
    /\ K_fmt_ulong.v__oob st = 0 /\ length (K_fmt_ulong.a_s st) = length A.
Proof.
  intros Hfuel Hu Hp HA. unfold fmt_ulong in *.
  cbv beta iota zeta delta [K_fmt_ulong.run K_fmt_ulong.body K_fmt_ulong.set_v_s K_fmt_ulong.set_v_u K_fmt_ulong.set_v_len K_fmt_ulong.set_v_q K_fmt_ulong.set_v__oob K_fmt_ulong.set_a_s
  K_fmt_ulong.v_s K_fmt_ulong.v_u K_fmt_ulong.v_len K_fmt_ulong.v_q K_fmt_ulong.v__oob K_fmt_ulong.a_s].
  change (wrapu 32 1) with 1.
  destruct (kfu_loop1 fuel p (Z.of_N u) A 19 u 1 fuel ltac:(lia) (Gen_numbers.u64_p10 u Hu) Hu ltac:(lia) ltac:(lia))
    as (q' & l' & Hl1 & Hl').
  rewrite Hl1, obind_normal. kfu_simpl.
  replace (p =? -1) with false by (symmetry; apply Z.eqb_neq; lia).
  cbn [negb b2z]. change (1 =? 0) with false. cbv iota.
  pose proof (Gen_numbers.fmt_len_le 20 u) as Hle.
  destruct (kfu_loop2' fuel l' q' 19 u (p + l') A fuel ltac:(lia) (Gen_numbers.u64_p10 u Hu) Hu ltac:(lia)) as (st & E & Ho & Hl & Hlen).
  rewrite E, obind_normal. cbv beta iota.
  destruct st as [xs xu xlen xq xoob xas]. cbn [K_fmt_ulong.v_len K_fmt_ulong.v__oob K_fmt_ulong.a_s] in *. subst xlen.
  eexists. split; [f_equal; f_equal; lia|]. split; assumption.
Qed.

(* ---- arithmetic and lists ---- *)
Lemma mod_bound (id split : N) : (0 < split < 2147483648)%N -> (id mod split < 2147483648)%N.
Proof. intros Hsp. eapply N.lt_trans; [apply N.mod_lt; lia|apply Hsp]. Qed.
(* id % auto_split: unsigned long by int converted to unsigned long *)
Lemma rem_arg (id split : N) : (id < 18446744073709551616)%N -> (0 < split < 2147483648)%N ->
  wrapu 64 (Z.rem (Z.of_N id) (wrapu 64 (Z.of_N split))) = Z.of_N (id mod split).
Proof.
  intros Hid Hsp. rewrite (wrapu64_small (Z.of_N split)) by lia.
  rewrite Z.rem_mod_nonneg by lia. rewrite <- N2Z.inj_mod.
  apply wrapu64_small. pose proof (mod_bound id split Hsp) as H. remember (id mod split)%N as m. lia.
Qed.
Lemma split_len {A} (l : list A) (n : nat) : (n <= length l)%nat -> exists L R, l = L ++ R /\ length L = n.
Proof. intros H. exists (firstn n l), (skipn n l). split; [symmetry; apply firstn_skipn|apply firstn_length_le; exact H]. Qed.
Lemma slash_ok : bytes_ok [SLASH]. Proof. repeat constructor. Qed.
Lemma slash_nz : ~ In 0%N [SLASH]. Proof. cbn. intuition discriminate. Qed.

(* ================================================================ fmtqfn: running the body ================================================================ *)
Ltac st_let_zeta := lazymatch goal with
  | |- ?P (let x := ?v in @?b x) => change (P (b v)); cbv beta
  | |- ?P (obind (let x := ?v in @?b x) ?k) => change (P (obind (b v) k)); cbv beta
  end.
Ltac st_else := lazymatch goal with |- ?P (obind (if ?c then ?a else ?b) ?k) => change (P (obind b k)) end.
Ltac st_then := lazymatch goal with |- ?P (obind (if ?c then ?a else ?b) ?k) => change (P (obind a k)) end.
Ltac hide_all := repeat match goal with |- context [@obind ?T ?a ?k] =>
  lazymatch k with (fun _ => _) => let K := fresh "K" in set (K := k) end end.
Ltac show_next := match goal with |- context [obind (ONormal ?S) ?K] => is_var K; rewrite (obind_normal S K); subst K; cbv beta end.
Ltac unwrap32 := repeat match goal with |- context [wrapu 32 ?x] => rewrite (wrapu32_small x) by lia end.
Ltac ptr_ok := match goal with |- context [?p =? -1] => replace (p =? -1) with false by (symmetry; apply Z.eqb_neq; lia) end;
  cbn [negb b2z]; change (1 =? 0) with false; cbv iota.
Ltac ptr_null := change (-1 =? -1) with true; cbn [negb b2z]; change (0 =? 0) with true; cbv iota.
Ltac fq_red v := eval cbv beta iota delta [C_fmtqfn.set_v_s C_fmtqfn.set_v_dirslash C_fmtqfn.set_v_id C_fmtqfn.set_v_flagsplit C_fmtqfn.set_v_len C_fmtqfn.set_v_i
  C_fmtqfn.set_v_auto_split C_fmtqfn.set_a_s C_fmtqfn.set_a_dirslash
  C_fmtqfn.v_s C_fmtqfn.v_dirslash C_fmtqfn.v_id C_fmtqfn.v_flagsplit C_fmtqfn.v_len C_fmtqfn.v_i C_fmtqfn.v_auto_split C_fmtqfn.a_s C_fmtqfn.a_dirslash] in v.
Ltac fq_simpl := cbv beta iota delta [C_fmtqfn.set_v_s C_fmtqfn.set_v_dirslash C_fmtqfn.set_v_id C_fmtqfn.set_v_flagsplit C_fmtqfn.set_v_len C_fmtqfn.set_v_i
  C_fmtqfn.set_v_auto_split C_fmtqfn.set_a_s C_fmtqfn.set_a_dirslash
  C_fmtqfn.v_s C_fmtqfn.v_dirslash C_fmtqfn.v_id C_fmtqfn.v_flagsplit C_fmtqfn.v_len C_fmtqfn.v_i C_fmtqfn.v_auto_split C_fmtqfn.a_s C_fmtqfn.a_dirslash].
Ltac fq_simplz := cbv beta iota zeta delta [C_fmtqfn.set_v_s C_fmtqfn.set_v_dirslash C_fmtqfn.set_v_id C_fmtqfn.set_v_flagsplit C_fmtqfn.set_v_len C_fmtqfn.set_v_i
  C_fmtqfn.set_v_auto_split C_fmtqfn.set_a_s C_fmtqfn.set_a_dirslash
  C_fmtqfn.v_s C_fmtqfn.v_dirslash C_fmtqfn.v_id C_fmtqfn.v_flagsplit C_fmtqfn.v_len C_fmtqfn.v_i C_fmtqfn.v_auto_split C_fmtqfn.a_s C_fmtqfn.a_dirslash].
Ltac fq_let_red := lazymatch goal with
  | |- ?P (let x := ?v in @?b x) => let v' := fq_red v in change (P (let x := v' in b x)); cbv beta
  | |- ?P (obind (let x := ?v in @?b x) ?k) => let v' := fq_red v in change (P (obind (let x := v' in b x) k)); cbv beta
  end.
Ltac fq_let := fq_let_red; st_let_zeta.
Ltac fq_call H := rewrite H; st_let_zeta; repeat fq_let.

(* value returned and contents of the buffer *)
Definition fq_post (V : Z) (RES : list Z) (o : outcome C_fmtqfn.st) : Prop :=
  match o with OReturn v st => v = V /\ C_fmtqfn.a_s st = RES | _ => False end.

Lemma fq_eq_true (dir : bytes) (id split : N) (buf : list Z) :
  bytes_ok dir -> ~ In 0%N dir -> Z.of_nat (length dir) < 2 ^ 31 -> (id < 18446744073709551616)%N -> (0 < split < 2147483648)%N ->
  (length (dir ++ (fmt_ulong (id mod split) ++ [SLASH]) ++ fmt_ulong id) < length buf)%nat ->
  fq_post (Z.of_nat (S (length (dir ++ (fmt_ulong (id mod split) ++ [SLASH]) ++ fmt_ulong id))))
          (zs (dir ++ (fmt_ulong (id mod split) ++ [SLASH]) ++ fmt_ulong id) ++ [0]
             ++ skipn (S (length (dir ++ (fmt_ulong (id mod split) ++ [SLASH]) ++ fmt_ulong id))) buf)
    (C_fmtqfn.body (22 + length dir) {| C_fmtqfn.v_s := 0; C_fmtqfn.v_dirslash := 0; C_fmtqfn.v_id := Z.of_N id; C_fmtqfn.v_flagsplit := 1; C_fmtqfn.v_len := 0;
     C_fmtqfn.v_i := 0; C_fmtqfn.v_auto_split := Z.of_N split; C_fmtqfn.a_s := buf; C_fmtqfn.a_dirslash := zs dir ++ [0] |}).
Proof.
  intros Hok Hnz Hlen Hid Hsp Hbuf. rewrite p31 in Hlen.
  remember (22 + length dir)%nat as fuel eqn:Efuel.
  assert (Hm : (id mod split < 18446744073709551616)%N) by (pose proof (mod_bound id split Hsp) as H; remember (id mod split)%N as m; lia).
  pose proof (fmt_ulong_len (id mod split)) as Hl2. pose proof (fmt_ulong_len id) as Hl4.
  rewrite !app_length in Hbuf. cbn [length] in Hbuf.
  destruct (split_len buf (length dir) ltac:(lia)) as (L1 & B1 & -> & HL1). rewrite app_length in Hbuf.
  destruct (split_len B1 (length (fmt_ulong (id mod split))) ltac:(lia)) as (L2 & B2 & -> & HL2). rewrite app_length in Hbuf.
  destruct (split_len B2 1%nat ltac:(lia)) as (L3 & B3 & -> & HL3). rewrite app_length in Hbuf.
  destruct (split_len B3 (length (fmt_ulong id)) ltac:(lia)) as (L4 & B4 & -> & HL4). rewrite app_length in Hbuf.
  destruct B4 as [|y R]; [cbn [length] in Hbuf; lia|].
  match goal with |- fq_post ?V ?RES _ => set (V0 := V); set (RES0 := RES) end.
  cbv beta delta [C_fmtqfn.body].
  (* i = fmt_str(s,dirslash); len += i; if (s) s += i; *)
  fq_let. fq_let. fq_let_red.
  lazymatch goal with |- context [C_fmt_str.run ?f ?a ?p ?t ?o] =>
    destruct (fs_at' f dir a p [] L1 (L2 ++ L3 ++ L4 ++ y :: R) eq_refl eq_refl ltac:(lia) Hok Hnz HL1 ltac:(lia)) as (st1 & H1 & Ha1 & Ht1) end.
  fq_call H1.
  hide_all. fq_simplz. ptr_ok. unwrap32. show_next.
  (* if (flagsplit) { i = fmt_ulong(s,id % auto_split); ... *)
  fq_simpl. st_else. fq_let_red. rewrite (rem_arg id split Hid Hsp).
  lazymatch goal with |- context [C_fmt_ulong.run ?f ?a ?p ?z] =>
    destruct (fu_at' f (id mod split) a p (zs dir) L2 (L3 ++ L4 ++ y :: R) ltac:(rewrite Ha1; reflexivity) ltac:(rewrite zs_length; lia) ltac:(lia) Hm HL2)
      as (st2 & H2 & Ha2) end.
  fq_call H2.
  hide_all. fq_simplz. ptr_ok. unwrap32. show_next.
  (* i = fmt_str(s,"/"); ... } *)
  change [47; 0] with (zs [SLASH] ++ [0]). fq_let_red.
  lazymatch goal with |- context [C_fmt_str.run ?f ?a ?p ?t ?o] =>
    destruct (fs_at' f [SLASH] a p (zs dir ++ zs (fmt_ulong (id mod split))) L3 (L4 ++ y :: R)
                ltac:(rewrite Ha2, <- ?app_assoc; reflexivity) ltac:(rewrite app_length, !zs_length; lia) ltac:(cbn [length]; lia) slash_ok slash_nz HL3 ltac:(cbn [length]; lia))
      as (st3 & H3 & Ha3 & _) end.
  fq_call H3.
  fq_simplz. cbn [length]. ptr_ok. unwrap32. show_next.
  (* i = fmt_ulong(s,id); ... *)
  fq_let_red.
  lazymatch goal with |- context [C_fmt_ulong.run ?f ?a ?p ?z] =>
    destruct (fu_at' f id a p ((zs dir ++ zs (fmt_ulong (id mod split))) ++ zs [SLASH]) L4 (y :: R)
                ltac:(rewrite Ha3, <- ?app_assoc; reflexivity) ltac:(rewrite !app_length, !zs_length; cbn [length]; lia) ltac:(lia) Hid HL4)
      as (st4 & H4 & Ha4) end.
  fq_call H4.
  hide_all. fq_simplz. ptr_ok. unwrap32. show_next.
  (* if (s) *s++ = 0; ++len; return len; *)
  hide_all. fq_simplz. ptr_ok. show_next. fq_simplz.
  unfold fq_post. fq_simplz. subst V0 RES0. split.
  - rewrite !app_length. cbn [length]. unwrap32. lia.
  - rewrite Ha4. change (wrapu 8 (wraps 8 0)) with 0.
    rewrite (app_assoc _ (zs (fmt_ulong id))).
    match goal with |- wr (?P ++ _ :: _) ?p _ = _ => replace p with (Z.of_nat (length P)) by (rewrite !app_length, !zs_length; cbn [length]; lia) end.
    rewrite wr_app_mid.
    replace (L1 ++ L2 ++ L3 ++ L4 ++ y :: R) with ((L1 ++ L2 ++ L3 ++ L4 ++ [y]) ++ R) by (rewrite <- ?app_assoc; reflexivity).
    rewrite skipn_app_exact by (rewrite !app_length; cbn [length]; lia).
    rewrite !zs_app, <- ?app_assoc. reflexivity.
Qed.

Lemma fq_eq_false (dir : bytes) (id split : N) (buf : list Z) :
  bytes_ok dir -> ~ In 0%N dir -> Z.of_nat (length dir) < 2 ^ 31 -> (id < 18446744073709551616)%N ->
  (length (dir ++ [] ++ fmt_ulong id) < length buf)%nat ->
  fq_post (Z.of_nat (S (length (dir ++ [] ++ fmt_ulong id))))
          (zs (dir ++ [] ++ fmt_ulong id) ++ [0] ++ skipn (S (length (dir ++ [] ++ fmt_ulong id))) buf)
    (C_fmtqfn.body (22 + length dir) {| C_fmtqfn.v_s := 0; C_fmtqfn.v_dirslash := 0; C_fmtqfn.v_id := Z.of_N id; C_fmtqfn.v_flagsplit := 0; C_fmtqfn.v_len := 0;
     C_fmtqfn.v_i := 0; C_fmtqfn.v_auto_split := Z.of_N split; C_fmtqfn.a_s := buf; C_fmtqfn.a_dirslash := zs dir ++ [0] |}).
Proof.
  intros Hok Hnz Hlen Hid Hbuf. rewrite p31 in Hlen.
  remember (22 + length dir)%nat as fuel eqn:Efuel.
  pose proof (fmt_ulong_len id) as Hl4.
  cbn [app] in *. rewrite !app_length in Hbuf.
  destruct (split_len buf (length dir) ltac:(lia)) as (L1 & B1 & -> & HL1). rewrite app_length in Hbuf.
  destruct (split_len B1 (length (fmt_ulong id)) ltac:(lia)) as (L4 & B4 & -> & HL4). rewrite app_length in Hbuf.
  destruct B4 as [|y R]; [cbn [length] in Hbuf; lia|].
  match goal with |- fq_post ?V ?RES _ => set (V0 := V); set (RES0 := RES) end.
  cbv beta delta [C_fmtqfn.body].
  fq_let. fq_let. fq_let_red.
  lazymatch goal with |- context [C_fmt_str.run ?f ?a ?p ?t ?o] =>
    destruct (fs_at' f dir a p [] L1 (L4 ++ y :: R) eq_refl eq_refl ltac:(lia) Hok Hnz HL1 ltac:(lia)) as (st1 & H1 & Ha1 & Ht1) end.
  fq_call H1.
  hide_all. fq_simplz. ptr_ok. unwrap32. show_next.
  fq_simpl. st_then. hide_all. show_next.
  fq_let_red.
  lazymatch goal with |- context [C_fmt_ulong.run ?f ?a ?p ?z] =>
    destruct (fu_at' f id a p (zs dir) L4 (y :: R) ltac:(rewrite Ha1; reflexivity) ltac:(rewrite zs_length; lia) ltac:(lia) Hid HL4)
      as (st4 & H4 & Ha4) end.
  fq_call H4.
  hide_all. fq_simplz. ptr_ok. unwrap32. show_next.
  hide_all. fq_simplz. ptr_ok. show_next. fq_simplz.
  unfold fq_post. fq_simplz. subst V0 RES0. split.
  - rewrite !app_length. unwrap32. lia.
  - rewrite Ha4. change (wrapu 8 (wraps 8 0)) with 0.
    rewrite (app_assoc _ (zs (fmt_ulong id))).
    match goal with |- wr (?P ++ _ :: _) ?p _ = _ => replace p with (Z.of_nat (length P)) by (rewrite !app_length, !zs_length; cbn [length]; lia) end.
    rewrite wr_app_mid.
    replace (L1 ++ L4 ++ y :: R) with ((L1 ++ L4 ++ [y]) ++ R) by (rewrite <- ?app_assoc; reflexivity).
    rewrite skipn_app_exact by (rewrite !app_length; cbn [length]; lia).
    rewrite !zs_app, <- ?app_assoc. reflexivity.
Qed.

(* run is body on the initial state; stated once so that no later step has to unfold body *)
Lemma fq_run_unfold f a s d ds id fl sp : C_fmtqfn.run f a s d ds id fl sp =
  match C_fmtqfn.body f {| C_fmtqfn.v_s := s; C_fmtqfn.v_dirslash := ds; C_fmtqfn.v_id := id; C_fmtqfn.v_flagsplit := fl; C_fmtqfn.v_len := 0;
     C_fmtqfn.v_i := 0; C_fmtqfn.v_auto_split := sp; C_fmtqfn.a_s := a; C_fmtqfn.a_dirslash := d |} with
  | OReturn v s => Some (v, s)
  | ONormal s => Some (0, s)
  | _ => None
  end.
Proof. reflexivity. Qed.

Definition qfn (dir : bytes) (id split : N) (flag : bool) : bytes := Clean.fmtqfn dir id (if flag then Some split else None).
(* REQUIRED 3: with a buffer that has room for the name and its NUL *)
Theorem gen_fmtqfn_eq : forall (dir : bytes) (id split : N) (flag : bool) (buf : list Z),
  bytes_ok dir -> ~ In 0%N dir -> Z.of_nat (length dir) < 2 ^ 31 -> (id < 18446744073709551616)%N -> (0 < split < 2147483648)%N ->
  (length (qfn dir id split flag) < length buf)%nat ->
  option_map (fun r => (fst r, C_fmtqfn.a_s (snd r))) (C_fmtqfn.run (22 + length dir) buf 0 (zs dir ++ [0]) 0 (Z.of_N id) (b2z flag) (Z.of_N split))
  = Some (Z.of_nat (S (length (qfn dir id split flag))), zs (qfn dir id split flag) ++ [0] ++ skipn (S (length (qfn dir id split flag))) buf).
Proof.
  intros dir id split flag buf Hok Hnz Hlen Hid Hsp Hbuf. rewrite fq_run_unfold.
  destruct flag; unfold qfn, Clean.fmtqfn in *; cbv beta iota delta [b2z].
  - pose proof (fq_eq_true dir id split buf Hok Hnz Hlen Hid Hsp Hbuf) as H.
    destruct (C_fmtqfn.body _ _) as [st|v st|st|st|]; try contradiction.
    destruct H as [Hv Ha]. cbv beta iota delta [option_map fst snd]. rewrite Hv, Ha. reflexivity.
  - pose proof (fq_eq_false dir id split buf Hok Hnz Hlen Hid Hbuf) as H.
    destruct (C_fmtqfn.body _ _) as [st|v st|st|st|]; try contradiction.
    destruct H as [Hv Ha]. cbv beta iota delta [option_map fst snd]. rewrite Hv, Ha. reflexivity.
Qed.

(* ---- with the null pointer ---- *)
Definition fq_ret (V : Z) (o : outcome C_fmtqfn.st) : Prop := match o with OReturn v _ => v = V | _ => False end.

Lemma fq_len_true (dir : bytes) (id split : N) :
  bytes_ok dir -> ~ In 0%N dir -> Z.of_nat (length dir) < 2 ^ 31 -> (id < 18446744073709551616)%N -> (0 < split < 2147483648)%N ->
  fq_ret (Z.of_nat (S (length (dir ++ (fmt_ulong (id mod split) ++ [SLASH]) ++ fmt_ulong id))))
    (C_fmtqfn.body (22 + length dir) {| C_fmtqfn.v_s := -1; C_fmtqfn.v_dirslash := 0; C_fmtqfn.v_id := Z.of_N id; C_fmtqfn.v_flagsplit := 1; C_fmtqfn.v_len := 0;
     C_fmtqfn.v_i := 0; C_fmtqfn.v_auto_split := Z.of_N split; C_fmtqfn.a_s := []; C_fmtqfn.a_dirslash := zs dir ++ [0] |}).
Proof.
  intros Hok Hnz Hlen Hid Hsp. rewrite p31 in Hlen.
  remember (22 + length dir)%nat as fuel eqn:Efuel.
  assert (Hm : (id mod split < 18446744073709551616)%N) by (pose proof (mod_bound id split Hsp) as H; remember (id mod split)%N as m; lia).
  destruct (fs_null fuel dir [] ltac:(lia) Hok Hnz ltac:(lia)) as (st1 & H1 & Ha1 & Ht1).
  destruct (fu_null fuel (id mod split) [] ltac:(lia) Hm) as (st2 & H2 & Ha2).
  destruct (fs_null fuel [SLASH] [] ltac:(cbn [length]; lia) slash_ok slash_nz ltac:(cbn [length]; lia)) as (st3 & H3 & Ha3 & _).
  destruct (fu_null fuel id [] ltac:(lia) Hid) as (st4 & H4 & Ha4).
  pose proof (fmt_ulong_len (id mod split)) as Hl2. pose proof (fmt_ulong_len id) as Hl4.
  match goal with |- fq_ret ?V _ => set (V0 := V) end.
  cbv beta delta [C_fmtqfn.body].
  fq_let. fq_let. fq_let_red. fq_call H1.
  hide_all. fq_simplz. ptr_null. rewrite Ha1, Ht1. unwrap32. show_next.
  fq_simpl. st_else. fq_let_red. rewrite (rem_arg id split Hid Hsp). fq_call H2.
  hide_all. fq_simplz. ptr_null. rewrite Ha2. unwrap32. show_next.
  change [47; 0] with (zs [SLASH] ++ [0]). fq_let_red. fq_call H3.
  fq_simplz. ptr_null. rewrite Ha3. cbn [length]. unwrap32. show_next.
  fq_let_red. fq_call H4.
  hide_all. fq_simplz. ptr_null. rewrite Ha4. unwrap32. show_next.
  hide_all. fq_simplz. ptr_null. show_next. fq_simplz.
  unfold fq_ret. subst V0. rewrite !app_length. cbn [length]. unwrap32. lia.
Qed.

Lemma fq_len_false (dir : bytes) (id split : N) :
  bytes_ok dir -> ~ In 0%N dir -> Z.of_nat (length dir) < 2 ^ 31 -> (id < 18446744073709551616)%N ->
  fq_ret (Z.of_nat (S (length (dir ++ [] ++ fmt_ulong id))))
    (C_fmtqfn.body (22 + length dir) {| C_fmtqfn.v_s := -1; C_fmtqfn.v_dirslash := 0; C_fmtqfn.v_id := Z.of_N id; C_fmtqfn.v_flagsplit := 0; C_fmtqfn.v_len := 0;
     C_fmtqfn.v_i := 0; C_fmtqfn.v_auto_split := Z.of_N split; C_fmtqfn.a_s := []; C_fmtqfn.a_dirslash := zs dir ++ [0] |}).
Proof.
  intros Hok Hnz Hlen Hid. rewrite p31 in Hlen.
  remember (22 + length dir)%nat as fuel eqn:Efuel.
  destruct (fs_null fuel dir [] ltac:(lia) Hok Hnz ltac:(lia)) as (st1 & H1 & Ha1 & Ht1).
  destruct (fu_null fuel id [] ltac:(lia) Hid) as (st4 & H4 & Ha4).
  pose proof (fmt_ulong_len id) as Hl4.
  match goal with |- fq_ret ?V _ => set (V0 := V) end.
  cbv beta delta [C_fmtqfn.body].
  fq_let. fq_let. fq_let_red. fq_call H1.
  hide_all. fq_simplz. ptr_null. rewrite Ha1, Ht1. unwrap32. show_next.
  fq_simpl. st_then. hide_all. show_next.
  fq_let_red. fq_call H4.
  hide_all. fq_simplz. ptr_null. rewrite Ha4. unwrap32. show_next.
  hide_all. fq_simplz. ptr_null. show_next. fq_simplz.
  unfold fq_ret. subst V0. cbn [app]. rewrite !app_length. unwrap32. lia.
Qed.

(* REQUIRED 4: with the null pointer: only the length (name + NUL) *)
Theorem gen_fmtqfn_len : forall (dir : bytes) (id split : N) (flag : bool),
  bytes_ok dir -> ~ In 0%N dir -> Z.of_nat (length dir) < 2 ^ 31 -> (id < 18446744073709551616)%N -> (0 < split < 2147483648)%N ->
  retval (C_fmtqfn.run (22 + length dir) [] (-1) (zs dir ++ [0]) 0 (Z.of_N id) (b2z flag) (Z.of_N split))
  = Some (Z.of_nat (S (length (qfn dir id split flag)))).
Proof.
  intros dir id split flag Hok Hnz Hlen Hid Hsp. rewrite fq_run_unfold.
  destruct flag; unfold qfn, Clean.fmtqfn in *; cbv beta iota delta [b2z].
  - pose proof (fq_len_true dir id split Hok Hnz Hlen Hid Hsp) as H.
    destruct (C_fmtqfn.body _ _) as [st|v st|st|st|]; try contradiction.
    unfold fq_ret in H. cbv beta iota delta [retval option_map fst]. rewrite H. reflexivity.
  - pose proof (fq_len_false dir id split Hok Hnz Hlen Hid) as H.
    destruct (C_fmtqfn.body _ _) as [st|v st|st|st|]; try contradiction.
    unfold fq_ret in H. cbv beta iota delta [retval option_map fst]. rewrite H. reflexivity.
Qed.

(* ---- the checked variant ---- *)
Ltac kq_red v := eval cbv beta iota delta [K_fmtqfn.set_v_s K_fmtqfn.set_v_dirslash K_fmtqfn.set_v_id K_fmtqfn.set_v_flagsplit K_fmtqfn.set_v_len K_fmtqfn.set_v_i K_fmtqfn.set_v__oob
  K_fmtqfn.set_v_auto_split K_fmtqfn.set_a_s K_fmtqfn.set_a_dirslash
  K_fmtqfn.v_s K_fmtqfn.v_dirslash K_fmtqfn.v_id K_fmtqfn.v_flagsplit K_fmtqfn.v_len K_fmtqfn.v_i K_fmtqfn.v__oob K_fmtqfn.v_auto_split K_fmtqfn.a_s K_fmtqfn.a_dirslash] in v.
Ltac kq_simpl := cbv beta iota delta [K_fmtqfn.set_v_s K_fmtqfn.set_v_dirslash K_fmtqfn.set_v_id K_fmtqfn.set_v_flagsplit K_fmtqfn.set_v_len K_fmtqfn.set_v_i K_fmtqfn.set_v__oob
  K_fmtqfn.set_v_auto_split K_fmtqfn.set_a_s K_fmtqfn.set_a_dirslash
  K_fmtqfn.v_s K_fmtqfn.v_dirslash K_fmtqfn.v_id K_fmtqfn.v_flagsplit K_fmtqfn.v_len K_fmtqfn.v_i K_fmtqfn.v__oob K_fmtqfn.v_auto_split K_fmtqfn.a_s K_fmtqfn.a_dirslash].
Ltac kq_simplz := cbv beta iota zeta delta [K_fmtqfn.set_v_s K_fmtqfn.set_v_dirslash K_fmtqfn.set_v_id K_fmtqfn.set_v_flagsplit K_fmtqfn.set_v_len K_fmtqfn.set_v_i K_fmtqfn.set_v__oob
  K_fmtqfn.set_v_auto_split K_fmtqfn.set_a_s K_fmtqfn.set_a_dirslash
  K_fmtqfn.v_s K_fmtqfn.v_dirslash K_fmtqfn.v_id K_fmtqfn.v_flagsplit K_fmtqfn.v_len K_fmtqfn.v_i K_fmtqfn.v__oob K_fmtqfn.v_auto_split K_fmtqfn.a_s K_fmtqfn.a_dirslash].
Ltac kq_let_red := lazymatch goal with
  | |- ?P (let x := ?v in @?b x) => let v' := kq_red v in change (P (let x := v' in b x)); cbv beta
  | |- ?P (obind (let x := ?v in @?b x) ?k) => let v' := kq_red v in change (P (obind (let x := v' in b x) k)); cbv beta
  end.
Ltac kq_let := kq_let_red; st_let_zeta.
Ltac kq_call H := rewrite H; st_let_zeta; repeat kq_let.

Definition kq_post (o : outcome K_fmtqfn.st) : Prop := match o with OReturn _ st => K_fmtqfn.v__oob st = 0 | _ => False end.

Lemma kq_true (dir : bytes) (id split : N) (buf : list Z) :
  bytes_ok dir -> ~ In 0%N dir -> Z.of_nat (length dir) < 2 ^ 31 -> (id < 18446744073709551616)%N -> (0 < split < 2147483648)%N ->
  (length (dir ++ (fmt_ulong (id mod split) ++ [SLASH]) ++ fmt_ulong id) < length buf)%nat ->
  kq_post (K_fmtqfn.body (22 + length dir) {| K_fmtqfn.v_s := 0; K_fmtqfn.v_dirslash := 0; K_fmtqfn.v_id := Z.of_N id; K_fmtqfn.v_flagsplit := 1; K_fmtqfn.v_len := 0;
     K_fmtqfn.v_i := 0; K_fmtqfn.v__oob := 0; K_fmtqfn.v_auto_split := Z.of_N split; K_fmtqfn.a_s := buf; K_fmtqfn.a_dirslash := zs dir ++ [0] |}).
Proof.
  intros Hok Hnz Hlen Hid Hsp Hbuf. rewrite p31 in Hlen.
  remember (22 + length dir)%nat as fuel eqn:Efuel.
  assert (Hm : (id mod split < 18446744073709551616)%N) by (pose proof (mod_bound id split Hsp) as H; remember (id mod split)%N as m; lia).
  pose proof (fmt_ulong_len (id mod split)) as Hl2. pose proof (fmt_ulong_len id) as Hl4.
  rewrite !app_length in Hbuf. cbn [length] in Hbuf.
  cbv beta delta [K_fmtqfn.body].
  kq_let. kq_let. kq_let_red.
  lazymatch goal with |- context [K_fmt_str.run ?f ?a ?p ?t ?o] =>
    destruct (kfs_at f dir a p ltac:(lia) Hok Hnz ltac:(lia) ltac:(lia) ltac:(lia)) as (st1 & H1 & Ho1 & Hn1) end.
  kq_call H1.
  hide_all. kq_simplz. rewrite Ho1. change (Z.lor 0 0) with 0. ptr_ok. unwrap32. show_next.
  kq_simpl. st_else. kq_let_red. rewrite (rem_arg id split Hid Hsp).
  lazymatch goal with |- context [K_fmt_ulong.run ?f ?a ?p ?z] =>
    destruct (kfu_at f (id mod split) a p ltac:(lia) Hm ltac:(lia) ltac:(rewrite Hn1; lia)) as (st2 & H2 & Ho2 & Hn2) end.
  kq_call H2.
  hide_all. kq_simplz. rewrite Ho2. change (Z.lor 0 0) with 0. ptr_ok. unwrap32. show_next.
  change [47; 0] with (zs [SLASH] ++ [0]). kq_let_red.
  lazymatch goal with |- context [K_fmt_str.run ?f ?a ?p ?t ?o] =>
    destruct (kfs_at f [SLASH] a p ltac:(cbn [length]; lia) slash_ok slash_nz ltac:(lia) ltac:(rewrite Hn2, Hn1; cbn [length]; lia) ltac:(cbn [length]; lia))
      as (st3 & H3 & Ho3 & Hn3) end.
  kq_call H3.
  kq_simplz. rewrite Ho3. change (Z.lor 0 0) with 0. cbn [length]. ptr_ok. unwrap32. show_next.
  kq_let_red.
  lazymatch goal with |- context [K_fmt_ulong.run ?f ?a ?p ?z] =>
    destruct (kfu_at f id a p ltac:(lia) Hid ltac:(lia) ltac:(rewrite Hn3, Hn2, Hn1; lia)) as (st4 & H4 & Ho4 & Hn4) end.
  kq_call H4.
  hide_all. kq_simplz. rewrite Ho4. change (Z.lor 0 0) with 0. ptr_ok. unwrap32. show_next.
  hide_all. kq_simplz. ptr_ok. show_next. kq_simplz.
  unfold kq_post. kq_simplz. apply oob_keep, inb_true. rewrite Hn4, Hn3, Hn2, Hn1. lia.
Qed.

Lemma kq_false (dir : bytes) (id split : N) (buf : list Z) :
  bytes_ok dir -> ~ In 0%N dir -> Z.of_nat (length dir) < 2 ^ 31 -> (id < 18446744073709551616)%N ->
  (length (dir ++ [] ++ fmt_ulong id) < length buf)%nat ->
  kq_post (K_fmtqfn.body (22 + length dir) {| K_fmtqfn.v_s := 0; K_fmtqfn.v_dirslash := 0; K_fmtqfn.v_id := Z.of_N id; K_fmtqfn.v_flagsplit := 0; K_fmtqfn.v_len := 0;
     K_fmtqfn.v_i := 0; K_fmtqfn.v__oob := 0; K_fmtqfn.v_auto_split := Z.of_N split; K_fmtqfn.a_s := buf; K_fmtqfn.a_dirslash := zs dir ++ [0] |}).
Proof.
  intros Hok Hnz Hlen Hid Hbuf. rewrite p31 in Hlen.
  remember (22 + length dir)%nat as fuel eqn:Efuel.
  pose proof (fmt_ulong_len id) as Hl4.
  cbn [app] in Hbuf. rewrite !app_length in Hbuf.
  cbv beta delta [K_fmtqfn.body].
  kq_let. kq_let. kq_let_red.
  lazymatch goal with |- context [K_fmt_str.run ?f ?a ?p ?t ?o] =>
    destruct (kfs_at f dir a p ltac:(lia) Hok Hnz ltac:(lia) ltac:(lia) ltac:(lia)) as (st1 & H1 & Ho1 & Hn1) end.
  kq_call H1.
  hide_all. kq_simplz. rewrite Ho1. change (Z.lor 0 0) with 0. ptr_ok. unwrap32. show_next.
  kq_simpl. st_then. hide_all. show_next.
  kq_let_red.
  lazymatch goal with |- context [K_fmt_ulong.run ?f ?a ?p ?z] =>
    destruct (kfu_at f id a p ltac:(lia) Hid ltac:(lia) ltac:(rewrite Hn1; lia)) as (st4 & H4 & Ho4 & Hn4) end.
  kq_call H4.
  hide_all. kq_simplz. rewrite Ho4. change (Z.lor 0 0) with 0. ptr_ok. unwrap32. show_next.
  hide_all. kq_simplz. ptr_ok. show_next. kq_simplz.
  unfold kq_post. kq_simplz. apply oob_keep, inb_true. rewrite Hn4, Hn1. lia.
Qed.

Lemma kq_run_unfold f a s d ds id fl sp : K_fmtqfn.run f a s d ds id fl sp =
  match K_fmtqfn.body f {| K_fmtqfn.v_s := s; K_fmtqfn.v_dirslash := ds; K_fmtqfn.v_id := id; K_fmtqfn.v_flagsplit := fl; K_fmtqfn.v_len := 0;
     K_fmtqfn.v_i := 0; K_fmtqfn.v__oob := 0; K_fmtqfn.v_auto_split := sp; K_fmtqfn.a_s := a; K_fmtqfn.a_dirslash := d |} with
  | OReturn v s => Some (v, s)
  | ONormal s => Some (0, s)
  | _ => None
  end.
Proof. reflexivity. Qed.

(* REQUIRED 5 *)
Theorem safe_fmtqfn : forall (dir : bytes) (id split : N) (flag : bool) (buf : list Z),
  bytes_ok dir -> ~ In 0%N dir -> Z.of_nat (length dir) < 2 ^ 31 -> (id < 18446744073709551616)%N -> (0 < split < 2147483648)%N ->
  (length (qfn dir id split flag) < length buf)%nat ->
  option_map (fun r => K_fmtqfn.v__oob (snd r)) (K_fmtqfn.run (22 + length dir) buf 0 (zs dir ++ [0]) 0 (Z.of_N id) (b2z flag) (Z.of_N split)) = Some 0.
Proof.
  intros dir id split flag buf Hok Hnz Hlen Hid Hsp Hbuf. rewrite kq_run_unfold.
  destruct flag; unfold qfn, Clean.fmtqfn in *; cbv beta iota delta [b2z].
  - pose proof (kq_true dir id split buf Hok Hnz Hlen Hid Hsp Hbuf) as H.
    destruct (K_fmtqfn.body _ _) as [st|v st|st|st|]; try contradiction.
    unfold kq_post in H. cbv beta iota delta [option_map snd]. rewrite H. reflexivity.
  - pose proof (kq_false dir id split buf Hok Hnz Hlen Hid Hbuf) as H.
    destruct (K_fmtqfn.body _ _) as [st|v st|st|st|]; try contradiction.
    unfold kq_post in H. cbv beta iota delta [option_map snd]. rewrite H. reflexivity.
Qed.
