(* qmail-send.c squareroot(), scan_ulong.c, fmt_ulong.c, byte_chr.c, byte_rchr.c, str_chr.c as generated from today's
   sources  =  the models of Send/Sched.v, Base/CInt.v and the index functions the address models use.
   REQUIRED statements must be proved exactly as stated. *)
From Coq Require Import ZArith NArith List Lia.
From NQ Require Import Base.MiniC Base.Bytes Base.CInt Send.Sched Send.Route gen.CGen Tie.GenCommon.
Import ListNotations.
Local Open Scope Z_scope.
From Coq Require Import ZifyBool.
Ltac Zify.zify_post_hook ::= Z.div_mod_to_equations.

(* Proof conventions: nothing below mentions a generated variable name (s3, x5, ...); the generated run/body/loopK are
   unfolded, the setters and projections of the module are reduced by a per-module tactic (XX_simpl), and every loop
   lemma is an induction with the state written as a record literal. *)

(* ---------- numeric facts ---------- *)
Lemma wraps8_def v : wraps 8 v = (v + 128) mod 256 - 128. Proof. reflexivity. Qed.
Lemma wraps32_def v : wraps 32 v = (v + 2147483648) mod 4294967296 - 2147483648. Proof. reflexivity. Qed.
Lemma wraps64_def v : wraps 64 v = (v + 9223372036854775808) mod 18446744073709551616 - 9223372036854775808.
Proof. reflexivity. Qed.
Lemma wrapu8_def v : wrapu 8 v = v mod 256. Proof. reflexivity. Qed.
Lemma wrapu32_def v : wrapu 32 v = v mod 4294967296. Proof. reflexivity. Qed.
Lemma wrapu64_def v : wrapu 64 v = v mod 18446744073709551616. Proof. reflexivity. Qed.
Lemma pow2_31 : 2 ^ 31 = 2147483648. Proof. reflexivity. Qed.
Lemma pow2_32 : 2 ^ 32 = 4294967296. Proof. reflexivity. Qed.
Lemma pow2_64 : 2 ^ 64 = 18446744073709551616. Proof. reflexivity. Qed.

Lemma wraps8_small v : -128 <= v < 128 -> wraps 8 v = v.
Proof. intros; rewrite wraps8_def; lia. Qed.
Lemma wraps32_small v : -2147483648 <= v < 2147483648 -> wraps 32 v = v.
Proof. intros; rewrite wraps32_def; lia. Qed.
Lemma wraps64_small v : -9223372036854775808 <= v < 9223372036854775808 -> wraps 64 v = v.
Proof. intros; rewrite wraps64_def; lia. Qed.
Lemma wrapu8_small v : 0 <= v < 256 -> wrapu 8 v = v.
Proof. intros; rewrite wrapu8_def; lia. Qed.
Lemma wrapu32_small v : 0 <= v < 4294967296 -> wrapu 32 v = v.
Proof. intros; rewrite wrapu32_def; lia. Qed.
Lemma wrapu64_small v : 0 <= v < 18446744073709551616 -> wrapu 64 v = v.
Proof. intros; rewrite wrapu64_def; lia. Qed.

(* comparison of two chars *)
Lemma cmp_char x y : 0 <= x < 256 -> 0 <= y < 256 ->
  (wraps 32 (wraps 8 x) =? wraps 32 (wraps 8 y)) = (x =? y).
Proof.
  intros Hx Hy.
  assert (Hx8 : -128 <= wraps 8 x < 128) by (rewrite wraps8_def; lia).
  assert (Hy8 : -128 <= wraps 8 y < 128) by (rewrite wraps8_def; lia).
  rewrite !wraps32_small by lia.
  destruct (Z.eqb_spec x y) as [->|Hne]; [apply Z.eqb_refl|].
  apply Z.eqb_neq. rewrite !wraps8_def. lia.
Qed.

Lemma b2z_if {A} (b : bool) (x y : A) : (if b2z b =? 0 then x else y) = if b then y else x.
Proof. destruct b; reflexivity. Qed.

(* ---------- squareroot ---------- *)
Ltac sq_simpl := cbv [C_squareroot.set_v_x C_squareroot.set_v_y C_squareroot.set_v_yy C_squareroot.set_v_y21 C_squareroot.set_v_j
                      C_squareroot.v_x C_squareroot.v_y C_squareroot.v_yy C_squareroot.v_y21 C_squareroot.v_j].

(* the arithmetic of one round, for each of the sixteen values of j *)
Lemma sq_arith (j y : Z) : 0 <= j <= 15 -> 0 <= y <= 65536 - 2 ^ (j + 1) ->
  wraps 64 (wraps 64 (Z.shiftl y (wraps 32 (j + 1))) + wraps 64 (wraps 32 (Z.shiftl 1 (wraps 32 (j + j)))))
    = y * 2 ^ (j + 1) + 2 ^ (j + j)
  /\ wraps 32 (Z.shiftl 1 j) = 2 ^ j
  /\ 0 <= y * 2 ^ (j + 1) + 2 ^ (j + j) < 8589934592
  /\ 0 <= y + 2 ^ j <= 65536 - 2 ^ j /\ 0 < 2 ^ j.
Proof.
  intros Hj Hy.
  rewrite (wraps32_small (j + 1)) by lia. rewrite (wraps32_small (j + j)) by lia.
  rewrite !Z.shiftl_mul_pow2 by lia. rewrite !Z.mul_1_l.
  assert (Hc : j = 0 \/ j = 1 \/ j = 2 \/ j = 3 \/ j = 4 \/ j = 5 \/ j = 6 \/ j = 7 \/ j = 8 \/ j = 9 \/ j = 10
               \/ j = 11 \/ j = 12 \/ j = 13 \/ j = 14 \/ j = 15) by lia.
  repeat (destruct Hc as [Hc|Hc]; [subst j|]); try subst j.
  all: repeat match goal with |- context [2 ^ ?e] => let v := eval vm_compute in (2 ^ e) in change (2 ^ e) with v end.
  all: repeat match goal with H : context [2 ^ ?e] |- _ => let v := eval vm_compute in (2 ^ e) in change (2 ^ e) with v in H end.
  all: repeat match goal with
       | |- context [wraps 32 ?v] => rewrite (wraps32_small v) by lia
       | |- context [wraps 64 ?v] => rewrite (wraps64_small v) by lia
       end; lia.
Qed.

Lemma geb0 v : 0 <= v -> (v >=? 0) = true.
Proof. intros; rewrite Z.geb_leb; apply Z.leb_le; lia. Qed.

Lemma sq_loop_eq (f0 : nat) (x : Z) : 0 <= x < 4294967296 ->
  forall (j1 fuel : nat) (y yy y21 : Z), (j1 < fuel)%nat -> (j1 <= 16)%nat ->
  0 <= y <= 65536 - 2 ^ Z.of_nat j1 -> 0 <= yy <= x ->
  exists yy' y21',
    C_squareroot.loop1 f0 fuel {| C_squareroot.v_x := x; C_squareroot.v_y := y; C_squareroot.v_yy := yy;
                                  C_squareroot.v_y21 := y21; C_squareroot.v_j := Z.of_nat j1 - 1 |}
    = ONormal {| C_squareroot.v_x := x; C_squareroot.v_y := sq_loop j1 x y yy; C_squareroot.v_yy := yy';
                 C_squareroot.v_y21 := y21'; C_squareroot.v_j := -1 |}.
Proof.
  intros Hx. induction j1 as [|j IH]; intros fuel y yy y21 Hfuel Hj16 Hy Hyy;
    (destruct fuel as [|f]; [lia|]); cbn [C_squareroot.loop1 sq_loop]; sq_simpl.
  - change (Z.of_nat 0 - 1) with (-1). change (-1 >=? 0) with false. cbn [b2z]. change (0 =? 0) with true. cbv iota.
    eexists; eexists; reflexivity.
  - replace (Z.of_nat (S j) - 1) with (Z.of_nat j) by lia.
    rewrite geb0 by lia. cbn [b2z]. change (1 =? 0) with false. cbv iota.
    rewrite Nat2Z.inj_succ in Hy. unfold Z.succ in Hy.
    destruct (sq_arith (Z.of_nat j) y ltac:(lia) Hy) as (H21 & H2j & Hb21 & Hynew & H2pos).
    rewrite H21, H2j. rewrite (wraps64_small (x - yy)) by lia. rewrite b2z_if.
    set (y21n := y * 2 ^ (Z.of_nat j + 1) + 2 ^ (Z.of_nat j + Z.of_nat j)) in *.
    destruct (y21n <=? x - yy) eqn:Ele.
    + apply Z.leb_le in Ele.
      rewrite (wraps64_small y) by lia. rewrite (wraps64_small (2 ^ Z.of_nat j)) by lia.
      rewrite (wraps64_small (y + 2 ^ Z.of_nat j)) by lia. rewrite (wraps64_small (y + 2 ^ Z.of_nat j)) by lia.
      rewrite (wraps64_small yy) by lia.
      rewrite (wraps64_small (yy + y21n)) by lia. rewrite (wraps64_small (yy + y21n)) by lia.
      rewrite (wraps32_small (Z.of_nat j - 1)) by lia.
      apply IH; lia.
    + apply Z.leb_gt in Ele.
      rewrite (wraps32_small (Z.of_nat j - 1)) by lia.
      apply IH; lia.
Qed.

(* REQUIRED: the generated squareroot() is the model's for every 32-bit age (datetime_sec is long) *)
Theorem gen_squareroot_eq : forall x : Z, 0 <= x < 2 ^ 32 ->
  retval (C_squareroot.run 17 x) = Some (squareroot x).
Proof.
  intros x Hx. rewrite pow2_32 in Hx.
  unfold C_squareroot.run, C_squareroot.body. sq_simpl. cbn [obind].
  change (wraps 64 0) with 0.
  destruct (sq_loop_eq 17 x Hx 16 17 0 0 0 ltac:(lia) ltac:(lia)) as (yy' & y21' & Hl).
  - change (2 ^ Z.of_nat 16) with 65536. lia.
  - lia.
  - change (Z.of_nat 16 - 1) with 15 in Hl. rewrite Hl. cbn [obind retval option_map fst]. sq_simpl. unfold squareroot. reflexivity.
Qed.

(* index of the first occurrence of c, or the length *)
Fixpoint first_index (c : N) (s : bytes) : nat :=
  match s with [] => O | x :: s' => if N.eqb x c then O else S (first_index c s') end.

(* ---------- arrays ---------- *)
Lemma rd_nat (a : list Z) (k : nat) : rd a (Z.of_nat k) = nth k a 0.
Proof.
  unfold rd. destruct (Z.ltb_spec (Z.of_nat k) 0) as [H|H]; [lia|]. now rewrite Nat2Z.id.
Qed.
Lemma rd_zs (s : bytes) (k : nat) : rd (zs s) (Z.of_nat k) = Z.of_N (nth k s 0%N).
Proof. rewrite rd_nat. unfold zs. change 0 with (Z.of_N 0). apply map_nth. Qed.
Lemma rd_range (a : list Z) : Forall (fun x => 0 <= x < 256) a -> forall i, 0 <= rd a i < 256.
Proof.
  intros Ha i. unfold rd. destruct (i <? 0); [lia|].
  destruct (nth_in_or_default (Z.to_nat i) a 0) as [Hin | ->]; [|lia].
  rewrite Forall_forall in Ha. now apply Ha.
Qed.
Lemma zs_ok (s : bytes) : bytes_ok s -> Forall (fun x => 0 <= x < 256) (zs s).
Proof.
  unfold bytes_ok, zs. intros H. apply Forall_map. eapply Forall_impl; [|exact H]. simpl. lia.
Qed.
Lemma zs_app a b : zs (a ++ b) = zs a ++ zs b. Proof. apply map_app. Qed.
Lemma zs_length a : length (zs a) = length a. Proof. apply map_length. Qed.
(* reading just behind a prefix *)
Lemma rd_at_len (p l : list Z) : rd (p ++ l) (Z.of_nat (length p)) = hd 0 l.
Proof.
  rewrite rd_nat, app_nth2 by lia. rewrite Nat.sub_diag. now destruct l.
Qed.

(* ---------- a search over a Z array: first position in [t, t+k) holding c, or t+k ---------- *)
Fixpoint zfind (a : list Z) (c : Z) (k : nat) (t : Z) : Z :=
  match k with O => t | S k' => if rd a t =? c then t else zfind a c k' (t + 1) end.

Lemma zfind_first_index (c : N) (rest pre : bytes) (tl : list Z) :
  zfind (zs (pre ++ rest) ++ tl) (Z.of_N c) (length rest) (Z.of_nat (length pre))
  = Z.of_nat (length pre + first_index c rest).
Proof.
  revert pre. induction rest as [|x rest IH]; intros pre; cbn [zfind first_index length].
  - f_equal; lia.
  - assert (Hrd : rd (zs (pre ++ x :: rest) ++ tl) (Z.of_nat (length pre)) = Z.of_N x).
    { rewrite zs_app, <- app_assoc, <- (zs_length pre), rd_at_len. reflexivity. }
    rewrite Hrd.
    destruct (N.eqb_spec x c) as [->|Hne].
    + rewrite Z.eqb_refl. f_equal; lia.
    + destruct (Z.eqb_spec (Z.of_N x) (Z.of_N c)) as [E|_]; [apply N2Z.inj in E; contradiction|].
      specialize (IH (pre ++ [x])). rewrite <- app_assoc in IH. cbn [app] in IH.
      rewrite app_length in IH. cbn [length] in IH.
      replace (Z.of_nat (length pre) + 1) with (Z.of_nat (length pre + 1)) by lia.
      rewrite IH. f_equal; lia.
Qed.

(* ---------- byte_chr ---------- *)
Ltac bc_simpl := cbv [C_byte_chr.set_v_s C_byte_chr.set_v_n C_byte_chr.set_v_c C_byte_chr.set_v_ch C_byte_chr.set_v_t C_byte_chr.set_a_s
                      C_byte_chr.v_s C_byte_chr.v_n C_byte_chr.v_c C_byte_chr.v_ch C_byte_chr.v_t C_byte_chr.a_s].

Lemma of_nat_S_eqb k : (Z.of_nat (S k) =? 0) = false.
Proof. apply Z.eqb_neq; lia. Qed.

(* one copy of the four-times unrolled loop body *)
Ltac bc_step k Ha Hc :=
  destruct k as [|k]; [ cbn [Z.of_nat]; change (0 =? 0) with true; cbn [b2z obind zfind]; change (1 =? 0) with false; cbv iota; eexists; reflexivity | ];
  rewrite of_nat_S_eqb; cbn [b2z]; change (0 =? 0) with true; cbv iota; cbn [obind]; bc_simpl;
  rewrite (cmp_char _ _ (Ha _) Hc); cbn [zfind];
  match goal with |- context [rd ?a ?t =? ?c] => destruct (rd a t =? c) end;
  [ cbn [b2z]; change (1 =? 0) with false; cbv iota; cbn [obind]; eexists; reflexivity | ];
  cbn [b2z]; change (0 =? 0) with true; cbv iota; cbn [obind]; bc_simpl;
  replace (wrapu 32 (Z.of_nat (S k) - 1)) with (Z.of_nat k) by (rewrite wrapu32_small; lia).

Lemma bc_loop (a : list Z) (c : Z) (f0 : nat) (s0 cc : Z) :
  (forall i, 0 <= rd a i < 256) -> 0 <= c < 256 ->
  forall fuel k t, (k < fuel)%nat -> Z.of_nat k < 4294967296 ->
  exists n', C_byte_chr.loop1 f0 fuel {| C_byte_chr.v_s := s0; C_byte_chr.v_n := Z.of_nat k; C_byte_chr.v_c := cc; C_byte_chr.v_ch := wraps 8 c; C_byte_chr.v_t := t; C_byte_chr.a_s := a |}
    = ONormal {| C_byte_chr.v_s := s0; C_byte_chr.v_n := n'; C_byte_chr.v_c := cc; C_byte_chr.v_ch := wraps 8 c; C_byte_chr.v_t := zfind a c k t; C_byte_chr.a_s := a |}.
Proof.
  intros Ha Hc. induction fuel as [|f IH]; intros k t Hk Hk32; [lia|].
  cbn [C_byte_chr.loop1]. change (1 =? 0) with false. cbv iota. bc_simpl.
  bc_step k Ha Hc. bc_step k Ha Hc. bc_step k Ha Hc. bc_step k Ha Hc.
  apply IH; lia.
Qed.

(* REQUIRED: byte_chr(s, n, c) with n = the whole array and a byte-valued c (the C code compares as char) *)
Theorem gen_byte_chr_eq : forall (s : bytes) (c : N), bytes_ok s -> (c < 256)%N -> Z.of_nat (length s) < 2 ^ 32 ->
  retval (C_byte_chr.run (S (length s)) (zs s) 0 (Z.of_nat (length s)) (Z.of_N c)) = Some (Z.of_nat (first_index c s)).
Proof.
  intros s c Hs Hc Hlen. rewrite pow2_32 in Hlen.
  unfold C_byte_chr.run, C_byte_chr.body. bc_simpl.
  destruct (bc_loop (zs s) (Z.of_N c) (S (length s)) 0 (Z.of_N c) (rd_range _ (zs_ok _ Hs)) ltac:(lia)
              (S (length s)) (length s) 0 ltac:(lia) Hlen) as [n' Hl].
  rewrite Hl. cbn [obind retval option_map fst]. bc_simpl.
  pose proof (zfind_first_index c s [] []) as Hz. cbn [app length Z.of_nat] in Hz. rewrite app_nil_r in Hz.
  rewrite Hz. cbn [Nat.add]. f_equal. rewrite Z.sub_0_r. apply wrapu32_small.
  assert (first_index c s <= length s)%nat by (clear; induction s as [|x s IH]; cbn; [lia|destruct (N.eqb x c); lia]).
  lia.
Qed.

(* ---------- byte_rchr ---------- *)
Ltac br_simpl := cbv [C_byte_rchr.set_v_s C_byte_rchr.set_v_n C_byte_rchr.set_v_c C_byte_rchr.set_v_ch C_byte_rchr.set_v_t
                      C_byte_rchr.set_v_u C_byte_rchr.set_a_s
                      C_byte_rchr.v_s C_byte_rchr.v_n C_byte_rchr.v_c C_byte_rchr.v_ch C_byte_rchr.v_t C_byte_rchr.v_u C_byte_rchr.a_s].

(* last position in [t, t+k) holding c, or u *)
Fixpoint zrfind (a : list Z) (c : Z) (k : nat) (t u : Z) : Z :=
  match k with O => u | S k' => zrfind a c k' (t + 1) (if rd a t =? c then t else u) end.

Lemma zrfind_rchr (c : N) (rest pre : bytes) (tl : list Z) (u : Z) :
  zrfind (zs (pre ++ rest) ++ tl) (Z.of_N c) (length rest) (Z.of_nat (length pre)) u
  = match rchr_opt rest c with Some i => Z.of_nat (length pre + i) | None => u end.
Proof.
  revert pre u. induction rest as [|x rest IH]; intros pre u; cbn [zrfind rchr_opt length]; [reflexivity|].
  assert (Hrd : rd (zs (pre ++ x :: rest) ++ tl) (Z.of_nat (length pre)) = Z.of_N x).
  { rewrite zs_app, <- app_assoc, <- (zs_length pre), rd_at_len. reflexivity. }
  rewrite Hrd.
  specialize (IH (pre ++ [x])). rewrite <- app_assoc in IH. cbn [app] in IH.
  rewrite app_length in IH. cbn [length] in IH.
  replace (Z.of_nat (length pre) + 1) with (Z.of_nat (length pre + 1)) by lia.
  rewrite IH. destruct (rchr_opt rest c) as [i|]; [f_equal; lia|].
  destruct (N.eqb_spec x c) as [->|Hne].
  - rewrite Z.eqb_refl. f_equal; lia.
  - destruct (Z.eqb_spec (Z.of_N x) (Z.of_N c)) as [E|_]; [apply N2Z.inj in E; contradiction|reflexivity].
Qed.

Lemma rchr_opt_lt s c i : rchr_opt s c = Some i -> (i < length s)%nat.
Proof.
  revert i. induction s as [|x s IH]; intros i; cbn [rchr_opt length]; [discriminate|].
  destruct (rchr_opt s c) as [j|].
  - intros E; injection E as <-. specialize (IH j eq_refl). lia.
  - destruct (N.eqb x c); [intros E; injection E as <-; lia|discriminate].
Qed.

(* one copy of the four-times unrolled loop body *)
Ltac br_step k Ha Hc :=
  destruct k as [|k]; [ cbn [Z.of_nat]; change (0 =? 0) with true; cbn [b2z obind zrfind]; change (1 =? 0) with false; cbv iota;
                        eexists; eexists; split; [reflexivity|lia] | ];
  rewrite of_nat_S_eqb; cbn [b2z]; change (0 =? 0) with true; cbv iota; cbn [obind]; br_simpl;
  rewrite (cmp_char _ _ (Ha _) Hc); cbn [zrfind];
  match goal with |- context [rd ?a ?t =? ?c] => destruct (rd a t =? c) end;
  cbn [b2z]; change (0 =? 0) with true; change (1 =? 0) with false; cbv iota; cbn [obind]; br_simpl;
  replace (wrapu 32 (Z.of_nat (S k) - 1)) with (Z.of_nat k) by (rewrite wrapu32_small; lia).

Lemma br_loop (a : list Z) (c : Z) (f0 : nat) (s0 cc : Z) :
  (forall i, 0 <= rd a i < 256) -> 0 <= c < 256 ->
  forall fuel k t u, (k < fuel)%nat -> Z.of_nat k < 4294967296 ->
  exists n' t', C_byte_rchr.loop1 f0 fuel {| C_byte_rchr.v_s := s0; C_byte_rchr.v_n := Z.of_nat k; C_byte_rchr.v_c := cc;
         C_byte_rchr.v_ch := wraps 8 c; C_byte_rchr.v_t := t; C_byte_rchr.v_u := u; C_byte_rchr.a_s := a |}
    = ONormal {| C_byte_rchr.v_s := s0; C_byte_rchr.v_n := n'; C_byte_rchr.v_c := cc;
         C_byte_rchr.v_ch := wraps 8 c; C_byte_rchr.v_t := t'; C_byte_rchr.v_u := zrfind a c k t u; C_byte_rchr.a_s := a |}
    /\ t' = t + Z.of_nat k.
Proof.
  intros Ha Hc. induction fuel as [|f IH]; intros k t u Hk Hk32; [lia|].
  cbn [C_byte_rchr.loop1]. change (1 =? 0) with false. cbv iota. br_simpl.
  br_step k Ha Hc; br_step k Ha Hc; br_step k Ha Hc; br_step k Ha Hc;
  (match goal with |- context [zrfind a c k ?t' ?u'] =>
    destruct (IH k t' u' ltac:(lia) ltac:(lia)) as (n' & t'' & Hl & Ht'') end;
   exists n', t''; split; [exact Hl | lia]).
Qed.

(* REQUIRED: byte_rchr = the model's rchr (last occurrence, or the length) *)
Theorem gen_byte_rchr_eq : forall (s : bytes) (c : N), bytes_ok s -> (c < 256)%N -> Z.of_nat (length s) < 2 ^ 32 ->
  retval (C_byte_rchr.run (S (length s)) (zs s) 0 (Z.of_nat (length s)) (Z.of_N c)) = Some (Z.of_nat (rchr s c)).
Proof.
  intros s c Hs Hc Hlen. rewrite pow2_32 in Hlen.
  unfold C_byte_rchr.run, C_byte_rchr.body. br_simpl.
  destruct (br_loop (zs s) (Z.of_N c) (S (length s)) 0 (Z.of_N c) (rd_range _ (zs_ok _ Hs)) ltac:(lia)
              (S (length s)) (length s) 0 (-1) ltac:(lia) Hlen) as (n' & t' & Hl & Ht').
  rewrite Hl. cbn [obind]. br_simpl.
  pose proof (zrfind_rchr c s [] [] (-1)) as Hz. cbn [app length Z.of_nat] in Hz. rewrite app_nil_r in Hz.
  rewrite Hz. unfold rchr. rewrite b2z_if.
  destruct (rchr_opt s c) as [i|] eqn:Er.
  - apply rchr_opt_lt in Er. cbn [Nat.add].
    destruct (Z.eqb_spec (Z.of_nat i) (-1)) as [E|_]; [lia|].
    cbn [obind retval option_map fst]. br_simpl. f_equal. rewrite Z.sub_0_r. apply wrapu32_small. lia.
  - change (-1 =? -1) with true. cbv iota. cbn [obind retval option_map fst]. br_simpl.
    f_equal. subst t'. rewrite Z.sub_0_r. apply wrapu32_small. lia.
Qed.

(* ---------- str_chr ---------- *)
Ltac sc_simpl := cbv [C_str_chr.set_v_s C_str_chr.set_v_c C_str_chr.set_v_ch C_str_chr.set_v_t C_str_chr.set_a_s
                      C_str_chr.v_s C_str_chr.v_c C_str_chr.v_ch C_str_chr.v_t C_str_chr.a_s].

Lemma wraps8_nz v : 0 <= v < 256 -> v <> 0 -> (wraps 8 v =? 0) = false.
Proof. intros Hv Hnz. apply Z.eqb_neq. rewrite wraps8_def. lia. Qed.

Lemma first_index_le c s : (first_index c s <= length s)%nat.
Proof. induction s as [|x s IH]; cbn; [lia|destruct (N.eqb x c); lia]. Qed.

(* one copy of the four-times unrolled loop body *)
Ltac sc_step k a Ha Hc He Hnz :=
  destruct k as [|k];
  [ match goal with |- context [zfind a _ O ?t'] =>
      replace (rd a t') with 0 by (rewrite <- He; f_equal; lia) end;
    change (wraps 8 0 =? 0) with true; cbn [b2z obind zfind]; change (1 =? 0) with false; cbv iota; reflexivity | ];
  match goal with |- context [zfind a _ (S k) ?t'] =>
    let H := fresh "Hnz'" in
    assert (H : rd a t' <> 0) by (apply Hnz; lia);
    rewrite (wraps8_nz _ (Ha t') H) end;
  cbn [b2z]; change (0 =? 0) with true; cbv iota; cbn [obind]; sc_simpl;
  rewrite (cmp_char _ _ (Ha _) Hc); cbn [zfind];
  match goal with |- context [rd ?a ?t =? ?c] => destruct (rd a t =? c) end;
  [ cbn [b2z]; change (1 =? 0) with false; cbv iota; cbn [obind]; reflexivity | ];
  cbn [b2z]; change (0 =? 0) with true; cbv iota; cbn [obind]; sc_simpl.

Lemma sc_loop (a : list Z) (c e : Z) (f0 : nat) (s0 cc : Z) :
  (forall i, 0 <= rd a i < 256) -> 0 <= c < 256 -> rd a e = 0 ->
  forall fuel k t, (k < fuel)%nat -> t + Z.of_nat k = e -> (forall j, t <= j < e -> rd a j <> 0) ->
  C_str_chr.loop1 f0 fuel {| C_str_chr.v_s := s0; C_str_chr.v_c := cc; C_str_chr.v_ch := wraps 8 c; C_str_chr.v_t := t; C_str_chr.a_s := a |}
    = ONormal {| C_str_chr.v_s := s0; C_str_chr.v_c := cc; C_str_chr.v_ch := wraps 8 c; C_str_chr.v_t := zfind a c k t; C_str_chr.a_s := a |}.
Proof.
  intros Ha Hc He. induction fuel as [|f IH]; intros k t Hk Hte Hnz; [lia|].
  cbn [C_str_chr.loop1]. change (1 =? 0) with false. cbv iota. sc_simpl.
  sc_step k a Ha Hc He Hnz. sc_step k a Ha Hc He Hnz. sc_step k a Ha Hc He Hnz. sc_step k a Ha Hc He Hnz.
  apply IH; [lia|lia|]. intros j Hj. apply Hnz. lia.
Qed.

(* REQUIRED: str_chr on a NUL-terminated string without inner NUL: first occurrence of c (c <> 0), or the length *)
Theorem gen_str_chr_eq : forall (s : bytes) (c : N), bytes_ok s -> ~ In 0%N s -> (0 < c < 256)%N -> Z.of_nat (length s) < 2 ^ 31 ->
  retval (C_str_chr.run (S (length s)) (zs s ++ [0]) 0 (Z.of_N c)) = Some (Z.of_nat (first_index c s)).
Proof.
  intros s c Hs Hnul Hc Hlen. rewrite pow2_31 in Hlen.
  unfold C_str_chr.run, C_str_chr.body. sc_simpl.
  assert (Ha : forall i, 0 <= rd (zs s ++ [0]) i < 256).
  { apply rd_range. apply Forall_app. split; [now apply zs_ok|]. constructor; [lia|constructor]. }
  assert (He : rd (zs s ++ [0]) (Z.of_nat (length s)) = 0).
  { rewrite <- (zs_length s). apply rd_at_len. }
  rewrite (sc_loop (zs s ++ [0]) (Z.of_N c) (Z.of_nat (length s)) (S (length s)) 0 (Z.of_N c) Ha ltac:(lia) He
            (S (length s)) (length s) 0 ltac:(lia) ltac:(lia)).
  - cbn [obind retval option_map fst]. sc_simpl.
    pose proof (zfind_first_index c s [] [0]) as Hz. cbn [app length Z.of_nat] in Hz.
    rewrite Hz. cbn [Nat.add]. f_equal. rewrite Z.sub_0_r. apply wrapu32_small.
    pose proof (first_index_le c s). lia.
  - intros j Hj. replace j with (Z.of_nat (Z.to_nat j)) by lia.
    rewrite rd_nat, app_nth1 by (rewrite zs_length; lia).
    rewrite <- rd_nat, rd_zs. intros E.
    apply Hnul. replace 0%N with (nth (Z.to_nat j) s 0%N) by lia. apply nth_In. lia.
Qed.

(* ---------- scan_ulong ---------- *)
Ltac su_simpl := cbv [C_scan_ulong.set_v_s C_scan_ulong.set_v_u C_scan_ulong.set_v_pos C_scan_ulong.set_v_result
                      C_scan_ulong.set_v_c C_scan_ulong.set_a_s C_scan_ulong.set_a_u
                      C_scan_ulong.v_s C_scan_ulong.v_u C_scan_ulong.v_pos C_scan_ulong.v_result C_scan_ulong.v_c
                      C_scan_ulong.a_s C_scan_ulong.a_u].

(* (unsigned long)(unsigned char)(ch - '0') *)
Notation digit_of x := (wrapu 64 (wrapu 8 (wraps 32 (wraps 32 (wraps 8 x) - 48)))) (only parsing).

Lemma digit_of_spec (x : N) : (x < 256)%N ->
  (digit_of (Z.of_N x) <? 10) = is_digit x /\ (is_digit x = true -> digit_of (Z.of_N x) = Z.of_N (x - 48)).
Proof.
  intros Hx. unfold is_digit.
  assert (H8 : wraps 8 (Z.of_N x) = if Z.of_N x <? 128 then Z.of_N x else Z.of_N x - 256).
  { rewrite wraps8_def. destruct (Z.ltb_spec (Z.of_N x) 128); lia. }
  rewrite H8.
  destruct (Z.ltb_spec (Z.of_N x) 128) as [Hlt|Hge].
  - rewrite (wraps32_small (Z.of_N x)) by lia. rewrite wraps32_small by lia.
    rewrite wrapu8_def. rewrite wrapu64_small by lia. split; [|intros Hd]; lia.
  - rewrite (wraps32_small (Z.of_N x - 256)) by lia. rewrite wraps32_small by lia.
    rewrite wrapu8_def. rewrite wrapu64_small by lia. split; [|intros Hd]; lia.
Qed.

Lemma su_result (acc d : N) : (acc < 18446744073709551616)%N ->
  wrapu 64 (wrapu 64 (Z.of_N acc * 10) + Z.of_N d) = Z.of_N ((acc * 10 + d) mod U64).
Proof.
  intros Hacc. rewrite !wrapu64_def. unfold U64.
  rewrite N2Z.inj_mod, N2Z.inj_add, N2Z.inj_mul.
  change (Z.of_N 18446744073709551616) with 18446744073709551616. change (Z.of_N 10) with 10.
  apply Z.add_mod_idemp_l. lia.
Qed.

Lemma su_loop (f0 : nat) (u0 : Z) (au : list Z) :
  forall (rest pre : bytes) (acc : N) (cv : Z) (fuel : nat),
  (length rest < fuel)%nat -> bytes_ok (pre ++ rest) -> (acc < 18446744073709551616)%N ->
  Z.of_nat (length (pre ++ rest)) < 4294967296 ->
  exists cv', C_scan_ulong.loop1 f0 fuel
     {| C_scan_ulong.v_s := 0; C_scan_ulong.v_u := u0; C_scan_ulong.v_pos := Z.of_nat (length pre);
        C_scan_ulong.v_result := Z.of_N acc; C_scan_ulong.v_c := cv;
        C_scan_ulong.a_s := zs (pre ++ rest) ++ [0]; C_scan_ulong.a_u := au |}
   = ONormal
     {| C_scan_ulong.v_s := 0; C_scan_ulong.v_u := u0;
        C_scan_ulong.v_pos := Z.of_nat (snd (scan_from rest acc (length pre)));
        C_scan_ulong.v_result := Z.of_N (fst (scan_from rest acc (length pre))); C_scan_ulong.v_c := cv';
        C_scan_ulong.a_s := zs (pre ++ rest) ++ [0]; C_scan_ulong.a_u := au |}.
Proof.
  induction rest as [|x rest IH]; intros pre acc cv fuel Hfuel Hok Hacc Hlen;
    (destruct fuel as [|f]; [cbn [length] in Hfuel; lia|]);
    cbn [C_scan_ulong.loop1]; su_simpl; rewrite Z.add_0_l; change (wrapu 64 10) with 10.
  - assert (Hrd : rd (zs (pre ++ []) ++ [0]) (Z.of_nat (length pre)) = Z.of_N 0).
    { rewrite app_nil_r, <- (zs_length pre). apply rd_at_len. }
    rewrite Hrd.
    destruct (digit_of_spec 0%N ltac:(lia)) as [Hd _]. rewrite Hd.
    change (is_digit 0) with false. cbn [b2z scan_from fst snd]. change (0 =? 0) with true. cbv iota.
    eexists; reflexivity.
  - assert (Hrd : rd (zs (pre ++ x :: rest) ++ [0]) (Z.of_nat (length pre)) = Z.of_N x).
    { rewrite zs_app, <- app_assoc, <- (zs_length pre), rd_at_len. reflexivity. }
    rewrite Hrd.
    assert (Hx : (x < 256)%N).
    { unfold bytes_ok in Hok. rewrite Forall_forall in Hok. apply Hok. apply in_or_app. right. now left. }
    destruct (digit_of_spec x Hx) as [Hd Hv]. rewrite Hd. cbn [scan_from].
    destruct (is_digit x) eqn:Ed.
    + cbn [b2z]. change (1 =? 0) with false. cbv iota. rewrite (Hv eq_refl).
      rewrite su_result by exact Hacc.
      assert (Hpre : pre ++ x :: rest = (pre ++ [x]) ++ rest) by (rewrite <- app_assoc; reflexivity).
      replace (wrapu 32 (Z.of_nat (length pre) + 1)) with (Z.of_nat (length (pre ++ [x]))).
      2:{ rewrite app_length in *. cbn [length] in *. rewrite wrapu32_small; lia. }
      replace (S (length pre)) with (length (pre ++ [x])) by (rewrite app_length; cbn [length]; lia).
      rewrite Hpre. apply IH.
      * cbn [length] in Hfuel. lia.
      * rewrite <- Hpre. exact Hok.
      * apply (N.mod_upper_bound _ U64). discriminate.
      * rewrite <- Hpre. exact Hlen.
    + cbn [b2z fst snd]. change (0 =? 0) with true. cbv iota. eexists; reflexivity.
Qed.

(* REQUIRED: scan_ulong on a NUL-terminated string: value mod 2^64 stored through the pointer, digits consumed returned *)
Theorem gen_scan_ulong_eq : forall (s : bytes) (old : Z), bytes_ok s -> ~ In 0%N s -> Z.of_nat (length s) < 2 ^ 32 ->
  option_map (fun r => (fst r, C_scan_ulong.a_u (snd r))) (C_scan_ulong.run (S (length s)) (zs s ++ [0]) 0 [old] 0)
  = Some (Z.of_nat (snd (scan_ulong s)), [Z.of_N (fst (scan_ulong s))]).
Proof.
  intros s old Hs _ Hlen. rewrite pow2_32 in Hlen.
  unfold C_scan_ulong.run, C_scan_ulong.body. su_simpl.
  change (wrapu 32 0) with (Z.of_nat (@length N [])). change (wrapu 64 0) with (Z.of_N 0).
  destruct (su_loop (S (length s)) 0 [old] s [] 0%N 0 (S (length s)) ltac:(lia) Hs ltac:(lia) Hlen) as [cv' Hl].
  cbn [app] in Hl. rewrite Hl. cbn [obind option_map fst snd]. su_simpl.
  unfold scan_ulong. cbn [length].
  set (r := scan_from s 0 0).
  assert (Hr : (fst r < 18446744073709551616)%N).
  { subst r. generalize 0%nat. assert (H0 : (0 < 18446744073709551616)%N) by lia. revert H0. generalize 0%N.
    clear. induction s as [|x s IH]; intros acc Hacc p; cbn [scan_from]; [exact Hacc|].
    destruct (is_digit x); [|exact Hacc]. apply IH. apply (N.mod_upper_bound _ U64). discriminate. }
  rewrite wrapu64_small by lia. reflexivity.
Qed.

(* ---------- fmt_ulong ---------- *)
Ltac fu_simpl := cbv [C_fmt_ulong.set_v_s C_fmt_ulong.set_v_u C_fmt_ulong.set_v_len C_fmt_ulong.set_v_q C_fmt_ulong.set_a_s
                      C_fmt_ulong.v_s C_fmt_ulong.v_u C_fmt_ulong.v_len C_fmt_ulong.v_q C_fmt_ulong.a_s].

(* ---- the model ---- *)
Lemma fmt_aux_acc fm : forall u acc, fmt_aux fm u acc = fmt_aux fm u [] ++ acc.
Proof.
  induction fm as [|f IH]; intros u acc; cbn [fmt_aux]; [reflexivity|].
  destruct (u / 10 =? 0)%N; [reflexivity|].
  rewrite (IH _ (_ :: acc)), (IH _ [_]), <- app_assoc. reflexivity.
Qed.
Lemma fmt_S f u : fmt_aux (S f) u [] =
  if (u / 10 =? 0)%N then [(48 + u mod 10)%N] else fmt_aux f (u / 10) [] ++ [(48 + u mod 10)%N].
Proof. cbn [fmt_aux]. destruct (u / 10 =? 0)%N; [reflexivity|apply fmt_aux_acc]. Qed.
Lemma fmt_len_le fm : forall u, (length (fmt_aux fm u []) <= fm)%nat.
Proof.
  induction fm as [|f IH]; intros u; [cbn; lia|]. rewrite fmt_S.
  destruct (u / 10 =? 0)%N; [cbn; lia|]. rewrite app_length. cbn [length]. specialize (IH (u / 10)%N). lia.
Qed.
Lemma fmt_len_pos f u : (1 <= length (fmt_aux (S f) u []))%nat.
Proof. rewrite fmt_S. destruct (u / 10 =? 0)%N; [cbn; lia|]. rewrite app_length. cbn [length]. lia. Qed.

Definition p10 (n : nat) : N := (10 ^ N.of_nat n)%N.
Lemma p10_S n : p10 (S n) = (10 * p10 n)%N.
Proof. unfold p10. rewrite Nat2N.inj_succ. apply N.pow_succ_r'. Qed.
Lemma p10_1 : p10 1 = 10%N. Proof. reflexivity. Qed.

(* ---- the C arithmetic ---- *)
Lemma fu_quot (u : N) : (u < 18446744073709551616)%N ->
  wrapu 64 (wrapu 64 (Z.quot (wrapu 64 (Z.of_N u)) 10)) = Z.of_N (u / 10).
Proof.
  intros Hu. rewrite (wrapu64_small (Z.of_N u)) by lia. rewrite Z.quot_div_nonneg by lia.
  rewrite N2Z.inj_div. change (Z.of_N 10) with 10.
  rewrite (wrapu64_small (Z.of_N u / 10)) by lia. apply wrapu64_small. lia.
Qed.
Lemma fu_digit (u : N) :
  wrapu 8 (wraps 8 (wrapu 64 (48 + wrapu 64 (Z.rem (Z.of_N u) 10)))) = Z.of_N (48 + u mod 10).
Proof.
  rewrite Z.rem_mod_nonneg by lia.
  rewrite N2Z.inj_add, N2Z.inj_mod. change (Z.of_N 10) with 10. change (Z.of_N 48) with 48.
  assert (H : 0 <= Z.of_N u mod 10 < 10) by (apply Z.mod_pos_bound; lia).
  rewrite (wrapu64_small (Z.of_N u mod 10)) by lia. rewrite wrapu64_small by lia.
  rewrite wraps8_small by lia. apply wrapu8_small. lia.
Qed.

Lemma wr_at_len (p : list Z) x l v : wr (p ++ x :: l) (Z.of_nat (length p)) v = p ++ v :: l.
Proof.
  unfold wr. destruct (Z.ltb_spec (Z.of_nat (length p)) 0) as [H|_]; [lia|]. rewrite Nat2Z.id.
  induction p as [|y p IH]; cbn [app length wr_nat]; [reflexivity|now rewrite IH].
Qed.
Lemma firstn_app_le {A} n (l1 l2 : list A) : (n <= length l1)%nat -> firstn n (l1 ++ l2) = firstn n l1.
Proof.
  intros H. rewrite firstn_app. replace (n - length l1)%nat with O by lia. cbn [firstn]. apply app_nil_r.
Qed.

(* ---- first loop: the length ---- *)
Lemma fu_loop1 (f0 : nat) (s0 u0 : Z) (a : list Z) :
  forall (fm : nat) (u : N) (l : Z) (fuel : nat), (S fm <= fuel)%nat -> (u < p10 (S fm))%N ->
  (u < 18446744073709551616)%N -> 0 <= l -> l + Z.of_nat (S fm) < 4294967296 ->
  exists q' l',
    C_fmt_ulong.loop1 f0 fuel {| C_fmt_ulong.v_s := s0; C_fmt_ulong.v_u := u0; C_fmt_ulong.v_len := l;
                                 C_fmt_ulong.v_q := Z.of_N u; C_fmt_ulong.a_s := a |}
    = ONormal {| C_fmt_ulong.v_s := s0; C_fmt_ulong.v_u := u0; C_fmt_ulong.v_len := l';
                 C_fmt_ulong.v_q := q'; C_fmt_ulong.a_s := a |}
    /\ l' = l + Z.of_nat (length (fmt_aux (S fm) u [])) - 1.
Proof.
  induction fm as [|fm IH]; intros u l fuel Hfuel Hu Hu64 Hl Hl32;
    (destruct fuel as [|f]; [lia|]); cbn [C_fmt_ulong.loop1]; fu_simpl;
    change (wrapu 64 9) with 9; change (wrapu 64 10) with 10; rewrite b2z_if, Z.gtb_ltb, fmt_S;
    (destruct (N.eqb_spec (u / 10) 0) as [E|E];
     [ destruct (Z.ltb_spec 9 (Z.of_N u)) as [H9|H9]; [lia|];
       eexists; eexists; split; [reflexivity|cbn [length]; lia] | ]).
  - rewrite p10_1 in Hu. lia.
  - destruct (Z.ltb_spec 9 (Z.of_N u)) as [H9|H9]; [|lia].
    rewrite fu_quot by exact Hu64. rewrite (wrapu32_small (l + 1)) by lia.
    rewrite p10_S in Hu.
    destruct (IH (u / 10)%N (l + 1) f ltac:(lia) ltac:(lia) ltac:(lia) ltac:(lia) ltac:(lia)) as (q' & l' & Hl1 & Hl').
    exists q', l'. split; [exact Hl1|]. rewrite app_length. cbn [length]. lia.
Qed.

(* ---- second loop: the digits, written backwards from the end of L ---- *)
Lemma fu_loop2 (f0 : nat) (l q : Z) :
  forall (fm : nat) (u : N) (L R : list Z) (fuel : nat), (S fm <= fuel)%nat -> (u < p10 (S fm))%N ->
  (u < 18446744073709551616)%N -> (length (fmt_aux (S fm) u []) <= length L)%nat ->
  C_fmt_ulong.loop2 f0 fuel {| C_fmt_ulong.v_s := Z.of_nat (length L); C_fmt_ulong.v_u := Z.of_N u; C_fmt_ulong.v_len := l;
                               C_fmt_ulong.v_q := q; C_fmt_ulong.a_s := L ++ R |}
  = ONormal {| C_fmt_ulong.v_s := Z.of_nat (length L - length (fmt_aux (S fm) u [])); C_fmt_ulong.v_u := 0;
               C_fmt_ulong.v_len := l; C_fmt_ulong.v_q := q;
               C_fmt_ulong.a_s := firstn (length L - length (fmt_aux (S fm) u [])) L ++ zs (fmt_aux (S fm) u []) ++ R |}.
Proof.
  induction fm as [|fm IH]; intros u L R fuel Hfuel Hu Hu64 HL;
    (destruct fuel as [|f]; [lia|]);
    (destruct (exists_last (l := L)) as (L' & x & ->);
     [ intros ->; match type of HL with (length (fmt_aux (S ?m) _ _) <= _)%nat => pose proof (fmt_len_pos m u) end; cbn [length] in HL; lia | ]);
    cbn [C_fmt_ulong.loop2]; fu_simpl;
    change (wrapu 64 48) with 48; change (wrapu 64 10) with 10;
    rewrite fu_digit, fu_quot by exact Hu64;
    (replace (Z.of_nat (length (L' ++ [x])) - 1) with (Z.of_nat (length L')) by (rewrite app_length; cbn [length]; lia));
    rewrite <- (app_assoc L' [x] R); cbn [app]; rewrite wr_at_len;
    rewrite fmt_S in *; rewrite app_length in *; cbn [length] in *;
    (destruct (N.eqb_spec (u / 10) 0) as [E|E];
     [ rewrite E; change (Z.of_N 0 =? 0) with true; cbv iota; cbn [length];
       replace (length L' + 1 - 1)%nat with (length L') by lia;
       rewrite firstn_app_le, firstn_all by lia; reflexivity | ]).
  - rewrite p10_1 in Hu. lia.
  - destruct (Z.eqb_spec (Z.of_N (u / 10)) 0) as [E0|_]; [lia|].
    rewrite p10_S in Hu. rewrite app_length in *. cbn [length] in *.
    rewrite IH by lia.
    replace (length L' + 1 - (length (fmt_aux (S fm) (u / 10) []) + 1))%nat
      with (length L' - length (fmt_aux (S fm) (u / 10) []))%nat by lia.
    rewrite firstn_app_le by lia. rewrite zs_app, <- app_assoc. reflexivity.
Qed.

Lemma u64_p10 (u : N) : (u < 18446744073709551616)%N -> (u < p10 20)%N.
Proof. intros H. change (p10 20) with 100000000000000000000%N. lia. Qed.



Lemma fu_run (u : N) (L R : list Z) : (u < 18446744073709551616)%N -> length L = length (fmt_ulong u) ->
  option_map (fun r => (fst r, C_fmt_ulong.a_s (snd r))) (C_fmt_ulong.run 21 (L ++ R) 0 (Z.of_N u))
  = Some (Z.of_nat (length (fmt_ulong u)), zs (fmt_ulong u) ++ R).
Proof.
  intros Hu HL. unfold fmt_ulong in *.
  unfold C_fmt_ulong.run, C_fmt_ulong.body. fu_simpl. change (wrapu 32 1) with 1.
  destruct (fu_loop1 21 0 (Z.of_N u) (L ++ R) 19 u 1 21 ltac:(lia) (u64_p10 u Hu) Hu ltac:(lia) ltac:(lia))
    as (q' & l' & Hl1 & Hl').
  rewrite Hl1. cbn [obind]. fu_simpl. change (0 =? -1) with false. cbn [negb b2z]. change (1 =? 0) with false. cbv iota.
  replace (0 + l') with (Z.of_nat (length L)) by lia.
  rewrite (fu_loop2 21 l' q' 19 u L R 21 ltac:(lia) (u64_p10 u Hu) Hu ltac:(lia)).
  cbn [obind option_map fst snd]. fu_simpl. rewrite HL, Nat.sub_diag. cbn [firstn app].
  f_equal. f_equal. lia.
Qed.

(* REQUIRED: fmt_ulong with a buffer: the digits of the model, written at the start; and with the null pointer: only the length *)
Theorem gen_fmt_ulong_eq : forall (u : N) (buf : list Z), (u < 18446744073709551616)%N -> (length (fmt_ulong u) <= length buf)%nat ->
  option_map (fun r => (fst r, firstn (length (fmt_ulong u)) (C_fmt_ulong.a_s (snd r)))) (C_fmt_ulong.run 21 buf 0 (Z.of_N u))
  = Some (Z.of_nat (length (fmt_ulong u)), zs (fmt_ulong u)).
Proof.
  intros u buf Hu Hbuf.
  pose proof (fu_run u (firstn (length (fmt_ulong u)) buf) (skipn (length (fmt_ulong u)) buf) Hu
                (firstn_length_le _ Hbuf)) as H.
  rewrite firstn_skipn in H.
  destruct (C_fmt_ulong.run 21 buf 0 (Z.of_N u)) as [[v st]|]; cbn [option_map fst snd] in *; [|discriminate].
  injection H as -> ->. f_equal. f_equal.
  rewrite firstn_app_le by (rewrite zs_length; lia). apply firstn_all2. rewrite zs_length. lia.
Qed.
Theorem gen_fmt_ulong_len : forall u : N, (u < 18446744073709551616)%N ->
  retval (C_fmt_ulong.run 21 [] (-1) (Z.of_N u)) = Some (Z.of_nat (length (fmt_ulong u))) /\ (length (fmt_ulong u) <= 20)%nat.
Proof.
  intros u Hu. split; [|apply fmt_len_le].
  unfold C_fmt_ulong.run, C_fmt_ulong.body. fu_simpl. change (wrapu 32 1) with 1.
  destruct (fu_loop1 21 (-1) (Z.of_N u) [] 19 u 1 21 ltac:(lia) (u64_p10 u Hu) Hu ltac:(lia) ltac:(lia))
    as (q' & l' & Hl1 & Hl').
  rewrite Hl1. cbn [obind]. fu_simpl. change (-1 =? -1) with true. cbn [negb b2z]. change (0 =? 0) with true. cbv iota.
  cbn [obind retval option_map fst]. fu_simpl. unfold fmt_ulong. f_equal. lia.
Qed.

