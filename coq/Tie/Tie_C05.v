(* tie for C05: blast() and put() of today's qmail-smtpd.c, translated to Gallina by tools/c2gallina.py on every run
   (gen/CGen.v, modules C_sblast and C_sput), are the model's decoder for every input stream: same outcome (message
   complete / bare LF / more input needed), same stored body, same number of input bytes consumed (so the same bytes are
   left for the next command), same hop count, and the size limit counter of put() *)
From Coq Require Import ZArith NArith List.
From NQ Require Import Base.MiniC Base.Bytes Smtp.Codec gen.CGen Tie.GenCommon Tie.Gen_codec.
Import ListNotations.
Local Open Scope Z_scope.
Lemma tie_generated_sblast : forall (s : bytes) (h0 : Z), bytes_ok s -> Z.of_nat (length s) < 2 ^ 31 ->
  match sblast s with
  | Done body rest =>
      exists st, C_sblast.run (S (length s)) [h0] 0 (zs s) 0 0 0 [] = Some (0, st) /\
                 C_sblast.a_qqt__out st = zs body /\ C_sblast.v_ssin__pos st = Z.of_nat (length s - length rest) /\
                 C_sblast.v_qqt__fail st = 0
  | Stray => retval (C_sblast.run (S (length s)) [h0] 0 (zs s) 0 0 0 []) = Some (-4)
  | NeedMore _ => retval (C_sblast.run (S (length s)) [h0] 0 (zs s) 0 0 0 []) = Some (-9)
  end.
Proof. exact gen_sblast_eq. Qed.
Lemma tie_generated_sblast_hops : forall (s body rest : bytes) (h0 : Z), bytes_ok s -> Z.of_nat (length s) < 2 ^ 31 ->
  sblast s = Done body rest ->
  option_map (fun r => C_sblast.a_hops (snd r)) (C_sblast.run (S (length s)) [h0] 0 (zs s) 0 0 0 [])
  = Some [Z.of_N (hops (firstn (length s - length rest) s))].
Proof. exact gen_sblast_hops. Qed.
Lemma tie_generated_sput : forall (c : Z) (bto fail : Z) (out : list Z), 0 <= c < 256 -> 0 <= bto < 2 ^ 32 ->
  option_map (fun r => (C_sput.a_qqt__out (snd r), C_sput.v_bytestooverflow (snd r), C_sput.v_qqt__fail (snd r))) (C_sput.run 1 [c] 0 bto fail out)
  = Some (out ++ [c], (if bto =? 0 then 0 else bto - 1), (if bto =? 1 then 1 else fail)).
Proof. exact gen_sput_eq. Qed.
