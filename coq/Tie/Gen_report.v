(* report() of qmail-rspawn.c (C09) and of qmail-lspawn.c (C18), as generated from today's sources by tools/c2gallina.py
   (gen/CGen.v: C_rreport, C_lreport, and the variants K_rreport, K_lreport in which every array access records in v__oob whether
   it was inside its array) = the models Remote.RemoteSmtp.rspawn_report and Local.LspawnReport.lspawn_report.
   The stream parameter ss is the list a_ss__out (what was written so far); substdio_puts appends the C string at its argument
   (MiniC.cstrz: the elements before the first 0).  wait_crashed(w) is w & 127, wait_exitcode(w) is w >> 8.
   REQUIRED statements must be proved exactly as stated. *)
From Coq Require Import ZArith NArith List Lia Bool.
From NQ Require Import Base.MiniC Base.Bytes Remote.RemoteSmtp Local.LspawnReport gen.CGen Tie.GenCommon Tie.GenAux.
Import ListNotations.
Local Open Scope Z_scope.
(* Proof conventions (as in Gen_codec.v): no name invented by the translator is used.  Every loop is an induction on the fuel with
   the array written as pre ++ rest and the index = length pre.  rspawn: loop1 (the scan for the first segment that starts with
   K, Z or D) carries the start of the current segment as p0 with pre = p0 ++ rev cur and yields tri2z (first_kzd (segs cur rest));
   loop2 (the text) carries pre = c0 :: rev cur with no NUL in cur and appends rtext (the tail of the model) to the stream.
   The K_ variants are the same inductions with every field but v__oob (= 0) existentially quantified at the exit.
   lspawn: the switch is run comparison by comparison in the order of the source; the common tail (loop1 and the final
   substdio_put) is lr_tail / kl_tail, applied by conversion. *)
Ltac Zify.zify_post_hook ::= Z.div_mod_to_equations.

Lemma obind_normal {S} (s : S) f : obind (ONormal s) f = f s. Proof. reflexivity. Qed.
Lemma b2z_if {A} (b : bool) (x y : A) : (if b2z b =? 0 then x else y) = if b then y else x.
Proof. destruct b; reflexivity. Qed.

(* ---- the wait status ---- *)
Lemma land127_bound w : 0 <= w -> 0 <= Z.land w 127 < 128.
Proof.
  intros H. change 127 with (Z.ones 7). rewrite Z.land_ones by lia. change (2 ^ 7) with 128.
  apply Z.mod_pos_bound. lia.
Qed.
Lemma shr8_bound w : 0 <= w < 2 ^ 31 -> 0 <= Z.shiftr w 8 < 2 ^ 23.
Proof.
  intros H. rewrite Z.shiftr_div_pow2 by lia. change (2 ^ 8) with 256. rewrite p31 in H. change (2 ^ 23) with 8388608.
  split; [apply Z.div_pos; lia|apply Z.div_lt_upper_bound; lia].
Qed.
Lemma crashed_wraps w : 0 <= w -> wraps 32 (Z.land w 127) = Z.land w 127.
Proof. intros H. pose proof (land127_bound w H). apply wraps32_small. lia. Qed.
Lemma code_wraps w : 0 <= w < 2 ^ 31 -> wraps 32 (Z.shiftr w 8) = Z.shiftr w 8.
Proof. intros H. pose proof (shr8_bound w H) as B. change (2 ^ 23) with 8388608 in B. apply wraps32_small. lia. Qed.
Lemma code_eqb e (k : N) : 0 <= e -> (Z.to_N e =? k)%N = (e =? Z.of_N k).
Proof.
  intros H. destruct (Z.eqb_spec e (Z.of_N k)) as [->|Hne].
  - rewrite N2Z.id. apply N.eqb_refl.
  - apply N.eqb_neq. intros E. apply Hne. rewrite <- E. rewrite Z2N.id; [reflexivity|exact H].
Qed.

(* ---- bytes ---- *)
Lemma rd_zs_mid (pre : bytes) x (rest : bytes) : rd (zs (pre ++ x :: rest)) (Z.of_nat (length pre)) = Z.of_N x.
Proof. rewrite zs_app, <- (zs_length pre). cbn [zs map]. apply rd_app_mid. Qed.
Lemma bytes_ok_mid pre x rest : bytes_ok (pre ++ x :: rest) -> (x < 256)%N.
Proof. unfold bytes_ok. rewrite Forall_forall. intros H. apply H. apply in_or_app. right. now left. Qed.
Lemma len_snoc {A} (p : list A) x : Z.of_nat (length (p ++ [x])) = Z.of_nat (length p) + 1.
Proof. rewrite app_length. cbn [length]. lia. Qed.
Lemma nul_test c : (c < 256)%N -> (wraps 8 (Z.of_N c) =? 0) = (c =? 0)%N.
Proof.
  intros Hc. destruct (N.eqb_spec c 0) as [->|Hne]; [reflexivity|].
  apply Z.eqb_neq. rewrite wraps8. lia.
Qed.
Lemma inb_zs_mid (pre : bytes) x rest : inb (zs (pre ++ x :: rest)) (Z.of_nat (length pre)) = true.
Proof.
  unfold inb. rewrite zs_length, app_length. cbn [length].
  apply andb_true_intro. split; [apply Z.leb_le; lia|apply Z.ltb_lt; lia].
Qed.

(* ================================================================ qmail-rspawn *)
Lemma obind_return {S} v (s : S) f : obind (OReturn v s) f = OReturn v s. Proof. reflexivity. Qed.
Lemma obind_break {S} (s : S) f : obind (OBreak s) f = OBreak s. Proof. reflexivity. Qed.
Lemma cmpk (k : N) (c : N) : (k < 128)%N -> (c < 256)%N -> (wraps 32 (wraps 8 (Z.of_N c)) =? Z.of_N k) = (c =? k)%N.
Proof.
  intros Hk Hc.
  assert (H8 : -128 <= wraps 8 (Z.of_N c) < 128) by (rewrite wraps8; lia).
  rewrite wraps32_small by lia.
  destruct (N.eqb_spec c k) as [->|Hne].
  - rewrite wraps8_small by lia. apply Z.eqb_refl.
  - apply Z.eqb_neq. rewrite wraps8. lia.
Qed.
Lemma cmp75 c : (c < 256)%N -> (wraps 32 (wraps 8 (Z.of_N c)) =? 75) = (c =? c_K)%N. Proof. apply (cmpk 75). reflexivity. Qed.
Lemma cmp90 c : (c < 256)%N -> (wraps 32 (wraps 8 (Z.of_N c)) =? 90) = (c =? c_Z)%N. Proof. apply (cmpk 90). reflexivity. Qed.
Lemma cmp68 c : (c < 256)%N -> (wraps 32 (wraps 8 (Z.of_N c)) =? 68) = (c =? c_D)%N. Proof. apply (cmpk 68). reflexivity. Qed.
Lemma cmp115 c : (c < 256)%N -> (wraps 32 (wraps 8 (Z.of_N c)) =? 115) = (c =? c_s)%N. Proof. apply (cmpk 115). reflexivity. Qed.
Lemma cmp104 c : (c < 256)%N -> (wraps 32 (wraps 8 (Z.of_N c)) =? 104) = (c =? c_h)%N. Proof. apply (cmpk 104). reflexivity. Qed.

Definition tri2z (t : tri) : Z := match t with TPos => 1 | TZero => 0 | TNeg => -1 end.
Lemma tri_le_z a b : (tri2z a <=? tri2z b) = tri_le a b.
Proof. destruct a, b; reflexivity. Qed.
Lemma first_kzd_cons sg l : first_kzd (sg :: l) =
  if (hd 0%N sg =? c_K)%N then TPos else if (hd 0%N sg =? c_Z)%N then TZero else if (hd 0%N sg =? c_D)%N then TNeg else first_kzd l.
Proof. destruct sg; reflexivity. Qed.
(* the byte at the start of the segment that ends at a NUL *)
Lemma rd_seg (p0 sg : bytes) c rest : rd (zs ((p0 ++ sg) ++ c :: rest)) (Z.of_nat (length p0)) = Z.of_N (hd c sg).
Proof.
  destruct sg as [|d sg]; cbn [hd].
  - rewrite app_nil_r. apply rd_zs_mid.
  - rewrite <- app_assoc. cbn [app]. apply rd_zs_mid.
Qed.
Lemma hd_ok (sg : bytes) : bytes_ok sg -> (hd 0%N sg < 256)%N.
Proof. destruct sg; cbn [hd]; [reflexivity|]. intros H. apply bytes_ok_cons in H. apply H. Qed.
Lemma bytes_ok_app_l a b : bytes_ok (a ++ b) -> bytes_ok a.
Proof. unfold bytes_ok. rewrite Forall_app. tauto. Qed.
Lemma bytes_ok_app_r a b : bytes_ok (a ++ b) -> bytes_ok b.
Proof. unfold bytes_ok. rewrite Forall_app. tauto. Qed.

Ltac rr_simpl := cbv [C_rreport.set_v_wstat C_rreport.set_v_s C_rreport.set_v_len C_rreport.set_v_j C_rreport.set_v_k C_rreport.set_v_result
  C_rreport.set_v_orr C_rreport.set_a_s C_rreport.set_a_ss__out
  C_rreport.v_wstat C_rreport.v_s C_rreport.v_len C_rreport.v_j C_rreport.v_k C_rreport.v_result C_rreport.v_orr C_rreport.a_s C_rreport.a_ss__out].
Notation RS w s len j k res orr a o := {| C_rreport.v_wstat := w; C_rreport.v_s := s; C_rreport.v_len := len; C_rreport.v_j := j; C_rreport.v_k := k;
  C_rreport.v_result := res; C_rreport.v_orr := orr; C_rreport.a_s := a; C_rreport.a_ss__out := o |} (only parsing).
Ltac rr_on := first [rewrite obind_normal; cbv beta; rr_simpl | rewrite obind_return | rewrite obind_break]; cbv iota.
Ltac rr_go := repeat rr_on.

Lemma rr_loop1 (f0 : nat) (w orr : Z) (po : list Z) : forall (fuel : nat) (rest pre p0 cur : bytes),
  pre = p0 ++ rev cur -> bytes_ok (pre ++ rest) -> Z.of_nat (length (pre ++ rest)) < 2 ^ 31 -> (length rest < fuel)%nat ->
  exists j k,
  C_rreport.loop1 f0 fuel (RS w 0 (Z.of_nat (length (pre ++ rest))) (Z.of_nat (length p0)) (Z.of_nat (length pre)) (-1) orr (zs (pre ++ rest)) po)
  = ONormal (RS w 0 (Z.of_nat (length (pre ++ rest))) j k (tri2z (first_kzd (segs cur rest))) orr (zs (pre ++ rest)) po).
Proof.
  induction fuel as [|f IH]; intros rest pre p0 cur Epre Hok Hlen Hfuel; [lia|].
  cbn [C_rreport.loop1]. rr_simpl. rewrite b2z_if.
  destruct rest as [|c rest].
  - rewrite app_nil_r, Z.ltb_irrefl. do 2 eexists. reflexivity.
  - assert (Hlt : (Z.of_nat (length pre) <? Z.of_nat (length (pre ++ c :: rest))) = true).
    { apply Z.ltb_lt. rewrite app_length. cbn [length]. lia. }
    assert (Hk1 : wraps 32 (Z.of_nat (length pre) + 1) = Z.of_nat (length (pre ++ [c]))).
    { rewrite len_snoc. apply wraps32_small. rewrite app_length in Hlen. cbn [length] in Hlen. rewrite p31 in Hlen. clear - Hlen. lia. }
    rewrite Hlt, Z.add_0_l, rd_zs_mid, b2z_if.
    pose proof (bytes_ok_mid pre c rest Hok) as Hc. rewrite (nul_test c Hc). cbn [segs].
    destruct (c =? 0)%N eqn:E0.
    + apply N.eqb_eq in E0. subst c.
      assert (Hb : rd (zs (pre ++ 0%N :: rest)) (Z.of_nat (length p0)) = Z.of_N (hd 0%N (rev cur))) by (subst pre; apply rd_seg).
      assert (Hbk : (hd 0%N (rev cur) < 256)%N).
      { apply hd_ok. subst pre. apply bytes_ok_app_l in Hok. apply bytes_ok_app_r in Hok. exact Hok. }
      rewrite first_kzd_cons. set (b := hd 0%N (rev cur)) in *.
      rewrite Z.add_0_l, Hb, b2z_if, (cmp75 b Hbk).
      destruct (b =? c_K)%N; [rr_go; do 2 eexists; reflexivity|]. rr_go.
      rewrite Z.add_0_l, Hb, b2z_if, (cmp90 b Hbk).
      destruct (b =? c_Z)%N; [rr_go; do 2 eexists; reflexivity|]. rr_go.
      rewrite Z.add_0_l, Hb, b2z_if, (cmp68 b Hbk).
      destruct (b =? c_D)%N; [rr_go; do 2 eexists; reflexivity|]. rr_go.
      rewrite Hk1. rewrite (app_cons_snoc pre 0%N rest) in *.
      apply (IH rest (pre ++ [0%N]) (pre ++ [0%N]) []); [cbn [rev]; rewrite app_nil_r; reflexivity|exact Hok|exact Hlen|cbn [length] in Hfuel; lia].
    + rr_simpl. rewrite Hk1. rewrite (app_cons_snoc pre c rest) in *.
      apply (IH rest (pre ++ [c]) p0 (c :: cur)); [cbn [rev]; rewrite app_assoc, <- Epre; reflexivity|exact Hok|exact Hlen|cbn [length] in Hfuel; lia].
Qed.

Lemma cstrz_zs l : cstrz (zs l) = zs (cstr l).
Proof.
  induction l as [|c l IH]; [reflexivity|]. cbn [zs map cstrz cstr].
  replace (Z.of_N c =? 0) with (c =? 0)%N by (destruct c; reflexivity).
  destruct (c =? 0)%N; [reflexivity|]. cbn [map]. f_equal. exact IH.
Qed.
Lemma cstr_stop a b : ~ In 0%N a -> cstr (a ++ 0%N :: b) = a.
Proof.
  induction a as [|c a IH]; intros H; [reflexivity|]. cbn [app cstr].
  destruct (N.eqb_spec c 0) as [->|_]; [exfalso; apply H; now left|].
  f_equal. apply IH. intros Hi. apply H. now right.
Qed.
Lemma skipn_zs_mid (p : bytes) c t : skipn (Z.to_nat (Z.of_nat (length p) + 1)) (zs (p ++ c :: t)) = zs t.
Proof.
  replace (Z.to_nat (Z.of_nat (length p) + 1)) with (length (zs (p ++ [c]))) by (rewrite zs_length, app_length; cbn [length]; lia).
  rewrite (app_cons_snoc p c t), (zs_app (p ++ [c]) t). rewrite skipn_app, Nat.sub_diag, skipn_all. reflexivity.
Qed.
Lemma is_kzd_order c : ((c =? c_Z) || (c =? c_D) || (c =? c_K))%N%bool = is_kzd c.
Proof. unfold is_kzd. destruct (c =? c_K)%N, (c =? c_Z)%N, (c =? c_D)%N; reflexivity. Qed.

Lemma text1 c0 sg rest : ~ In 0%N sg -> cstrz (skipn 1 (zs ((c0 :: sg) ++ 0%N :: rest))) = zs sg.
Proof.
  intros H. cbn [app zs map skipn]. change (map Z.of_N (sg ++ 0%N :: rest)) with (zs (sg ++ 0%N :: rest)).
  rewrite cstrz_zs, cstr_stop by exact H. reflexivity.
Qed.

Definition rtext (r o : tri) (tn : option (bytes * bytes)) : bytes :=
  match tn with
  | None => []
  | Some (t1, after) =>
      t1 ++ (if tri_le r o then match after with c :: t => if is_kzd c then cstr t else [] | [] => [] end else [])
  end.

Lemma rr_loop2 (f0 : nat) (w j0 : Z) (r o : tri) (po : list Z) : forall (fuel : nat) (rest pre : bytes) (c0 : N) (cur : bytes),
  pre = c0 :: rev cur -> ~ In 0%N cur -> bytes_ok (pre ++ rest) -> Z.of_nat (length (pre ++ rest)) < 2 ^ 31 -> (length rest < fuel)%nat ->
  exists k,
  C_rreport.loop2 f0 fuel (RS w 0 (Z.of_nat (length (pre ++ rest))) j0 (Z.of_nat (length pre)) (tri2z r) (tri2z o) (zs (pre ++ rest)) po)
  = ONormal (RS w 0 (Z.of_nat (length (pre ++ rest))) j0 k (tri2z r) (tri2z o) (zs (pre ++ rest)) (po ++ zs (rtext r o (take_nul cur rest)))).
Proof.
  induction fuel as [|f IH]; intros rest pre c0 cur Epre Hnz Hok Hlen Hfuel; [lia|].
  cbn [C_rreport.loop2]. rr_simpl. rewrite b2z_if.
  destruct rest as [|c rest].
  - rewrite app_nil_r, Z.ltb_irrefl. eexists. cbn [take_nul rtext zs map]. rewrite app_nil_r. reflexivity.
  - assert (Hlt : (Z.of_nat (length pre) <? Z.of_nat (length (pre ++ c :: rest))) = true).
    { apply Z.ltb_lt. rewrite app_length. cbn [length]. lia. }
    assert (Hk1 : wraps 32 (Z.of_nat (length pre) + 1) = Z.of_nat (length (pre ++ [c]))).
    { rewrite len_snoc. apply wraps32_small. rewrite app_length in Hlen. cbn [length] in Hlen. rewrite p31 in Hlen. clear - Hlen. lia. }
    rewrite Hlt, Z.add_0_l, rd_zs_mid, b2z_if, Hk1.
    pose proof (bytes_ok_mid pre c rest Hok) as Hc. rewrite (nul_test c Hc). cbn [take_nul].
    destruct (c =? 0)%N eqn:E0.
    + apply N.eqb_eq in E0. subst c. cbn [rtext].
      assert (T1 : cstrz (skipn (Z.to_nat (0 + 1)) (zs (pre ++ 0%N :: rest))) = zs (rev cur)).
      { change (Z.to_nat (0 + 1)) with 1%nat. subst pre. apply text1. rewrite <- in_rev. exact Hnz. }
      rewrite T1, b2z_if, tri_le_z.
      destruct (tri_le r o).
      * rewrite b2z_if. destruct rest as [|d t].
        -- rewrite Z.ltb_irrefl. rr_go. eexists. rewrite app_nil_r. reflexivity.
        -- assert (Hlt2 : (Z.of_nat (length (pre ++ [0%N])) <? Z.of_nat (length (pre ++ 0%N :: d :: t))) = true).
           { apply Z.ltb_lt. rewrite !app_length. cbn [length]. lia. }
           rewrite Hlt2. rewrite !Z.add_0_l. rewrite (app_cons_snoc pre 0%N (d :: t)) in *. rewrite rd_zs_mid.
           pose proof (bytes_ok_mid _ d t Hok) as Hd.
           rewrite (cmp90 d Hd), (cmp68 d Hd), (cmp75 d Hd), is_kzd_order.
           destruct (is_kzd d).
           ++ rewrite skipn_zs_mid, cstrz_zs. rr_go. eexists. rewrite (zs_app (rev cur) (cstr t)), app_assoc. reflexivity.
           ++ rr_go. eexists. rewrite app_nil_r. reflexivity.
      * rr_go. eexists. rewrite app_nil_r. reflexivity.
    + rewrite (app_cons_snoc pre c rest) in *.
      apply (IH rest (pre ++ [c]) c0 (c :: cur)); [cbn [rev]; rewrite Epre; reflexivity| |exact Hok|exact Hlen|cbn [length] in Hfuel; lia].
      intros [E|Hi]; [subst c; discriminate|exact (Hnz Hi)].
Qed.

(* REQUIRED 1 *)
Theorem gen_rreport_eq : forall (pre : list Z) (wstat : Z) (out : bytes), bytes_ok out -> 0 <= wstat < 2 ^ 31 ->
  Z.of_nat (length out) < 2 ^ 31 ->
  option_map (fun r => C_rreport.a_ss__out (snd r)) (C_rreport.run (S (length out)) pre wstat (zs out) 0 (Z.of_nat (length out)))
  = Some (pre ++ zs (rspawn_report (negb (Z.land wstat 127 =? 0)) (Z.to_N (Z.shiftr wstat 8)) out)).
Proof.
  intros pre wstat out Hok Hw Hlen.
  unfold C_rreport.run, C_rreport.body. rr_simpl.
  rewrite (crashed_wraps wstat) by lia.
  pose proof (shr8_bound wstat Hw) as He. destruct He as [He _].
  unfold rspawn_report. rewrite !(code_eqb (Z.shiftr wstat 8)) by exact He. cbn [Z.of_N].
  assert (Hf : (length out < S (length out))%nat) by lia. revert Hf. generalize (S (length out)) as F. intros F Hf.
  destruct (Z.land wstat 127 =? 0); cbn [negb]; [|reflexivity].
  rr_go. rewrite (code_wraps wstat Hw).
  set (e := Z.shiftr wstat 8). clearbody e.
  destruct (e =? 0) eqn:E0.
  2:{ cbn [negb]. destruct (e =? 111); reflexivity. }
  apply Z.eqb_eq in E0. subst e. change (0 =? 111) with false. cbn [negb]. cbv iota. rr_go.
  destruct out as [|c0 o1]; [reflexivity|].
  rewrite b2z_if.
  assert (Hne : (Z.of_nat (length (c0 :: o1)) =? 0) = false) by (apply Z.eqb_neq; cbn [length]; lia).
  rewrite Hne. rr_go. change (wraps 32 (- (1))) with (-1).
  destruct (rr_loop1 F wstat 0 pre F (c0 :: o1) [] [] [] eq_refl Hok Hlen Hf) as (j & k & L).
  cbn [app rev] in L. change (Z.of_nat (length (@nil N))) with 0 in L. rewrite L. clear L. rr_go.
  change (rd (zs (c0 :: o1)) (0 + 0)) with (Z.of_N c0).
  pose proof (proj1 (bytes_ok_cons c0 o1 Hok)) as Hc0.
  rewrite (cmp115 c0 Hc0), (cmp104 c0 Hc0). cbv zeta.
  remember (first_kzd (segs [] (c0 :: o1))) as r eqn:Er. clear Er.
  assert (Hf1 : (length o1 < F)%nat) by (cbn [length] in Hf; lia).
  assert (Fin : forall (o : tri) (v : Z), v = Z.of_N (match o with TPos => c_K | TZero => c_Z | TNeg => c_D end) ->
    option_map (fun r0 : Z * C_rreport.st => C_rreport.a_ss__out (snd r0))
      match C_rreport.loop2 F F (RS wstat 0 (Z.of_nat (length (c0 :: o1))) j 1 (tri2z r) (tri2z o) (zs (c0 :: o1)) (pre ++ [v])) with
      | ONormal s => Some (0, s) | OReturn v s => Some (v, s) | _ => None end
    = Some (pre ++ zs (match o with TPos => c_K | TZero => c_Z | TNeg => c_D end :: rtext r o (take_nul [] o1)))).
  { intros o v ->.
    destruct (rr_loop2 F wstat j r o (pre ++ [Z.of_N match o with TPos => c_K | TZero => c_Z | TNeg => c_D end]) F o1 [c0] c0 [] eq_refl (fun H => H) Hok Hlen Hf1) as (k2 & L2).
    cbn [app] in L2. change (Z.of_nat (length [c0])) with 1 in L2. rewrite L2.
    cbn [option_map snd C_rreport.a_ss__out]. rewrite <- app_assoc. reflexivity. }
  change (Z.to_nat (wrapu 64 1)) with 1%nat. cbn [firstn]. change (wraps 32 (- (1))) with (-1).
  destruct (c0 =? c_s)%N.
  { rr_go. change (0 =? 1) with false. change (0 =? 0) with true. cbv iota. rr_go.
    exact (Fin TZero 90 eq_refl). }
  destruct (c0 =? c_h)%N.
  { rr_go. change (-1 =? 1) with false. change (-1 =? 0) with false. change (-1 =? -1) with true. cbv iota. rr_go.
    exact (Fin TNeg 68 eq_refl). }
  rr_go. destruct r; cbn [tri2z].
  - change (1 =? 1) with true. cbv iota. rr_go. exact (Fin TPos 75 eq_refl).
  - change (0 =? 1) with false. change (0 =? 0) with true. cbv iota. rr_go. exact (Fin TZero 90 eq_refl).
  - change (-1 =? 1) with false. change (-1 =? 0) with false. change (-1 =? -1) with true. cbv iota. rr_go. exact (Fin TNeg 68 eq_refl).
Qed.

(* ---- K_rreport ---- *)
Ltac kr_simpl := cbv [K_rreport.set_v_wstat K_rreport.set_v_s K_rreport.set_v_len K_rreport.set_v_j K_rreport.set_v_k K_rreport.set_v_result
  K_rreport.set_v_orr K_rreport.set_v__oob K_rreport.set_a_s K_rreport.set_a_ss__out
  K_rreport.v_wstat K_rreport.v_s K_rreport.v_len K_rreport.v_j K_rreport.v_k K_rreport.v_result K_rreport.v_orr K_rreport.v__oob K_rreport.a_s K_rreport.a_ss__out].
Notation KRS w s len j k res orr a o := {| K_rreport.v_wstat := w; K_rreport.v_s := s; K_rreport.v_len := len; K_rreport.v_j := j; K_rreport.v_k := k;
  K_rreport.v_result := res; K_rreport.v_orr := orr; K_rreport.v__oob := 0; K_rreport.a_s := a; K_rreport.a_ss__out := o |} (only parsing).
Ltac kr_on := first [rewrite obind_normal; cbv beta; kr_simpl | rewrite obind_return | rewrite obind_break]; cbv iota.
Ltac kr_go := repeat kr_on.

Lemma inb_zs_le (pre : bytes) x rest (jn : nat) : (jn <= length pre)%nat -> inb (zs (pre ++ x :: rest)) (Z.of_nat jn) = true.
Proof.
  intros H. unfold inb. rewrite zs_length, app_length. cbn [length].
  apply andb_true_intro. split; [apply Z.leb_le; lia|apply Z.ltb_lt; lia].
Qed.
Lemma oob_ok : Z.lor 0 (b2z (negb true)) = 0. Proof. reflexivity. Qed.

Lemma kr_loop1 (f0 : nat) (w orr : Z) (po : list Z) : forall (fuel : nat) (rest pre : bytes) (jn : nat) (res : Z),
  (jn <= length pre)%nat -> bytes_ok (pre ++ rest) -> Z.of_nat (length (pre ++ rest)) < 2 ^ 31 -> (length rest < fuel)%nat ->
  exists j k res',
  K_rreport.loop1 f0 fuel (KRS w 0 (Z.of_nat (length (pre ++ rest))) (Z.of_nat jn) (Z.of_nat (length pre)) res orr (zs (pre ++ rest)) po)
  = ONormal (KRS w 0 (Z.of_nat (length (pre ++ rest))) j k res' orr (zs (pre ++ rest)) po).
Proof.
  induction fuel as [|f IH]; intros rest pre jn res Hj Hok Hlen Hfuel; [lia|].
  cbn [K_rreport.loop1]. kr_simpl. rewrite b2z_if.
  destruct rest as [|c rest].
  - rewrite app_nil_r, Z.ltb_irrefl. do 3 eexists. reflexivity.
  - assert (Hlt : (Z.of_nat (length pre) <? Z.of_nat (length (pre ++ c :: rest))) = true).
    { apply Z.ltb_lt. rewrite app_length. cbn [length]. lia. }
    assert (Hk1 : wraps 32 (Z.of_nat (length pre) + 1) = Z.of_nat (length (pre ++ [c]))).
    { rewrite len_snoc. apply wraps32_small. rewrite app_length in Hlen. cbn [length] in Hlen. rewrite p31 in Hlen. clear - Hlen. lia. }
    rewrite Hlt, !Z.add_0_l, rd_zs_mid, b2z_if, inb_zs_mid, oob_ok.
    pose proof (bytes_ok_mid pre c rest Hok) as Hc. rewrite (nul_test c Hc).
    assert (Hlen' : Z.of_nat (length ((pre ++ [c]) ++ rest)) < 2 ^ 31) by (rewrite <- app_cons_snoc; exact Hlen).
    assert (Hok' : bytes_ok ((pre ++ [c]) ++ rest)) by (rewrite <- app_cons_snoc; exact Hok).
    assert (Hf' : (length rest < f)%nat) by (cbn [length] in Hfuel; lia).
    destruct (c =? 0)%N.
    + rewrite ?Z.add_0_l, (inb_zs_le pre c rest jn Hj), oob_ok, b2z_if.
      destruct (_ =? 75); [kr_go; do 3 eexists; reflexivity|]. kr_go.
      rewrite ?Z.add_0_l, (inb_zs_le pre c rest jn Hj), oob_ok, b2z_if.
      destruct (_ =? 90); [kr_go; do 3 eexists; reflexivity|]. kr_go.
      rewrite ?Z.add_0_l, (inb_zs_le pre c rest jn Hj), oob_ok, b2z_if.
      destruct (_ =? 68); [kr_go; do 3 eexists; reflexivity|]. kr_go.
      rewrite Hk1. rewrite (app_cons_snoc pre c rest).
      apply (IH rest (pre ++ [c]) (length (pre ++ [c])) res); [apply le_n|exact Hok'|exact Hlen'|exact Hf'].
    + kr_simpl. rewrite Hk1. rewrite (app_cons_snoc pre c rest).
      apply (IH rest (pre ++ [c]) jn res); [rewrite app_length; lia|exact Hok'|exact Hlen'|exact Hf'].
Qed.

Lemma last_app_ne (p l : bytes) x : l <> [] -> last (p ++ l) x = last l x.
Proof.
  intros Hl. induction p as [|a p IH]; [reflexivity|].
  cbn [app]. change (last (a :: p ++ l) x) with (match p ++ l with [] => a | _ :: _ => last (p ++ l) x end).
  destruct (p ++ l) eqn:E; [apply app_eq_nil in E; destruct E as [_ E]; contradiction|exact IH].
Qed.
Lemma last_in (l : bytes) : last l 1%N = 0%N -> In 0%N l.
Proof.
  induction l as [|a l IH]; [discriminate|].
  destruct l as [|b l]; [cbn [last]; intros ->; now left|].
  intros H. right. apply IH. exact H.
Qed.
Lemma existsb_zs0 (t : bytes) : In 0%N t -> existsb (Z.eqb 0) (zs t) = true.
Proof. intros H. apply existsb_exists. exists 0. split; [|reflexivity]. change 0 with (Z.of_N 0). apply in_map. exact H. Qed.
Lemma nul_after (p : bytes) d t : last (p ++ d :: t) 1%N = 0%N -> d <> 0%N -> existsb (Z.eqb 0) (zs t) = true.
Proof.
  intros H Hd. rewrite last_app_ne in H by discriminate.
  destruct t as [|b t]; [cbn [last] in H; contradiction|].
  apply existsb_zs0. apply last_in. exact H.
Qed.
Lemma nul_here (c0 : N) (p rest : bytes) : existsb (Z.eqb 0) (skipn 1 (zs ((c0 :: p) ++ 0%N :: rest))) = true.
Proof. cbn [app zs map skipn]. change (map Z.of_N (p ++ 0%N :: rest)) with (zs (p ++ 0%N :: rest)). apply existsb_zs0. apply in_or_app. right. now left. Qed.

Lemma kr_loop2 (f0 : nat) (w j0 res orr : Z) : forall (fuel : nat) (rest pre : bytes) (c0 : N) (p : bytes) (po : list Z),
  pre = c0 :: p -> last (pre ++ rest) 1%N = 0%N -> bytes_ok (pre ++ rest) -> Z.of_nat (length (pre ++ rest)) < 2 ^ 31 -> (length rest < fuel)%nat ->
  exists k po',
  K_rreport.loop2 f0 fuel (KRS w 0 (Z.of_nat (length (pre ++ rest))) j0 (Z.of_nat (length pre)) res orr (zs (pre ++ rest)) po)
  = ONormal (KRS w 0 (Z.of_nat (length (pre ++ rest))) j0 k res orr (zs (pre ++ rest)) po').
Proof.
  induction fuel as [|f IH]; intros rest pre c0 p po Epre Hlast Hok Hlen Hfuel; [lia|].
  cbn [K_rreport.loop2]. kr_simpl. rewrite b2z_if.
  destruct rest as [|c rest].
  - rewrite app_nil_r, Z.ltb_irrefl. do 2 eexists. reflexivity.
  - assert (Hlt : (Z.of_nat (length pre) <? Z.of_nat (length (pre ++ c :: rest))) = true).
    { apply Z.ltb_lt. rewrite app_length. cbn [length]. lia. }
    assert (Hk1 : wraps 32 (Z.of_nat (length pre) + 1) = Z.of_nat (length (pre ++ [c]))).
    { rewrite len_snoc. apply wraps32_small. rewrite app_length in Hlen. cbn [length] in Hlen. rewrite p31 in Hlen. clear - Hlen. lia. }
    rewrite Hlt, !Z.add_0_l, rd_zs_mid, b2z_if, inb_zs_mid, oob_ok, Hk1.
    pose proof (bytes_ok_mid pre c rest Hok) as Hc. rewrite (nul_test c Hc).
    destruct (c =? 0)%N eqn:E0.
    + apply N.eqb_eq in E0. subst c.
      change (Z.to_nat 1) with 1%nat. change (0 <=? 1) with true. cbn [andb].
      assert (N1 : existsb (Z.eqb 0) (skipn 1 (zs (pre ++ 0%N :: rest))) = true) by (subst pre; apply nul_here).
      rewrite N1, oob_ok, b2z_if.
      destruct (res <=? orr); [|kr_go; do 2 eexists; reflexivity].
      rewrite b2z_if. destruct rest as [|d t].
      * rewrite Z.ltb_irrefl. kr_go. do 2 eexists. reflexivity.
      * assert (Hlt2 : (Z.of_nat (length (pre ++ [0%N])) <? Z.of_nat (length (pre ++ 0%N :: d :: t))) = true).
        { apply Z.ltb_lt. rewrite !app_length. cbn [length]. lia. }
        rewrite Hlt2. rewrite ?Z.add_0_l. rewrite (app_cons_snoc pre 0%N (d :: t)) in *. rewrite rd_zs_mid, inb_zs_mid, oob_ok.
        pose proof (bytes_ok_mid _ d t Hok) as Hd.
        rewrite (cmp90 d Hd), (cmp68 d Hd), (cmp75 d Hd), is_kzd_order.
        destruct (is_kzd d) eqn:Ek; [|kr_go; do 2 eexists; reflexivity].
        assert (Hd0 : d <> 0%N) by (intros ->; discriminate Ek).
        rewrite skipn_zs_mid, (nul_after _ d t Hlast Hd0).
        assert (Hnn : (0 <=? Z.of_nat (length (pre ++ [0%N])) + 1) = true) by (apply Z.leb_le; lia).
        rewrite Hnn. cbn [andb]. rewrite oob_ok. kr_go. do 2 eexists. reflexivity.
    + rewrite (app_cons_snoc pre c rest) in *.
      apply (IH rest (pre ++ [c]) c0 (p ++ [c])); [rewrite Epre; reflexivity|exact Hlast|exact Hok|exact Hlen|cbn [length] in Hfuel; lia].
Qed.

(* REQUIRED 2: every access of report() stays inside the child's output when that output is empty or ends with a NUL
   (qmail-remote ends every report with one) *)
Theorem safe_rreport : forall (pre : list Z) (wstat : Z) (out : bytes), bytes_ok out -> 0 <= wstat < 2 ^ 31 ->
  Z.of_nat (length out) < 2 ^ 31 -> (out = [] \/ last out 1%N = 0%N) ->
  option_map (fun r => K_rreport.v__oob (snd r)) (K_rreport.run (S (length out)) pre wstat (zs out) 0 (Z.of_nat (length out))) = Some 0.
Proof.
  intros pre wstat out Hok Hw Hlen Hnul.
  unfold K_rreport.run, K_rreport.body. kr_simpl.
  assert (Hf : (length out < S (length out))%nat) by lia. revert Hf. generalize (S (length out)) as F. intros F Hf.
  destruct (wraps 32 (Z.land wstat 127) =? 0); [|reflexivity].
  kr_go.
  set (e := wraps 32 (Z.shiftr wstat 8)). clearbody e.
  destruct (e =? 0); [|destruct (e =? 111); reflexivity]. cbv iota. kr_go.
  destruct out as [|c0 o1]; [reflexivity|].
  destruct Hnul as [Hnul|Hlast]; [discriminate|].
  rewrite b2z_if.
  assert (Hne : (Z.of_nat (length (c0 :: o1)) =? 0) = false) by (apply Z.eqb_neq; cbn [length]; lia).
  rewrite Hne. clear Hne. kr_go. change (wraps 32 (- (1))) with (-1).
  destruct (kr_loop1 F wstat 0 pre F (c0 :: o1) [] 0%nat (-1) (le_n _) Hok Hlen Hf) as (j & k & res & L).
  cbn [app] in L. change (Z.of_nat (length (@nil N))) with 0 in L. change (Z.of_nat 0) with 0 in L. rewrite L. clear L. kr_go.
  change (0 + 0) with 0. change (inb (zs (c0 :: o1)) 0) with true. rewrite oob_ok.
  assert (Hf1 : (length o1 < F)%nat) by (cbn [length] in Hf; lia).
  assert (Fin : forall (orr : Z) (po : list Z),
    option_map (fun r0 : Z * K_rreport.st => K_rreport.v__oob (snd r0))
      match K_rreport.loop2 F F (KRS wstat 0 (Z.of_nat (length (c0 :: o1))) j 1 res orr (zs (c0 :: o1)) po) with
      | ONormal s => Some (0, s) | OReturn v s => Some (v, s) | _ => None end
    = Some 0).
  { intros orr po.
    destruct (kr_loop2 F wstat j res orr F o1 [c0] c0 [] po eq_refl Hlast Hok Hlen Hf1) as (k2 & po' & L2).
    cbn [app] in L2. change (Z.of_nat (length [c0])) with 1 in L2. rewrite L2. reflexivity. }
  change (Z.to_nat (wrapu 64 1)) with 1%nat. cbn [firstn].
  destruct (_ =? 115); [|destruct (_ =? 104)]; kr_go.
  all: match goal with |- context [if ?x =? 1 then OBreak _ else _] => destruct (x =? 1); [|destruct (x =? 0); [|destruct (x =? -1)]] end;
    cbv iota; kr_go; apply Fin.
Qed.

(* ================================================================ qmail-lspawn *)
Ltac lr_simpl := cbv [C_lreport.set_v_wstat C_lreport.set_v_s C_lreport.set_v_len C_lreport.set_v_i C_lreport.set_a_s C_lreport.set_a_ss__out
  C_lreport.v_wstat C_lreport.v_s C_lreport.v_len C_lreport.v_i C_lreport.a_s C_lreport.a_ss__out].
Notation LS w s len i a o := {| C_lreport.v_wstat := w; C_lreport.v_s := s; C_lreport.v_len := len; C_lreport.v_i := i;
  C_lreport.a_s := a; C_lreport.a_ss__out := o |} (only parsing).

Lemma lr_loop1 (f0 : nat) (w : Z) (po : list Z) : forall (fuel : nat) (rest pre : bytes),
  bytes_ok (pre ++ rest) -> Z.of_nat (length (pre ++ rest)) < 2 ^ 31 -> (length rest < fuel)%nat ->
  C_lreport.loop1 f0 fuel (LS w 0 (Z.of_nat (length (pre ++ rest))) (Z.of_nat (length pre)) (zs (pre ++ rest)) po)
  = ONormal (LS w 0 (Z.of_nat (length (pre ++ rest))) (Z.of_nat (length pre + length (cstr0 rest))) (zs (pre ++ rest)) po).
Proof.
  induction fuel as [|f IH]; intros rest pre Hok Hlen Hfuel; [lia|].
  cbn [C_lreport.loop1]. lr_simpl. rewrite b2z_if.
  destruct rest as [|c rest].
  - rewrite app_nil_r, Z.ltb_irrefl. cbn [cstr0 length]. rewrite Nat.add_0_r. reflexivity.
  - assert (Hlt : (Z.of_nat (length pre) <? Z.of_nat (length (pre ++ c :: rest))) = true).
    { apply Z.ltb_lt. rewrite app_length. cbn [length]. lia. }
    rewrite Hlt, Z.add_0_l, rd_zs_mid, b2z_if.
    pose proof (bytes_ok_mid pre c rest Hok) as Hc. rewrite (nul_test c Hc). cbn [cstr0].
    destruct (c =? 0)%N.
    + cbn [length]. rewrite Nat.add_0_r. reflexivity.
    + lr_simpl. rewrite wraps32_small.
      2:{ rewrite app_length in Hlen. cbn [length] in Hlen. rewrite p31 in Hlen. clear - Hlen. lia. }
      rewrite <- (len_snoc pre c). rewrite (app_cons_snoc pre c rest) in *.
      rewrite IH; [|exact Hok|exact Hlen|cbn [length] in Hfuel; lia].
      rewrite (app_length pre [c]). cbn [length]. do 2 f_equal. lia.
Qed.

Lemma cstr0_firstn out : firstn (length (cstr0 out)) out = cstr0 out.
Proof. induction out as [|a out IH]; [reflexivity|]. cbn [cstr0]. destruct (a =? 0)%N; [reflexivity|]. cbn [length firstn]. rewrite IH. reflexivity. Qed.
Lemma zs_firstn n out : firstn n (zs out) = zs (firstn n out).
Proof. apply firstn_map. Qed.
Lemma cstr0_len out : (length (cstr0 out) <= length out)%nat.
Proof. induction out as [|a out IH]; [apply le_n|]. cbn [cstr0]. destruct (a =? 0)%N; cbn [length]; lia. Qed.

Ltac lr_go := cbv [obind C_lreport.set_v_wstat C_lreport.set_v_s C_lreport.set_v_len C_lreport.set_v_i C_lreport.set_a_s C_lreport.set_a_ss__out
  C_lreport.v_wstat C_lreport.v_s C_lreport.v_len C_lreport.v_i C_lreport.a_s C_lreport.a_ss__out].

Lemma lr_tail (f0 : nat) (w : Z) (po : list Z) (out : bytes) : bytes_ok out -> Z.of_nat (length out) < 2 ^ 31 -> (length out < f0)%nat ->
  option_map (fun r : Z * C_lreport.st => C_lreport.a_ss__out (snd r))
    match
      obind (C_lreport.loop1 f0 f0 (LS w 0 (Z.of_nat (length out)) 0 (zs out) po))
        (fun s => ONormal (C_lreport.set_a_ss__out s
           (C_lreport.a_ss__out s ++ firstn (Z.to_nat (wrapu 64 (C_lreport.v_i s))) (skipn (Z.to_nat (C_lreport.v_s s)) (C_lreport.a_s s)))))
    with
    | ONormal s => Some (0, s)
    | OReturn v s => Some (v, s)
    | _ => None
    end = Some (po ++ zs (cstr0 out)).
Proof.
  intros Hok Hlen Hf.
  pose proof (lr_loop1 f0 w po f0 out [] Hok Hlen Hf) as L. cbn [app length Nat.add] in L. change (Z.of_nat 0) with 0 in L.
  rewrite L. rewrite obind_normal. lr_simpl. cbn [option_map snd]. lr_simpl.
  pose proof (cstr0_len out) as Hl. rewrite p31 in Hlen.
  rewrite wrapu64_small by lia. rewrite Nat2Z.id. change (Z.to_nat 0) with 0%nat. cbn [skipn].
  rewrite zs_firstn, cstr0_firstn. reflexivity.
Qed.

(* REQUIRED 3 *)
Theorem gen_lreport_eq : forall (pre : list Z) (wstat : Z) (out : bytes), bytes_ok out -> 0 <= wstat < 2 ^ 31 ->
  Z.of_nat (length out) < 2 ^ 31 ->
  option_map (fun r => C_lreport.a_ss__out (snd r)) (C_lreport.run (S (length out)) pre wstat (zs out) 0 (Z.of_nat (length out)))
  = Some (pre ++ zs (lspawn_report (negb (Z.land wstat 127 =? 0)) (Z.to_N (Z.shiftr wstat 8)) out)).
Proof.
  intros pre wstat out Hok Hw Hlen.
  unfold C_lreport.run, C_lreport.body. lr_simpl.
  rewrite (crashed_wraps wstat) by lia.
  pose proof (shr8_bound wstat Hw) as He. destruct He as [He _].
  unfold lspawn_report, lspawn_fixed_text, lspawn_verdict. rewrite !(code_eqb (Z.shiftr wstat 8)) by exact He. cbn [Z.of_N].
  assert (Hf : (length out < S (length out))%nat) by lia. revert Hf. generalize (S (length out)) as F. intros F Hf.
  destruct (Z.land wstat 127 =? 0); cbn [negb]; [|reflexivity].
  lr_go. rewrite (code_wraps wstat Hw).
  set (e := Z.shiftr wstat 8). clearbody e.
  destruct (e =? 117); [reflexivity|]. destruct (e =? 119); [reflexivity|]. destruct (e =? 118); [reflexivity|].
  destruct (e =? 116); [reflexivity|]. destruct (e =? 113); [reflexivity|]. destruct (e =? 112); [reflexivity|].
  destruct (e =? 115); [reflexivity|]. destruct (e =? 126); [reflexivity|]. destruct (e =? 120); [reflexivity|].
  destruct (e =? 121); [reflexivity|].
  cbn [orb].
  destruct (e =? 111); cbn [orb]; [cbv iota|destruct (e =? 71); cbn [orb]; [cbv iota|destruct (e =? 74); cbn [orb]; [cbv iota|
    destruct (e =? 75); cbn [orb]; [cbv iota|destruct (e =? 0); [cbv iota|destruct (e =? 100); cbv iota]]]]].
  all: change (Z.to_nat (wrapu 64 1)) with 1%nat; cbn [firstn zs map]; change (Z.of_N 90) with 90; change (Z.of_N 75) with 75; change (Z.of_N 68) with 68.
  all: rewrite (app_cons_snoc pre _ (map Z.of_N (cstr0 out))).
  1-4: exact (lr_tail F wstat (pre ++ [90]) out Hok Hlen Hf).
  1: exact (lr_tail F wstat (pre ++ [75]) out Hok Hlen Hf).
  all: exact (lr_tail F wstat (pre ++ [68]) out Hok Hlen Hf).
Qed.

(* ---- K_lreport ---- *)
Ltac kl_simpl := cbv [K_lreport.set_v_wstat K_lreport.set_v_s K_lreport.set_v_len K_lreport.set_v_i K_lreport.set_v__oob K_lreport.set_a_s K_lreport.set_a_ss__out
  K_lreport.v_wstat K_lreport.v_s K_lreport.v_len K_lreport.v_i K_lreport.v__oob K_lreport.a_s K_lreport.a_ss__out].
Ltac kl_go := cbv [obind K_lreport.set_v_wstat K_lreport.set_v_s K_lreport.set_v_len K_lreport.set_v_i K_lreport.set_v__oob K_lreport.set_a_s K_lreport.set_a_ss__out
  K_lreport.v_wstat K_lreport.v_s K_lreport.v_len K_lreport.v_i K_lreport.v__oob K_lreport.a_s K_lreport.a_ss__out].
Notation KLS w s len i a o := {| K_lreport.v_wstat := w; K_lreport.v_s := s; K_lreport.v_len := len; K_lreport.v_i := i; K_lreport.v__oob := 0;
  K_lreport.a_s := a; K_lreport.a_ss__out := o |} (only parsing).

Lemma kl_loop1 (f0 : nat) (w : Z) (po : list Z) : forall (fuel : nat) (rest pre : bytes),
  bytes_ok (pre ++ rest) -> Z.of_nat (length (pre ++ rest)) < 2 ^ 31 -> (length rest < fuel)%nat ->
  exists i, K_lreport.loop1 f0 fuel (KLS w 0 (Z.of_nat (length (pre ++ rest))) (Z.of_nat (length pre)) (zs (pre ++ rest)) po)
  = ONormal (KLS w 0 (Z.of_nat (length (pre ++ rest))) i (zs (pre ++ rest)) po).
Proof.
  induction fuel as [|f IH]; intros rest pre Hok Hlen Hfuel; [lia|].
  cbn [K_lreport.loop1]. kl_simpl. rewrite b2z_if.
  destruct rest as [|c rest].
  - rewrite app_nil_r, Z.ltb_irrefl. eexists. reflexivity.
  - assert (Hlt : (Z.of_nat (length pre) <? Z.of_nat (length (pre ++ c :: rest))) = true).
    { apply Z.ltb_lt. rewrite app_length. cbn [length]. lia. }
    rewrite Hlt, Z.add_0_l, rd_zs_mid, b2z_if, inb_zs_mid. cbn [negb b2z]. change (Z.lor 0 0) with 0.
    pose proof (bytes_ok_mid pre c rest Hok) as Hc. rewrite (nul_test c Hc).
    destruct (c =? 0)%N.
    + eexists. reflexivity.
    + kl_simpl. rewrite wraps32_small.
      2:{ rewrite app_length in Hlen. cbn [length] in Hlen. rewrite p31 in Hlen. clear - Hlen. lia. }
      rewrite <- (len_snoc pre c). rewrite (app_cons_snoc pre c rest) in *.
      apply IH; [exact Hok|exact Hlen|cbn [length] in Hfuel; lia].
Qed.

Lemma kl_tail (f0 : nat) (w : Z) (po : list Z) (out : bytes) : bytes_ok out -> Z.of_nat (length out) < 2 ^ 31 -> (length out < f0)%nat ->
  option_map (fun r : Z * K_lreport.st => K_lreport.v__oob (snd r))
    match
      obind (K_lreport.loop1 f0 f0 (KLS w 0 (Z.of_nat (length out)) 0 (zs out) po))
        (fun s => ONormal (K_lreport.set_a_ss__out s
           (K_lreport.a_ss__out s ++ firstn (Z.to_nat (wrapu 64 (K_lreport.v_i s))) (skipn (Z.to_nat (K_lreport.v_s s)) (K_lreport.a_s s)))))
    with
    | ONormal s => Some (0, s)
    | OReturn v s => Some (v, s)
    | _ => None
    end = Some 0.
Proof.
  intros Hok Hlen Hf.
  destruct (kl_loop1 f0 w po f0 out [] Hok Hlen Hf) as [i L]. cbn [app length Nat.add] in L. change (Z.of_nat 0) with 0 in L.
  rewrite L. rewrite obind_normal. reflexivity.
Qed.

(* REQUIRED 4: for any output at all *)
Theorem safe_lreport : forall (pre : list Z) (wstat : Z) (out : bytes), bytes_ok out -> 0 <= wstat < 2 ^ 31 ->
  Z.of_nat (length out) < 2 ^ 31 ->
  option_map (fun r => K_lreport.v__oob (snd r)) (K_lreport.run (S (length out)) pre wstat (zs out) 0 (Z.of_nat (length out))) = Some 0.
Proof.
  intros pre wstat out Hok Hw Hlen.
  unfold K_lreport.run, K_lreport.body. kl_simpl.
  assert (Hf : (length out < S (length out))%nat) by lia. revert Hf. generalize (S (length out)) as F. intros F Hf.
  destruct (wraps 32 (Z.land wstat 127) =? 0); [|reflexivity].
  kl_go.
  set (e := wraps 32 (Z.shiftr wstat 8)). clearbody e.
  destruct (e =? 117); [reflexivity|]. destruct (e =? 119); [reflexivity|]. destruct (e =? 118); [reflexivity|].
  destruct (e =? 116); [reflexivity|]. destruct (e =? 113); [reflexivity|]. destruct (e =? 112); [reflexivity|].
  destruct (e =? 115); [reflexivity|]. destruct (e =? 126); [reflexivity|]. destruct (e =? 120); [reflexivity|].
  destruct (e =? 121); [reflexivity|].
  destruct (e =? 111); cbn [orb]; [cbv iota|destruct (e =? 71); cbn [orb]; [cbv iota|destruct (e =? 74); cbn [orb]; [cbv iota|
    destruct (e =? 75); cbn [orb]; [cbv iota|destruct (e =? 0); [cbv iota|destruct (e =? 100); cbv iota]]]]].
  all: change (Z.to_nat (wrapu 64 1)) with 1%nat; cbn [firstn].
  1-4: exact (kl_tail F wstat (pre ++ [90]) out Hok Hlen Hf).
  1: exact (kl_tail F wstat (pre ++ [75]) out Hok Hlen Hf).
  all: exact (kl_tail F wstat (pre ++ [68]) out Hok Hlen Hf).
Qed.
