(* quote.c quote_need() as generated from today's source = the model's quote_need (Addr/Quote.v), for the ok[] table of
   quote.c (tied separately: Tie_C17.tie_quote_ok); and memory safety of the checked variants of quote_need, hmatch,
   atomcheck, striptrailingwhitespace, case_lowerb, byte_rchr, str_rchr.  REQUIRED statements must be proved exactly as stated. *)
From Coq Require Import ZArith NArith List Lia.
From NQ Require Import Base.MiniC Base.Bytes Send.Route Addr.Quote Addr.Tok Addr.Inject822 gen.CGen Tie.GenCommon Tie.GenAux.
Import ListNotations.
Local Open Scope Z_scope.

From Coq Require Import Bool ZifyBool.
From NQ Require Tie.Gen_safety Tie.Gen_header.
Ltac Zify.zify_post_hook ::= Z.div_mod_to_equations.

(* Proof conventions as in Tie/Gen_safety.v.  Nothing below mentions a name invented by the translator; only the names of
   the C variables, which become the fields of the state records, occur.  A generated function is taken from its folded
   constant (run, body, loopK) to the form with all setters and projections reduced in one reduction step.  The loop
   lemmas of the checked variants are stated over arbitrary arrays and carry only the facts that bound the indices;
   every access leaves Z.lor 0 (b2z (negb (inb a i))) in the field v__oob, rewritten to 0 by oob_keep. *)
Notation inb_true := Gen_safety.inb_true (only parsing).
Notation oob_keep := Gen_safety.oob_keep (only parsing).
Notation wr_length := Gen_safety.wr_length (only parsing).
Notation obind_normal := Gen_safety.obind_normal (only parsing).
Notation obind_return := Gen_safety.obind_return (only parsing).
Notation obind_break := Gen_safety.obind_break (only parsing).
Notation ok_out := Gen_safety.ok_out (only parsing).
Notation sub1_nat := Gen_safety.sub1_nat (only parsing).
Notation of_nat_S_gtb0 := Gen_safety.of_nat_S_gtb0 (only parsing).
Notation of_nat_S_eqb0 := Gen_safety.of_nat_S_eqb0 (only parsing).
(* a test of the form  if b2z b =? 0  once b is known *)
Ltac if_b2z_true := cbn [b2z]; change (1 =? 0) with false; cbv iota.
Ltac if_b2z_false := cbn [b2z]; change (0 =? 0) with true; cbv iota.

(* the table as the model sees it: 7 for an acceptable character, 0 otherwise (the C code only tests for zero) *)
Definition ok_table : list Z := map (fun i => if okch (N.of_nat i) then 7 else 0) (seq 0 128).


(* ================= quote_need = the model ================= *)
Ltac qn_simpl := cbv beta iota zeta delta [C_quote_need.set_v_s C_quote_need.set_v_n C_quote_need.set_v_uch C_quote_need.set_v_i C_quote_need.set_a_s C_quote_need.set_a_ok C_quote_need.v_s C_quote_need.v_n C_quote_need.v_uch C_quote_need.v_i C_quote_need.a_s C_quote_need.a_ok].
Ltac qn_unroll1 := cbn [C_quote_need.loop1 C_quote_need.set_v_s C_quote_need.set_v_n C_quote_need.set_v_uch C_quote_need.set_v_i C_quote_need.set_a_s C_quote_need.set_a_ok C_quote_need.v_s C_quote_need.v_n C_quote_need.v_uch C_quote_need.v_i C_quote_need.a_s C_quote_need.a_ok]; qn_simpl.
Ltac qn_unroll2 := cbn [C_quote_need.loop2 C_quote_need.set_v_s C_quote_need.set_v_n C_quote_need.set_v_uch C_quote_need.set_v_i C_quote_need.set_a_s C_quote_need.set_a_ok C_quote_need.v_s C_quote_need.v_n C_quote_need.v_uch C_quote_need.v_i C_quote_need.a_s C_quote_need.a_ok]; qn_simpl.
Ltac qn_run := cbv beta iota zeta delta [C_quote_need.run C_quote_need.body C_quote_need.set_v_s C_quote_need.set_v_n C_quote_need.set_v_uch C_quote_need.set_v_i C_quote_need.set_a_s C_quote_need.set_a_ok C_quote_need.v_s C_quote_need.v_n C_quote_need.v_uch C_quote_need.v_i C_quote_need.a_s C_quote_need.a_ok].

(* ---------- the characters ---------- *)
(* uch = s[i] as an unsigned char is the byte itself; uch >= 128 is never an acceptable character; below 128 the table
   says what okch says *)
Definition qn_chk (c : N) : bool :=
  (wrapu 8 (wraps 8 (Z.of_N c)) =? Z.of_N c) &&
  (if wraps 32 (Z.of_N c) >=? 128 then negb (okch c)
   else Bool.eqb (wraps 8 (rd ok_table (0 + Z.of_N c)) =? 0) (negb (okch c))).
Lemma qn_char (c : N) : (c < 256)%N -> qn_chk c = true.
Proof. revert c. apply byte_sweep. vm_compute. reflexivity. Qed.
Lemma qn_uch (c : N) : (c < 256)%N -> wrapu 8 (wraps 8 (Z.of_N c)) = Z.of_N c.
Proof. intros H. pose proof (qn_char c H) as Hq. unfold qn_chk in Hq. apply andb_true_iff in Hq. apply Z.eqb_eq. exact (proj1 Hq). Qed.
Lemma qn_hi (c : N) : (c < 256)%N -> (wraps 32 (Z.of_N c) >=? 128) = true -> okch c = false.
Proof.
  intros H Hhi. pose proof (qn_char c H) as Hq. unfold qn_chk in Hq. apply andb_true_iff in Hq. destruct Hq as [_ Hq].
  rewrite Hhi in Hq. apply negb_true_iff. exact Hq.
Qed.
Lemma qn_lo (c : N) : (c < 256)%N -> (wraps 32 (Z.of_N c) >=? 128) = false ->
  (wraps 8 (rd ok_table (0 + Z.of_N c)) =? 0) = negb (okch c).
Proof.
  intros H Hlo. pose proof (qn_char c H) as Hq. unfold qn_chk in Hq. apply andb_true_iff in Hq. destruct Hq as [_ Hq].
  rewrite Hlo in Hq. apply eqb_prop. exact Hq.
Qed.
Lemma qn_dot (c : N) : (c < 256)%N -> (wraps 32 (wraps 8 (Z.of_N c)) =? 46) = (c =? DOT)%N.
Proof. apply (Gen_header.hm_cmpk 46). reflexivity. Qed.

Lemma qn_rd_mid (pre : bytes) x (rest : bytes) a i : a = zs (pre ++ x :: rest) -> i = Z.of_nat (length pre) -> rd a (0 + i) = Z.of_N x.
Proof. intros -> ->. rewrite Z.add_0_l. apply Gen_header.hrd_zs_mid0. Qed.
Lemma qn_rd_mid1 (pre : bytes) x y (rest : bytes) a i : a = zs (pre ++ x :: y :: rest) -> i = Z.of_nat (length pre) -> rd a (0 + (i + 1)) = Z.of_N y.
Proof.
  intros -> ->. rewrite Z.add_0_l, (Gen_header.hsnoc_assoc pre x (y :: rest)), <- (Gen_header.hlen_snoc pre x).
  apply Gen_header.hrd_zs_mid0.
Qed.
Lemma qn_len_mid {A} (pre : list A) x rest : Z.of_nat (length (pre ++ x :: rest)) = Z.of_nat (length pre) + 1 + Z.of_nat (length rest).
Proof. rewrite app_length. cbn [length]. lia. Qed.

(* ---------- first loop: every character acceptable ---------- *)
Lemma qn_loop1 (f0 : nat) (n : Z) : n < 2147483648 ->
  forall (rest pre : bytes) (fuel : nat) (a : list Z) (i uch : Z),
  a = zs (pre ++ rest) -> i = Z.of_nat (length pre) -> n = Z.of_nat (length (pre ++ rest)) -> bytes_ok (pre ++ rest) ->
  (length rest < fuel)%nat ->
  exists uch' st',
    C_quote_need.loop1 f0 fuel {| C_quote_need.v_s := 0; C_quote_need.v_n := n; C_quote_need.v_uch := uch; C_quote_need.v_i := i;
       C_quote_need.a_s := a; C_quote_need.a_ok := ok_table |}
    = if forallb okch rest
      then ONormal {| C_quote_need.v_s := 0; C_quote_need.v_n := n; C_quote_need.v_uch := uch'; C_quote_need.v_i := n;
                      C_quote_need.a_s := a; C_quote_need.a_ok := ok_table |}
      else OReturn 1 st'.
Proof.
  intros Hn31. induction rest as [|c rest IH]; intros pre fuel a i uch Ea Ei En Hok Hfuel;
    (destruct fuel as [|f]; [cbn [length] in Hfuel; lia|]); qn_unroll1.
  - rewrite app_nil_r in En. rewrite (wrapu32_small i) by lia.
    destruct (Z.ltb_spec i n) as [Hlt|_]; [lia|]. if_b2z_false. cbn [forallb].
    rewrite Ei, <- En. exists uch.
    exists {| C_quote_need.v_s := 0; C_quote_need.v_n := 0; C_quote_need.v_uch := 0; C_quote_need.v_i := 0; C_quote_need.a_s := []; C_quote_need.a_ok := [] |}.
    reflexivity.
  - pose proof (Gen_header.hbytes_ok_mid pre c rest Hok) as Hc.
    rewrite qn_len_mid in En.
    rewrite (wrapu32_small i) by lia.
    destruct (Z.ltb_spec i n) as [_|Hge]; [|lia]. if_b2z_true.
    rewrite (qn_rd_mid pre c rest a i Ea Ei), (qn_uch c Hc).
    cbn [forallb].
    destruct (wraps 32 (Z.of_N c) >=? 128) eqn:Ehi; [if_b2z_true|if_b2z_false].
    { rewrite (qn_hi c Hc Ehi). cbn [andb]. rewrite obind_return. exists 0. eexists. reflexivity. }
    rewrite obind_normal. qn_simpl.
    rewrite (qn_lo c Hc Ehi).
    destruct (okch c); cbn [negb andb]; [if_b2z_false|if_b2z_true].
    2:{ exists 0. eexists. reflexivity. }
    rewrite (wraps32_small (i + 1)) by lia.
    apply (IH (pre ++ [c]) f a (i + 1) (Z.of_N c)).
    + rewrite <- Gen_header.hsnoc_assoc. exact Ea.
    + rewrite Gen_header.hlen_snoc. lia.
    + rewrite <- Gen_header.hsnoc_assoc, qn_len_mid. exact En.
    + rewrite <- Gen_header.hsnoc_assoc. exact Hok.
    + cbn [length] in Hfuel. lia.
Qed.

(* ---------- second loop: two dots in a row ---------- *)
Lemma qn_loop2 (f0 : nat) (n : Z) : 1 <= n < 2147483648 ->
  forall (rest pre : bytes) (fuel : nat) (a : list Z) (i uch : Z),
  a = zs (pre ++ rest) -> i = Z.of_nat (length pre) -> n = Z.of_nat (length (pre ++ rest)) -> bytes_ok (pre ++ rest) ->
  (length rest < fuel)%nat ->
  exists st',
    C_quote_need.loop2 f0 fuel {| C_quote_need.v_s := 0; C_quote_need.v_n := n; C_quote_need.v_uch := uch; C_quote_need.v_i := i;
       C_quote_need.a_s := a; C_quote_need.a_ok := ok_table |}
    = if dotdot rest then OReturn 1 st' else ONormal st'.
Proof.
  intros Hn31. induction rest as [|c rest IH]; intros pre fuel a i uch Ea Ei En Hok Hfuel;
    (destruct fuel as [|f]; [cbn [length] in Hfuel; lia|]); qn_unroll2; change (wrapu 32 1) with 1;
    rewrite (wrapu32_small (n - 1)) by lia.
  - rewrite app_nil_r in En. rewrite (wrapu32_small i) by lia.
    destruct (Z.ltb_spec i (n - 1)) as [Hlt|_]; [lia|]. if_b2z_false. cbn [dotdot].
    eexists. reflexivity.
  - destruct rest as [|d rest].
    + rewrite qn_len_mid in En. cbn [length] in En. rewrite (wrapu32_small i) by lia.
      destruct (Z.ltb_spec i (n - 1)) as [Hlt|_]; [lia|]. if_b2z_false. cbn [dotdot].
      eexists. reflexivity.
    + pose proof (Gen_header.hbytes_ok_mid pre c (d :: rest) Hok) as Hc.
      assert (Hd : (d < 256)%N).
      { rewrite (Gen_header.hsnoc_assoc pre c (d :: rest)) in Hok. exact (Gen_header.hbytes_ok_mid _ d rest Hok). }
      rewrite qn_len_mid in En. cbn [length] in En.
      rewrite (wrapu32_small i) by lia.
      destruct (Z.ltb_spec i (n - 1)) as [_|Hge]; [|lia]. if_b2z_true.
      rewrite (wraps32_small (i + 1)) by lia.
      rewrite (qn_rd_mid pre c (d :: rest) a i Ea Ei), (qn_rd_mid1 pre c d rest a i Ea Ei), (qn_dot c Hc), (qn_dot d Hd).
      assert (Hnext : exists st',
        C_quote_need.loop2 f0 f {| C_quote_need.v_s := 0; C_quote_need.v_n := n; C_quote_need.v_uch := uch; C_quote_need.v_i := i + 1;
          C_quote_need.a_s := a; C_quote_need.a_ok := ok_table |}
        = if dotdot (d :: rest) then OReturn 1 st' else ONormal st').
      { apply (IH (pre ++ [c]) f a (i + 1) uch).
        + rewrite <- Gen_header.hsnoc_assoc. exact Ea.
        + rewrite Gen_header.hlen_snoc. lia.
        + rewrite <- Gen_header.hsnoc_assoc, qn_len_mid. cbn [length]. exact En.
        + rewrite <- Gen_header.hsnoc_assoc. exact Hok.
        + cbn [length] in Hfuel |- *. lia. }
      change (dotdot (c :: d :: rest)) with (((c =? DOT)%N && (d =? DOT)%N) || dotdot (d :: rest)).
      destruct (c =? DOT)%N; cbn [andb orb]; [if_b2z_true|if_b2z_false].
      * destruct (d =? DOT)%N; cbn [orb]; [if_b2z_true|if_b2z_false].
        -- eexists. reflexivity.
        -- qn_simpl. rewrite (wraps32_small (i + 1)) by lia. exact Hnext.
      * qn_simpl. rewrite (wraps32_small (i + 1)) by lia. exact Hnext.
Qed.

Lemma qn_last (c : N) (s : bytes) : rd (zs (c :: s)) (0 + (Z.of_nat (length (c :: s)) - 1)) = Z.of_N (last (c :: s) 0%N).
Proof.
  assert (Hne : c :: s <> []) by discriminate.
  pose proof (app_removelast_last 0%N Hne) as E.
  remember (c :: s) as w eqn:Ew. clear Ew Hne.
  rewrite E at 1 2. rewrite app_length. cbn [length].
  replace (0 + (Z.of_nat (length (removelast w) + 1) - 1)) with (Z.of_nat (length (removelast w))) by lia.
  apply Gen_header.hrd_zs_mid0.
Qed.

(* REQUIRED *)
Theorem gen_quote_need_eq : forall s : bytes, bytes_ok s -> Z.of_nat (length s) < 2 ^ 31 ->
  retval (C_quote_need.run (S (S (length s))) (zs s) 0 (Z.of_nat (length s)) ok_table) = Some (b2z (Quote.quote_need s)).
Proof.
  intros s Hs Hlen. rewrite p31 in Hlen.
  destruct s as [|c s].
  { vm_compute. reflexivity. }
  pose proof (Gen_header.hbytes_ok_mid [] c s Hs) as Hc.
  assert (Hl : (last (c :: s) 0 < 256)%N).
  { assert (Hne : c :: s <> []) by discriminate.
    pose proof (app_removelast_last 0%N Hne) as E. rewrite E in Hs. exact (Gen_header.hbytes_ok_mid _ _ [] Hs). }
  pose proof (qn_last c s) as Hlast.
  unfold Quote.quote_need.
  remember (last (c :: s) 0%N) as l eqn:El. clear El.
  assert (Hpos : 1 <= Z.of_nat (length (c :: s))) by (cbn [length]; lia).
  destruct (qn_loop1 (S (S (length (c :: s)))) (Z.of_nat (length (c :: s))) Hlen (c :: s) [] (S (S (length (c :: s)))) (zs (c :: s)) 0 0
    eq_refl eq_refl eq_refl Hs ltac:(lia)) as (uch' & st1 & H1).
  destruct (qn_loop2 (S (S (length (c :: s)))) (Z.of_nat (length (c :: s))) ltac:(lia) (c :: s) [] (S (S (length (c :: s)))) (zs (c :: s)) 0 uch'
    eq_refl eq_refl eq_refl Hs ltac:(lia)) as (st2 & H2).
  assert (H0 : rd (zs (c :: s)) (0 + 0) = Z.of_N c) by reflexivity.
  remember (forallb okch (c :: s)) as b1 eqn:Eb1. clear Eb1.
  remember (dotdot (c :: s)) as b2 eqn:Eb2. clear Eb2.
  remember (zs (c :: s)) as a eqn:Ea. clear Ea.
  remember (S (S (length (c :: s)))) as f0 eqn:Ef. clear Ef.
  remember (Z.of_nat (length (c :: s))) as n eqn:En. clear En Hs s.
  qn_run. change (wrapu 32 1) with 1.
  destruct (Z.eqb_spec n 0) as [Hz|_]; [lia|]. if_b2z_false.
  rewrite !obind_normal. rewrite H1.
  destruct b1; cbn [negb orb].
  2:{ rewrite obind_return. reflexivity. }
  rewrite obind_normal. qn_simpl.
  rewrite H0, (qn_dot c Hc).
  destruct (c =? DOT)%N; cbn [orb]; [if_b2z_true|if_b2z_false].
  { rewrite obind_return. reflexivity. }
  rewrite obind_normal. qn_simpl.
  rewrite (wrapu32_small (n - 1)) by lia.
  rewrite Hlast, (qn_dot l Hl).
  destruct (l =? DOT)%N; cbn [orb]; [if_b2z_true|if_b2z_false].
  { rewrite obind_return. reflexivity. }
  rewrite !obind_normal. qn_simpl. rewrite H2.
  destruct b2; [rewrite obind_return|rewrite obind_normal]; reflexivity.
Qed.


(* ================= quote_need, checked ================= *)
Ltac kqn_simpl := cbv beta iota zeta delta [K_quote_need.set_v_s K_quote_need.set_v_n K_quote_need.set_v_uch K_quote_need.set_v_i K_quote_need.set_v__oob K_quote_need.set_a_s K_quote_need.set_a_ok K_quote_need.v_s K_quote_need.v_n K_quote_need.v_uch K_quote_need.v_i K_quote_need.v__oob K_quote_need.a_s K_quote_need.a_ok].
Ltac kqn_unroll1 := cbn [K_quote_need.loop1 K_quote_need.set_v_s K_quote_need.set_v_n K_quote_need.set_v_uch K_quote_need.set_v_i K_quote_need.set_v__oob K_quote_need.set_a_s K_quote_need.set_a_ok K_quote_need.v_s K_quote_need.v_n K_quote_need.v_uch K_quote_need.v_i K_quote_need.v__oob K_quote_need.a_s K_quote_need.a_ok]; kqn_simpl.
Ltac kqn_unroll2 := cbn [K_quote_need.loop2 K_quote_need.set_v_s K_quote_need.set_v_n K_quote_need.set_v_uch K_quote_need.set_v_i K_quote_need.set_v__oob K_quote_need.set_a_s K_quote_need.set_a_ok K_quote_need.v_s K_quote_need.v_n K_quote_need.v_uch K_quote_need.v_i K_quote_need.v__oob K_quote_need.a_s K_quote_need.a_ok]; kqn_simpl.
Ltac kqn_run := cbv beta iota zeta delta [K_quote_need.run K_quote_need.body K_quote_need.set_v_s K_quote_need.set_v_n K_quote_need.set_v_uch K_quote_need.set_v_i K_quote_need.set_v__oob K_quote_need.set_a_s K_quote_need.set_a_ok K_quote_need.v_s K_quote_need.v_n K_quote_need.v_uch K_quote_need.v_i K_quote_need.v__oob K_quote_need.a_s K_quote_need.a_ok].

(* first loop followed by the rest K of the function: s[i] is read below n, ok[uch] only when uch < 128 *)
Lemma kqn_loop1 f0 (a tbl : list Z) (n : Z) (K : K_quote_need.st -> outcome K_quote_need.st) :
  n <= Z.of_nat (length a) -> n < 2147483648 -> length tbl = 128%nat ->
  (forall uch i, ok_out K_quote_need.v__oob (K {| K_quote_need.v_s := 0; K_quote_need.v_n := n; K_quote_need.v_uch := uch; K_quote_need.v_i := i;
     K_quote_need.v__oob := 0; K_quote_need.a_s := a; K_quote_need.a_ok := tbl |})) ->
  forall fuel k i uch, (k < fuel)%nat -> 0 <= i -> i + Z.of_nat k = n ->
  ok_out K_quote_need.v__oob (obind (K_quote_need.loop1 f0 fuel {| K_quote_need.v_s := 0; K_quote_need.v_n := n; K_quote_need.v_uch := uch;
     K_quote_need.v_i := i; K_quote_need.v__oob := 0; K_quote_need.a_s := a; K_quote_need.a_ok := tbl |}) K).
Proof.
  intros Hn Hn31 Htbl HK. induction fuel as [|f IH]; intros k i uch Hk Hi Hik; [lia|].
  kqn_unroll1. rewrite (wrapu32_small i) by lia.
  destruct (Z.ltb_spec i n) as [Hlt|Hge]; [if_b2z_true|if_b2z_false].
  2:{ rewrite obind_normal. apply HK. }
  rewrite oob_keep by (apply inb_true; lia).
  match goal with |- context [wrapu 8 ?x] =>
    let u := fresh "u" in let Eu := fresh "Eu" in let Hu := fresh "Hu" in
    remember (wrapu 8 x) as u eqn:Eu; assert (Hu : 0 <= u < 256) by (rewrite Eu, wrapu8; lia); clear Eu;
    rewrite (wraps32_small u) by lia;
    rewrite Z.geb_leb; destruct (Z.leb_spec 128 u) as [Hhi|Hlo]; [if_b2z_true|if_b2z_false]
  end.
  { rewrite !obind_return. reflexivity. }
  rewrite obind_normal. kqn_simpl.
  rewrite oob_keep by (apply inb_true; lia).
  match goal with |- context [if ?c then ONormal _ else _] => destruct c end; [|rewrite ?obind_return; reflexivity].
  kqn_simpl. rewrite (wraps32_small (i + 1)) by lia. apply (IH (k - 1)%nat); lia.
Qed.

(* second loop: i + 1 < n *)
Lemma kqn_loop2 f0 (a tbl : list Z) (n : Z) : n <= Z.of_nat (length a) -> 1 <= n < 2147483648 ->
  forall fuel k i uch, (k < fuel)%nat -> 0 <= i -> i + Z.of_nat k = n - 1 ->
  ok_out K_quote_need.v__oob (K_quote_need.loop2 f0 fuel {| K_quote_need.v_s := 0; K_quote_need.v_n := n; K_quote_need.v_uch := uch;
     K_quote_need.v_i := i; K_quote_need.v__oob := 0; K_quote_need.a_s := a; K_quote_need.a_ok := tbl |}).
Proof.
  intros Hn Hn31. induction fuel as [|f IH]; intros k i uch Hk Hi Hik; [lia|].
  kqn_unroll2. change (wrapu 32 1) with 1. rewrite (wrapu32_small i) by lia. rewrite (wrapu32_small (n - 1)) by lia.
  destruct (Z.ltb_spec i (n - 1)) as [Hlt|Hge]; [if_b2z_true|if_b2z_false].
  2:{ reflexivity. }
  rewrite oob_keep by (apply inb_true; lia).
  rewrite (wraps32_small (i + 1)) by lia.
  match goal with |- context [if ?c then ONormal _ else _] => destruct c end.
  { kqn_simpl. rewrite (wraps32_small (i + 1)) by lia. apply (IH (k - 1)%nat); lia. }
  rewrite oob_keep by (apply inb_true; lia).
  match goal with |- context [if ?c then ONormal _ else _] => destruct c end; [|reflexivity].
  kqn_simpl. rewrite (wraps32_small (i + 1)) by lia. apply (IH (k - 1)%nat); lia.
Qed.

(* REQUIRED: whatever the table holds (128 cells) and whatever bytes the address has (also >= 128), no access outside an array *)
Theorem safe_quote_need : forall (s : bytes) (tbl : list Z), bytes_ok s -> length tbl = 128%nat -> Z.of_nat (length s) < 2 ^ 31 ->
  exists v st, K_quote_need.run (S (S (length s))) (zs s) 0 (Z.of_nat (length s)) tbl = Some (v, st) /\ K_quote_need.v__oob st = 0.
Proof.
  intros s tbl _ Htbl Hlen. rewrite p31 in Hlen.
  assert (Ha : Z.of_nat (length s) <= Z.of_nat (length (zs s))) by (rewrite zs_length; lia).
  remember (zs s) as a eqn:Ea. clear Ea.
  assert (Hf : exists f0, S (S (length s)) = f0 /\ Z.of_nat (length s) + 1 < Z.of_nat f0) by (eexists; split; [reflexivity|lia]).
  destruct Hf as (f0 & -> & Hf0).
  assert (Hn0 : 0 <= Z.of_nat (length s)) by lia.
  remember (Z.of_nat (length s)) as n eqn:En. clear En s.
  kqn_run.
  destruct (Z.eqb_spec n 0) as [H0|H0]; [if_b2z_true|if_b2z_false].
  { rewrite obind_return. eexists; eexists; split; reflexivity. }
  rewrite !obind_normal.
  match goal with |- context [obind (K_quote_need.loop1 _ _ _) ?K] =>
    pose proof (kqn_loop1 f0 a tbl n K Ha Hlen Htbl) as H end.
  cbv beta in H.
  match type of H with ?P -> _ => assert (HK : P) end.
  { intros uch i. kqn_simpl. change (wrapu 32 1) with 1.
    rewrite oob_keep by (apply inb_true; lia).
    match goal with |- context [obind (if ?c then _ else _) _] => destruct c end; [|rewrite obind_return; reflexivity].
    rewrite obind_normal. kqn_simpl. rewrite (wrapu32_small (n - 1)) by lia.
    rewrite oob_keep by (apply inb_true; lia).
    match goal with |- context [obind (if ?c then _ else _) _] => destruct c end; [|rewrite obind_return; reflexivity].
    rewrite !obind_normal. kqn_simpl.
    pose proof (kqn_loop2 f0 a tbl n Ha ltac:(lia) f0 (Z.to_nat (n - 1)) 0 uch ltac:(lia) ltac:(lia) ltac:(lia)) as H2.
    destruct (K_quote_need.loop2 _ _ _) as [st|v st|st|st|]; cbn [Gen_safety.ok_out] in H2; try contradiction;
      rewrite ?obind_normal, ?obind_return; exact H2. }
  specialize (H HK f0 (Z.to_nat n) 0 0 ltac:(lia) ltac:(lia) ltac:(lia)). clear HK.
  match goal with |- context [match ?o with ONormal _ => _ | _ => _ end] => destruct o as [st|v st|st|st|] end;
    cbn [Gen_safety.ok_out] in H; try contradiction;
    eexists; eexists; split; [reflexivity|exact H|reflexivity|exact H].
Qed.


(* ================= hmatch, checked ================= *)
Ltac khm_simpl := cbv beta iota zeta delta [K_hmatch.set_v_s K_hmatch.set_v_len K_hmatch.set_v_t K_hmatch.set_v_i K_hmatch.set_v_ch K_hmatch.set_v__oob K_hmatch.set_a_s K_hmatch.set_a_t K_hmatch.v_s K_hmatch.v_len K_hmatch.v_t K_hmatch.v_i K_hmatch.v_ch K_hmatch.v__oob K_hmatch.a_s K_hmatch.a_t].
Ltac khm_unroll1 := cbn [K_hmatch.loop1 K_hmatch.set_v_s K_hmatch.set_v_len K_hmatch.set_v_t K_hmatch.set_v_i K_hmatch.set_v_ch K_hmatch.set_v__oob K_hmatch.set_a_s K_hmatch.set_a_t K_hmatch.v_s K_hmatch.v_len K_hmatch.v_t K_hmatch.v_i K_hmatch.v_ch K_hmatch.v__oob K_hmatch.a_s K_hmatch.a_t]; khm_simpl.
Ltac khm_unroll2 := cbn [K_hmatch.loop2 K_hmatch.set_v_s K_hmatch.set_v_len K_hmatch.set_v_t K_hmatch.set_v_i K_hmatch.set_v_ch K_hmatch.set_v__oob K_hmatch.set_a_s K_hmatch.set_a_t K_hmatch.v_s K_hmatch.v_len K_hmatch.v_t K_hmatch.v_i K_hmatch.v_ch K_hmatch.v__oob K_hmatch.a_s K_hmatch.a_t]; khm_simpl.
Ltac khm_run := cbv beta iota zeta delta [K_hmatch.run K_hmatch.body K_hmatch.set_v_s K_hmatch.set_v_len K_hmatch.set_v_t K_hmatch.set_v_i K_hmatch.set_v_ch K_hmatch.set_v__oob K_hmatch.set_a_s K_hmatch.set_a_t K_hmatch.v_s K_hmatch.v_len K_hmatch.v_t K_hmatch.v_i K_hmatch.v_ch K_hmatch.v__oob K_hmatch.a_s K_hmatch.a_t].


(* second loop: every read of s is guarded by i < len *)
Lemma khm_loop2 f0 (a b : list Z) (n : Z) : n <= Z.of_nat (length a) -> n < 2147483648 ->
  forall fuel i ch, (0 < fuel)%nat -> n - i < Z.of_nat fuel -> 0 <= i ->
  ok_out K_hmatch.v__oob (K_hmatch.loop2 f0 fuel {| K_hmatch.v_s := 0; K_hmatch.v_len := n; K_hmatch.v_t := 0; K_hmatch.v_i := i;
     K_hmatch.v_ch := ch; K_hmatch.v__oob := 0; K_hmatch.a_s := a; K_hmatch.a_t := b |}).
Proof.
  intros Hn Hn31. induction fuel as [|f IH]; intros i ch Hpos Hf Hi; [lia|].
  khm_unroll2. change (1 =? 0) with false. cbv iota.
  rewrite Z.geb_leb. destruct (Z.leb_spec n i) as [Hge|Hlt]; [if_b2z_true|if_b2z_false].
  { rewrite obind_return. reflexivity. }
  rewrite obind_normal. khm_simpl.
  rewrite oob_keep by (apply inb_true; lia).
  match goal with |- context [obind (if ?c then _ else _) _] => destruct c end; [|rewrite obind_return; reflexivity].
  rewrite obind_normal. khm_simpl.
  match goal with |- context [obind (if ?c then _ else _) _] => destruct c end; [|rewrite obind_return; reflexivity].
  rewrite obind_normal. khm_simpl.
  rewrite (wraps32_small (i + 1)) by lia.
  apply IH; lia.
Qed.

(* first loop, followed by the second: t is read up to its NUL, s only below len *)
Lemma khm_loops f0 (a b : list Z) (n e : Z) : n <= Z.of_nat (length a) -> n < 2147483648 -> (0 < f0)%nat -> n < Z.of_nat f0 ->
  rd b e = 0 -> e < Z.of_nat (length b) -> e < 2147483648 ->
  forall fuel k i ch, (k < fuel)%nat -> 0 <= i -> i + Z.of_nat k = e ->
  ok_out K_hmatch.v__oob (obind (K_hmatch.loop1 f0 fuel {| K_hmatch.v_s := 0; K_hmatch.v_len := n; K_hmatch.v_t := 0; K_hmatch.v_i := i;
     K_hmatch.v_ch := ch; K_hmatch.v__oob := 0; K_hmatch.a_s := a; K_hmatch.a_t := b |}) (fun st => K_hmatch.loop2 f0 f0 st)).
Proof.
  intros Hn Hn31 Hf0p Hf0 He Hlen He31. induction fuel as [|f IH]; intros k i ch Hk Hi Hik; [lia|].
  khm_unroll1. rewrite oob_keep by (apply inb_true; lia).
  destruct k as [|k].
  { match goal with |- context [rd b ?t] => replace (rd b t) with 0 by (rewrite <- He; f_equal; lia) end.
    change (wraps 8 0 =? 0) with true. cbv iota. rewrite obind_normal. apply khm_loop2; lia. }
  match goal with |- context [if ?c then ONormal _ else _] => destruct c end.
  { rewrite obind_normal. apply khm_loop2; lia. }
  rewrite Z.geb_leb. destruct (Z.leb_spec n i) as [Hge|Hlt]; [if_b2z_true|if_b2z_false].
  { rewrite !obind_return. reflexivity. }
  rewrite obind_normal. khm_simpl.
  rewrite !oob_keep by (apply inb_true; lia).
  match goal with |- context [if ?c then ONormal _ else _] => destruct c end.
  { khm_simpl. rewrite (wraps32_small (i + 1)) by lia. apply (IH k); lia. }
  match goal with |- context [obind (if ?c then _ else _) _] => destruct c end; [|rewrite !obind_return; reflexivity].
  rewrite obind_normal. khm_simpl.
  rewrite !oob_keep by (apply inb_true; lia).
  match goal with |- context [if ?c then ONormal _ else _] => destruct c end; [|rewrite ?obind_return; reflexivity].
  khm_simpl. rewrite (wraps32_small (i + 1)) by lia. apply (IH k); lia.
Qed.

(* REQUIRED *)
Theorem safe_hmatch : forall s t : bytes, bytes_ok s -> bytes_ok t -> ~ In 0%N t -> Z.of_nat (length s) < 2 ^ 31 -> Z.of_nat (length t) < 2 ^ 31 ->
  exists v st, K_hmatch.run (S (length s + length t)) (zs s) 0 (Z.of_nat (length s)) (zs t ++ [0]) 0 = Some (v, st) /\ K_hmatch.v__oob st = 0.
Proof.
  intros s t _ _ _ Hls Hlt. rewrite p31 in Hls, Hlt.
  khm_run. rewrite obind_normal.
  pose proof (khm_loops (S (length s + length t)) (zs s) (zs t ++ [0]) (Z.of_nat (length s)) (Z.of_nat (length t))
    ltac:(rewrite zs_length; lia) Hls ltac:(lia) ltac:(lia) (Gen_safety.rd_zs0_end t) ltac:(rewrite Gen_safety.zs0_length; lia) Hlt
    (S (length s + length t)) (length t) 0 0 ltac:(lia) ltac:(lia) ltac:(lia)) as H.
  match goal with |- context [match ?o with ONormal _ => _ | _ => _ end] => destruct o as [st|v st|st|st|] end;
    cbn [Gen_safety.ok_out] in H; try contradiction;
    eexists; eexists; split; [reflexivity|exact H|reflexivity|exact H].
Qed.

(* ================= atomcheck, checked ================= *)
Ltac kac_simpl := cbv beta iota zeta delta [K_atomcheck.set_v_i K_atomcheck.set_v_ch K_atomcheck.set_v__oob K_atomcheck.set_v_t__slen K_atomcheck.set_v_t__type K_atomcheck.set_a_t__s K_atomcheck.v_i K_atomcheck.v_ch K_atomcheck.v__oob K_atomcheck.v_t__slen K_atomcheck.v_t__type K_atomcheck.a_t__s].
Ltac kac_unroll := cbn [K_atomcheck.loop1 K_atomcheck.set_v_i K_atomcheck.set_v_ch K_atomcheck.set_v__oob K_atomcheck.set_v_t__slen K_atomcheck.set_v_t__type K_atomcheck.set_a_t__s K_atomcheck.v_i K_atomcheck.v_ch K_atomcheck.v__oob K_atomcheck.v_t__slen K_atomcheck.v_t__type K_atomcheck.a_t__s]; kac_simpl.
Ltac kac_run := cbv beta iota zeta delta [K_atomcheck.run K_atomcheck.body K_atomcheck.set_v_i K_atomcheck.set_v_ch K_atomcheck.set_v__oob K_atomcheck.set_v_t__slen K_atomcheck.set_v_t__type K_atomcheck.set_a_t__s K_atomcheck.v_i K_atomcheck.v_ch K_atomcheck.v__oob K_atomcheck.v_t__slen K_atomcheck.v_t__type K_atomcheck.a_t__s].

Lemma kac_loop f0 (a : list Z) (n : Z) : n <= Z.of_nat (length a) -> n < 2147483648 ->
  forall fuel k i ch ty, (k < fuel)%nat -> 0 <= i -> i + Z.of_nat k = n ->
  ok_out K_atomcheck.v__oob (K_atomcheck.loop1 f0 fuel {| K_atomcheck.v_i := i; K_atomcheck.v_ch := ch; K_atomcheck.v__oob := 0;
     K_atomcheck.v_t__slen := n; K_atomcheck.v_t__type := ty; K_atomcheck.a_t__s := a |}).
Proof.
  intros Hn Hn31. induction fuel as [|f IH]; intros k i ch ty Hk Hi Hik; [lia|].
  kac_unroll.
  destruct (Z.ltb_spec i n) as [Hlt|Hge]; cbn [b2z]; [change (1 =? 0) with false | change (0 =? 0) with true]; cbv iota.
  2:{ reflexivity. }
  rewrite oob_keep by (apply inb_true; lia).
  match goal with |- context [if ?c then ONormal _ else OReturn _ _] => destruct c end; [|reflexivity].
  rewrite (wraps32_small (i + 1)) by lia.
  apply (IH (k - 1)%nat); lia.
Qed.

Theorem safe_atomcheck : forall (s : bytes) (ty : Z), bytes_ok s -> Z.of_nat (length s) < 2 ^ 31 ->
  exists v st, K_atomcheck.run (S (length s)) (zs s) (Z.of_nat (length s)) ty = Some (v, st) /\ K_atomcheck.v__oob st = 0.
Proof.
  intros s ty _ Hlen. rewrite p31 in Hlen.
  kac_run. rewrite obind_normal.
  pose proof (kac_loop (S (length s)) (zs s) (Z.of_nat (length s)) ltac:(rewrite zs_length; lia) Hlen
    (S (length s)) (length s) 0 0 ty ltac:(lia) ltac:(lia) ltac:(lia)) as H.
  destruct (K_atomcheck.loop1 _ _ _) as [st|v st|st|st|]; cbn [Gen_safety.ok_out] in H; try contradiction;
    eexists; eexists; split; [reflexivity|exact H|reflexivity|exact H].
Qed.

(* ================= striptrailingwhitespace, checked ================= *)
Ltac kst_simpl := cbv beta iota zeta delta [K_striptrailingwhitespace.set_v__oob K_striptrailingwhitespace.set_v_sa__len K_striptrailingwhitespace.set_a_sa__s K_striptrailingwhitespace.v__oob K_striptrailingwhitespace.v_sa__len K_striptrailingwhitespace.a_sa__s].
Ltac kst_unroll := cbn [K_striptrailingwhitespace.loop1 K_striptrailingwhitespace.set_v__oob K_striptrailingwhitespace.set_v_sa__len K_striptrailingwhitespace.set_a_sa__s K_striptrailingwhitespace.v__oob K_striptrailingwhitespace.v_sa__len K_striptrailingwhitespace.a_sa__s]; kst_simpl.
Ltac kst_run := cbv beta iota zeta delta [K_striptrailingwhitespace.run K_striptrailingwhitespace.body K_striptrailingwhitespace.set_v__oob K_striptrailingwhitespace.set_v_sa__len K_striptrailingwhitespace.set_a_sa__s K_striptrailingwhitespace.v__oob K_striptrailingwhitespace.v_sa__len K_striptrailingwhitespace.a_sa__s].

Lemma kst_loop f0 (a : list Z) : forall fuel k, (k < fuel)%nat -> Z.of_nat k < 4294967296 -> Z.of_nat k <= Z.of_nat (length a) ->
  ok_out K_striptrailingwhitespace.v__oob (K_striptrailingwhitespace.loop1 f0 fuel
    {| K_striptrailingwhitespace.v__oob := 0; K_striptrailingwhitespace.v_sa__len := Z.of_nat k; K_striptrailingwhitespace.a_sa__s := a |}).
Proof.
  induction fuel as [|f IH]; intros k Hk Hk32 Ha; [lia|].
  kst_unroll. change (wrapu 32 0) with 0. change (wrapu 32 1) with 1. destruct k as [|k].
  - cbn [Z.of_nat]. change (0 >? 0) with false. cbn [b2z]. change (0 =? 0) with true. cbv iota. reflexivity.
  - rewrite of_nat_S_gtb0. cbn [b2z]. change (1 =? 0) with false. cbv iota.
    rewrite !(sub1_nat k) by lia.
    rewrite oob_keep by (apply inb_true; lia).
    match goal with |- context [if ?c then OBreak _ else _] => destruct c end; [|reflexivity].
    apply IH; lia.
Qed.

Theorem safe_striptrailingwhitespace : forall s : bytes, bytes_ok s -> Z.of_nat (length s) < 2 ^ 32 ->
  exists v st, K_striptrailingwhitespace.run (S (length s)) (zs s) (Z.of_nat (length s)) = Some (v, st) /\ K_striptrailingwhitespace.v__oob st = 0.
Proof.
  intros s _ Hlen. rewrite p32 in Hlen.
  cbv beta iota zeta delta [K_striptrailingwhitespace.run K_striptrailingwhitespace.body].
  pose proof (kst_loop (S (length s)) (zs s) (S (length s)) (length s) ltac:(lia) ltac:(lia) ltac:(rewrite zs_length; lia)) as H.
  destruct (K_striptrailingwhitespace.loop1 _ _ _) as [st|v st|st|st|]; cbn [Gen_safety.ok_out] in H; try contradiction;
    eexists; eexists; split; [reflexivity|exact H|reflexivity|exact H].
Qed.

(* ================= case_lowerb, checked ================= *)
Ltac clb_simpl := cbv beta iota zeta delta [K_case_lowerb.set_v_s K_case_lowerb.set_v_len K_case_lowerb.set_v_x K_case_lowerb.set_v__oob K_case_lowerb.set_a_s K_case_lowerb.v_s K_case_lowerb.v_len K_case_lowerb.v_x K_case_lowerb.v__oob K_case_lowerb.a_s].
Ltac clb_unroll := cbn [K_case_lowerb.loop1 K_case_lowerb.set_v_s K_case_lowerb.set_v_len K_case_lowerb.set_v_x K_case_lowerb.set_v__oob K_case_lowerb.set_a_s K_case_lowerb.v_s K_case_lowerb.v_len K_case_lowerb.v_x K_case_lowerb.v__oob K_case_lowerb.a_s]; clb_simpl.
Ltac clb_run := cbv beta iota zeta delta [K_case_lowerb.run K_case_lowerb.body K_case_lowerb.set_v_s K_case_lowerb.set_v_len K_case_lowerb.set_v_x K_case_lowerb.set_v__oob K_case_lowerb.set_a_s K_case_lowerb.v_s K_case_lowerb.v_len K_case_lowerb.v_x K_case_lowerb.v__oob K_case_lowerb.a_s].

Lemma clb_loop f0 : forall fuel k p x a, (k < fuel)%nat -> Z.of_nat k < 4294967296 ->
  0 <= p -> p + Z.of_nat k <= Z.of_nat (length a) ->
  ok_out K_case_lowerb.v__oob (K_case_lowerb.loop1 f0 fuel {| K_case_lowerb.v_s := p; K_case_lowerb.v_len := Z.of_nat k;
     K_case_lowerb.v_x := x; K_case_lowerb.v__oob := 0; K_case_lowerb.a_s := a |}).
Proof.
  induction fuel as [|f IH]; intros k p x a Hk Hk32 Hp Ha; [lia|].
  clb_unroll. change (wrapu 32 0) with 0. destruct k as [|k].
  - cbn [Z.of_nat]. change (0 >? 0) with false. cbn [b2z]. change (0 =? 0) with true. cbv iota. reflexivity.
  - rewrite of_nat_S_gtb0. cbn [b2z]. change (1 =? 0) with false. cbv iota.
    rewrite !oob_keep by (apply inb_true; lia). rewrite (sub1_nat k) by lia.
    match goal with |- context [obind (if ?c then _ else _) _] => destruct c end;
      rewrite obind_normal; clb_simpl; apply IH; rewrite ?wr_length; lia.
Qed.

Theorem safe_case_lowerb : forall s : bytes, bytes_ok s -> Z.of_nat (length s) < 2 ^ 32 ->
  exists v st, K_case_lowerb.run (S (length s)) (zs s) 0 (Z.of_nat (length s)) = Some (v, st) /\ K_case_lowerb.v__oob st = 0.
Proof.
  intros s _ Hlen. rewrite p32 in Hlen.
  cbv beta iota zeta delta [K_case_lowerb.run K_case_lowerb.body].
  pose proof (clb_loop (S (length s)) (S (length s)) (length s) 0 0 (zs s)) as H.
  rewrite zs_length in H. specialize (H ltac:(lia) ltac:(lia) ltac:(lia) ltac:(lia)).
  destruct (K_case_lowerb.loop1 _ _ _) as [st|v st|st|st|]; cbn [Gen_safety.ok_out] in H; try contradiction;
    eexists; eexists; split; [reflexivity|exact H|reflexivity|exact H].
Qed.

(* ================= byte_rchr, checked ================= *)
Ltac kbr_simpl := cbv beta iota zeta delta [K_byte_rchr.set_v_s K_byte_rchr.set_v_n K_byte_rchr.set_v_c K_byte_rchr.set_v_ch K_byte_rchr.set_v_t K_byte_rchr.set_v_u K_byte_rchr.set_v__oob K_byte_rchr.set_a_s K_byte_rchr.v_s K_byte_rchr.v_n K_byte_rchr.v_c K_byte_rchr.v_ch K_byte_rchr.v_t K_byte_rchr.v_u K_byte_rchr.v__oob K_byte_rchr.a_s].
Ltac kbr_unroll := cbn [K_byte_rchr.loop1 K_byte_rchr.set_v_s K_byte_rchr.set_v_n K_byte_rchr.set_v_c K_byte_rchr.set_v_ch K_byte_rchr.set_v_t K_byte_rchr.set_v_u K_byte_rchr.set_v__oob K_byte_rchr.set_a_s K_byte_rchr.v_s K_byte_rchr.v_n K_byte_rchr.v_c K_byte_rchr.v_ch K_byte_rchr.v_t K_byte_rchr.v_u K_byte_rchr.v__oob K_byte_rchr.a_s]; kbr_simpl.
Ltac kbr_run := cbv beta iota zeta delta [K_byte_rchr.run K_byte_rchr.body K_byte_rchr.set_v_s K_byte_rchr.set_v_n K_byte_rchr.set_v_c K_byte_rchr.set_v_ch K_byte_rchr.set_v_t K_byte_rchr.set_v_u K_byte_rchr.set_v__oob K_byte_rchr.set_a_s K_byte_rchr.v_s K_byte_rchr.v_n K_byte_rchr.v_c K_byte_rchr.v_ch K_byte_rchr.v_t K_byte_rchr.v_u K_byte_rchr.v__oob K_byte_rchr.a_s].

(* one copy of the four-times unrolled body: n == 0 breaks; the comparison only decides whether u is set *)
Ltac kbr_step k :=
  destruct k as [|k];
  [ cbn [Z.of_nat]; change (0 =? 0) with true; cbn [b2z]; change (1 =? 0) with false; cbv iota; rewrite ?obind_break; reflexivity | ];
  rewrite of_nat_S_eqb0; cbn [b2z]; change (0 =? 0) with true; cbv iota; rewrite obind_normal; kbr_simpl;
  rewrite oob_keep by (apply inb_true; lia);
  match goal with |- context [obind (if ?c then _ else _) _] => destruct c end;
  rewrite obind_normal; kbr_simpl; rewrite (sub1_nat k) by lia.

Lemma kbr_loop f0 (a : list Z) : forall fuel k s0 c ch t u, (k < fuel)%nat -> Z.of_nat k < 4294967296 ->
  0 <= t -> t + Z.of_nat k <= Z.of_nat (length a) ->
  ok_out K_byte_rchr.v__oob (K_byte_rchr.loop1 f0 fuel {| K_byte_rchr.v_s := s0; K_byte_rchr.v_n := Z.of_nat k; K_byte_rchr.v_c := c;
     K_byte_rchr.v_ch := ch; K_byte_rchr.v_t := t; K_byte_rchr.v_u := u; K_byte_rchr.v__oob := 0; K_byte_rchr.a_s := a |}).
Proof.
  induction fuel as [|f IH]; intros k s0 c ch t u Hk Hk32 Ht Ha; [lia|].
  kbr_unroll. change (1 =? 0) with false. cbv iota.
  kbr_step k; kbr_step k; kbr_step k; kbr_step k; apply IH; lia.
Qed.

Theorem safe_byte_rchr : forall (s : bytes) (c : N), bytes_ok s -> (c < 256)%N -> Z.of_nat (length s) < 2 ^ 32 ->
  exists v st, K_byte_rchr.run (S (length s)) (zs s) 0 (Z.of_nat (length s)) (Z.of_N c) = Some (v, st) /\ K_byte_rchr.v__oob st = 0.
Proof.
  intros s c _ _ Hlen. rewrite p32 in Hlen.
  kbr_run.
  pose proof (kbr_loop (S (length s)) (zs s) (S (length s)) (length s) 0 (Z.of_N c) (wraps 8 (Z.of_N c)) 0 (-1)) as H.
  rewrite !zs_length in H. specialize (H ltac:(lia) ltac:(lia) ltac:(lia) ltac:(lia)).
  destruct (K_byte_rchr.loop1 _ _ _) as [st|v st|st|st|]; cbn [Gen_safety.ok_out] in H; try contradiction;
    rewrite ?obind_normal, ?obind_return.
  - destruct st; cbn [K_byte_rchr.v__oob] in H; subst.
    match goal with |- context [obind (if ?c then _ else _) _] => destruct c end;
      rewrite obind_normal; eexists; eexists; split; reflexivity.
  - eexists; eexists; split; [reflexivity|exact H].
Qed.

(* ================= str_rchr, checked ================= *)
Ltac ksr_simpl := cbv beta iota zeta delta [K_str_rchr.set_v_s K_str_rchr.set_v_c K_str_rchr.set_v_ch K_str_rchr.set_v_t K_str_rchr.set_v_u K_str_rchr.set_v__oob K_str_rchr.set_a_s K_str_rchr.v_s K_str_rchr.v_c K_str_rchr.v_ch K_str_rchr.v_t K_str_rchr.v_u K_str_rchr.v__oob K_str_rchr.a_s].
Ltac ksr_unroll := cbn [K_str_rchr.loop1 K_str_rchr.set_v_s K_str_rchr.set_v_c K_str_rchr.set_v_ch K_str_rchr.set_v_t K_str_rchr.set_v_u K_str_rchr.set_v__oob K_str_rchr.set_a_s K_str_rchr.v_s K_str_rchr.v_c K_str_rchr.v_ch K_str_rchr.v_t K_str_rchr.v_u K_str_rchr.v__oob K_str_rchr.a_s]; ksr_simpl.
Ltac ksr_run := cbv beta iota zeta delta [K_str_rchr.run K_str_rchr.body K_str_rchr.set_v_s K_str_rchr.set_v_c K_str_rchr.set_v_ch K_str_rchr.set_v_t K_str_rchr.set_v_u K_str_rchr.set_v__oob K_str_rchr.set_a_s K_str_rchr.v_s K_str_rchr.v_c K_str_rchr.v_ch K_str_rchr.v_t K_str_rchr.v_u K_str_rchr.v__oob K_str_rchr.a_s].

Ltac ksr_step k a e He :=
  rewrite oob_keep by (apply inb_true; lia);
  destruct k as [|k];
  [ match goal with |- context [rd a ?t] => replace (rd a t) with 0 by (rewrite <- He; f_equal; lia) end;
    change (wraps 8 0 =? 0) with true; cbn [b2z]; change (1 =? 0) with false; cbv iota; rewrite ?obind_break; reflexivity | ];
  match goal with |- context [obind (if ?c then _ else _) _] => destruct c end;
  [ | rewrite ?obind_break; reflexivity ];
  rewrite obind_normal; ksr_simpl; rewrite oob_keep by (apply inb_true; lia);
  match goal with |- context [obind (if ?c then _ else _) _] => destruct c end;
  rewrite obind_normal; ksr_simpl.

Lemma ksr_loop f0 (a : list Z) (e : Z) : rd a e = 0 -> e < Z.of_nat (length a) ->
  forall fuel k s0 c ch t u, (k < fuel)%nat -> 0 <= t -> t + Z.of_nat k = e ->
  ok_out K_str_rchr.v__oob (K_str_rchr.loop1 f0 fuel {| K_str_rchr.v_s := s0; K_str_rchr.v_c := c; K_str_rchr.v_ch := ch; K_str_rchr.v_t := t;
     K_str_rchr.v_u := u; K_str_rchr.v__oob := 0; K_str_rchr.a_s := a |}).
Proof.
  intros He Hlen. induction fuel as [|f IH]; intros k s0 c ch t u Hk Ht Hte; [lia|].
  ksr_unroll. change (1 =? 0) with false. cbv iota.
  ksr_step k a e He; ksr_step k a e He; ksr_step k a e He; ksr_step k a e He; apply (IH k); lia.
Qed.

Theorem safe_str_rchr : forall (s : bytes) (c : N), bytes_ok s -> ~ In 0%N s -> (c < 256)%N -> Z.of_nat (length s) < 2 ^ 31 ->
  exists v st, K_str_rchr.run (S (length s)) (zs s ++ [0]) 0 (Z.of_N c) = Some (v, st) /\ K_str_rchr.v__oob st = 0.
Proof.
  intros s c _ _ _ Hlen.
  ksr_run.
  pose proof (ksr_loop (S (length s)) (zs s ++ [0]) (Z.of_nat (length s)) (Gen_safety.rd_zs0_end s) ltac:(rewrite Gen_safety.zs0_length; lia)
     (S (length s)) (length s) 0 (Z.of_N c) (wraps 8 (Z.of_N c)) 0 (-1) ltac:(lia) ltac:(lia) ltac:(lia)) as H.
  destruct (K_str_rchr.loop1 _ _ _) as [st|v st|st|st|]; cbn [Gen_safety.ok_out] in H; try contradiction;
    rewrite ?obind_normal, ?obind_return.
  - destruct st; cbn [K_str_rchr.v__oob] in H; subst.
    match goal with |- context [obind (if ?c then _ else _) _] => destruct c end;
      rewrite obind_normal; eexists; eexists; split; reflexivity.
  - eexists; eexists; split; [reflexivity|exact H].
Qed.

