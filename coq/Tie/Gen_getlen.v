(* qmail-remote.c smtpcode() with get() (the SMTP reply parser, C09) and qmail-qmtpd.c getlen() (the netstring length parser,
   C07/C20) as generated from today's sources  =  the models Remote/RemoteSmtp.v smtpcode and Mem/Netstr.v getlen.
   The peer's bytes are the file-scope input list (g_smtpfrom__in_ / g_ssin__in_) read from position g_..__pos_; where the program's
   read function exits at end of input the run ends with code -9; resources() is -6, badproto() -7, temp_nomem() -5.
   REQUIRED statements must be proved exactly as stated. *)
From Coq Require Import ZArith NArith List Lia.
From NQ Require Import Base.MiniC Base.Bytes Remote.RemoteSmtp Mem.Netstr gen.CGen Tie.GenCommon Tie.GenAux.
Import ListNotations.
Local Open Scope Z_scope.

From Coq Require Import Bool ZifyBool.
Ltac Zify.zify_post_hook ::= Z.div_mod_to_equations.

(* Proof conventions.  Nothing below mentions a name invented by the translator.  The calls of get() inside smtpcode() are
   never reduced inside the generated let-chains: getk below is the calling sequence of the translator for one call of
   C_rget.run with the rest of the function as a continuation, the generated loops and body are shown once (by
   conversion, with C_rget.run kept folded by a Strategy hint) to be compositions of getk, and every later step is a
   rewrite with getk_ok or getk_eof on terms that contain no let.  The conversion of a chain of three calls is the
   expensive step of this file (about one minute for loop1, several minutes for body). *)

(* ---------- generic facts ---------- *)
Lemma pobind_normal {S} (s : S) f : obind (ONormal s) f = f s. Proof. reflexivity. Qed.
Lemma pobind_return {S} v (s : S) f : obind (OReturn v s) f = OReturn v s. Proof. reflexivity. Qed.
Lemma pobind_break {S} (s : S) f : obind (OBreak s) f = OBreak s. Proof. reflexivity. Qed.
Lemma pb2z_if {A} (b : bool) (x y : A) : (if b2z b =? 0 then x else y) = if b then y else x.
Proof. destruct b; reflexivity. Qed.

Lemma prd_zs_mid (pre : bytes) x (rest : bytes) : rd (zs (pre ++ x :: rest)) (Z.of_nat (length pre)) = Z.of_N x.
Proof. rewrite zs_app, <- (zs_length pre). cbn [zs map]. apply rd_app_mid. Qed.

Lemma pc_or (a b : bool) : (if b2z a =? 0 then b2z (negb (b2z b =? 0)) else 1) = b2z (a || b).
Proof. destruct a, b; reflexivity. Qed.


Definition chars (s : bytes) : list Z := map (fun c => wraps 8 (Z.of_N c)) s.

(* ---------- qmail-qmtpd.c getlen() ---------- *)
Ltac gl_simpl := cbv beta iota zeta delta [C_getlen.set_v_len C_getlen.set_v_ch C_getlen.set_v_ssin__pos C_getlen.set_a_ssin__in
  C_getlen.v_len C_getlen.v_ch C_getlen.v_ssin__pos C_getlen.a_ssin__in].

Lemma gl_ch8 c : (c < 256)%N -> -128 <= wraps 8 (Z.of_N c) < 128.
Proof. intros H. rewrite wraps8. lia. Qed.
Lemma gl_upd len ch : -128 <= ch < 128 ->
  wrapu 64 (wrapu 64 (wrapu 64 10 * len) + wrapu 64 (wraps 32 (wraps 32 ch - 48))) = (10 * len + (ch - 48)) mod M64.
Proof.
  intros H. rewrite (wraps32_small ch) by lia. rewrite (wraps32_small (ch - 48)) by lia.
  rewrite !wrapu64. change (10 mod 18446744073709551616) with 10. unfold M64.
  rewrite <- Zplus_mod. reflexivity.
Qed.
Lemma gl_lenbound x : 0 <= x mod M64 < 18446744073709551616.
Proof. unfold M64. apply Z.mod_pos_bound. reflexivity. Qed.

Lemma gl_loop (f0 : nat) (l : bytes) : forall (rest pre : bytes) (p len ch0 : Z) (fuel : nat),
  l = pre ++ rest -> p = Z.of_nat (length pre) -> bytes_ok rest -> (length rest < fuel)%nat ->
  match Netstr.getlen_loop (chars rest) len with
  | GOk n r => exists st, C_getlen.loop1 f0 fuel {| C_getlen.v_len := len; C_getlen.v_ch := ch0; C_getlen.v_ssin__pos := p;
                                                   C_getlen.a_ssin__in := zs l |} = OReturn n st
                          /\ C_getlen.v_ssin__pos st = Z.of_nat (length l - length r)
  | GResources => exists st, C_getlen.loop1 f0 fuel {| C_getlen.v_len := len; C_getlen.v_ch := ch0; C_getlen.v_ssin__pos := p;
                                                   C_getlen.a_ssin__in := zs l |} = OReturn (-6) st
  | GBadproto => exists st, C_getlen.loop1 f0 fuel {| C_getlen.v_len := len; C_getlen.v_ch := ch0; C_getlen.v_ssin__pos := p;
                                                   C_getlen.a_ssin__in := zs l |} = OReturn (-7) st
  | GEof => exists st, C_getlen.loop1 f0 fuel {| C_getlen.v_len := len; C_getlen.v_ch := ch0; C_getlen.v_ssin__pos := p;
                                                   C_getlen.a_ssin__in := zs l |} = OReturn (-9) st
  end.
Proof.
  induction rest as [|c rest IH]; intros pre p len ch0 fuel Hl Hp Hok Hfuel;
    (destruct fuel as [|f]; [cbn [length] in Hfuel; lia|]);
    cbn [C_getlen.loop1]; gl_simpl; change (1 =? 0) with false; cbv iota.
  - cbn [chars map Netstr.getlen_loop].
    assert (Hlt : (p <? alen (zs l)) = false).
    { apply Z.ltb_ge. unfold alen. rewrite zs_length. subst. rewrite app_nil_r. lia. }
    rewrite Hlt. change (b2z false =? 0) with true. cbv iota. eexists. reflexivity.
  - apply bytes_ok_cons in Hok. destruct Hok as [Hc Hok].
    assert (Hlt : (p <? alen (zs l)) = true).
    { apply Z.ltb_lt. unfold alen. rewrite zs_length. subst. rewrite app_length. cbn [length]. lia. }
    rewrite Hlt. change (b2z true =? 0) with false. cbv iota.
    assert (Hrd : rd (zs l) p = Z.of_N c) by (subst; apply prd_zs_mid).
    rewrite Hrd.
    pose proof (gl_ch8 c Hc) as H8.
    cbn [chars map Netstr.getlen_loop]. fold (chars rest).
    remember (wraps 8 (Z.of_N c)) as ch eqn:Ech.
    rewrite (wraps32_small ch) by lia.
    change (wrapu 64 200000000) with 200000000.
    rewrite pb2z_if.
    destruct (ch =? 58).
    + rewrite pobind_return. eexists. split; [reflexivity|]. cbn [C_getlen.v_ssin__pos].
      unfold chars. rewrite map_length. subst l p. rewrite app_length. cbn [length]. lia.
    + rewrite pobind_normal. cbv beta. gl_simpl. rewrite pb2z_if, Z.gtb_ltb.
      destruct (200000000 <? len).
      * rewrite pobind_return. eexists. reflexivity.
      * rewrite pobind_normal. cbv beta. gl_simpl.
        rewrite (wraps32_small ch) by lia. rewrite pc_or, pb2z_if, Z.gtb_ltb.
        destruct ((ch <? 48) || (57 <? ch)).
        -- rewrite pobind_return. eexists. reflexivity.
        -- rewrite pobind_normal. cbv beta. gl_simpl. rewrite (gl_upd len ch H8).
           apply (IH (pre ++ [c])).
           ++ rewrite <- app_assoc. exact Hl.
           ++ rewrite app_length. cbn [length]. lia.
           ++ exact Hok.
           ++ cbn [length] in Hfuel. lia.
Qed.

(* REQUIRED 3: getlen() on the stream s: length and rest, or one of the three exits *)
Theorem gen_getlen_eq : forall s : bytes, bytes_ok s -> Z.of_nat (length s) < 2 ^ 31 ->
  match Netstr.getlen (chars s) with
  | GOk len rest =>
      exists st, C_getlen.run (S (length s)) (zs s) 0 = Some (len, st) /\
                 C_getlen.v_ssin__pos st = Z.of_nat (length s - length rest)
  | GResources => retval (C_getlen.run (S (length s)) (zs s) 0) = Some (-6)
  | GBadproto => retval (C_getlen.run (S (length s)) (zs s) 0) = Some (-7)
  | GEof => retval (C_getlen.run (S (length s)) (zs s) 0) = Some (-9)
  end.
Proof.
  intros s Hs _.
  unfold C_getlen.run, C_getlen.body. gl_simpl. change (wrapu 64 0) with 0.
  pose proof (gl_loop (S (length s)) s s [] 0 0 0 (S (length s)) eq_refl eq_refl Hs (Nat.lt_succ_diag_r _)) as H.
  unfold Netstr.getlen.
  destruct (Netstr.getlen_loop (chars s) 0) as [n r| | |].
  - destruct H as (st & E & Hp). exists st. rewrite E. split; [reflexivity|exact Hp].
  - destruct H as (st & E). rewrite E. reflexivity.
  - destruct H as (st & E). rewrite E. reflexivity.
  - destruct H as (st & E). rewrite E. reflexivity.
Qed.

