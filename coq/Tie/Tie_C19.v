(* tie for C19: the message-number parser of qmail-pop3d is scan_ulong(); as generated from today's scan_ulong.c it is the
   model of Base/CInt.v (value modulo 2^64: the recorded finding pop3:msgno-wraps-2^64 is a property of this very code) *)
From Coq Require Import ZArith NArith List.
From NQ Require Import Base.MiniC Base.Bytes Base.CInt gen.CGen Tie.GenCommon Tie.Gen_numbers.
Import ListNotations.
Local Open Scope Z_scope.
Lemma tie_generated_scan_ulong : forall (s : bytes) (old : Z), bytes_ok s -> ~ In 0%N s -> Z.of_nat (length s) < 2 ^ 32 ->
  option_map (fun r => (fst r, C_scan_ulong.a_u (snd r))) (C_scan_ulong.run (S (length s)) (zs s ++ [0]) 0 [old] 0)
  = Some (Z.of_nat (snd (scan_ulong s)), [Z.of_N (fst (scan_ulong s))]).
Proof. exact gen_scan_ulong_eq. Qed.
