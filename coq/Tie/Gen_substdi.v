(* The input side of substdio (substdi.c: oneread, getthis, substdio_feed, substdio_get) as generated from today's source by
   tools/c2gallina.py (gen/CGen.v: C_oneread, C_getthis, C_substdio_feed, C_substdio_get and the K_ variants with checked accesses)
   simulates the model Mem/Substdio.v (oneread, i_getthis, i_feed, i_get), of which Mem/SubstdioProofs.v proves i_feed_ok, i_get_ok,
   i_getln_ok, getlns_all_concat (bytes are delivered in order, none lost or duplicated, no copy leaves the buffer).
   The call through the function pointer s->op is the read oracle: its k-th call answers from element k of the run parameter
   g_rd__script_ (e >= 0: at most e+1 bytes; -1: EINTR; <= -2: error; exhausted: as many as asked for), never more than what is left
   of the source g_rd__src_ from position v_rd__pos; the bytes are stored at the destination (MiniC.splice); v_rd__n counts the calls.
   The buffer s->x is the array a_s__x; s->p bytes are available at offset s->n (v_s__p, v_s__n), s->n + s->p = size of the buffer.
   REQUIRED statements must be proved exactly as stated. *)
From Coq Require Import ZArith NArith List Lia Bool Arith.
From NQ Require Import Base.MiniC Base.Bytes Mem.Substdio Mem.SubstdioProofs gen.CGen Tie.GenCommon Tie.GenAux Tie.Gen_strings Tie.Gen_safety Tie.Gen_substdio.
Import ListNotations.
Local Open Scope Z_scope.

Definition encr (r : rres) : Z := match r with RChunk k => Z.of_nat k | RIntr => -1 | RErr => -2 end.
Definition RepI (b : ibuf) (x : list Z) (p n : Z) (script : list Z) (k : Z) (src : list Z) (pos : Z) : Prop :=
  length x = i_cap b /\ (length (i_avail b) <= i_cap b)%nat /\ p = Z.of_nat (length (i_avail b)) /\ n = Z.of_nat (i_cap b - length (i_avail b)) /\
  firstn (length (i_avail b)) (skipn (Z.to_nat n) x) = zs (i_avail b) /\
  0 <= k /\ skipn (Z.to_nat k) script = map encr (i_scr b) /\ 0 <= pos <= Z.of_nat (length src) /\ skipn (Z.to_nat pos) src = zs (i_src b).
Definition goodI (b : ibuf) (src : list Z) (len : nat) : Prop :=
  bytes_ok (i_avail b) /\ bytes_ok (i_src b) /\ (0 < i_cap b)%nat /\ Z.of_nat (i_cap b) < 2 ^ 30 /\ Z.of_nat len < 2 ^ 30 /\ Z.of_nat (length src) < 2 ^ 30.
Definition enoughI (fuel : nat) (b : ibuf) (script : list Z) (len : nat) : Prop := (length script + len + i_cap b + 4 <= fuel)%nat.

(* Proof conventions (as in Gen_substdio.v).  Nothing below mentions a name invented by the translator, only field names and run/body/loop1.
   - or_loop: C_oneread.loop1 against Substdio.oneread by induction on the rest of the script (fuel of model and loop generalised);
     the result is described by rd_val (the value returned) and rd_data (the bytes stored by splice, [] on end of file and error).
   - bcp_loop_r / bcr_loop_r: byte_copy / byte_copyr where only the cells actually read need to be bytes (the buffer s->x is an arbitrary array
     outside its available part); zcopyr_off: the backward copy at an offset.  In substdio_feed the two pointer arguments of byte_copyr alias
     the one array a_s__x (bcr_run: both callee arrays are that array, the result is the shifted one).
   - callers (fd_body, gg_body): the callee results are stated on a destructured state (record literal), the body is run one let at a time on a
     goal  post (program)  (let1: reduce the bound value and substitute it; call_is: the bound value is a call, rewritten to its result;
     take_then/take_else: a conditional decided by a lemma); cbn/unfold are never applied to a goal that still contains the program.
   - the k... lemmas are the same proofs on the checked variants K_..., v__oob stays 0 (K_oneread has no checked access: the oracle's
     splice is the read() itself). *)


Ltac or_simpl := cbv beta iota zeta delta [C_oneread.set_v_fd C_oneread.set_v_buf C_oneread.set_v_len C_oneread.set_v_r C_oneread.set_v_rd__n C_oneread.set_v_rd__pos C_oneread.set_v_errno
  C_oneread.set_a_buf C_oneread.set_a_rd__script C_oneread.set_a_rd__src
  C_oneread.v_fd C_oneread.v_buf C_oneread.v_len C_oneread.v_r C_oneread.v_rd__n C_oneread.v_rd__pos C_oneread.v_errno C_oneread.a_buf C_oneread.a_rd__script C_oneread.a_rd__src].

Definition rd_data (r : Substdio.rd) : bytes := match r with RdData d => d | _ => [] end.
Definition rd_val (r : Substdio.rd) : Z := match r with RdData d => Z.of_nat (length d) | RdEof => 0 | RdErr => -1 end.

Lemma scr_head (script : list Z) (n : Z) (a : Z) (t : list Z) : 0 <= n -> skipn (Z.to_nat n) script = a :: t ->
  (n <? alen script) = true /\ MiniC.rd script n = a /\ skipn (Z.to_nat (n + 1)) script = t.
Proof.
  intros Hn H. destruct (skipn_cons_nth 0 _ _ _ _ H) as (H1 & H2 & H3).
  split; [apply Z.ltb_lt; unfold alen; lia|]. split.
  - unfold MiniC.rd. destruct (Z.ltb_spec n 0); [lia|exact H1].
  - replace (Z.to_nat (n + 1)) with (S (Z.to_nat n)) by lia. exact H2.
Qed.
Lemma splice_nil buf off : splice buf off [] = buf.
Proof. unfold splice. cbn [length app]. rewrite Nat.add_0_r. apply firstn_skipn. Qed.
Lemma src_left (src : list Z) (pos : Z) (srcb : bytes) : 0 <= pos <= Z.of_nat (length src) -> skipn (Z.to_nat pos) src = zs srcb ->
  alen src - pos = Z.of_nat (length srcb).
Proof. intros Hp H. apply (f_equal (@length Z)) in H. rewrite skipn_length, zs_length in H. unfold alen. lia. Qed.
Lemma zs_firstn w (s : bytes) : firstn w (zs s) = zs (firstn w s).
Proof. unfold zs. apply firstn_map. Qed.

Lemma or_loop (f0 : nat) (fd off : Z) (buf script src : list Z) (len : nat) : 0 < Z.of_nat len ->
  forall (scr : list rres) (mf fuel : nat) (srcb : bytes) (r k pos errno : Z) res scr' src',
  (length scr < mf)%nat -> (length scr < fuel)%nat -> 0 <= k -> skipn (Z.to_nat k) script = map encr scr ->
  0 <= pos <= Z.of_nat (length src) -> skipn (Z.to_nat pos) src = zs srcb ->
  oneread mf scr srcb len = (res, scr', src') ->
  exists r' k' errno',
  C_oneread.loop1 f0 fuel {| C_oneread.v_fd := fd; C_oneread.v_buf := off; C_oneread.v_len := Z.of_nat len; C_oneread.v_r := r; C_oneread.v_rd__n := k;
     C_oneread.v_rd__pos := pos; C_oneread.v_errno := errno; C_oneread.a_buf := buf; C_oneread.a_rd__script := script; C_oneread.a_rd__src := src |}
  = OReturn (rd_val res) {| C_oneread.v_fd := fd; C_oneread.v_buf := off; C_oneread.v_len := Z.of_nat len; C_oneread.v_r := r'; C_oneread.v_rd__n := k';
     C_oneread.v_rd__pos := pos + Z.of_nat (length (rd_data res)); C_oneread.v_errno := errno'; C_oneread.a_buf := splice buf off (zs (rd_data res));
     C_oneread.a_rd__script := script; C_oneread.a_rd__src := src |}
  /\ 0 <= k' /\ skipn (Z.to_nat k') script = map encr scr'.
Proof.
  intros Hlen.
  induction scr as [|a scr IH]; intros mf fuel srcb r k pos errno res scr' src' Hmf Hfuel Hk Hscr Hpos Hsrc Hm;
    (destruct fuel as [|fuel]; [cbn [length] in Hfuel; lia|]); (destruct mf as [|mf]; [cbn [length] in Hmf; lia|]);
    rewrite oneread_S in Hm; cbn [C_oneread.loop1]; change (1 =? 0) with false; cbv iota; or_simpl;
    pose proof (src_left src pos srcb Hpos Hsrc) as Hleft; rewrite Hleft.
  - cbn [map] in Hscr. destruct (script_end script k Hk Hscr) as [Hlt Hnext]. rewrite Hlt.
    destruct (Z.ltb_spec (Z.of_nat len - 1) 0) as [Hneg|_]; [lia|].
    replace (Z.of_nat len - 1 + 1) with (Z.of_nat len) by lia. rewrite Z.min_id, m1_64.
    rewrite <- Nat2Z.inj_min.
    destruct (Z.ltb_spec (Z.of_nat (Nat.min len (length srcb))) 0) as [Hneg|_]; [lia|].
    destruct (Z.eqb_spec (Z.of_nat (Nat.min len (length srcb))) (-1)) as [E1|_]; [lia|]. cbn [b2z]. change (0 =? 0) with true. cbv iota. cbn [obind]. or_simpl.
    rewrite Nat2Z.id, Hsrc, zs_firstn.
    assert (Hres : rd_data res = firstn (Nat.min len (length srcb)) srcb /\ rd_val res = Z.of_nat (Nat.min len (length srcb)) /\ scr' = []).
    { destruct srcb as [|c s]; [injection Hm as <- <- <-; cbn; rewrite Nat.min_0_r; auto|].
      cbv zeta in Hm. injection Hm as <- <- <-. cbn [rd_data rd_val]. rewrite firstn_length. split; [reflexivity|]. split; [cbn [length]; lia|reflexivity]. }
    destruct Hres as (Hd & Hv & Hs'). rewrite Hd, Hv, Hs', firstn_length.
    replace (Nat.min (Nat.min len (length srcb)) (length srcb)) with (Nat.min len (length srcb)) by lia.
    eexists _, _, _. split; [reflexivity|]. split; [lia|exact Hnext].
  - cbn [map] in Hscr. destruct (scr_head script k _ _ Hk Hscr) as (Hlt & Hrd & Hnext). rewrite Hlt, Hrd.
    cbn [length] in Hmf, Hfuel.
    destruct a as [c| |]; cbn [encr].
    + destruct (Z.ltb_spec (Z.of_nat c) 0) as [Hneg|_]; [lia|]. rewrite m1_64.
      replace (Z.of_nat c + 1) with (Z.of_nat (S c)) by lia. rewrite <- !Nat2Z.inj_min.
      set (w := Nat.min (Nat.min (S c) len) (length srcb)) in *.
      destruct (Z.ltb_spec (Z.of_nat w) 0) as [Hneg|_]; [lia|].
      destruct (Z.eqb_spec (Z.of_nat w) (-1)) as [E1|_]; [lia|]. cbn [b2z]. change (0 =? 0) with true. cbv iota. cbn [obind]. or_simpl.
      rewrite Nat2Z.id, Hsrc, zs_firstn.
      assert (Hres : rd_data res = firstn w srcb /\ rd_val res = Z.of_nat w /\ scr' = scr).
      { destruct srcb as [|c0 s]; [injection Hm as <- <- <-; subst w; cbn; rewrite Nat.min_0_r; auto|].
        cbv zeta in Hm. fold w in Hm. destruct (Nat.eqb_spec w 0) as [E0|E0]; injection Hm as <- <- <-; cbn [rd_data rd_val].
        - rewrite E0. auto.
        - rewrite firstn_length. split; [reflexivity|]. split; [subst w; cbn [length]; lia|reflexivity]. }
      destruct Hres as (Hd & Hv & Hs'). rewrite Hd, Hv, Hs', firstn_length.
      replace (Nat.min w (length srcb)) with w by lia.
      eexists _, _, _. split; [reflexivity|]. split; [lia|exact Hnext].
    + change (-1 <? 0) with true. cbv iota. change (-1 <? 0) with true. change (-1 =? -1) with true. cbv iota. rewrite m1_64.
      change (-1 =? -1) with true. change (4 =? 4) with true. cbn [b2z]. change (1 =? 0) with false. cbv iota. cbn [obind].
      apply (IH mf fuel srcb _ _ _ _ res scr' src'); try assumption; lia.
    + injection Hm as <- <- <-. change (-2 <? 0) with true. cbv iota. change (-1 <? 0) with true. change (-2 =? -1) with false. cbv iota. rewrite m1_64.
      change (-1 =? -1) with true. change (5 =? 4) with false. cbn [b2z]. change (1 =? 0) with false. change (0 =? 0) with true. cbv iota. cbn [obind]. or_simpl.
      cbn [rd_val rd_data zs map length Z.of_nat]. rewrite splice_nil, Z.add_0_r.
      eexists _, _, _. split; [reflexivity|]. split; [lia|exact Hnext].
Qed.


Ltac cbcp_simpl := cbv [C_byte_copy.set_v_to C_byte_copy.set_v_n C_byte_copy.set_v_from C_byte_copy.set_a_to C_byte_copy.set_a_from
                       C_byte_copy.v_to C_byte_copy.v_n C_byte_copy.v_from C_byte_copy.a_to C_byte_copy.a_from].
Ltac bcpr_step k Ha :=
  destruct k as [|k];
  [ cbn [Z.of_nat]; change (0 =? 0) with true; cbn [b2z obind zcopy]; change (1 =? 0) with false; cbv iota;
    eexists; eexists; eexists; reflexivity | ];
  rewrite of_nat_S_eqb; cbn [b2z]; change (0 =? 0) with true; cbv iota; cbn [obind]; cbcp_simpl;
  rewrite char_id by (apply Ha; lia); cbn [zcopy];
  rewrite wrapu32_pred by lia.

Lemma bcp_loop_r (f0 : nat) (src : list Z) :
  forall fuel k t f a, (k < fuel)%nat -> Z.of_nat k < 4294967296 -> (forall i, f <= i < f + Z.of_nat k -> 0 <= MiniC.rd src i < 256) ->
  exists t' n' f', C_byte_copy.loop1 f0 fuel {| C_byte_copy.v_to := t; C_byte_copy.v_n := Z.of_nat k; C_byte_copy.v_from := f;
                                               C_byte_copy.a_to := a; C_byte_copy.a_from := src |}
    = OReturn 0 {| C_byte_copy.v_to := t'; C_byte_copy.v_n := n'; C_byte_copy.v_from := f';
                   C_byte_copy.a_to := zcopy a src t f k; C_byte_copy.a_from := src |}.
Proof.
  induction fuel as [|fu IH]; intros k t f a Hk Hk32 Ha; [lia|].
  cbn [C_byte_copy.loop1]. change (1 =? 0) with false. cbv iota. cbcp_simpl.
  bcpr_step k Ha. bcpr_step k Ha. bcpr_step k Ha. bcpr_step k Ha.
  apply IH; try lia. intros i Hi. apply Ha. lia.
Qed.

Ltac bcrr_step k Ha :=
  destruct k as [|k];
  [ cbn [Z.of_nat]; change (0 =? 0) with true; cbn [b2z obind zcopyr]; change (1 =? 0) with false; cbv iota;
    eexists; eexists; eexists; reflexivity | ];
  rewrite of_nat_S_eqb; cbn [b2z]; change (0 =? 0) with true; cbv iota; cbn [obind]; bcr_simpl;
  rewrite char_id by (apply Ha; lia); cbn [zcopyr];
  rewrite wrapu32_pred by lia.

Lemma bcr_loop_r (f0 : nat) (src : list Z) :
  forall fuel k t f a, (k < fuel)%nat -> Z.of_nat k < 4294967296 -> (forall i, f - Z.of_nat k <= i < f -> 0 <= MiniC.rd src i < 256) ->
  exists t' n' f', C_byte_copyr.loop1 f0 fuel {| C_byte_copyr.v_to := t; C_byte_copyr.v_n := Z.of_nat k; C_byte_copyr.v_from := f;
                                               C_byte_copyr.a_to := a; C_byte_copyr.a_from := src |}
    = OReturn 0 {| C_byte_copyr.v_to := t'; C_byte_copyr.v_n := n'; C_byte_copyr.v_from := f';
                   C_byte_copyr.a_to := zcopyr a src t f k; C_byte_copyr.a_from := src |}.
Proof.
  induction fuel as [|fu IH]; intros k t f a Hk Hk32 Ha; [lia|].
  cbn [C_byte_copyr.loop1]. change (1 =? 0) with false. cbv iota. bcr_simpl.
  bcrr_step k Ha. bcrr_step k Ha. bcrr_step k Ha. bcrr_step k Ha.
  apply IH; try lia. intros i Hi. apply Ha. lia.
Qed.

Lemma nth_skipn_ {A} (d : A) : forall m (l : list A) k, nth k (skipn m l) d = nth (m + k) l d.
Proof. induction m as [|m IH]; intros l k; [reflexivity|]. destruct l as [|x l]; [destruct k; reflexivity|]. cbn [skipn Nat.add nth]. apply IH. Qed.
(* zcopyr at an offset: the k cells of dst before t become the k cells of src before f *)
Lemma zcopyr_off (src : list Z) : forall (k : nat) (pd md tl : list Z) (f : nat), length md = k -> (k <= f)%nat -> (f <= length src)%nat ->
  zcopyr (pd ++ md ++ tl) src (Z.of_nat (length pd + k)) (Z.of_nat f) k = pd ++ firstn k (skipn (f - k) src) ++ tl.
Proof.
  induction k as [|k IH]; intros pd md tl f Hm Hkf Hf.
  - destruct md; [|discriminate]. reflexivity.
  - cbn [zcopyr].
    destruct (@exists_last _ md ltac:(intros E; rewrite E in Hm; discriminate)) as (md' & y & ->).
    rewrite app_length in Hm. cbn [length] in Hm.
    replace (Z.of_nat (length pd + S k) - 1) with (Z.of_nat (length (pd ++ md'))) by (rewrite app_length; lia).
    replace (Z.of_nat f - 1) with (Z.of_nat (f - 1)) by lia.
    rewrite <- app_assoc. cbn [app]. rewrite (app_assoc pd md'), wr_app_mid, rd_nat.
    replace (Z.of_nat (length (pd ++ md'))) with (Z.of_nat (length pd + k)) by (rewrite app_length; lia).
    rewrite <- app_assoc.
    rewrite (IH pd md' (nth (f - 1) src 0 :: tl) (f - 1)%nat) by lia.
    f_equal. replace (f - 1 - k)%nat with (f - S k)%nat by lia.
    rewrite (firstn_S_snoc (skipn (f - S k) src) k) by (rewrite skipn_length; lia).
    rewrite <- app_assoc. cbn [app]. f_equal. f_equal.
    rewrite nth_skipn_. f_equal. lia.
Qed.


Lemma nth_firstn_lt {A} (d : A) : forall m (l : list A) k, (k < m)%nat -> nth k (firstn m l) d = nth k l d.
Proof. induction m as [|m IH]; intros l k Hk; [lia|]. destruct l as [|x l]; [reflexivity|]. destruct k as [|k]; [reflexivity|]. cbn [firstn nth]. apply IH. lia. Qed.

Lemma zs_nth_byte (d : bytes) k : bytes_ok d -> 0 <= nth k (zs d) 0 < 256.
Proof.
  intros H. revert k. induction H as [|c d Hc Hd IH]; intros k; [destruct k; cbn; lia|].
  destruct k as [|k]; cbn [zs map nth]; [lia|apply IH].
Qed.

Lemma at_bytes (x : list Z) (nn m : nat) (d : bytes) : firstn m (skipn nn x) = zs d -> bytes_ok d ->
  forall i, Z.of_nat nn <= i < Z.of_nat nn + Z.of_nat m -> 0 <= MiniC.rd x i < 256.
Proof.
  intros H Hd i Hi. unfold MiniC.rd. destruct (Z.ltb_spec i 0); [lia|].
  replace (Z.to_nat i) with (nn + (Z.to_nat i - nn))%nat by lia.
  rewrite <- nth_skipn_, <- (nth_firstn_lt 0 m) by lia. rewrite H. apply zs_nth_byte, Hd.
Qed.

Lemma bcp_run fuel (dst x : list Z) (r nn : nat) : (r <= length dst)%nat -> (nn + r <= length x)%nat -> (r < fuel)%nat -> Z.of_nat r < 2 ^ 30 ->
  (forall i, Z.of_nat nn <= i < Z.of_nat nn + Z.of_nat r -> 0 <= MiniC.rd x i < 256) ->
  exists t, C_byte_copy.run fuel dst 0 (Z.of_nat r) x (0 + Z.of_nat nn) = Some (0, t) /\
    C_byte_copy.a_to t = firstn r (skipn nn x) ++ skipn r dst /\ C_byte_copy.a_from t = x.
Proof.
  intros Hd Hx Hf H30 Hb. rewrite p30 in H30.
  unfold C_byte_copy.run, C_byte_copy.body. rewrite Z.add_0_l.
  destruct (bcp_loop_r fuel x fuel r 0 (Z.of_nat nn) dst Hf ltac:(lia) Hb) as (t' & n' & f' & Hl).
  rewrite Hl. eexists. split; [reflexivity|]. cbcp_simpl. split; [|reflexivity].
  pose proof (zcopy_spec r [] dst (firstn nn x) (skipn nn x) Hd ltac:(rewrite skipn_length; lia)) as HZ.
  rewrite firstn_skipn, firstn_length_le in HZ by lia. exact HZ.
Qed.

Lemma bcr_run fuel (x : list Z) (qn rn : nat) : length x = (qn + rn)%nat -> (rn < fuel)%nat -> Z.of_nat rn < 2 ^ 30 ->
  (forall i, 0 <= i < Z.of_nat rn -> 0 <= MiniC.rd x i < 256) ->
  exists t, C_byte_copyr.run fuel x (0 + Z.of_nat qn) (Z.of_nat rn) x 0 = Some (0, t) /\
    C_byte_copyr.a_to t = firstn qn x ++ firstn rn x.
Proof.
  intros Hx Hf H30 Hb. rewrite p30 in H30.
  unfold C_byte_copyr.run, C_byte_copyr.body. bcr_simpl. rewrite !Z.add_0_l.
  destruct (bcr_loop_r fuel x fuel rn (Z.of_nat qn + Z.of_nat rn) (Z.of_nat rn) x Hf ltac:(lia) ltac:(intros i Hi; apply Hb; lia)) as (t' & n' & f' & Hl).
  rewrite Hl. eexists. split; [reflexivity|]. bcr_simpl.
  pose proof (zcopyr_off x rn (firstn qn x) (skipn qn x) [] rn ltac:(rewrite skipn_length; lia) ltac:(lia) ltac:(lia)) as HZ.
  rewrite app_nil_r, firstn_skipn, firstn_length_le, Nat.sub_diag in HZ by lia. cbn [skipn] in HZ.
  rewrite app_nil_r in HZ. rewrite <- Nat2Z.inj_add. exact HZ.
Qed.

Ltac gt_simpl := cbv beta iota zeta delta [C_getthis.set_v_buf C_getthis.set_v_len C_getthis.set_v_r C_getthis.set_v_q C_getthis.set_v_s__p C_getthis.set_v_s__n C_getthis.set_a_buf C_getthis.set_a_s__x
  C_getthis.v_buf C_getthis.v_len C_getthis.v_r C_getthis.v_q C_getthis.v_s__p C_getthis.v_s__n C_getthis.a_buf C_getthis.a_s__x].

Lemma gt_run fuel (x dst : list Z) (pa nn len : nat) :
  (nn + pa <= length x)%nat -> Z.of_nat (length x) < 2 ^ 30 -> Z.of_nat len < 2 ^ 30 -> (Nat.min len pa <= length dst)%nat -> (Nat.min len pa < fuel)%nat ->
  (forall i, Z.of_nat nn <= i < Z.of_nat nn + Z.of_nat pa -> 0 <= MiniC.rd x i < 256) ->
  exists t, C_getthis.run fuel x (Z.of_nat pa) (Z.of_nat nn) dst 0 (Z.of_nat len) = Some (Z.of_nat (Nat.min len pa), t) /\
    C_getthis.a_s__x t = x /\ C_getthis.v_s__p t = Z.of_nat (pa - Nat.min len pa) /\ C_getthis.v_s__n t = Z.of_nat (nn + Nat.min len pa) /\
    C_getthis.a_buf t = firstn (Nat.min len pa) (skipn nn x) ++ skipn (Nat.min len pa) dst.
Proof.
  intros Hx Hx30 Hl30 Hd Hf Hb. rewrite p30 in *.
  remember (Nat.min len pa) as r eqn:Hr.
  destruct (bcp_run fuel dst x r nn Hd ltac:(lia) Hf ltac:(rewrite p30; lia) ltac:(intros i Hi; apply Hb; lia)) as (t & Hrun & Hto & Hfrom).
  unfold C_getthis.run, C_getthis.body. gt_simpl.
  rewrite (wraps32_small (Z.of_nat pa - Z.of_nat len)) by lia.
  destruct (Z.gtb_spec (Z.of_nat pa - Z.of_nat len) 0) as [Hgt|Hle]; cbn [b2z]; [change (1 =? 0) with false|change (0 =? 0) with true]; cbv iota; cbn [obind]; gt_simpl.
  - replace (Z.of_nat len) with (Z.of_nat r) by lia. rewrite Hrun. gt_simpl. rewrite Hto, Hfrom.
    eexists. split; [reflexivity|]. gt_simpl. rewrite (wraps32_small (Z.of_nat nn)), !(wraps32_small (Z.of_nat nn + Z.of_nat r)) by lia. repeat split; lia.
  - assert (E : pa = r) by lia. rewrite E. rewrite Hrun. gt_simpl. rewrite Hto, Hfrom.
    eexists. split; [reflexivity|]. gt_simpl. rewrite (wraps32_small (Z.of_nat nn)), !(wraps32_small (Z.of_nat nn + Z.of_nat r)) by lia. repeat split; lia.
Qed.


Lemma oneread_split fuel scr srcb len res scr' src' : oneread fuel scr srcb len = (res, scr', src') ->
  srcb = rd_data res ++ src' /\ (length (rd_data res) <= len)%nat /\ (length scr' <= length scr)%nat.
Proof.
  intros H. pose proof (oneread_spec _ _ _ _ _ _ _ H) as HS.
  assert (HL : (length scr' <= length scr)%nat).
  { clear HS. revert scr srcb res scr' src' H. induction fuel as [|f IH]; intros scr srcb res scr' src' H.
    - cbn [oneread] in H. injection H as <- <- <-. lia.
    - rewrite oneread_S in H. destruct scr as [|[c| |] scr1].
      + destruct srcb; cbv zeta in H; injection H as <- <- <-; cbn [length]; lia.
      + destruct srcb; cbv zeta in H; [|destruct (Nat.eqb _ 0)]; injection H as <- <- <-; cbn [length]; lia.
      + apply IH in H. cbn [length]. lia.
      + injection H as <- <- <-. cbn [length]. lia. }
  destruct res as [d| |]; cbn [rd_data].
  - destruct HS as (H1 & H2 & _). auto.
  - destruct HS as (H1 & H2). subst. cbn. auto with arith.
  - subst. cbn. auto with arith.
Qed.

Lemma or_run fuel fd buf off len script src k pos scr srcb res scr' src' :
  0 < Z.of_nat len -> (length scr < fuel)%nat -> 0 <= k -> skipn (Z.to_nat k) script = map encr scr ->
  0 <= pos <= Z.of_nat (length src) -> skipn (Z.to_nat pos) src = zs srcb ->
  oneread (or_fuel scr) scr srcb len = (res, scr', src') ->
  exists t, C_oneread.run fuel fd buf off (Z.of_nat len) script src k pos = Some (rd_val res, t) /\
    C_oneread.a_buf t = splice buf off (zs (rd_data res)) /\ C_oneread.a_rd__script t = script /\ C_oneread.a_rd__src t = src /\
    0 <= C_oneread.v_rd__n t /\ skipn (Z.to_nat (C_oneread.v_rd__n t)) script = map encr scr' /\
    C_oneread.v_rd__pos t = pos + Z.of_nat (length (rd_data res)) /\ C_oneread.v_rd__pos t <= Z.of_nat (length src) /\
    skipn (Z.to_nat (C_oneread.v_rd__pos t)) src = zs src'.
Proof.
  intros Hlen Hf Hk Hscr Hpos Hsrc Hm.
  destruct (or_loop fuel fd off buf script src len Hlen scr (or_fuel scr) fuel srcb 0 k pos 0 res scr' src' ltac:(unfold or_fuel; lia) Hf Hk Hscr Hpos Hsrc Hm)
    as (r' & k' & e' & HL & Hk' & Hscr').
  unfold C_oneread.run, C_oneread.body. rewrite HL. eexists. split; [reflexivity|]. or_simpl.
  destruct (oneread_split _ _ _ _ _ _ _ Hm) as (Hsp & Hdl & _).
  pose proof (src_left src pos srcb Hpos Hsrc) as Hleft. unfold alen in Hleft.
  assert (HLs : length srcb = (length (rd_data res) + length src')%nat) by (rewrite Hsp at 1; apply app_length).
  repeat split; try assumption; try reflexivity; try lia.
  replace (Z.to_nat (pos + Z.of_nat (length (rd_data res)))) with (length (rd_data res) + Z.to_nat pos)%nat by lia.
  rewrite skipn_plus, Hsrc, Hsp at 1. rewrite zs_app, skipn_app, zs_length, Nat.sub_diag. cbn [skipn].
  rewrite skipn_all2 by (rewrite zs_length; lia). reflexivity.
Qed.


Ltac si_red v := eval cbv beta iota delta [C_oneread.v_fd C_oneread.set_v_fd C_oneread.v_buf C_oneread.set_v_buf C_oneread.v_len C_oneread.set_v_len C_oneread.v_r C_oneread.set_v_r C_oneread.v_rd__n C_oneread.set_v_rd__n C_oneread.v_rd__pos C_oneread.set_v_rd__pos C_oneread.v_errno C_oneread.set_v_errno C_oneread.a_buf C_oneread.set_a_buf C_oneread.a_rd__script C_oneread.set_a_rd__script C_oneread.a_rd__src C_oneread.set_a_rd__src C_getthis.v_buf C_getthis.set_v_buf C_getthis.v_len C_getthis.set_v_len C_getthis.v_r C_getthis.set_v_r C_getthis.v_q C_getthis.set_v_q C_getthis.v_s__p C_getthis.set_v_s__p C_getthis.v_s__n C_getthis.set_v_s__n C_getthis.a_buf C_getthis.set_a_buf C_getthis.a_s__x C_getthis.set_a_s__x C_substdio_feed.v_r C_substdio_feed.set_v_r C_substdio_feed.v_q C_substdio_feed.set_v_q C_substdio_feed.v_s__p C_substdio_feed.set_v_s__p C_substdio_feed.v_s__n C_substdio_feed.set_v_s__n C_substdio_feed.v_s__fd C_substdio_feed.set_v_s__fd C_substdio_feed.v_rd__n C_substdio_feed.set_v_rd__n C_substdio_feed.v_rd__pos C_substdio_feed.set_v_rd__pos C_substdio_feed.a_s__x C_substdio_feed.set_a_s__x C_substdio_feed.a_rd__script C_substdio_feed.set_a_rd__script C_substdio_feed.a_rd__src C_substdio_feed.set_a_rd__src C_substdio_get.v_buf C_substdio_get.set_v_buf C_substdio_get.v_len C_substdio_get.set_v_len C_substdio_get.v_r C_substdio_get.set_v_r C_substdio_get.v_s__p C_substdio_get.set_v_s__p C_substdio_get.v_s__n C_substdio_get.set_v_s__n C_substdio_get.v_s__fd C_substdio_get.set_v_s__fd C_substdio_get.v_rd__n C_substdio_get.set_v_rd__n C_substdio_get.v_rd__pos C_substdio_get.set_v_rd__pos C_substdio_get.a_buf C_substdio_get.set_a_buf C_substdio_get.a_s__x C_substdio_get.set_a_s__x C_substdio_get.a_rd__script C_substdio_get.set_a_rd__script C_substdio_get.a_rd__src C_substdio_get.set_a_rd__src C_byte_copy.v_to C_byte_copy.set_v_to C_byte_copy.v_n C_byte_copy.set_v_n C_byte_copy.v_from C_byte_copy.set_v_from C_byte_copy.a_to C_byte_copy.set_a_to C_byte_copy.a_from C_byte_copy.set_a_from C_byte_copyr.v_to C_byte_copyr.set_v_to C_byte_copyr.v_n C_byte_copyr.set_v_n C_byte_copyr.v_from C_byte_copyr.set_v_from C_byte_copyr.a_to C_byte_copyr.set_a_to C_byte_copyr.a_from C_byte_copyr.set_a_from K_oneread.v_fd K_oneread.set_v_fd K_oneread.v_buf K_oneread.set_v_buf K_oneread.v_len K_oneread.set_v_len K_oneread.v_r K_oneread.set_v_r K_oneread.v__oob K_oneread.set_v__oob K_oneread.v_rd__n K_oneread.set_v_rd__n K_oneread.v_rd__pos K_oneread.set_v_rd__pos K_oneread.v_errno K_oneread.set_v_errno K_oneread.a_buf K_oneread.set_a_buf K_oneread.a_rd__script K_oneread.set_a_rd__script K_oneread.a_rd__src K_oneread.set_a_rd__src K_getthis.v_buf K_getthis.set_v_buf K_getthis.v_len K_getthis.set_v_len K_getthis.v_r K_getthis.set_v_r K_getthis.v_q K_getthis.set_v_q K_getthis.v__oob K_getthis.set_v__oob K_getthis.v_s__p K_getthis.set_v_s__p K_getthis.v_s__n K_getthis.set_v_s__n K_getthis.a_buf K_getthis.set_a_buf K_getthis.a_s__x K_getthis.set_a_s__x K_substdio_feed.v_r K_substdio_feed.set_v_r K_substdio_feed.v_q K_substdio_feed.set_v_q K_substdio_feed.v__oob K_substdio_feed.set_v__oob K_substdio_feed.v_s__p K_substdio_feed.set_v_s__p K_substdio_feed.v_s__n K_substdio_feed.set_v_s__n K_substdio_feed.v_s__fd K_substdio_feed.set_v_s__fd K_substdio_feed.v_rd__n K_substdio_feed.set_v_rd__n K_substdio_feed.v_rd__pos K_substdio_feed.set_v_rd__pos K_substdio_feed.a_s__x K_substdio_feed.set_a_s__x K_substdio_feed.a_rd__script K_substdio_feed.set_a_rd__script K_substdio_feed.a_rd__src K_substdio_feed.set_a_rd__src K_substdio_get.v_buf K_substdio_get.set_v_buf K_substdio_get.v_len K_substdio_get.set_v_len K_substdio_get.v_r K_substdio_get.set_v_r K_substdio_get.v__oob K_substdio_get.set_v__oob K_substdio_get.v_s__p K_substdio_get.set_v_s__p K_substdio_get.v_s__n K_substdio_get.set_v_s__n K_substdio_get.v_s__fd K_substdio_get.set_v_s__fd K_substdio_get.v_rd__n K_substdio_get.set_v_rd__n K_substdio_get.v_rd__pos K_substdio_get.set_v_rd__pos K_substdio_get.a_buf K_substdio_get.set_a_buf K_substdio_get.a_s__x K_substdio_get.set_a_s__x K_substdio_get.a_rd__script K_substdio_get.set_a_rd__script K_substdio_get.a_rd__src K_substdio_get.set_a_rd__src K_byte_copy.v_to K_byte_copy.set_v_to K_byte_copy.v_n K_byte_copy.set_v_n K_byte_copy.v_from K_byte_copy.set_v_from K_byte_copy.v__oob K_byte_copy.set_v__oob K_byte_copy.a_to K_byte_copy.set_a_to K_byte_copy.a_from K_byte_copy.set_a_from K_byte_copyr.v_to K_byte_copyr.set_v_to K_byte_copyr.v_n K_byte_copyr.set_v_n K_byte_copyr.v_from K_byte_copyr.set_v_from K_byte_copyr.v__oob K_byte_copyr.set_v__oob K_byte_copyr.a_to K_byte_copyr.set_a_to K_byte_copyr.a_from K_byte_copyr.set_a_from] in v.
Ltac si_simplz := cbv beta iota zeta delta [C_oneread.v_fd C_oneread.set_v_fd C_oneread.v_buf C_oneread.set_v_buf C_oneread.v_len C_oneread.set_v_len C_oneread.v_r C_oneread.set_v_r C_oneread.v_rd__n C_oneread.set_v_rd__n C_oneread.v_rd__pos C_oneread.set_v_rd__pos C_oneread.v_errno C_oneread.set_v_errno C_oneread.a_buf C_oneread.set_a_buf C_oneread.a_rd__script C_oneread.set_a_rd__script C_oneread.a_rd__src C_oneread.set_a_rd__src C_getthis.v_buf C_getthis.set_v_buf C_getthis.v_len C_getthis.set_v_len C_getthis.v_r C_getthis.set_v_r C_getthis.v_q C_getthis.set_v_q C_getthis.v_s__p C_getthis.set_v_s__p C_getthis.v_s__n C_getthis.set_v_s__n C_getthis.a_buf C_getthis.set_a_buf C_getthis.a_s__x C_getthis.set_a_s__x C_substdio_feed.v_r C_substdio_feed.set_v_r C_substdio_feed.v_q C_substdio_feed.set_v_q C_substdio_feed.v_s__p C_substdio_feed.set_v_s__p C_substdio_feed.v_s__n C_substdio_feed.set_v_s__n C_substdio_feed.v_s__fd C_substdio_feed.set_v_s__fd C_substdio_feed.v_rd__n C_substdio_feed.set_v_rd__n C_substdio_feed.v_rd__pos C_substdio_feed.set_v_rd__pos C_substdio_feed.a_s__x C_substdio_feed.set_a_s__x C_substdio_feed.a_rd__script C_substdio_feed.set_a_rd__script C_substdio_feed.a_rd__src C_substdio_feed.set_a_rd__src C_substdio_get.v_buf C_substdio_get.set_v_buf C_substdio_get.v_len C_substdio_get.set_v_len C_substdio_get.v_r C_substdio_get.set_v_r C_substdio_get.v_s__p C_substdio_get.set_v_s__p C_substdio_get.v_s__n C_substdio_get.set_v_s__n C_substdio_get.v_s__fd C_substdio_get.set_v_s__fd C_substdio_get.v_rd__n C_substdio_get.set_v_rd__n C_substdio_get.v_rd__pos C_substdio_get.set_v_rd__pos C_substdio_get.a_buf C_substdio_get.set_a_buf C_substdio_get.a_s__x C_substdio_get.set_a_s__x C_substdio_get.a_rd__script C_substdio_get.set_a_rd__script C_substdio_get.a_rd__src C_substdio_get.set_a_rd__src C_byte_copy.v_to C_byte_copy.set_v_to C_byte_copy.v_n C_byte_copy.set_v_n C_byte_copy.v_from C_byte_copy.set_v_from C_byte_copy.a_to C_byte_copy.set_a_to C_byte_copy.a_from C_byte_copy.set_a_from C_byte_copyr.v_to C_byte_copyr.set_v_to C_byte_copyr.v_n C_byte_copyr.set_v_n C_byte_copyr.v_from C_byte_copyr.set_v_from C_byte_copyr.a_to C_byte_copyr.set_a_to C_byte_copyr.a_from C_byte_copyr.set_a_from K_oneread.v_fd K_oneread.set_v_fd K_oneread.v_buf K_oneread.set_v_buf K_oneread.v_len K_oneread.set_v_len K_oneread.v_r K_oneread.set_v_r K_oneread.v__oob K_oneread.set_v__oob K_oneread.v_rd__n K_oneread.set_v_rd__n K_oneread.v_rd__pos K_oneread.set_v_rd__pos K_oneread.v_errno K_oneread.set_v_errno K_oneread.a_buf K_oneread.set_a_buf K_oneread.a_rd__script K_oneread.set_a_rd__script K_oneread.a_rd__src K_oneread.set_a_rd__src K_getthis.v_buf K_getthis.set_v_buf K_getthis.v_len K_getthis.set_v_len K_getthis.v_r K_getthis.set_v_r K_getthis.v_q K_getthis.set_v_q K_getthis.v__oob K_getthis.set_v__oob K_getthis.v_s__p K_getthis.set_v_s__p K_getthis.v_s__n K_getthis.set_v_s__n K_getthis.a_buf K_getthis.set_a_buf K_getthis.a_s__x K_getthis.set_a_s__x K_substdio_feed.v_r K_substdio_feed.set_v_r K_substdio_feed.v_q K_substdio_feed.set_v_q K_substdio_feed.v__oob K_substdio_feed.set_v__oob K_substdio_feed.v_s__p K_substdio_feed.set_v_s__p K_substdio_feed.v_s__n K_substdio_feed.set_v_s__n K_substdio_feed.v_s__fd K_substdio_feed.set_v_s__fd K_substdio_feed.v_rd__n K_substdio_feed.set_v_rd__n K_substdio_feed.v_rd__pos K_substdio_feed.set_v_rd__pos K_substdio_feed.a_s__x K_substdio_feed.set_a_s__x K_substdio_feed.a_rd__script K_substdio_feed.set_a_rd__script K_substdio_feed.a_rd__src K_substdio_feed.set_a_rd__src K_substdio_get.v_buf K_substdio_get.set_v_buf K_substdio_get.v_len K_substdio_get.set_v_len K_substdio_get.v_r K_substdio_get.set_v_r K_substdio_get.v__oob K_substdio_get.set_v__oob K_substdio_get.v_s__p K_substdio_get.set_v_s__p K_substdio_get.v_s__n K_substdio_get.set_v_s__n K_substdio_get.v_s__fd K_substdio_get.set_v_s__fd K_substdio_get.v_rd__n K_substdio_get.set_v_rd__n K_substdio_get.v_rd__pos K_substdio_get.set_v_rd__pos K_substdio_get.a_buf K_substdio_get.set_a_buf K_substdio_get.a_s__x K_substdio_get.set_a_s__x K_substdio_get.a_rd__script K_substdio_get.set_a_rd__script K_substdio_get.a_rd__src K_substdio_get.set_a_rd__src K_byte_copy.v_to K_byte_copy.set_v_to K_byte_copy.v_n K_byte_copy.set_v_n K_byte_copy.v_from K_byte_copy.set_v_from K_byte_copy.v__oob K_byte_copy.set_v__oob K_byte_copy.a_to K_byte_copy.set_a_to K_byte_copy.a_from K_byte_copy.set_a_from K_byte_copyr.v_to K_byte_copyr.set_v_to K_byte_copyr.v_n K_byte_copyr.set_v_n K_byte_copyr.v_from K_byte_copyr.set_v_from K_byte_copyr.v__oob K_byte_copyr.set_v__oob K_byte_copyr.a_to K_byte_copyr.set_a_to K_byte_copyr.a_from K_byte_copyr.set_a_from].
(* the leading let (not a call): reduce its value and substitute it *)
Ltac let1 := lazymatch goal with
  | |- ?P (let x := ?v in @?b x) => let v' := si_red v in change_no_check (P (b v')); cbv beta
  | |- ?P (obind (let x := ?v in @?b x) ?k) => let v' := si_red v in change_no_check (P (obind (b v') k)); cbv beta
  end.
(* the leading let binds a call: first subgoal = the call (arguments reduced) equals rhs *)
Ltac call_is rhs := lazymatch goal with
  | |- ?P (let x := ?v in @?b x) => let HX := fresh "HX" in assert (HX : v = rhs); [si_simplz | rewrite HX; clear HX]
  | |- ?P (obind (let x := ?v in @?b x) ?k) => let HX := fresh "HX" in assert (HX : v = rhs); [si_simplz | rewrite HX; clear HX]
  end.
Ltac take_else := lazymatch goal with
  | |- ?P (obind (if ?c then ?a else ?b) ?k) => refine (sel_else_bind P c a b k _ _); [si_simplz|]
  | |- ?P (if ?c then ?a else ?b) => refine (sel_else P c a b _ _); [si_simplz|] end.
Ltac take_then := lazymatch goal with
  | |- ?P (obind (if ?c then ?a else ?b) ?k) => refine (sel_then_bind P c a b k _ _); [si_simplz|]
  | |- ?P (if ?c then ?a else ?b) => refine (sel_then P c a b _ _); [si_simplz|] end.
Ltac next_k := rewrite Gen_safety.obind_normal; cbv beta.

Lemma w64s v : -9223372036854775808 <= v < 9223372036854775808 -> wraps 64 v = v.
Proof. intros H. change (wraps 64 v) with ((v + 9223372036854775808) mod 18446744073709551616 - 9223372036854775808). rewrite Z.mod_small; lia. Qed.
Lemma ret_cond v : ((if b2z (v =? wraps 64 0) =? 0 then b2z (negb (b2z (v =? wraps 64 (wraps 32 (-(1)))) =? 0)) else 1) =? 0) = negb ((v =? 0) || (v =? -1)).
Proof. change (wraps 64 0) with 0. rewrite m1_64. destruct (v =? 0), (v =? -1); reflexivity. Qed.

Lemma i_feed_have b : i_avail b <> [] -> i_feed b = (FdHave (length (i_avail b)), b).
Proof. intros H. unfold i_feed. destruct (i_avail b); [congruence|reflexivity]. Qed.
Lemma i_feed_read b res scr' src' : i_avail b = [] -> oneread (or_fuel (i_scr b)) (i_scr b) (i_src b) (i_cap b) = (res, scr', src') ->
  fst (i_feed b) = (match res with RdData [] => FdEof | RdData d => FdHave (length d) | RdEof => FdEof | RdErr => FdErr end) /\
  i_cap (snd (i_feed b)) = i_cap b /\ i_avail (snd (i_feed b)) = rd_data res /\ i_src (snd (i_feed b)) = src' /\ i_scr (snd (i_feed b)) = scr'.
Proof. intros Ha Hm. unfold i_feed. rewrite Ha, Hm. destruct res as [[|c d]| |]; cbn; auto. Qed.

Definition fd_post (Q : Z -> C_substdio_feed.st -> Prop) (o : outcome C_substdio_feed.st) : Prop :=
  exists v st, match o with OReturn v s => Some (v, s) | ONormal s => Some (0, s) | _ => None end = Some (v, st) /\ Q v st.
Lemma fd_post_ret (Q : Z -> C_substdio_feed.st -> Prop) v s : Q v s -> fd_post Q (OReturn v s).
Proof. intros H. exists v, s. split; [reflexivity|exact H]. Qed.
Lemma fd_run_unfold f x p n fd script src k pos : C_substdio_feed.run f x p n fd script src k pos =
  match C_substdio_feed.body f {| C_substdio_feed.v_r := 0; C_substdio_feed.v_q := 0; C_substdio_feed.v_s__p := p; C_substdio_feed.v_s__n := n; C_substdio_feed.v_s__fd := fd;
     C_substdio_feed.v_rd__n := k; C_substdio_feed.v_rd__pos := pos; C_substdio_feed.a_s__x := x; C_substdio_feed.a_rd__script := script; C_substdio_feed.a_rd__src := src |} with
  | OReturn v s => Some (v, s) | ONormal s => Some (0, s) | _ => None end.
Proof. reflexivity. Qed.

Definition fd_Q b fd script src (v : Z) (st : C_substdio_feed.st) : Prop :=
  v = (match fst (i_feed b) with FdHave m => Z.of_nat m | FdEof => 0 | FdErr => -1 end) /\
  RepI (snd (i_feed b)) (C_substdio_feed.a_s__x st) (C_substdio_feed.v_s__p st) (C_substdio_feed.v_s__n st) script (C_substdio_feed.v_rd__n st) src (C_substdio_feed.v_rd__pos st) /\
  C_substdio_feed.v_s__fd st = fd /\ C_substdio_feed.a_rd__script st = script /\ C_substdio_feed.a_rd__src st = src.

Lemma scr_le (script : list Z) (n : Z) (scr : list rres) : skipn (Z.to_nat n) script = map encr scr -> (length scr <= length script)%nat.
Proof. intros H. apply (f_equal (@length Z)) in H. rewrite skipn_length, map_length in H. lia. Qed.

Lemma fd_body b x p n fd script k src pos fuel : RepI b x p n script k src pos -> goodI b src 0 -> enoughI fuel b script 0 ->
  fd_post (fd_Q b fd script src) (C_substdio_feed.body fuel {| C_substdio_feed.v_r := 0; C_substdio_feed.v_q := 0; C_substdio_feed.v_s__p := p; C_substdio_feed.v_s__n := n; C_substdio_feed.v_s__fd := fd;
     C_substdio_feed.v_rd__n := k; C_substdio_feed.v_rd__pos := pos; C_substdio_feed.a_s__x := x; C_substdio_feed.a_rd__script := script; C_substdio_feed.a_rd__src := src |}).
Proof.
  intros HR (Hba & Hbs & Hcap0 & Hcap30 & _ & Hsrc30) Hen. pose proof HR as (Hx & Hac & Hp & Hn & Hfx & Hk & Hscr & Hpos & Hsrc).
  unfold enoughI in Hen. rewrite p30 in *. pose proof (scr_le _ _ _ Hscr) as Hsl.
  cbv delta [C_substdio_feed.body]. cbv beta.
  destruct (i_avail b) as [|c0 av] eqn:Eav.
  2:{ (* bytes available *)
    assert (Hne : i_avail b <> []) by (rewrite Eav; discriminate). rewrite <- Eav in *. clear Eav c0 av.
    assert (Hp0 : 0 < p) by (destruct (i_avail b); [congruence|cbn [length] in Hp; lia]).
    take_else. { apply Z.eqb_neq. lia. }
    rewrite Gen_safety.obind_return. apply fd_post_ret. unfold fd_Q. rewrite (i_feed_have b Hne). cbn [fst snd]. si_simplz.
    rewrite w64s by lia. repeat split; try assumption; try reflexivity; try lia. }
  cbn [length] in Hp, Hn, Hfx. rewrite Nat.sub_0_r in Hn. cbn [Z.of_nat] in Hp. subst p.
  destruct (oneread (or_fuel (i_scr b)) (i_scr b) (i_src b) (i_cap b)) as [[res scr'] src'] eqn:Hm.
  destruct (i_feed_read b res scr' src' Eav Hm) as (Hfst & Hcap' & Hav' & Hsrc' & Hscr').
  destruct (oneread_split _ _ _ _ _ _ _ Hm) as (Hsp & Hdl & Hsl').
  destruct (or_run fuel fd x 0 (i_cap b) script src k pos (i_scr b) (i_src b) res scr' src' ltac:(lia) ltac:(lia) Hk Hscr Hpos Hsrc Hm)
    as (t & Hrun & Htbuf & Htscr & Htsrc & Htk & Htscr' & Htpos & Htple & Htsrc').
  remember (rd_val res) as v eqn:Ev in *. remember (rd_data res) as dat eqn:Edat in *.
  destruct t as [tfd toff tlen tr tn tpos terr tabuf tscript tsrc].
  cbn [C_oneread.a_buf C_oneread.a_rd__script C_oneread.a_rd__src C_oneread.v_rd__n C_oneread.v_rd__pos] in Hrun, Htbuf, Htscr, Htsrc, Htk, Htscr', Htpos, Htple, Htsrc'. subst tabuf tscript tsrc.
  take_then. { reflexivity. }
  next_k. let1. let1.
  call_is (Some (v, {| C_oneread.v_fd := tfd; C_oneread.v_buf := toff; C_oneread.v_len := tlen; C_oneread.v_r := tr; C_oneread.v_rd__n := tn;
     C_oneread.v_rd__pos := tpos; C_oneread.v_errno := terr; C_oneread.a_buf := splice x 0 (zs dat); C_oneread.a_rd__script := script; C_oneread.a_rd__src := src |})).
  { rewrite Hn, wrapu64_small by lia. exact Hrun. }
  let1. let1. let1. let1. let1. let1. let1. let1.
  assert (Hx1 : length (splice x 0 (zs dat)) = i_cap b).
  { unfold splice. cbn [Z.to_nat firstn app Nat.add]. rewrite app_length, skipn_length, zs_length. lia. }
  assert (Hx1f : firstn (length dat) (splice x 0 (zs dat)) = zs dat).
  { unfold splice. cbn [Z.to_nat firstn app Nat.add]. rewrite <- (zs_length dat) at 1. apply firstn_app_exact. reflexivity. }
  destruct res as [[|c d]| |]; cbn [rd_val rd_data] in Hfst, Ev, Edat; subst v dat.
  1,3,4: (cbn [length Z.of_nat] in Htpos; take_else; [reflexivity|]; rewrite Gen_safety.obind_return; apply fd_post_ret; unfold fd_Q, RepI; rewrite Hfst, Hcap', Hav', Hsrc', Hscr'; si_simplz;
          cbn [zs map length Nat.sub Z.of_nat]; rewrite splice_nil, Nat.sub_0_r; repeat split; try assumption; try reflexivity; lia).
  remember (c :: d) as dd eqn:Edd in *. assert (Hrn : (0 < length dd)%nat) by (subst dd; cbn [length]; lia).
  assert (Hfst' : fst (i_feed b) = FdHave (length dd)) by (rewrite Hfst, Edd; reflexivity). clear Hfst Edd c d.
  assert (Hbdd : bytes_ok dd). { unfold bytes_ok in Hbs. rewrite Hsp in Hbs. apply Forall_app in Hbs. apply Hbs. }
  remember (splice x 0 (zs dd)) as x1 eqn:Ex1. remember (length dd) as rn eqn:Ern.
  take_then. { rewrite ret_cond. destruct (Z.eqb_spec (Z.of_nat rn) 0), (Z.eqb_spec (Z.of_nat rn) (-1)); try lia; reflexivity. }
  next_k. let1. let1. let1. let1. let1. let1. let1.
  assert (Eq : wraps 32 (wraps 64 (wraps 64 n - Z.of_nat rn)) = Z.of_nat (i_cap b - rn)).
  { rewrite (w64s n), (w64s (n - Z.of_nat rn)), wraps32_small by lia. lia. }
  assert (Ep : wraps 32 (Z.of_nat rn) = Z.of_nat rn) by (apply wraps32_small; lia).
  destruct (Nat.eq_dec (i_cap b - rn) 0) as [Eq0|Eq0].
  - take_then. { rewrite Eq, Eq0. reflexivity. }
    next_k. apply fd_post_ret. unfold fd_Q, RepI; rewrite Hfst', Hcap', Hav', Hsrc', Hscr'; si_simplz. rewrite Eq, Ep, <- Ern, Eq0. cbn [Z.of_nat Z.to_nat skipn].
    repeat split; try assumption; try reflexivity; lia.
  - destruct (bcr_run fuel x1 (i_cap b - rn) rn ltac:(lia) ltac:(lia) ltac:(rewrite p30; lia)
               ltac:(intros i Hi; apply (at_bytes x1 0 rn dd Hx1f Hbdd); lia)) as (t & Hbr & Hto).
    destruct t as [bto bn bfrom bato bafrom]. cbn [C_byte_copyr.a_to] in Hto. subst bato.
    take_else. { rewrite Eq. destruct (Z.gtb_spec (Z.of_nat (i_cap b - rn)) 0); [reflexivity|lia]. }
    call_is (Some (0, {| C_byte_copyr.v_to := bto; C_byte_copyr.v_n := bn; C_byte_copyr.v_from := bfrom;
                          C_byte_copyr.a_to := firstn (i_cap b - rn) x1 ++ firstn rn x1; C_byte_copyr.a_from := bafrom |})).
    { rewrite Eq. exact Hbr. }
    let1. let1. next_k. apply fd_post_ret. unfold fd_Q, RepI; rewrite Hfst', Hcap', Hav', Hsrc', Hscr'; si_simplz. rewrite Eq, Ep, <- Ern, Nat2Z.id.
    repeat split; try assumption; try reflexivity; try lia.
    + rewrite app_length, !firstn_length. lia.
    + rewrite skipn_app, firstn_length, skipn_firstn_comm.
      replace (i_cap b - rn - Nat.min (i_cap b - rn) (length x1))%nat with 0%nat by lia.
      replace (i_cap b - rn - (i_cap b - rn))%nat with 0%nat by lia. cbn [firstn skipn app]. rewrite firstn_firstn, Nat.min_id. exact Hx1f.
Qed.

Theorem feed_sim' : forall b x p n fd script k src pos fuel, RepI b x p n script k src pos -> goodI b src 0 -> enoughI fuel b script 0 ->
  exists v st, C_substdio_feed.run fuel x p n fd script src k pos = Some (v, st) /\ fd_Q b fd script src v st.
Proof.
  intros b x p n fd script k src pos fuel HR Hg He. rewrite fd_run_unfold.
  pose proof (fd_body b x p n fd script k src pos fuel HR Hg He) as H.
  destruct (C_substdio_feed.body fuel _) as [s|v s|s|s|]; destruct H as (v' & st & H1 & H2); try discriminate H1; eauto.
Qed.


Lemma bytes_ok_firstn w (s : bytes) : bytes_ok s -> bytes_ok (firstn w s).
Proof. unfold bytes_ok. intros H. rewrite <- (firstn_skipn w s) in H. apply Forall_app in H. apply H. Qed.
Lemma bytes_ok_skipn w (s : bytes) : bytes_ok s -> bytes_ok (skipn w s).
Proof. unfold bytes_ok. intros H. rewrite <- (firstn_skipn w s) in H. apply Forall_app in H. apply H. Qed.

(* getthis on a represented state *)
Lemma gt_rep fuel b x p n script k src pos (dst : list Z) (len : nat) : RepI b x p n script k src pos -> bytes_ok (i_avail b) ->
  Z.of_nat (i_cap b) < 2 ^ 30 -> Z.of_nat len < 2 ^ 30 -> (len <= length dst)%nat -> (len < fuel)%nat ->
  exists t, C_getthis.run fuel x p n dst 0 (wraps 32 (Z.of_nat len)) = Some (Z.of_nat (length (fst (i_getthis b len))), t) /\
    C_getthis.a_s__x t = x /\ firstn (length (fst (i_getthis b len))) (C_getthis.a_buf t) = zs (fst (i_getthis b len)) /\
    RepI (snd (i_getthis b len)) x (C_getthis.v_s__p t) (C_getthis.v_s__n t) script k src pos.
Proof.
  intros HR Hba Hc30 Hl30 Hld Hlf. pose proof HR as (Hx & Hac & Hp & Hn & Hfx & Hk & Hscr & Hpos & Hsrc). rewrite p30 in *.
  remember (length (i_avail b)) as pa eqn:Epa. remember (i_cap b - pa)%nat as nn eqn:Enn.
  destruct (gt_run fuel x dst pa nn len ltac:(lia) ltac:(rewrite p30; lia) ltac:(rewrite p30; lia) ltac:(lia) ltac:(lia)
              (at_bytes x nn pa (i_avail b) ltac:(rewrite Hn, Nat2Z.id in Hfx; exact Hfx) Hba)) as (t & Hrun & Htx & Htp & Htn & Htb).
  exists t. unfold i_getthis. cbn [fst snd]. rewrite <- Epa. remember (Nat.min len pa) as r eqn:Er.
  rewrite firstn_length. rewrite <- Epa. replace (Nat.min r pa) with r by lia.
  rewrite wraps32_small, Hp, Hn by lia. split; [exact Hrun|]. split; [exact Htx|].
  rewrite Hn, Nat2Z.id in Hfx.
  assert (Hfr : firstn r (skipn nn x) = zs (firstn r (i_avail b))).
  { rewrite <- zs_firstn, <- Hfx, firstn_firstn. f_equal. lia. }
  split.
  - rewrite Htb, <- Hfr. apply firstn_app_exact. rewrite firstn_length, skipn_length. lia.
  - unfold RepI. cbn [i_cap i_avail i_src i_scr]. rewrite skipn_length, <- Epa. rewrite Htp, Htn.
    repeat split; try assumption; try lia.
    rewrite Nat2Z.id. replace (nn + r)%nat with (r + nn)%nat by lia.
    rewrite skipn_plus, firstn_skipn_comm. replace (r + (pa - r))%nat with pa by lia. rewrite Hfx. unfold zs. apply skipn_map.
Qed.

Lemma i_feed_facts b : bytes_ok (i_avail b) -> bytes_ok (i_src b) ->
  i_cap (snd (i_feed b)) = i_cap b /\ bytes_ok (i_avail (snd (i_feed b))) /\
  (forall m, fst (i_feed b) = FdHave m -> (0 < m)%nat).
Proof.
  intros Ha Hs. destruct (i_avail b) as [|c av] eqn:Eav.
  - destruct (oneread (or_fuel (i_scr b)) (i_scr b) (i_src b) (i_cap b)) as [[res scr'] src'] eqn:Hm.
    destruct (i_feed_read b res scr' src' Eav Hm) as (Hfst & Hcap' & Hav' & Hsrc' & Hscr').
    destruct (oneread_split _ _ _ _ _ _ _ Hm) as (Hsp & _ & _).
    split; [exact Hcap'|]. split.
    + rewrite Hav'. unfold bytes_ok in *. rewrite Hsp in Hs. apply Forall_app in Hs. apply Hs.
    + intros m. rewrite Hfst. destruct res as [[|c d]| |]; try discriminate. intros E. injection E as <-. cbn [length]. lia.
  - rewrite i_feed_have by (rewrite Eav; discriminate). cbn [fst snd]. split; [reflexivity|]. split; [rewrite Eav; exact Ha|].
    intros m E. injection E as <-. rewrite Eav. cbn [length]. lia.
Qed.

Lemma i_get_avail b len : i_avail b <> [] -> i_get b len = (Some (fst (i_getthis b len)), snd (i_getthis b len)).
Proof. intros H. unfold i_get. destruct (i_avail b) eqn:E; [congruence|]. reflexivity. Qed.
Lemma i_get_direct b len res scr' src' : i_avail b = [] -> Nat.leb (i_cap b) len = true ->
  oneread (or_fuel (i_scr b)) (i_scr b) (i_src b) len = (res, scr', src') ->
  i_get b len = (match res with RdErr => None | RdEof => Some [] | RdData d => Some d end,
                 {| i_cap := i_cap b; i_avail := []; i_src := src'; i_scr := scr'; i_copies := i_copies b |}).
Proof. intros Ha Hc Hm. unfold i_get. rewrite Ha, Hc, Hm. destruct res; reflexivity. Qed.
Lemma i_get_feed b len : i_avail b = [] -> Nat.leb (i_cap b) len = false ->
  i_get b len = match fst (i_feed b) with
                | FdErr => (None, snd (i_feed b)) | FdEof => (Some [], snd (i_feed b))
                | FdHave _ => (Some (fst (i_getthis (snd (i_feed b)) len)), snd (i_getthis (snd (i_feed b)) len)) end.
Proof. intros Ha Hc. unfold i_get. rewrite Ha, Hc. destruct (i_feed b) as [f b1]. destruct f; reflexivity. Qed.


Definition gg_post (Q : Z -> C_substdio_get.st -> Prop) (o : outcome C_substdio_get.st) : Prop :=
  exists v st, match o with OReturn v s => Some (v, s) | ONormal s => Some (0, s) | _ => None end = Some (v, st) /\ Q v st.
Lemma gg_post_ret (Q : Z -> C_substdio_get.st -> Prop) v s : Q v s -> gg_post Q (OReturn v s).
Proof. intros H. exists v, s. split; [reflexivity|exact H]. Qed.
Lemma gg_run_unfold f x p n fd dst off len script src k pos : C_substdio_get.run f x p n fd dst off len script src k pos =
  match C_substdio_get.body f {| C_substdio_get.v_buf := off; C_substdio_get.v_len := len; C_substdio_get.v_r := 0; C_substdio_get.v_s__p := p; C_substdio_get.v_s__n := n;
     C_substdio_get.v_s__fd := fd; C_substdio_get.v_rd__n := k; C_substdio_get.v_rd__pos := pos; C_substdio_get.a_buf := dst; C_substdio_get.a_s__x := x;
     C_substdio_get.a_rd__script := script; C_substdio_get.a_rd__src := src |} with
  | OReturn v s => Some (v, s) | ONormal s => Some (0, s) | _ => None end.
Proof. reflexivity. Qed.
Definition gg_Q b len script src (v : Z) (st : C_substdio_get.st) : Prop :=
  match fst (i_get b len) with
  | None => v = -1
  | Some d => v = Z.of_nat (length d) /\ firstn (length d) (C_substdio_get.a_buf st) = zs d
  end /\
  RepI (snd (i_get b len)) (C_substdio_get.a_s__x st) (C_substdio_get.v_s__p st) (C_substdio_get.v_s__n st) script (C_substdio_get.v_rd__n st) src (C_substdio_get.v_rd__pos st).

Lemma getthis_len b len : (length (fst (i_getthis b len)) <= len)%nat.
Proof. unfold i_getthis. cbn [fst]. rewrite firstn_length. lia. Qed.

Lemma gg_body b x p n fd script k src pos fuel (dst : list Z) (len : nat) :
  RepI b x p n script k src pos -> goodI b src len -> enoughI fuel b script len -> (len <= length dst)%nat ->
  gg_post (gg_Q b len script src) (C_substdio_get.body fuel {| C_substdio_get.v_buf := 0; C_substdio_get.v_len := Z.of_nat len; C_substdio_get.v_r := 0; C_substdio_get.v_s__p := p; C_substdio_get.v_s__n := n;
     C_substdio_get.v_s__fd := fd; C_substdio_get.v_rd__n := k; C_substdio_get.v_rd__pos := pos; C_substdio_get.a_buf := dst; C_substdio_get.a_s__x := x;
     C_substdio_get.a_rd__script := script; C_substdio_get.a_rd__src := src |}).
Proof.
  intros HR HG Hen Hld. pose proof HG as (Hba & Hbs & Hcap0 & Hcap30 & Hl30 & Hsrc30). pose proof HR as (Hx & Hac & Hp & Hn & Hfx & Hk & Hscr & Hpos & Hsrc).
  unfold enoughI in Hen. pose proof (scr_le _ _ _ Hscr) as Hsl.
  cbv delta [C_substdio_get.body]. cbv beta.
  destruct (i_avail b) as [|c0 av] eqn:Eav.
  2:{ (* bytes available *)
    assert (Hne : i_avail b <> []) by (rewrite Eav; discriminate). rewrite <- Eav in *. clear Eav c0 av.
    assert (Hp0 : 0 < p) by (destruct (i_avail b); [congruence|cbn [length] in Hp; lia]).
    destruct (gt_rep fuel b x p n script k src pos dst len HR Hba Hcap30 Hl30 Hld ltac:(lia)) as (t & Hrun & Htx & Htb & HtR).
    pose proof (getthis_len b len) as Hdl. remember (fst (i_getthis b len)) as d0 eqn:Ed0.
    destruct t as [tb tl tr tq tp tn tab tx]. cbn [C_getthis.a_s__x C_getthis.a_buf C_getthis.v_s__p C_getthis.v_s__n] in Htx, Htb, HtR. subst tx.
    take_else. { destruct (Z.gtb_spec p 0); [reflexivity|lia]. }
    call_is (Some (Z.of_nat (length d0), {| C_getthis.v_buf := tb; C_getthis.v_len := tl; C_getthis.v_r := tr; C_getthis.v_q := tq; C_getthis.v_s__p := tp; C_getthis.v_s__n := tn;
                                           C_getthis.a_buf := tab; C_getthis.a_s__x := x |})). { exact Hrun. }
    let1. let1. let1. let1. let1.
    rewrite Gen_safety.obind_return. apply gg_post_ret. unfold gg_Q. rewrite (i_get_avail b len Hne), <- Ed0. cbn [fst snd]. si_simplz.
    rewrite p30 in *. rewrite w64s by lia. split; [split; [reflexivity|exact Htb]|exact HtR]. }
  cbn [length] in Hp, Hn, Hfx. rewrite Nat.sub_0_r in Hn. cbn [Z.of_nat] in Hp. subst p.
  take_then. { reflexivity. }
  next_k. let1. let1.
  destruct (Nat.leb_spec (i_cap b) len) as [Hcl|Hcl].
  - (* a direct read into the caller's buffer *)
    destruct (oneread (or_fuel (i_scr b)) (i_scr b) (i_src b) len) as [[res scr'] src'] eqn:Hm.
    pose proof (i_get_direct b len res scr' src' Eav ltac:(apply Nat.leb_le; lia) Hm) as Hig.
    destruct (oneread_split _ _ _ _ _ _ _ Hm) as (Hsp & Hdl & Hsl').
    destruct (or_run fuel fd dst 0 len script src k pos (i_scr b) (i_src b) res scr' src' ltac:(lia) ltac:(lia) Hk Hscr Hpos Hsrc Hm)
      as (t & Hrun & Htbuf & Htscr & Htsrc & Htk & Htscr' & Htpos & Htple & Htsrc').
    remember (rd_val res) as v eqn:Ev in *. remember (rd_data res) as dat eqn:Edat in *.
    destruct t as [tfd toff tlen tr tn tpos terr tabuf tscript tsrc].
    cbn [C_oneread.a_buf C_oneread.a_rd__script C_oneread.a_rd__src C_oneread.v_rd__n C_oneread.v_rd__pos] in Hrun, Htbuf, Htscr, Htsrc, Htk, Htscr', Htpos, Htple, Htsrc'. subst tabuf tscript tsrc.
    rewrite p30 in *.
    take_else. { rewrite Hn, w64s, wrapu64_small by lia. destruct (Z.leb_spec (Z.of_nat (i_cap b)) (Z.of_nat len)); [reflexivity|lia]. }
    call_is (Some (v, {| C_oneread.v_fd := tfd; C_oneread.v_buf := toff; C_oneread.v_len := tlen; C_oneread.v_r := tr; C_oneread.v_rd__n := tn;
       C_oneread.v_rd__pos := tpos; C_oneread.v_errno := terr; C_oneread.a_buf := splice dst 0 (zs dat); C_oneread.a_rd__script := script; C_oneread.a_rd__src := src |})).
    { exact Hrun. }
    let1. let1. let1. let1. let1. let1.
    rewrite Gen_safety.obind_return. apply gg_post_ret. unfold gg_Q, RepI. rewrite Hig. cbn [fst snd i_cap i_avail i_src i_scr]. si_simplz.
    split.
    + destruct res as [d| |]; cbn [rd_val rd_data] in Ev, Edat; subst v dat.
      * split; [reflexivity|]. unfold splice. cbn [Z.to_nat firstn app Nat.add]. rewrite <- (zs_length d) at 1. apply firstn_app_exact. reflexivity.
      * split; reflexivity.
      * reflexivity.
    + cbn [length Nat.sub Z.of_nat zs map firstn]. rewrite Nat.sub_0_r. repeat split; try assumption; try reflexivity; lia.
  - (* through the buffer *)
    rewrite p30 in *.
    take_then. { rewrite Hn, w64s, wrapu64_small by lia. destruct (Z.leb_spec (Z.of_nat (i_cap b)) (Z.of_nat len)); [lia|reflexivity]. }
    next_k.
    destruct (feed_sim' b x 0 n fd script k src pos fuel HR) as (v & st & Hrun & HQ).
    { unfold goodI. rewrite p30. repeat split; try assumption; try lia. rewrite Eav. constructor. }
    { unfold enoughI. lia. }
    destruct HQ as (Hv & HR1 & Hfd1 & Hs1 & Hsrc1).
    destruct st as [fr fq fp fn ffd fk fpos fx fscript fsrc].
    cbn [C_substdio_feed.a_s__x C_substdio_feed.v_s__p C_substdio_feed.v_s__n C_substdio_feed.v_rd__n C_substdio_feed.v_rd__pos C_substdio_feed.v_s__fd
         C_substdio_feed.a_rd__script C_substdio_feed.a_rd__src] in HR1, Hfd1, Hs1, Hsrc1. subst ffd fscript fsrc.
    call_is (Some (v, {| C_substdio_feed.v_r := fr; C_substdio_feed.v_q := fq; C_substdio_feed.v_s__p := fp; C_substdio_feed.v_s__n := fn; C_substdio_feed.v_s__fd := fd;
       C_substdio_feed.v_rd__n := fk; C_substdio_feed.v_rd__pos := fpos; C_substdio_feed.a_s__x := fx; C_substdio_feed.a_rd__script := script; C_substdio_feed.a_rd__src := src |})).
    { exact Hrun. }
    let1. let1. let1. let1. let1. let1. let1. let1. let1. let1. let1.
    pose proof (i_get_feed b len Eav ltac:(apply Nat.leb_gt; lia)) as Hig.
    destruct (i_feed_facts b ltac:(rewrite Eav; constructor) Hbs) as (Hc1 & Hba1 & Hpos1).
    destruct (fst (i_feed b)) as [m| |] eqn:Ef.
    + specialize (Hpos1 m eq_refl).
      take_then. { rewrite ret_cond, Hv. destruct (Z.eqb_spec (Z.of_nat m) 0), (Z.eqb_spec (Z.of_nat m) (-1)); try lia; reflexivity. }
      next_k.
      destruct (gt_rep fuel (snd (i_feed b)) fx fp fn script fk src fpos dst len HR1 Hba1 ltac:(rewrite Hc1, p30; lia) ltac:(rewrite p30; lia) Hld ltac:(lia))
        as (t & Hrun2 & Htx & Htb & HtR).
      pose proof (getthis_len (snd (i_feed b)) len) as Hdl. remember (fst (i_getthis (snd (i_feed b)) len)) as d0 eqn:Ed0.
      destruct t as [tb tl tr tq tp tn tab tx]. cbn [C_getthis.a_s__x C_getthis.a_buf C_getthis.v_s__p C_getthis.v_s__n] in Htx, Htb, HtR. subst tx.
      call_is (Some (Z.of_nat (length d0), {| C_getthis.v_buf := tb; C_getthis.v_len := tl; C_getthis.v_r := tr; C_getthis.v_q := tq; C_getthis.v_s__p := tp; C_getthis.v_s__n := tn;
                                             C_getthis.a_buf := tab; C_getthis.a_s__x := fx |})). { exact Hrun2. }
      let1. let1. let1. let1. let1.
      apply gg_post_ret. unfold gg_Q. rewrite Hig. cbn [fst snd]. si_simplz.
      rewrite w64s by lia. split; [split; [reflexivity|exact Htb]|exact HtR].
    + take_else. { rewrite ret_cond, Hv. reflexivity. }
      rewrite Gen_safety.obind_return. apply gg_post_ret. unfold gg_Q. rewrite Hig. cbn [fst snd]. si_simplz.
      split; [split; [exact Hv|reflexivity]|exact HR1].
    + take_else. { rewrite ret_cond, Hv. reflexivity. }
      rewrite Gen_safety.obind_return. apply gg_post_ret. unfold gg_Q. rewrite Hig. cbn [fst snd]. si_simplz.
      split; [exact Hv|exact HR1].
Qed.


Ltac kor_simpl := cbv beta iota zeta delta [K_oneread.set_v_fd K_oneread.set_v_buf K_oneread.set_v_len K_oneread.set_v_r K_oneread.set_v__oob K_oneread.set_v_rd__n K_oneread.set_v_rd__pos K_oneread.set_v_errno
  K_oneread.set_a_buf K_oneread.set_a_rd__script K_oneread.set_a_rd__src
  K_oneread.v_fd K_oneread.v_buf K_oneread.v_len K_oneread.v_r K_oneread.v__oob K_oneread.v_rd__n K_oneread.v_rd__pos K_oneread.v_errno K_oneread.a_buf K_oneread.a_rd__script K_oneread.a_rd__src].

Lemma kor_loop (f0 : nat) (fd off : Z) (buf script src : list Z) (len : nat) : 0 < Z.of_nat len ->
  forall (scr : list rres) (mf fuel : nat) (srcb : bytes) (r oob k pos errno : Z) res scr' src',
  (length scr < mf)%nat -> (length scr < fuel)%nat -> 0 <= k -> skipn (Z.to_nat k) script = map encr scr ->
  0 <= pos <= Z.of_nat (length src) -> skipn (Z.to_nat pos) src = zs srcb ->
  oneread mf scr srcb len = (res, scr', src') ->
  exists r' k' errno',
  K_oneread.loop1 f0 fuel {| K_oneread.v_fd := fd; K_oneread.v_buf := off; K_oneread.v_len := Z.of_nat len; K_oneread.v_r := r; K_oneread.v__oob := oob; K_oneread.v_rd__n := k;
     K_oneread.v_rd__pos := pos; K_oneread.v_errno := errno; K_oneread.a_buf := buf; K_oneread.a_rd__script := script; K_oneread.a_rd__src := src |}
  = OReturn (rd_val res) {| K_oneread.v_fd := fd; K_oneread.v_buf := off; K_oneread.v_len := Z.of_nat len; K_oneread.v_r := r'; K_oneread.v__oob := oob; K_oneread.v_rd__n := k';
     K_oneread.v_rd__pos := pos + Z.of_nat (length (rd_data res)); K_oneread.v_errno := errno'; K_oneread.a_buf := splice buf off (zs (rd_data res));
     K_oneread.a_rd__script := script; K_oneread.a_rd__src := src |}
  /\ 0 <= k' /\ skipn (Z.to_nat k') script = map encr scr'.
Proof.
  intros Hlen.
  induction scr as [|a scr IH]; intros mf fuel srcb r oob k pos errno res scr' src' Hmf Hfuel Hk Hscr Hpos Hsrc Hm;
    (destruct fuel as [|fuel]; [cbn [length] in Hfuel; lia|]); (destruct mf as [|mf]; [cbn [length] in Hmf; lia|]);
    rewrite oneread_S in Hm; cbn [K_oneread.loop1]; change (1 =? 0) with false; cbv iota; kor_simpl;
    pose proof (src_left src pos srcb Hpos Hsrc) as Hleft; rewrite Hleft.
  - cbn [map] in Hscr. destruct (script_end script k Hk Hscr) as [Hlt Hnext]. rewrite Hlt.
    destruct (Z.ltb_spec (Z.of_nat len - 1) 0) as [Hneg|_]; [lia|].
    replace (Z.of_nat len - 1 + 1) with (Z.of_nat len) by lia. rewrite Z.min_id, m1_64.
    rewrite <- Nat2Z.inj_min.
    destruct (Z.ltb_spec (Z.of_nat (Nat.min len (length srcb))) 0) as [Hneg|_]; [lia|].
    destruct (Z.eqb_spec (Z.of_nat (Nat.min len (length srcb))) (-1)) as [E1|_]; [lia|]. cbn [b2z]. change (0 =? 0) with true. cbv iota. cbn [obind]. kor_simpl.
    rewrite Nat2Z.id, Hsrc, zs_firstn.
    assert (Hres : rd_data res = firstn (Nat.min len (length srcb)) srcb /\ rd_val res = Z.of_nat (Nat.min len (length srcb)) /\ scr' = []).
    { destruct srcb as [|c s]; [injection Hm as <- <- <-; cbn; rewrite Nat.min_0_r; auto|].
      cbv zeta in Hm. injection Hm as <- <- <-. cbn [rd_data rd_val]. rewrite firstn_length. split; [reflexivity|]. split; [cbn [length]; lia|reflexivity]. }
    destruct Hres as (Hd & Hv & Hs'). rewrite Hd, Hv, Hs', firstn_length.
    replace (Nat.min (Nat.min len (length srcb)) (length srcb)) with (Nat.min len (length srcb)) by lia.
    eexists _, _, _. split; [reflexivity|]. split; [lia|exact Hnext].
  - cbn [map] in Hscr. destruct (scr_head script k _ _ Hk Hscr) as (Hlt & Hrd & Hnext). rewrite Hlt, Hrd.
    cbn [length] in Hmf, Hfuel.
    destruct a as [c| |]; cbn [encr].
    + destruct (Z.ltb_spec (Z.of_nat c) 0) as [Hneg|_]; [lia|]. rewrite m1_64.
      replace (Z.of_nat c + 1) with (Z.of_nat (S c)) by lia. rewrite <- !Nat2Z.inj_min.
      set (w := Nat.min (Nat.min (S c) len) (length srcb)) in *.
      destruct (Z.ltb_spec (Z.of_nat w) 0) as [Hneg|_]; [lia|].
      destruct (Z.eqb_spec (Z.of_nat w) (-1)) as [E1|_]; [lia|]. cbn [b2z]. change (0 =? 0) with true. cbv iota. cbn [obind]. kor_simpl.
      rewrite Nat2Z.id, Hsrc, zs_firstn.
      assert (Hres : rd_data res = firstn w srcb /\ rd_val res = Z.of_nat w /\ scr' = scr).
      { destruct srcb as [|c0 s]; [injection Hm as <- <- <-; subst w; cbn; rewrite Nat.min_0_r; auto|].
        cbv zeta in Hm. fold w in Hm. destruct (Nat.eqb_spec w 0) as [E0|E0]; injection Hm as <- <- <-; cbn [rd_data rd_val].
        - rewrite E0. auto.
        - rewrite firstn_length. split; [reflexivity|]. split; [subst w; cbn [length]; lia|reflexivity]. }
      destruct Hres as (Hd & Hv & Hs'). rewrite Hd, Hv, Hs', firstn_length.
      replace (Nat.min w (length srcb)) with w by lia.
      eexists _, _, _. split; [reflexivity|]. split; [lia|exact Hnext].
    + change (-1 <? 0) with true. cbv iota. change (-1 <? 0) with true. change (-1 =? -1) with true. cbv iota. rewrite m1_64.
      change (-1 =? -1) with true. change (4 =? 4) with true. cbn [b2z]. change (1 =? 0) with false. cbv iota. cbn [obind].
      apply (IH mf fuel srcb _ _ _ _ _ res scr' src'); try assumption; lia.
    + injection Hm as <- <- <-. change (-2 <? 0) with true. cbv iota. change (-1 <? 0) with true. change (-2 =? -1) with false. cbv iota. rewrite m1_64.
      change (-1 =? -1) with true. change (5 =? 4) with false. cbn [b2z]. change (1 =? 0) with false. change (0 =? 0) with true. cbv iota. cbn [obind]. kor_simpl.
      cbn [rd_val rd_data zs map length Z.of_nat]. rewrite splice_nil, Z.add_0_r.
      eexists _, _, _. split; [reflexivity|]. split; [lia|exact Hnext].
Qed.


Ltac kbcpr_step k Ha :=
  destruct k as [|k];
  [ cbn [Z.of_nat]; change (0 =? 0) with true; cbn [b2z zcopy]; change (1 =? 0) with false; cbv iota; rewrite ?Gen_safety.obind_return;
    eexists; eexists; eexists; reflexivity | ];
  rewrite of_nat_S_eqb0; cbn [b2z]; change (0 =? 0) with true; cbv iota; rewrite Gen_safety.obind_normal; bcp_simpl;
  rewrite !oob_keep by (apply inb_true; rewrite ?wr_length; lia);
  rewrite char_id by (apply Ha; lia); cbn [zcopy];
  rewrite (sub1_nat k) by lia.

Lemma kbcp_loop_r (f0 : nat) (src : list Z) :
  forall fuel k t f a, (k < fuel)%nat -> Z.of_nat k < 4294967296 -> (forall i, f <= i < f + Z.of_nat k -> 0 <= MiniC.rd src i < 256) ->
  0 <= t -> t + Z.of_nat k <= Z.of_nat (length a) -> 0 <= f -> f + Z.of_nat k <= Z.of_nat (length src) ->
  exists t' n' f', K_byte_copy.loop1 f0 fuel {| K_byte_copy.v_to := t; K_byte_copy.v_n := Z.of_nat k; K_byte_copy.v_from := f; K_byte_copy.v__oob := 0;
                                               K_byte_copy.a_to := a; K_byte_copy.a_from := src |}
    = OReturn 0 {| K_byte_copy.v_to := t'; K_byte_copy.v_n := n'; K_byte_copy.v_from := f'; K_byte_copy.v__oob := 0;
                   K_byte_copy.a_to := zcopy a src t f k; K_byte_copy.a_from := src |}.
Proof.
  induction fuel as [|fu IH]; intros k t f a Hk Hk32 Ha Ht HA Hf HB; [lia|].
  bcp_unroll. change (1 =? 0) with false. cbv iota.
  kbcpr_step k Ha. kbcpr_step k Ha. kbcpr_step k Ha. kbcpr_step k Ha.
  apply IH; rewrite ?wr_length; try lia. intros i Hi. apply Ha. lia.
Qed.

Ltac kbcr_simpl := cbv beta iota zeta delta [K_byte_copyr.set_v_to K_byte_copyr.set_v_n K_byte_copyr.set_v_from K_byte_copyr.set_v__oob K_byte_copyr.set_a_to K_byte_copyr.set_a_from
   K_byte_copyr.v_to K_byte_copyr.v_n K_byte_copyr.v_from K_byte_copyr.v__oob K_byte_copyr.a_to K_byte_copyr.a_from].
Ltac kbcr_unroll := cbn [K_byte_copyr.loop1 K_byte_copyr.set_v_to K_byte_copyr.set_v_n K_byte_copyr.set_v_from K_byte_copyr.set_v__oob K_byte_copyr.set_a_to K_byte_copyr.set_a_from
   K_byte_copyr.v_to K_byte_copyr.v_n K_byte_copyr.v_from K_byte_copyr.v__oob K_byte_copyr.a_to K_byte_copyr.a_from]; kbcr_simpl.
Ltac kbcrr_step k Ha :=
  destruct k as [|k];
  [ cbn [Z.of_nat]; change (0 =? 0) with true; cbn [b2z zcopyr]; change (1 =? 0) with false; cbv iota; rewrite ?Gen_safety.obind_return;
    eexists; eexists; eexists; reflexivity | ];
  rewrite of_nat_S_eqb0; cbn [b2z]; change (0 =? 0) with true; cbv iota; rewrite Gen_safety.obind_normal; kbcr_simpl;
  rewrite !oob_keep by (apply inb_true; rewrite ?wr_length; lia);
  rewrite char_id by (apply Ha; lia); cbn [zcopyr];
  rewrite (sub1_nat k) by lia.

Lemma kbcr_loop_r (f0 : nat) (src : list Z) :
  forall fuel k t f a, (k < fuel)%nat -> Z.of_nat k < 4294967296 -> (forall i, f - Z.of_nat k <= i < f -> 0 <= MiniC.rd src i < 256) ->
  Z.of_nat k <= t -> t <= Z.of_nat (length a) -> Z.of_nat k <= f -> f <= Z.of_nat (length src) ->
  exists t' n' f', K_byte_copyr.loop1 f0 fuel {| K_byte_copyr.v_to := t; K_byte_copyr.v_n := Z.of_nat k; K_byte_copyr.v_from := f; K_byte_copyr.v__oob := 0;
                                               K_byte_copyr.a_to := a; K_byte_copyr.a_from := src |}
    = OReturn 0 {| K_byte_copyr.v_to := t'; K_byte_copyr.v_n := n'; K_byte_copyr.v_from := f'; K_byte_copyr.v__oob := 0;
                   K_byte_copyr.a_to := zcopyr a src t f k; K_byte_copyr.a_from := src |}.
Proof.
  induction fuel as [|fu IH]; intros k t f a Hk Hk32 Ha Ht HA Hf HB; [lia|].
  kbcr_unroll. change (1 =? 0) with false. cbv iota.
  kbcrr_step k Ha. kbcrr_step k Ha. kbcrr_step k Ha. kbcrr_step k Ha.
  apply IH; rewrite ?wr_length; try lia. intros i Hi. apply Ha. lia.
Qed.


Lemma kbcp_run fuel (dst x : list Z) (r nn : nat) : (r <= length dst)%nat -> (nn + r <= length x)%nat -> (r < fuel)%nat -> Z.of_nat r < 2 ^ 30 ->
  (forall i, Z.of_nat nn <= i < Z.of_nat nn + Z.of_nat r -> 0 <= MiniC.rd x i < 256) ->
  exists t, K_byte_copy.run fuel dst 0 (Z.of_nat r) x (0 + Z.of_nat nn) = Some (0, t) /\
    K_byte_copy.a_to t = firstn r (skipn nn x) ++ skipn r dst /\ K_byte_copy.a_from t = x /\ K_byte_copy.v__oob t = 0.
Proof.
  intros Hd Hx Hf H30 Hb. rewrite p30 in H30.
  unfold K_byte_copy.run, K_byte_copy.body. rewrite Z.add_0_l.
  destruct (kbcp_loop_r fuel x fuel r 0 (Z.of_nat nn) dst Hf ltac:(lia) Hb ltac:(lia) ltac:(lia) ltac:(lia) ltac:(lia)) as (t' & n' & f' & Hl).
  rewrite Hl. eexists. split; [reflexivity|]. bcp_simpl. split; [|split; reflexivity].
  pose proof (zcopy_spec r [] dst (firstn nn x) (skipn nn x) Hd ltac:(rewrite skipn_length; lia)) as HZ.
  rewrite firstn_skipn, firstn_length_le in HZ by lia. exact HZ.
Qed.

Lemma kbcr_run fuel (x : list Z) (qn rn : nat) : length x = (qn + rn)%nat -> (rn < fuel)%nat -> Z.of_nat rn < 2 ^ 30 ->
  (forall i, 0 <= i < Z.of_nat rn -> 0 <= MiniC.rd x i < 256) ->
  exists t, K_byte_copyr.run fuel x (0 + Z.of_nat qn) (Z.of_nat rn) x 0 = Some (0, t) /\
    K_byte_copyr.a_to t = firstn qn x ++ firstn rn x /\ K_byte_copyr.v__oob t = 0.
Proof.
  intros Hx Hf H30 Hb. rewrite p30 in H30.
  unfold K_byte_copyr.run, K_byte_copyr.body. kbcr_simpl. rewrite !Z.add_0_l.
  destruct (kbcr_loop_r fuel x fuel rn (Z.of_nat qn + Z.of_nat rn) (Z.of_nat rn) x Hf ltac:(lia) ltac:(intros i Hi; apply Hb; lia)
              ltac:(lia) ltac:(lia) ltac:(lia) ltac:(lia)) as (t' & n' & f' & Hl).
  rewrite Hl. eexists. split; [reflexivity|]. kbcr_simpl. split; [|reflexivity].
  pose proof (zcopyr_off x rn (firstn qn x) (skipn qn x) [] rn ltac:(rewrite skipn_length; lia) ltac:(lia) ltac:(lia)) as HZ.
  rewrite app_nil_r, firstn_skipn, firstn_length_le, Nat.sub_diag in HZ by lia. cbn [skipn] in HZ.
  rewrite app_nil_r in HZ. rewrite <- Nat2Z.inj_add. exact HZ.
Qed.

Ltac kgt_simpl := cbv beta iota zeta delta [K_getthis.set_v_buf K_getthis.set_v_len K_getthis.set_v_r K_getthis.set_v_q K_getthis.set_v__oob K_getthis.set_v_s__p K_getthis.set_v_s__n K_getthis.set_a_buf K_getthis.set_a_s__x
  K_getthis.v_buf K_getthis.v_len K_getthis.v_r K_getthis.v_q K_getthis.v__oob K_getthis.v_s__p K_getthis.v_s__n K_getthis.a_buf K_getthis.a_s__x].

Lemma kgt_run fuel (x dst : list Z) (pa nn len : nat) :
  (nn + pa <= length x)%nat -> Z.of_nat (length x) < 2 ^ 30 -> Z.of_nat len < 2 ^ 30 -> (Nat.min len pa <= length dst)%nat -> (Nat.min len pa < fuel)%nat ->
  (forall i, Z.of_nat nn <= i < Z.of_nat nn + Z.of_nat pa -> 0 <= MiniC.rd x i < 256) ->
  exists t, K_getthis.run fuel x (Z.of_nat pa) (Z.of_nat nn) dst 0 (Z.of_nat len) = Some (Z.of_nat (Nat.min len pa), t) /\
    K_getthis.a_s__x t = x /\ K_getthis.v_s__p t = Z.of_nat (pa - Nat.min len pa) /\ K_getthis.v_s__n t = Z.of_nat (nn + Nat.min len pa) /\
    K_getthis.a_buf t = firstn (Nat.min len pa) (skipn nn x) ++ skipn (Nat.min len pa) dst /\ K_getthis.v__oob t = 0.
Proof.
  intros Hx Hx30 Hl30 Hd Hf Hb. rewrite p30 in *.
  remember (Nat.min len pa) as r eqn:Hr.
  destruct (kbcp_run fuel dst x r nn Hd ltac:(lia) Hf ltac:(rewrite p30; lia) ltac:(intros i Hi; apply Hb; lia)) as (t & Hrun & Hto & Hfrom & Hoob).
  unfold K_getthis.run, K_getthis.body. kgt_simpl.
  rewrite (wraps32_small (Z.of_nat pa - Z.of_nat len)) by lia.
  destruct (Z.gtb_spec (Z.of_nat pa - Z.of_nat len) 0) as [Hgt|Hle]; cbn [b2z]; [change (1 =? 0) with false|change (0 =? 0) with true]; cbv iota; cbn [obind]; kgt_simpl.
  - replace (Z.of_nat len) with (Z.of_nat r) by lia. rewrite Hrun. kgt_simpl. rewrite Hto, Hfrom, Hoob.
    eexists. split; [reflexivity|]. kgt_simpl. rewrite (wraps32_small (Z.of_nat nn)), !(wraps32_small (Z.of_nat nn + Z.of_nat r)) by lia. repeat split; lia.
  - assert (E : pa = r) by lia. rewrite E. rewrite Hrun. kgt_simpl. rewrite Hto, Hfrom, Hoob.
    eexists. split; [reflexivity|]. kgt_simpl. rewrite (wraps32_small (Z.of_nat nn)), !(wraps32_small (Z.of_nat nn + Z.of_nat r)) by lia. repeat split; lia.
Qed.


Lemma kor_run fuel fd buf off len script src k pos scr srcb res scr' src' :
  0 < Z.of_nat len -> (length scr < fuel)%nat -> 0 <= k -> skipn (Z.to_nat k) script = map encr scr ->
  0 <= pos <= Z.of_nat (length src) -> skipn (Z.to_nat pos) src = zs srcb ->
  oneread (or_fuel scr) scr srcb len = (res, scr', src') ->
  exists t, K_oneread.run fuel fd buf off (Z.of_nat len) script src k pos = Some (rd_val res, t) /\
    K_oneread.a_buf t = splice buf off (zs (rd_data res)) /\ K_oneread.a_rd__script t = script /\ K_oneread.a_rd__src t = src /\
    0 <= K_oneread.v_rd__n t /\ skipn (Z.to_nat (K_oneread.v_rd__n t)) script = map encr scr' /\
    K_oneread.v_rd__pos t = pos + Z.of_nat (length (rd_data res)) /\ K_oneread.v_rd__pos t <= Z.of_nat (length src) /\
    skipn (Z.to_nat (K_oneread.v_rd__pos t)) src = zs src' /\ K_oneread.v__oob t = 0.
Proof.
  intros Hlen Hf Hk Hscr Hpos Hsrc Hm.
  destruct (kor_loop fuel fd off buf script src len Hlen scr (or_fuel scr) fuel srcb 0 0 k pos 0 res scr' src' ltac:(unfold or_fuel; lia) Hf Hk Hscr Hpos Hsrc Hm)
    as (r' & k' & e' & HL & Hk' & Hscr').
  unfold K_oneread.run, K_oneread.body. rewrite HL. eexists. split; [reflexivity|]. kor_simpl.
  destruct (oneread_split _ _ _ _ _ _ _ Hm) as (Hsp & Hdl & _).
  pose proof (src_left src pos srcb Hpos Hsrc) as Hleft. unfold alen in Hleft.
  assert (HLs : length srcb = (length (rd_data res) + length src')%nat) by (rewrite Hsp at 1; apply app_length).
  repeat split; try assumption; try reflexivity; try lia.
  replace (Z.to_nat (pos + Z.of_nat (length (rd_data res)))) with (length (rd_data res) + Z.to_nat pos)%nat by lia.
  rewrite skipn_plus, Hsrc, Hsp at 1. rewrite zs_app, skipn_app, zs_length, Nat.sub_diag. cbn [skipn].
  rewrite skipn_all2 by (rewrite zs_length; lia). reflexivity.
Qed.


Definition kfd_post (Q : Z -> K_substdio_feed.st -> Prop) (o : outcome K_substdio_feed.st) : Prop :=
  exists v st, match o with OReturn v s => Some (v, s) | ONormal s => Some (0, s) | _ => None end = Some (v, st) /\ Q v st.
Lemma kfd_post_ret (Q : Z -> K_substdio_feed.st -> Prop) v s : Q v s -> kfd_post Q (OReturn v s).
Proof. intros H. exists v, s. split; [reflexivity|exact H]. Qed.
Lemma kfd_run_unfold f x p n fd script src k pos : K_substdio_feed.run f x p n fd script src k pos =
  match K_substdio_feed.body f {| K_substdio_feed.v_r := 0; K_substdio_feed.v_q := 0; K_substdio_feed.v__oob := 0; K_substdio_feed.v_s__p := p; K_substdio_feed.v_s__n := n; K_substdio_feed.v_s__fd := fd;
     K_substdio_feed.v_rd__n := k; K_substdio_feed.v_rd__pos := pos; K_substdio_feed.a_s__x := x; K_substdio_feed.a_rd__script := script; K_substdio_feed.a_rd__src := src |} with
  | OReturn v s => Some (v, s) | ONormal s => Some (0, s) | _ => None end.
Proof. reflexivity. Qed.

Definition kfd_Q b fd script src (v : Z) (st : K_substdio_feed.st) : Prop :=
  v = (match fst (i_feed b) with FdHave m => Z.of_nat m | FdEof => 0 | FdErr => -1 end) /\
  RepI (snd (i_feed b)) (K_substdio_feed.a_s__x st) (K_substdio_feed.v_s__p st) (K_substdio_feed.v_s__n st) script (K_substdio_feed.v_rd__n st) src (K_substdio_feed.v_rd__pos st) /\
  K_substdio_feed.v_s__fd st = fd /\ K_substdio_feed.a_rd__script st = script /\ K_substdio_feed.a_rd__src st = src /\ K_substdio_feed.v__oob st = 0.

Lemma kfd_body b x p n fd script k src pos fuel : RepI b x p n script k src pos -> goodI b src 0 -> enoughI fuel b script 0 ->
  kfd_post (kfd_Q b fd script src) (K_substdio_feed.body fuel {| K_substdio_feed.v_r := 0; K_substdio_feed.v_q := 0; K_substdio_feed.v__oob := 0; K_substdio_feed.v_s__p := p; K_substdio_feed.v_s__n := n; K_substdio_feed.v_s__fd := fd;
     K_substdio_feed.v_rd__n := k; K_substdio_feed.v_rd__pos := pos; K_substdio_feed.a_s__x := x; K_substdio_feed.a_rd__script := script; K_substdio_feed.a_rd__src := src |}).
Proof.
  intros HR (Hba & Hbs & Hcap0 & Hcap30 & _ & Hsrc30) Hen. pose proof HR as (Hx & Hac & Hp & Hn & Hfx & Hk & Hscr & Hpos & Hsrc).
  unfold enoughI in Hen. rewrite p30 in *. pose proof (scr_le _ _ _ Hscr) as Hsl.
  cbv delta [K_substdio_feed.body]. cbv beta.
  destruct (i_avail b) as [|c0 av] eqn:Eav.
  2:{ (* bytes available *)
    assert (Hne : i_avail b <> []) by (rewrite Eav; discriminate). rewrite <- Eav in *. clear Eav c0 av.
    assert (Hp0 : 0 < p) by (destruct (i_avail b); [congruence|cbn [length] in Hp; lia]).
    take_else. { apply Z.eqb_neq. lia. }
    rewrite Gen_safety.obind_return. apply kfd_post_ret. unfold kfd_Q. rewrite (i_feed_have b Hne). cbn [fst snd]. si_simplz.
    rewrite w64s by lia. repeat split; try assumption; try reflexivity; try lia. }
  cbn [length] in Hp, Hn, Hfx. rewrite Nat.sub_0_r in Hn. cbn [Z.of_nat] in Hp. subst p.
  destruct (oneread (or_fuel (i_scr b)) (i_scr b) (i_src b) (i_cap b)) as [[res scr'] src'] eqn:Hm.
  destruct (i_feed_read b res scr' src' Eav Hm) as (Hfst & Hcap' & Hav' & Hsrc' & Hscr').
  destruct (oneread_split _ _ _ _ _ _ _ Hm) as (Hsp & Hdl & Hsl').
  destruct (kor_run fuel fd x 0 (i_cap b) script src k pos (i_scr b) (i_src b) res scr' src' ltac:(lia) ltac:(lia) Hk Hscr Hpos Hsrc Hm)
    as (t & Hrun & Htbuf & Htscr & Htsrc & Htk & Htscr' & Htpos & Htple & Htsrc' & Htoob).
  remember (rd_val res) as v eqn:Ev in *. remember (rd_data res) as dat eqn:Edat in *.
  destruct t as [tfd toff tlen tr toob tn tpos terr tabuf tscript tsrc].
  cbn [K_oneread.a_buf K_oneread.a_rd__script K_oneread.a_rd__src K_oneread.v_rd__n K_oneread.v_rd__pos K_oneread.v__oob] in Hrun, Htbuf, Htscr, Htsrc, Htk, Htscr', Htpos, Htple, Htsrc', Htoob. subst tabuf tscript tsrc toob.
  take_then. { reflexivity. }
  next_k. let1. let1.
  call_is (Some (v, {| K_oneread.v_fd := tfd; K_oneread.v_buf := toff; K_oneread.v_len := tlen; K_oneread.v_r := tr; K_oneread.v__oob := 0; K_oneread.v_rd__n := tn;
     K_oneread.v_rd__pos := tpos; K_oneread.v_errno := terr; K_oneread.a_buf := splice x 0 (zs dat); K_oneread.a_rd__script := script; K_oneread.a_rd__src := src |})).
  { rewrite Hn, wrapu64_small by lia. exact Hrun. }
  let1. let1. let1. let1. let1. let1. let1. let1. let1.
  assert (Hx1 : length (splice x 0 (zs dat)) = i_cap b).
  { unfold splice. cbn [Z.to_nat firstn app Nat.add]. rewrite app_length, skipn_length, zs_length. lia. }
  assert (Hx1f : firstn (length dat) (splice x 0 (zs dat)) = zs dat).
  { unfold splice. cbn [Z.to_nat firstn app Nat.add]. rewrite <- (zs_length dat) at 1. apply firstn_app_exact. reflexivity. }
  destruct res as [[|c d]| |]; cbn [rd_val rd_data] in Hfst, Ev, Edat; subst v dat.
  1,3,4: (cbn [length Z.of_nat] in Htpos; take_else; [reflexivity|]; rewrite Gen_safety.obind_return; apply kfd_post_ret; unfold kfd_Q, RepI; rewrite Hfst, Hcap', Hav', Hsrc', Hscr'; si_simplz;
          cbn [zs map length Nat.sub Z.of_nat]; rewrite splice_nil, Nat.sub_0_r; repeat split; try assumption; try reflexivity; lia).
  remember (c :: d) as dd eqn:Edd in *. assert (Hrn : (0 < length dd)%nat) by (subst dd; cbn [length]; lia).
  assert (Hfst' : fst (i_feed b) = FdHave (length dd)) by (rewrite Hfst, Edd; reflexivity). clear Hfst Edd c d.
  assert (Hbdd : bytes_ok dd). { unfold bytes_ok in Hbs. rewrite Hsp in Hbs. apply Forall_app in Hbs. apply Hbs. }
  remember (splice x 0 (zs dd)) as x1 eqn:Ex1. remember (length dd) as rn eqn:Ern.
  take_then. { rewrite ret_cond. destruct (Z.eqb_spec (Z.of_nat rn) 0), (Z.eqb_spec (Z.of_nat rn) (-1)); try lia; reflexivity. }
  next_k. let1. let1. let1. let1. let1. let1. let1.
  assert (Eq : wraps 32 (wraps 64 (wraps 64 n - Z.of_nat rn)) = Z.of_nat (i_cap b - rn)).
  { rewrite (w64s n), (w64s (n - Z.of_nat rn)), wraps32_small by lia. lia. }
  assert (Ep : wraps 32 (Z.of_nat rn) = Z.of_nat rn) by (apply wraps32_small; lia).
  destruct (Nat.eq_dec (i_cap b - rn) 0) as [Eq0|Eq0].
  - take_then. { rewrite Eq, Eq0. reflexivity. }
    next_k. apply kfd_post_ret. unfold kfd_Q, RepI; rewrite Hfst', Hcap', Hav', Hsrc', Hscr'; si_simplz. rewrite Eq, Ep, <- Ern, Eq0. cbn [Z.of_nat Z.to_nat skipn].
    repeat split; try assumption; try reflexivity; lia.
  - destruct (kbcr_run fuel x1 (i_cap b - rn) rn ltac:(lia) ltac:(lia) ltac:(rewrite p30; lia)
               ltac:(intros i Hi; apply (at_bytes x1 0 rn dd Hx1f Hbdd); lia)) as (t & Hbr & Hto & Hboob).
    destruct t as [bto bn bfrom boob bato bafrom]. cbn [K_byte_copyr.a_to K_byte_copyr.v__oob] in Hto, Hboob. subst bato boob.
    take_else. { rewrite Eq. destruct (Z.gtb_spec (Z.of_nat (i_cap b - rn)) 0); [reflexivity|lia]. }
    call_is (Some (0, {| K_byte_copyr.v_to := bto; K_byte_copyr.v_n := bn; K_byte_copyr.v_from := bfrom; K_byte_copyr.v__oob := 0;
                          K_byte_copyr.a_to := firstn (i_cap b - rn) x1 ++ firstn rn x1; K_byte_copyr.a_from := bafrom |})).
    { rewrite Eq. exact Hbr. }
    let1. let1. let1. next_k. apply kfd_post_ret. unfold kfd_Q, RepI; rewrite Hfst', Hcap', Hav', Hsrc', Hscr'; si_simplz. rewrite Eq, Ep, <- Ern, Nat2Z.id.
    repeat split; try assumption; try reflexivity; try lia.
    + rewrite app_length, !firstn_length. lia.
    + rewrite skipn_app, firstn_length, skipn_firstn_comm.
      replace (i_cap b - rn - Nat.min (i_cap b - rn) (length x1))%nat with 0%nat by lia.
      replace (i_cap b - rn - (i_cap b - rn))%nat with 0%nat by lia. cbn [firstn skipn app]. rewrite firstn_firstn, Nat.min_id. exact Hx1f.
Qed.

Theorem kfeed_sim' : forall b x p n fd script k src pos fuel, RepI b x p n script k src pos -> goodI b src 0 -> enoughI fuel b script 0 ->
  exists v st, K_substdio_feed.run fuel x p n fd script src k pos = Some (v, st) /\ kfd_Q b fd script src v st.
Proof.
  intros b x p n fd script k src pos fuel HR Hg He. rewrite kfd_run_unfold.
  pose proof (kfd_body b x p n fd script k src pos fuel HR Hg He) as H.
  destruct (K_substdio_feed.body fuel _) as [s|v s|s|s|]; destruct H as (v' & st & H1 & H2); try discriminate H1; eauto.
Qed.


(* getthis on a represented state *)
Lemma kgt_rep fuel b x p n script k src pos (dst : list Z) (len : nat) : RepI b x p n script k src pos -> bytes_ok (i_avail b) ->
  Z.of_nat (i_cap b) < 2 ^ 30 -> Z.of_nat len < 2 ^ 30 -> (len <= length dst)%nat -> (len < fuel)%nat ->
  exists t, K_getthis.run fuel x p n dst 0 (wraps 32 (Z.of_nat len)) = Some (Z.of_nat (length (fst (i_getthis b len))), t) /\
    K_getthis.a_s__x t = x /\ firstn (length (fst (i_getthis b len))) (K_getthis.a_buf t) = zs (fst (i_getthis b len)) /\
    RepI (snd (i_getthis b len)) x (K_getthis.v_s__p t) (K_getthis.v_s__n t) script k src pos /\ K_getthis.v__oob t = 0.
Proof.
  intros HR Hba Hc30 Hl30 Hld Hlf. pose proof HR as (Hx & Hac & Hp & Hn & Hfx & Hk & Hscr & Hpos & Hsrc). rewrite p30 in *.
  remember (length (i_avail b)) as pa eqn:Epa. remember (i_cap b - pa)%nat as nn eqn:Enn.
  destruct (kgt_run fuel x dst pa nn len ltac:(lia) ltac:(rewrite p30; lia) ltac:(rewrite p30; lia) ltac:(lia) ltac:(lia)
              (at_bytes x nn pa (i_avail b) ltac:(rewrite Hn, Nat2Z.id in Hfx; exact Hfx) Hba)) as (t & Hrun & Htx & Htp & Htn & Htb & Htoob).
  exists t. unfold i_getthis. cbn [fst snd]. rewrite <- Epa. remember (Nat.min len pa) as r eqn:Er.
  rewrite firstn_length. rewrite <- Epa. replace (Nat.min r pa) with r by lia.
  rewrite wraps32_small, Hp, Hn by lia. split; [exact Hrun|]. split; [exact Htx|].
  rewrite Hn, Nat2Z.id in Hfx.
  assert (Hfr : firstn r (skipn nn x) = zs (firstn r (i_avail b))).
  { rewrite <- zs_firstn, <- Hfx, firstn_firstn. f_equal. lia. }
  split; [|split; [|exact Htoob]].
  - rewrite Htb, <- Hfr. apply firstn_app_exact. rewrite firstn_length, skipn_length. lia.
  - unfold RepI. cbn [i_cap i_avail i_src i_scr]. rewrite skipn_length, <- Epa. rewrite Htp, Htn.
    repeat split; try assumption; try lia.
    rewrite Nat2Z.id. replace (nn + r)%nat with (r + nn)%nat by lia.
    rewrite skipn_plus, firstn_skipn_comm. replace (r + (pa - r))%nat with pa by lia. rewrite Hfx. unfold zs. apply skipn_map.
Qed.



Definition kgg_post (Q : Z -> K_substdio_get.st -> Prop) (o : outcome K_substdio_get.st) : Prop :=
  exists v st, match o with OReturn v s => Some (v, s) | ONormal s => Some (0, s) | _ => None end = Some (v, st) /\ Q v st.
Lemma kgg_post_ret (Q : Z -> K_substdio_get.st -> Prop) v s : Q v s -> kgg_post Q (OReturn v s).
Proof. intros H. exists v, s. split; [reflexivity|exact H]. Qed.
Lemma kgg_run_unfold f x p n fd dst off len script src k pos : K_substdio_get.run f x p n fd dst off len script src k pos =
  match K_substdio_get.body f {| K_substdio_get.v_buf := off; K_substdio_get.v_len := len; K_substdio_get.v_r := 0; K_substdio_get.v__oob := 0; K_substdio_get.v_s__p := p; K_substdio_get.v_s__n := n;
     K_substdio_get.v_s__fd := fd; K_substdio_get.v_rd__n := k; K_substdio_get.v_rd__pos := pos; K_substdio_get.a_buf := dst; K_substdio_get.a_s__x := x;
     K_substdio_get.a_rd__script := script; K_substdio_get.a_rd__src := src |} with
  | OReturn v s => Some (v, s) | ONormal s => Some (0, s) | _ => None end.
Proof. reflexivity. Qed.
Definition kgg_Q b len script src (v : Z) (st : K_substdio_get.st) : Prop :=
  match fst (i_get b len) with
  | None => v = -1
  | Some d => v = Z.of_nat (length d) /\ firstn (length d) (K_substdio_get.a_buf st) = zs d
  end /\
  RepI (snd (i_get b len)) (K_substdio_get.a_s__x st) (K_substdio_get.v_s__p st) (K_substdio_get.v_s__n st) script (K_substdio_get.v_rd__n st) src (K_substdio_get.v_rd__pos st) /\ K_substdio_get.v__oob st = 0.

Lemma kgg_body b x p n fd script k src pos fuel (dst : list Z) (len : nat) :
  RepI b x p n script k src pos -> goodI b src len -> enoughI fuel b script len -> (len <= length dst)%nat ->
  kgg_post (kgg_Q b len script src) (K_substdio_get.body fuel {| K_substdio_get.v_buf := 0; K_substdio_get.v_len := Z.of_nat len; K_substdio_get.v_r := 0; K_substdio_get.v__oob := 0; K_substdio_get.v_s__p := p; K_substdio_get.v_s__n := n;
     K_substdio_get.v_s__fd := fd; K_substdio_get.v_rd__n := k; K_substdio_get.v_rd__pos := pos; K_substdio_get.a_buf := dst; K_substdio_get.a_s__x := x;
     K_substdio_get.a_rd__script := script; K_substdio_get.a_rd__src := src |}).
Proof.
  intros HR HG Hen Hld. pose proof HG as (Hba & Hbs & Hcap0 & Hcap30 & Hl30 & Hsrc30). pose proof HR as (Hx & Hac & Hp & Hn & Hfx & Hk & Hscr & Hpos & Hsrc).
  unfold enoughI in Hen. pose proof (scr_le _ _ _ Hscr) as Hsl.
  cbv delta [K_substdio_get.body]. cbv beta.
  destruct (i_avail b) as [|c0 av] eqn:Eav.
  2:{ (* bytes available *)
    assert (Hne : i_avail b <> []) by (rewrite Eav; discriminate). rewrite <- Eav in *. clear Eav c0 av.
    assert (Hp0 : 0 < p) by (destruct (i_avail b); [congruence|cbn [length] in Hp; lia]).
    destruct (kgt_rep fuel b x p n script k src pos dst len HR Hba Hcap30 Hl30 Hld ltac:(lia)) as (t & Hrun & Htx & Htb & HtR & Htoob).
    pose proof (getthis_len b len) as Hdl. remember (fst (i_getthis b len)) as d0 eqn:Ed0.
    destruct t as [tb tl tr tq toob tp tn tab tx]. cbn [K_getthis.a_s__x K_getthis.a_buf K_getthis.v_s__p K_getthis.v_s__n K_getthis.v__oob] in Htx, Htb, HtR, Htoob. subst tx toob.
    take_else. { destruct (Z.gtb_spec p 0); [reflexivity|lia]. }
    call_is (Some (Z.of_nat (length d0), {| K_getthis.v_buf := tb; K_getthis.v_len := tl; K_getthis.v_r := tr; K_getthis.v_q := tq; K_getthis.v__oob := 0; K_getthis.v_s__p := tp; K_getthis.v_s__n := tn;
                                           K_getthis.a_buf := tab; K_getthis.a_s__x := x |})). { exact Hrun. }
    let1. let1. let1. let1. let1. let1.
    rewrite Gen_safety.obind_return. apply kgg_post_ret. unfold kgg_Q. rewrite (i_get_avail b len Hne), <- Ed0. cbn [fst snd]. si_simplz.
    rewrite p30 in *. rewrite w64s by lia. split; [split; [reflexivity|exact Htb]|split; [exact HtR|reflexivity]]. }
  cbn [length] in Hp, Hn, Hfx. rewrite Nat.sub_0_r in Hn. cbn [Z.of_nat] in Hp. subst p.
  take_then. { reflexivity. }
  next_k. let1. let1.
  destruct (Nat.leb_spec (i_cap b) len) as [Hcl|Hcl].
  - (* a direct read into the caller's buffer *)
    destruct (oneread (or_fuel (i_scr b)) (i_scr b) (i_src b) len) as [[res scr'] src'] eqn:Hm.
    pose proof (i_get_direct b len res scr' src' Eav ltac:(apply Nat.leb_le; lia) Hm) as Hig.
    destruct (oneread_split _ _ _ _ _ _ _ Hm) as (Hsp & Hdl & Hsl').
    destruct (kor_run fuel fd dst 0 len script src k pos (i_scr b) (i_src b) res scr' src' ltac:(lia) ltac:(lia) Hk Hscr Hpos Hsrc Hm)
      as (t & Hrun & Htbuf & Htscr & Htsrc & Htk & Htscr' & Htpos & Htple & Htsrc' & Htoob).
    remember (rd_val res) as v eqn:Ev in *. remember (rd_data res) as dat eqn:Edat in *.
    destruct t as [tfd toff tlen tr toob tn tpos terr tabuf tscript tsrc].
    cbn [K_oneread.a_buf K_oneread.a_rd__script K_oneread.a_rd__src K_oneread.v_rd__n K_oneread.v_rd__pos K_oneread.v__oob] in Hrun, Htbuf, Htscr, Htsrc, Htk, Htscr', Htpos, Htple, Htsrc', Htoob. subst tabuf tscript tsrc toob.
    rewrite p30 in *.
    take_else. { rewrite Hn, w64s, wrapu64_small by lia. destruct (Z.leb_spec (Z.of_nat (i_cap b)) (Z.of_nat len)); [reflexivity|lia]. }
    call_is (Some (v, {| K_oneread.v_fd := tfd; K_oneread.v_buf := toff; K_oneread.v_len := tlen; K_oneread.v_r := tr; K_oneread.v__oob := 0; K_oneread.v_rd__n := tn;
       K_oneread.v_rd__pos := tpos; K_oneread.v_errno := terr; K_oneread.a_buf := splice dst 0 (zs dat); K_oneread.a_rd__script := script; K_oneread.a_rd__src := src |})).
    { exact Hrun. }
    let1. let1. let1. let1. let1. let1. let1.
    rewrite Gen_safety.obind_return. apply kgg_post_ret. unfold kgg_Q, RepI. rewrite Hig. cbn [fst snd i_cap i_avail i_src i_scr]. si_simplz.
    split.
    + destruct res as [d| |]; cbn [rd_val rd_data] in Ev, Edat; subst v dat.
      * split; [reflexivity|]. unfold splice. cbn [Z.to_nat firstn app Nat.add]. rewrite <- (zs_length d) at 1. apply firstn_app_exact. reflexivity.
      * split; reflexivity.
      * reflexivity.
    + cbn [length Nat.sub Z.of_nat zs map firstn]. rewrite Nat.sub_0_r. repeat split; try assumption; try reflexivity; lia.
  - (* through the buffer *)
    rewrite p30 in *.
    take_then. { rewrite Hn, w64s, wrapu64_small by lia. destruct (Z.leb_spec (Z.of_nat (i_cap b)) (Z.of_nat len)); [lia|reflexivity]. }
    next_k.
    destruct (kfeed_sim' b x 0 n fd script k src pos fuel HR) as (v & st & Hrun & HQ).
    { unfold goodI. rewrite p30. repeat split; try assumption; try lia. rewrite Eav. constructor. }
    { unfold enoughI. lia. }
    destruct HQ as (Hv & HR1 & Hfd1 & Hs1 & Hsrc1 & Hfoob).
    destruct st as [fr fq foob fp fn ffd fk fpos fx fscript fsrc].
    cbn [K_substdio_feed.a_s__x K_substdio_feed.v_s__p K_substdio_feed.v_s__n K_substdio_feed.v_rd__n K_substdio_feed.v_rd__pos K_substdio_feed.v_s__fd
         K_substdio_feed.a_rd__script K_substdio_feed.a_rd__src K_substdio_feed.v__oob] in HR1, Hfd1, Hs1, Hsrc1, Hfoob. subst ffd fscript fsrc foob.
    call_is (Some (v, {| K_substdio_feed.v_r := fr; K_substdio_feed.v_q := fq; K_substdio_feed.v__oob := 0; K_substdio_feed.v_s__p := fp; K_substdio_feed.v_s__n := fn; K_substdio_feed.v_s__fd := fd;
       K_substdio_feed.v_rd__n := fk; K_substdio_feed.v_rd__pos := fpos; K_substdio_feed.a_s__x := fx; K_substdio_feed.a_rd__script := script; K_substdio_feed.a_rd__src := src |})).
    { exact Hrun. }
    let1. let1. let1. let1. let1. let1. let1. let1. let1. let1. let1. let1.
    pose proof (i_get_feed b len Eav ltac:(apply Nat.leb_gt; lia)) as Hig.
    destruct (i_feed_facts b ltac:(rewrite Eav; constructor) Hbs) as (Hc1 & Hba1 & Hpos1).
    destruct (fst (i_feed b)) as [m| |] eqn:Ef.
    + specialize (Hpos1 m eq_refl).
      take_then. { rewrite ret_cond, Hv. destruct (Z.eqb_spec (Z.of_nat m) 0), (Z.eqb_spec (Z.of_nat m) (-1)); try lia; reflexivity. }
      next_k.
      destruct (kgt_rep fuel (snd (i_feed b)) fx fp fn script fk src fpos dst len HR1 Hba1 ltac:(rewrite Hc1, p30; lia) ltac:(rewrite p30; lia) Hld ltac:(lia))
        as (t & Hrun2 & Htx & Htb & HtR & Htoob).
      pose proof (getthis_len (snd (i_feed b)) len) as Hdl. remember (fst (i_getthis (snd (i_feed b)) len)) as d0 eqn:Ed0.
      destruct t as [tb tl tr tq toob tp tn tab tx]. cbn [K_getthis.a_s__x K_getthis.a_buf K_getthis.v_s__p K_getthis.v_s__n K_getthis.v__oob] in Htx, Htb, HtR, Htoob. subst tx toob.
      call_is (Some (Z.of_nat (length d0), {| K_getthis.v_buf := tb; K_getthis.v_len := tl; K_getthis.v_r := tr; K_getthis.v_q := tq; K_getthis.v__oob := 0; K_getthis.v_s__p := tp; K_getthis.v_s__n := tn;
                                             K_getthis.a_buf := tab; K_getthis.a_s__x := fx |})). { exact Hrun2. }
      let1. let1. let1. let1. let1. let1.
      apply kgg_post_ret. unfold kgg_Q. rewrite Hig. cbn [fst snd]. si_simplz.
      rewrite w64s by lia. split; [split; [reflexivity|exact Htb]|split; [exact HtR|reflexivity]].
    + take_else. { rewrite ret_cond, Hv. reflexivity. }
      rewrite Gen_safety.obind_return. apply kgg_post_ret. unfold kgg_Q. rewrite Hig. cbn [fst snd]. si_simplz.
      split; [split; [exact Hv|reflexivity]|split; [exact HR1|reflexivity]].
    + take_else. { rewrite ret_cond, Hv. reflexivity. }
      rewrite Gen_safety.obind_return. apply kgg_post_ret. unfold kgg_Q. rewrite Hig. cbn [fst snd]. si_simplz.
      split; [exact Hv|split; [exact HR1|reflexivity]].
Qed.


(* REQUIRED 1 *)
Theorem gen_substdio_feed_sim : forall b x p n fd script k src pos fuel, RepI b x p n script k src pos -> goodI b src 0 -> enoughI fuel b script 0 ->
  exists v st, C_substdio_feed.run fuel x p n fd script src k pos = Some (v, st) /\
    v = (match fst (i_feed b) with FdHave m => Z.of_nat m | FdEof => 0 | FdErr => -1 end) /\
    RepI (snd (i_feed b)) (C_substdio_feed.a_s__x st) (C_substdio_feed.v_s__p st) (C_substdio_feed.v_s__n st) script (C_substdio_feed.v_rd__n st) src (C_substdio_feed.v_rd__pos st).
Proof.
  intros b x p n fd script k src pos fuel HR HG HE.
  destruct (feed_sim' b x p n fd script k src pos fuel HR HG HE) as (v & st & Hrun & Hv & HR1 & _).
  exists v, st. split; [exact Hrun|]. split; [exact Hv|exact HR1].
Qed.
(* REQUIRED 2 *)
Theorem gen_substdio_get_sim : forall b x p n fd script k src pos fuel (dst : list Z) (len : nat),
  RepI b x p n script k src pos -> goodI b src len -> enoughI fuel b script len -> (len <= length dst)%nat ->
  exists v st, C_substdio_get.run fuel x p n fd dst 0 (Z.of_nat len) script src k pos = Some (v, st) /\
    match fst (i_get b len) with
    | None => v = -1
    | Some d => v = Z.of_nat (length d) /\ firstn (length d) (C_substdio_get.a_buf st) = zs d
    end /\
    RepI (snd (i_get b len)) (C_substdio_get.a_s__x st) (C_substdio_get.v_s__p st) (C_substdio_get.v_s__n st) script (C_substdio_get.v_rd__n st) src (C_substdio_get.v_rd__pos st).
Proof.
  intros b x p n fd script k src pos fuel dst len HR HG HE Hld. rewrite gg_run_unfold.
  pose proof (gg_body b x p n fd script k src pos fuel dst len HR HG HE Hld) as H.
  destruct (C_substdio_get.body fuel _) as [s|v s|s|s|]; destruct H as (v' & st & H1 & H2 & H3); try discriminate H1; exists v', st; (split; [exact H1|split; [exact H2|exact H3]]).
Qed.
(* REQUIRED 3: the checked variant never leaves the buffer, the destination or the source *)
Theorem safe_substdio_get : forall b x p n fd script k src pos fuel (dst : list Z) (len : nat),
  RepI b x p n script k src pos -> goodI b src len -> enoughI fuel b script len -> (len <= length dst)%nat ->
  option_map (fun r => K_substdio_get.v__oob (snd r)) (K_substdio_get.run fuel x p n fd dst 0 (Z.of_nat len) script src k pos) = Some 0.
Proof.
  intros b x p n fd script k src pos fuel dst len HR HG HE Hld. rewrite kgg_run_unfold.
  pose proof (kgg_body b x p n fd script k src pos fuel dst len HR HG HE Hld) as H.
  destruct (K_substdio_get.body fuel _) as [s|v s|s|s|]; destruct H as (v' & st & H1 & H2 & H3 & H4); try discriminate H1;
    injection H1 as <- <-; cbn [option_map snd]; rewrite H4; reflexivity.
Qed.
