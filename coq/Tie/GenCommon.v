(* shared vocabulary for the equalities between the functions generated from the C sources (gen/CGen.v) and the
   hand-written models *)
From Coq Require Import ZArith NArith List Lia.
From NQ Require Import Base.MiniC Base.Bytes.
Import ListNotations.
Local Open Scope Z_scope.

(* a model byte string as the C array of its bytes *)
Definition zs (s : bytes) : list Z := map Z.of_N s.
Definition bytes_ok (s : bytes) : Prop := Forall (fun c => (c < 256)%N) s.
Definition zbytes_ok (a : list Z) : Prop := Forall (fun c => 0 <= c < 256) a.
(* value returned by a generated function *)
Definition retval {St : Type} (r : option (Z * St)) : option Z := option_map fst r.
