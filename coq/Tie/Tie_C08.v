(* tie for C08 (and the tables shared with C10/C11): the few lines of constmap.c, case_diffb.c, cdb_hash.c, cdbmake_hash.c,
   cdb_unpack.c, cdbmake_pack.c that Base/Constmap.v and Base/Cdb.v transcribe, parsed from today's source; and the two
   places where a cdb read error must stay an error (rcpthosts.c returns cdb_seek's result, qmail-smtpd.c dies on -1) *)
From Coq Require Import ZArith NArith List String.
From NQ Require Import gen.Params_gen Base.Constmap Base.Cdb.
Import ListNotations.
Local Open Scope Z_scope.
Lemma tie_constmap_hash_folds_what_case_diffb_folds :
  Params_gen.cm_fold_max = Z.of_N Constmap.FOLD_MAX /\ Params_gen.case_fold_max = Params_gen.cm_fold_max /\
  Params_gen.cm_fold_add = 32 /\ Params_gen.cm_hash_start = 5381.
Proof. repeat split; reflexivity. Qed.
Lemma tie_constmap_hash_text :
  Params_gen.cm_hash_src = "{unsignedcharch;constmap_hashh;h=5381;while(len>0){ch=*s++-'A';if(ch<='Z'-'A')ch+='a'-'A';h=((h<<5)+h)^ch;--len;}returnh;}"%string.
Proof. reflexivity. Qed.
Lemma tie_case_diffb_text :
  Params_gen.case_diffb_src = "{unsignedcharx;unsignedchary;while(len>0){--len;x=*s++-'A';if(x<='Z'-'A')x+='a';elsex+='A';y=*t++-'A';if(y<='Z'-'A')y+='a';elsey+='A';if(x!=y)return((int)(unsignedint)x)-((int)(unsignedint)y);}return0;}"%string.
Proof. reflexivity. Qed.
Lemma tie_cdb_hash_text :
  Params_gen.cdb_hash_src = "{uint32h;h=5381;while(len){--len;h+=(h<<5);h^=(uint32)*buf++;}returnh;}"%string /\
  Params_gen.cdbmake_hashadd_src = "{h+=(h<<5);h^=(uint32)(unsignedchar)c;returnh;}"%string /\
  Params_gen.cdbmake_hashstart = 5381.
Proof. repeat split; reflexivity. Qed.
Lemma tie_cdb_pack_text :
  Params_gen.cdb_unpack_src = "{uint32num;num=buf[3];num<<=8;num+=buf[2];num<<=8;num+=buf[1];num<<=8;num+=buf[0];returnnum;}"%string /\
  Params_gen.cdbmake_pack_src = "{*buf++=num;num>>=8;*buf++=num;num>>=8;*buf++=num;num>>=8;*buf=num;}"%string /\
  Params_gen.cdb_header_bytes = Z.of_N Cdb.HEADER.
Proof. repeat split; reflexivity. Qed.
Lemma tie_cdb_seek_shape :
  Params_gen.cdb_seek_slot_expr = 1 /\ Params_gen.cdb_seek_start_expr = 1 /\ Params_gen.cdb_seek_error_is_minus1 = 1.
Proof. repeat split; reflexivity. Qed.
Lemma tie_cdb_error_stays_an_error :
  Params_gen.rcpthosts_returns_seek_result = 1 /\ Params_gen.smtpd_dies_on_rcpthosts_error = 1.
Proof. split; reflexivity. Qed.
