(* tie for C08 (and the tables shared with C10/C11): the few lines of constmap.c, case_diffb.c, cdb_hash.c, cdbmake_hash.c,
   cdb_unpack.c, cdbmake_pack.c that Base/Constmap.v and Base/Cdb.v transcribe, parsed from today's source; and the two
   places where a cdb read error must stay an error (rcpthosts.c returns cdb_seek's result, qmail-smtpd.c dies on -1) *)
From Coq Require Import ZArith NArith List String.
From NQ Require Import gen.Params_gen Base.Constmap Base.Cdb.
Import ListNotations.
Local Open Scope Z_scope.
Lemma tie_constmap_hash_folds_what_case_diffb_folds :
  Params_gen.cm_fold_max = Z.of_N Constmap.FOLD_MAX /\ Params_gen.case_fold_max = Params_gen.cm_fold_max /\
  Params_gen.cm_fold_add = 32 /\ Params_gen.cm_hash_start = 5381.
Proof. repeat split; reflexivity. Qed.
Lemma tie_constmap_hash_text :
  Params_gen.cm_hash_src = "{unsignedcharch;constmap_hashh;h=5381;while(len>0){ch=*s++-'A';if(ch<='Z'-'A')ch+='a'-'A';h=((h<<5)+h)^ch;--len;}returnh;}"%string.
Proof. reflexivity. Qed.
Lemma tie_case_diffb_text :
  Params_gen.case_diffb_src = "{unsignedcharx;unsignedchary;while(len>0){--len;x=*s++-'A';if(x<='Z'-'A')x+='a';elsex+='A';y=*t++-'A';if(y<='Z'-'A')y+='a';elsey+='A';if(x!=y)return((int)(unsignedint)x)-((int)(unsignedint)y);}return0;}"%string.
Proof. reflexivity. Qed.
Lemma tie_cdb_hash_text :
  Params_gen.cdb_hash_src = "{uint32h;h=5381;while(len){--len;h+=(h<<5);h^=(uint32)*buf++;}returnh;}"%string /\
  Params_gen.cdbmake_hashadd_src = "{h+=(h<<5);h^=(uint32)(unsignedchar)c;returnh;}"%string /\
  Params_gen.cdbmake_hashstart = 5381.
Proof. repeat split; reflexivity. Qed.
Lemma tie_cdb_pack_text :
  Params_gen.cdb_unpack_src = "{uint32num;num=buf[3];num<<=8;num+=buf[2];num<<=8;num+=buf[1];num<<=8;num+=buf[0];returnnum;}"%string /\
  Params_gen.cdbmake_pack_src = "{*buf++=num;num>>=8;*buf++=num;num>>=8;*buf++=num;num>>=8;*buf=num;}"%string /\
  Params_gen.cdb_header_bytes = Z.of_N Cdb.HEADER.
Proof. repeat split; reflexivity. Qed.
Lemma tie_cdb_seek_shape :
  Params_gen.cdb_seek_slot_expr = 1 /\ Params_gen.cdb_seek_start_expr = 1 /\ Params_gen.cdb_seek_error_is_minus1 = 1.
Proof. repeat split; reflexivity. Qed.
Lemma tie_cdb_error_stays_an_error :
  Params_gen.rcpthosts_returns_seek_result = 1 /\ Params_gen.smtpd_dies_on_rcpthosts_error = 1.
Proof. split; reflexivity. Qed.
(* the same functions as GENERATED from today's sources by tools/c2gallina.py (coq/gen/CGen.v) equal the models, for all
   inputs: so constmap_hash_respects_case, cdb_reader_finds_what_writer_stored etc. are about what the code says now *)
From NQ Require Base.MiniC Base.Bytes gen.CGen Tie.GenCommon Tie.Gen_tables.
Lemma tie_generated_constmap_hash : forall s : Bytes.bytes, GenCommon.bytes_ok s -> Z.of_nat (List.length s) < 2 ^ 31 ->
  GenCommon.retval (CGen.C_cm_hash.run (S (List.length s)) (GenCommon.zs s) 0 (Z.of_nat (List.length s))) = Some (Z.of_N (Constmap.cm_hash s)).
Proof. exact Gen_tables.gen_cm_hash_eq. Qed.
Lemma tie_generated_cdb_hash : forall s : Bytes.bytes, GenCommon.bytes_ok s -> Z.of_nat (List.length s) < 2 ^ 32 ->
  GenCommon.retval (CGen.C_cdb_hash.run (S (List.length s)) (GenCommon.zs s) 0 (Z.of_nat (List.length s))) = Some (Z.of_N (Cdb.cdb_hash s)).
Proof. exact Gen_tables.gen_cdb_hash_eq. Qed.
Lemma tie_generated_cdbmake_hashadd : forall h c : N, (h < 4294967296)%N -> (c < 256)%N ->
  GenCommon.retval (CGen.C_cdbmake_hashadd.run 1 (Z.of_N h) (Z.of_N c)) = Some (Z.of_N (Cdb.hashadd h c)).
Proof. exact Gen_tables.gen_cdbmake_hashadd_eq. Qed.
Lemma tie_generated_cdb_unpack : forall b0 b1 b2 b3 : N, GenCommon.bytes_ok [b0; b1; b2; b3] ->
  GenCommon.retval (CGen.C_cdb_unpack.run 1 (GenCommon.zs [b0; b1; b2; b3]) 0) = Some (Z.of_N (Cdb.unpack32 [b0; b1; b2; b3])).
Proof. exact Gen_tables.gen_cdb_unpack_eq. Qed.
Lemma tie_generated_cdbmake_pack : forall (n : N) (old : list Z), (n < 4294967296)%N -> List.length old = 4%nat ->
  option_map (fun r => CGen.C_cdbmake_pack.a_buf (snd r)) (CGen.C_cdbmake_pack.run 1 old 0 (Z.of_N n)) = Some (GenCommon.zs (Cdb.pack32 n)).
Proof. exact Gen_tables.gen_cdbmake_pack_eq. Qed.
Lemma tie_generated_case_diffb : forall a b : Bytes.bytes, GenCommon.bytes_ok a -> GenCommon.bytes_ok b -> List.length a = List.length b -> Z.of_nat (List.length a) < 2 ^ 32 ->
  exists v, GenCommon.retval (CGen.C_case_diffb.run (S (List.length a)) (GenCommon.zs a) 0 (Z.of_nat (List.length a)) (GenCommon.zs b) 0) = Some v /\
            (v = 0 <-> Constmap.case_eqb a b = true).
Proof. exact Gen_tables.gen_case_diffb_eq. Qed.
Lemma tie_generated_case_lowerb : forall s : Bytes.bytes, GenCommon.bytes_ok s -> Z.of_nat (List.length s) < 2 ^ 32 ->
  option_map (fun r => CGen.C_case_lowerb.a_s (snd r)) (CGen.C_case_lowerb.run (S (List.length s)) (GenCommon.zs s) 0 (Z.of_nat (List.length s))) = Some (GenCommon.zs (Bytes.lowers s)).
Proof. exact Gen_tables.gen_case_lowerb_eq. Qed.
(* ip_scanbracket() (the localiphost substitution: which bracketed address is recognised, which octets) as generated from
   today's ip.c and scan_ulong.c = the session model's ip_scanbracket *)
From NQ Require Smtp.Smtpd Tie.Gen_addr.
Lemma tie_generated_ip_scanbracket : forall (s : Bytes.bytes) (ip : list Z) octets rest, GenCommon.bytes_ok s -> ~ In 0%N s -> List.length ip = 4%nat -> Z.of_nat (List.length s) < 2 ^ 31 ->
  Smtpd.ip_scanbracket s = Some (octets, rest) ->
  option_map (fun r => (fst r, CGen.C_ip_scanbracket.a_ip__d (snd r))) (CGen.C_ip_scanbracket.run (S (S (List.length s))) (GenCommon.zs s ++ [0]) 0 ip)
  = Some (Z.of_nat (List.length s - List.length rest), GenCommon.zs octets).
Proof. exact Gen_addr.gen_ip_scanbracket_eq. Qed.
Lemma tie_generated_ip_scanbracket_none : forall (s : Bytes.bytes) (ip : list Z), GenCommon.bytes_ok s -> ~ In 0%N s -> List.length ip = 4%nat -> Z.of_nat (List.length s) < 2 ^ 31 ->
  Smtpd.ip_scanbracket s = None -> GenCommon.retval (CGen.C_ip_scanbracket.run (S (S (List.length s))) (GenCommon.zs s ++ [0]) 0 ip) = Some 0.
Proof. exact Gen_addr.gen_ip_scanbracket_none. Qed.
(* addrparse() of today's qmail-smtpd.c, translated to Gallina by tools/c2gallina.py (gen/CGen.v, module C_addrparse), is the model's
   addrparse - the address on which every MAIL FROM / RCPT TO decision of the session model is taken - for every argument, with
   control/localiphost absent (liphostok = 0) and present (the host's own addresses g_ipme behind the oracle stub of ipme_is()):
   same verdict (0 = syntax error / too long), same address left in the stralloc addr with its terminating NUL *)
From NQ Require Tie.Gen_addrparse.
Lemma tie_generated_addrparse_nolip : forall (g : Smtpd.scfg) (arg : Bytes.bytes) (addr0 : list Z) (len0 : Z) (ipme lh : list Z) (lhlen : Z),
  GenCommon.bytes_ok arg -> ~ In 0%N arg -> Z.of_nat (List.length arg) < 2 ^ 31 -> Smtpd.g_liphost g = None ->
  Gen_addrparse.ap_post g arg (CGen.C_addrparse.run (S (S (List.length arg))) (GenCommon.zs arg ++ [0]) 0 addr0 len0 0 ipme lh lhlen).
Proof. exact Gen_addrparse.gen_addrparse_nolip. Qed.
Lemma tie_generated_addrparse_lip : forall (g : Smtpd.scfg) (arg lh : Bytes.bytes) (addr0 : list Z) (len0 : Z),
  GenCommon.bytes_ok arg -> ~ In 0%N arg -> Z.of_nat (List.length arg) < 2 ^ 31 -> Smtpd.g_liphost g = Some lh ->
  GenCommon.bytes_ok lh -> Z.of_nat (List.length lh) < 2 ^ 31 -> Forall (fun me => List.length me = 4%nat /\ GenCommon.bytes_ok me) (Smtpd.g_ipme g) ->
  Gen_addrparse.ap_post g arg (CGen.C_addrparse.run (S (S (List.length arg))) (GenCommon.zs arg ++ [0]) 0 addr0 len0 1 (Gen_addrparse.flat (Smtpd.g_ipme g)) (GenCommon.zs lh) (Z.of_nat (List.length lh))).
Proof. exact Gen_addrparse.gen_addrparse_lip. Qed.
