(* addrparse() of qmail-smtpd.c (C08: the address every MAIL FROM / RCPT TO decision is taken on) as generated from today's
   source by tools/c2gallina.py (gen/CGen.v: C_addrparse, and K_addrparse in which every array access records in v__oob whether
   it was inside its array) = the model Smtp.Smtpd.addrparse.
   File-scope state of the C function appears as parameters of run: the stralloc addr (g_addr__s_, g_addr__len_: contents and
   length before the call - overwritten), liphostok, the stralloc liphost (g_liphost__s_, g_liphost__len_), and the host's own
   addresses g_ipme_ (four elements per address) behind the oracle stub of ipme_is().  The stralloc stubs keep a stralloc as the
   list of its len bytes; allocation never fails in them (die_nomem would end the run with -5).
   REQUIRED statements must be proved exactly as stated. *)
From Coq Require Import ZArith NArith List Lia Bool.
From NQ Require Import Base.MiniC Base.Bytes Base.CInt Smtp.Smtpd gen.CGen Tie.GenCommon Tie.GenAux Tie.Gen_numbers Tie.Gen_addr Tie.Gen_safety Tie.Gen_quote.
Import ListNotations.
Local Open Scope Z_scope.

Definition flat (l : list (list N)) : list Z := concat (map zs l).
Definition ap_post (g : scfg) (arg : bytes) (r : option (Z * C_addrparse.st)) : Prop :=
  match addrparse g arg with
  | None => retval r = Some 0
  | Some a => exists st, r = Some (1, st) /\ C_addrparse.a_addr__s st = zs a ++ [0] /\ C_addrparse.v_addr__len st = Z.of_nat (S (length a))
  end.


Ltac ap_simpl := cbv [C_addrparse.set_v_arg C_addrparse.set_v_i C_addrparse.set_v_ch C_addrparse.set_v_terminator C_addrparse.set_v_flagesc
  C_addrparse.set_v_flagquoted C_addrparse.set_v_addr__len C_addrparse.set_v_liphostok C_addrparse.set_v_liphost__len C_addrparse.set_a_arg
  C_addrparse.set_a_addr__s C_addrparse.set_a_lit1 C_addrparse.set_a_ip__d C_addrparse.set_a_ipme C_addrparse.set_a_liphost__s
  C_addrparse.v_arg C_addrparse.v_i C_addrparse.v_ch C_addrparse.v_terminator C_addrparse.v_flagesc C_addrparse.v_flagquoted
  C_addrparse.v_addr__len C_addrparse.v_liphostok C_addrparse.v_liphost__len C_addrparse.a_arg C_addrparse.a_addr__s C_addrparse.a_lit1
  C_addrparse.a_ip__d C_addrparse.a_ipme C_addrparse.a_liphost__s].
Notation AS varg i ch term esc fq alen lok lhlen aarg aaddr lit ip ipme lh :=
  {| C_addrparse.v_arg := varg; C_addrparse.v_i := i; C_addrparse.v_ch := ch; C_addrparse.v_terminator := term; C_addrparse.v_flagesc := esc;
     C_addrparse.v_flagquoted := fq; C_addrparse.v_addr__len := alen; C_addrparse.v_liphostok := lok; C_addrparse.v_liphost__len := lhlen;
     C_addrparse.a_arg := aarg; C_addrparse.a_addr__s := aaddr; C_addrparse.a_lit1 := lit; C_addrparse.a_ip__d := ip; C_addrparse.a_ipme := ipme;
     C_addrparse.a_liphost__s := lh |} (only parsing).

Lemma ap_cmpk (k : N) (c : N) : (k < 128)%N -> (c < 256)%N -> (wraps 32 (wraps 8 (Z.of_N c)) =? Z.of_N k) = (c =? k)%N.
Proof.
  intros Hk Hc.
  assert (H8 : -128 <= wraps 8 (Z.of_N c) < 128) by (rewrite wraps8_def; lia).
  rewrite wraps32_small by lia.
  destruct (N.eqb_spec c k) as [->|Hne].
  - rewrite wraps8_small by lia. apply Z.eqb_refl.
  - apply Z.eqb_neq. rewrite wraps8_def. lia.
Qed.
Lemma ap_cmp32 c : (c < 256)%N -> (wraps 32 (wraps 8 (Z.of_N c)) =? 32) = (c =? 32)%N. Proof. apply (ap_cmpk 32). reflexivity. Qed.
Lemma ap_cmp58 c : (c < 256)%N -> (wraps 32 (wraps 8 (Z.of_N c)) =? 58) = (c =? 58)%N. Proof. apply (ap_cmpk 58). reflexivity. Qed.
Lemma ap_cmp64 c : (c < 256)%N -> (wraps 32 (wraps 8 (Z.of_N c)) =? 64) = (c =? 64)%N. Proof. apply (ap_cmpk 64). reflexivity. Qed.
Lemma ap_cmp91 c : (c < 256)%N -> (wraps 32 (wraps 8 (Z.of_N c)) =? 91) = (c =? 91)%N. Proof. apply (ap_cmpk 91). reflexivity. Qed.
Lemma ap_cmp92 c : (c < 256)%N -> (wraps 32 (wraps 8 (Z.of_N c)) =? 92) = (c =? 92)%N. Proof. apply (ap_cmpk 92). reflexivity. Qed.
Lemma ap_cmp34 c : (c < 256)%N -> (wraps 32 (wraps 8 (Z.of_N c)) =? 34) = (c =? 34)%N. Proof. apply (ap_cmpk 34). reflexivity. Qed.
Lemma ap_nul c : (c < 256)%N -> (wraps 8 (Z.of_N c) =? 0) = (c =? 0)%N.
Proof.
  intros Hc. destruct (N.eqb_spec c 0) as [->|Hne]; [reflexivity|].
  apply Z.eqb_neq. rewrite wraps8_def. lia.
Qed.


Lemma ap_in_skipn (arg : bytes) q c r : bytes_ok arg -> skipn q arg = c :: r -> (c < 256)%N /\ (q < length arg)%nat /\ skipn (S q) arg = r.
Proof.
  intros Hok E. split; [apply (bytes_ok_in arg c Hok), (in_skipn _ _ _ _ E)|].
  split; [exact (skipn_cons_lt _ _ _ _ E)|exact (skipn_S_tl _ _ _ _ E)].
Qed.
Lemma ap_nonul (arg : bytes) q c r : ~ In 0%N arg -> skipn q arg = c :: r -> (c =? 0)%N = false.
Proof. intros Hn E. apply N.eqb_neq. intros ->. apply Hn, (in_skipn _ _ _ _ E). Qed.

Lemma ap_loop1 (f0 : nat) (arg : bytes) (i ch term esc fq alen lok lhlen : Z) (aaddr lit ip ipme lh : list Z) :
  bytes_ok arg ->
  forall fuel q, (q <= length arg)%nat -> (length arg - q < fuel)%nat ->
  exists q', C_addrparse.loop1 f0 fuel (AS (Z.of_nat q) i ch term esc fq alen lok lhlen (zs arg ++ [0]) aaddr lit ip ipme lh)
   = ONormal (AS (Z.of_nat q') i ch term esc fq alen lok lhlen (zs arg ++ [0]) aaddr lit ip ipme lh)
   /\ skipn q' arg = drop_sp (skipn q arg) /\ (q' <= length arg)%nat.
Proof.
  intros Hok. induction fuel as [|f IH]; intros q Hq Hf; [lia|].
  cbn [C_addrparse.loop1]. ap_simpl. rewrite (rd_skipn arg q Hq), b2z_if.
  destruct (skipn q arg) as [|c r] eqn:E; cbn [hd drop_sp].
  - change (wraps 32 (wraps 8 (Z.of_N 0)) =? 32) with false. cbv iota. exists q. rewrite E. auto.
  - destruct (ap_in_skipn arg q c r Hok E) as (Hc & Hlt & E').
    rewrite (ap_cmp32 c Hc). destruct (c =? 32)%N.
    + replace (Z.of_nat q + 1) with (Z.of_nat (S q)) by lia.
      destruct (IH (S q) ltac:(lia) ltac:(lia)) as (q' & Hl & Hs & Hq'). exists q'. rewrite Hl, Hs, E'. auto.
    + exists q. rewrite E. auto.
Qed.

Lemma ap_loop2 (f0 : nat) (arg : bytes) (i ch term esc fq alen lok lhlen : Z) (aaddr lit ip ipme lh : list Z) :
  bytes_ok arg -> ~ In 0%N arg ->
  forall fuel q, (q <= length arg)%nat -> (length arg - q < fuel)%nat ->
  exists q', C_addrparse.loop2 f0 fuel (AS (Z.of_nat q) i ch term esc fq alen lok lhlen (zs arg ++ [0]) aaddr lit ip ipme lh)
   = ONormal (AS (Z.of_nat q') i ch term esc fq alen lok lhlen (zs arg ++ [0]) aaddr lit ip ipme lh)
   /\ skipn q' arg = skip_route (skipn q arg) /\ (q' <= length arg)%nat.
Proof.
  intros Hok Hnn. induction fuel as [|f IH]; intros q Hq Hf; [lia|].
  cbn [C_addrparse.loop2]. ap_simpl. rewrite (rd_skipn arg q Hq).
  destruct (skipn q arg) as [|c r] eqn:E; cbn [hd skip_route].
  - change (wraps 8 (Z.of_N 0) =? 0) with true. cbv iota. exists q. rewrite E. auto.
  - destruct (ap_in_skipn arg q c r Hok E) as (Hc & Hlt & E').
    rewrite (ap_nul c Hc), (ap_nonul arg q c r Hnn E), b2z_if. cbv iota.
    rewrite (ap_cmp58 c Hc).
    replace (Z.of_nat q + 1) with (Z.of_nat (S q)) by lia.
    destruct (c =? 58)%N.
    + exists (S q). rewrite E'. split; [reflexivity|]. split; [reflexivity|lia].
    + destruct (IH (S q) ltac:(lia) ltac:(lia)) as (q' & Hl & Hs & Hq'). exists q'. rewrite Hl, Hs, E'. auto.
Qed.
Lemma ap_append (out : bytes) (c : N) : (c < 256)%N ->
  firstn (Z.to_nat (Z.of_nat (length out))) (zs out) ++ [wrapu 8 (wraps 8 (Z.of_N c))] = zs (out ++ [c]).
Proof.
  intros Hc. rewrite Nat2Z.id, <- (zs_length out), firstn_all, (qd_back c Hc), zs_app. reflexivity.
Qed.
Lemma obind_break {S} (s : S) f : obind (OBreak s) f = OBreak s. Proof. reflexivity. Qed.

Ltac ap_consts := repeat (progress (cbn [b2z negb]; change (0 =? 0) with true; change (1 =? 0) with false)); cbv iota.
Ltac ap_on := first [rewrite obind_normal; cbv beta; ap_simpl | rewrite obind_return | rewrite obind_break]; ap_consts.
Ltac ap_go := ap_consts; repeat ap_on.

Lemma ap_loop3 (f0 : nat) (arg : bytes) (p : nat) (term : N) (lok lhlen : Z) (lit ip ipme lh : list Z) :
  bytes_ok arg -> ~ In 0%N arg -> Z.of_nat (length arg) < 2147483648 -> (term < 128)%N ->
  forall fuel k (esc fq : bool) (out : bytes) ch, (p + k <= length arg)%nat -> (length arg - (p + k) < fuel)%nat -> (length out <= k)%nat ->
  exists i' ch' esc' fq',
  C_addrparse.loop3 f0 fuel (AS (Z.of_nat p) (Z.of_nat k) ch (Z.of_N term) (b2z esc) (b2z fq) (Z.of_nat (length out)) lok lhlen (zs arg ++ [0]) (zs out) lit ip ipme lh)
  = ONormal (AS (Z.of_nat p) i' ch' (Z.of_N term) esc' fq' (Z.of_nat (length (out ++ copy_addr (skipn (p + k) arg) term esc fq))) lok lhlen (zs arg ++ [0])
       (zs (out ++ copy_addr (skipn (p + k) arg) term esc fq)) lit ip ipme lh).
Proof.
  intros Hok Hnn Hlen Hterm. induction fuel as [|f IH]; intros k esc fq out ch Hk Hf Hout; [lia|].
  cbn [C_addrparse.loop3]. ap_simpl.
  replace (Z.of_nat p + Z.of_nat k) with (Z.of_nat (p + k)) by lia.
  rewrite (rd_skipn arg (p + k) Hk).
  destruct (skipn (p + k) arg) as [|c r] eqn:E; cbn [hd copy_addr].
  - change (wraps 8 (Z.of_N 0) =? 0) with true. cbv iota. rewrite app_nil_r. do 4 eexists. reflexivity.
  - destruct (ap_in_skipn arg (p + k) c r Hok E) as (Hc & Hlt & E').
    rewrite (ap_nul c Hc), (ap_nonul arg (p + k) c r Hnn E). cbv iota.
    assert (Hi : wraps 32 (Z.of_nat k + 1) = Z.of_nat (S k)) by (rewrite wraps32_small; lia).
    assert (Hl : wrapu 32 (Z.of_nat (length out) + 1) = Z.of_nat (length (out ++ [c]))).
    { rewrite app_length. cbn [length]. rewrite wrapu32_small; lia. }
    assert (Hr : skipn (p + S k) arg = r) by (rewrite Nat.add_succ_r; exact E').
    rewrite (wraps32_small (Z.of_N term)) by lia. rewrite ?(ap_cmpk term c Hterm Hc), ?(ap_cmp92 c Hc), ?(ap_cmp34 c Hc).
    rewrite ?(ap_append out c Hc), ?Hl.
    assert (Hfin : forall (e q : bool) (o : bytes) (tl : bytes), (length o <= S k)%nat -> out ++ tl = o ++ copy_addr r term e q ->
      exists i' ch' esc' fq',
      C_addrparse.loop3 f0 f (AS (Z.of_nat p) (Z.of_nat (S k)) (wraps 8 (Z.of_N c)) (Z.of_N term) (b2z e) (b2z q) (Z.of_nat (length o)) lok lhlen (zs arg ++ [0]) (zs o) lit ip ipme lh)
      = ONormal (AS (Z.of_nat p) i' ch' (Z.of_N term) esc' fq' (Z.of_nat (length (out ++ tl))) lok lhlen (zs arg ++ [0]) (zs (out ++ tl)) lit ip ipme lh)).
    { intros e q o tl Ho Etl. destruct (IH (S k) e q o (wraps 8 (Z.of_N c))) as (i' & ch' & esc' & fq' & HL); [lia|lia|exact Ho|].
      rewrite HL, Hr, Etl. do 4 eexists. reflexivity. }
    assert (Ho1 : (length (out ++ [c]) <= S k)%nat) by (rewrite app_length; cbn [length]; lia).
    destruct esc.
    + ap_go. ap_simpl. rewrite Hi. apply (Hfin false fq); [exact Ho1|rewrite <- app_assoc; reflexivity].
    + destruct fq; cbn [negb andb]; ap_go.
      * rewrite (ap_cmp92 c Hc), (ap_cmp34 c Hc).
        destruct (c =? 92)%N; [|destruct (c =? 34)%N]; ap_go; ap_simpl; rewrite ?(ap_append out c Hc), ?Hl, Hi.
        -- apply (Hfin true true); [lia|reflexivity].
        -- apply (Hfin false false); [lia|reflexivity].
        -- apply (Hfin false true); [exact Ho1|rewrite <- app_assoc; reflexivity].
      * destruct (c =? term)%N; ap_go.
        -- rewrite app_nil_r. do 4 eexists. reflexivity.
        -- rewrite (ap_cmp92 c Hc), (ap_cmp34 c Hc).
           destruct (c =? 92)%N; [|destruct (c =? 34)%N]; ap_go; ap_simpl; rewrite ?(ap_append out c Hc), ?Hl, Hi.
           ++ apply (Hfin true false); [lia|reflexivity].
           ++ apply (Hfin false true); [lia|reflexivity].
           ++ apply (Hfin false false); [exact Ho1|rewrite <- app_assoc; reflexivity].
Qed.

(* ---------- the callees as addrparse calls them ---------- *)
Lemma ap_str_chr (F : nat) (arg : bytes) (c : N) :
  bytes_ok arg -> ~ In 0%N arg -> (0 < c < 256)%N -> Z.of_nat (length arg) < 2147483648 -> (length arg < F)%nat ->
  exists t, C_str_chr.run F (zs arg ++ [0]) 0 (Z.of_N c) = Some (Z.of_nat (first_index c arg), t) /\ C_str_chr.a_s t = zs arg ++ [0].
Proof.
  intros Hs Hnul Hc Hlen HF.
  unfold C_str_chr.run, C_str_chr.body. sc_simpl.
  assert (Ha : forall i, 0 <= rd (zs arg ++ [0]) i < 256).
  { apply rd_range. apply Forall_app. split; [now apply zs_ok|]. constructor; [lia|constructor]. }
  assert (He : rd (zs arg ++ [0]) (Z.of_nat (length arg)) = 0).
  { rewrite <- (zs_length arg). apply rd_at_len. }
  rewrite (sc_loop (zs arg ++ [0]) (Z.of_N c) (Z.of_nat (length arg)) F 0 (Z.of_N c) Ha ltac:(lia) He
            F (length arg) 0 ltac:(lia) ltac:(lia)).
  - cbn [obind]. sc_simpl.
    pose proof (zfind_first_index c arg [] [0]) as Hz. cbn [app length Z.of_nat] in Hz.
    rewrite Hz. cbn [Nat.add]. rewrite Z.sub_0_r, wrapu32_small by (pose proof (first_index_le c arg); lia).
    eexists. split; reflexivity.
  - intros j Hj. replace j with (Z.of_nat (Z.to_nat j)) by lia.
    rewrite rd_nat, app_nth1 by (rewrite zs_length; lia).
    rewrite <- rd_nat, rd_zs. intros E.
    apply Hnul. replace 0%N with (nth (Z.to_nat j) arg 0%N) by lia. apply nth_In. lia.
Qed.

Lemma first_index_chr c s : first_index c s = match chr_opt s c with Some i => i | None => length s end.
Proof.
  induction s as [|x s IH]; [reflexivity|]. cbn [first_index chr_opt length].
  destruct (x =? c)%N; [reflexivity|]. rewrite IH. destruct (chr_opt s c); reflexivity.
Qed.
Lemma chr_opt_lt s c i : chr_opt s c = Some i -> (i < length s)%nat.
Proof.
  revert i. induction s as [|x s IH]; intros i; cbn [chr_opt length]; [discriminate|].
  destruct (x =? c)%N; [intros E; injection E as <-; lia|].
  destruct (chr_opt s c) as [j|]; [|discriminate]. cbn [option_map]. intros E; injection E as <-. specialize (IH j eq_refl). lia.
Qed.
Lemma chr_opt_nth s c i : chr_opt s c = Some i -> hd 0%N (skipn i s) = c.
Proof.
  revert i. induction s as [|x s IH]; intros i; cbn [chr_opt]; [discriminate|].
  destruct (N.eqb_spec x c) as [->|_]; [intros E; injection E as <-; reflexivity|].
  destruct (chr_opt s c) as [j|]; [|discriminate]. cbn [option_map]. intros E; injection E as <-. cbn [skipn]. apply IH. reflexivity.
Qed.

Lemma rchr_opt_snoc s x c : (x =? c)%N = false -> rchr_opt (s ++ [x]) c = rchr_opt s c.
Proof.
  intros Hx. induction s as [|y s IH]; cbn [app rchr_opt]; [rewrite Hx; reflexivity|]. rewrite IH. reflexivity.
Qed.

Lemma ap_byte_rchr (F : nat) (s : bytes) :
  bytes_ok s -> Z.of_nat (length s) < 2147483648 -> (S (length s) < F)%nat ->
  exists t, C_byte_rchr.run F (zs s ++ [0]) 0 (Z.of_nat (S (length s))) 64
    = Some (Z.of_nat (match rchr_opt s 64 with Some i => i | None => S (length s) end), t) /\ C_byte_rchr.a_s t = zs s ++ [0].
Proof.
  intros Hs Hlen HF.
  unfold C_byte_rchr.run, C_byte_rchr.body. br_simpl.
  assert (Ha : forall i, 0 <= rd (zs s ++ [0]) i < 256).
  { apply rd_range. apply Forall_app. split; [now apply zs_ok|]. constructor; [lia|constructor]. }
  destruct (br_loop (zs s ++ [0]) 64 F 0 64 Ha ltac:(lia) F (S (length s)) 0 (-1) ltac:(lia) ltac:(lia)) as (n' & t' & Hl & Ht').
  rewrite Hl. cbn [obind]. br_simpl.
  pose proof (zrfind_rchr 64 (s ++ [0%N]) [] [] (-1)) as Hz. cbn [app length Z.of_nat] in Hz. rewrite app_nil_r in Hz.
  rewrite zs_app, app_length in Hz. cbn [length zs map] in Hz. change (Z.of_N 0) with 0 in Hz. change (Z.of_N 64) with 64 in Hz.
  replace (length s + 1)%nat with (S (length s)) in Hz by lia.
  change (NQ.Send.Route.rchr_opt (s ++ [0%N]) 64) with (rchr_opt (s ++ [0%N]) 64) in Hz.
  rewrite Hz, rchr_opt_snoc by reflexivity. rewrite b2z_if.
  destruct (rchr_opt s 64) as [i|] eqn:Er.
  - apply rchr_opt_lt in Er. cbn [Nat.add].
    destruct (Z.eqb_spec (Z.of_nat i) (-1)) as [E|_]; [lia|].
    cbn [obind]. br_simpl. rewrite Z.sub_0_r, wrapu32_small by lia. eexists. split; reflexivity.
  - change (-1 =? -1) with true. cbv iota. cbn [obind]. br_simpl. subst t'. rewrite Z.sub_0_r, Z.add_0_l, wrapu32_small by lia.
    eexists. split; reflexivity.
Qed.

(* ---------- ip_scanbracket started inside the string ---------- *)
Definition ip_br_at (s : bytes) (p : nat) : option (list N * bytes) :=
  match skipn p s with
  | [] => None
  | c :: _ => if negb (c =? 91)%N then None else br_close s (ip_off s (S p))
  end.

Lemma ip_scanbracket_at (s : bytes) (p : nat) : ip_scanbracket (skipn p s) = ip_br_at s p.
Proof.
  unfold ip_br_at. destruct (skipn p s) as [|c stl] eqn:E; [reflexivity|]. unfold ip_scanbracket, ip_off.
  destruct (negb (c =? 91)%N); [reflexivity|].
  rewrite <- (skipn_S_tl p s c stl E).
  apply (oct_sim s (S p) _ _ (br_close s)); [reflexivity|intros a q1].
  apply (dot_sim s q1 _ _ (br_close s)); [reflexivity|intros q1'].
  apply (oct_sim s q1' _ _ (br_close s)); [reflexivity|intros b q2].
  apply (dot_sim s q2 _ _ (br_close s)); [reflexivity|intros q2'].
  apply (oct_sim s q2' _ _ (br_close s)); [reflexivity|intros cc q3].
  apply (dot_sim s q3 _ _ (br_close s)); [reflexivity|intros q3'].
  apply (oct_sim s q3' _ _ (br_close s)); [reflexivity|intros d q4].
  reflexivity.
Qed.

Lemma ap_ip_scanbracket (F : nat) (s : bytes) (p : nat) (ip : list Z) :
  bytes_ok s -> length ip = 4%nat -> Z.of_nat (length s) < 2147483648 -> (p < length s)%nat -> (length s < F)%nat ->
  exists v t, C_ip_scanbracket.run F (zs s ++ [0]) (Z.of_nat p) ip = Some (v, t) /\ C_ip_scanbracket.a_s t = zs s ++ [0] /\
    match ip_scanbracket (skipn p s) with
    | None => v = 0
    | Some (o, rest) => exists q, v = Z.of_nat (q - p) /\ (p < q <= length s)%nat /\ skipn q s = rest /\ C_ip_scanbracket.a_ip__d t = zs o
    end.
Proof.
  intros Hs Hip Hlen Hp Hfuel. rewrite ip_scanbracket_at.
  unfold C_ip_scanbracket.run, C_ip_scanbracket.body. ib_simpl.
  rewrite (rd_skipn s p) by lia. unfold ip_br_at.
  destruct (skipn p s) as [|c stl] eqn:Ec; cbn [hd].
  - change (wraps 32 (wraps 8 (Z.of_N 0)) =? 91) with false. cbn [negb b2z]. change (1 =? 0) with false. cbv iota.
    rewrite obind_return. do 2 eexists. split; [reflexivity|]. ib_simpl. split; reflexivity.
  - assert (Hc : (c < 256)%N) by (apply (bytes_ok_in s c Hs); exact (in_skipn _ _ _ _ Ec)).
    rewrite (cmp_lbr c Hc). destruct (c =? 91)%N; cbn [negb b2z].
    2:{ change (1 =? 0) with false. cbv iota. rewrite obind_return. do 2 eexists. split; [reflexivity|]. ib_simpl. split; reflexivity. }
    change (0 =? 0) with true. cbv iota. rewrite obind_normal. ib_simpl.
    replace (Z.of_nat p + 1) with (Z.of_nat (S p)) by lia.
    destruct (ip_scan_run_ex F s (S p) ip Hs Hlen ltac:(lia) Hfuel Hip) as (v & t & Hrun & Has & Hm).
    rewrite Hrun. cbv beta iota. ib_simpl. rewrite Has.
    destruct (ip_off s (S p)) as [[o q]|]; unfold br_close.
    + destruct Hm as (Hv & Hd & Hq). rewrite Hd.
      assert (Hvz : (v =? 0) = false) by (apply Z.eqb_neq; lia). rewrite Hvz. cbn [b2z]. change (0 =? 0) with true. cbv iota.
      rewrite obind_normal. ib_simpl.
      replace (Z.of_nat p + wrapu 32 (v + wrapu 32 1)) with (Z.of_nat q).
      2:{ change (wrapu 32 1) with 1. rewrite wrapu32_small; lia. }
      rewrite (rd_skipn s q) by lia.
      destruct (skipn q s) as [|e rest] eqn:Esk; cbn [hd].
      * change (wraps 32 (wraps 8 (Z.of_N 0)) =? 93) with false. cbn [negb b2z]. change (1 =? 0) with false. cbv iota.
        rewrite obind_return. do 2 eexists. split; [reflexivity|]. ib_simpl. split; reflexivity.
      * assert (He : (e < 256)%N) by (apply (bytes_ok_in s e Hs); exact (in_skipn _ _ _ _ Esk)).
        rewrite (cmp_rbr e He). destruct (e =? 93)%N; cbn [negb b2z].
        2:{ change (1 =? 0) with false. cbv iota. rewrite obind_return. do 2 eexists. split; [reflexivity|]. ib_simpl. split; reflexivity. }
        change (0 =? 0) with true. cbv iota. rewrite obind_normal. ib_simpl.
        do 2 eexists. split; [reflexivity|]. ib_simpl. split; [reflexivity|].
        pose proof (skipn_cons_lt _ _ _ _ Esk) as Hql.
        exists (S q). split; [|split; [lia|split; [exact (skipn_S_tl _ _ _ _ Esk)|reflexivity]]].
        change (wrapu 32 2) with 2. rewrite wrapu32_small; lia.
    + subst v. change (0 =? 0) with true. cbn [b2z]. change (1 =? 0) with false. cbv iota.
      rewrite obind_return. do 2 eexists. split; [reflexivity|]. ib_simpl. split; reflexivity.
Qed.

(* ---------- the oracle of ipme_is ---------- *)
Lemma ofN_eqb a b : (Z.of_N a =? Z.of_N b) = (b =? a)%N.
Proof.
  destruct (N.eqb_spec b a) as [->|Hne]; [apply Z.eqb_refl|]. apply Z.eqb_neq. intros E. apply N2Z.inj in E. congruence.
Qed.
Lemma ipme_mem_flat (o : list N) (l : list (list N)) : length o = 4%nat -> Forall (fun me => length me = 4%nat /\ bytes_ok me) l ->
  ipme_mem (zs o) (flat l) = existsb (fun me => beq me o) l.
Proof.
  intros Ho Hl. destruct o as [|o0 [|o1 [|o2 [|o3 [|? ?]]]]]; try discriminate Ho. clear Ho.
  induction l as [|me l IH]; [reflexivity|].
  inversion Hl as [|? ? [Hme _] Hl']; subst.
  destruct me as [|m0 [|m1 [|m2 [|m3 [|? ?]]]]]; try discriminate Hme.
  change (flat ([m0; m1; m2; m3] :: l)) with (Z.of_N m0 :: Z.of_N m1 :: Z.of_N m2 :: Z.of_N m3 :: flat l).
  specialize (IH Hl'). cbn [zs map] in IH |- *. cbn [ipme_mem existsb beq]. rewrite !ofN_eqb.
  rewrite IH. rewrite andb_true_r, !andb_assoc. reflexivity.
Qed.
Lemma ip_scanbracket_len4 s o r : ip_scanbracket s = Some (o, r) -> length o = 4%nat.
Proof.
  unfold ip_scanbracket, scan_dot.
  repeat (match goal with |- context [match ?x with _ => _ end] => destruct x end; try discriminate).
  intros E; injection E as <- _; reflexivity.
Qed.
Lemma copy_addr_len s t e q : (length (copy_addr s t e q) <= length s)%nat.
Proof.
  revert e q. induction s as [|c s IH]; intros e q; cbn [copy_addr length]; [lia|].
  destruct e; [specialize (IH false q); cbn [length]; lia|].
  destruct (negb q && (c =? t)%N); [cbn [length]; lia|].
  destruct (c =? 92)%N; [specialize (IH true q); lia|].
  destruct (c =? 34)%N; [specialize (IH false (negb q)); lia|].
  specialize (IH false q); cbn [length]; lia.
Qed.
Lemma copy_addr_in s t e q x : In x (copy_addr s t e q) -> In x s.
Proof.
  revert e q. induction s as [|c s IH]; intros e q; cbn [copy_addr]; [tauto|].
  destruct e; [intros [->|H]; [now left|right; exact (IH _ _ H)]|].
  destruct (negb q && (c =? t)%N); [intros []|].
  destruct (c =? 92)%N; [intros H; right; exact (IH _ _ H)|].
  destruct (c =? 34)%N; [intros H; right; exact (IH _ _ H)|].
  intros [->|H]; [now left|right; exact (IH _ _ H)].
Qed.

Lemma ap_cat (addr l : bytes) i : (S i <= length addr)%nat ->
  firstn (Z.to_nat (Z.of_nat (S i))) (zs addr ++ [0]) ++ firstn (Z.to_nat (Z.of_nat (length l))) (zs l) = zs (firstn (S i) addr ++ l).
Proof.
  intros Hi. rewrite !Nat2Z.id, firstn_app, zs_length. replace (S i - length addr)%nat with 0%nat by lia.
  rewrite firstn_O, app_nil_r. rewrite <- (zs_length l), firstn_all. rewrite zs_app. f_equal. apply firstn_map.
Qed.

(* the continuations are kept out of sight while the current statement is reduced; the let-bound states inside them stay
   folded until the continuation is entered (reduction by value then keeps every state a record of small fields) *)
Ltac hide_all := repeat match goal with |- context [obind _ ?k] =>
  lazymatch k with (fun _ => _) => let K := fresh "K" in set (K := k) end end.
Ltac show_next := match goal with |- context [obind (ONormal ?S) ?K] => is_var K; rewrite (obind_normal S K); subst K; cbv beta; hide_all end.

Lemma if_t {A} (c : bool) (a b : A) : c = true -> (if c then a else b) = a. Proof. intros ->. reflexivity. Qed.
Lemma if_f {A} (c : bool) (a b : A) : c = false -> (if c then a else b) = b. Proof. intros ->. reflexivity. Qed.
Lemma ifz_t {A} (c : bool) (a b : A) : c = false -> (if b2z c =? 0 then a else b) = a. Proof. intros ->. reflexivity. Qed.
Lemma ifz_f {A} (c : bool) (a b : A) : c = true -> (if b2z c =? 0 then a else b) = b. Proof. intros ->. reflexivity. Qed.

Lemma ex_eq {S} (x y : outcome S) (P : S -> Prop) : x = y -> (exists s, y = ONormal s /\ P s) -> (exists s, x = ONormal s /\ P s).
Proof. intros ->. auto. Qed.

Definition ap_cfg (g : scfg) (lok : Z) (ipme lh : list Z) (lhlen : Z) : Prop :=
  match g_liphost g with
  | None => lok = 0
  | Some l => lok = 1 /\ lh = zs l /\ lhlen = Z.of_nat (length l) /\ bytes_ok l /\ Z.of_nat (length l) < 2147483648 /\
              ipme = flat (g_ipme g) /\ Forall (fun me => length me = 4%nat /\ bytes_ok me) (g_ipme g)
  end.

(* the model in stages *)
Definition ap_pre (arg : bytes) : N * bytes :=
  match chr_opt arg 60 with
  | Some i => (62, skipn (S i) arg)
  | None => let a := match chr_opt arg 58 with Some k => skipn (S k) arg | None => [] end in (32, drop_sp a)
  end%N.
Definition ap_a2 (a1 : bytes) : bytes := match a1 with c :: _ => if (c =? ATc)%N then skip_route a1 else a1 | [] => a1 end.
Definition ap_lip (g : scfg) (addr : bytes) : bytes :=
  match g_liphost g with
  | None => addr
  | Some lh =>
      match rchr_opt addr ATc with
      | None => addr
      | Some i =>
        match ip_scanbracket (skipn (S i) addr) with
        | Some (ip, []) => if existsb (fun me => beq me ip) (g_ipme g) then firstn (S i) addr ++ lh else addr
        | _ => addr
        end
      end
  end.
Lemma addrparse_stages g arg : addrparse g arg =
  let addr := ap_lip g (copy_addr (ap_a2 (snd (ap_pre arg))) (fst (ap_pre arg)) false false) in
  if Nat.ltb 900 (S (length addr)) then None else Some addr.
Proof. unfold addrparse, ap_pre. destruct (chr_opt arg 60); reflexivity. Qed.

Ltac ap_fin := eexists; split; [reflexivity|]; ap_simpl; split; reflexivity.

Lemma ap_run (g : scfg) (arg : bytes) (addr0 : list Z) (len0 lok : Z) (ipme lh : list Z) (lhlen : Z) (F : nat) :
  bytes_ok arg -> ~ In 0%N arg -> Z.of_nat (length arg) < 2147483648 -> (S (length arg) < F)%nat ->
  ap_cfg g lok ipme lh lhlen ->
  ap_post g arg (C_addrparse.run F (zs arg ++ [0]) 0 addr0 len0 lok ipme lh lhlen).
Proof.
  intros Hok Hnn Hlen HF Hcfg.
  cbv beta delta [C_addrparse.run C_addrparse.body]. hide_all.
  destruct (ap_str_chr F arg 60 Hok Hnn ltac:(lia) Hlen ltac:(lia)) as (t1 & Hrun1 & Has1).
  destruct (ap_str_chr F arg 58 Hok Hnn ltac:(lia) Hlen ltac:(lia)) as (t2 & Hrun2 & Has2).
  change (Z.of_N 60) with 60 in Hrun1. change (Z.of_N 58) with 58 in Hrun2.
  ap_simpl. rewrite Hrun1. ap_simpl. rewrite ?Has1. rewrite Hrun2. ap_simpl. rewrite ?Has2.
  change (wraps 8 32) with 32. change (wraps 8 62) with 62.
  pose proof (first_index_le 60 arg) as Hfi60. pose proof (first_index_le 58 arg) as Hfi58.
  rewrite !Z.add_0_l. rewrite (wraps32_small (Z.of_nat (first_index 60 arg))) by lia.
  match goal with |- context [obind ?X K] =>
    assert (H1 : exists p i, (p <= length arg)%nat /\ skipn p arg = snd (ap_pre arg) /\ (fst (ap_pre arg) < 128)%N /\
      X = ONormal (AS (Z.of_nat p) i 0 (Z.of_N (fst (ap_pre arg))) 0 0 len0 lok lhlen (zs arg ++ [0]) addr0 [0] (repeat 0 4) ipme lh)) end.
  { unfold ap_pre. rewrite (rd_skipn arg (first_index 60 arg) Hfi60), (rd_skipn arg (first_index 58 arg) Hfi58).
    rewrite (first_index_chr 60 arg). destruct (chr_opt arg 60) as [i|] eqn:E60.
    - pose proof (chr_opt_lt _ _ _ E60) as Hi. pose proof (chr_opt_nth _ _ _ E60) as Hh. rewrite Hh.
      change (wraps 8 (Z.of_N 60) =? 0) with false. cbv iota.
      exists (S i), (Z.of_nat i). split; [lia|]. split; [reflexivity|]. split; [reflexivity|].
      rewrite wraps32_small by lia. do 2 f_equal. lia.
    - rewrite skipn_all. cbn [hd]. change (wraps 8 (Z.of_N 0) =? 0) with true. cbv iota.
      rewrite (first_index_chr 58 arg). destruct (chr_opt arg 58) as [k|] eqn:E58.
      + pose proof (chr_opt_lt _ _ _ E58) as Hk. pose proof (chr_opt_nth _ _ _ E58) as Hh. rewrite Hh.
        change (wraps 32 (wraps 8 (Z.of_N 58)) =? 58) with true. cbn [b2z]. change (1 =? 0) with false. cbv iota.
        subst K0. rewrite obind_normal. replace (Z.of_nat k + 1) with (Z.of_nat (S k)) by lia.
        destruct (ap_loop1 F arg (Z.of_nat (length arg)) 0 32 0 0 len0 lok lhlen addr0 [0] (repeat 0 4) ipme lh Hok F (S k) ltac:(lia) ltac:(lia))
          as (q' & HL & Hs & Hq').
        rewrite HL. exists q', (Z.of_nat (length arg)). cbn [fst snd]. split; [exact Hq'|]. split; [exact Hs|]. split; reflexivity.
      + rewrite skipn_all. cbn [hd]. change (wraps 32 (wraps 8 (Z.of_N 0)) =? 58) with false. cbn [b2z]. change (0 =? 0) with true. cbv iota.
        subst K0. rewrite obind_normal.
        destruct (ap_loop1 F arg (Z.of_nat (length arg)) 0 32 0 0 len0 lok lhlen addr0 [0] (repeat 0 4) ipme lh Hok F (length arg) ltac:(lia) ltac:(lia))
          as (q' & HL & Hs & Hq').
        rewrite HL. exists q', (Z.of_nat (length arg)). cbn [fst snd]. rewrite skipn_all in Hs. cbn [drop_sp] in *. split; [exact Hq'|]. split; [exact Hs|]. split; reflexivity. }
  destruct H1 as (p & i1 & Hp & Ea1 & Hterm & H1). rewrite H1. clear H1 Hrun1 Hrun2 Has1 Has2 t1 t2. try clear K0.
  remember (fst (ap_pre arg)) as term eqn:Eterm. remember (snd (ap_pre arg)) as a1 eqn:Ea1'.
  show_next. ap_simpl.
  match goal with |- context [obind ?X K] =>
    assert (H2 : exists p2, (p2 <= length arg)%nat /\ skipn p2 arg = ap_a2 a1 /\
      X = ONormal (AS (Z.of_nat p2) i1 0 (Z.of_N term) 0 0 len0 lok lhlen (zs arg ++ [0]) addr0 [0] (repeat 0 4) ipme lh)) end.
  { rewrite (rd_skipn arg p Hp), b2z_if, Ea1. unfold ap_a2. destruct a1 as [|c r]; cbn [hd].
    - change (wraps 32 (wraps 8 (Z.of_N 0)) =? 64) with false. cbv iota. exists p. auto.
    - destruct (ap_in_skipn arg p c r Hok Ea1) as (Hc & Hlt & E').
      rewrite (ap_cmp64 c Hc). unfold ATc. destruct (c =? 64)%N.
      + destruct (ap_loop2 F arg i1 0 (Z.of_N term) 0 0 len0 lok lhlen addr0 [0] (repeat 0 4) ipme lh Hok Hnn F p Hp ltac:(lia)) as (q' & HL & Hs & Hq').
        rewrite HL. exists q'. rewrite Ea1 in Hs. auto.
      + exists p. auto. }
  destruct H2 as (p2 & Hp2 & Ea2 & H2). rewrite H2. clear H2.
  show_next. ap_simpl.
  change (removelast [0]) with (@nil Z). change (alen []) with 0. ap_consts.
  show_next. ap_simpl.
  subst K0. rewrite obind_normal.
  destruct (ap_loop3 F arg p2 term lok lhlen [0] (repeat 0 4) ipme lh Hok Hnn Hlen Hterm F 0%nat false false [] 0)
    as (i3 & ch3 & esc3 & fq3 & HL3); [lia|lia|apply le_n|].
  rewrite Nat.add_0_r, Ea2 in HL3. cbn [b2z length Z.of_nat app] in HL3. change (zs []) with (@nil Z) in HL3. rewrite HL3. clear HL3.
  remember (copy_addr (ap_a2 a1) term false false) as addr eqn:Eaddr.
  assert (Hal : (length addr <= length arg)%nat).
  { subst addr. pose proof (copy_addr_len (ap_a2 a1) term false false) as H.
    assert (H' : (length (ap_a2 a1) <= length arg)%nat) by (rewrite <- Ea2, skipn_length; lia). lia. }
  assert (Han : ~ In 0%N addr).
  { subst addr. intros H. apply copy_addr_in in H. rewrite <- Ea2 in H. apply Hnn.
    rewrite <- (firstn_skipn p2 arg). apply in_or_app. right. exact H. }
  assert (Hao : bytes_ok addr).
  { subst addr. unfold bytes_ok. rewrite Forall_forall. intros x H. apply copy_addr_in in H. rewrite <- Ea2 in H.
    apply (bytes_ok_in arg x Hok). rewrite <- (firstn_skipn p2 arg). apply in_or_app. right. exact H. }
  show_next. ap_simpl.
  rewrite Nat2Z.id, <- (zs_length addr), firstn_all, zs_length. change (wrapu 8 (rd [0] 0)) with 0.
  replace (wrapu 32 (Z.of_nat (length addr) + 1)) with (Z.of_nat (S (length addr))) by (rewrite wrapu32_small; lia).
  ap_consts. show_next.
  match goal with |- context [obind ?X K] =>
    assert (H5 : exists s5, X = ONormal s5 /\ C_addrparse.a_addr__s s5 = zs (ap_lip g addr) ++ [0] /\
                            C_addrparse.v_addr__len s5 = Z.of_nat (S (length (ap_lip g addr)))) end.
  { unfold ap_cfg in Hcfg. unfold ap_lip. destruct (g_liphost g) as [l|].
    2:{ eapply ex_eq; [apply if_t; ap_simpl; rewrite Hcfg; reflexivity|]. ap_fin. }
    destruct Hcfg as (Hlok & Hlh & Hlhlen & Hlb & Hll & Hipme & Hme).
    eapply ex_eq; [apply if_f; ap_simpl; rewrite Hlok; reflexivity|].
    destruct (ap_byte_rchr F addr Hao ltac:(lia) ltac:(lia)) as (t5 & Hrun5 & Has5).
    match goal with |- context [C_byte_rchr.run F ?a 0 ?n 64] =>
      change (C_byte_rchr.run F a 0 n 64) with (C_byte_rchr.run F (zs addr ++ [0]) 0 (Z.of_nat (S (length addr))) 64) end.
    unfold ATc. destruct (rchr_opt addr 64) as [i|] eqn:Er; rewrite Hrun5; clear Hrun5; cbv beta zeta.
    2:{ eapply ex_eq; [apply ifz_t; ap_simpl; rewrite (wrapu_wraps32 (Z.of_nat (S (length addr)))) by lia; apply Z.ltb_irrefl|].
        ap_simpl. rewrite Has5. ap_fin. }
    pose proof (rchr_opt_lt _ _ _ Er) as Hi.
    assert (C1 : (wrapu 32 (wraps 32 (Z.of_nat i)) <? Z.of_nat (S (length addr))) = true).
    { rewrite wraps32_small by lia. rewrite wrapu32_small by lia. apply Z.ltb_lt. lia. }
    assert (R1 : rd (zs addr ++ [0]) (0 + wraps 32 (wraps 32 (Z.of_nat i) + 1)) = Z.of_N (hd 0%N (skipn (S i) addr))).
    { rewrite (wraps32_small (Z.of_nat i)) by lia. rewrite wraps32_small by lia. rewrite Z.add_0_l.
      replace (Z.of_nat i + 1) with (Z.of_nat (S i)) by lia. apply rd_skipn. lia. }
    assert (O1 : 0 + wraps 32 (Z.of_nat i) + 1 = Z.of_nat (S i)) by (rewrite wraps32_small; lia).
    eapply ex_eq; [apply ifz_f; ap_simpl; exact C1|].
    destruct (skipn (S i) addr) as [|c r] eqn:Esk; cbn [hd] in R1.
    { eapply ex_eq; [apply ifz_t; ap_simpl; rewrite Has5, R1; reflexivity|]. ap_simpl. rewrite Has5. ap_fin. }
    destruct (ap_in_skipn addr (S i) c r Hao Esk) as (Hc & Hlt & E').
    destruct (c =? 91)%N eqn:E91.
    2:{ eapply ex_eq; [apply ifz_t; ap_simpl; rewrite Has5, R1, (ap_cmp91 c Hc); exact E91|]. ap_simpl. rewrite Has5.
        cbn [ip_scanbracket]. rewrite E91. cbn [negb]. ap_fin. }
    eapply ex_eq; [apply ifz_f; ap_simpl; rewrite Has5, R1, (ap_cmp91 c Hc); exact E91|].
    destruct (ap_ip_scanbracket F addr (S i) (repeat 0 4) Hao eq_refl ltac:(lia) Hlt ltac:(lia)) as (v6 & t6 & Hrun6 & Has6 & Hm6).
    rewrite Esk in Hm6.
    match goal with |- context [C_ip_scanbracket.run F ?a ?o ?ip] =>
      change (C_ip_scanbracket.run F a o ip) with (C_ip_scanbracket.run F (C_byte_rchr.a_s t5) (0 + wraps 32 (Z.of_nat i) + 1) (repeat 0 4)) end.
    rewrite Has5, O1, Hrun6. ap_simpl. rewrite ?Has5, ?Has6.
    change (1 =? 0) with false. cbv iota.
    assert (O2 : wrapu 32 (wraps 32 (wraps 32 (Z.of_nat i) + 1)) = Z.of_nat (S i)).
    { rewrite (wraps32_small (Z.of_nat i)) by lia. rewrite wraps32_small by lia. rewrite wrapu32_small; lia. }
    rewrite !O2.
    destruct (ip_scanbracket (c :: r)) as [[o rest]|] eqn:Eip.
    2:{ subst v6. rewrite Z.add_0_r, Z.add_0_l, (wrapu32_small (Z.of_nat (S i))) by lia.
        rewrite (rd_skipn addr (S i)) by lia. rewrite Esk. cbn [hd]. apply N.eqb_eq in E91. subst c.
        change (wraps 8 (Z.of_N 91) =? 0) with false. change (b2z false =? 0) with true. cbv iota. ap_fin. }
    destruct Hm6 as (q & Hv & Hq & Hrest & Hd). rewrite Hd. subst v6.
    replace (0 + wrapu 32 (Z.of_nat (S i) + Z.of_nat (q - S i))) with (Z.of_nat q) by (rewrite wrapu32_small; lia).
    rewrite (rd_skipn addr q) by lia. rewrite Hrest.
    destruct rest as [|e rest']; cbn [hd].
    2:{ assert (He : (e < 256)%N /\ (e =? 0)%N = false).
        { split; [apply (bytes_ok_in addr e Hao), (in_skipn _ _ _ _ Hrest)|exact (ap_nonul addr q e rest' Han Hrest)]. }
        destruct He as [He He0]. rewrite (ap_nul e He), He0. change (b2z false =? 0) with true. cbv iota. ap_fin. }
    change (wraps 8 (Z.of_N 0) =? 0) with true. change (b2z true =? 0) with false. cbv iota.
    rewrite Hipme, (ipme_mem_flat o (g_ipme g) (ip_scanbracket_len4 _ _ _ Eip) Hme).
    destruct (existsb (fun me : list N => beq me o) (g_ipme g)).
    2:{ change (b2z false =? 0) with true. cbv iota. ap_fin. }
    change (b2z true =? 0) with false. change (b2z false =? 0) with true. cbv iota.
    subst K0. rewrite obind_normal. ap_simpl. change (1 =? 0) with false. change (b2z false =? 0) with true. cbv iota.
    rewrite Hlh, Hlhlen.
    assert (L1 : wrapu 32 (Z.of_nat (S i) + Z.of_nat (length l)) = Z.of_nat (length (firstn (S i) addr ++ l))).
    { rewrite app_length, firstn_length_le by lia. rewrite wrapu32_small; lia. }
    rewrite L1, (ap_cat addr l i) by lia. rewrite Nat2Z.id, <- (zs_length (firstn (S i) addr ++ l)), firstn_all, zs_length. change (wrapu 8 (rd [0] 0)) with 0.
    replace (wrapu 32 (Z.of_nat (length (firstn (S i) addr ++ l)) + 1)) with (Z.of_nat (S (length (firstn (S i) addr ++ l)))).
    2:{ rewrite app_length, firstn_length_le by lia. rewrite wrapu32_small; lia. }
    ap_fin. }
  destruct H5 as (s5 & H5 & Ha5 & Hl5). rewrite H5. clear H5.
  show_next. rewrite Hl5.
  unfold ap_post. rewrite addrparse_stages. rewrite <- Eterm, <- Ea1', <- Eaddr. cbv zeta.
  change (wrapu 32 900) with 900. rewrite b2z_if.
  remember (ap_lip g addr) as addr' eqn:Eaddr'.
  destruct (Nat.ltb_spec 900 (S (length addr'))) as [Hgt|Hle].
  - replace (Z.of_nat (S (length addr')) >? 900) with true by (symmetry; apply Z.gtb_lt; lia).
    rewrite obind_return. reflexivity.
  - replace (Z.of_nat (S (length addr')) >? 900) with false by (symmetry; rewrite Z.gtb_ltb; apply Z.ltb_ge; lia).
    subst K. rewrite obind_normal. eexists. split; [reflexivity|]. rewrite <- Hl5. split; [exact Ha5|reflexivity].
Qed.

(* REQUIRED 1: control/localiphost unreadable-as-absent (liphostok = 0) *)
Theorem gen_addrparse_nolip : forall (g : scfg) (arg : bytes) (addr0 : list Z) (len0 : Z) (ipme lh : list Z) (lhlen : Z),
  bytes_ok arg -> ~ In 0%N arg -> Z.of_nat (length arg) < 2 ^ 31 -> g_liphost g = None ->
  ap_post g arg (C_addrparse.run (S (S (length arg))) (zs arg ++ [0]) 0 addr0 len0 0 ipme lh lhlen).
Proof.
  intros g arg addr0 len0 ipme lh lhlen Hok Hnn Hlen Hg. rewrite p31 in Hlen.
  apply ap_run; [exact Hok|exact Hnn|exact Hlen|lia|]. unfold ap_cfg. rewrite Hg. reflexivity.
Qed.

(* REQUIRED 2: with a local IP host name *)
Theorem gen_addrparse_lip : forall (g : scfg) (arg lh : bytes) (addr0 : list Z) (len0 : Z),
  bytes_ok arg -> ~ In 0%N arg -> Z.of_nat (length arg) < 2 ^ 31 -> g_liphost g = Some lh ->
  bytes_ok lh -> Z.of_nat (length lh) < 2 ^ 31 -> Forall (fun me => length me = 4%nat /\ bytes_ok me) (g_ipme g) ->
  ap_post g arg (C_addrparse.run (S (S (length arg))) (zs arg ++ [0]) 0 addr0 len0 1 (flat (g_ipme g)) (zs lh) (Z.of_nat (length lh))).
Proof.
  intros g arg lh addr0 len0 Hok Hnn Hlen Hg Hlh Hlhlen Hme. rewrite p31 in Hlen, Hlhlen.
  apply ap_run; [exact Hok|exact Hnn|exact Hlen|lia|]. unfold ap_cfg. rewrite Hg.
  repeat split; try reflexivity; assumption.
Qed.

(* ==================== no access outside an array ==================== *)
(* the callees with the facts addrparse needs about what they return *)
Ltac ksc_step k a e He :=
  rewrite oob_keep by (apply inb_true; lia);
  destruct k as [|k];
  [ match goal with |- context [rd a ?t] => replace (rd a t) with 0 by (rewrite <- He; f_equal; lia) end;
    change (wraps 8 0 =? 0) with true; cbn [b2z]; change (1 =? 0) with false; cbv iota; rewrite ?obind_break; cbv iota;
    eexists; split; [reflexivity|lia] | ];
  match goal with |- context [obind (if ?c then _ else _) _] => destruct c end;
  [ | rewrite ?obind_break; cbv iota; eexists; split; [reflexivity|lia] ];
  rewrite obind_normal; sch_simpl; rewrite oob_keep by (apply inb_true; lia);
  match goal with |- context [obind (if ?c then _ else _) _] => destruct c end;
  [ | rewrite ?obind_break; cbv iota; eexists; split; [reflexivity|lia] ];
  rewrite obind_normal; sch_simpl.

Lemma ksc_loop f0 (a : list Z) (e : Z) : rd a e = 0 -> e < Z.of_nat (length a) ->
  forall fuel k s0 c ch t, (k < fuel)%nat -> 0 <= t -> t + Z.of_nat k = e ->
  exists t', K_str_chr.loop1 f0 fuel {| K_str_chr.v_s := s0; K_str_chr.v_c := c; K_str_chr.v_ch := ch; K_str_chr.v_t := t;
     K_str_chr.v__oob := 0; K_str_chr.a_s := a |}
   = ONormal {| K_str_chr.v_s := s0; K_str_chr.v_c := c; K_str_chr.v_ch := ch; K_str_chr.v_t := t'; K_str_chr.v__oob := 0; K_str_chr.a_s := a |}
   /\ t <= t' <= e.
Proof.
  intros He Hlen. induction fuel as [|f IH]; intros k s0 c ch t Hk Ht Hte; [lia|].
  sch_unroll. change (1 =? 0) with false. cbv iota.
  ksc_step k a e He. ksc_step k a e He. ksc_step k a e He. ksc_step k a e He.
  destruct (IH k s0 c ch (t + 1 + 1 + 1 + 1)) as (t' & E & Ht'); [lia|lia|lia|].
  exists t'. split; [exact E|lia].
Qed.

Lemma ksc_run (F : nat) (a : list Z) (e c : Z) : rd a e = 0 -> e < Z.of_nat (length a) -> 0 <= e < 4294967296 -> (Z.to_nat e < F)%nat ->
  exists v t, K_str_chr.run F a 0 c = Some (v, t) /\ K_str_chr.v__oob t = 0 /\ K_str_chr.a_s t = a /\ 0 <= v <= e.
Proof.
  intros He Hlen He32 HF.
  cbv beta iota zeta delta [K_str_chr.run K_str_chr.body K_str_chr.set_v_s K_str_chr.set_v_c K_str_chr.set_v_ch K_str_chr.set_v_t K_str_chr.set_v__oob K_str_chr.set_a_s
  K_str_chr.v_s K_str_chr.v_c K_str_chr.v_ch K_str_chr.v_t K_str_chr.v__oob K_str_chr.a_s].
  destruct (ksc_loop F a e He Hlen F (Z.to_nat e) 0 c (wraps 8 c) 0) as (t' & E & Ht'); [lia|lia|lia|].
  rewrite E, obind_normal. sch_simpl. rewrite Z.sub_0_r, wrapu32_small by lia.
  do 2 eexists. split; [reflexivity|]. sch_simpl. split; [reflexivity|]. split; [reflexivity|lia].
Qed.

(* byte_rchr: the value returned is n, or an index below n that holds the character *)
Definition kbr_inv (a : list Z) (ch t u : Z) : Prop :=
  u = -1 \/ (0 <= u < t /\ (wraps 32 (wraps 8 (rd a u)) =? wraps 32 ch) = true).
Ltac kbr2_step k :=
  destruct k as [|k];
  [ cbn [Z.of_nat]; change (0 =? 0) with true; cbn [b2z]; change (1 =? 0) with false; cbv iota; rewrite ?obind_break; cbv iota;
    do 3 eexists; split; [reflexivity|split; [lia|assumption]] | ];
  rewrite of_nat_S_eqb0; cbn [b2z]; change (0 =? 0) with true; cbv iota; rewrite obind_normal; kbr_simpl;
  rewrite oob_keep by (apply inb_true; lia);
  match goal with Hinv : kbr_inv ?a ?ch ?t ?u |- context [obind (if b2z ?c =? 0 then _ else _) _] =>
    let Ec := fresh "Ec" in let Hinv' := fresh "Hinv" in
    destruct c eqn:Ec; cbn [b2z]; [change (1 =? 0) with false | change (0 =? 0) with true]; cbv iota;
    [ assert (Hinv' : kbr_inv a ch (t + 1) t) by (right; split; [lia|exact Ec])
    | assert (Hinv' : kbr_inv a ch (t + 1) u) by (destruct Hinv as [Hinv|Hinv]; [left; exact Hinv|right; split; [lia|apply Hinv]]) ];
    clear Hinv Ec
  end;
  rewrite obind_normal; kbr_simpl; rewrite (sub1_nat k) by lia.

Lemma kbr2_loop f0 (a : list Z) : forall fuel k s0 c ch t u, (k < fuel)%nat -> Z.of_nat k < 4294967296 ->
  0 <= t -> t + Z.of_nat k <= Z.of_nat (length a) -> kbr_inv a ch t u ->
  exists n' t' u', K_byte_rchr.loop1 f0 fuel {| K_byte_rchr.v_s := s0; K_byte_rchr.v_n := Z.of_nat k; K_byte_rchr.v_c := c;
     K_byte_rchr.v_ch := ch; K_byte_rchr.v_t := t; K_byte_rchr.v_u := u; K_byte_rchr.v__oob := 0; K_byte_rchr.a_s := a |}
   = ONormal {| K_byte_rchr.v_s := s0; K_byte_rchr.v_n := n'; K_byte_rchr.v_c := c;
     K_byte_rchr.v_ch := ch; K_byte_rchr.v_t := t'; K_byte_rchr.v_u := u'; K_byte_rchr.v__oob := 0; K_byte_rchr.a_s := a |}
   /\ t' = t + Z.of_nat k /\ kbr_inv a ch t' u'.
Proof.
  induction fuel as [|f IH]; intros k s0 c ch t u Hk Hk32 Ht Ha Hinv; [lia|].
  kbr_unroll. change (1 =? 0) with false. cbv iota.
  kbr2_step k; kbr2_step k; kbr2_step k; kbr2_step k;
  (match goal with Hinv : kbr_inv a ch ?t' ?u' |- _ =>
    destruct (IH k s0 c ch t' u' ltac:(lia) ltac:(lia) ltac:(lia) ltac:(lia) Hinv) as (n' & t'' & u'' & E & Ht'' & Hinv'') end;
   exists n', t'', u''; split; [exact E|split; [lia|exact Hinv'']]).
Qed.

Lemma kbr2_run (F : nat) (a : list Z) (k : nat) (c : Z) : Z.of_nat k < 4294967296 -> Z.of_nat k <= Z.of_nat (length a) -> (k < F)%nat ->
  exists v t, K_byte_rchr.run F a 0 (Z.of_nat k) c = Some (v, t) /\ K_byte_rchr.v__oob t = 0 /\ K_byte_rchr.a_s t = a /\
    (v = Z.of_nat k \/ (0 <= v < Z.of_nat k /\ (wraps 32 (wraps 8 (rd a v)) =? wraps 32 (wraps 8 c)) = true)).
Proof.
  intros Hk32 Hka HF. kbr_run.
  destruct (kbr2_loop F a F k 0 c (wraps 8 c) 0 (-1) HF Hk32 ltac:(lia) ltac:(lia) ltac:(left; reflexivity)) as (n' & t' & u' & E & Ht' & Hinv).
  rewrite E, obind_normal. kbr_simpl. rewrite b2z_if.
  destruct Hinv as [->|[Hu Hc]].
  - change (-1 =? -1) with true. cbv iota. rewrite obind_normal. kbr_simpl. subst t'.
    rewrite Z.sub_0_r, Z.add_0_l, wrapu32_small by lia.
    do 2 eexists. split; [reflexivity|]. kbr_simpl. split; [reflexivity|]. split; [reflexivity|left; reflexivity].
  - destruct (Z.eqb_spec u' (-1)) as [->|_]; [lia|]. rewrite obind_normal. kbr_simpl.
    rewrite Z.sub_0_r, wrapu32_small by lia.
    do 2 eexists. split; [reflexivity|]. kbr_simpl. split; [reflexivity|]. split; [reflexivity|right; split; [lia|exact Hc]].
Qed.

(* ip_scanbracket started anywhere in front of the NUL *)
Lemma kib_run (a : list Z) (e : Z) : rd a e = 0 -> e < Z.of_nat (length a) -> e < 2147483648 ->
  forall fuel p ip, 0 <= p <= e -> e - p < Z.of_nat fuel -> length ip = 4%nat ->
  exists v st, K_ip_scanbracket.run fuel a p ip = Some (v, st) /\ K_ip_scanbracket.v__oob st = 0 /\ K_ip_scanbracket.a_s st = a /\ 0 <= v /\ p + v <= e.
Proof.
  intros He Hlen He31 fuel p ip Hp Hfuel Hip.
  cbv beta iota zeta delta [K_ip_scanbracket.run K_ip_scanbracket.body K_ip_scanbracket.set_v_s K_ip_scanbracket.set_v_len K_ip_scanbracket.set_v__oob K_ip_scanbracket.set_a_s K_ip_scanbracket.set_a_ip__d
  K_ip_scanbracket.v_s K_ip_scanbracket.v_len K_ip_scanbracket.v__oob K_ip_scanbracket.a_s K_ip_scanbracket.a_ip__d].
  change (wrapu 32 0) with 0. change (wrapu 32 1) with 1. change (wrapu 32 2) with 2.
  k_hide. rewrite oob_keep by (apply inb_true; lia).
  destruct (Z.eq_dec p e) as [Hpe|Hpe].
  { replace (rd a p) with 0 by (rewrite <- He; f_equal; lia). if_compute. rewrite obind_return.
    do 2 eexists. split; [reflexivity|]. kib_simpl. split; [reflexivity|]. split; [reflexivity|lia]. }
  match goal with |- context [obind (if ?c then _ else _) _] => destruct c end.
  2:{ rewrite obind_return. do 2 eexists. split; [reflexivity|]. kib_simpl. split; [reflexivity|]. split; [reflexivity|lia]. }
  k_show; kib_simpl.
  match goal with |- context [K_ip_scan.run ?f a ?q ip] =>
    destruct (kis_run a e He ltac:(lia) He31 f q ip) as (v & t & E & Ho & Ha & Hv & Hqv); [lia | lia | exact Hip | ] end.
  rewrite E; cbv beta iota; rewrite ?Ha, ?Ho; change (Z.lor 0 0) with 0.
  k_hide.
  destruct (v =? 0) eqn:Ev; cbn [b2z]; [change (1 =? 0) with false | change (0 =? 0) with true]; cbv iota.
  { rewrite obind_return. do 2 eexists. split; [reflexivity|]. kib_simpl. split; [reflexivity|]. split; [reflexivity|lia]. }
  k_show; kib_simpl. unwrap32.
  rewrite oob_keep by (apply inb_true; lia).
  destruct (Z.eq_dec (p + (v + 1)) e) as [Hve|Hve].
  { replace (rd a (p + (v + 1))) with 0 by (rewrite <- He; f_equal; lia). if_compute. rewrite obind_return.
    do 2 eexists. split; [reflexivity|]. kib_simpl. split; [reflexivity|]. split; [reflexivity|lia]. }
  match goal with |- context [obind (if ?c then _ else _) _] => destruct c end.
  2:{ rewrite obind_return. do 2 eexists. split; [reflexivity|]. kib_simpl. split; [reflexivity|]. split; [reflexivity|lia]. }
  rewrite obind_normal. rewrite (wrapu32_small (v + 2)) by lia. do 2 eexists. split; [reflexivity|]. kib_simpl. split; [reflexivity|]. split; [reflexivity|lia].
Qed.

(* ---------- K_addrparse: the loops ---------- *)
Ltac kap_simpl := cbv [K_addrparse.set_v_arg K_addrparse.set_v_i K_addrparse.set_v_ch K_addrparse.set_v_terminator K_addrparse.set_v_flagesc
  K_addrparse.set_v_flagquoted K_addrparse.set_v__oob K_addrparse.set_v_addr__len K_addrparse.set_v_liphostok K_addrparse.set_v_liphost__len K_addrparse.set_a_arg
  K_addrparse.set_a_addr__s K_addrparse.set_a_lit1 K_addrparse.set_a_ip__d K_addrparse.set_a_ipme K_addrparse.set_a_liphost__s
  K_addrparse.v_arg K_addrparse.v_i K_addrparse.v_ch K_addrparse.v_terminator K_addrparse.v_flagesc K_addrparse.v_flagquoted K_addrparse.v__oob
  K_addrparse.v_addr__len K_addrparse.v_liphostok K_addrparse.v_liphost__len K_addrparse.a_arg K_addrparse.a_addr__s K_addrparse.a_lit1
  K_addrparse.a_ip__d K_addrparse.a_ipme K_addrparse.a_liphost__s].
Notation KS varg i ch term esc fq oob alen lok lhlen aarg aaddr lit ip ipme lh :=
  {| K_addrparse.v_arg := varg; K_addrparse.v_i := i; K_addrparse.v_ch := ch; K_addrparse.v_terminator := term; K_addrparse.v_flagesc := esc;
     K_addrparse.v_flagquoted := fq; K_addrparse.v__oob := oob; K_addrparse.v_addr__len := alen; K_addrparse.v_liphostok := lok; K_addrparse.v_liphost__len := lhlen;
     K_addrparse.a_arg := aarg; K_addrparse.a_addr__s := aaddr; K_addrparse.a_lit1 := lit; K_addrparse.a_ip__d := ip; K_addrparse.a_ipme := ipme;
     K_addrparse.a_liphost__s := lh |} (only parsing).
Ltac kap_on := first [rewrite obind_normal; cbv beta; kap_simpl | rewrite obind_return | rewrite obind_break]; ap_consts.
Ltac kap_go := ap_consts; repeat kap_on.

Lemma kap_loop1 (f0 : nat) (a : list Z) (e : Z) (i ch term esc fq alen lok lhlen : Z) (aaddr lit ip ipme lh : list Z) :
  rd a e = 0 -> e < Z.of_nat (length a) ->
  forall fuel q, 0 <= q <= e -> e - q < Z.of_nat fuel ->
  exists q', K_addrparse.loop1 f0 fuel (KS q i ch term esc fq 0 alen lok lhlen a aaddr lit ip ipme lh)
   = ONormal (KS q' i ch term esc fq 0 alen lok lhlen a aaddr lit ip ipme lh) /\ q <= q' <= e.
Proof.
  intros He Hlen. induction fuel as [|f IH]; intros q Hq Hf; [lia|].
  cbn [K_addrparse.loop1]. kap_simpl. rewrite oob_keep by (apply inb_true; lia). rewrite b2z_if.
  destruct (Z.eq_dec q e) as [->|Hqe].
  - rewrite He. change (wraps 32 (wraps 8 0) =? 32) with false. cbv iota. exists e. split; [reflexivity|lia].
  - destruct (wraps 32 (wraps 8 (rd a q)) =? 32).
    + destruct (IH (q + 1) ltac:(lia) ltac:(lia)) as (q' & E & Hq'). exists q'. split; [exact E|lia].
    + exists q. split; [reflexivity|lia].
Qed.

Lemma kap_loop2 (f0 : nat) (a : list Z) (e : Z) (i ch term esc fq alen lok lhlen : Z) (aaddr lit ip ipme lh : list Z) :
  rd a e = 0 -> e < Z.of_nat (length a) ->
  forall fuel q, 0 <= q <= e -> e - q < Z.of_nat fuel ->
  exists q', K_addrparse.loop2 f0 fuel (KS q i ch term esc fq 0 alen lok lhlen a aaddr lit ip ipme lh)
   = ONormal (KS q' i ch term esc fq 0 alen lok lhlen a aaddr lit ip ipme lh) /\ q <= q' <= e.
Proof.
  intros He Hlen. induction fuel as [|f IH]; intros q Hq Hf; [lia|].
  cbn [K_addrparse.loop2]. kap_simpl. rewrite oob_keep by (apply inb_true; lia).
  destruct (Z.eq_dec q e) as [->|Hqe].
  - rewrite He. change (wraps 8 0 =? 0) with true. cbv iota. exists e. split; [reflexivity|lia].
  - destruct (wraps 8 (rd a q) =? 0); [exists q; split; [reflexivity|lia]|].
    rewrite oob_keep by (apply inb_true; lia). rewrite b2z_if.
    destruct (wraps 32 (wraps 8 (rd a q)) =? 58).
    + exists (q + 1). split; [reflexivity|lia].
    + destruct (IH (q + 1) ltac:(lia) ltac:(lia)) as (q' & E & Hq'). exists q'. split; [exact E|lia].
Qed.

Lemma kap_loop3 (f0 : nat) (a : list Z) (e p term lok lhlen : Z) (lit ip ipme lh : list Z) :
  rd a e = 0 -> e < Z.of_nat (length a) -> e < 2147483648 -> 0 <= p ->
  forall fuel k (esc fq : Z) (addr : list Z) ch, p + Z.of_nat k <= e -> e - (p + Z.of_nat k) < Z.of_nat fuel -> (length addr <= k)%nat ->
  exists k' ch' esc' fq' addr',
  K_addrparse.loop3 f0 fuel (KS p (Z.of_nat k) ch term esc fq 0 (Z.of_nat (length addr)) lok lhlen a addr lit ip ipme lh)
  = ONormal (KS p (Z.of_nat k') ch' term esc' fq' 0 (Z.of_nat (length addr')) lok lhlen a addr' lit ip ipme lh)
  /\ p + Z.of_nat k' <= e /\ (length addr' <= k')%nat.
Proof.
  intros He Hlen He31 Hp. induction fuel as [|f IH]; intros k esc fq addr ch Hk Hf Hout; [lia|].
  cbn [K_addrparse.loop3]. kap_simpl. rewrite oob_keep by (apply inb_true; lia).
  destruct (Z.eq_dec (p + Z.of_nat k) e) as [Hke|Hke].
  { rewrite Hke, He. change (wraps 8 0 =? 0) with true. cbv iota. do 5 eexists. split; [reflexivity|]. split; [lia|exact Hout]. }
  remember (wraps 8 (rd a (p + Z.of_nat k))) as x eqn:Ex.
  destruct (x =? 0). { do 5 eexists. split; [reflexivity|]. split; [lia|exact Hout]. }
  assert (Hi : wraps 32 (Z.of_nat k + 1) = Z.of_nat (S k)) by (rewrite wraps32_small; lia).
  assert (Hl : forall y, wrapu 32 (Z.of_nat (length addr) + 1) = Z.of_nat (length (addr ++ [y]))).
  { intros y. rewrite app_length. cbn [length]. rewrite wrapu32_small; lia. }
  assert (Ha : firstn (Z.to_nat (Z.of_nat (length addr))) addr = addr) by (rewrite Nat2Z.id; apply firstn_all).
  assert (Hfin : forall (e' q' : Z) (o : list Z), (length o <= S k)%nat ->
      exists k' ch' esc' fq' addr',
      K_addrparse.loop3 f0 f (KS p (Z.of_nat (S k)) x term e' q' 0 (Z.of_nat (length o)) lok lhlen a o lit ip ipme lh)
      = ONormal (KS p (Z.of_nat k') ch' term esc' fq' 0 (Z.of_nat (length addr')) lok lhlen a addr' lit ip ipme lh)
      /\ p + Z.of_nat k' <= e /\ (length addr' <= k')%nat).
  { intros e' q' o Ho. apply IH; [lia|lia|exact Ho]. }
  assert (Ho1 : forall y, (length (addr ++ [y]) <= S k)%nat) by (intros y; rewrite app_length; cbn [length]; lia).
  assert (Hex : forall s, s = KS p (Z.of_nat k) x term esc fq 0 (Z.of_nat (length addr)) lok lhlen a addr lit ip ipme lh ->
      exists k' ch' esc' fq' addr', ONormal s
      = ONormal (KS p (Z.of_nat k') ch' term esc' fq' 0 (Z.of_nat (length addr')) lok lhlen a addr' lit ip ipme lh)
      /\ p + Z.of_nat k' <= e /\ (length addr' <= k')%nat).
  { intros s ->. do 5 eexists. split; [reflexivity|]. split; [lia|exact Hout]. }
  destruct (esc =? 0).
  - destruct (b2z (fq =? 0) =? 0).
    + kap_go. destruct (wraps 32 x =? 92); [|destruct (wraps 32 x =? 34)]; kap_go; kap_simpl; rewrite ?Ha, ?(Hl (wrapu 8 x)), Hi; apply Hfin; auto.
    + destruct (b2z (negb (b2z (wraps 32 x =? wraps 32 term) =? 0)) =? 0); kap_go.
      * destruct (wraps 32 x =? 92); [|destruct (wraps 32 x =? 34)]; kap_go; kap_simpl; rewrite ?Ha, ?(Hl (wrapu 8 x)), Hi; apply Hfin; auto.
      * apply Hex. reflexivity.
  - kap_go. kap_simpl. rewrite ?Ha, ?(Hl (wrapu 8 x)), Hi. apply Hfin; auto.
Qed.

Ltac kap_eval v := eval cbv [K_addrparse.set_v_arg K_addrparse.set_v_i K_addrparse.set_v_ch K_addrparse.set_v_terminator K_addrparse.set_v_flagesc
  K_addrparse.set_v_flagquoted K_addrparse.set_v__oob K_addrparse.set_v_addr__len K_addrparse.set_v_liphostok K_addrparse.set_v_liphost__len K_addrparse.set_a_arg
  K_addrparse.set_a_addr__s K_addrparse.set_a_lit1 K_addrparse.set_a_ip__d K_addrparse.set_a_ipme K_addrparse.set_a_liphost__s
  K_addrparse.v_arg K_addrparse.v_i K_addrparse.v_ch K_addrparse.v_terminator K_addrparse.v_flagesc K_addrparse.v_flagquoted K_addrparse.v__oob
  K_addrparse.v_addr__len K_addrparse.v_liphostok K_addrparse.v_liphost__len K_addrparse.a_arg K_addrparse.a_addr__s K_addrparse.a_lit1
  K_addrparse.a_ip__d K_addrparse.a_ipme K_addrparse.a_liphost__s] in v.
Ltac is_call v := lazymatch v with
  | K_str_chr.run _ _ _ _ => idtac | K_byte_rchr.run _ _ _ _ _ => idtac | K_ip_scanbracket.run _ _ _ _ => idtac end.
(* the statement about a run of the body, closed under the steps below by first-order lemmas: their instances are the goals
   themselves, so the kernel never has to compare two copies of the unprocessed rest of the function *)
Definition kfin (o : outcome K_addrparse.st) : Prop :=
  option_map (fun r => K_addrparse.v__oob (snd r)) (match o with OReturn v s => Some (v, s) | ONormal s => Some (0, s) | _ => None end) = Some 0.
Lemma kfin_bind (x : outcome K_addrparse.st) (K : K_addrparse.st -> outcome K_addrparse.st) (s : K_addrparse.st) :
  x = ONormal s -> kfin (K s) -> kfin (obind x K).
Proof. intros ->. exact (fun H => H). Qed.
Lemma kfin_ret v s : K_addrparse.v__oob s = 0 -> kfin (OReturn v s).
Proof. intros H. unfold kfin. cbn [option_map snd]. f_equal. exact H. Qed.
Lemma bool_case (c : bool) (G : Prop) : (c = true -> G) -> (c = false -> G) -> G.
Proof. destruct c; auto. Qed.
Definition kex (x : outcome K_addrparse.st) : Prop := exists s, x = ONormal s /\ K_addrparse.v__oob s = 0.
Lemma kex_if_t (c : bool) x y : c = true -> kex x -> kex (if c then x else y). Proof. intros ->. auto. Qed.
Lemma kex_if_f (c : bool) x y : c = false -> kex y -> kex (if c then x else y). Proof. intros ->. auto. Qed.
Lemma kex_ifz_t (c : bool) x y : c = false -> kex x -> kex (if b2z c =? 0 then x else y). Proof. intros ->. auto. Qed.
Lemma kex_ifz_f (c : bool) x y : c = true -> kex y -> kex (if b2z c =? 0 then x else y). Proof. intros ->. auto. Qed.
Lemma kex_norm s : K_addrparse.v__oob s = 0 -> kex (ONormal s). Proof. intros H. exists s. split; [reflexivity|exact H]. Qed.

(* the lets are taken one at a time, by value: the bound value is reduced, then substituted, so that every state stays a record
   of small fields; a let that binds a call is left for let_call.  All the steps that can be taken are one conversion. *)
Ltac not_call v := lazymatch v with
  | K_str_chr.run _ _ _ _ => fail | K_byte_rchr.run _ _ _ _ _ => fail | K_ip_scanbracket.run _ _ _ _ => fail | _ => constr:(Set) end.
Ltac step_term t := match t with context C [let x := ?v in @?b x] =>
  let _ := not_call v in let v' := kap_eval v in let b' := eval cbv beta in (b v') in context C [b'] end.
Ltac steps_term t := match constr:(Set) with
  | _ => let t' := step_term t in steps_term t'
  | _ => t end.
Ltac let_steps := match goal with |- ?G => let G' := steps_term G in change G' end.
(* every continuation becomes a local definition, the innermost first: each holds one stretch of the function only *)
Ltac hide_in := repeat match goal with |- context [obind _ ?k] =>
  lazymatch k with (fun _ => _) =>
    lazymatch k with context [obind _ (fun _ => _)] => fail | _ => let K := fresh "K" in set (K := k) end end end.
Ltac kenter := match goal with |- kfin (?K ?S) => let b := eval cbv delta [K] in K in let t := eval cbv beta in (b S) in let t' := steps_term t in change (kfin t'); clear K end.
(* a call: the equation for the value of the let, then an ordinary step *)
Ltac let_call H := match goal with |- context [let x := ?v in _] =>
  is_call v; let r := lazymatch type of H with _ = ?r => r end in
  let Hv := fresh "Hv" in assert (Hv : v = r) by exact H; rewrite Hv; clear Hv end.

Lemma kap_run (a : list Z) (e : Z) (addr0 : list Z) (len0 ok : Z) (ipme lh : list Z) (lhlen : Z) (F : nat) :
  rd a e = 0 -> e < Z.of_nat (length a) -> 0 <= e < 2147483648 -> (Z.to_nat e + 1 < F)%nat ->
  0 <= lhlen < 2147483648 ->
  option_map (fun r => K_addrparse.v__oob (snd r)) (K_addrparse.run F a 0 addr0 len0 ok ipme lh lhlen) = Some 0.
Proof.
  intros He Hlen He31 HF Hlh.
  cbv beta delta [K_addrparse.run].
  match goal with |- option_map _ (match ?b with _ => _ end) = _ => change (kfin b) end.
  cbv beta delta [K_addrparse.body]. hide_in.
  (* i = str_chr(arg,'<'); if (arg[i]) ... else ... *)
  destruct (ksc_run F a e 60 He Hlen ltac:(lia) ltac:(lia)) as (v1 & t1 & Hrun1 & Hoob1 & Has1 & Hv1).
  destruct (ksc_run F a e 58 He Hlen ltac:(lia) ltac:(lia)) as (v2 & t2 & Hrun2 & Hoob2 & Has2 & Hv2).
  let_steps. let_call Hrun1. let_steps. rewrite ?Has1, ?Hoob1.
  match goal with |- kfin (obind ?X ?K) =>
    assert (H1 : exists p i term, 0 <= p <= e /\ X = ONormal (KS p i 0 term 0 0 0 len0 ok lhlen a addr0 [0] (repeat 0 4) ipme lh)) end.
  { let_call Hrun2. let_steps. kap_simpl.
    rewrite ?Has1, ?Has2, ?Hoob1, ?Hoob2.  change (Z.lor 0 0) with 0. change (wraps 8 32) with 32. change (wraps 8 62) with 62.
    rewrite !Z.add_0_l. rewrite (wraps32_small v1) by lia.
    rewrite !(oob_keep a v1) by (apply inb_true; lia). change (Z.lor 0 0) with 0. rewrite !(oob_keep a v2) by (apply inb_true; lia).
    match goal with |- context [obind ?Y ?K0] => is_var K0;
      assert (HT : exists p, 0 <= p <= e /\ obind Y K0 = ONormal (KS p v1 0 32 0 0 0 len0 ok lhlen a addr0 [0] (repeat 0 4) ipme lh));
      [subst K0|] end.
    { rewrite b2z_if.
      assert (HL : forall q, 0 <= q <= e -> exists p, 0 <= p <= e /\
         K_addrparse.loop1 F F (KS q v1 0 32 0 0 0 len0 ok lhlen a addr0 [0] (repeat 0 4) ipme lh) = ONormal (KS p v1 0 32 0 0 0 len0 ok lhlen a addr0 [0] (repeat 0 4) ipme lh)).
      { intros q Hq. destruct (kap_loop1 F a e v1 0 32 0 0 len0 ok lhlen addr0 [0] (repeat 0 4) ipme lh He Hlen F q Hq ltac:(lia)) as (q' & E & Hq').
        exists q'. split; [lia|exact E]. }
      destruct (Z.eq_dec v2 e) as [->|Hne].
      - rewrite He. change (wraps 32 (wraps 8 0) =? 58) with false. cbv iota. rewrite obind_normal. apply HL. lia.
      - destruct (wraps 32 (wraps 8 (rd a v2)) =? 58); rewrite obind_normal; apply HL; lia. }
    destruct HT as (p & Hp & HT). rewrite HT. clear HT.
    destruct (Z.eq_dec v1 e) as [->|Hne].
    - rewrite He. change (wraps 8 0 =? 0) with true. cbv iota. exists p, e, 32. split; [exact Hp|reflexivity].
    - destruct (wraps 8 (rd a v1) =? 0).
      + exists p, v1, 32. split; [exact Hp|reflexivity].
      + exists (v1 + 1), v1, 62. split; [lia|]. rewrite wraps32_small by lia. reflexivity. }
  destruct H1 as (p & i1 & term & Hp & H1). eapply kfin_bind; [exact H1|]. clear H1. kenter.
  (* strip source route *)
  match goal with |- kfin (obind ?X ?K) =>
    assert (H2 : exists p2, 0 <= p2 <= e /\ X = ONormal (KS p2 i1 0 term 0 0 0 len0 ok lhlen a addr0 [0] (repeat 0 4) ipme lh)) end.
  { let_steps. kap_simpl. rewrite !(oob_keep a p) by (apply inb_true; lia).
    rewrite b2z_if. destruct (wraps 32 (wraps 8 (rd a p)) =? 64).
    - destruct (kap_loop2 F a e i1 0 term 0 0 len0 ok lhlen addr0 [0] (repeat 0 4) ipme lh He Hlen F p Hp ltac:(lia)) as (q' & E & Hq').
      exists q'. split; [lia|exact E].
    - exists p. split; [exact Hp|reflexivity]. }
  destruct H2 as (p2 & Hp2 & H2). eapply kfin_bind; [exact H2|]. clear H2. kenter.
  (* stralloc_copys(&addr,"") *)
  match goal with |- kfin (obind ?X ?K) =>
    assert (H3 : X = ONormal (KS p2 i1 0 term 0 0 0 0 ok lhlen a [] [0] (repeat 0 4) ipme lh)) end.
  { let_steps. kap_simpl. change (removelast [0]) with (@nil Z). change (alen []) with 0. ap_consts. reflexivity. }
  eapply kfin_bind; [exact H3|]. clear H3. kenter.
  (* the copying loop *)
  match goal with |- kfin (obind ?X ?K) =>
    assert (H4 : exists k3 ch3 esc3 fq3 addr, X = ONormal (KS p2 (Z.of_nat k3) ch3 term esc3 fq3 0 (Z.of_nat (length addr)) ok lhlen a addr [0] (repeat 0 4) ipme lh)
       /\ p2 + Z.of_nat k3 <= e /\ (length addr <= k3)%nat) end.
  { let_steps. kap_simpl.
    match goal with |- context [obind (ONormal _) ?K0] => subst K0 end. rewrite obind_normal.
    destruct (kap_loop3 F a e p2 term ok lhlen [0] (repeat 0 4) ipme lh He Hlen ltac:(lia) ltac:(lia) F 0%nat 0 0 [] 0)
      as (k3 & ch3 & esc3 & fq3 & addr & HL3 & Hk3 & Ha3); [lia|lia|apply le_n|].
    cbn [length Z.of_nat] in HL3. exists k3, ch3, esc3, fq3, addr. split; [exact HL3|]. split; [exact Hk3|exact Ha3]. }
  destruct H4 as (k3 & ch3 & esc3 & fq3 & addr & H4 & Hk3 & Ha3). eapply kfin_bind; [exact H4|]. clear H4. kenter.
  (* stralloc_append(&addr,"") *)
  match goal with |- kfin (obind ?X ?K) =>
    assert (H4 : X = ONormal (KS p2 (Z.of_nat k3) ch3 term esc3 fq3 0 (Z.of_nat (S (length addr))) ok lhlen a (addr ++ [0]) [0] (repeat 0 4) ipme lh)) end.
  { let_steps. kap_simpl. rewrite Nat2Z.id, firstn_all. change (wrapu 8 (rd [0] 0)) with 0.
    replace (wrapu 32 (Z.of_nat (length addr) + 1)) with (Z.of_nat (S (length addr))) by (rewrite wrapu32_small; lia).
    ap_consts. reflexivity. }
  eapply kfin_bind; [exact H4|]. clear H4. kenter.
  (* the local IP literal *)
  match goal with |- kfin (obind ?X ?K) => assert (H5 : kex X) end.
  { apply (bool_case (ok =? 0)); intros Eok.
    { apply kex_if_t; [kap_simpl; exact Eok|]. apply kex_norm. reflexivity. }
    apply kex_if_f; [kap_simpl; exact Eok|].
    assert (HLlen : length (addr ++ [0]) = S (length addr)) by (rewrite app_length; cbn [length]; lia).
    destruct (kbr2_run F (addr ++ [0]) (S (length addr)) 64) as (v5 & t5 & Hrun5 & Hoob5 & Has5 & Hv5); [lia|rewrite HLlen; lia|lia|].
    let_call Hrun5. let_steps.
    (* the call of ip_scanbracket and what follows it are put aside *)
    match goal with |- context [if _ then ONormal _ else ?R] =>
      lazymatch R with (let r := K_ip_scanbracket.run _ _ _ _ in _) => set (RG := R) end end.
    rewrite ?Has5, ?Hoob5. change (Z.lor 0 0) with 0.
    assert (Hv32 : wrapu 32 (wraps 32 v5) = v5) by (apply wrapu_wraps32; lia).
    apply (bool_case (v5 <? Z.of_nat (S (length addr)))); intros C1.
    2:{ apply kex_ifz_t; [kap_simpl; rewrite Hv32; exact C1|]. apply kex_norm. reflexivity. }
    apply kex_ifz_f; [kap_simpl; rewrite Hv32; exact C1|].
    apply Z.ltb_lt in C1. destruct Hv5 as [Hv5|[Hv5 Hc5]]; [lia|].
    assert (Hv5' : v5 < Z.of_nat (length addr)).
    { destruct (Z.eq_dec v5 (Z.of_nat (length addr))) as [E|E]; [|lia]. exfalso. rewrite E in Hc5.
      rewrite (rd_app_mid addr 0 []) in Hc5. discriminate Hc5. }
    assert (O1 : 0 + wraps 32 (wraps 32 v5 + 1) = v5 + 1) by (rewrite (wraps32_small v5) by lia; rewrite wraps32_small by lia; lia).
    assert (O2 : 0 + wraps 32 v5 + 1 = v5 + 1) by (rewrite (wraps32_small v5) by lia; lia).
    assert (HeL : rd (addr ++ [0]) (Z.of_nat (length addr)) = 0) by apply (rd_app_mid addr 0 []).
    assert (B1 : Z.lor 0 (b2z (negb (inb (addr ++ [0]) (v5 + 1)))) = 0) by (apply oob_keep, inb_true; rewrite HLlen; lia).
    match goal with |- kex (if b2z ?c =? 0 then _ else _) => let c' := kap_eval c in apply (bool_case c'); intros C2 end.
    { apply kex_ifz_f; [kap_simpl; exact C2|]. subst RG. rewrite ?Has5, ?Hoob5.
      destruct (kib_run (addr ++ [0]) (Z.of_nat (length addr)) HeL ltac:(rewrite HLlen; lia) ltac:(lia) F (v5 + 1) (repeat 0 4))
        as (v6 & t6 & Hrun6 & Hoob6 & Has6 & Hv6 & Hpv6); [lia|lia|reflexivity|].
      rewrite <- O2 in Hrun6.
      let_call Hrun6. let_steps. kap_simpl. rewrite ?Has6, ?Hoob6, !O1. change (Z.lor 0 0) with 0. rewrite !B1. change (Z.lor 0 0) with 0.
      assert (O3 : 0 + wrapu 32 (wrapu 32 (wraps 32 (wraps 32 v5 + 1)) + v6) = v5 + 1 + v6).
      { rewrite (wraps32_small v5) by lia. rewrite wraps32_small by lia. rewrite (wrapu32_small (v5 + 1)) by lia. rewrite wrapu32_small; lia. }
      rewrite !O3. rewrite !(oob_keep (addr ++ [0]) (v5 + 1 + v6)) by (apply inb_true; rewrite HLlen; lia).
      match goal with |- kex (if ?c then _ else _) => destruct c end; [apply kex_norm; reflexivity|].
      match goal with |- kex (if ?c then _ else _) => destruct c end; [apply kex_norm; reflexivity|].
      ap_consts. match goal with |- kex (obind (ONormal _) ?K0) => subst K0 end. rewrite obind_normal. cbv beta. let_steps. kap_simpl. ap_consts.
      apply kex_norm. reflexivity. }
    apply kex_ifz_t; [kap_simpl; exact C2|]. apply kex_norm. kap_simpl. rewrite O1. exact B1. }
  destruct H5 as (s5 & H5 & Ho5). eapply kfin_bind; [exact H5|]. clear H5. kenter.
  match goal with |- kfin (obind (if ?c then _ else _) ?K) => subst K; apply (bool_case c); intros Ec; rewrite Ec end.
  - rewrite obind_normal. apply kfin_ret. exact Ho5.
  - rewrite obind_return. apply kfin_ret. exact Ho5.
Qed.


(* REQUIRED 3: no access outside an array, for every argument and configuration (the address buffer grows with the address:
   the stralloc stubs model addr as exactly its len bytes) *)
Theorem safe_addrparse : forall (arg lh : bytes) (addr0 : list Z) (len0 ok : Z) (ipme : list Z),
  bytes_ok arg -> ~ In 0%N arg -> Z.of_nat (length arg) < 2 ^ 31 -> bytes_ok lh -> Z.of_nat (length lh) < 2 ^ 31 ->
  option_map (fun r => K_addrparse.v__oob (snd r)) (K_addrparse.run (S (S (length arg))) (zs arg ++ [0]) 0 addr0 len0 ok ipme (zs lh) (Z.of_nat (length lh))) = Some 0.
Proof.
  intros arg lh addr0 len0 ok ipme Hok Hnn Hlen Hlh Hlhlen. rewrite p31 in Hlen, Hlhlen.
  apply (kap_run (zs arg ++ [0]) (Z.of_nat (length arg))).
  - apply rd_zs0_end.
  - rewrite zs0_length. lia.
  - lia.
  - rewrite Nat2Z.id. lia.
  - lia.
Qed.
