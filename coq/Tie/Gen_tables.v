(* constmap.c hash(), case_diffb.c, cdb_hash.c, cdbmake_hash.c, cdb_unpack.c, cdbmake_pack.c as generated from today's
   sources  =  the functions of Base/Constmap.v and Base/Cdb.v.  REQUIRED statements must be proved exactly as stated. *)
From Coq Require Import ZArith NArith List Lia ZifyBool.
From NQ Require Import Base.MiniC Base.Bytes Base.Cdb Base.Constmap gen.CGen Tie.GenCommon Tie.GenAux.
Import ListNotations.
Local Open Scope Z_scope.

Ltac Zify.zify_post_hook ::= Z.div_mod_to_equations.

(* ---------------------------------------------------------------- auxiliary lemmas ----------------------------------------------------------------
   Nothing below mentions a name invented by the translator (s1, x5, ...): the generated functions are unfolded and
   the record projections of record literals and setters reduced by the C_f_red tactics. *)
Lemma wrapu8_idem v : wrapu 8 (wrapu 8 v) = wrapu 8 v.
Proof. rewrite !wrapu8. apply Z.mod_mod. lia. Qed.
Lemma wrapu32_idem v : wrapu 32 (wrapu 32 v) = wrapu 32 v.
Proof. rewrite !wrapu32. apply Z.mod_mod. lia. Qed.
Lemma wrapu64_idem v : wrapu 64 (wrapu 64 v) = wrapu 64 v.
Proof. rewrite !wrapu64. apply Z.mod_mod. lia. Qed.

Lemma obind_normal {S} (s : S) f : obind (ONormal s) f = f s.
Proof. reflexivity. Qed.

Lemma rd_zs_mid pre c rest : rd (zs (pre ++ c :: rest)) (Z.of_nat (length pre)) = Z.of_N c.
Proof. rewrite zs_app. cbn [zs map]. rewrite <- (zs_length pre). apply rd_app_mid. Qed.
Lemma wr_zs_mid pre c rest v : wr (zs (pre ++ c :: rest)) (Z.of_nat (length pre)) (Z.of_N v) = zs (pre ++ v :: rest).
Proof. rewrite !zs_app. cbn [zs map]. rewrite <- (zs_length pre). apply wr_app_mid. Qed.

Lemma wr4_0 a b c d v : wr [a; b; c; d] 0 v = [v; b; c; d]. Proof. reflexivity. Qed.
Lemma wr4_1 a b c d v : wr [a; b; c; d] 1 v = [a; v; c; d]. Proof. reflexivity. Qed.
Lemma wr4_2 a b c d v : wr [a; b; c; d] 2 v = [a; b; v; d]. Proof. reflexivity. Qed.
Lemma wr4_3 a b c d v : wr [a; b; c; d] 3 v = [a; b; c; v]. Proof. reflexivity. Qed.

(* ---- cdb_hash.c, cdbmake_hash.c ---- *)
Lemma hashadd_z h c : (h < 4294967296)%N -> (c < 256)%N ->
  wrapu 32 (Z.lxor (wrapu 32 (wrapu 32 (Z.of_N h) + wrapu 32 (Z.shiftl (Z.of_N h) 5))) (wrapu 32 (wrapu 8 (Z.of_N c))))
  = Z.of_N (hashadd h c).
Proof.
  intros Hh Hc. unfold hashadd, M32.
  rewrite ofN_lxor, N2Z.inj_mod, N2Z.inj_add, ofN_shiftl.
  rewrite (wrapu8_small (Z.of_N c)) by lia.
  rewrite (wrapu32_small (Z.of_N c)) by lia.
  rewrite (wrapu32_small (Z.of_N h)) by lia.
  rewrite Z.shiftl_mul_pow2 by lia.
  rewrite (wrapu32 (_ * _)), (wrapu32 (_ + _)), Z.add_mod_idemp_r by lia.
  change (Z.of_N 4294967296) with 4294967296. change (Z.of_N 5) with 5.
  apply wrapu32_small. apply lxor_bound32; [|lia].
  apply Z.mod_pos_bound. lia.
Qed.

Lemma hashadd_lt h c : (h < 4294967296)%N -> (c < 256)%N -> (hashadd h c < 4294967296)%N.
Proof.
  intros Hh Hc. pose proof (hashadd_z h c Hh Hc) as E.
  assert (0 <= Z.of_N (hashadd h c) < 4294967296); [|lia].
  rewrite <- E. rewrite wrapu32. apply Z.mod_pos_bound. lia.
Qed.

Ltac cdb_hash_red := cbv beta iota zeta delta [C_cdb_hash.set_v_buf C_cdb_hash.set_v_len C_cdb_hash.set_v_h C_cdb_hash.set_a_buf
  C_cdb_hash.v_buf C_cdb_hash.v_len C_cdb_hash.v_h C_cdb_hash.a_buf].

Lemma cdb_hash_loop fuel0 : forall (rest pre : bytes) (h : N) (fuel : nat),
  bytes_ok rest -> Z.of_nat (length rest) < 4294967296 -> (h < 4294967296)%N -> (length rest < fuel)%nat ->
  exists b l a, C_cdb_hash.loop1 fuel0 fuel {| C_cdb_hash.v_buf := Z.of_nat (length pre); C_cdb_hash.v_len := Z.of_nat (length rest);
                                               C_cdb_hash.v_h := Z.of_N h; C_cdb_hash.a_buf := zs (pre ++ rest) |}
    = ONormal {| C_cdb_hash.v_buf := b; C_cdb_hash.v_len := l; C_cdb_hash.v_h := Z.of_N (fold_left hashadd rest h); C_cdb_hash.a_buf := a |}.
Proof.
  induction rest as [|c rest IH]; intros pre h fuel Hok Hlen Hh Hfuel; (destruct fuel as [|fuel]; [simpl in Hfuel; lia|]).
  - cbn [C_cdb_hash.loop1]. cdb_hash_red. cbn [length Z.of_nat Z.eqb fold_left]. do 3 eexists. reflexivity.
  - apply bytes_ok_cons in Hok as [Hc Hok].
    cbn [C_cdb_hash.loop1]. cdb_hash_red.
    destruct (Z.of_nat (length (c :: rest)) =? 0) eqn:E; [cbn [length] in E; lia|].
    rewrite !wrapu32_idem, rd_zs_mid, hashadd_z by assumption.
    replace (Z.of_nat (length pre) + 1) with (Z.of_nat (length (pre ++ [c]))) by (rewrite app_length; cbn [length]; lia).
    replace (wrapu 32 (Z.of_nat (length (c :: rest)) - 1)) with (Z.of_nat (length rest))
      by (rewrite wrapu32_small; cbn [length] in *; lia).
    rewrite (app_cons_snoc pre c rest). cbn [fold_left].
    apply IH; [exact Hok|cbn [length] in Hlen; lia|apply hashadd_lt; assumption|cbn [length] in Hfuel; lia].
Qed.


(* ---- constmap.c hash(), case_lowerb.c, case_diffb.c: the byte folded ---- *)
(* ch = *s++ - 'A' as unsigned char *)
Lemma fold_sub c : (c < 256)%N ->
  wrapu 8 (wraps 32 (wraps 32 (wraps 8 (Z.of_N c)) - 65)) = Z.of_N ((c + 256 - 65) mod 256).
Proof.
  intros Hc.
  apply Z.eqb_eq.
  apply (byte_sweep (fun c => wrapu 8 (wraps 32 (wraps 32 (wraps 8 (Z.of_N c)) - 65)) =? Z.of_N ((c + 256 - 65) mod 256))); [|exact Hc].
  vm_compute. reflexivity.
Qed.

Lemma fold_sub_lt c : ((c + 256 - 65) mod 256 < 256)%N.
Proof. apply N.mod_lt. discriminate. Qed.

Lemma cm_hashadd_z h ch : (h < 18446744073709551616)%N -> (ch < 18446744073709551616)%N ->
  wrapu 64 (Z.lxor (wrapu 64 (wrapu 64 (Z.shiftl (Z.of_N h) 5) + Z.of_N h)) (wrapu 64 (Z.of_N ch)))
  = Z.of_N (N.lxor ((N.shiftl h 5 + h) mod M64) ch).
Proof.
  intros Hh Hc. unfold M64.
  rewrite ofN_lxor, N2Z.inj_mod, N2Z.inj_add, ofN_shiftl.
  rewrite (wrapu64_small (Z.of_N ch)) by lia.
  rewrite Z.shiftl_mul_pow2 by lia.
  rewrite (wrapu64 (_ * _)), (wrapu64 (_ + _)), Z.add_mod_idemp_l by lia.
  change (Z.of_N 18446744073709551616) with 18446744073709551616. change (Z.of_N 5) with 5.
  apply wrapu64_small. apply lxor_bound64; [|lia].
  apply Z.mod_pos_bound. lia.
Qed.

Lemma cm_ch_lt c : (c < 256)%N -> (cm_ch c < 18446744073709551616)%N.
Proof.
  intros Hc. unfold cm_ch, FOLD_MAX. pose proof (fold_sub_lt c) as L.
  cbv zeta. destruct (_ <=? 25)%N; lia.
Qed.

Lemma cm_hashadd_lt h c : (h < 18446744073709551616)%N -> (c < 256)%N -> (cm_hashadd h c < 18446744073709551616)%N.
Proof.
  intros Hh Hc. pose proof (cm_hashadd_z h (cm_ch c) Hh (cm_ch_lt c Hc)) as E.
  unfold cm_hashadd.
  assert (0 <= Z.of_N (N.lxor ((N.shiftl h 5 + h) mod M64) (cm_ch c)) < 18446744073709551616); [|lia].
  rewrite <- E. rewrite wrapu64. apply Z.mod_pos_bound. lia.
Qed.

Ltac cm_hash_red := cbv beta iota zeta delta [C_cm_hash.set_v_s C_cm_hash.set_v_len C_cm_hash.set_v_ch C_cm_hash.set_v_h C_cm_hash.set_a_s
  C_cm_hash.v_s C_cm_hash.v_len C_cm_hash.v_ch C_cm_hash.v_h C_cm_hash.a_s obind].

Lemma cm_hash_loop fuel0 : forall (rest pre : bytes) (h : N) (ch0 : Z) (fuel : nat),
  bytes_ok rest -> Z.of_nat (length rest) < 2147483648 -> (h < 18446744073709551616)%N -> (length rest < fuel)%nat ->
  exists p l x a, C_cm_hash.loop1 fuel0 fuel {| C_cm_hash.v_s := Z.of_nat (length pre); C_cm_hash.v_len := Z.of_nat (length rest);
                                               C_cm_hash.v_ch := ch0; C_cm_hash.v_h := Z.of_N h; C_cm_hash.a_s := zs (pre ++ rest) |}
    = ONormal {| C_cm_hash.v_s := p; C_cm_hash.v_len := l; C_cm_hash.v_ch := x;
                 C_cm_hash.v_h := Z.of_N (fold_left cm_hashadd rest h); C_cm_hash.a_s := a |}.
Proof.
  induction rest as [|c rest IH]; intros pre h ch0 fuel Hok Hlen Hh Hfuel; (destruct fuel as [|fuel]; [simpl in Hfuel; lia|]).
  - cbn [C_cm_hash.loop1]. cm_hash_red. cbn [length Z.of_nat Z.gtb Z.compare b2z Z.eqb fold_left]. do 4 eexists. reflexivity.
  - apply bytes_ok_cons in Hok as [Hc Hok].
    cbn [C_cm_hash.loop1]. cm_hash_red.
    rewrite !b2z_eqb0.
    destruct (Z.of_nat (length (c :: rest)) >? 0) eqn:E; [|cbn [length] in E; lia].
    cbn [negb].
    rewrite rd_zs_mid, fold_sub by exact Hc.
    change (wraps 32 (90 - 65)) with 25. change (wraps 32 (97 - 65)) with 32.
    pose proof (fold_sub_lt c) as Hn.
    assert (Ecm : cm_ch c = if ((c + 256 - 65) mod 256 <=? 25)%N then ((c + 256 - 65) mod 256 + 32)%N else ((c + 256 - 65) mod 256)%N)
      by reflexivity.
    remember ((c + 256 - 65) mod 256)%N as n eqn:En in *. clear En.
    rewrite (wraps32_small (Z.of_N n)) by lia.
    assert (El : (Z.of_N n <=? 25) = (n <=? 25)%N) by lia.
    rewrite El.
    assert (Est : forall hh, Z.of_N hh = Z.of_N (cm_hashadd h c) ->
      exists p l x a, C_cm_hash.loop1 fuel0 fuel {| C_cm_hash.v_s := Z.of_nat (length pre) + 1;
         C_cm_hash.v_len := wraps 32 (Z.of_nat (length (c :: rest)) - 1); C_cm_hash.v_ch := Z.of_N (cm_ch c);
         C_cm_hash.v_h := Z.of_N hh; C_cm_hash.a_s := zs (pre ++ c :: rest) |}
       = ONormal {| C_cm_hash.v_s := p; C_cm_hash.v_len := l; C_cm_hash.v_ch := x;
                 C_cm_hash.v_h := Z.of_N (fold_left cm_hashadd (c :: rest) h); C_cm_hash.a_s := a |}).
    { intros hh Ehh. rewrite Ehh.
      replace (Z.of_nat (length pre) + 1) with (Z.of_nat (length (pre ++ [c]))) by (rewrite app_length; cbn [length]; lia).
      replace (wraps 32 (Z.of_nat (length (c :: rest)) - 1)) with (Z.of_nat (length rest))
        by (rewrite wraps32_small; cbn [length] in *; lia).
      rewrite (app_cons_snoc pre c rest). cbn [fold_left].
      apply IH; [exact Hok|cbn [length] in Hlen; lia|apply cm_hashadd_lt; assumption|cbn [length] in Hfuel; lia]. }
    pose proof (cm_ch_lt c Hc) as Hch.
    destruct (n <=? 25)%N eqn:Ele; cbn [negb]; cm_hash_red.
    + replace (wrapu 8 (wraps 32 (Z.of_N n + 32))) with (Z.of_N (cm_ch c))
        by (rewrite Ecm, wraps32_small, wrapu8_small; lia).
      rewrite cm_hashadd_z by assumption. apply Est. reflexivity.
    + rewrite <- Ecm. rewrite cm_hashadd_z by assumption. apply Est. reflexivity.
Qed.


(* case_lowerb.c: x = *s - 'A'; if (x <= 'Z' - 'A') *s = x + 'a' *)
Lemma lowerb_byte c : (c < 256)%N ->
  if ((c + 256 - 65) mod 256 <=? 25)%N
  then wrapu 8 (wraps 8 (wraps 32 (Z.of_N ((c + 256 - 65) mod 256) + 97))) = Z.of_N (lower c)
  else lower c = c.
Proof.
  intros Hc.
  pose proof (byte_sweep (fun c => if ((c + 256 - 65) mod 256 <=? 25)%N
      then wrapu 8 (wraps 8 (wraps 32 (Z.of_N ((c + 256 - 65) mod 256) + 97))) =? Z.of_N (lower c)
      else (lower c =? c)%N) eq_refl c Hc) as H.
  cbv beta in H. destruct (_ <=? 25)%N; [apply Z.eqb_eq|apply N.eqb_eq]; exact H.
Qed.

Ltac case_lowerb_red := cbv beta iota zeta delta [C_case_lowerb.set_v_s C_case_lowerb.set_v_len C_case_lowerb.set_v_x C_case_lowerb.set_a_s
  C_case_lowerb.v_s C_case_lowerb.v_len C_case_lowerb.v_x C_case_lowerb.a_s obind].

Lemma case_lowerb_loop fuel0 : forall (rest pre : bytes) (x0 : Z) (fuel : nat),
  bytes_ok rest -> Z.of_nat (length rest) < 4294967296 -> (length rest < fuel)%nat ->
  exists p l x, C_case_lowerb.loop1 fuel0 fuel {| C_case_lowerb.v_s := Z.of_nat (length pre); C_case_lowerb.v_len := Z.of_nat (length rest);
                                               C_case_lowerb.v_x := x0; C_case_lowerb.a_s := zs (pre ++ rest) |}
    = ONormal {| C_case_lowerb.v_s := p; C_case_lowerb.v_len := l; C_case_lowerb.v_x := x;
                 C_case_lowerb.a_s := zs (pre ++ lowers rest) |}.
Proof.
  induction rest as [|c rest IH]; intros pre x0 fuel Hok Hlen Hfuel; (destruct fuel as [|fuel]; [simpl in Hfuel; lia|]).
  - cbn [C_case_lowerb.loop1]. case_lowerb_red. change (wrapu 32 0) with 0.
    cbn [length Z.of_nat Z.gtb Z.compare b2z Z.eqb lowers map]. do 3 eexists. reflexivity.
  - apply bytes_ok_cons in Hok as [Hc Hok].
    cbn [C_case_lowerb.loop1]. case_lowerb_red. change (wrapu 32 0) with 0.
    rewrite !b2z_eqb0.
    destruct (Z.of_nat (length (c :: rest)) >? 0) eqn:E; [|cbn [length] in E; lia].
    cbn [negb].
    rewrite rd_zs_mid, fold_sub by exact Hc.
    change (wraps 32 (90 - 65)) with 25.
    pose proof (fold_sub_lt c) as Hn. pose proof (lowerb_byte c Hc) as Hb.
    remember ((c + 256 - 65) mod 256)%N as n eqn:En in *. clear En.
    rewrite (wraps32_small (Z.of_N n)) by lia.
    assert (El : (Z.of_N n <=? 25) = (n <=? 25)%N) by lia.
    rewrite El.
    assert (Est : exists p l x, C_case_lowerb.loop1 fuel0 fuel {| C_case_lowerb.v_s := Z.of_nat (length pre) + 1;
         C_case_lowerb.v_len := wrapu 32 (Z.of_nat (length (c :: rest)) - 1); C_case_lowerb.v_x := Z.of_N n;
         C_case_lowerb.a_s := zs (pre ++ lower c :: rest) |}
       = ONormal {| C_case_lowerb.v_s := p; C_case_lowerb.v_len := l; C_case_lowerb.v_x := x;
                 C_case_lowerb.a_s := zs (pre ++ lowers (c :: rest)) |}).
    { replace (Z.of_nat (length pre) + 1) with (Z.of_nat (length (pre ++ [lower c]))) by (rewrite app_length; cbn [length]; lia).
      replace (wrapu 32 (Z.of_nat (length (c :: rest)) - 1)) with (Z.of_nat (length rest))
        by (rewrite wrapu32_small; cbn [length] in *; lia).
      change (lowers (c :: rest)) with (lower c :: lowers rest). rewrite (app_cons_snoc pre (lower c) rest), (app_cons_snoc pre (lower c) (lowers rest)).
      apply IH; [exact Hok|cbn [length] in Hlen; lia|cbn [length] in Hfuel; lia]. }
    destruct (n <=? 25)%N eqn:Ele; cbn [negb]; case_lowerb_red.
    + rewrite Hb, wr_zs_mid. exact Est.
    + rewrite Hb in Est. exact Est.
Qed.


(* case_diffb.c: x = *s++ - 'A'; if (x <= 'Z' - 'A') x += 'a'; else x += 'A' *)
Lemma diffb_byte c : (c < 256)%N ->
  (if ((c + 256 - 65) mod 256 <=? 25)%N
   then wrapu 8 (wraps 32 (Z.of_N ((c + 256 - 65) mod 256) + 97))
   else wrapu 8 (wraps 32 (Z.of_N ((c + 256 - 65) mod 256) + 65))) = Z.of_N (lower c) /\ (lower c < 256)%N.
Proof.
  intros Hc.
  pose proof (byte_sweep (fun c => ((if ((c + 256 - 65) mod 256 <=? 25)%N
   then wrapu 8 (wraps 32 (Z.of_N ((c + 256 - 65) mod 256) + 97))
   else wrapu 8 (wraps 32 (Z.of_N ((c + 256 - 65) mod 256) + 65))) =? Z.of_N (lower c)) && (lower c <? 256)%N) eq_refl c Hc) as H.
  cbv beta in H. apply andb_true_iff in H as [H1 H2]. split; [apply Z.eqb_eq; exact H1|apply N.ltb_lt; exact H2].
Qed.

Ltac case_diffb_red := cbv beta iota zeta delta [C_case_diffb.set_v_s C_case_diffb.set_v_len C_case_diffb.set_v_t C_case_diffb.set_v_x
  C_case_diffb.set_v_y C_case_diffb.set_a_s C_case_diffb.set_a_t
  C_case_diffb.v_s C_case_diffb.v_len C_case_diffb.v_t C_case_diffb.v_x C_case_diffb.v_y C_case_diffb.a_s C_case_diffb.a_t].

Definition diffb_post (ra rb : bytes) (o : outcome C_case_diffb.st) : Prop :=
  match o with
  | ONormal _ => beq (lowers ra) (lowers rb) = true
  | OReturn v _ => v <> 0 /\ beq (lowers ra) (lowers rb) = false
  | _ => False
  end.

Lemma diffb_post_eq c d ra rb o : lower c = lower d -> diffb_post ra rb o -> diffb_post (c :: ra) (d :: rb) o.
Proof.
  intros E H. unfold diffb_post in *. cbn [lowers map beq]. rewrite E, N.eqb_refl. cbn [andb]. exact H.
Qed.
Lemma diffb_post_ne c d ra rb v s : lower c <> lower d -> v <> 0 -> diffb_post (c :: ra) (d :: rb) (OReturn v s).
Proof.
  intros E H. unfold diffb_post. cbn [lowers map beq]. apply N.eqb_neq in E. rewrite E. split; [exact H|reflexivity].
Qed.

Lemma case_diffb_loop fuel0 : forall (ra rb pa pb : bytes) (x0 y0 : Z) (fuel : nat),
  bytes_ok ra -> bytes_ok rb -> length ra = length rb -> Z.of_nat (length ra) < 4294967296 -> (length ra < fuel)%nat ->
  diffb_post ra rb (C_case_diffb.loop1 fuel0 fuel
     {| C_case_diffb.v_s := Z.of_nat (length pa); C_case_diffb.v_len := Z.of_nat (length ra); C_case_diffb.v_t := Z.of_nat (length pb);
        C_case_diffb.v_x := x0; C_case_diffb.v_y := y0; C_case_diffb.a_s := zs (pa ++ ra); C_case_diffb.a_t := zs (pb ++ rb) |}).
Proof.
  induction ra as [|c ra IH]; intros rb pa pb x0 y0 fuel Hoka Hokb Hl Hlen Hfuel; (destruct fuel as [|fuel]; [simpl in Hfuel; lia|]);
    (destruct rb as [|d rb]; [try discriminate Hl|try discriminate Hl]).
  - cbn [C_case_diffb.loop1]. case_diffb_red. change (wrapu 32 0) with 0.
    cbn [length Z.of_nat Z.gtb Z.compare b2z Z.eqb]. reflexivity.
  - apply bytes_ok_cons in Hoka as [Hc Hoka]. apply bytes_ok_cons in Hokb as [Hd Hokb].
    cbn [C_case_diffb.loop1]. case_diffb_red. change (wrapu 32 0) with 0.
    rewrite !b2z_eqb0.
    destruct (Z.of_nat (length (c :: ra)) >? 0) eqn:E; [|cbn [length] in E; lia].
    cbn [negb].
    rewrite !rd_zs_mid, !fold_sub by assumption.
    change (wraps 32 (90 - 65)) with 25.
    pose proof (fold_sub_lt c) as Hn. pose proof (diffb_byte c Hc) as [Hbc Hlc].
    pose proof (fold_sub_lt d) as Hm. pose proof (diffb_byte d Hd) as [Hbd Hld].
    remember ((c + 256 - 65) mod 256)%N as n eqn:En in *. clear En.
    remember ((d + 256 - 65) mod 256)%N as m eqn:Em in *.
    assert (Eln : (Z.of_N n <=? 25) = (n <=? 25)%N) by lia.
    assert (Elm : (Z.of_N m <=? 25) = (m <=? 25)%N) by lia.
    assert (Ele : (Z.of_N (lower c) =? Z.of_N (lower d)) = (lower c =? lower d)%N) by lia.
    rewrite (wraps32_small (Z.of_N n)) by lia. rewrite Eln.
    destruct (n <=? 25)%N; cbn [negb]; rewrite Hbc; rewrite obind_normal; case_diffb_red;
    rewrite !rd_zs_mid, !fold_sub by assumption; rewrite <- Em; change (wraps 32 (90 - 65)) with 25; rewrite !b2z_eqb0;
    rewrite (wraps32_small (Z.of_N m)) by lia; rewrite Elm;
    (destruct (m <=? 25)%N; cbn [negb]; rewrite Hbd; rewrite obind_normal; case_diffb_red;
     rewrite !b2z_eqb0, negb_involutive, !(wraps32_small (Z.of_N (lower _))), Ele by lia;
     (destruct (lower c =? lower d)%N eqn:Ecd;
      [apply N.eqb_eq in Ecd; apply diffb_post_eq; [exact Ecd|];
       replace (Z.of_nat (length pa) + 1) with (Z.of_nat (length (pa ++ [c]))) by (rewrite app_length; cbn [length]; lia);
       replace (Z.of_nat (length pb) + 1) with (Z.of_nat (length (pb ++ [d]))) by (rewrite app_length; cbn [length]; lia);
       replace (wrapu 32 (Z.of_nat (length (c :: ra)) - 1)) with (Z.of_nat (length ra))
         by (rewrite wrapu32_small; cbn [length] in *; lia);
       rewrite (app_cons_snoc pa c ra), (app_cons_snoc pb d rb);
       apply IH; [exact Hoka|exact Hokb|cbn [length] in Hl; lia|cbn [length] in Hlen; lia|cbn [length] in Hfuel; lia]
      |apply N.eqb_neq in Ecd; apply diffb_post_ne; [exact Ecd|];
       rewrite !(wrapu32_small (Z.of_N (lower _))), !(wraps32_small (Z.of_N (lower _))), wraps32_small by lia; lia])).
Qed.


(* ---------------------------------------------------------------- the REQUIRED statements ---------------------------------------------------------------- *)
(* REQUIRED *)
Theorem gen_cm_hash_eq : forall s : bytes, bytes_ok s -> Z.of_nat (length s) < 2 ^ 31 ->
  retval (C_cm_hash.run (S (length s)) (zs s) 0 (Z.of_nat (length s))) = Some (Z.of_N (cm_hash s)).
Proof.
  intros s Hok Hlen. rewrite p31 in Hlen.
  unfold C_cm_hash.run, C_cm_hash.body. cm_hash_red.
  destruct (cm_hash_loop (S (length s)) s [] 5381%N 0 (S (length s)) Hok Hlen) as (p & l & x & a & E); [reflexivity|lia|].
  cbn [app length Z.of_nat] in E. rewrite (wrapu64_small 5381) by lia. change 5381 with (Z.of_N 5381).
  rewrite E. reflexivity.
Qed.

(* REQUIRED *)
Theorem gen_cdb_hash_eq : forall s : bytes, bytes_ok s -> Z.of_nat (length s) < 2 ^ 32 ->
  retval (C_cdb_hash.run (S (length s)) (zs s) 0 (Z.of_nat (length s))) = Some (Z.of_N (cdb_hash s)).
Proof.
  intros s Hok Hlen. rewrite p32 in Hlen.
  unfold C_cdb_hash.run, C_cdb_hash.body. cdb_hash_red.
  destruct (cdb_hash_loop (S (length s)) s [] 5381%N (S (length s)) Hok Hlen) as (b & l & a & E); [reflexivity|lia|].
  cbn [app length Z.of_nat] in E. rewrite (wrapu32_small 5381) by lia. change 5381 with (Z.of_N 5381).
  rewrite E. reflexivity.
Qed.

(* REQUIRED *)
Theorem gen_cdbmake_hashadd_eq : forall h c : N, (h < 4294967296)%N -> (c < 256)%N ->
  retval (C_cdbmake_hashadd.run 1 (Z.of_N h) (Z.of_N c)) = Some (Z.of_N (hashadd h c)).
Proof.
  intros h c Hh Hc.
  unfold C_cdbmake_hashadd.run, C_cdbmake_hashadd.body.
  cbv beta iota zeta delta [C_cdbmake_hashadd.set_v_h C_cdbmake_hashadd.set_v_c C_cdbmake_hashadd.v_h C_cdbmake_hashadd.v_c retval option_map fst].
  rewrite !wrapu32_idem. rewrite hashadd_z by assumption. reflexivity.
Qed.

(* REQUIRED *)
Theorem gen_cdb_unpack_eq : forall b0 b1 b2 b3 : N, bytes_ok [b0; b1; b2; b3] ->
  retval (C_cdb_unpack.run 1 (zs [b0; b1; b2; b3]) 0) = Some (Z.of_N (unpack32 [b0; b1; b2; b3])).
Proof.
  intros b0 b1 b2 b3 H.
  apply bytes_ok_cons in H as [H0 H]. apply bytes_ok_cons in H as [H1 H].
  apply bytes_ok_cons in H as [H2 H]. apply bytes_ok_cons in H as [H3 _].
  unfold C_cdb_unpack.run, C_cdb_unpack.body.
  cbv beta iota zeta delta [C_cdb_unpack.set_v_buf C_cdb_unpack.set_v_num C_cdb_unpack.set_a_buf C_cdb_unpack.v_buf C_cdb_unpack.v_num C_cdb_unpack.a_buf retval option_map fst].
  change (rd (zs [b0; b1; b2; b3]) (0 + 3)) with (Z.of_N b3).
  change (rd (zs [b0; b1; b2; b3]) (0 + 2)) with (Z.of_N b2).
  change (rd (zs [b0; b1; b2; b3]) (0 + 1)) with (Z.of_N b1).
  change (rd (zs [b0; b1; b2; b3]) (0 + 0)) with (Z.of_N b0).
  rewrite !Z.shiftl_mul_pow2 by lia. change (2 ^ 8) with 256.
  repeat match goal with
  | |- context [wrapu 8 ?x] => rewrite (wrapu8_small x) by lia
  | |- context [wrapu 32 ?x] => rewrite (wrapu32_small x) by lia
  end.
  unfold unpack32. f_equal. lia.
Qed.

(* REQUIRED: the four bytes written are pack32 n *)
Theorem gen_cdbmake_pack_eq : forall (n : N) (old : list Z), (n < 4294967296)%N -> length old = 4%nat ->
  option_map (fun r => C_cdbmake_pack.a_buf (snd r)) (C_cdbmake_pack.run 1 old 0 (Z.of_N n)) = Some (zs (pack32 n)).
Proof.
  intros n old Hn Hlen.
  destruct old as [|o0 [|o1 [|o2 [|o3 [|o4 old]]]]]; try discriminate Hlen.
  unfold C_cdbmake_pack.run, C_cdbmake_pack.body.
  cbv beta iota zeta delta [C_cdbmake_pack.set_v_buf C_cdbmake_pack.set_v_num C_cdbmake_pack.set_a_buf C_cdbmake_pack.v_buf C_cdbmake_pack.v_num C_cdbmake_pack.a_buf option_map snd].
  change (0 + 1 + 1 + 1) with 3. change (0 + 1 + 1) with 2. change (0 + 1) with 1.
  rewrite wr4_0, wr4_1, wr4_2, wr4_3.
  rewrite !wrapu32_idem, !wrapu8_idem.
  rewrite !Z.shiftr_div_pow2 by lia. change (2 ^ 8) with 256.
  rewrite (wrapu32_small (Z.of_N n)) by lia.
  rewrite (wrapu32_small (Z.of_N n / 256)) by lia.
  rewrite (wrapu32_small (Z.of_N n / 256 / 256)) by lia.
  rewrite (wrapu32_small (Z.of_N n / 256 / 256 / 256)) by lia.
  rewrite !Z.div_div by lia. change (256 * 256) with 65536. change (65536 * 256) with 16777216.
  unfold pack32, zs, map. rewrite !wrapu8, !N2Z.inj_mod, !N2Z.inj_div. reflexivity.
Qed.

(* REQUIRED: case_diffb returns 0 exactly when the model's case-insensitive comparison says equal *)
Theorem gen_case_diffb_eq : forall a b : bytes, bytes_ok a -> bytes_ok b -> length a = length b -> Z.of_nat (length a) < 2 ^ 32 ->
  exists v, retval (C_case_diffb.run (S (length a)) (zs a) 0 (Z.of_nat (length a)) (zs b) 0) = Some v /\
            (v = 0 <-> case_eqb a b = true).
Proof.
  intros a b Hoka Hokb Hl Hlen. rewrite p32 in Hlen.
  unfold C_case_diffb.run, C_case_diffb.body.
  pose proof (case_diffb_loop (S (length a)) a b [] [] 0 0 (S (length a)) Hoka Hokb Hl Hlen (Nat.lt_succ_diag_r _)) as H.
  cbn [app length Z.of_nat] in H. unfold case_eqb.
  destruct (C_case_diffb.loop1 _ _ _) as [s|v s|s|s|]; cbn [diffb_post] in H; try contradiction; cbn [obind retval option_map fst].
  - exists 0. split; [reflexivity|]. split; [intros _; exact H|reflexivity].
  - destruct H as [Hv Hb]. exists v. split; [reflexivity|]. rewrite Hb. split; [intros E; contradiction|discriminate].
Qed.

(* REQUIRED: case_lowerb rewrites the array to the model's lowers *)
Theorem gen_case_lowerb_eq : forall s : bytes, bytes_ok s -> Z.of_nat (length s) < 2 ^ 32 ->
  option_map (fun r => C_case_lowerb.a_s (snd r)) (C_case_lowerb.run (S (length s)) (zs s) 0 (Z.of_nat (length s))) = Some (zs (lowers s)).
Proof.
  intros s Hok Hlen. rewrite p32 in Hlen.
  unfold C_case_lowerb.run, C_case_lowerb.body.
  destruct (case_lowerb_loop (S (length s)) s [] 0 (S (length s)) Hok Hlen) as (p & l & x & E); [lia|].
  cbn [app length Z.of_nat] in E.
  rewrite E. reflexivity.
Qed.

