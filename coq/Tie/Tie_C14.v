(* tie for C14: qmail-local.c exempts the two marker senders from the owner rewrite (Local/Owner.v forward_sender) *)
From Coq Require Import ZArith.
From NQ Require Import gen.Params_gen.
Local Open Scope Z_scope.
Lemma tie_owner_exempts_markers : Params_gen.local_owner_exempts_markers = 1.
Proof. reflexivity. Qed.
