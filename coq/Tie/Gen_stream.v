(* Composition: any sequence of output operations run through the GENERATED substdo.c (Tie/Gen_substdio.v: each generated function
   simulates its model) delivers exactly what Mem/SubstdioProofs.v proves of the model: as long as no operation failed, what the
   write oracle accepted followed by the s->p bytes waiting in the buffer is the concatenation of everything that was put, whatever
   the sizes, the buffer size and the script of short writes, EINTR and errors. *)
From Coq Require Import ZArith NArith List Lia Bool Arith.
From NQ Require Import Base.MiniC Base.Bytes Mem.Substdio Mem.SubstdioProofs gen.CGen Tie.GenCommon Tie.Gen_substdio.
Import ListNotations.
Local Open Scope Z_scope.

(* the C-side state between operations: buffer, s->p, number of oracle calls so far, bytes the descriptor accepted *)
Record cst := { c_x : list Z; c_p : Z; c_n : Z; c_out : list Z }.
Definition c_step (cap : Z) (script : list Z) (fuel : nat) (s : cst) (op : oop) : option (Z * cst) :=
  match op with
  | OPut d => option_map (fun r => (fst r, {| c_x := C_substdio_put.a_s__x (snd r); c_p := C_substdio_put.v_s__p (snd r); c_n := C_substdio_put.v_wr__n (snd r); c_out := C_substdio_put.a_wr__out (snd r) |}))
                (C_substdio_put.run fuel (c_x s) cap (c_p s) 1 (zs d) 0 (Z.of_nat (length d)) script (c_out s) (c_n s))
  | OBput d => option_map (fun r => (fst r, {| c_x := C_substdio_bput.a_s__x (snd r); c_p := C_substdio_bput.v_s__p (snd r); c_n := C_substdio_bput.v_wr__n (snd r); c_out := C_substdio_bput.a_wr__out (snd r) |}))
                (C_substdio_bput.run fuel (c_x s) cap (c_p s) 1 (zs d) 0 (Z.of_nat (length d)) script (c_out s) (c_n s))
  | OFlush => option_map (fun r => (fst r, {| c_x := C_substdio_flush.a_s__x (snd r); c_p := C_substdio_flush.v_s__p (snd r); c_n := C_substdio_flush.v_wr__n (snd r); c_out := C_substdio_flush.a_wr__out (snd r) |}))
                (C_substdio_flush.run fuel (c_x s) (c_p s) 1 script (c_out s) (c_n s))
  | OPutflush d => option_map (fun r => (fst r, {| c_x := C_substdio_putflush.a_s__x (snd r); c_p := C_substdio_putflush.v_s__p (snd r); c_n := C_substdio_putflush.v_wr__n (snd r); c_out := C_substdio_putflush.a_wr__out (snd r) |}))
                (C_substdio_putflush.run fuel (c_x s) (c_p s) 1 (zs d) 0 (Z.of_nat (length d)) script (c_out s) (c_n s))
  end.
(* run until the first operation that returns -1, like o_run *)
Fixpoint c_run (cap : Z) (script : list Z) (fuel : nat) (s : cst) (ops : list oop) : option (bool * cst) :=
  match ops with
  | [] => Some (true, s)
  | op :: ops' => match c_step cap script fuel s op with
                  | Some (v, s') => if v =? 0 then c_run cap script fuel s' ops' else Some (false, s')
                  | None => None
                  end
  end.

Definition ops_ok (ops : list oop) : Prop := Forall (fun op => bytes_ok (op_data op) /\ Z.of_nat (length (op_data op)) < 2 ^ 30) ops.
Fixpoint max_data (ops : list oop) : nat := match ops with [] => O | op :: r => Nat.max (length (op_data op)) (max_data r) end.

Lemma sent_bytes_ok b d b' : bytes_ok (o_out b ++ o_pend b) -> bytes_ok d -> o_out b' ++ o_pend b' = (o_out b ++ o_pend b) ++ d -> bytes_ok (o_pend b').
Proof.
  unfold bytes_ok. intros H1 H2 E. assert (H : Forall (fun c => (c < 256)%N) (o_out b' ++ o_pend b')) by (rewrite E; apply Forall_app; split; assumption).
  apply Forall_app in H. exact (proj2 H).
Qed.

Lemma c_step_sim script fuel b s op : Rep b (c_x s) (c_p s) script (c_n s) (c_out s) -> good b (op_data op) -> enough fuel b script (op_data op) ->
  exists v s', c_step (Z.of_nat (o_cap b)) script fuel s op = Some (v, s') /\ v = ret (fst (o_step b op)) /\
               Rep (snd (o_step b op)) (c_x s') (c_p s') script (c_n s') (c_out s').
Proof.
  intros HR Hg He. destruct op as [d|d| |d]; cbn [c_step o_step op_data] in *.
  - destruct (gen_substdio_put_sim b (c_x s) (c_p s) 1 script (c_n s) (c_out s) fuel d HR Hg He) as (v & st & E & Hv & HR').
    rewrite E. cbn [option_map fst snd]. eexists. eexists. split; [reflexivity|]. split; [exact Hv|exact HR'].
  - destruct (gen_substdio_bput_sim b (c_x s) (c_p s) 1 script (c_n s) (c_out s) fuel d HR Hg He) as (v & st & E & Hv & HR').
    rewrite E. cbn [option_map fst snd]. eexists. eexists. split; [reflexivity|]. split; [exact Hv|exact HR'].
  - destruct (gen_substdio_flush_sim b (c_x s) (c_p s) 1 script (c_n s) (c_out s) fuel HR Hg He) as (v & st & E & Hv & HR').
    rewrite E. cbn [option_map fst snd]. eexists. eexists. split; [reflexivity|]. split; [exact Hv|exact HR'].
  - destruct (gen_substdio_putflush_sim b (c_x s) (c_p s) 1 script (c_n s) (c_out s) fuel d HR Hg He) as (v & st & E & Hv & HR').
    rewrite E. cbn [option_map fst snd]. eexists. eexists. split; [reflexivity|]. split; [exact Hv|exact HR'].
Qed.

(* the simulation lifted to operation sequences: the generated code and the model stop at the same operation with the same verdict,
   in states related by Rep *)
Lemma c_run_sim script fuel : forall ops b s, Rep b (c_x s) (c_p s) script (c_n s) (c_out s) -> ops_ok ops ->
  bytes_ok (o_out b ++ o_pend b) -> (0 < o_cap b)%nat -> Z.of_nat (o_cap b) < 2 ^ 30 -> OInv b ->
  (length script + max_data ops + o_cap b + 4 <= fuel)%nat ->
  exists s', c_run (Z.of_nat (o_cap b)) script fuel s ops = Some (fst (o_run b ops), s') /\
             Rep (snd (o_run b ops)) (c_x s') (c_p s') script (c_n s') (c_out s').
Proof.
  induction ops as [|op ops IH]; intros b s HR Hops Hb Hc0 Hc Hinv Hf; cbn [c_run o_run fst snd].
  - exists s. split; [reflexivity|exact HR].
  - inversion Hops as [|? ? [Hd Hl] Hops']; subst. cbn [max_data] in Hf.
    assert (Hpend : bytes_ok (o_pend b)) by (unfold bytes_ok in *; apply Forall_app in Hb; exact (proj2 Hb)).
    assert (Hg : good b (op_data op)) by (unfold good; repeat split; assumption).
    assert (He : enough fuel b script (op_data op)) by (unfold enough; lia).
    destruct (c_step_sim script fuel b s op HR Hg He) as (v & s1 & E & Hv & HR1).
    rewrite E. destruct (o_step b op) as [ok b1] eqn:Es. cbn [fst snd] in Hv, HR1. subst v.
    pose proof (Spec_step b op ok b1 Es) as (Hcap & Hinv1 & Hsent & _).
    destruct ok; cbn [ret].
    + change (0 =? 0) with true. cbv iota.
      assert (Hb1 : bytes_ok (o_out b1 ++ o_pend b1)).
      { specialize (Hsent eq_refl). unfold sent in Hsent. rewrite Hsent. unfold bytes_ok in *. apply Forall_app. split; assumption. }
      rewrite <- Hcap in *. 
      destruct (IH b1 s1 HR1 Hops' Hb1 Hc0 Hc (Hinv1 Hinv) ltac:(lia)) as (s' & E' & HR').
      destruct (o_run b1 ops) as [ok' b']. cbn [fst snd] in *. exists s'. split; [exact E'|exact HR'].
    + change (-1 =? 0) with false. cbv iota. exists s1. split; [reflexivity|exact HR1].
Qed.

(* the stream theorem for the generated code *)
Theorem gen_substdio_stream : forall (cap : nat) (scr : wscript) (ops : list oop) (fuel : nat),
  (0 < cap)%nat -> Z.of_nat cap < 2 ^ 30 -> ops_ok ops -> (length scr + max_data ops + cap + 4 <= fuel)%nat ->
  exists ok s, c_run (Z.of_nat cap) (map enc scr) fuel {| c_x := repeat 0 cap; c_p := 0; c_n := 0; c_out := [] |} ops = Some (ok, s) /\
    (ok = true -> c_out s ++ firstn (Z.to_nat (c_p s)) (c_x s) = zs (flat_map op_data ops)) /\
    (exists rest, zs (flat_map op_data ops) = c_out s ++ rest) /\ 0 <= c_p s <= Z.of_nat cap.
Proof.
  intros cap scr ops fuel Hc0 Hc Hops Hf.
  set (b0 := o_init cap scr). set (s0 := {| c_x := repeat 0 cap; c_p := 0; c_n := 0; c_out := [] |}).
  assert (HR0 : Rep b0 (c_x s0) (c_p s0) (map enc scr) (c_n s0) (c_out s0)).
  { unfold Rep, b0, o_init, s0. cbn [o_cap o_pend o_scr o_out c_x c_p c_n c_out length firstn]. rewrite repeat_length.
    repeat split; try reflexivity; try lia. }
  destruct (c_run_sim (map enc scr) fuel ops b0 s0 HR0 Hops) as (s' & E & HR').
  - unfold b0, o_init. cbn [o_out o_pend app]. constructor.
  - exact Hc0.
  - exact Hc.
  - apply OInv_init.
  - unfold b0, o_init. cbn [o_cap]. rewrite map_length. exact Hf.
  - unfold b0 in E at 1. cbn [o_init o_cap] in E.
    destruct (o_run b0 ops) as [ok b'] eqn:Er. cbn [fst snd] in E, HR'. exists ok, s'. split; [exact E|].
    destruct HR' as (Hlen & Hple & Hp & Hfirst & _ & _ & Hout).
    pose proof (o_run_prefix cap scr ops ok b' Er) as (rest & Hpre).
    pose proof (Spec_run ops b0 ok b' Er) as (Hcap & _).
    split; [|split].
    + intros ->. pose proof (o_run_stream cap scr ops b' Er) as Hs.
      rewrite Hout, Hp, Nat2Z.id, Hfirst. unfold zs. rewrite <- map_app, Hs. reflexivity.
    + exists (zs rest). rewrite Hout, Hpre. unfold zs. rewrite map_app. reflexivity.
    + rewrite Hp. unfold b0, o_init in Hcap. cbn [o_cap] in Hcap. lia.
Qed.
