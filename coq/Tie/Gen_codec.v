(* The two SMTP DATA codecs as generated from today's sources: blast() of qmail-remote.c (C06) and blast() with put() of
   qmail-smtpd.c (C05)  =  the models of Smtp/Codec.v that the theorems of C05/C06 are about.
   Input and output descriptors are file-scope state of the generated functions: g_ssin__in_ (the bytes the descriptor will
   deliver), g_ssin__pos_ (how many were consumed), g_smtpto__out_ / g_qqt__out_ (what was written).  Functions that report and
   exit end the run with a negative code: perm_partialline -3, straynewline -4; in qmail-smtpd running out of input (where the
   read function exits) is -9.  REQUIRED statements must be proved exactly as stated. *)
From Coq Require Import ZArith NArith List Lia.
From NQ Require Import Base.MiniC Base.Bytes Smtp.Codec gen.CGen Tie.GenCommon Tie.GenAux.
Import ListNotations.
Local Open Scope Z_scope.


(* Proof conventions.  Nothing below mentions a name invented by the translator (s1, x5, o7, ...); only names that come
   from the C sources are used (v_ch, v_state, a_qqt__out, set_v_pos, ...) and the literal arrays a_lit1 .. a_lit5 of
   C_sblast (delivered, DELIVERED, received, RECEIVED, CR LF), which have to be named in a record literal.
   Outbound: the while loop (loop2) is described by post2 (every exit: LF seen, end of input after CR, end of input
   inside a line), the for loop (loop1) by post1; both are inductions on the fuel with the remaining input generalised;
   the model is used without its final dot line (renc0), which body() appends.
   Inbound: one loop lemma (sb_loop) carries the decoder state and the whole header counter.  The continuations of obind
   are kept as local definitions while a statement is reduced (hide_all / show_next), because reducing the setters under
   the binder of a continuation that holds a call of put() multiplies the term by the number of fields at every copy-back.
   The counter statements only assign, so they are run without case analysis: if (b) field = v is merged into one
   assignment (mrg_ lemmas, sb_merge_eq); the six counter fields that come out (nested conditionals) are then proved equal
   to the fields of hstep by enumeration of pos = 0..9 and of the comparisons, in separate abstract sub-proofs.  The switch
   is run for the five states and the four classes of byte. *)
From Coq Require Import Bool ZifyBool.
Ltac Zify.zify_post_hook ::= Z.div_mod_to_equations.

Lemma obind_normal {S} (s : S) f : obind (ONormal s) f = f s. Proof. reflexivity. Qed.
Lemma obind_return {S} v (s : S) f : obind (OReturn v s) f = OReturn v s. Proof. reflexivity. Qed.
Lemma obind_break {S} (s : S) f : obind (OBreak s) f = OBreak s. Proof. reflexivity. Qed.
Lemma obind_continue {S} (s : S) f : obind (OContinue s) f = OContinue s. Proof. reflexivity. Qed.
Lemma b2z_if {A} (b : bool) (x y : A) : (if b2z b =? 0 then x else y) = if b then y else x.
Proof. destruct b; reflexivity. Qed.

Ltac sput_simpl := cbv [C_sput.set_v_ch C_sput.set_v_bytestooverflow C_sput.set_v_qqt__fail C_sput.set_a_ch C_sput.set_a_qqt__out
  C_sput.v_ch C_sput.v_bytestooverflow C_sput.v_qqt__fail C_sput.a_ch C_sput.a_qqt__out].

Lemma sput_run (f : nat) (a : list Z) (off bto fail : Z) (out : list Z) :
  C_sput.run f a off bto fail out =
  Some (0, {| C_sput.v_ch := off;
              C_sput.v_bytestooverflow := if bto =? 0 then bto else wrapu 32 (bto - 1);
              C_sput.v_qqt__fail := if bto =? 0 then fail else if wrapu 32 (bto - 1) =? 0 then 1 else fail;
              C_sput.a_ch := a;
              C_sput.a_qqt__out := out ++ firstn 1 (skipn (Z.to_nat off) a) |}).
Proof.
  unfold C_sput.run, C_sput.body. sput_simpl. rewrite b2z_if.
  destruct (bto =? 0); [reflexivity|].
  destruct (wrapu 32 (bto - 1) =? 0); reflexivity.
Qed.

(* ---------------------------------------------------------------- outbound: the model without the final dot line *)
Local Open Scope N_scope.
Fixpoint renc0 (st : rst) (m : bytes) : option bytes :=
  match m with
  | [] => match st with RTop => Some [] | RIn => None | RCr => Some [CR; LF] end
  | ch :: m' => let (o, s) := rstep st ch in option_map (app o) (renc0 s m')
  end.
Lemma renc_renc0 st m : renc st m = option_map (fun r => r ++ [DOT; CR; LF]) (renc0 st m).
Proof.
  revert st. induction m as [|ch m IH]; intros st; [destruct st; reflexivity|].
  cbn [renc renc0]. destruct (rstep st ch) as [o s]. rewrite IH.
  destruct (renc0 s m) as [r|]; cbn [option_map]; [rewrite app_assoc|]; reflexivity.
Qed.
Definition dotp (c : N) : bytes := if c =? DOT then [DOT] else [].
(* what remains to be produced at the test of the while loop, [c] just read *)
Definition wrem (c : N) (rest : bytes) : option bytes := let (o, s) := wt c in option_map (app o) (renc0 s rest).
(* the while loop ends normally with [o2] written and [rest2] unread: the outer loop adds CR LF and goes on *)
Definition wspec (c : N) (rest o2 rest2 : bytes) : Prop :=
  wrem c rest = option_map (fun t => o2 ++ CR :: LF :: t) (renc0 RTop rest2).

Lemma renc0_top c rest : renc0 RTop (c :: rest) = option_map (app (dotp c)) (wrem c rest).
Proof.
  cbn [renc0 rstep]. unfold rtop, wrem, dotp. destruct (wt c) as [o s].
  destruct (renc0 s rest); cbn [option_map]; [rewrite app_assoc|]; reflexivity.
Qed.
Lemma wspec_lf rest : wspec LF rest [] rest.
Proof. unfold wspec, wrem. cbn. destruct (renc0 RTop rest); reflexivity. Qed.
Lemma wspec_cr_nil : wspec CR [] [] [].
Proof. reflexivity. Qed.
Lemma wspec_cr_lf rest : wspec CR (LF :: rest) [] rest.
Proof. unfold wspec, wrem. cbn. destruct (renc0 RTop rest); reflexivity. Qed.
Lemma wrem_cr_other d rest : d <> LF -> wrem CR (d :: rest) = option_map (fun t => CR :: LF :: dotp d ++ t) (wrem d rest).
Proof.
  intros Hd. unfold wrem at 1. change (wt CR) with (@nil N, RCr). cbn [renc0 rstep].
  destruct (N.eqb_spec d LF) as [E|_]; [contradiction|].
  unfold rtop, wrem, dotp. destruct (wt d) as [o s].
  destruct (renc0 s rest); cbn [option_map app]; [rewrite app_assoc|]; reflexivity.
Qed.
Lemma wspec_cr_other d rest o2 rest2 : d <> LF -> wspec d rest o2 rest2 -> wspec CR (d :: rest) (CR :: LF :: dotp d ++ o2) rest2.
Proof.
  intros Hd H. unfold wspec in *. rewrite wrem_cr_other, H by exact Hd.
  destruct (renc0 RTop rest2); cbn [option_map app]; [rewrite app_assoc|]; reflexivity.
Qed.
Lemma wt_other c : c <> LF -> c <> CR -> wt c = ([c], RIn).
Proof.
  intros H1 H2. unfold wt, classify. destruct (N.eqb_spec c 13) as [E|_]; [contradiction|].
  destruct (N.eqb_spec c 10) as [E|_]; [contradiction|]. destruct (c =? 46); reflexivity.
Qed.
Lemma wrem_other_nil c : c <> LF -> c <> CR -> wrem c [] = None.
Proof. intros H1 H2. unfold wrem. rewrite wt_other by assumption. reflexivity. Qed.
Lemma wrem_other_cons c e rest : c <> LF -> c <> CR -> wrem c (e :: rest) = option_map (cons c) (wrem e rest).
Proof.
  intros H1 H2. unfold wrem at 1. rewrite wt_other by assumption. cbn [renc0 rstep]. unfold wrem.
  destruct (wt e) as [o s]. destruct (renc0 s rest); reflexivity.
Qed.
Lemma wspec_other_cons c e rest o2 rest2 : c <> LF -> c <> CR -> wspec e rest o2 rest2 -> wspec c (e :: rest) (c :: o2) rest2.
Proof.
  intros H1 H2 H. unfold wspec in *. rewrite wrem_other_cons, H by assumption.
  destruct (renc0 RTop rest2); reflexivity.
Qed.
Lemma wrem_other_cons_none c e rest : c <> LF -> c <> CR -> wrem e rest = None -> wrem c (e :: rest) = None.
Proof. intros H1 H2 H. rewrite wrem_other_cons, H by assumption. reflexivity. Qed.
Lemma wrem_cr_other_none d rest : d <> LF -> wrem d rest = None -> wrem CR (d :: rest) = None.
Proof. intros H1 H. rewrite wrem_cr_other, H by assumption. reflexivity. Qed.
Local Close Scope N_scope.

(* ---------------------------------------------------------------- char tests, reads *)
Lemma cmpk (k : N) (c : N) : (k < 128)%N -> (c < 256)%N -> (wraps 32 (wraps 8 (Z.of_N c)) =? Z.of_N k) = (c =? k)%N.
Proof.
  intros Hk Hc.
  assert (H8 : -128 <= wraps 8 (Z.of_N c) < 128) by (rewrite wraps8; lia).
  rewrite wraps32_small by lia.
  destruct (N.eqb_spec c k) as [->|Hne].
  - rewrite wraps8_small by lia. apply Z.eqb_refl.
  - apply Z.eqb_neq. rewrite wraps8. lia.
Qed.
Lemma cmp10 c : (c < 256)%N -> (wraps 32 (wraps 8 (Z.of_N c)) =? 10) = (c =? 10)%N.
Proof. apply (cmpk 10). reflexivity. Qed.
Lemma cmp13 c : (c < 256)%N -> (wraps 32 (wraps 8 (Z.of_N c)) =? 13) = (c =? 13)%N.
Proof. apply (cmpk 13). reflexivity. Qed.
Lemma cmp46 c : (c < 256)%N -> (wraps 32 (wraps 8 (Z.of_N c)) =? 46) = (c =? 46)%N.
Proof. apply (cmpk 46). reflexivity. Qed.
Lemma char_back c : (c < 256)%N -> wrapu 8 (wraps 8 (Z.of_N c)) = Z.of_N c.
Proof. intros H. rewrite wrapu8, wraps8. lia. Qed.

Lemma rd_zs_mid (pre : bytes) x (rest : bytes) : rd (zs (pre ++ x :: rest)) (Z.of_nat (length pre)) = Z.of_N x.
Proof. rewrite zs_app, <- (zs_length pre). cbn [zs map]. apply rd_app_mid. Qed.
Lemma more_mid (pre : bytes) x (rest : bytes) : (Z.of_nat (length pre) <? alen (zs (pre ++ x :: rest))) = true.
Proof. unfold alen. rewrite zs_length, app_length. cbn [length]. apply Z.ltb_lt. lia. Qed.
Lemma more_end (pre : bytes) : (Z.of_nat (length pre) <? alen (zs (pre ++ []))) = false.
Proof. unfold alen. rewrite zs_length, app_nil_r. apply Z.ltb_irrefl. Qed.
Lemma len_snoc {A} (p : list A) x : Z.of_nat (length (p ++ [x])) = Z.of_nat (length p) + 1.
Proof. rewrite app_length. cbn [length]. lia. Qed.
Lemma bytes_ok_mid pre x rest : bytes_ok (pre ++ x :: rest) -> (x < 256)%N.
Proof. unfold bytes_ok. rewrite Forall_forall. intros H. apply H. apply in_or_app. right. now left. Qed.
Lemma if_same {A} (b : bool) (x : A) : (if b then x else x) = x.
Proof. destruct b; reflexivity. Qed.

(* ---------------------------------------------------------------- outbound: the generated loops *)
Ltac rb_simpl := cbv [C_rblast.set_v_r C_rblast.set_v_ch C_rblast.set_v_ssin__pos C_rblast.set_v_flagcritical C_rblast.set_a_ssin__in
  C_rblast.set_a_smtpto__out C_rblast.v_r C_rblast.v_ch C_rblast.v_ssin__pos C_rblast.v_flagcritical C_rblast.a_ssin__in C_rblast.a_smtpto__out].
Notation RS r ch pos fc inp out := {| C_rblast.v_r := r; C_rblast.v_ch := ch; C_rblast.v_ssin__pos := pos; C_rblast.v_flagcritical := fc;
  C_rblast.a_ssin__in := inp; C_rblast.a_smtpto__out := out |} (only parsing).
Notation sc c := (wraps 8 (Z.of_N c)) (only parsing).

(* closed integer expressions left by the translation *)
Ltac consts :=
  cbn [b2z negb];
  change (wraps 32 (- (1))) with (-1); change (wraps 32 1) with 1; change (wraps 32 0) with 0;
  change (Z.to_nat (wrapu 64 1)) with 1%nat; change (Z.to_nat (wrapu 64 2)) with 2%nat; change (Z.to_nat (wrapu 64 3)) with 3%nat;
  cbn [firstn];
  change (1 =? 0) with false; change (0 =? 0) with true; change (1 =? -1) with false; change (0 =? -1) with false;
  cbn [b2z negb]; change (1 =? 0) with false; change (0 =? 0) with true; cbv iota.
Lemma char_cases (d : N) :
  (d = 10%N /\ (d =? 10)%N = true /\ (d =? 13)%N = false /\ (d =? 46)%N = false) \/
  (d = 13%N /\ (d =? 10)%N = false /\ (d =? 13)%N = true /\ (d =? 46)%N = false) \/
  (d = 46%N /\ (d =? 10)%N = false /\ (d =? 13)%N = false /\ (d =? 46)%N = true) \/
  (d <> 10%N /\ d <> 13%N /\ d <> 46%N /\ (d =? 10)%N = false /\ (d =? 13)%N = false /\ (d =? 46)%N = false).
Proof.
  destruct (N.eqb_spec d 10) as [->|H10]; [left; repeat split; reflexivity|].
  destruct (N.eqb_spec d 13) as [->|H13]; [right; left; repeat split; reflexivity|].
  destruct (N.eqb_spec d 46) as [->|H46]; [right; right; left; repeat split; reflexivity|].
  right; right; right. repeat split; assumption.
Qed.
Ltac tests c Hc B10 B13 B46 := rewrite ?b2z_if, ?if_negb, ?(cmp10 c Hc), ?(cmp13 c Hc), ?(cmp46 c Hc), ?B10, ?B13, ?B46; cbv iota.
Ltac onward := first [rewrite obind_normal; cbv beta; rb_simpl | rewrite obind_return | rewrite obind_break | rewrite obind_continue]; cbv iota.
Ltac go := repeat onward.

Definition post2 (fc : Z) (pre rest : bytes) (c : N) (outz : list Z) (o : outcome C_rblast.st) : Prop :=
  (exists pre2 rest2 o2 r2 ch2, pre ++ rest = pre2 ++ rest2 /\ (length rest2 <= length rest)%nat /\
     o = ONormal (RS r2 ch2 (Z.of_nat (length pre2)) fc (zs (pre ++ rest)) (outz ++ zs o2)) /\ wspec c rest o2 rest2)
  \/ (exists st, o = OReturn (-3) st /\ wrem c rest = None).

Lemma post2_lf fc pre rest outz r0 ch0 : post2 fc pre rest LF outz (ONormal (RS r0 ch0 (Z.of_nat (length pre)) fc (zs (pre ++ rest)) outz)).
Proof.
  left. exists pre, rest, [], r0, ch0. cbn [zs map]. rewrite app_nil_r.
  split; [reflexivity|split; [lia|split; [reflexivity|apply wspec_lf]]].
Qed.
Lemma post2_cr_nil fc pre outz r0 ch0 : post2 fc pre [] CR outz (ONormal (RS r0 ch0 (Z.of_nat (length pre)) fc (zs (pre ++ [])) outz)).
Proof.
  left. exists pre, [], [], r0, ch0. cbn [zs map]. rewrite !app_nil_r.
  split; [reflexivity|split; [lia|split; [reflexivity|apply wspec_cr_nil]]].
Qed.
Lemma post2_cr_lf fc pre rest outz r0 ch0 :
  post2 fc pre (LF :: rest) CR outz (ONormal (RS r0 ch0 (Z.of_nat (length pre) + 1) fc (zs (pre ++ LF :: rest)) outz)).
Proof.
  left. exists (pre ++ [LF]), rest, [], r0, ch0. cbn [zs map]. rewrite app_nil_r, len_snoc, <- app_assoc.
  split; [reflexivity|split; [cbn [length]; lia|split; [reflexivity|apply wspec_cr_lf]]].
Qed.
(* the rest of the loop after a byte that is neither LF nor CR, from the state where the next byte has been read *)
Lemma post2_other fc pre c e rest outz outz1 o :
  c <> LF -> c <> CR -> outz1 = outz ++ [Z.of_N c] ->
  post2 fc (pre ++ [e]) rest e outz1 o -> post2 fc pre (e :: rest) c outz o.
Proof.
  intros H1 H2 -> [(pre2 & rest2 & o2 & r2 & ch2 & Eq & Hl & Eo & Hs)|(st & Eo & Hn)].
  - left. exists pre2, rest2, (c :: o2), r2, ch2. rewrite <- app_assoc in Eq, Eo. cbn [app] in Eq, Eo.
    split; [exact Eq|split; [cbn [length]; lia|split; [|apply wspec_other_cons; assumption]]].
    rewrite Eo. cbn [zs map]. rewrite <- app_assoc. reflexivity.
  - right. exists st. split; [exact Eo|apply wrem_other_cons_none; assumption].
Qed.
Lemma post2_cr_other fc pre d rest outz outz1 o :
  d <> LF -> outz1 = outz ++ zs (CR :: LF :: dotp d) ->
  post2 fc (pre ++ [d]) rest d outz1 o -> post2 fc pre (d :: rest) CR outz o.
Proof.
  intros H1 -> [(pre2 & rest2 & o2 & r2 & ch2 & Eq & Hl & Eo & Hs)|(st & Eo & Hn)].
  - left. exists pre2, rest2, (CR :: LF :: dotp d ++ o2), r2, ch2. rewrite <- app_assoc in Eq, Eo. cbn [app] in Eq, Eo.
    split; [exact Eq|split; [cbn [length]; lia|split; [|apply wspec_cr_other; assumption]]].
    rewrite Eo. rewrite <- app_assoc, <- zs_app. reflexivity.
  - right. exists st. split; [exact Eo|apply wrem_cr_other_none; assumption].
Qed.
Lemma post2_partial fc pre c outz st : c <> LF -> c <> CR -> post2 fc pre [] c outz (OReturn (-3) st).
Proof. intros H1 H2. right. exists st. split; [reflexivity|apply wrem_other_nil; assumption]. Qed.

(* put(ch), read the next byte, back to the test: [c] is neither LF nor CR *)
Ltac rb_tail P R c Hc IH Hok Hfuel N10 N13 :=
  rewrite ?(char_back c Hc);
  let e := fresh "e" in let He := fresh "He" in
  destruct R as [|e R];
  [ rewrite more_end; consts; go; apply post2_partial; assumption
  | rewrite more_mid, rd_zs_mid; consts; go; consts; go;
    pose proof (bytes_ok_mid P e R Hok) as He;
    match goal with |- post2 ?fc _ _ _ ?oz _ => apply (post2_other fc P c e R oz (oz ++ [Z.of_N c])); [exact N10|exact N13|reflexivity|] end;
    rewrite <- (len_snoc P e), (app_cons_snoc P e R);
    apply IH; [rewrite <- app_cons_snoc; exact Hok|exact He|cbn [length] in Hfuel; lia] ].

Lemma rb_loop2 (f0 : nat) (fc : Z) : forall (fuel : nat) (rest pre : bytes) (c : N) (outz : list Z) (r0 : Z),
  bytes_ok (pre ++ rest) -> (c < 256)%N -> (length rest < fuel)%nat ->
  post2 fc pre rest c outz (C_rblast.loop2 f0 fuel (RS r0 (sc c) (Z.of_nat (length pre)) fc (zs (pre ++ rest)) outz)).
Proof.
  induction fuel as [|f IH]; intros rest pre c outz r0 Hok Hc Hfuel; [lia|].
  cbn [C_rblast.loop2]. rb_simpl.
  destruct (char_cases c) as [(E & B10 & B13 & B46)|[(E & B10 & B13 & B46)|[(E & B10 & B13 & B46)|(N10 & N13 & N46 & B10 & B13 & B46)]]];
    tests c Hc B10 B13 B46.
  - (* LF: the loop ends *)
    subst c. apply post2_lf.
  - (* CR: look at the next byte *)
    destruct rest as [|d rest].
    + rewrite more_end. consts. go. subst c. apply post2_cr_nil.
    + rewrite more_mid, rd_zs_mid. consts. go. consts. go.
      pose proof (bytes_ok_mid pre d rest Hok) as Hd. subst c.
      destruct (char_cases d) as [(E & D10 & D13 & D46)|[(E & D10 & D13 & D46)|[(E & D10 & D13 & D46)|(M10 & M13 & M46 & D10 & D13 & D46)]]];
        tests d Hd D10 D13 D46.
      * subst d. go. apply post2_cr_lf.
      * go. tests d Hd D10 D13 D46. go.
        apply (post2_cr_other fc pre d rest outz (outz ++ [13; 10])); [subst d; discriminate|subst d; reflexivity|].
        rewrite <- (len_snoc pre d), (app_cons_snoc pre d rest).
        apply IH; [rewrite <- app_cons_snoc; exact Hok|exact Hd|cbn [length] in Hfuel; lia].
      * go. tests d Hd D10 D13 D46. go.
        apply (post2_cr_other fc pre d rest outz ((outz ++ [13; 10]) ++ [46])); [subst d; discriminate|subst d; rewrite <- app_assoc; reflexivity|].
        rewrite <- (len_snoc pre d), (app_cons_snoc pre d rest). rewrite (app_cons_snoc pre d rest) in Hok.
        assert (Hf : (length rest < f)%nat) by (cbn [length] in Hfuel; lia).
        assert (Q10 : d <> LF) by (subst d; discriminate). assert (Q13 : d <> CR) by (subst d; discriminate).
        rb_tail (pre ++ [d]) rest d Hd IH Hok Hf Q10 Q13.
      * go. tests d Hd D10 D13 D46. go.
        apply (post2_cr_other fc pre d rest outz (outz ++ [13; 10])); [exact M10| unfold dotp; change DOT with 46%N; rewrite D46; reflexivity|].
        rewrite <- (len_snoc pre d), (app_cons_snoc pre d rest). rewrite (app_cons_snoc pre d rest) in Hok.
        assert (Hf : (length rest < f)%nat) by (cbn [length] in Hfuel; lia).
        rb_tail (pre ++ [d]) rest d Hd IH Hok Hf M10 M13.
  - go. assert (Q10 : c <> LF) by (subst c; discriminate). assert (Q13 : c <> CR) by (subst c; discriminate).
    assert (Hf : (length rest <= f)%nat) by lia.
    rb_tail pre rest c Hc IH Hok Hf Q10 Q13.
  - go. assert (Hf : (length rest <= f)%nat) by lia. rb_tail pre rest c Hc IH Hok Hf N10 N13.
Qed.

Definition post1 (fc : Z) (pre rest : bytes) (outz : list Z) (o : outcome C_rblast.st) : Prop :=
  match renc0 RTop rest with
  | Some t => exists r2 ch2, o = ONormal (RS r2 ch2 (Z.of_nat (length (pre ++ rest))) fc (zs (pre ++ rest)) (outz ++ zs t))
  | None => exists st, o = OReturn (-3) st
  end.
Lemma post1_step fc pre c rest o2 pre2 rest2 outz outz1 o :
  wspec c rest o2 rest2 -> pre ++ c :: rest = pre2 ++ rest2 -> outz1 = outz ++ zs (dotp c ++ o2 ++ [CR; LF]) ->
  post1 fc pre2 rest2 outz1 o -> post1 fc pre (c :: rest) outz o.
Proof.
  intros Hs Eq -> H. unfold post1 in *. rewrite renc0_top, Hs. rewrite Eq.
  destruct (renc0 RTop rest2) as [t|]; cbn [option_map]; [|exact H].
  destruct H as (r2 & ch2 & ->). exists r2, ch2. do 2 f_equal.
  rewrite <- app_assoc, <- zs_app. do 2 f_equal. rewrite <- !app_assoc. reflexivity.
Qed.
Lemma post1_partial fc pre c rest outz st : wrem c rest = None -> post1 fc pre (c :: rest) outz (OReturn (-3) st).
Proof. intros H. unfold post1. rewrite renc0_top, H. exists st. reflexivity. Qed.

Lemma rb_loop1 (f0 : nat) (fc : Z) : forall (fuel : nat) (rest pre : bytes) (outz : list Z) (r0 ch0 : Z),
  bytes_ok (pre ++ rest) -> (length rest < fuel)%nat -> (length rest <= f0)%nat ->
  post1 fc pre rest outz (C_rblast.loop1 f0 fuel (RS r0 ch0 (Z.of_nat (length pre)) fc (zs (pre ++ rest)) outz)).
Proof.
  induction fuel as [|f IH]; intros rest pre outz r0 ch0 Hok Hfuel Hf0; [lia|].
  cbn [C_rblast.loop1]. rb_simpl. change (1 =? 0) with false. cbv iota.
  destruct rest as [|c rest].
  - rewrite more_end. consts. go. unfold post1. cbn [renc0]. exists 0, ch0. cbn [zs map]. rewrite !app_nil_r. reflexivity.
  - pose proof (bytes_ok_mid pre c rest Hok) as Hc.
    rewrite more_mid, rd_zs_mid. consts. go. consts. go.
    rewrite ?b2z_if, ?(cmp46 c Hc).
    assert (Hf2 : (length rest < f0)%nat) by (cbn [length] in Hf0; lia).
    rewrite (app_cons_snoc pre c rest) in Hok.
    destruct (c =? 46)%N eqn:B46; go.
    + pose proof (rb_loop2 f0 fc f0 rest (pre ++ [c]) c ((outz ++ [46])) 1 Hok Hc Hf2) as H2.
      rewrite len_snoc, <- app_assoc in H2. cbn [app] in H2.
      destruct H2 as [(pre2 & rest2 & o2 & r2 & ch2 & Eq & Hl & Eo & Hs)|(st & Eo & Hn)]; rewrite Eo; go.
      * consts.
        apply (post1_step fc pre c rest o2 pre2 rest2 outz (((outz ++ [46]) ++ zs o2) ++ [13; 10]) _ Hs).
        { rewrite <- Eq, <- app_assoc. reflexivity. }
        { unfold dotp. change DOT with 46%N. rewrite B46. rewrite !zs_app, <- !app_assoc. reflexivity. }
        rewrite Eq.
        apply IH; [rewrite <- Eq; exact Hok|cbn [length] in Hfuel; lia|cbn [length] in Hf0; lia].
      * apply post1_partial. exact Hn.
    + pose proof (rb_loop2 f0 fc f0 rest (pre ++ [c]) c outz 1 Hok Hc Hf2) as H2.
      rewrite len_snoc, <- app_assoc in H2. cbn [app] in H2.
      destruct H2 as [(pre2 & rest2 & o2 & r2 & ch2 & Eq & Hl & Eo & Hs)|(st & Eo & Hn)]; rewrite Eo; go.
      * consts.
        apply (post1_step fc pre c rest o2 pre2 rest2 outz ((outz ++ zs o2) ++ [13; 10]) _ Hs).
        { rewrite <- Eq, <- app_assoc. reflexivity. }
        { unfold dotp. change DOT with 46%N. rewrite B46. rewrite !zs_app, <- !app_assoc. reflexivity. }
        rewrite Eq.
        apply IH; [rewrite <- Eq; exact Hok|cbn [length] in Hfuel; lia|cbn [length] in Hf0; lia].
      * apply post1_partial. exact Hn.
Qed.

Lemma rb_run (m : bytes) (fc : Z) : bytes_ok m ->
  match rblast m with
  | Some o => exists st, C_rblast.run (S (S (length m))) (zs m) 0 [] fc = Some (0, st) /\ C_rblast.a_smtpto__out st = zs o
  | None => exists st, C_rblast.run (S (S (length m))) (zs m) 0 [] fc = Some (-3, st)
  end.
Proof.
  intros Hok. unfold rblast. rewrite renc_renc0.
  pose proof (rb_loop1 (S (S (length m))) fc (S (S (length m))) m [] [] 0 0 Hok ltac:(lia) ltac:(lia)) as H.
  unfold post1 in H. unfold C_rblast.run, C_rblast.body. cbn [app length] in H. change (Z.of_nat 0) with 0 in H.
  destruct (renc0 RTop m) as [t|]; cbn [option_map].
  - destruct H as (r2 & ch2 & ->). rewrite obind_normal. cbv beta. rb_simpl. consts.
    eexists. split; [reflexivity|]. rb_simpl. cbn [app]. rewrite zs_app. reflexivity.
  - destruct H as (st & ->). rewrite obind_return. exists st. reflexivity.
Qed.


(* ---------------------------------------------------------------- inbound: reduction tactics for C_sblast *)
Ltac sb_simpl := cbv [C_sblast.set_v_hops C_sblast.set_v_ch C_sblast.set_v_state C_sblast.set_v_flaginheader C_sblast.set_v_pos C_sblast.set_v_flagmaybex C_sblast.set_v_flagmaybey C_sblast.set_v_flagmaybez C_sblast.set_v_ssin__pos C_sblast.set_v_bytestooverflow C_sblast.set_v_qqt__fail C_sblast.set_a_hops C_sblast.set_a_ssin__in C_sblast.set_a_lit1 C_sblast.set_a_lit2 C_sblast.set_a_lit3 C_sblast.set_a_lit4 C_sblast.set_a_lit5 C_sblast.set_a_qqt__out
  C_sblast.v_hops C_sblast.v_ch C_sblast.v_state C_sblast.v_flaginheader C_sblast.v_pos C_sblast.v_flagmaybex C_sblast.v_flagmaybey C_sblast.v_flagmaybez C_sblast.v_ssin__pos C_sblast.v_bytestooverflow C_sblast.v_qqt__fail C_sblast.a_hops C_sblast.a_ssin__in C_sblast.a_lit1 C_sblast.a_lit2 C_sblast.a_lit3 C_sblast.a_lit4 C_sblast.a_lit5 C_sblast.a_qqt__out
  C_sput.v_ch C_sput.v_bytestooverflow C_sput.v_qqt__fail C_sput.a_ch C_sput.a_qqt__out].
Ltac sb_proj := cbv [C_sblast.v_hops C_sblast.v_ch C_sblast.v_state C_sblast.v_flaginheader C_sblast.v_pos C_sblast.v_flagmaybex C_sblast.v_flagmaybey C_sblast.v_flagmaybez C_sblast.v_ssin__pos C_sblast.v_bytestooverflow C_sblast.v_qqt__fail C_sblast.a_hops C_sblast.a_ssin__in C_sblast.a_lit1 C_sblast.a_lit2 C_sblast.a_lit3 C_sblast.a_lit4 C_sblast.a_lit5 C_sblast.a_qqt__out].
Definition sb_merge (b : bool) (s1 s2 : C_sblast.st) : C_sblast.st :=
  {| C_sblast.v_hops := if b then C_sblast.v_hops s1 else C_sblast.v_hops s2;
     C_sblast.v_ch := if b then C_sblast.v_ch s1 else C_sblast.v_ch s2;
     C_sblast.v_state := if b then C_sblast.v_state s1 else C_sblast.v_state s2;
     C_sblast.v_flaginheader := if b then C_sblast.v_flaginheader s1 else C_sblast.v_flaginheader s2;
     C_sblast.v_pos := if b then C_sblast.v_pos s1 else C_sblast.v_pos s2;
     C_sblast.v_flagmaybex := if b then C_sblast.v_flagmaybex s1 else C_sblast.v_flagmaybex s2;
     C_sblast.v_flagmaybey := if b then C_sblast.v_flagmaybey s1 else C_sblast.v_flagmaybey s2;
     C_sblast.v_flagmaybez := if b then C_sblast.v_flagmaybez s1 else C_sblast.v_flagmaybez s2;
     C_sblast.v_ssin__pos := if b then C_sblast.v_ssin__pos s1 else C_sblast.v_ssin__pos s2;
     C_sblast.v_bytestooverflow := if b then C_sblast.v_bytestooverflow s1 else C_sblast.v_bytestooverflow s2;
     C_sblast.v_qqt__fail := if b then C_sblast.v_qqt__fail s1 else C_sblast.v_qqt__fail s2;
     C_sblast.a_hops := if b then C_sblast.a_hops s1 else C_sblast.a_hops s2;
     C_sblast.a_ssin__in := if b then C_sblast.a_ssin__in s1 else C_sblast.a_ssin__in s2;
     C_sblast.a_lit1 := if b then C_sblast.a_lit1 s1 else C_sblast.a_lit1 s2;
     C_sblast.a_lit2 := if b then C_sblast.a_lit2 s1 else C_sblast.a_lit2 s2;
     C_sblast.a_lit3 := if b then C_sblast.a_lit3 s1 else C_sblast.a_lit3 s2;
     C_sblast.a_lit4 := if b then C_sblast.a_lit4 s1 else C_sblast.a_lit4 s2;
     C_sblast.a_lit5 := if b then C_sblast.a_lit5 s1 else C_sblast.a_lit5 s2;
     C_sblast.a_qqt__out := if b then C_sblast.a_qqt__out s1 else C_sblast.a_qqt__out s2 |}.

Lemma sb_merge_eq (b : bool) (s1 s2 : C_sblast.st) : (if b then ONormal s1 else ONormal s2) = ONormal (sb_merge b s1 s2).
Proof. destruct b, s1, s2; reflexivity. Qed.
Ltac sb_merge_simpl := cbv [sb_merge C_sblast.v_hops C_sblast.v_ch C_sblast.v_state C_sblast.v_flaginheader C_sblast.v_pos C_sblast.v_flagmaybex C_sblast.v_flagmaybey C_sblast.v_flagmaybez C_sblast.v_ssin__pos C_sblast.v_bytestooverflow C_sblast.v_qqt__fail C_sblast.a_hops C_sblast.a_ssin__in C_sblast.a_lit1 C_sblast.a_lit2 C_sblast.a_lit3 C_sblast.a_lit4 C_sblast.a_lit5 C_sblast.a_qqt__out].
(* if (b) field = v;  as one assignment *)
Lemma mrg_v_hops (b : bool) s v : (if b then ONormal s else ONormal (C_sblast.set_v_hops s v)) = ONormal (C_sblast.set_v_hops s (if b then C_sblast.v_hops s else v)).
Proof. destruct b, s; reflexivity. Qed.
Lemma mrg_v_ch (b : bool) s v : (if b then ONormal s else ONormal (C_sblast.set_v_ch s v)) = ONormal (C_sblast.set_v_ch s (if b then C_sblast.v_ch s else v)).
Proof. destruct b, s; reflexivity. Qed.
Lemma mrg_v_state (b : bool) s v : (if b then ONormal s else ONormal (C_sblast.set_v_state s v)) = ONormal (C_sblast.set_v_state s (if b then C_sblast.v_state s else v)).
Proof. destruct b, s; reflexivity. Qed.
Lemma mrg_v_flaginheader (b : bool) s v : (if b then ONormal s else ONormal (C_sblast.set_v_flaginheader s v)) = ONormal (C_sblast.set_v_flaginheader s (if b then C_sblast.v_flaginheader s else v)).
Proof. destruct b, s; reflexivity. Qed.
Lemma mrg_v_pos (b : bool) s v : (if b then ONormal s else ONormal (C_sblast.set_v_pos s v)) = ONormal (C_sblast.set_v_pos s (if b then C_sblast.v_pos s else v)).
Proof. destruct b, s; reflexivity. Qed.
Lemma mrg_v_flagmaybex (b : bool) s v : (if b then ONormal s else ONormal (C_sblast.set_v_flagmaybex s v)) = ONormal (C_sblast.set_v_flagmaybex s (if b then C_sblast.v_flagmaybex s else v)).
Proof. destruct b, s; reflexivity. Qed.
Lemma mrg_v_flagmaybey (b : bool) s v : (if b then ONormal s else ONormal (C_sblast.set_v_flagmaybey s v)) = ONormal (C_sblast.set_v_flagmaybey s (if b then C_sblast.v_flagmaybey s else v)).
Proof. destruct b, s; reflexivity. Qed.
Lemma mrg_v_flagmaybez (b : bool) s v : (if b then ONormal s else ONormal (C_sblast.set_v_flagmaybez s v)) = ONormal (C_sblast.set_v_flagmaybez s (if b then C_sblast.v_flagmaybez s else v)).
Proof. destruct b, s; reflexivity. Qed.
Lemma mrg_v_ssin__pos (b : bool) s v : (if b then ONormal s else ONormal (C_sblast.set_v_ssin__pos s v)) = ONormal (C_sblast.set_v_ssin__pos s (if b then C_sblast.v_ssin__pos s else v)).
Proof. destruct b, s; reflexivity. Qed.
Lemma mrg_v_bytestooverflow (b : bool) s v : (if b then ONormal s else ONormal (C_sblast.set_v_bytestooverflow s v)) = ONormal (C_sblast.set_v_bytestooverflow s (if b then C_sblast.v_bytestooverflow s else v)).
Proof. destruct b, s; reflexivity. Qed.
Lemma mrg_v_qqt__fail (b : bool) s v : (if b then ONormal s else ONormal (C_sblast.set_v_qqt__fail s v)) = ONormal (C_sblast.set_v_qqt__fail s (if b then C_sblast.v_qqt__fail s else v)).
Proof. destruct b, s; reflexivity. Qed.
Lemma mrg_a_hops (b : bool) s v : (if b then ONormal s else ONormal (C_sblast.set_a_hops s v)) = ONormal (C_sblast.set_a_hops s (if b then C_sblast.a_hops s else v)).
Proof. destruct b, s; reflexivity. Qed.
Lemma mrg_a_ssin__in (b : bool) s v : (if b then ONormal s else ONormal (C_sblast.set_a_ssin__in s v)) = ONormal (C_sblast.set_a_ssin__in s (if b then C_sblast.a_ssin__in s else v)).
Proof. destruct b, s; reflexivity. Qed.
Lemma mrg_a_lit1 (b : bool) s v : (if b then ONormal s else ONormal (C_sblast.set_a_lit1 s v)) = ONormal (C_sblast.set_a_lit1 s (if b then C_sblast.a_lit1 s else v)).
Proof. destruct b, s; reflexivity. Qed.
Lemma mrg_a_lit2 (b : bool) s v : (if b then ONormal s else ONormal (C_sblast.set_a_lit2 s v)) = ONormal (C_sblast.set_a_lit2 s (if b then C_sblast.a_lit2 s else v)).
Proof. destruct b, s; reflexivity. Qed.
Lemma mrg_a_lit3 (b : bool) s v : (if b then ONormal s else ONormal (C_sblast.set_a_lit3 s v)) = ONormal (C_sblast.set_a_lit3 s (if b then C_sblast.a_lit3 s else v)).
Proof. destruct b, s; reflexivity. Qed.
Lemma mrg_a_lit4 (b : bool) s v : (if b then ONormal s else ONormal (C_sblast.set_a_lit4 s v)) = ONormal (C_sblast.set_a_lit4 s (if b then C_sblast.a_lit4 s else v)).
Proof. destruct b, s; reflexivity. Qed.
Lemma mrg_a_lit5 (b : bool) s v : (if b then ONormal s else ONormal (C_sblast.set_a_lit5 s v)) = ONormal (C_sblast.set_a_lit5 s (if b then C_sblast.a_lit5 s else v)).
Proof. destruct b, s; reflexivity. Qed.
Lemma mrg_a_qqt__out (b : bool) s v : (if b then ONormal s else ONormal (C_sblast.set_a_qqt__out s v)) = ONormal (C_sblast.set_a_qqt__out s (if b then C_sblast.a_qqt__out s else v)).
Proof. destruct b, s; reflexivity. Qed.
Ltac sb_mrg := match goal with |- context [if ?b then ONormal ?s else ONormal (?setter ?s ?v)] =>
  lazymatch setter with
  | C_sblast.set_v_hops => rewrite (mrg_v_hops b s v)
  | C_sblast.set_v_ch => rewrite (mrg_v_ch b s v)
  | C_sblast.set_v_state => rewrite (mrg_v_state b s v)
  | C_sblast.set_v_flaginheader => rewrite (mrg_v_flaginheader b s v)
  | C_sblast.set_v_pos => rewrite (mrg_v_pos b s v)
  | C_sblast.set_v_flagmaybex => rewrite (mrg_v_flagmaybex b s v)
  | C_sblast.set_v_flagmaybey => rewrite (mrg_v_flagmaybey b s v)
  | C_sblast.set_v_flagmaybez => rewrite (mrg_v_flagmaybez b s v)
  | C_sblast.set_v_ssin__pos => rewrite (mrg_v_ssin__pos b s v)
  | C_sblast.set_v_bytestooverflow => rewrite (mrg_v_bytestooverflow b s v)
  | C_sblast.set_v_qqt__fail => rewrite (mrg_v_qqt__fail b s v)
  | C_sblast.set_a_hops => rewrite (mrg_a_hops b s v)
  | C_sblast.set_a_ssin__in => rewrite (mrg_a_ssin__in b s v)
  | C_sblast.set_a_lit1 => rewrite (mrg_a_lit1 b s v)
  | C_sblast.set_a_lit2 => rewrite (mrg_a_lit2 b s v)
  | C_sblast.set_a_lit3 => rewrite (mrg_a_lit3 b s v)
  | C_sblast.set_a_lit4 => rewrite (mrg_a_lit4 b s v)
  | C_sblast.set_a_lit5 => rewrite (mrg_a_lit5 b s v)
  | C_sblast.set_a_qqt__out => rewrite (mrg_a_qqt__out b s v)
  end end.

(* ---------------------------------------------------------------- inbound: model side *)
Definition stz (st : sst) : Z := match st with S0 => 0 | S1 => 1 | S2 => 2 | S3 => 3 | S4 => 4 end.
(* the counter after the bytes the decoder consumes *)
Fixpoint hrun (st : sst) (h : hst) (s : bytes) : hst :=
  match s with
  | [] => h
  | ch :: s' => match sstep st ch with Emit _ st' => hrun st' (hstep h ch) s' | _ => hstep h ch end
  end.
Lemma sdec_done_len : forall s st body rest, sdec st s = Done body rest -> (length rest < length s)%nat.
Proof.
  induction s as [|ch s IH]; intros st body rest H; [discriminate|].
  cbn [sdec] in H. destruct (sstep st ch) as [o st'| |].
  - destruct (sdec st' s) as [b r| |] eqn:E; try discriminate. cbn [prepend] in H. injection H as _ <-.
    apply IH in E. cbn [length]. lia.
  - discriminate.
  - injection H as _ <-. cbn [length]. lia.
Qed.
Lemma hrun_fold : forall s st h body rest, sdec st s = Done body rest ->
  hrun st h s = fold_left hstep (firstn (length s - length rest) s) h.
Proof.
  induction s as [|ch s IH]; intros st h body rest H; [discriminate|].
  pose proof (sdec_done_len _ _ _ _ H) as Hl. cbn [sdec] in H. cbn [hrun].
  destruct (sstep st ch) as [o st'| |].
  - destruct (sdec st' s) as [b r| |] eqn:E; try discriminate. cbn [prepend] in H. injection H as _ <-.
    pose proof (sdec_done_len _ _ _ _ E) as Hl2.
    replace (length (ch :: s) - length r)%nat with (S (length s - length r)) by (cbn [length]; lia).
    cbn [firstn fold_left]. apply (IH st' (hstep h ch) b r E).
  - discriminate.
  - injection H as _ <-.
    replace (length (ch :: s) - length s)%nat with 1%nat by (cbn [length]; lia). reflexivity.
Qed.

(* sstep by the three tests the C code makes *)
Definition sstep_b (st : sst) (b13 b10 b46 : bool) (ch : N) : sact :=
  match st with
  | S0 => if b13 then Emit [] S4 else if b10 then AStray else Emit [ch] S0
  | S1 => if b13 then Emit [] S4 else if b10 then AStray else if b46 then Emit [] S2 else Emit [ch] S0
  | S2 => if b13 then Emit [] S3 else if b10 then AStray else Emit [ch] S0
  | S3 => if b13 then Emit [CR] S4 else if b10 then ADone else Emit [CR; ch] S0
  | S4 => if b13 then Emit [CR] S4 else if b10 then Emit [LF] S1 else Emit [CR; ch] S0
  end.
Lemma sstep_eq st c : sstep st c = sstep_b st (c =? 13)%N (c =? 10)%N (c =? 46)%N c.
Proof. unfold sstep, classify. destruct st, (c =? 13)%N, (c =? 10)%N, (c =? 46)%N; reflexivity. Qed.

(* the counter: bounds *)
Lemma hstep_pos h c : (h_pos h <= 9)%nat -> (h_pos (hstep h c) <= 9)%nat.
Proof.
  intros H. unfold hstep. destruct (negb (h_inh h)); [exact H|].
  destruct (Nat.ltb_spec (h_pos h) 9); destruct (c =? LF)%N; cbn [h_pos]; lia.
Qed.
Lemma hstep_hops h c : (h_hops (hstep h c) <= h_hops h + 1)%N.
Proof.
  unfold hstep. destruct (negb (h_inh h)); [lia|].
  destruct (Nat.ltb (h_pos h) 9); [|destruct (c =? LF)%N; cbn [h_hops]; lia].
  assert (E : forall (P : hst), h_hops (if (c =? LF)%N then {| h_hops := h_hops P; h_inh := h_inh P; h_pos := 0; h_x := true; h_y := true; h_z := true |} else P) = h_hops P)
    by (intros P; destruct (c =? LF)%N; reflexivity).
  rewrite E. cbn [h_hops].
  destruct (Nat.eqb_spec (h_pos h) 8) as [E8|N8].
  - rewrite E8. cbn [Nat.eqb]. rewrite andb_false_r.
    destruct (h_z h && match_ci delivered_lc 8 c)%bool; cbn [andb]; lia.
  - rewrite andb_false_r.
    match goal with |- context [if ?b then _ else _] => destruct b end; lia.
Qed.

(* ---------------------------------------------------------------- inbound: the loop *)
Notation SB ch stt inh pos fx fy fz ipos hopsa inp out :=
  {| C_sblast.v_hops := 0; C_sblast.v_ch := ch; C_sblast.v_state := stt; C_sblast.v_flaginheader := inh; C_sblast.v_pos := pos;
     C_sblast.v_flagmaybex := fx; C_sblast.v_flagmaybey := fy; C_sblast.v_flagmaybez := fz; C_sblast.v_ssin__pos := ipos;
     C_sblast.v_bytestooverflow := 0; C_sblast.v_qqt__fail := 0; C_sblast.a_hops := hopsa; C_sblast.a_ssin__in := inp;
     C_sblast.a_lit1 := [100; 101; 108; 105; 118; 101; 114; 101; 100; 0]; C_sblast.a_lit2 := [68; 69; 76; 73; 86; 69; 82; 69; 68; 0];
     C_sblast.a_lit3 := [114; 101; 99; 101; 105; 118; 101; 100; 0]; C_sblast.a_lit4 := [82; 69; 67; 69; 73; 86; 69; 68; 0];
     C_sblast.a_lit5 := [13; 10; 0]; C_sblast.a_qqt__out := out |} (only parsing).

Definition spost (pre rest : bytes) (st : sst) (h : hst) (outz : list Z) (o : outcome C_sblast.st) : Prop :=
  match sdec st rest with
  | Done body rest' =>
      exists s', o = OReturn 0 s' /\ C_sblast.a_qqt__out s' = outz ++ zs body /\
                 C_sblast.v_ssin__pos s' = Z.of_nat (length pre + (length rest - length rest')) /\
                 C_sblast.v_qqt__fail s' = 0 /\ C_sblast.a_hops s' = [Z.of_N (h_hops (hrun st h rest))]
  | Stray => exists s', o = OReturn (-4) s'
  | NeedMore _ => exists s', o = OReturn (-9) s'
  end.
Lemma spost_emit pre c rest st st' h o outz outz1 out :
  sstep st c = Emit o st' -> spost (pre ++ [c]) rest st' (hstep h c) outz1 out -> outz1 = outz ++ zs o ->
  spost pre (c :: rest) st h outz out.
Proof.
  intros Hs H ->. unfold spost in *. cbn [sdec hrun]. rewrite Hs.
  destruct (sdec st' rest) as [b r| |] eqn:E; cbn [prepend]; [|exact H|exact H].
  pose proof (sdec_done_len _ _ _ _ E) as Hl.
  destruct H as (s' & Ho & H1 & H2 & H3 & H4). exists s'.
  split; [exact Ho|]. split; [rewrite H1, zs_app, app_assoc; reflexivity|].
  split; [rewrite H2; rewrite app_length; cbn [length]; f_equal; lia|]. split; assumption.
Qed.
Lemma spost_stray pre c rest st h outz s' : sstep st c = AStray -> spost pre (c :: rest) st h outz (OReturn (-4) s').
Proof. intros Hs. unfold spost. cbn [sdec]. rewrite Hs. exists s'. reflexivity. Qed.
Lemma spost_eof pre st h outz s' : spost pre [] st h outz (OReturn (-9) s').
Proof. exists s'. reflexivity. Qed.
Lemma spost_done pre c rest st h outz s' : sstep st c = ADone ->
  C_sblast.a_qqt__out s' = outz -> C_sblast.v_ssin__pos s' = Z.of_nat (length pre) + 1 -> C_sblast.v_qqt__fail s' = 0 ->
  C_sblast.a_hops s' = [Z.of_N (h_hops (hstep h c))] ->
  spost pre (c :: rest) st h outz (OReturn 0 s').
Proof.
  intros Hs H1 H2 H3 H4. unfold spost. cbn [sdec hrun]. rewrite Hs. exists s'.
  split; [reflexivity|]. split; [rewrite H1; cbn [zs map]; rewrite app_nil_r; reflexivity|].
  split; [rewrite H2; cbn [length]; lia|]. split; assumption.
Qed.

(* the continuations are kept out of sight while the current statement is reduced *)
Ltac hide_all := repeat match goal with |- context [@obind ?T ?a ?k] =>
  lazymatch k with (fun _ => _) => let K := fresh "K" in set (K := k) end end.
Ltac show_next := match goal with |- context [obind (ONormal ?S) ?K] => is_var K; rewrite (obind_normal S K); unfold K; clear K; cbv beta zeta; hide_all end.
Ltac drop_hidden := repeat match goal with K := _ |- _ => clear K end.
(* statements that only assign: both branches end normally, the states are merged *)
Ltac sb_join := repeat first
  [ progress (repeat sb_mrg)
  | sb_simpl; rewrite sb_merge_eq; sb_merge_simpl; rewrite ?if_same
  | sb_simpl; show_next; sb_proj ].
Ltac sb_go := repeat (first [sb_simpl; show_next; sb_proj | rewrite obind_return | rewrite obind_break | rewrite obind_continue]; cbv iota).

(* the fields of the counter after one byte, as computed by the C code (nested conditionals) = hstep *)
Lemma cmpz (k : Z) (c : N) : ((0 <=? k) && (k <? 128))%bool = true -> (c < 256)%N ->
  (wraps 32 (wraps 8 (Z.of_N c)) =? k) = (c =? Z.to_N k)%N.
Proof.
  intros Hk Hc. apply andb_true_iff in Hk. destruct Hk as [H0 H1]. apply Z.leb_le in H0. apply Z.ltb_lt in H1.
  rewrite <- (cmpk (Z.to_N k) c) by lia. rewrite Z2N.id by lia. reflexivity.
Qed.
Lemma hops_inc (n : N) : Z.of_N n + 1 < 2147483648 ->
  wr [Z.of_N n] 0 (wrapu 32 (wraps 32 (wraps 32 (rd [Z.of_N n] 0) + 1))) = [Z.of_N (n + 1)].
Proof.
  intros H. change (rd [Z.of_N n] 0) with (Z.of_N n). change (wr [Z.of_N n] 0 ?v) with [v].
  rewrite (wraps32_small (Z.of_N n)) by lia. rewrite wraps32_small by lia. rewrite wrapu32_small by lia.
  f_equal. lia.
Qed.
Ltac hdr_lits := repeat match goal with |- context [wraps 32 (wraps 8 (rd ?l ?i))] =>
  let v := eval vm_compute in (wraps 32 (wraps 8 (rd l i))) in change (wraps 32 (wraps 8 (rd l i))) with v end.
Ltac hdr_atoms c := repeat match goal with |- context [(c =? ?k)%N] => destruct (c =? k)%N end.
Ltac hdr_calc := cbv [b2z negb andb orb Z.eqb Z.ltb Z.compare Z.of_nat Pos.of_succ_nat Pos.succ Pos.compare Pos.compare_cont Pos.eqb].
Ltac hdr_concrete c Hc :=
  hdr_lits; rewrite ?(cmp10 c Hc); rewrite ?(fun k H => cmpz k c H Hc) by reflexivity; cbn [Z.to_N];
  cbv [hstep h_hops h_inh h_pos h_x h_y h_z negb Nat.ltb Nat.leb Nat.eqb match_ci nth_error delivered_lc received_lc nth CR LF];
  repeat match goal with |- context [(?a - ?b)%N] => let v := eval vm_compute in (a - b)%N in change (a - b)%N with v end;
  hdr_calc; hdr_atoms c.
Ltac hdr_flag b := try (lazymatch goal with |- context [b] => destruct b end).
Ltac hdr_solve h c Hc Hpos Hhops :=
  destruct h as [hops inh pos x y z]; cbn [h_inh h_pos h_x h_y h_z h_hops] in *;
  destruct inh; [|reflexivity];
  do 10 (destruct pos as [|pos]; [hdr_concrete c Hc; hdr_flag x; hdr_flag y; hdr_flag z; hdr_calc;
    first [reflexivity | apply hops_inc; cbn [length] in Hhops; lia]|]);
  exfalso; lia.

Lemma sput_run0 (f : nat) (a : list Z) (fail : Z) (out : list Z) :
  C_sput.run f a 0 0 fail out =
  Some (0, {| C_sput.v_ch := 0; C_sput.v_bytestooverflow := 0; C_sput.v_qqt__fail := fail; C_sput.a_ch := a;
              C_sput.a_qqt__out := out ++ firstn 1 a |}).
Proof. rewrite sput_run. reflexivity. Qed.
Ltac sb_run c Hc B10 B13 B46 := repeat first
  [ rewrite obind_return; cbv iota | rewrite obind_break; cbv iota | rewrite obind_continue; cbv iota
  | sb_simpl; show_next; sb_proj; rewrite ?sput_run0; sb_simpl; cbn [firstn]; rewrite ?(char_back c Hc); tests c Hc B10 B13 B46 ].

Lemma sb_loop (f0 : nat) : forall (fuel : nat) (rest pre : bytes) (st : sst) (h : hst) (outz : list Z) (ch0 : Z),
  bytes_ok (pre ++ rest) -> (length rest < fuel)%nat -> (h_pos h <= 9)%nat ->
  Z.of_N (h_hops h) + Z.of_nat (length rest) < 2147483648 ->
  spost pre rest st h outz
    (C_sblast.loop1 f0 fuel (SB ch0 (stz st) (b2z (h_inh h)) (Z.of_nat (h_pos h)) (b2z (h_x h)) (b2z (h_y h)) (b2z (h_z h))
       (Z.of_nat (length pre)) [Z.of_N (h_hops h)] (zs (pre ++ rest)) outz)).
Proof.
  induction fuel as [|f IH]; intros rest pre st h outz ch0 Hok Hfuel Hpos Hhops; [lia|].
  cbn beta iota delta [C_sblast.loop1]. cbv beta zeta. hide_all. sb_proj. change (1 =? 0) with false. cbv iota.
  destruct rest as [|c rest].
  - rewrite more_end. consts. sb_simpl. apply spost_eof.
  - pose proof (bytes_ok_mid pre c rest Hok) as Hc.
    rewrite more_mid, rd_zs_mid. consts. sb_simpl.
    (* the header counter: no branching, the switch stays folded *)
    match goal with |- context [obind (if b2z (h_inh h) =? 0 then _ else _) ?K] =>
      is_var K; let E := fresh "EK" in pose proof (eq_refl : K = K) as E; unfold K at 2 in E; clearbody K end.
    sb_join.
    match goal with |- context [obind (ONormal {| C_sblast.v_hops := _; C_sblast.v_ch := _; C_sblast.v_state := _;
        C_sblast.v_flaginheader := ?e1; C_sblast.v_pos := ?e2; C_sblast.v_flagmaybex := ?e3; C_sblast.v_flagmaybey := ?e4;
        C_sblast.v_flagmaybez := ?e5; C_sblast.v_ssin__pos := _; C_sblast.v_bytestooverflow := _; C_sblast.v_qqt__fail := _;
        C_sblast.a_hops := ?e6; C_sblast.a_ssin__in := _; C_sblast.a_lit1 := _; C_sblast.a_lit2 := _; C_sblast.a_lit3 := _;
        C_sblast.a_lit4 := _; C_sblast.a_lit5 := _; C_sblast.a_qqt__out := _ |}) _] =>
      assert (E1 : e1 = b2z (h_inh (hstep h c))) by abstract (clear IH EK; hdr_solve h c Hc Hpos Hhops);
      assert (E2 : e2 = Z.of_nat (h_pos (hstep h c))) by abstract (clear IH EK; hdr_solve h c Hc Hpos Hhops);
      assert (E3 : e3 = b2z (h_x (hstep h c))) by abstract (clear IH EK; hdr_solve h c Hc Hpos Hhops);
      assert (E4 : e4 = b2z (h_y (hstep h c))) by abstract (clear IH EK; hdr_solve h c Hc Hpos Hhops);
      assert (E5 : e5 = b2z (h_z (hstep h c))) by abstract (clear IH EK; hdr_solve h c Hc Hpos Hhops);
      assert (E6 : e6 = [Z.of_N (h_hops (hstep h c))]) by abstract (clear IH EK; hdr_solve h c Hc Hpos Hhops)
    end.
    rewrite E1, E2, E3, E4, E5, E6. clear E1 E2 E3 E4 E5 E6.
    subst K. rewrite obind_normal. cbv beta zeta. hide_all. sb_proj.
    pose proof (sstep_eq st c) as Hs.
    destruct (char_cases c) as [(E & B10 & B13 & B46)|[(E & B10 & B13 & B46)|[(E & B10 & B13 & B46)|(N10 & N13 & N46 & B10 & B13 & B46)]]];
      rewrite B10, B13, B46 in Hs; destruct st; cbn [sstep_b stz] in Hs |- *.
    all: cbn [Z.eqb Pos.eqb]; cbv iota; drop_hidden.
    all: tests c Hc B10 B13 B46.
    all: sb_run c Hc B10 B13 B46.
    all: lazymatch type of Hs with
      | _ = Emit ?o ?st' =>
          eapply (spost_emit pre c rest _ st' h o outz _ _ Hs);
          [ rewrite <- (len_snoc pre c), (app_cons_snoc pre c rest);
            apply IH; [rewrite <- app_cons_snoc; exact Hok|cbn [length] in Hfuel; lia|apply hstep_pos; exact Hpos|
                       pose proof (hstep_hops h c); cbn [length] in Hhops; lia]
          | try rewrite E; cbn [zs map]; rewrite <- ?app_assoc, ?app_nil_r; reflexivity ]
      | _ = AStray => apply spost_stray; exact Hs
      | _ = ADone => apply (spost_done pre c rest _ h outz _ Hs); reflexivity
      end.
Qed.

Lemma sb_run_loop (f : nat) (h0 : Z) (inp : list Z) :
  C_sblast.run f [h0] 0 inp 0 0 0 [] =
  match C_sblast.loop1 f f (SB 0 1 1 0 1 1 1 0 [0] inp []) with
  | OReturn v s => Some (v, s)
  | ONormal s => Some (0, s)
  | _ => None
  end.
Proof. reflexivity. Qed.

Lemma sb_spec (s : bytes) : bytes_ok s -> Z.of_nat (length s) < 2 ^ 31 ->
  spost [] s S1 hinit [] (C_sblast.loop1 (S (length s)) (S (length s)) (SB 0 1 1 0 1 1 1 0 [0] (zs s) [])).
Proof.
  intros Hok Hlen. rewrite p31 in Hlen.
  exact (sb_loop (S (length s)) (S (length s)) s [] S1 hinit [] 0 Hok (Nat.lt_succ_diag_r _) ltac:(cbn; lia) Hlen).
Qed.


(* REQUIRED 1: outbound.  For every message: a complete encoding (the model's rblast, final dot line included) and normal
   return, or - exactly when the model refuses (last line unterminated) - the perm_partialline exit *)
Theorem gen_rblast_eq : forall (m o : bytes) (fc : Z), bytes_ok m -> Z.of_nat (length m) < 2 ^ 31 -> rblast m = Some o ->
  option_map (fun r => (fst r, C_rblast.a_smtpto__out (snd r))) (C_rblast.run (S (S (length m))) (zs m) 0 [] fc) = Some (0, zs o).
Proof.
  intros m o fc Hok _ Hm. pose proof (rb_run m fc Hok) as H. rewrite Hm in H.
  destruct H as (st & -> & Ho). cbn [option_map fst snd]. rewrite Ho. reflexivity.
Qed.
(* the refusing run *)
Theorem gen_rblast_none : forall (m : bytes) (fc : Z), bytes_ok m -> Z.of_nat (length m) < 2 ^ 31 -> rblast m = None ->
  retval (C_rblast.run (S (S (length m))) (zs m) 0 [] fc) = Some (-3).
Proof.
  intros m fc Hok _ Hm. pose proof (rb_run m fc Hok) as H. rewrite Hm in H.
  destruct H as (st & ->). reflexivity.
Qed.

(* REQUIRED 2: inbound, no size limit armed (bytestooverflow = 0).  For every input stream: the model's three outcomes *)
Theorem gen_sblast_eq : forall (s : bytes) (h0 : Z), bytes_ok s -> Z.of_nat (length s) < 2 ^ 31 ->
  match sblast s with
  | Done body rest =>
      exists st, C_sblast.run (S (length s)) [h0] 0 (zs s) 0 0 0 [] = Some (0, st) /\
                 C_sblast.a_qqt__out st = zs body /\ C_sblast.v_ssin__pos st = Z.of_nat (length s - length rest) /\
                 C_sblast.v_qqt__fail st = 0
  | Stray => retval (C_sblast.run (S (length s)) [h0] 0 (zs s) 0 0 0 []) = Some (-4)
  | NeedMore _ => retval (C_sblast.run (S (length s)) [h0] 0 (zs s) 0 0 0 []) = Some (-9)
  end.
Proof.
  intros s h0 Hok Hlen. pose proof (sb_spec s Hok Hlen) as H. unfold spost in H. unfold sblast.
  rewrite sb_run_loop.
  destruct (sdec S1 s) as [body rest| |].
  - destruct H as (s' & -> & H1 & H2 & H3 & _). exists s'. cbn [app length Nat.add] in H1, H2.
    split; [reflexivity|]. split; [exact H1|]. split; assumption.
  - destruct H as (s' & ->). reflexivity.
  - destruct H as (s' & ->). reflexivity.
Qed.

(* REQUIRED 3: the hop counter: after a completed message *hops is the model's count over the bytes consumed (below 2^31) *)
Theorem gen_sblast_hops : forall (s body rest : bytes) (h0 : Z), bytes_ok s -> Z.of_nat (length s) < 2 ^ 31 ->
  sblast s = Done body rest ->
  option_map (fun r => C_sblast.a_hops (snd r)) (C_sblast.run (S (length s)) [h0] 0 (zs s) 0 0 0 [])
  = Some [Z.of_N (hops (firstn (length s - length rest) s))].
Proof.
  intros s body rest h0 Hok Hlen Hs. pose proof (sb_spec s Hok Hlen) as H. unfold spost in H. unfold sblast in Hs.
  rewrite sb_run_loop. rewrite Hs in H. destruct H as (s' & -> & _ & _ & _ & H4).
  cbn [option_map snd]. rewrite H4, (hrun_fold s S1 hinit body rest Hs). reflexivity.
Qed.

(* REQUIRED 4: put(): one byte to the queue; with the limit armed (bytestooverflow = n > 0) the n-th byte sets the failure flag *)
Theorem gen_sput_eq : forall (c : Z) (bto fail : Z) (out : list Z), 0 <= c < 256 -> 0 <= bto < 2 ^ 32 ->
  option_map (fun r => (C_sput.a_qqt__out (snd r), C_sput.v_bytestooverflow (snd r), C_sput.v_qqt__fail (snd r))) (C_sput.run 1 [c] 0 bto fail out)
  = Some (out ++ [c], (if bto =? 0 then 0 else bto - 1), (if bto =? 1 then 1 else fail)).
Proof.
  intros c bto fail out Hc Hb. rewrite p32 in Hb. rewrite sput_run. cbn [option_map snd]. sput_simpl.
  change (firstn 1 (skipn (Z.to_nat 0) [c])) with [c].
  destruct (Z.eqb_spec bto 0) as [->|Hn0]; [reflexivity|].
  rewrite wrapu32_small by lia.
  destruct (Z.eqb_spec bto 1) as [->|Hn1]; [reflexivity|].
  destruct (Z.eqb_spec (bto - 1) 0); [lia|reflexivity].
Qed.

