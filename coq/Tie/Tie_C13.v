(* table tie for C13: the exit-code switch of qmail-local.c mailprogram() (parsed from today's source): the codes that
   end the delivery with 100 are exactly the model's hard_exit, 0 and 99 go on, everything else is 111 *)
From Coq Require Import ZArith NArith List String.
From NQ Require Import gen.Params_gen Local.DotQmail.
Import ListNotations.
Lemma tie_local_program_exit_table :
  forallb (fun cl => match fst cl with
                     | Zneg _ => String.eqb (snd cl) "111"
                     | c => if hard_exit (Z.to_N c) then String.eqb (snd cl) "100"
                            else String.eqb (snd cl) "go-on" && ((c =? 0)%Z || (c =? 99)%Z)
                     end) Params_gen.local_program_exit_table = true
  /\ map fst (filter (fun cl => String.eqb (snd cl) "100") Params_gen.local_program_exit_table) = [100; 64; 65; 70; 76; 77; 78; 112]%Z.
Proof. split; vm_compute; reflexivity. Qed.
