(* table tie for C07: every case label of qmail.c qmail_close() (parsed from today's source) maps to the class the
   model gives that exit code (custom text empty, no write error) *)
From Coq Require Import ZArith NArith List String.
From NQ Require Import gen.Params_gen Smtp.Smtpd.
Import ListNotations.
Definition class_letter (q : qclass) : string := match q with QOk => "-" | QD => "D" | QZ => "Z" end.
Lemma tie_qmail_close_table :
  forallb (fun cl => match fst cl with
                     | Zneg _ => String.eqb (snd cl) "DZ"                      (* default: D for 11..40, Z otherwise *)
                     | c => String.eqb (snd cl) (class_letter (qq_class (Z.to_N c) [] false))
                     end) Params_gen.qmail_close_table = true
  /\ 20 <= length Params_gen.qmail_close_table.
Proof. split; [vm_compute; reflexivity | vm_compute; repeat constructor]. Qed.
(* issafe() as generated from today's received.c decides, for every byte, exactly as the model's issafe: the characters a
   peer-controlled string may contribute to the Received field *)
From NQ Require Base.MiniC gen.CGen Tie.GenCommon Tie.Gen_small.
Lemma tie_generated_issafe : forall c : N, (c < 256)%N ->
  GenCommon.retval (CGen.C_issafe.run 1 (MiniC.wraps 8 (Z.of_N c))) = Some (MiniC.b2z (Smtpd.issafe c)).
Proof. exact Gen_small.gen_issafe_eq. Qed.
(* safeput() of today's received.c, translated to Gallina by tools/c2gallina.py (gen/CGen.v, module C_safeput): what it hands to
   the queue for a peer-controlled string is exactly the model's safe string - only safe characters or '?' *)
From NQ Require Tie.Gen_names Base.Bytes.
Lemma tie_generated_safeput : forall (pre : list Z) (t : Bytes.bytes), GenCommon.bytes_ok t -> ~ In 0%N t -> (Z.of_nat (List.length t) < 2 ^ 31)%Z ->
  option_map (fun r => CGen.C_safeput.a_qqt__out (snd r)) (CGen.C_safeput.run (S (List.length t)) pre (GenCommon.zs t ++ [0%Z]) 0%Z)
  = Some (pre ++ GenCommon.zs (Smtpd.safe t)).
Proof. exact Gen_names.gen_safeput_eq. Qed.
(* getlen() of today's qmail-qmtpd.c (the netstring length every QMTP package starts with), translated to Gallina by
   tools/c2gallina.py (gen/CGen.v, module C_getlen): same length and same number of bytes consumed as the model's getlen, the same
   exits (resources -6: a length over 200000000; badproto -7; end of input -9) for every input stream *)
From NQ Require Mem.Netstr Tie.Gen_getlen.
Lemma tie_generated_getlen : forall s : Bytes.bytes, GenCommon.bytes_ok s -> (Z.of_nat (List.length s) < 2 ^ 31)%Z ->
  match Netstr.getlen (Gen_getlen.chars s) with
  | Netstr.GOk len rest =>
      exists st, CGen.C_getlen.run (S (List.length s)) (GenCommon.zs s) 0%Z = Some (len, st) /\
                 CGen.C_getlen.v_ssin__pos st = Z.of_nat (List.length s - List.length rest)
  | Netstr.GResources => GenCommon.retval (CGen.C_getlen.run (S (List.length s)) (GenCommon.zs s) 0%Z) = Some (-6)%Z
  | Netstr.GBadproto => GenCommon.retval (CGen.C_getlen.run (S (List.length s)) (GenCommon.zs s) 0%Z) = Some (-7)%Z
  | Netstr.GEof => GenCommon.retval (CGen.C_getlen.run (S (List.length s)) (GenCommon.zs s) 0%Z) = Some (-9)%Z
  end.
Proof. exact Gen_getlen.gen_getlen_eq. Qed.
