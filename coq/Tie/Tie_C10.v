(* tie for C10: byte_rchr() and byte_chr() as generated from today's sources are the index functions the routing model
   uses to find the last @ and the last % (Send/Route.v rchr) *)
From Coq Require Import ZArith NArith List.
From NQ Require Import Base.MiniC Base.Bytes Send.Route gen.CGen Tie.GenCommon Tie.Gen_numbers.
Import ListNotations.
Local Open Scope Z_scope.
Lemma tie_generated_byte_rchr : forall (s : bytes) (c : N), bytes_ok s -> (c < 256)%N -> Z.of_nat (length s) < 2 ^ 32 ->
  retval (C_byte_rchr.run (S (length s)) (zs s) 0 (Z.of_nat (length s)) (Z.of_N c)) = Some (Z.of_nat (rchr s c)).
Proof. exact gen_byte_rchr_eq. Qed.
Lemma tie_generated_byte_chr : forall (s : bytes) (c : N), bytes_ok s -> (c < 256)%N -> Z.of_nat (length s) < 2 ^ 32 ->
  retval (C_byte_chr.run (S (length s)) (zs s) 0 (Z.of_nat (length s)) (Z.of_N c)) = Some (Z.of_nat (first_index c s)).
Proof. exact gen_byte_chr_eq. Qed.
(* control.c striptrailingwhitespace() as generated from today's source = the model's strip_trailing_ws (control_readline) *)
From NQ Require Tie.Gen_header.
Lemma tie_generated_striptrailingwhitespace : forall s : bytes, bytes_ok s -> Z.of_nat (length s) < 2 ^ 32 ->
  option_map (fun r => C_striptrailingwhitespace.v_sa__len (snd r))
    (C_striptrailingwhitespace.run (S (length s)) (zs s) (Z.of_nat (length s)))
  = Some (Z.of_nat (length (Route.strip_trailing_ws s))).
Proof. exact Gen_header.gen_striptrailingwhitespace_eq. Qed.
