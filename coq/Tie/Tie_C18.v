(* tie for C18: scan_ulong() and fmt_ulong() as generated from today's scan_ulong.c / fmt_ulong.c are the models of
   Base/CInt.v that qmail-clean's request parser (message number = decimal value mod 2^64) is built on *)
From Coq Require Import ZArith NArith List.
From NQ Require Import Base.MiniC Base.Bytes Base.CInt gen.CGen Tie.GenCommon Tie.Gen_numbers.
Import ListNotations.
Local Open Scope Z_scope.
Lemma tie_generated_scan_ulong : forall (s : bytes) (old : Z), bytes_ok s -> ~ In 0%N s -> Z.of_nat (length s) < 2 ^ 32 ->
  option_map (fun r => (fst r, C_scan_ulong.a_u (snd r))) (C_scan_ulong.run (S (length s)) (zs s ++ [0]) 0 [old] 0)
  = Some (Z.of_nat (snd (scan_ulong s)), [Z.of_N (fst (scan_ulong s))]).
Proof. exact gen_scan_ulong_eq. Qed.
Lemma tie_generated_fmt_ulong_len : forall u : N, (u < 18446744073709551616)%N ->
  retval (C_fmt_ulong.run 21 [] (-1) (Z.of_N u)) = Some (Z.of_nat (length (fmt_ulong u))) /\ (length (fmt_ulong u) <= 20)%nat.
Proof. exact gen_fmt_ulong_len. Qed.
(* report() of today's qmail-lspawn.c, translated to Gallina by tools/c2gallina.py (gen/CGen.v, module C_lreport), writes for every
   wait status and every delivery-child output exactly Local/LspawnReport.v's lspawn_report - of which Properties_C18 proves
   that it contains no NUL and starts with the verdict computed from the status alone *)
From NQ Require Local.LspawnReport Tie.Gen_report.
Lemma tie_generated_lspawn_report : forall (pre : list Z) (wstat : Z) (out : bytes), bytes_ok out -> 0 <= wstat < 2 ^ 31 ->
  Z.of_nat (length out) < 2 ^ 31 ->
  option_map (fun r => C_lreport.a_ss__out (snd r)) (C_lreport.run (S (length out)) pre wstat (zs out) 0 (Z.of_nat (length out)))
  = Some (pre ++ zs (LspawnReport.lspawn_report (negb (Z.land wstat 127 =? 0)) (Z.to_N (Z.shiftr wstat 8)) out)).
Proof. exact Gen_report.gen_lreport_eq. Qed.
(* fmtqfn() of today's fmtqfn.c, translated to Gallina by tools/c2gallina.py (gen/CGen.v, module C_fmtqfn): the file names
   qmail-clean unlinks are the model's (directory, optional split subdirectory id mod auto_split, decimal id, NUL) *)
From NQ Require Queue.Clean Tie.Gen_names.
Lemma tie_generated_fmtqfn : forall (dir : bytes) (id split : N) (flag : bool) (buf : list Z),
  bytes_ok dir -> ~ In 0%N dir -> Z.of_nat (length dir) < 2 ^ 31 -> (id < 18446744073709551616)%N -> (0 < split < 2147483648)%N ->
  (length (Gen_names.qfn dir id split flag) < length buf)%nat ->
  option_map (fun r => (fst r, C_fmtqfn.a_s (snd r))) (C_fmtqfn.run (22 + length dir) buf 0 (zs dir ++ [0]) 0 (Z.of_N id) (b2z flag) (Z.of_N split))
  = Some (Z.of_nat (S (length (Gen_names.qfn dir id split flag))), zs (Gen_names.qfn dir id split flag) ++ [0] ++ skipn (S (length (Gen_names.qfn dir id split flag))) buf).
Proof. exact Gen_names.gen_fmtqfn_eq. Qed.
(* main() of today's qmail-clean.c, translated whole to Gallina by tools/c2gallina.py (gen/CGen.v, module C_clean_main; getln, memcmp
   and unlink are stubs - unlink logs its path and answers from a run parameter): for every stream of requests and every sequence of
   unlink answers, the status bytes written and the paths passed to unlink are exactly the model's clean_handle, request by request *)
From NQ Require Tie.Gen_clean.
Lemma tie_generated_clean_main : forall (split : N) (reqs : list bytes) (res : list Z) (line0 out0 fnbuf0 log0 : list Z) (len0 : Z),
  Forall (fun r => bytes_ok r /\ ~ In 0%N r) reqs -> Z.of_nat (length (Gen_clean.stream_of reqs)) < 2 ^ 31 -> (0 < split < 2147483648)%N -> length fnbuf0 = 40%nat ->
  Forall (fun r => 0 <= r < 2 ^ 31) res ->
  exists st, C_clean_main.run (30 + length (Gen_clean.stream_of reqs)) (Gen_clean.stream_of reqs) 0 line0 len0 out0 fnbuf0 (Z.of_N split) res log0 0 = Some (0, st) /\
    C_clean_main.a_subfdoutsmall__out st = out0 ++ zs (snd (Gen_clean.clean_all split reqs res)) /\
    C_clean_main.a_unlink__log st = log0 ++ Gen_clean.log_of (fst (Gen_clean.clean_all split reqs res)).
Proof. exact Gen_clean.gen_clean_main_all. Qed.
Lemma tie_generated_clean_main_one : forall (split : N) (req : bytes) (r1 r2 : Z) (line0 out0 fnbuf0 log0 : list Z) (len0 : Z),
  bytes_ok req -> ~ In 0%N req -> Z.of_nat (length req) < 2 ^ 31 -> (0 < split < 2147483648)%N -> length fnbuf0 = 40%nat ->
  0 <= r1 < 2 ^ 31 -> 0 <= r2 < 2 ^ 31 ->
  exists st, C_clean_main.run (30 + length req) (zs req ++ [0]) 0 line0 len0 out0 fnbuf0 (Z.of_N split) [r1; r2] log0 0 = Some (0, st) /\
    C_clean_main.a_subfdoutsmall__out st = out0 ++ zs (snd (Clean.clean_handle split req (Gen_clean.ures_of r1) (Gen_clean.ures_of r2))) /\
    C_clean_main.a_unlink__log st = log0 ++ Gen_clean.log_of (fst (Clean.clean_handle split req (Gen_clean.ures_of r1) (Gen_clean.ures_of r2))).
Proof. exact Gen_clean.gen_clean_main_one. Qed.
