(* tie for C18: scan_ulong() and fmt_ulong() as generated from today's scan_ulong.c / fmt_ulong.c are the models of
   Base/CInt.v that qmail-clean's request parser (message number = decimal value mod 2^64) is built on *)
From Coq Require Import ZArith NArith List.
From NQ Require Import Base.MiniC Base.Bytes Base.CInt gen.CGen Tie.GenCommon Tie.Gen_numbers.
Import ListNotations.
Local Open Scope Z_scope.
Lemma tie_generated_scan_ulong : forall (s : bytes) (old : Z), bytes_ok s -> ~ In 0%N s -> Z.of_nat (length s) < 2 ^ 32 ->
  option_map (fun r => (fst r, C_scan_ulong.a_u (snd r))) (C_scan_ulong.run (S (length s)) (zs s ++ [0]) 0 [old] 0)
  = Some (Z.of_nat (snd (scan_ulong s)), [Z.of_N (fst (scan_ulong s))]).
Proof. exact gen_scan_ulong_eq. Qed.
Lemma tie_generated_fmt_ulong_len : forall u : N, (u < 18446744073709551616)%N ->
  retval (C_fmt_ulong.run 21 [] (-1) (Z.of_N u)) = Some (Z.of_nat (length (fmt_ulong u))) /\ (length (fmt_ulong u) <= 20)%nat.
Proof. exact gen_fmt_ulong_len. Qed.
(* report() of today's qmail-lspawn.c, translated to Gallina by tools/c2gallina.py (gen/CGen.v, module C_lreport), writes for every
   wait status and every delivery-child output exactly Local/LspawnReport.v's lspawn_report - of which Properties_C18 proves
   that it contains no NUL and starts with the verdict computed from the status alone *)
From NQ Require Local.LspawnReport Tie.Gen_report.
Lemma tie_generated_lspawn_report : forall (pre : list Z) (wstat : Z) (out : bytes), bytes_ok out -> 0 <= wstat < 2 ^ 31 ->
  Z.of_nat (length out) < 2 ^ 31 ->
  option_map (fun r => C_lreport.a_ss__out (snd r)) (C_lreport.run (S (length out)) pre wstat (zs out) 0 (Z.of_nat (length out)))
  = Some (pre ++ zs (LspawnReport.lspawn_report (negb (Z.land wstat 127 =? 0)) (Z.to_N (Z.shiftr wstat 8)) out)).
Proof. exact Gen_report.gen_lreport_eq. Qed.
(* fmtqfn() of today's fmtqfn.c, translated to Gallina by tools/c2gallina.py (gen/CGen.v, module C_fmtqfn): the file names
   qmail-clean unlinks are the model's (directory, optional split subdirectory id mod auto_split, decimal id, NUL) *)
From NQ Require Queue.Clean Tie.Gen_names.
Lemma tie_generated_fmtqfn : forall (dir : bytes) (id split : N) (flag : bool) (buf : list Z),
  bytes_ok dir -> ~ In 0%N dir -> Z.of_nat (length dir) < 2 ^ 31 -> (id < 18446744073709551616)%N -> (0 < split < 2147483648)%N ->
  (length (Gen_names.qfn dir id split flag) < length buf)%nat ->
  option_map (fun r => (fst r, C_fmtqfn.a_s (snd r))) (C_fmtqfn.run (22 + length dir) buf 0 (zs dir ++ [0]) 0 (Z.of_N id) (b2z flag) (Z.of_N split))
  = Some (Z.of_nat (S (length (Gen_names.qfn dir id split flag))), zs (Gen_names.qfn dir id split flag) ++ [0] ++ skipn (S (length (Gen_names.qfn dir id split flag))) buf).
Proof. exact Gen_names.gen_fmtqfn_eq. Qed.
