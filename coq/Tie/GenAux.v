(* auxiliary facts for the equalities between the generated functions (gen/CGen.v) and the models: C integer
   wraps on values in range, N/Z transport of the bit operations, reads and writes of the array of a byte string *)
From Coq Require Import ZArith NArith List Lia ZifyBool.
From NQ Require Import Base.MiniC Base.Bytes Tie.GenCommon.
Import ListNotations.
Local Open Scope Z_scope.

Lemma p7 : 2 ^ 7 = 128. Proof. reflexivity. Qed.
Lemma p8 : 2 ^ 8 = 256. Proof. reflexivity. Qed.
Lemma p31 : 2 ^ 31 = 2147483648. Proof. reflexivity. Qed.
Lemma p32 : 2 ^ 32 = 4294967296. Proof. reflexivity. Qed.
Lemma p63 : 2 ^ 63 = 9223372036854775808. Proof. reflexivity. Qed.
Lemma p64 : 2 ^ 64 = 18446744073709551616. Proof. reflexivity. Qed.

Lemma wrapu8 v : wrapu 8 v = v mod 256. Proof. reflexivity. Qed.
Lemma wrapu32 v : wrapu 32 v = v mod 4294967296. Proof. reflexivity. Qed.
Lemma wrapu64 v : wrapu 64 v = v mod 18446744073709551616. Proof. reflexivity. Qed.
Lemma wraps8 v : wraps 8 v = (v + 128) mod 256 - 128. Proof. reflexivity. Qed.
Lemma wraps32 v : wraps 32 v = (v + 2147483648) mod 4294967296 - 2147483648. Proof. reflexivity. Qed.

Lemma wrapu8_small v : 0 <= v < 256 -> wrapu 8 v = v.
Proof. intros H. rewrite wrapu8. apply Z.mod_small; exact H. Qed.
Lemma wrapu32_small v : 0 <= v < 4294967296 -> wrapu 32 v = v.
Proof. intros H. rewrite wrapu32. apply Z.mod_small; exact H. Qed.
Lemma wrapu64_small v : 0 <= v < 18446744073709551616 -> wrapu 64 v = v.
Proof. intros H. rewrite wrapu64. apply Z.mod_small; exact H. Qed.
Lemma wraps8_small v : -128 <= v < 128 -> wraps 8 v = v.
Proof. intros H. rewrite wraps8. rewrite Z.mod_small; lia. Qed.
Lemma wraps32_small v : -2147483648 <= v < 2147483648 -> wraps 32 v = v.
Proof. intros H. rewrite wraps32. rewrite Z.mod_small; lia. Qed.

Lemma b2z_eqb0 b : (b2z b =? 0) = negb b.
Proof. destruct b; reflexivity. Qed.

(* ---- bit operations: N to Z ---- *)
Lemma ofN_lxor a b : Z.of_N (N.lxor a b) = Z.lxor (Z.of_N a) (Z.of_N b).
Proof. destruct a, b; reflexivity. Qed.

Lemma ofN_shiftl a k : Z.of_N (N.shiftl a k) = Z.of_N a * 2 ^ Z.of_N k.
Proof. rewrite N.shiftl_mul_pow2, N2Z.inj_mul, N2Z.inj_pow. reflexivity. Qed.

Lemma lxor_bound k a b : 0 <= k -> 0 <= a < 2 ^ k -> 0 <= b < 2 ^ k -> 0 <= Z.lxor a b < 2 ^ k.
Proof.
  intros Hk Ha Hb.
  assert (Hnn : 0 <= Z.lxor a b) by (apply Z.lxor_nonneg; lia).
  split; [exact Hnn|].
  destruct (Z.eq_dec (Z.lxor a b) 0) as [E|E]; [rewrite E; lia|].
  apply Z.log2_lt_pow2; [lia|].
  pose proof (Z.log2_lxor a b (proj1 Ha) (proj1 Hb)) as Hl.
  assert (La : Z.log2 a < k \/ a = 0).
  { destruct (Z.eq_dec a 0) as [->|Na]; [right; reflexivity|left]. apply Z.log2_lt_pow2; lia. }
  assert (Lb : Z.log2 b < k \/ b = 0).
  { destruct (Z.eq_dec b 0) as [->|Nb]; [right; reflexivity|left]. apply Z.log2_lt_pow2; lia. }
  destruct La as [La| ->], Lb as [Lb| ->].
  - lia.
  - rewrite Z.lxor_0_r in *. lia.
  - rewrite Z.lxor_0_l in *. lia.
  - rewrite Z.lxor_0_l in E. congruence.
Qed.

Lemma lxor_bound32 a b : 0 <= a < 4294967296 -> 0 <= b < 4294967296 -> 0 <= Z.lxor a b < 4294967296.
Proof. apply (lxor_bound 32); lia. Qed.
Lemma lxor_bound64 a b : 0 <= a < 18446744073709551616 -> 0 <= b < 18446744073709551616 ->
  0 <= Z.lxor a b < 18446744073709551616.
Proof. apply (lxor_bound 64); lia. Qed.

(* ---- the array of a byte string ---- *)
Lemma zs_app a b : zs (a ++ b) = zs a ++ zs b.
Proof. apply map_app. Qed.
Lemma zs_length a : length (zs a) = length a.
Proof. apply map_length. Qed.

Lemma rd_app_mid (pre : list Z) x rest : rd (pre ++ x :: rest) (Z.of_nat (length pre)) = x.
Proof.
  unfold rd. destruct (Z.of_nat (length pre) <? 0) eqn:E; [lia|].
  rewrite Nat2Z.id, app_nth2, Nat.sub_diag; [reflexivity|lia].
Qed.

Lemma wr_nat_app_mid (pre : list Z) x rest v : wr_nat (pre ++ x :: rest) (length pre) v = pre ++ v :: rest.
Proof. induction pre as [|y pre IH]; simpl; [reflexivity|]. rewrite IH. reflexivity. Qed.

Lemma wr_app_mid (pre : list Z) x rest v : wr (pre ++ x :: rest) (Z.of_nat (length pre)) v = pre ++ v :: rest.
Proof.
  unfold wr. destruct (Z.of_nat (length pre) <? 0) eqn:E; [lia|].
  rewrite Nat2Z.id. apply wr_nat_app_mid.
Qed.

Lemma app_cons_snoc {A} (pre : list A) x rest : pre ++ x :: rest = (pre ++ [x]) ++ rest.
Proof. rewrite <- app_assoc. reflexivity. Qed.

Lemma bytes_ok_cons c s : bytes_ok (c :: s) -> (c < 256)%N /\ bytes_ok s.
Proof. intros H. inversion H; subst. split; assumption. Qed.

Lemma ofN_byte c : (c < 256)%N -> 0 <= Z.of_N c < 256.
Proof. lia. Qed.

(* ---- exhaustive checks over the byte values ---- *)
Definition all_bytes : list N := map N.of_nat (seq 0 256).
Lemma all_bytes_in c : (c < 256)%N -> In c all_bytes.
Proof.
  intros H. unfold all_bytes. apply in_map_iff. exists (N.to_nat c). split; [apply N2Nat.id|].
  apply in_seq. lia.
Qed.
Lemma byte_sweep (P : N -> bool) : forallb P all_bytes = true -> forall c, (c < 256)%N -> P c = true.
Proof. intros H c Hc. rewrite forallb_forall in H. apply H, all_bytes_in, Hc. Qed.
Lemma byte_sweep2 (P : N -> N -> bool) : forallb (fun c => forallb (P c) all_bytes) all_bytes = true ->
  forall c d, (c < 256)%N -> (d < 256)%N -> P c d = true.
Proof.
  intros H c d Hc Hd. rewrite forallb_forall in H. specialize (H c (all_bytes_in c Hc)).
  rewrite forallb_forall in H. apply H, all_bytes_in, Hd.
Qed.
