(* tie for C20: functions generated from today's sources (tools/c2gallina.py) equal the models the index-safety theorems
   are about; the memory-safety statements about the checked (K_) variants are added in Tie/Gen_safety.v *)
From Coq Require Import ZArith List.
From NQ Require Import Base.MiniC Mem.DnsParse gen.CGen Tie.GenCommon Tie.Gen_small.
Import ListNotations.
Local Open Scope Z_scope.
Lemma tie_generated_getshort : forall (buf : Z -> Z) (p : Z), 0 <= buf p < 256 -> 0 <= buf (p + 1) < 256 ->
  retval (C_getshort.run 1 [buf p; buf (p + 1)] 0) = Some (DnsParse.getshort buf p).
Proof. exact gen_getshort_eq. Qed.
