(* tie for C20: functions generated from today's sources (tools/c2gallina.py) equal the models the index-safety theorems
   are about; the memory-safety statements about the checked (K_) variants are added in Tie/Gen_safety.v *)
From Coq Require Import ZArith List.
From NQ Require Import Base.MiniC Mem.DnsParse gen.CGen Tie.GenCommon Tie.Gen_small.
Import ListNotations.
Local Open Scope Z_scope.
Lemma tie_generated_getshort : forall (buf : Z -> Z) (p : Z), 0 <= buf p < 256 -> 0 <= buf (p + 1) < 256 ->
  retval (C_getshort.run 1 [buf p; buf (p + 1)] 0) = Some (DnsParse.getshort buf p).
Proof. exact gen_getshort_eq. Qed.
(* the byte/str/case/fmt/scan library as generated from today's sources = the list functions it is meant to be
   (Tie/Gen_strings.v: byte_copy and byte_copyr touch exactly n cells, byte_zero, str_rchr, str_start, case_starts,
   case_diffs, scan_8long, fmt_str, fmt_uint, fmt_uint0) *)
From NQ Require Tie.Gen_strings Tie.Gen_numbers Tie.Gen_tables.
Lemma tie_generated_byte_copy : forall (dst src : list Z) (n : nat), zbytes_ok src -> (n <= length dst)%nat -> (n <= length src)%nat -> Z.of_nat n < 2 ^ 32 ->
  option_map (fun r => C_byte_copy.a_to (snd r)) (C_byte_copy.run (S n) dst 0 (Z.of_nat n) src 0) = Some (firstn n src ++ skipn n dst).
Proof. exact Gen_strings.gen_byte_copy_eq. Qed.
Lemma tie_generated_byte_copyr : forall (dst src : list Z) (n : nat), zbytes_ok src -> (n <= length dst)%nat -> (n <= length src)%nat -> Z.of_nat n < 2 ^ 32 ->
  option_map (fun r => C_byte_copyr.a_to (snd r)) (C_byte_copyr.run (S n) dst 0 (Z.of_nat n) src 0) = Some (firstn n src ++ skipn n dst).
Proof. exact Gen_strings.gen_byte_copyr_eq. Qed.
Lemma tie_generated_byte_zero : forall (a : list Z) (n : nat), (n <= length a)%nat -> Z.of_nat n < 2 ^ 32 ->
  option_map (fun r => C_byte_zero.a_s (snd r)) (C_byte_zero.run (S n) a 0 (Z.of_nat n)) = Some (repeat 0 n ++ skipn n a).
Proof. exact Gen_strings.gen_byte_zero_eq. Qed.
Definition generated_library_equalities := (Gen_strings.gen_str_rchr_eq, Gen_strings.gen_str_start_eq, Gen_strings.gen_case_starts_eq,
  Gen_strings.gen_case_diffs_eq, Gen_strings.gen_scan_8long_eq, Gen_strings.gen_fmt_str_eq, Gen_strings.gen_fmt_str_len,
  Gen_strings.gen_fmt_uint_len, Gen_strings.gen_fmt_uint0_eq, Gen_numbers.gen_fmt_ulong_eq, Gen_numbers.gen_str_chr_eq).
(* memory safety of the code as generated from today's sources with every array access checked (K_ modules): for ALL inputs
   in the stated ranges the final v__oob is 0 - no read or write outside an array (Tie/Gen_safety.v) *)
From NQ Require Tie.Gen_safety Base.Bytes.
Lemma tie_safe_quote_doit : forall (src : Bytes.bytes) (out : list Z) (outlen alloc_ok : Z), bytes_ok src -> Z.of_nat (length src) < 2 ^ 30 ->
  Z.of_nat (length out) < 2 ^ 32 -> 0 <= outlen ->
  exists v st, K_quote_doit.run (S (length src)) out outlen (Z.of_nat (length out)) (zs src) (Z.of_nat (length src)) alloc_ok = Some (v, st) /\
               K_quote_doit.v__oob st = 0.
Proof. exact Gen_safety.safe_quote_doit. Qed.
Lemma tie_safe_ip_scanbracket : forall (s : Bytes.bytes) (ip : list Z), bytes_ok s -> ~ In 0%N s -> length ip = 4%nat -> Z.of_nat (length s) < 2 ^ 31 ->
  exists v st, K_ip_scanbracket.run (S (S (length s))) (zs s ++ [0]) 0 ip = Some (v, st) /\ K_ip_scanbracket.v__oob st = 0.
Proof. exact Gen_safety.safe_ip_scanbracket. Qed.
Lemma tie_safe_scan_ulong : forall (s : Bytes.bytes) (old : Z), bytes_ok s -> ~ In 0%N s -> Z.of_nat (length s) < 2 ^ 32 ->
  exists v st, K_scan_ulong.run (S (length s)) (zs s ++ [0]) 0 [old] 0 = Some (v, st) /\ K_scan_ulong.v__oob st = 0.
Proof. exact Gen_safety.safe_scan_ulong. Qed.
Lemma tie_safe_fmt_ulong : forall (u : N) (buf : list Z), (u < 18446744073709551616)%N -> (20 <= length buf)%nat ->
  exists v st, K_fmt_ulong.run 21 buf 0 (Z.of_N u) = Some (v, st) /\ K_fmt_ulong.v__oob st = 0.
Proof. exact Gen_safety.safe_fmt_ulong. Qed.
Definition generated_safety_theorems := (Gen_safety.safe_byte_chr, Gen_safety.safe_str_chr, Gen_safety.safe_case_diffb, Gen_safety.safe_cm_hash,
  Gen_safety.safe_cdb_unpack, Gen_safety.safe_fmt_str, Gen_safety.safe_byte_copy).
From NQ Require Tie.Gen_quote.
Lemma tie_safe_quote_need : forall (s : Bytes.bytes) (tbl : list Z), bytes_ok s -> length tbl = 128%nat -> Z.of_nat (length s) < 2 ^ 31 ->
  exists v st, K_quote_need.run (S (S (length s))) (zs s) 0 (Z.of_nat (length s)) tbl = Some (v, st) /\ K_quote_need.v__oob st = 0.
Proof. exact Gen_quote.safe_quote_need. Qed.
Definition generated_safety_theorems_2 := (Gen_quote.safe_hmatch, Gen_quote.safe_atomcheck, Gen_quote.safe_striptrailingwhitespace,
  Gen_quote.safe_case_lowerb, Gen_quote.safe_byte_rchr, Gen_quote.safe_str_rchr).
(* the two report writers that copy a child's output to qmail-send, with every array access checked: qmail-lspawn's stays
   inside the output for ANY output; qmail-rspawn's does when the output is empty or ends with a NUL (qmail-remote ends
   every report with one; an unterminated tail is read as a C string - the contract recorded in DESIGN.md) *)
From NQ Require Tie.Gen_report.
Lemma tie_safe_lspawn_report : forall (pre : list Z) (wstat : Z) (out : Bytes.bytes), bytes_ok out -> 0 <= wstat < 2 ^ 31 ->
  Z.of_nat (length out) < 2 ^ 31 ->
  option_map (fun r => K_lreport.v__oob (snd r)) (K_lreport.run (S (length out)) pre wstat (zs out) 0 (Z.of_nat (length out))) = Some 0.
Proof. exact Gen_report.safe_lreport. Qed.
Lemma tie_safe_rspawn_report : forall (pre : list Z) (wstat : Z) (out : Bytes.bytes), bytes_ok out -> 0 <= wstat < 2 ^ 31 ->
  Z.of_nat (length out) < 2 ^ 31 -> (out = nil \/ last out 1%N = 0%N) ->
  option_map (fun r => K_rreport.v__oob (snd r)) (K_rreport.run (S (length out)) pre wstat (zs out) 0 (Z.of_nat (length out))) = Some 0.
Proof. exact Gen_report.safe_rreport. Qed.
(* safeput() and fmtqfn() with every array access checked *)
From NQ Require Tie.Gen_names.
Lemma tie_safe_safeput : forall (pre : list Z) (t : Bytes.bytes), bytes_ok t -> ~ In 0%N t -> Z.of_nat (length t) < 2 ^ 31 ->
  option_map (fun r => K_safeput.v__oob (snd r)) (K_safeput.run (S (length t)) pre (zs t ++ (0 :: nil)) 0) = Some 0.
Proof. exact Gen_names.safe_safeput. Qed.
Lemma tie_safe_fmtqfn : forall (dir : Bytes.bytes) (id split : N) (flag : bool) (buf : list Z),
  bytes_ok dir -> ~ In 0%N dir -> Z.of_nat (length dir) < 2 ^ 31 -> (id < 18446744073709551616)%N -> (0 < split < 2147483648)%N ->
  (length (Gen_names.qfn dir id split flag) < length buf)%nat ->
  option_map (fun r => K_fmtqfn.v__oob (snd r)) (K_fmtqfn.run (22 + length dir) buf 0 (zs dir ++ (0 :: nil)) 0 (Z.of_N id) (b2z flag) (Z.of_N split)) = Some 0.
Proof. exact Gen_names.safe_fmtqfn. Qed.
(* addrparse() with every array access checked: no access outside an array for any argument, any local IP host name, any set of
   own addresses (the stralloc stubs keep addr as exactly its len bytes, so an index past the address would be flagged) *)
From NQ Require Tie.Gen_addrparse.
Lemma tie_safe_addrparse : forall (arg lh : Bytes.bytes) (addr0 : list Z) (len0 ok : Z) (ipme : list Z),
  bytes_ok arg -> ~ In 0%N arg -> Z.of_nat (length arg) < 2 ^ 31 -> bytes_ok lh -> Z.of_nat (length lh) < 2 ^ 31 ->
  option_map (fun r => K_addrparse.v__oob (snd r)) (K_addrparse.run (S (S (length arg))) (zs arg ++ (0 :: nil)) 0 addr0 len0 ok ipme (zs lh) (Z.of_nat (length lh))) = Some 0.
Proof. exact Gen_addrparse.safe_addrparse. Qed.
(* the output side of substdio as generated from today's substdo.c simulates Mem/Substdio.v: from any C state that represents a
   model state (Gen_substdio.Rep: the buffer holds the pending bytes, the oracle has answered what the model's script says, the
   descriptor has received o_out), each operation returns what the model returns and ends in a C state that represents the
   model's next state - for every script of short writes, EINTR and errors.  Mem/SubstdioProofs.v's stream theorem (the descriptor
   receives exactly the concatenation of the data of the successful operations, in order) is therefore a theorem about the translation
   of today's code; and the checked variants of put/bput never leave the buffer or the data *)
From NQ Require Mem.Substdio Tie.Gen_substdio.
Lemma tie_generated_substdio_put : forall b x p fd script n out fuel data, Gen_substdio.Rep b x p script n out -> Gen_substdio.good b data -> Gen_substdio.enough fuel b script data ->
  exists v st, C_substdio_put.run fuel x (Z.of_nat (Substdio.o_cap b)) p fd (zs data) 0 (Z.of_nat (length data)) script out n = Some (v, st) /\ v = Gen_substdio.ret (fst (Substdio.o_put b data)) /\
    Gen_substdio.Rep (snd (Substdio.o_put b data)) (C_substdio_put.a_s__x st) (C_substdio_put.v_s__p st) script (C_substdio_put.v_wr__n st) (C_substdio_put.a_wr__out st).
Proof. exact Gen_substdio.gen_substdio_put_sim. Qed.
Lemma tie_generated_substdio_bput : forall b x p fd script n out fuel data, Gen_substdio.Rep b x p script n out -> Gen_substdio.good b data -> Gen_substdio.enough fuel b script data ->
  exists v st, C_substdio_bput.run fuel x (Z.of_nat (Substdio.o_cap b)) p fd (zs data) 0 (Z.of_nat (length data)) script out n = Some (v, st) /\ v = Gen_substdio.ret (fst (Substdio.o_bput b data)) /\
    Gen_substdio.Rep (snd (Substdio.o_bput b data)) (C_substdio_bput.a_s__x st) (C_substdio_bput.v_s__p st) script (C_substdio_bput.v_wr__n st) (C_substdio_bput.a_wr__out st).
Proof. exact Gen_substdio.gen_substdio_bput_sim. Qed.
Lemma tie_generated_substdio_flush : forall b x p fd script n out fuel, Gen_substdio.Rep b x p script n out -> Gen_substdio.good b nil -> Gen_substdio.enough fuel b script nil ->
  exists v st, C_substdio_flush.run fuel x p fd script out n = Some (v, st) /\ v = Gen_substdio.ret (fst (Substdio.o_flush b)) /\
    Gen_substdio.Rep (snd (Substdio.o_flush b)) (C_substdio_flush.a_s__x st) (C_substdio_flush.v_s__p st) script (C_substdio_flush.v_wr__n st) (C_substdio_flush.a_wr__out st).
Proof. exact Gen_substdio.gen_substdio_flush_sim. Qed.
Lemma tie_generated_substdio_putflush : forall b x p fd script n out fuel data, Gen_substdio.Rep b x p script n out -> Gen_substdio.good b data -> Gen_substdio.enough fuel b script data ->
  exists v st, C_substdio_putflush.run fuel x p fd (zs data) 0 (Z.of_nat (length data)) script out n = Some (v, st) /\ v = Gen_substdio.ret (fst (Substdio.o_putflush b data)) /\
    Gen_substdio.Rep (snd (Substdio.o_putflush b data)) (C_substdio_putflush.a_s__x st) (C_substdio_putflush.v_s__p st) script (C_substdio_putflush.v_wr__n st) (C_substdio_putflush.a_wr__out st).
Proof. exact Gen_substdio.gen_substdio_putflush_sim. Qed.
Lemma tie_safe_substdio_put : forall b x p fd script n out fuel data, Gen_substdio.Rep b x p script n out -> Gen_substdio.good b data -> Gen_substdio.enough fuel b script data ->
  option_map (fun r => K_substdio_put.v__oob (snd r)) (K_substdio_put.run fuel x (Z.of_nat (Substdio.o_cap b)) p fd (zs data) 0 (Z.of_nat (length data)) script out n) = Some 0.
Proof. exact Gen_substdio.safe_substdio_put. Qed.
Lemma tie_safe_substdio_bput : forall b x p fd script n out fuel data, Gen_substdio.Rep b x p script n out -> Gen_substdio.good b data -> Gen_substdio.enough fuel b script data ->
  option_map (fun r => K_substdio_bput.v__oob (snd r)) (K_substdio_bput.run fuel x (Z.of_nat (Substdio.o_cap b)) p fd (zs data) 0 (Z.of_nat (length data)) script out n) = Some 0.
Proof. exact Gen_substdio.safe_substdio_bput. Qed.
(* the input side: the generated substdi.c simulates Mem/Substdio.v (Gen_substdi.RepI: the s->p available bytes sit at offset s->n
   of the buffer, the oracle has answered what the model's script says, the source is consumed up to v_rd__pos): substdio_feed and
   substdio_get return what i_feed / i_get return - the same bytes in the caller's buffer - and end in a state that represents the
   model's next state, for every script of short reads, EINTR, errors and end of file; the checked substdio_get never leaves the
   buffer, the destination or the source.  i_feed_ok / i_get_ok / getlns_all_concat of Mem/SubstdioProofs.v are thereby theorems about
   the translation of today's code *)
From NQ Require Tie.Gen_substdi.
Lemma tie_generated_substdio_feed : forall b x p n fd script k src pos fuel, Gen_substdi.RepI b x p n script k src pos -> Gen_substdi.goodI b src 0 -> Gen_substdi.enoughI fuel b script 0 ->
  exists v st, C_substdio_feed.run fuel x p n fd script src k pos = Some (v, st) /\
    v = (match fst (Substdio.i_feed b) with Substdio.FdHave m => Z.of_nat m | Substdio.FdEof => 0 | Substdio.FdErr => -1 end) /\
    Gen_substdi.RepI (snd (Substdio.i_feed b)) (C_substdio_feed.a_s__x st) (C_substdio_feed.v_s__p st) (C_substdio_feed.v_s__n st) script (C_substdio_feed.v_rd__n st) src (C_substdio_feed.v_rd__pos st).
Proof. exact Gen_substdi.gen_substdio_feed_sim. Qed.
Lemma tie_generated_substdio_get : forall b x p n fd script k src pos fuel (dst : list Z) (len : nat),
  Gen_substdi.RepI b x p n script k src pos -> Gen_substdi.goodI b src len -> Gen_substdi.enoughI fuel b script len -> (len <= length dst)%nat ->
  exists v st, C_substdio_get.run fuel x p n fd dst 0 (Z.of_nat len) script src k pos = Some (v, st) /\
    match fst (Substdio.i_get b len) with
    | None => v = -1
    | Some d => v = Z.of_nat (length d) /\ firstn (length d) (C_substdio_get.a_buf st) = zs d
    end /\
    Gen_substdi.RepI (snd (Substdio.i_get b len)) (C_substdio_get.a_s__x st) (C_substdio_get.v_s__p st) (C_substdio_get.v_s__n st) script (C_substdio_get.v_rd__n st) src (C_substdio_get.v_rd__pos st).
Proof. exact Gen_substdi.gen_substdio_get_sim. Qed.
Lemma tie_safe_substdio_get : forall b x p n fd script k src pos fuel (dst : list Z) (len : nat),
  Gen_substdi.RepI b x p n script k src pos -> Gen_substdi.goodI b src len -> Gen_substdi.enoughI fuel b script len -> (len <= length dst)%nat ->
  option_map (fun r => K_substdio_get.v__oob (snd r)) (K_substdio_get.run fuel x p n fd dst 0 (Z.of_nat len) script src k pos) = Some 0.
Proof. exact Gen_substdi.safe_substdio_get. Qed.
(* composition: ANY sequence of put / bput / flush / putflush operations run through the generated substdo.c, from an empty buffer of any
   size, under any script of short writes, EINTR and errors: the generated code and the model stop at the same operation; while no
   operation failed, what the descriptor accepted followed by the s->p bytes waiting in the buffer is exactly the concatenation of
   everything that was put; in every case what the descriptor accepted is a prefix of it; and s->p never exceeds the buffer size *)
From NQ Require Tie.Gen_stream.
Lemma tie_generated_substdio_stream : forall (cap : nat) (scr : Substdio.wscript) (ops : list Substdio.oop) (fuel : nat),
  (0 < cap)%nat -> Z.of_nat cap < 2 ^ 30 -> Gen_stream.ops_ok ops -> (length scr + Gen_stream.max_data ops + cap + 4 <= fuel)%nat ->
  exists ok s, Gen_stream.c_run (Z.of_nat cap) (map Gen_substdio.enc scr) fuel {| Gen_stream.c_x := repeat 0 cap; Gen_stream.c_p := 0; Gen_stream.c_n := 0; Gen_stream.c_out := nil |} ops = Some (ok, s) /\
    (ok = true -> Gen_stream.c_out s ++ firstn (Z.to_nat (Gen_stream.c_p s)) (Gen_stream.c_x s) = zs (flat_map Substdio.op_data ops)) /\
    (exists rest, zs (flat_map Substdio.op_data ops) = Gen_stream.c_out s ++ rest) /\ 0 <= Gen_stream.c_p s <= Z.of_nat cap.
Proof. exact Gen_stream.gen_substdio_stream. Qed.
