(* tie for C20: functions generated from today's sources (tools/c2gallina.py) equal the models the index-safety theorems
   are about; the memory-safety statements about the checked (K_) variants are added in Tie/Gen_safety.v *)
From Coq Require Import ZArith List.
From NQ Require Import Base.MiniC Mem.DnsParse gen.CGen Tie.GenCommon Tie.Gen_small.
Import ListNotations.
Local Open Scope Z_scope.
Lemma tie_generated_getshort : forall (buf : Z -> Z) (p : Z), 0 <= buf p < 256 -> 0 <= buf (p + 1) < 256 ->
  retval (C_getshort.run 1 [buf p; buf (p + 1)] 0) = Some (DnsParse.getshort buf p).
Proof. exact gen_getshort_eq. Qed.
(* the byte/str/case/fmt/scan library as generated from today's sources = the list functions it is meant to be
   (Tie/Gen_strings.v: byte_copy and byte_copyr touch exactly n cells, byte_zero, str_rchr, str_start, case_starts,
   case_diffs, scan_8long, fmt_str, fmt_uint, fmt_uint0) *)
From NQ Require Tie.Gen_strings Tie.Gen_numbers Tie.Gen_tables.
Lemma tie_generated_byte_copy : forall (dst src : list Z) (n : nat), zbytes_ok src -> (n <= length dst)%nat -> (n <= length src)%nat -> Z.of_nat n < 2 ^ 32 ->
  option_map (fun r => C_byte_copy.a_to (snd r)) (C_byte_copy.run (S n) dst 0 (Z.of_nat n) src 0) = Some (firstn n src ++ skipn n dst).
Proof. exact Gen_strings.gen_byte_copy_eq. Qed.
Lemma tie_generated_byte_copyr : forall (dst src : list Z) (n : nat), zbytes_ok src -> (n <= length dst)%nat -> (n <= length src)%nat -> Z.of_nat n < 2 ^ 32 ->
  option_map (fun r => C_byte_copyr.a_to (snd r)) (C_byte_copyr.run (S n) dst 0 (Z.of_nat n) src 0) = Some (firstn n src ++ skipn n dst).
Proof. exact Gen_strings.gen_byte_copyr_eq. Qed.
Lemma tie_generated_byte_zero : forall (a : list Z) (n : nat), (n <= length a)%nat -> Z.of_nat n < 2 ^ 32 ->
  option_map (fun r => C_byte_zero.a_s (snd r)) (C_byte_zero.run (S n) a 0 (Z.of_nat n)) = Some (repeat 0 n ++ skipn n a).
Proof. exact Gen_strings.gen_byte_zero_eq. Qed.
Definition generated_library_equalities := (Gen_strings.gen_str_rchr_eq, Gen_strings.gen_str_start_eq, Gen_strings.gen_case_starts_eq,
  Gen_strings.gen_case_diffs_eq, Gen_strings.gen_scan_8long_eq, Gen_strings.gen_fmt_str_eq, Gen_strings.gen_fmt_str_len,
  Gen_strings.gen_fmt_uint_len, Gen_strings.gen_fmt_uint0_eq, Gen_numbers.gen_fmt_ulong_eq, Gen_numbers.gen_str_chr_eq).
