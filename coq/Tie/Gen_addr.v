(* ip.c ip_scanbracket()/ip_scan() and quote.c doit() as generated from today's sources  =  the models of Smtp/Smtpd.v
   (ip_scanbracket: the localiphost substitution of C08) and Addr/Quote.v (doit: C17).  REQUIRED statements must be
   proved exactly as stated. *)
From Coq Require Import ZArith NArith List Lia.
From NQ Require Import Base.MiniC Base.Bytes Base.CInt Smtp.Smtpd Addr.Quote gen.CGen Tie.GenCommon Tie.GenAux Tie.Gen_numbers.
Import ListNotations.
Local Open Scope Z_scope.

From Coq Require Import ZifyBool.
Ltac Zify.zify_post_hook ::= Z.div_mod_to_equations.

(* Proof conventions as in Gen_numbers.v: no generated fresh name is mentioned; run/body/loopK are unfolded, the
   setters and projections of a module are reduced by a per-module tactic, loops are inductions over record literals,
   straight-line code with calls is walked through by one tactic per C statement group. *)

(* sequencing of statements *)
Lemma obind_normal {S} (s : S) f : obind (ONormal s) f = f s. Proof. reflexivity. Qed.

(* ==================== ip.c ==================== *)
(* ---------- scan_ulong started anywhere inside the string ---------- *)

Lemma scan_from_bound s : forall acc p, (acc < 18446744073709551616)%N ->
  (fst (scan_from s acc p) < 18446744073709551616)%N.
Proof.
  induction s as [|x s IH]; intros acc p Hacc; cbn [scan_from]; [exact Hacc|].
  destruct (is_digit x); [|exact Hacc]. apply IH. apply (N.mod_upper_bound _ U64). discriminate.
Qed.
Lemma scan_from_pos s : forall acc p, (p <= snd (scan_from s acc p) <= p + length s)%nat.
Proof.
  induction s as [|x s IH]; intros acc p; cbn [scan_from length]; [cbn; lia|].
  destruct (is_digit x); [|cbn; lia]. specialize (IH ((acc * 10 + (x - 48)) mod U64)%N (S p)). lia.
Qed.

Lemma su_loop_at (f0 : nat) (u0 : Z) (au : list Z) (pre0 : bytes) :
  forall (rest pre : bytes) (acc : N) (cv : Z) (fuel : nat),
  (length rest < fuel)%nat -> bytes_ok rest -> (acc < 18446744073709551616)%N ->
  Z.of_nat (length pre + length rest) < 4294967296 ->
  exists cv', C_scan_ulong.loop1 f0 fuel
     {| C_scan_ulong.v_s := Z.of_nat (length pre0); C_scan_ulong.v_u := u0; C_scan_ulong.v_pos := Z.of_nat (length pre);
        C_scan_ulong.v_result := Z.of_N acc; C_scan_ulong.v_c := cv;
        C_scan_ulong.a_s := zs (pre0 ++ pre ++ rest) ++ [0]; C_scan_ulong.a_u := au |}
   = ONormal
     {| C_scan_ulong.v_s := Z.of_nat (length pre0); C_scan_ulong.v_u := u0;
        C_scan_ulong.v_pos := Z.of_nat (snd (scan_from rest acc (length pre)));
        C_scan_ulong.v_result := Z.of_N (fst (scan_from rest acc (length pre))); C_scan_ulong.v_c := cv';
        C_scan_ulong.a_s := zs (pre0 ++ pre ++ rest) ++ [0]; C_scan_ulong.a_u := au |}.
Proof.
  induction rest as [|x rest IH]; intros pre acc cv fuel Hfuel Hok Hacc Hlen;
    (destruct fuel as [|f]; [cbn [length] in Hfuel; lia|]);
    cbn [C_scan_ulong.loop1]; su_simpl; change (wrapu 64 10) with 10.
  - assert (Hrd : rd (zs (pre0 ++ pre ++ []) ++ [0]) (Z.of_nat (length pre0) + Z.of_nat (length pre)) = Z.of_N 0).
    { rewrite app_nil_r, <- Nat2Z.inj_add, <- app_length, <- (zs_length (pre0 ++ pre)). apply rd_at_len. }
    rewrite Hrd.
    destruct (digit_of_spec 0%N ltac:(lia)) as [Hd _]. rewrite Hd.
    change (is_digit 0) with false. cbn [b2z scan_from fst snd]. change (0 =? 0) with true. cbv iota.
    eexists; reflexivity.
  - assert (Hrd : rd (zs (pre0 ++ pre ++ x :: rest) ++ [0]) (Z.of_nat (length pre0) + Z.of_nat (length pre)) = Z.of_N x).
    { rewrite app_assoc, zs_app, <- app_assoc, <- Nat2Z.inj_add, <- app_length, <- (zs_length (pre0 ++ pre)), rd_at_len.
      reflexivity. }
    rewrite Hrd.
    apply bytes_ok_cons in Hok. destruct Hok as [Hx Hok].
    destruct (digit_of_spec x Hx) as [Hd Hv]. rewrite Hd. cbn [scan_from].
    destruct (is_digit x) eqn:Ed.
    + cbn [b2z]. change (1 =? 0) with false. cbv iota. rewrite (Hv eq_refl).
      rewrite su_result by exact Hacc.
      assert (Hpre : pre ++ x :: rest = (pre ++ [x]) ++ rest) by (rewrite <- app_assoc; reflexivity).
      cbn [length] in Hlen, Hfuel.
      replace (wrapu 32 (Z.of_nat (length pre) + 1)) with (Z.of_nat (length (pre ++ [x]))).
      2:{ rewrite app_length. cbn [length]. rewrite wrapu32_small; lia. }
      replace (S (length pre)) with (length (pre ++ [x])) by (rewrite app_length; cbn [length]; lia).
      rewrite Hpre. apply IH.
      * lia.
      * exact Hok.
      * apply (N.mod_upper_bound _ U64). discriminate.
      * rewrite app_length. cbn [length]. lia.
    + cbn [b2z fst snd]. change (0 =? 0) with true. cbv iota. eexists; reflexivity.
Qed.

(* the call as the callers see it: value returned, the array untouched, the cell written *)
Lemma su_run_split (fuel : nat) (pre rest : bytes) (old : Z) :
  bytes_ok rest -> Z.of_nat (length rest) < 4294967296 -> (length rest < fuel)%nat ->
  exists t, C_scan_ulong.run fuel (zs (pre ++ rest) ++ [0]) (Z.of_nat (length pre)) [old] 0
            = Some (Z.of_nat (snd (scan_ulong rest)), t)
    /\ C_scan_ulong.a_s t = zs (pre ++ rest) ++ [0]
    /\ C_scan_ulong.a_u t = [Z.of_N (fst (scan_ulong rest))].
Proof.
  intros Hs Hlen Hfuel.
  unfold C_scan_ulong.run, C_scan_ulong.body. su_simpl.
  change (wrapu 32 0) with (Z.of_nat (@length N [])). change (wrapu 64 0) with (Z.of_N 0).
  destruct (su_loop_at fuel 0 [old] pre rest [] 0%N 0 fuel) as [cv' Hl].
  - lia.
  - exact Hs.
  - lia.
  - cbn [length]. lia.
  - cbn [app] in Hl. rewrite Hl. rewrite obind_normal. su_simpl. cbn [length].
    eexists. split; [reflexivity|]. su_simpl. split; [reflexivity|].
    unfold scan_ulong. pose proof (scan_from_bound rest 0%N 0%nat ltac:(lia)) as Hb.
    remember (scan_from rest 0 0) as r. change (wr [old] 0 (wrapu 64 (Z.of_N (fst r)))) with [wrapu 64 (Z.of_N (fst r))].
    rewrite wrapu64_small by lia. reflexivity.
Qed.

Lemma su_run_at (fuel : nat) (s : bytes) (p : nat) (old : Z) :
  bytes_ok s -> Z.of_nat (length s) < 4294967296 -> (p <= length s)%nat -> (length s < fuel)%nat ->
  exists t, C_scan_ulong.run fuel (zs s ++ [0]) (Z.of_nat p) [old] 0
            = Some (Z.of_nat (snd (scan_ulong (skipn p s))), t)
    /\ C_scan_ulong.a_s t = zs s ++ [0]
    /\ C_scan_ulong.a_u t = [Z.of_N (fst (scan_ulong (skipn p s)))].
Proof.
  intros Hs Hlen Hp Hfuel.
  assert (Hlp : length (firstn p s) = p) by (apply firstn_length_le; exact Hp).
  assert (Hlr : length (skipn p s) = (length s - p)%nat) by apply skipn_length.
  pose proof (su_run_split fuel (firstn p s) (skipn p s) old) as H.
  rewrite firstn_skipn, Hlp in H. apply H.
  - unfold bytes_ok in *. rewrite <- (firstn_skipn p s) in Hs. apply Forall_app in Hs. apply Hs.
  - lia.
  - lia.
Qed.

Ltac is_simpl := cbv [C_ip_scan.set_v_s C_ip_scan.set_v_i C_ip_scan.set_v_len C_ip_scan.set_v_u C_ip_scan.set_a_s C_ip_scan.set_a_ip__d
                      C_ip_scan.v_s C_ip_scan.v_i C_ip_scan.v_len C_ip_scan.v_u C_ip_scan.a_s C_ip_scan.a_ip__d].


Lemma obind_return {S} v (s : S) f : obind (OReturn v s) f = OReturn v s. Proof. reflexivity. Qed.
Lemma rd_single x : rd [x] 0 = x. Proof. reflexivity. Qed.

(* the model's chain with offsets into the one string instead of suffixes *)
Section Off.
Context {R : Type}.
Definition oct_at (s : bytes) (p : nat) (k : N -> nat -> option R) : option R :=
  let (u, n) := scan_ulong (skipn p s) in if Nat.eqb n 0 then None else k (u mod 256)%N (p + n)%nat.
Definition dot_at (s : bytes) (p : nat) (k : nat -> option R) : option R :=
  match skipn p s with c :: _ => if (c =? DOT)%N then k (S p) else None | [] => None end.
End Off.
Definition ip_off (s : bytes) (p : nat) : option (list N * nat) :=
  oct_at s p (fun a qa => dot_at s qa (fun qa' =>
  oct_at s qa' (fun b qb => dot_at s qb (fun qb' =>
  oct_at s qb' (fun c qc => dot_at s qc (fun qc' =>
  oct_at s qc' (fun d qd => Some ([a; b; c; d], qd)))))))).

Definition ip_ok (s : bytes) (p : nat) (m : option (list N * nat)) (r : option (Z * C_ip_scan.st)) : Prop :=
  match r with
  | None => False
  | Some (v, t) => C_ip_scan.a_s t = zs s ++ [0] /\
      match m with
      | None => v = 0
      | Some (o, q) => v = Z.of_nat (q - p) /\ C_ip_scan.a_ip__d t = zs o /\ (p < q <= length s)%nat
      end
  end.

Lemma rd_skipn (s : bytes) (q : nat) : (q <= length s)%nat -> rd (zs s ++ [0]) (Z.of_nat q) = Z.of_N (hd 0%N (skipn q s)).
Proof.
  intros Hq. rewrite <- (firstn_skipn q s) at 1. rewrite zs_app, <- app_assoc.
  assert (Hq' : Z.of_nat q = Z.of_nat (length (zs (firstn q s)))) by (rewrite zs_length, firstn_length_le; [reflexivity|exact Hq]).
  rewrite Hq', rd_at_len. destruct (skipn q s); reflexivity.
Qed.

Lemma cmp_dot (c : N) : (c < 256)%N -> (wraps 32 (wraps 8 (Z.of_N c)) =? 46) = (c =? DOT)%N.
Proof.
  intros Hc. apply Bool.eqb_prop. revert c Hc.
  apply (byte_sweep (fun c => Bool.eqb (wraps 32 (wraps 8 (Z.of_N c)) =? 46) (c =? DOT)%N)). vm_compute. reflexivity.
Qed.

Lemma octet_store (u : N) : wrapu 8 (wrapu 8 (Z.of_N u)) = Z.of_N (u mod 256).
Proof. rewrite !wrapu8_def. rewrite N2Z.inj_mod. change (Z.of_N 256) with 256. lia. Qed.

Lemma wr4 i0 i1 i2 i3 a b c d :
  wr (wr (wr (wr [i0; i1; i2; i3] (0 + 0) a) (0 + 1) b) (0 + 2) c) (0 + 3) d = [a; b; c; d].
Proof. reflexivity. Qed.

Lemma scan_ulong_le (r : bytes) : (snd (scan_ulong r) <= length r)%nat.
Proof. unfold scan_ulong. pose proof (scan_from_pos r 0%N 0%nat). lia. Qed.

Lemma skipn_cons_lt {A} (q : nat) (s : list A) c s' : skipn q s = c :: s' -> (q < length s)%nat.
Proof. intros E. pose proof (skipn_length q s) as H. rewrite E in H. cbn [length] in H. lia. Qed.

Lemma in_skipn {A} (q : nat) (s : list A) c s' : skipn q s = c :: s' -> In c s.
Proof. intros E. rewrite <- (firstn_skipn q s), E. apply in_or_app. right. now left. Qed.


Ltac ip_fail := rewrite ?obind_return; unfold ip_ok; cbv beta iota; is_simpl; split; reflexivity.

(* one call of scan_ulong, the test for no digit, the store of the octet, the advance *)
Ltac oct_stage s p Hs Hlen Hfuel :=
  match goal with |- context [C_scan_ulong.run ?f ?a (Z.of_nat ?q) [?u] 0] =>
    let t := fresh "t" in let Hrun := fresh "Hrun" in let Has := fresh "Has" in let Hau := fresh "Hau" in
    let uu := fresh "u" in let n := fresh "n" in let E := fresh "E" in let Hn := fresh "Hn" in
    destruct (su_run_at f s q u Hs ltac:(lia) ltac:(lia) Hfuel) as (t & Hrun & Has & Hau);
    rewrite Hrun; cbv beta iota; is_simpl; rewrite ?Has, ?Hau, ?rd_single; clear Hrun Has Hau;
    unfold oct_at at 1;
    pose proof (scan_ulong_le (skipn q s)) as Hn; rewrite skipn_length in Hn;
    destruct (scan_ulong (skipn q s)) as [uu n] eqn:E; cbn [fst snd] in Hn |- *;
    destruct n as [|n]; cbn [Nat.eqb];
    [ change (Z.of_nat 0 =? 0) with true; cbn [b2z]; change (1 =? 0) with false; cbv iota; ip_fail
    | rewrite of_nat_S_eqb; cbn [b2z]; change (0 =? 0) with true; cbv iota; rewrite obind_normal; is_simpl;
      rewrite octet_store;
      replace (Z.of_nat q + Z.of_nat (S n)) with (Z.of_nat (q + S n)) by lia;
      match goal with |- context [wrapu 32 (wrapu 32 (wrapu 32 ?L + Z.of_nat (S n)))] =>
        replace (wrapu 32 (wrapu 32 (wrapu 32 L + Z.of_nat (S n)))) with (Z.of_nat (q + S n - p))
          by (change (wrapu 32 0) with 0; rewrite !wrapu32_def; lia) end ]
  end.


Lemma bytes_ok_in (s : bytes) c : bytes_ok s -> In c s -> (c < 256)%N.
Proof. unfold bytes_ok. rewrite Forall_forall. intros H Hin. apply H, Hin. Qed.

(* the test for a dot at the current position, then one step forward *)
Ltac dot_stage s p Hs :=
  match goal with |- context [rd (zs s ++ [0]) (Z.of_nat ?q)] =>
    let c := fresh "c" in let s' := fresh "s'" in let Esk := fresh "Esk" in let Hc := fresh "Hc" in let Hq := fresh "Hq" in
    rewrite (rd_skipn s q) by lia; unfold dot_at at 1;
    destruct (skipn q s) as [|c s'] eqn:Esk; cbn [hd];
    [ change (wraps 32 (wraps 8 (Z.of_N 0)) =? 46) with false; cbn [negb b2z]; change (1 =? 0) with false; cbv iota; ip_fail
    | assert (Hc : (c < 256)%N) by (apply (bytes_ok_in s c Hs); exact (in_skipn _ _ _ _ Esk));
      pose proof (skipn_cons_lt _ _ _ _ Esk) as Hq;
      rewrite (cmp_dot c Hc); destruct (c =? DOT)%N; cbn [negb b2z];
      [ change (0 =? 0) with true; cbv iota; rewrite obind_normal; is_simpl;
        replace (Z.of_nat q + 1) with (Z.of_nat (S q)) by lia;
        replace (wrapu 32 (Z.of_nat (q - p) + 1)) with (Z.of_nat (S q - p)) by (rewrite wrapu32_def; lia)
      | change (1 =? 0) with false; cbv iota; ip_fail ] ]
  end.

Lemma ip_scan_run (fuel : nat) (s : bytes) (p : nat) (ip : list Z) :
  bytes_ok s -> Z.of_nat (length s) < 2147483648 -> (p <= length s)%nat -> (length s < fuel)%nat -> length ip = 4%nat ->
  ip_ok s p (ip_off s p) (C_ip_scan.run fuel (zs s ++ [0]) (Z.of_nat p) ip).
Proof.
  intros Hs Hlen Hp Hfuel Hip.
  destruct ip as [|i0 [|i1 [|i2 [|i3 [|? ?]]]]]; try discriminate Hip. clear Hip.
  unfold C_ip_scan.run, C_ip_scan.body, ip_off. is_simpl.
  oct_stage s p Hs Hlen Hfuel. dot_stage s p Hs.
  oct_stage s p Hs Hlen Hfuel. dot_stage s p Hs.
  oct_stage s p Hs Hlen Hfuel. dot_stage s p Hs.
  oct_stage s p Hs Hlen Hfuel.
  unfold ip_ok. cbv beta iota. is_simpl.
  split; [reflexivity|]. split; [reflexivity|]. split; [apply wr4|lia].
Qed.

Lemma skipn_add {A} (n p : nat) : forall s : list A, skipn n (skipn p s) = skipn (p + n) s.
Proof.
  induction p as [|p IH]; intros s; [reflexivity|].
  destruct s as [|x s]; [destruct n; reflexivity|]. cbn [skipn Nat.add]. apply IH.
Qed.
(* ---------- the model's chain of suffixes = the chain of offsets ---------- *)
Definition br_close (s : bytes) (m : option (list N * nat)) : option (list N * bytes) :=
  match m with
  | None => None
  | Some (o, q) => match skipn q s with e :: rest => if (e =? 93)%N then Some (o, rest) else None | [] => None end
  end.

Lemma oct_sim {X R} (s : bytes) (p : nat) (K : N -> bytes -> option X) (k : N -> nat -> option R) (f : option R -> option X) :
  f None = None -> (forall a q, K a (skipn q s) = f (k a q)) ->
  match scan_octet (skipn p s) with None => None | Some (a, r) => K a r end = f (oct_at s p k).
Proof.
  intros Hf HK. unfold scan_octet, oct_at. destruct (scan_ulong (skipn p s)) as [u n].
  destruct (Nat.eqb n 0); [symmetry; exact Hf|]. rewrite skipn_add. apply HK.
Qed.

Lemma skipn_S_tl {A} (p : nat) (s : list A) c r : skipn p s = c :: r -> skipn (S p) s = r.
Proof. intros E. replace (S p) with (p + 1)%nat by lia. rewrite <- skipn_add, E. reflexivity. Qed.

Lemma dot_sim {X R} (s : bytes) (p : nat) (K : bytes -> option X) (k : nat -> option R) (f : option R -> option X) :
  f None = None -> (forall q, K (skipn q s) = f (k q)) ->
  match scan_dot (skipn p s) with None => None | Some r => K r end = f (dot_at s p k).
Proof.
  intros Hf HK. unfold scan_dot, dot_at. destruct (skipn p s) as [|c r] eqn:E; [symmetry; exact Hf|].
  destruct (c =? DOT)%N; [|symmetry; exact Hf]. rewrite <- (skipn_S_tl p s c r E). apply HK.
Qed.

Definition ip_br (s : bytes) : option (list N * bytes) :=
  match s with
  | [] => None
  | c :: _ => if negb (c =? 91)%N then None else br_close s (ip_off s 1)
  end.

Lemma ip_scanbracket_br (s : bytes) : ip_scanbracket s = ip_br s.
Proof.
  destruct s as [|c stl]; [reflexivity|]. unfold ip_scanbracket, ip_br, ip_off.
  destruct (negb (c =? 91)%N); [reflexivity|].
  set (s := c :: stl). change stl with (skipn 1 s).
  apply (oct_sim s 1 _ _ (br_close s)); [reflexivity|intros a q1].
  apply (dot_sim s q1 _ _ (br_close s)); [reflexivity|intros q1'].
  apply (oct_sim s q1' _ _ (br_close s)); [reflexivity|intros b q2].
  apply (dot_sim s q2 _ _ (br_close s)); [reflexivity|intros q2'].
  apply (oct_sim s q2' _ _ (br_close s)); [reflexivity|intros cc q3].
  apply (dot_sim s q3 _ _ (br_close s)); [reflexivity|intros q3'].
  apply (oct_sim s q3' _ _ (br_close s)); [reflexivity|intros d q4].
  reflexivity.
Qed.

Ltac ib_simpl := cbv [C_ip_scanbracket.set_v_s C_ip_scanbracket.set_v_len C_ip_scanbracket.set_a_s C_ip_scanbracket.set_a_ip__d
                      C_ip_scanbracket.v_s C_ip_scanbracket.v_len C_ip_scanbracket.a_s C_ip_scanbracket.a_ip__d].

Lemma cmp_lbr (c : N) : (c < 256)%N -> (wraps 32 (wraps 8 (Z.of_N c)) =? 91) = (c =? 91)%N.
Proof.
  intros Hc. apply Bool.eqb_prop. revert c Hc.
  apply (byte_sweep (fun c => Bool.eqb (wraps 32 (wraps 8 (Z.of_N c)) =? 91) (c =? 91)%N)). vm_compute. reflexivity.
Qed.
Lemma cmp_rbr (c : N) : (c < 256)%N -> (wraps 32 (wraps 8 (Z.of_N c)) =? 93) = (c =? 93)%N.
Proof.
  intros Hc. apply Bool.eqb_prop. revert c Hc.
  apply (byte_sweep (fun c => Bool.eqb (wraps 32 (wraps 8 (Z.of_N c)) =? 93) (c =? 93)%N)). vm_compute. reflexivity.
Qed.

Lemma ip_scan_run_ex (fuel : nat) (s : bytes) (p : nat) (ip : list Z) :
  bytes_ok s -> Z.of_nat (length s) < 2147483648 -> (p <= length s)%nat -> (length s < fuel)%nat -> length ip = 4%nat ->
  exists v t, C_ip_scan.run fuel (zs s ++ [0]) (Z.of_nat p) ip = Some (v, t) /\ C_ip_scan.a_s t = zs s ++ [0] /\
      match ip_off s p with
      | None => v = 0
      | Some (o, q) => v = Z.of_nat (q - p) /\ C_ip_scan.a_ip__d t = zs o /\ (p < q <= length s)%nat
      end.
Proof.
  intros Hs Hlen Hp Hfuel Hip. pose proof (ip_scan_run fuel s p ip Hs Hlen Hp Hfuel Hip) as Hr.
  unfold ip_ok in Hr. remember (C_ip_scan.run fuel (zs s ++ [0]) (Z.of_nat p) ip) as r eqn:Er. clear Er.
  destruct r as [[v t]|]; [|contradiction]. exists v, t. split; [reflexivity|exact Hr].
Qed.

Lemma ip_scanbracket_run (s : bytes) (ip : list Z) :
  bytes_ok s -> length ip = 4%nat -> Z.of_nat (length s) < 2147483648 ->
  match C_ip_scanbracket.run (S (S (length s))) (zs s ++ [0]) 0 ip with
  | None => False
  | Some (v, t) => match ip_br s with
                   | None => v = 0
                   | Some (o, rest) => v = Z.of_nat (length s - length rest) /\ C_ip_scanbracket.a_ip__d t = zs o
                   end
  end.
Proof.
  intros Hs Hip Hlen.
  assert (Hfuel : (length s < S (S (length s)))%nat) by lia.
  remember (S (S (length s))) as fuel eqn:Efuel. clear Efuel.
  unfold C_ip_scanbracket.run, C_ip_scanbracket.body. ib_simpl.
  assert (Hhd : rd (zs s ++ [0]) 0 = Z.of_N (hd 0%N s)) by (apply (rd_skipn s 0); lia).
  rewrite Hhd. unfold ip_br.
  destruct s as [|c stl]; cbn [hd].
  - change (wraps 32 (wraps 8 (Z.of_N 0)) =? 91) with false. cbn [negb b2z]. change (1 =? 0) with false. cbv iota.
    rewrite obind_return. reflexivity.
  - assert (Hc : (c < 256)%N) by (apply (bytes_ok_in _ c Hs); now left).
    rewrite (cmp_lbr c Hc). destruct (c =? 91)%N; cbn [negb b2z].
    2:{ change (1 =? 0) with false. cbv iota. rewrite obind_return. reflexivity. }
    change (0 =? 0) with true. cbv iota. rewrite obind_normal. ib_simpl.
    assert (H1 : (1 <= length (c :: stl))%nat) by (cbn [length]; lia).
    clear Hhd. remember (c :: stl) as s eqn:Es. clear Es. change (0 + 1) with (Z.of_nat 1).
    destruct (ip_scan_run_ex fuel s 1 ip Hs Hlen H1 Hfuel Hip) as (v & t & Hrun & Has & Hm).
    rewrite Hrun. cbv beta iota. ib_simpl. rewrite Has.
    destruct (ip_off s 1) as [[o q]|]; unfold br_close.
    + destruct Hm as (Hv & Hd & Hq). rewrite Hd.
      assert (Hvz : (v =? 0) = false) by (apply Z.eqb_neq; lia). rewrite Hvz. cbn [b2z]. change (0 =? 0) with true. cbv iota.
      rewrite obind_normal. ib_simpl.
      replace (0 + wrapu 32 (v + wrapu 32 1)) with (Z.of_nat q).
      2:{ change (wrapu 32 1) with 1. rewrite wrapu32_small; lia. }
      rewrite (rd_skipn s q) by lia.
      destruct (skipn q s) as [|e rest] eqn:Esk; cbn [hd].
      * change (wraps 32 (wraps 8 (Z.of_N 0)) =? 93) with false. cbn [negb b2z]. change (1 =? 0) with false. cbv iota.
        rewrite obind_return. reflexivity.
      * assert (He : (e < 256)%N) by (apply (bytes_ok_in s e Hs); exact (in_skipn _ _ _ _ Esk)).
        rewrite (cmp_rbr e He). destruct (e =? 93)%N; cbn [negb b2z].
        2:{ change (1 =? 0) with false. cbv iota. rewrite obind_return. reflexivity. }
        change (0 =? 0) with true. cbv iota. rewrite obind_normal. ib_simpl.
        split; [|reflexivity].
        pose proof (skipn_length q s) as Hsl. rewrite Esk in Hsl. cbn [length] in Hsl.
        change (wrapu 32 2) with 2. rewrite wrapu32_small; lia.
    + subst v. change (0 =? 0) with true. cbn [b2z]. change (1 =? 0) with false. cbv iota.
      rewrite obind_return. reflexivity.
Qed.


(* REQUIRED: on a NUL-terminated string, the generated ip_scanbracket returns 0 exactly when the model refuses, and
   otherwise the number of characters consumed with the four octets stored *)
Theorem gen_ip_scanbracket_eq : forall (s : bytes) (ip : list Z) octets rest, bytes_ok s -> ~ In 0%N s -> length ip = 4%nat -> Z.of_nat (length s) < 2 ^ 31 ->
  ip_scanbracket s = Some (octets, rest) ->
  option_map (fun r => (fst r, C_ip_scanbracket.a_ip__d (snd r))) (C_ip_scanbracket.run (S (S (length s))) (zs s ++ [0]) 0 ip)
  = Some (Z.of_nat (length s - length rest), zs octets).
Proof.
  intros s ip octets rest Hs _ Hip Hlen Hm. rewrite pow2_31 in Hlen.
  pose proof (ip_scanbracket_run s ip Hs Hip Hlen) as H. rewrite <- ip_scanbracket_br, Hm in H.
  destruct (C_ip_scanbracket.run (S (S (length s))) (zs s ++ [0]) 0 ip) as [[v t]|]; [|contradiction].
  destruct H as [-> Hd]. cbn [option_map fst snd]. rewrite Hd. reflexivity.
Qed.
(* and in the refusing case the return value is 0 *)
Theorem gen_ip_scanbracket_none : forall (s : bytes) (ip : list Z), bytes_ok s -> ~ In 0%N s -> length ip = 4%nat -> Z.of_nat (length s) < 2 ^ 31 ->
  ip_scanbracket s = None -> retval (C_ip_scanbracket.run (S (S (length s))) (zs s ++ [0]) 0 ip) = Some 0.
Proof.
  intros s ip Hs _ Hip Hlen Hm. rewrite pow2_31 in Hlen.
  pose proof (ip_scanbracket_run s ip Hs Hip Hlen) as H. rewrite <- ip_scanbracket_br, Hm in H.
  destruct (C_ip_scanbracket.run (S (S (length s))) (zs s ++ [0]) 0 ip) as [[v t]|]; [|contradiction].
  subst v. reflexivity.
Qed.

(* ==================== quote.c ==================== *)
Lemma pow2_30 : 2 ^ 30 = 1073741824. Proof. reflexivity. Qed.

Ltac qd_simpl := cbv [C_quote_doit.set_v_ch C_quote_doit.set_v_i C_quote_doit.set_v_j C_quote_doit.set_v_nlen
  C_quote_doit.set_v_sain__len C_quote_doit.set_v_errno C_quote_doit.set_v_saout__len C_quote_doit.set_v_saout__a
  C_quote_doit.set_v_alloc_ok C_quote_doit.set_a_saout__s C_quote_doit.set_a_sain__s
  C_quote_doit.v_ch C_quote_doit.v_i C_quote_doit.v_j C_quote_doit.v_nlen C_quote_doit.v_sain__len C_quote_doit.v_errno
  C_quote_doit.v_saout__len C_quote_doit.v_saout__a C_quote_doit.v_alloc_ok C_quote_doit.a_saout__s C_quote_doit.a_sain__s].

Definition qspecial (c : N) : bool := ((c =? CR) || (c =? LF) || (c =? DQ) || (c =? BSL))%N.

(* the test for CR, LF, double quote, backslash on the signed char *)
Notation qd_cond x :=
  (if (if (if b2z (wraps 32 (wraps 8 x) =? 13) =? 0
           then b2z (negb (b2z (wraps 32 (wraps 8 x) =? 10) =? 0)) else 1) =? 0
       then b2z (negb (b2z (wraps 32 (wraps 8 x) =? 34) =? 0)) else 1) =? 0
   then b2z (negb (b2z (wraps 32 (wraps 8 x) =? 92) =? 0)) else 1) (only parsing).

Lemma qd_test (x : N) : (x < 256)%N -> qd_cond (Z.of_N x) = b2z (qspecial x).
Proof.
  intros Hx. apply Z.eqb_eq. revert x Hx.
  apply (byte_sweep (fun x => qd_cond (Z.of_N x) =? b2z (qspecial x))). vm_compute. reflexivity.
Qed.

Lemma qd_back (x : N) : (x < 256)%N -> wrapu 8 (wraps 8 (Z.of_N x)) = Z.of_N x.
Proof. intros Hx. rewrite wraps8_def, wrapu8_def. lia. Qed.

Lemma qesc_len c : (length (qesc c) <= 2)%nat.
Proof. unfold qesc. destruct (_ || _)%bool; cbn; lia. Qed.
Lemma flat_qesc_len s : (length (flat_map qesc s) <= 2 * length s)%nat.
Proof. induction s as [|c s IH]; cbn [flat_map length]; [lia|]. rewrite app_length. pose proof (qesc_len c). lia. Qed.

Lemma qd_loop (f0 : nat) (nlen errno olen oa ok : Z) :
  forall (rest pre : bytes) (O tail : list Z) (ch : Z) (fuel : nat),
  (length rest < fuel)%nat -> bytes_ok (pre ++ rest) ->
  Z.of_nat (length (pre ++ rest)) < 1073741824 ->
  Z.of_nat (length O) + 2 * Z.of_nat (length rest) < 2147483648 ->
  (2 * length rest <= length tail)%nat ->
  exists ch' i' tail',
   C_quote_doit.loop1 f0 fuel
     {| C_quote_doit.v_ch := ch; C_quote_doit.v_i := Z.of_nat (length pre); C_quote_doit.v_j := Z.of_nat (length O);
        C_quote_doit.v_nlen := nlen; C_quote_doit.v_sain__len := Z.of_nat (length (pre ++ rest));
        C_quote_doit.v_errno := errno; C_quote_doit.v_saout__len := olen; C_quote_doit.v_saout__a := oa;
        C_quote_doit.v_alloc_ok := ok; C_quote_doit.a_saout__s := O ++ tail; C_quote_doit.a_sain__s := zs (pre ++ rest) |}
   = ONormal
     {| C_quote_doit.v_ch := ch'; C_quote_doit.v_i := i';
        C_quote_doit.v_j := Z.of_nat (length (O ++ zs (flat_map qesc rest)));
        C_quote_doit.v_nlen := nlen; C_quote_doit.v_sain__len := Z.of_nat (length (pre ++ rest));
        C_quote_doit.v_errno := errno; C_quote_doit.v_saout__len := olen; C_quote_doit.v_saout__a := oa;
        C_quote_doit.v_alloc_ok := ok; C_quote_doit.a_saout__s := (O ++ zs (flat_map qesc rest)) ++ tail';
        C_quote_doit.a_sain__s := zs (pre ++ rest) |}
   /\ (length tail' + length (flat_map qesc rest) = length tail)%nat.
Proof.
  induction rest as [|x rest IH]; intros pre O tail ch fuel Hfuel Hok Hlen Hj Htail;
    (destruct fuel as [|f]; [cbn [length] in Hfuel; lia|]);
    cbn [C_quote_doit.loop1]; qd_simpl;
    rewrite (wrapu32_small (Z.of_nat (length pre))) by (rewrite app_length in Hlen; lia).
  - rewrite app_nil_r. rewrite Z.ltb_irrefl. cbn [b2z]. change (0 =? 0) with true. cbv iota.
    exists ch, (Z.of_nat (length pre)), tail. cbn [flat_map zs map length]. rewrite !app_nil_r.
    split; [reflexivity|lia].
  - assert (Hlt : (Z.of_nat (length pre) <? Z.of_nat (length (pre ++ x :: rest))) = true).
    { apply Z.ltb_lt. rewrite app_length. cbn [length]. lia. }
    rewrite Hlt. cbn [b2z]. change (1 =? 0) with false. cbv iota.
    assert (Hrd : rd (zs (pre ++ x :: rest)) (0 + Z.of_nat (length pre)) = Z.of_N x).
    { rewrite Z.add_0_l, zs_app, <- (zs_length pre), rd_at_len. reflexivity. }
    rewrite !Hrd.
    assert (Hx : (x < 256)%N).
    { unfold bytes_ok in Hok. rewrite Forall_forall in Hok. apply Hok. apply in_or_app. right. now left. }
    rewrite (qd_test x Hx).
    assert (Hpre : pre ++ x :: rest = (pre ++ [x]) ++ rest) by (rewrite <- app_assoc; reflexivity).
    cbn [length] in Hj, Htail, Hfuel.
    destruct tail as [|t1 tail]; [cbn [length] in Htail; lia|].
    destruct tail as [|t2 tail]; [cbn [length] in Htail; lia|].
    cbn [length] in Htail.
    cbn [flat_map]. unfold qesc at 1 3 5. fold (qspecial x).
    destruct (qspecial x) eqn:Esp; cbn [b2z]; [change (1 =? 0) with false|change (0 =? 0) with true]; cbv iota;
      rewrite obind_normal; qd_simpl.
    + change (wrapu 8 (wraps 8 92)) with 92. rewrite (qd_back x Hx).
      rewrite !Z.add_0_l. rewrite wr_at_len.
      rewrite (wraps32_small (Z.of_nat (length O) + 1)) by lia.
      replace (Z.of_nat (length O) + 1) with (Z.of_nat (length (O ++ [92]))) by (rewrite app_length; cbn [length]; lia).
      rewrite (app_cons_snoc O 92 (t2 :: tail)). rewrite wr_at_len.
      rewrite (wraps32_small (Z.of_nat (length (O ++ [92])) + 1)) by (rewrite app_length; cbn [length]; lia).
      rewrite (wraps32_small (Z.of_nat (length pre) + 1)) by lia.
      replace (Z.of_nat (length (O ++ [92])) + 1) with (Z.of_nat (length ((O ++ [92]) ++ [Z.of_N x])))
        by (rewrite !app_length; cbn [length]; lia).
      rewrite (app_cons_snoc (O ++ [92]) (Z.of_N x) tail).
      replace (Z.of_nat (length pre) + 1) with (Z.of_nat (length (pre ++ [x]))) by (rewrite app_length; cbn [length]; lia).
      rewrite Hpre.
      destruct (IH (pre ++ [x]) ((O ++ [92]) ++ [Z.of_N x]) tail (wraps 8 (Z.of_N x)) f) as (ch' & i' & tail' & Hl & Ht).
      * lia.
      * rewrite <- Hpre. exact Hok.
      * rewrite <- Hpre. exact Hlen.
      * rewrite !app_length. cbn [length]. lia.
      * lia.
      * exists ch', i', tail'. rewrite Hl. split.
        -- rewrite zs_app. cbn [zs map app]. rewrite <- !app_assoc. cbn [app]. reflexivity.
        -- rewrite app_length. cbn [length]. lia.
    + rewrite (qd_back x Hx).
      rewrite !Z.add_0_l. rewrite wr_at_len.
      rewrite (wraps32_small (Z.of_nat (length O) + 1)) by lia.
      rewrite (wraps32_small (Z.of_nat (length pre) + 1)) by lia.
      replace (Z.of_nat (length O) + 1) with (Z.of_nat (length (O ++ [Z.of_N x]))) by (rewrite app_length; cbn [length]; lia).
      rewrite (app_cons_snoc O (Z.of_N x) (t2 :: tail)).
      replace (Z.of_nat (length pre) + 1) with (Z.of_nat (length (pre ++ [x]))) by (rewrite app_length; cbn [length]; lia).
      rewrite Hpre.
      destruct (IH (pre ++ [x]) (O ++ [Z.of_N x]) (t2 :: tail) (wraps 8 (Z.of_N x)) f) as (ch' & i' & tail' & Hl & Ht).
      * lia.
      * rewrite <- Hpre. exact Hok.
      * rewrite <- Hpre. exact Hlen.
      * rewrite !app_length. cbn [length]. lia.
      * cbn [length]. lia.
      * exists ch', i', tail'. rewrite Hl. split.
        -- rewrite zs_app. cbn [zs map app]. rewrite <- !app_assoc. cbn [app]. reflexivity.
        -- rewrite app_length. cbn [length] in *. lia.
Qed.

Lemma wrapu_wraps32 v : 0 <= v < 4294967296 -> wrapu 32 (wraps 32 v) = v.
Proof. intros H. rewrite wraps32_def, wrapu32_def. lia. Qed.


(* REQUIRED: quote.c doit() with a succeeding allocator: returns 1, saout->len and the first saout->len cells are the model's doit *)
Theorem gen_quote_doit_eq : forall (src : bytes) (out : list Z) (outlen : Z), bytes_ok src -> Z.of_nat (length src) < 2 ^ 30 ->
  Z.of_nat (length out) < 2 ^ 32 -> 0 <= outlen ->
  option_map (fun r => (fst r, C_quote_doit.v_saout__len (snd r),
                        firstn (length (Quote.doit src)) (C_quote_doit.a_saout__s (snd r))))
    (C_quote_doit.run (S (length src)) out outlen (Z.of_nat (length out)) (zs src) (Z.of_nat (length src)) 1)
  = Some (1, Z.of_nat (length (Quote.doit src)), zs (Quote.doit src)).
Proof.
  intros src out outlen Hsrc Hlen Hout Holen. rewrite pow2_30 in Hlen. rewrite pow2_32 in Hout.
  unfold C_quote_doit.run, C_quote_doit.body. qd_simpl.
  rewrite !(wrapu32_small (Z.of_nat (length src) * 2)) by lia.
  rewrite Z.eqb_refl. cbn [negb b2z]. change (wraps 32 0 =? 0) with true. cbv iota.
  rewrite !(wrapu32_small (Z.of_nat (length src) * 2 + 2)) by lia.
  rewrite Z.eqb_refl. cbn [negb b2z]. change (wraps 32 0 =? 0) with true. cbn [negb b2z fst snd].
  change (0 =? 0) with true. cbv iota. rewrite obind_normal. qd_simpl.
  change (1 =? 0) with false. cbn [negb]. rewrite !Bool.orb_true_r, !Bool.orb_false_r. cbn [b2z].
  change (1 =? 0) with false. cbn [b2z]. change (0 =? 0) with true. cbv iota.
  match goal with |- context [ONormal (if ?c then ?ra else ?rb)] =>
    assert (HA : exists A oa', (if c then ra else rb) =
      {| C_quote_doit.v_ch := 0; C_quote_doit.v_i := 0; C_quote_doit.v_j := 0;
         C_quote_doit.v_nlen := Z.of_nat (length src) * 2 + 2; C_quote_doit.v_sain__len := Z.of_nat (length src);
         C_quote_doit.v_errno := 0; C_quote_doit.v_saout__len := outlen; C_quote_doit.v_saout__a := oa';
         C_quote_doit.v_alloc_ok := 1; C_quote_doit.a_saout__s := A; C_quote_doit.a_sain__s := zs src |}
      /\ (2 * length src + 2 <= length A)%nat) end.
  { destruct (Z.leb_spec (Z.of_nat (length src) * 2 + 2) (Z.of_nat (length out))) as [Hle|Hgt].
    - eexists; eexists; split; [reflexivity|lia].
    - eexists; eexists; split; [reflexivity|]. unfold pad. rewrite app_length, repeat_length.
      rewrite Z.shiftr_div_pow2 by lia. change (2 ^ 3) with 8. lia. }
  destruct HA as (A & oa' & -> & HA).
  rewrite obind_normal. qd_simpl. rewrite obind_normal.
  destruct A as [|a0 A]; [cbn [length] in HA; lia|]. cbn [length] in HA.
  change (wr (a0 :: A) (0 + 0) (wrapu 8 (wraps 8 34))) with (34 :: A).
  change (wraps 32 (0 + 1)) with 1.
  destruct (qd_loop (S (length src)) (Z.of_nat (length src) * 2 + 2) 0 outlen oa' 1 src [] [34] A 0 (S (length src)))
    as (ch' & i' & tail' & Hl & Ht).
  - lia.
  - exact Hsrc.
  - exact Hlen.
  - cbn [length]. lia.
  - lia.
  - cbn [app] in Hl. change (Z.of_nat (length [34])) with 1 in Hl. change (Z.of_nat (@length N [])) with 0 in Hl.
    rewrite Hl. rewrite obind_normal. qd_simpl. cbn [option_map fst snd].
    pose proof (flat_qesc_len src) as Hfl.
    destruct tail' as [|t1 tail']; [cbn [length] in Ht; lia|].
    rewrite Z.add_0_l.
    set (F := flat_map qesc src) in *.
    change (34 :: zs F ++ t1 :: tail') with ((34 :: zs F) ++ t1 :: tail').
    rewrite wr_at_len. change (wrapu 8 (wraps 8 34)) with 34.
    unfold doit. fold F.
    assert (Hz : zs (DQ :: F ++ [DQ]) = (34 :: zs F) ++ [34]).
    { change (DQ :: F ++ [DQ]) with ((DQ :: F) ++ [DQ]). rewrite zs_app. reflexivity. }
    rewrite Hz.
    assert (Hlen2 : length (DQ :: F ++ [DQ]) = length ((34 :: zs F) ++ [34])).
    { rewrite <- Hz, zs_length. reflexivity. }
    rewrite Hlen2.
    rewrite (app_cons_snoc (34 :: zs F) 34 tail').
    rewrite firstn_app_le by lia. rewrite firstn_all.
    rewrite wrapu_wraps32.
    + f_equal. f_equal. f_equal. rewrite app_length. cbn [length]. lia.
    + cbn [length] in *. rewrite zs_length. lia.
Qed.

