(* control.c striptrailingwhitespace(), hfield.c hmatch(), token822.c atomcheck() as generated from today's sources =
   the models (Send/Route.v strip_trailing_ws; Addr/Inject822.v hmatch: which header field a line is; Addr/Tok.v atom_bad:
   which atoms become quoted strings).  REQUIRED statements must be proved exactly as stated. *)
From Coq Require Import ZArith NArith List Lia.
From NQ Require Import Base.MiniC Base.Bytes Send.Route Addr.Tok Addr.Inject822 gen.CGen Tie.GenCommon Tie.GenAux.
Import ListNotations.
Local Open Scope Z_scope.
From Coq Require Import Bool ZifyBool.
Ltac Zify.zify_post_hook ::= Z.div_mod_to_equations.

(* Proof conventions (as in Tie/Gen_strings.v): nothing below mentions a generated fresh name; the generated
   run/body/loopK are unfolded, the setters and projections of the module are reduced by a per-module tactic, and every
   loop lemma is an induction with the state written as a record literal. *)

(* ---------- generic facts ---------- *)
Lemma hb2z_if {A} (b : bool) (x y : A) : (if b2z b =? 0 then x else y) = if b then y else x.
Proof. destruct b; reflexivity. Qed.
(* C's  a || b  on ints *)
Lemma hc_or (a b : bool) : (if b2z a =? 0 then b2z (negb (b2z b =? 0)) else 1) = b2z (a || b).
Proof. destruct a, b; reflexivity. Qed.
(* C's  a && b  on ints *)
Lemma hc_and (a b : bool) : (if b2z a =? 0 then 0 else b2z (negb (b2z b =? 0))) = b2z (a && b).
Proof. destruct a, b; reflexivity. Qed.
Lemma hobind_return {S : Type} v (s : S) (f : S -> outcome S) : obind (OReturn v s) f = OReturn v s.
Proof. reflexivity. Qed.
Lemma hobind_normal {S : Type} (s : S) (f : S -> outcome S) : obind (ONormal s) f = f s.
Proof. reflexivity. Qed.
Lemma hrd_zs_mid (pre : bytes) x (rest : bytes) tl :
  rd (zs (pre ++ x :: rest) ++ tl) (Z.of_nat (length pre)) = Z.of_N x.
Proof.
  rewrite zs_app, <- app_assoc, <- (zs_length pre). cbn [zs map app]. apply rd_app_mid.
Qed.
Lemma hrd_zs_mid0 (pre : bytes) x (rest : bytes) : rd (zs (pre ++ x :: rest)) (Z.of_nat (length pre)) = Z.of_N x.
Proof. rewrite <- (hrd_zs_mid pre x rest []), app_nil_r. reflexivity. Qed.
Lemma hrd_zs_end (s : bytes) x tl : rd (zs s ++ x :: tl) (Z.of_nat (length s)) = x.
Proof. rewrite <- (zs_length s). apply rd_app_mid. Qed.
Lemma hrd_zs_out (s : bytes) : rd (zs s) (Z.of_nat (length s)) = 0.
Proof.
  unfold rd. destruct (Z.of_nat (length s) <? 0) eqn:E; [reflexivity|].
  rewrite Nat2Z.id. apply nth_overflow. rewrite zs_length. lia.
Qed.
Lemma hsnoc_assoc {A} (pre : list A) x rest : pre ++ x :: rest = (pre ++ [x]) ++ rest.
Proof. rewrite <- app_assoc. reflexivity. Qed.
Lemma hlen_snoc {A} (p : list A) x : Z.of_nat (length (p ++ [x])) = Z.of_nat (length p) + 1.
Proof. rewrite app_length. cbn [length]. lia. Qed.
Lemma hbytes_ok_mid pre x rest : bytes_ok (pre ++ x :: rest) -> (x < 256)%N.
Proof. unfold bytes_ok. rewrite Forall_forall. intros H. apply H. apply in_or_app. right. now left. Qed.

(* ---------- the model's stripped line is a prefix ---------- *)
Lemma strip_rev_suffix (r : bytes) : exists p, r = p ++ Route.strip_trailing_ws_rev r.
Proof.
  induction r as [|c r IH]; [exists []; reflexivity|].
  cbn [Route.strip_trailing_ws_rev].
  destruct ((c =? LF) || (c =? SP) || (c =? TAB))%N.
  - destruct IH as [p Hp]. exists (c :: p). cbn [app]. f_equal. exact Hp.
  - exists []. reflexivity.
Qed.


(* ---------- striptrailingwhitespace ---------- *)
Ltac stw_simpl := cbv [C_striptrailingwhitespace.set_v_sa__len C_striptrailingwhitespace.set_a_sa__s
                       C_striptrailingwhitespace.v_sa__len C_striptrailingwhitespace.a_sa__s].

(* switch (sa->s[sa->len - 1]) on a signed char: bytes >= 128 are negative and match no case *)
Lemma stw_char (c : N) : (c < 256)%N ->
  ((wraps 32 (wraps 8 (Z.of_N c)) =? 10) || (wraps 32 (wraps 8 (Z.of_N c)) =? 32) || (wraps 32 (wraps 8 (Z.of_N c)) =? 9))%bool
  = (N.eqb c LF || N.eqb c SP || N.eqb c TAB)%bool.
Proof.
  intros H. apply eqb_prop. revert c H. apply byte_sweep. vm_compute. reflexivity.
Qed.

Lemma stw_loop (f0 : nat) : forall (r : bytes) (rest : list Z) (fuel : nat),
  bytes_ok r -> Z.of_nat (length r) < 4294967296 -> (length r < fuel)%nat ->
  let st' := {| C_striptrailingwhitespace.v_sa__len := Z.of_nat (length (Route.strip_trailing_ws_rev r));
                C_striptrailingwhitespace.a_sa__s := zs (rev r) ++ rest |} in
  let o := C_striptrailingwhitespace.loop1 f0 fuel
             {| C_striptrailingwhitespace.v_sa__len := Z.of_nat (length r);
                C_striptrailingwhitespace.a_sa__s := zs (rev r) ++ rest |} in
  o = ONormal st' \/ o = OReturn 0 st'.
Proof.
  induction r as [|c r IH]; intros rest fuel Hok Hlen Hfuel; (destruct fuel as [|f]; [cbn [length] in Hfuel; lia|]).
  - cbv zeta. cbn [C_striptrailingwhitespace.loop1]. stw_simpl. cbn [length Route.strip_trailing_ws_rev].
    change (b2z (Z.of_nat 0 >? wrapu 32 0) =? 0) with true. cbv iota. left. reflexivity.
  - apply bytes_ok_cons in Hok. destruct Hok as [Hc Hok].
    cbv zeta. cbn [C_striptrailingwhitespace.loop1]. stw_simpl.
    cbn [rev]. rewrite zs_app, <- app_assoc. change (zs [c]) with [Z.of_N c]. cbn [app].
    rewrite hb2z_if. change (wrapu 32 0) with 0. change (wrapu 32 1) with 1.
    assert (Hl : Z.of_nat (length (c :: r)) = Z.of_nat (length r) + 1) by (cbn [length]; lia).
    rewrite Hl in *.
    destruct (Z.gtb_spec (Z.of_nat (length r) + 1) 0) as [_|Hbad]; [|lia].
    assert (Hw : wrapu 32 (Z.of_nat (length r) + 1 - 1) = Z.of_nat (length r)) by (rewrite wrapu32_small; lia).
    rewrite !Hw.
    match goal with |- context [rd ?a ?i] => replace (rd a i) with (Z.of_N c) end.
    2:{ rewrite Z.add_0_l, <- (rev_length r), <- (zs_length (rev r)). symmetry. apply rd_app_mid. }
    rewrite (stw_char c Hc). cbn [Route.strip_trailing_ws_rev].
    destruct (N.eqb c LF || N.eqb c SP || N.eqb c TAB)%bool.
    + apply (IH (Z.of_N c :: rest) f Hok); cbn [length] in Hfuel; lia.
    + right. rewrite Hl. reflexivity.
Qed.

(* REQUIRED: sa->len after striptrailingwhitespace is the length of the model's stripped line *)
Theorem gen_striptrailingwhitespace_eq : forall s : bytes, bytes_ok s -> Z.of_nat (length s) < 2 ^ 32 ->
  option_map (fun r => C_striptrailingwhitespace.v_sa__len (snd r))
    (C_striptrailingwhitespace.run (S (length s)) (zs s) (Z.of_nat (length s)))
  = Some (Z.of_nat (length (Route.strip_trailing_ws s))).
Proof.
  intros s Hs Hlen. rewrite p32 in Hlen.
  unfold C_striptrailingwhitespace.run, C_striptrailingwhitespace.body.
  assert (Hr : bytes_ok (rev s)).
  { unfold bytes_ok in *. rewrite Forall_forall in *. intros x Hx. apply Hs. apply in_rev. exact Hx. }
  pose proof (stw_loop (S (length s)) (rev s) [] (S (length s)) Hr) as H.
  rewrite rev_length, rev_involutive, app_nil_r in H.
  specialize (H Hlen (Nat.lt_succ_diag_r _)). cbv zeta in H.
  unfold Route.strip_trailing_ws. rewrite rev_length.
  destruct H as [H|H]; rewrite H; reflexivity.
Qed.
(* and the model's stripped line is a prefix of the line, so (array, len) is that line *)
Theorem strip_trailing_ws_prefix : forall s : bytes, Route.strip_trailing_ws s = firstn (length (Route.strip_trailing_ws s)) s.
Proof.
  intros s. unfold Route.strip_trailing_ws.
  destruct (strip_rev_suffix (rev s)) as [p Hp].
  remember (Route.strip_trailing_ws_rev (rev s)) as x eqn:Ex. clear Ex.
  assert (Hs : s = rev x ++ rev p).
  { rewrite <- (rev_involutive s), Hp, rev_app_distr. reflexivity. }
  rewrite Hs.
  rewrite firstn_app, Nat.sub_diag, firstn_all. cbn [firstn]. rewrite app_nil_r. reflexivity.
Qed.

(* ---------- hmatch ---------- *)
Ltac hm_simpl := cbv [C_hmatch.set_v_s C_hmatch.set_v_len C_hmatch.set_v_t C_hmatch.set_v_i C_hmatch.set_v_ch
                      C_hmatch.set_a_s C_hmatch.set_a_t
                      C_hmatch.v_s C_hmatch.v_len C_hmatch.v_t C_hmatch.v_i C_hmatch.v_ch C_hmatch.a_s C_hmatch.a_t].

Lemma hrd_zs_mid_n (pre : bytes) x (rest : bytes) tl (n : nat) : n = length pre ->
  rd (zs (pre ++ x :: rest) ++ tl) (Z.of_nat n) = Z.of_N x.
Proof. intros ->. apply hrd_zs_mid. Qed.
Lemma hrd_zs_end_n (s : bytes) x tl (n : nat) : n = length s -> rd (zs s ++ x :: tl) (Z.of_nat n) = x.
Proof. intros ->. apply hrd_zs_end. Qed.

(* the char read from s against a constant below 128 *)
Lemma hm_cmpk (k : N) (c : N) : (k < 128)%N -> (c < 256)%N -> (wraps 32 (wraps 8 (Z.of_N c)) =? Z.of_N k) = (c =? k)%N.
Proof.
  intros Hk Hc.
  assert (H8 : -128 <= wraps 8 (Z.of_N c) < 128) by (rewrite wraps8; lia).
  rewrite wraps32_small by lia.
  destruct (N.eqb_spec c k) as [->|Hne].
  - rewrite wraps8_small by lia. apply Z.eqb_refl.
  - apply Z.eqb_neq. rewrite wraps8. lia.
Qed.
Lemma hm_cmp58 c : (c < 256)%N -> (wraps 32 (wraps 8 (Z.of_N c)) =? 58) = (c =? 58)%N.
Proof. apply (hm_cmpk 58). reflexivity. Qed.
Lemma hm_cmp32 c : (c < 256)%N -> (wraps 32 (wraps 8 (Z.of_N c)) =? 32) = (c =? 32)%N.
Proof. apply (hm_cmpk 32). reflexivity. Qed.
Lemma hm_cmp9 c : (c < 256)%N -> (wraps 32 (wraps 8 (Z.of_N c)) =? 9) = (c =? 9)%N.
Proof. apply (hm_cmpk 9). reflexivity. Qed.

(* a character of the field name (32..127, held in ch as itself) against the char read from s *)
Lemma hm_eq1 (ch x : N) : (32 <= ch < 128)%N -> (x < 256)%N ->
  (wraps 32 (Z.of_N ch) =? wraps 32 (wraps 8 (Z.of_N x))) = (ch =? x)%N.
Proof.
  intros Hch Hx.
  assert (H8 : -128 <= wraps 8 (Z.of_N x) < 128) by (rewrite wraps8; lia).
  rewrite !wraps32_small by lia.
  destruct (N.eqb_spec ch x) as [<-|Hne].
  - rewrite wraps8_small by lia. apply Z.eqb_refl.
  - apply Z.eqb_neq. rewrite wraps8. lia.
Qed.
Lemma hm_eq45 (ch : N) : (32 <= ch < 128)%N -> (wraps 32 (Z.of_N ch) =? 45) = (ch =? 45)%N.
Proof.
  intros Hch. rewrite wraps32_small by lia.
  destruct (N.eqb_spec ch 45) as [->|Hne]; [reflexivity|]. apply Z.eqb_neq. lia.
Qed.
Lemma hm_eq2 (ch x : N) : (32 <= ch < 128)%N -> (x < 256)%N ->
  (wraps 32 (wraps 32 (Z.of_N ch) - 32) =? wraps 32 (wraps 8 (Z.of_N x))) = (ch - 32 =? x)%N.
Proof.
  intros Hch Hx.
  assert (H8 : -128 <= wraps 8 (Z.of_N x) < 128) by (rewrite wraps8; lia).
  rewrite (wraps32_small (Z.of_N ch)) by lia. rewrite !wraps32_small by lia.
  destruct (N.eqb_spec (ch - 32) x) as [E|Hne].
  - apply Z.eqb_eq. rewrite wraps8_small by lia. lia.
  - apply Z.eqb_neq. rewrite wraps8. lia.
Qed.

(* the second loop: blanks, then a colon *)
Lemma hm_loop2 (f0 : nat) (at_ : list Z) : forall (rs ps : bytes) (fuel : nat) (ch0 : Z),
  bytes_ok (ps ++ rs) -> Z.of_nat (length (ps ++ rs)) < 2147483648 -> (length rs < fuel)%nat ->
  exists st',
    C_hmatch.loop2 f0 fuel
      {| C_hmatch.v_s := 0; C_hmatch.v_len := Z.of_nat (length (ps ++ rs)); C_hmatch.v_t := 0;
         C_hmatch.v_i := Z.of_nat (length ps); C_hmatch.v_ch := ch0;
         C_hmatch.a_s := zs (ps ++ rs); C_hmatch.a_t := at_ |}
    = OReturn (b2z (Inject822.after_name rs)) st'.
Proof.
  induction rs as [|c rs IH]; intros ps fuel ch0 Hok Hlen Hfuel;
    (destruct fuel as [|f]; [cbn [length] in Hfuel; lia|]);
    cbn [C_hmatch.loop2]; change (1 =? 0) with false; cbv iota; hm_simpl; rewrite hb2z_if.
  - rewrite app_nil_r. rewrite Z.geb_leb, Z.leb_refl. rewrite hobind_return.
    cbn [Inject822.after_name b2z]. eexists. reflexivity.
  - pose proof (hbytes_ok_mid ps c rs Hok) as Hc.
    assert (Hge : (Z.of_nat (length ps) >=? Z.of_nat (length (ps ++ c :: rs))) = false).
    { rewrite Z.geb_leb. apply Z.leb_gt. rewrite app_length. cbn [length]. lia. }
    rewrite Hge. rewrite hobind_normal. cbv beta. hm_simpl.
    rewrite Z.add_0_l, hrd_zs_mid0, (hm_cmp58 c Hc), hb2z_if.
    cbn [Inject822.after_name].
    destruct (c =? 58)%N.
    + rewrite hobind_return. eexists. reflexivity.
    + rewrite hobind_normal. cbv beta. hm_simpl.
      rewrite (hm_cmp32 c Hc), (hm_cmp9 c Hc), hc_and, hb2z_if.
      destruct (c =? 32)%N, (c =? 9)%N; cbn [negb andb orb];
        try (rewrite hobind_return; eexists; reflexivity);
        rewrite hobind_normal; cbv beta; hm_simpl;
        rewrite (hsnoc_assoc ps c rs) in *;
        (assert (Hl : Z.of_nat (length ps) + 1 <= Z.of_nat (length ((ps ++ [c]) ++ rs)))
           by (rewrite <- (hlen_snoc ps c), (app_length (ps ++ [c])); lia));
        rewrite wraps32_small by lia; rewrite <- (hlen_snoc ps c);
        (apply IH; [exact Hok|exact Hlen|cbn [length] in Hfuel; lia]).
Qed.

(* the name loop followed by the second loop *)
Lemma hm_loops (f0 : nat) : forall (rt rs ps pt : bytes) (fuel : nat) (ch0 : Z),
  bytes_ok (ps ++ rs) -> Forall (fun c => (32 <= c < 128)%N) rt -> length ps = length pt ->
  Z.of_nat (length (ps ++ rs)) < 2147483648 -> (length rt < fuel)%nat -> (length rs < f0)%nat ->
  exists st',
    obind (C_hmatch.loop1 f0 fuel
      {| C_hmatch.v_s := 0; C_hmatch.v_len := Z.of_nat (length (ps ++ rs)); C_hmatch.v_t := 0;
         C_hmatch.v_i := Z.of_nat (length ps); C_hmatch.v_ch := ch0;
         C_hmatch.a_s := zs (ps ++ rs); C_hmatch.a_t := zs (pt ++ rt) ++ [0] |})
      (fun st => C_hmatch.loop2 f0 f0 st)
    = OReturn (b2z (Inject822.hmatch rs rt)) st'.
Proof.
  induction rt as [|ch rt IH]; intros rs ps pt fuel ch0 Hok Ht Hpp Hlen Hfuel Hf0;
    (destruct fuel as [|f]; [cbn [length] in Hfuel; lia|]);
    cbn [C_hmatch.loop1]; hm_simpl; rewrite !Z.add_0_l.
  - rewrite app_nil_r. rewrite (hrd_zs_end_n pt 0 [] (length ps) Hpp).
    change (wraps 8 0 =? 0) with true. cbv iota. rewrite hobind_normal.
    replace (Inject822.hmatch rs []) with (Inject822.after_name rs) by (destruct rs; reflexivity).
    apply hm_loop2; assumption.
  - inversion Ht as [|? ? Hch Ht']; subst.
    rewrite (hrd_zs_mid_n pt ch rt [0] (length ps) Hpp).
    rewrite (wraps8_small (Z.of_N ch)) by lia.
    destruct (Z.eqb_spec (Z.of_N ch) 0) as [Hz|_]; [lia|].
    rewrite hb2z_if.
    destruct rs as [|x rs].
    + rewrite app_nil_r. rewrite Z.geb_leb, Z.leb_refl. rewrite !hobind_return.
      cbn [Inject822.hmatch b2z]. eexists. reflexivity.
    + pose proof (hbytes_ok_mid ps x rs Hok) as Hx.
      assert (Hge : (Z.of_nat (length ps) >=? Z.of_nat (length (ps ++ x :: rs))) = false).
      { rewrite Z.geb_leb. apply Z.leb_gt. rewrite app_length. cbn [length]. lia. }
      rewrite Hge. rewrite hobind_normal. cbv beta. hm_simpl.
      rewrite !Z.add_0_l, hrd_zs_mid0.
      rewrite (hm_eq1 ch x Hch Hx), (hm_eq45 ch Hch), hb2z_if.
      cbn [Inject822.hmatch].
      assert (H32 : (32 <=? ch)%N = true) by (apply N.leb_le; lia).
      rewrite H32, andb_true_r.
      assert (Hnext : exists st',
        obind (C_hmatch.loop1 f0 f
          {| C_hmatch.v_s := 0; C_hmatch.v_len := Z.of_nat (length (ps ++ x :: rs)); C_hmatch.v_t := 0;
             C_hmatch.v_i := wraps 32 (Z.of_nat (length ps) + 1); C_hmatch.v_ch := Z.of_N ch;
             C_hmatch.a_s := zs (ps ++ x :: rs); C_hmatch.a_t := zs (pt ++ ch :: rt) ++ [0] |})
          (fun st => C_hmatch.loop2 f0 f0 st)
        = OReturn (b2z (Inject822.hmatch rs rt)) st').
      { rewrite (hsnoc_assoc ps x rs) in *. rewrite (hsnoc_assoc pt ch rt).
        assert (Hl : Z.of_nat (length ps) + 1 <= Z.of_nat (length ((ps ++ [x]) ++ rs)))
          by (rewrite <- (hlen_snoc ps x), (app_length (ps ++ [x])); lia).
        rewrite wraps32_small by lia. rewrite <- (hlen_snoc ps x).
        apply IH; [exact Hok|exact Ht'| |exact Hlen|cbn [length] in Hfuel; lia|cbn [length] in Hf0; lia].
        rewrite !app_length. cbn [length]. lia. }
      destruct (ch =? x)%N; cbn [negb orb].
      * exact Hnext.
      * rewrite hb2z_if. destruct (ch =? 45)%N; cbn [negb andb].
        -- rewrite !hobind_return. eexists. reflexivity.
        -- rewrite hobind_normal. cbv beta. hm_simpl.
           rewrite !Z.add_0_l, hrd_zs_mid0, (hm_eq2 ch x Hch Hx), hb2z_if.
           destruct (ch - 32 =? x)%N; cbn [negb].
           ++ exact Hnext.
           ++ rewrite !hobind_return. eexists. reflexivity.
Qed.

(* REQUIRED: hmatch(s, len, t) for a field name t of printable ASCII (the hname[] table: lower case letters and '-') *)
Theorem gen_hmatch_eq : forall s t : bytes, bytes_ok s -> Forall (fun c => (32 <= c < 128)%N) t -> Z.of_nat (length s) < 2 ^ 31 ->
  Z.of_nat (length t) < 2 ^ 31 ->
  retval (C_hmatch.run (S (length s + length t)) (zs s) 0 (Z.of_nat (length s)) (zs t ++ [0]) 0) = Some (b2z (Inject822.hmatch s t)).
Proof.
  intros s t Hs Ht Hls Hlt. rewrite p31 in Hls.
  unfold C_hmatch.run, C_hmatch.body. rewrite hobind_normal. hm_simpl.
  destruct (hm_loops (S (length s + length t)) t s [] [] (S (length s + length t)) 0 Hs Ht eq_refl Hls
              ltac:(lia) ltac:(lia)) as [st' H].
  cbn [app length] in H. change (Z.of_nat 0) with 0 in H. rewrite H. reflexivity.
Qed.

(* ---------- atomcheck ---------- *)
Ltac ac_simpl := cbv [C_atomcheck.set_v_i C_atomcheck.set_v_ch C_atomcheck.set_v_t__slen C_atomcheck.set_v_t__type
                      C_atomcheck.set_a_t__s
                      C_atomcheck.v_i C_atomcheck.v_ch C_atomcheck.v_t__slen C_atomcheck.v_t__type C_atomcheck.a_t__s].

(* ch < 32 || ch > 126 || ch == ')' || ch == ']' || ch == '\\' on a signed char: bytes >= 128 are negative, hence < 32 *)
Notation ac_ch c := (wraps 32 (wraps 8 (Z.of_N c))) (only parsing).
Lemma ac_char (c : N) : (c < 256)%N ->
  ((ac_ch c <? 32) || (ac_ch c >? 126) || (ac_ch c =? 41) || (ac_ch c =? 93) || (ac_ch c =? 92))%bool = Tok.atom_bad c.
Proof.
  intros H. apply eqb_prop. revert c H. apply byte_sweep. vm_compute. reflexivity.
Qed.

Lemma ac_loop (f0 : nat) : forall (rest pre : bytes) (fuel : nat) (ch0 : Z),
  bytes_ok (pre ++ rest) -> Z.of_nat (length (pre ++ rest)) < 2147483648 -> (length rest < fuel)%nat ->
  exists o st',
    C_atomcheck.loop1 f0 fuel
      {| C_atomcheck.v_i := Z.of_nat (length pre); C_atomcheck.v_ch := ch0;
         C_atomcheck.v_t__slen := Z.of_nat (length (pre ++ rest)); C_atomcheck.v_t__type := 1;
         C_atomcheck.a_t__s := zs (pre ++ rest) |} = o
    /\ (o = ONormal st' \/ o = OReturn 0 st')
    /\ C_atomcheck.v_t__type st' = if existsb Tok.atom_bad rest then 2 else 1.
Proof.
  induction rest as [|c rest IH]; intros pre fuel ch0 Hok Hlen Hfuel;
    (destruct fuel as [|f]; [cbn [length] in Hfuel; lia|]).
  - cbn [C_atomcheck.loop1]. ac_simpl. rewrite app_nil_r, Z.ltb_irrefl.
    change (b2z false =? 0) with true. cbv iota.
    eexists. eexists. split; [reflexivity|]. split; [left; reflexivity|]. reflexivity.
  - pose proof (hbytes_ok_mid pre c rest Hok) as Hc.
    cbn [C_atomcheck.loop1]. ac_simpl.
    rewrite hb2z_if.
    destruct (Z.ltb_spec (Z.of_nat (length pre)) (Z.of_nat (length (pre ++ c :: rest)))) as [_|Hbad];
      [|rewrite app_length in Hbad; cbn [length] in Hbad; lia].
    rewrite Z.add_0_l, hrd_zs_mid0.
    rewrite !hc_or, hb2z_if, (ac_char c Hc).
    cbn [existsb].
    destruct (Tok.atom_bad c) eqn:E; cbn [orb].
    + eexists. eexists. split; [reflexivity|]. split; [right; reflexivity|]. reflexivity.
    + rewrite (hsnoc_assoc pre c rest) in *.
      assert (Hl : Z.of_nat (length pre) + 1 <= Z.of_nat (length ((pre ++ [c]) ++ rest))).
      { rewrite <- (hlen_snoc pre c), (app_length (pre ++ [c])). lia. }
      rewrite wraps32_small by lia. rewrite <- (hlen_snoc pre c).
      apply IH; [exact Hok|exact Hlen|cbn [length] in Hfuel; lia].
Qed.

(* REQUIRED: atomcheck turns an atom (type 1) into a quoted string (type 2) exactly when the model's atom_bad finds a bad character *)
Theorem gen_atomcheck_eq : forall s : bytes, bytes_ok s -> Z.of_nat (length s) < 2 ^ 31 ->
  option_map (fun r => C_atomcheck.v_t__type (snd r)) (C_atomcheck.run (S (length s)) (zs s) (Z.of_nat (length s)) 1)
  = Some (if existsb Tok.atom_bad s then 2 else 1).
Proof.
  intros s Hs Hlen. rewrite p31 in Hlen.
  unfold C_atomcheck.run, C_atomcheck.body. rewrite hobind_normal. ac_simpl.
  destruct (ac_loop (S (length s)) s [] (S (length s)) 0 Hs Hlen (Nat.lt_succ_diag_r _)) as (o & st' & Hl & Ho & Ht).
  cbn [app length] in Hl. change (Z.of_nat 0) with 0 in Hl. rewrite Hl.
  destruct Ho as [-> | ->]; cbn [option_map snd]; f_equal; exact Ht.
Qed.

