(* tie for C06: blast() of today's qmail-remote.c, translated to Gallina by tools/c2gallina.py on every run (gen/CGen.v,
   module C_rblast), is the model's encoder for every queued message: the bytes put on the connection are exactly
   rblast's output when the model accepts the message, and the generated code leaves through perm_partialline() exactly
   when the model refuses it (a message that does not end with a newline) *)
From Coq Require Import ZArith NArith List.
From NQ Require Import Base.MiniC Base.Bytes Smtp.Codec gen.CGen Tie.GenCommon Tie.Gen_codec.
Import ListNotations.
Local Open Scope Z_scope.
Lemma tie_generated_rblast : forall (m o : bytes) (fc : Z), bytes_ok m -> Z.of_nat (length m) < 2 ^ 31 -> rblast m = Some o ->
  option_map (fun r => (fst r, C_rblast.a_smtpto__out (snd r))) (C_rblast.run (S (S (length m))) (zs m) 0 [] fc) = Some (0, zs o).
Proof. exact gen_rblast_eq. Qed.
Lemma tie_generated_rblast_refuses : forall (m : bytes) (fc : Z), bytes_ok m -> Z.of_nat (length m) < 2 ^ 31 -> rblast m = None ->
  retval (C_rblast.run (S (S (length m))) (zs m) 0 [] fc) = Some (-3).
Proof. exact gen_rblast_none. Qed.
