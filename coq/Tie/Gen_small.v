(* received.c issafe(), dns.c getshort(), token822.c atomcheck() as generated from today's sources = the models
   (Smtp/Smtpd.v issafe: what a peer-controlled string may contribute to the Received field, C07; Mem/DnsParse.v getshort;
   Addr/Tok.v atom_bad / mk_atom: which atoms are turned into quoted strings, C17) *)
From Coq Require Import ZArith NArith List Lia Bool.
From NQ Require Import Base.MiniC Base.Bytes Smtp.Smtpd Mem.DnsParse Addr.Tok gen.CGen Tie.GenCommon.
Import ListNotations.
Local Open Scope Z_scope.

(* every byte value, as the signed char the C function receives *)
Lemma issafe_sweep : forallb (fun n => match retval (C_issafe.run 1 (wraps 8 (Z.of_nat n))) with
                                      | Some v => v =? b2z (Smtpd.issafe (N.of_nat n)) | None => false end) (seq 0 256) = true.
Proof. vm_compute. reflexivity. Qed.
Theorem gen_issafe_eq : forall c : N, (c < 256)%N ->
  retval (C_issafe.run 1 (wraps 8 (Z.of_N c))) = Some (b2z (Smtpd.issafe c)).
Proof.
  intros c Hc. pose proof issafe_sweep as H. rewrite forallb_forall in H.
  specialize (H (N.to_nat c)). rewrite in_seq in H. rewrite N2Nat.id, N_nat_Z in H.
  assert (Hr : (0 <= N.to_nat c < 0 + 256)%nat) by lia. specialize (H Hr).
  destruct (retval (C_issafe.run 1 (wraps 8 (Z.of_N c)))) as [v|]; [|discriminate].
  apply Z.eqb_eq in H. rewrite H. reflexivity.
Qed.

(* getshort: big-endian 16 bits from two bytes *)
Lemma getshort_sweep : forallb (fun a => forallb (fun b =>
    match retval (C_getshort.run 1 [Z.of_nat a; Z.of_nat b] 0) with Some v => v =? 256 * Z.of_nat a + Z.of_nat b | None => false end) (seq 0 256)) (seq 0 256) = true.
Proof. vm_compute. reflexivity. Qed.
Theorem gen_getshort_eq : forall (buf : Z -> Z) (p : Z), 0 <= buf p < 256 -> 0 <= buf (p + 1) < 256 ->
  retval (C_getshort.run 1 [buf p; buf (p + 1)] 0) = Some (DnsParse.getshort buf p).
Proof.
  intros buf p H0 H1. pose proof getshort_sweep as H. rewrite forallb_forall in H.
  assert (Hr : In (Z.to_nat (buf p)) (seq 0 256)) by (apply in_seq; lia).
  specialize (H _ Hr). rewrite forallb_forall in H.
  assert (Hr2 : In (Z.to_nat (buf (p + 1))) (seq 0 256)) by (apply in_seq; lia).
  specialize (H _ Hr2). rewrite !Z2Nat.id in H by lia.
  destruct (retval (C_getshort.run 1 [buf p; buf (p + 1)] 0)) as [v|]; [|discriminate].
  apply Z.eqb_eq in H. rewrite H. reflexivity.
Qed.

(* ---- token822.c needspace() and atomok(): finite domains, by sweep ---- *)
(* token types as in token822.h: 0 none, 1 atom, 2 quote, 3 literal, 4 comment, 5 left, 6 right, 7 at, 8 comma, 9 semi, 10 colon, 11 dot *)
Definition class_of_type (t : nat) : tclass :=
  match t with
  | 0 => KNone | 1 | 2 | 3 | 4 => KWord | 5 => KLeft | 8 => KComma | 10 => KColon | _ => KOther
  end%nat.
Lemma needspace_sweep : forallb (fun a => forallb (fun b =>
    match retval (C_needspace.run 1 (Z.of_nat a) (Z.of_nat b)) with
    | Some v => v =? b2z (Tok.needspace (class_of_type a) (class_of_type b)) | None => false end) (seq 0 12)) (seq 0 12) = true.
Proof. vm_compute. reflexivity. Qed.
Theorem gen_needspace_eq : forall a b : nat, (a < 12)%nat -> (b < 12)%nat ->
  retval (C_needspace.run 1 (Z.of_nat a) (Z.of_nat b)) = Some (b2z (Tok.needspace (class_of_type a) (class_of_type b))).
Proof.
  intros a b Ha Hb. pose proof needspace_sweep as H. rewrite forallb_forall in H.
  assert (Ia : In a (seq 0 12)) by (apply in_seq; lia). specialize (H _ Ia). rewrite forallb_forall in H.
  assert (Ib : In b (seq 0 12)) by (apply in_seq; lia). specialize (H _ Ib).
  destruct (retval (C_needspace.run 1 (Z.of_nat a) (Z.of_nat b))) as [v|]; [|discriminate].
  apply Z.eqb_eq in H. rewrite H. reflexivity.
Qed.
Lemma atomok_sweep : forallb (fun n => match retval (C_atomok.run 1 (wraps 8 (Z.of_nat n))) with
                                      | Some v => v =? b2z (Tok.atomok (N.of_nat n)) | None => false end) (seq 0 256) = true.
Proof. vm_compute. reflexivity. Qed.
Theorem gen_atomok_eq : forall c : N, (c < 256)%N ->
  retval (C_atomok.run 1 (wraps 8 (Z.of_N c))) = Some (b2z (Tok.atomok c)).
Proof.
  intros c Hc. pose proof atomok_sweep as H. rewrite forallb_forall in H.
  assert (I : In (N.to_nat c) (seq 0 256)) by (apply in_seq; lia). specialize (H _ I). rewrite N2Nat.id, N_nat_Z in H.
  destruct (retval (C_atomok.run 1 (wraps 8 (Z.of_N c)))) as [v|]; [|discriminate].
  apply Z.eqb_eq in H. rewrite H. reflexivity.
Qed.
